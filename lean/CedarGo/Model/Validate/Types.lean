/-
  C15 — types of the validator model (`x/exp/schema/validate/cedar_type.go`, `capability.go`,
  `request_env.go`), restricted to what the FRAGMENT of `Check.lean` needs.  Core Lean only
  (linked into the `driver` executable).

  * `Ty` mirrors `cedarType` (one constructor per Go struct) plus `Ty.nil` for the Go value
    `cedarType(nil)` that `typeOfExtensionCall` returns WITHOUT an error for an unknown function
    applied to zero arguments.
  * record attribute maps are association lists (first match wins; built with `attrInsert`, so keys
    are unique as in a Go map); entity LUBs are SORTED duplicate-free lists of entity type names, as in Go
    (`unionTys`).
  * `EntityDecl` / `TEnv.entityDecls` / `TEnv.actionParents`: what the checker reads of `schema.Entities` (attribute
    record type, tag type, `ParentTypes`) and of the action hierarchy; `lookupEntityAttr`, `entityHasTags`,
    `entityTagType`, `isEntityDescendant` / `anyEntityDescendantOf` (depth-first search with a visited set),
    `isActionDescendant` / `isActionInSet`, `exprToActionEUID(s)` mirror the Go functions of the same names.
  * `lub` = `leastUpperBound` / `lubRecord` / `unionLUB`, with the strict/permissive distinction.
    With `dom = true` (the domain of the soundness theorem) the permissive branch that silently
    DROPS an attribute whose types are incompatible fails instead (see `C15_lub_drop_counterexample`).
-/
import CedarGo.Model.Eval
import CedarGo.Model.Schema.Resolve
namespace CedarGo.Validate
open CedarGo

inductive ExtTy where
  | decimal | datetime | duration | ipaddr
deriving DecidableEq, Repr, Inhabited

inductive Ty where
  | nil                                   -- Go `cedarType(nil)` together with a nil error
  | never | tt | ff | bool | long | string
  | set (elem : Ty)
  | record (attrs : List (String × Ty × Bool))   -- attribute name ↦ (type, required)
  | entity (tys : List String)                    -- entityLUB.elements
  | ext (x : ExtTy)
deriving Repr, Inhabited

abbrev Attrs := List (String × Ty × Bool)

def lookupAttr (k : String) : Attrs → Option (Ty × Bool)
  | [] => none
  | (k', t, r) :: rest => if k == k' then some (t, r) else lookupAttr k rest

def hasKey (k : String) (as : Attrs) : Bool := (lookupAttr k as).isSome

/-- Go map assignment `attrs[k] = …` -/
def attrInsert (k : String) (t : Ty) (req : Bool) (as : Attrs) : Attrs :=
  (k, t, req) :: as.filter (fun a => !(a.1 == k))

def Ty.isNil : Ty → Bool | .nil => true | _ => false
def Ty.isNever : Ty → Bool | .never => true | _ => false
def isBoolTy : Ty → Bool | .bool | .tt | .ff => true | _ => false
def isSetTy : Ty → Bool | .set _ => true | _ => false

/-- insertion into a sorted duplicate-free list of entity type names -/
def insertTy (t : String) : List String → List String
  | [] => [t]
  | x :: xs => if t < x then t :: x :: xs else if t == x then x :: xs else x :: insertTy t xs

/-- `unionLUB`: `append`, `slices.Sort`, `slices.Compact` — the sorted duplicate-free union (the ORDER is observable:
    `lookupEntityAttr` / `entityTagType` fold the least upper bound over the elements in this order) -/
def unionTys (a b : List String) : List String := (a ++ b).foldr insertTy []

/-- `entityLUB.isDisjoint` -/
def disjointTys (a b : List String) : Bool := a.all (fun t => !b.contains t)

/-- `areTypesDisjoint` -/
def areTypesDisjoint : Ty → Ty → Bool
  | .entity a, .entity b => disjointTys a b
  | _, _ => false

/-- `checkStrictEntityLUB`: `true` = no error -/
def strictEntityOK (strict : Bool) : Ty → Ty → Bool
  | .entity a, .entity b => !strict || a.any (fun t => b.contains t)
  | _, _ => true

mutual
/-- `Validator.leastUpperBound`; `none` = error -/
def lub (dom strict : Bool) : Ty → Ty → Option Ty
  | a, .never => some a
  | .nil, _ => none
  | .never, b => some b
  | .tt, .tt => some .tt
  | .tt, .ff => some .bool
  | .tt, .bool => some .bool
  | .ff, .ff => some .ff
  | .ff, .tt => some .bool
  | .ff, .bool => some .bool
  | .bool, .tt => some .bool
  | .bool, .ff => some .bool
  | .bool, .bool => some .bool
  | .long, .long => some .long
  | .string, .string => some .string
  | .set a, .set b => (lub dom strict a b).map .set
  | .record a, .record b =>
    -- strict mode: records with different key sets cannot be combined
    if strict && (a.length != b.length || !(a.all (fun x => hasKey x.1 b))) then none else
    match lubAttrs dom strict a b with
    | none => none
    | some r => some (.record (r ++ (b.filter (fun x => !hasKey x.1 a)).map (fun x => (x.1, x.2.1, false))))
  | .entity a, .entity b => some (.entity (unionTys a b))
  | .ext x, .ext y => if x = y then some (.ext x) else none
  | _, _ => none
/-- first loop of `lubRecord`: the attributes of `a` -/
def lubAttrs (dom strict : Bool) : Attrs → Attrs → Option Attrs
  | [], _ => some []
  | (k, ta, ra) :: rest, b =>
    match lookupAttr k b with
    | none => (lubAttrs dom strict rest b).map ((k, ta, false) :: ·)
    | some (tb, rb) =>
      match lub dom strict ta tb with
      | some t => (lubAttrs dom strict rest b).map ((k, t, ra && rb) :: ·)
      | none =>
        -- strict: error.  permissive: Go DROPS the attribute (`continue`) — outside the proved domain
        if strict || dom then none else lubAttrs dom strict rest b
end

/-! ## Capabilities (`capability.go`): a set of (access path, attribute) pairs.
   A path (`capPath`: a variable name, or `capAccess{base, attr}` on another path, compared structurally by Go's `==`) is
   the list `[variable, attr₁, …, attrₙ]`.  Tag capabilities (`tag: true`, from `hasTag`) are a separate name space:
   the third component. -/

abbrev Caps := List (List String × String × Bool)   -- (path, attribute or tag key, `tag`)

def Caps.has (cs : Caps) (p : List String) (a : String) : Bool := cs.contains (p, a, false)
def Caps.add (cs : Caps) (p : List String) (a : String) : Caps := (p, a, false) :: cs
/-- tag capabilities (`capability{tag: true}`, from `hasTag`): a separate name space -/
def Caps.hasTag (cs : Caps) (p : List String) (k : String) : Bool := cs.contains (p, k, true)
def Caps.addTag (cs : Caps) (p : List String) (k : String) : Caps := (p, k, true) :: cs
def Caps.merge (a b : Caps) : Caps := a ++ b
def Caps.intersect (a b : Caps) : Caps := a.filter (fun c => b.contains c)

def varNameStr : Var → String
  | .principal => "principal" | .action => "action" | .resource => "resource" | .context => "context"

/-- `exprCapPath`: the capability path of a variable-rooted access chain — the variable followed by the accessed
    attribute names — `[]` (Go `nil`) for any other expression.  Injective on variable-rooted chains
    (`exprCapPath_inj`).  (Before the repair of `capability-path-collision` the key was the DOTTED RENDERING of the
    chain, `exprVarName`, which conflates `context["a.b"]` with `context.a.b`.) -/
def exprCapPath : Expr → List String
  | .var v => [varNameStr v]
  | .access e a =>
    let p := exprCapPath e
    if p.isEmpty then [] else p ++ [a]
  | _ => []

/-- `exprVarName` (now used for error messages only): the dotted rendering of a variable-rooted access chain, as the
    character list of the Go string; `[]` (Go `""`) otherwise.  NOT injective. -/
def exprVarName : Expr → List Char
  | .var v => (varNameStr v).toList
  | .access e a =>
    let p := exprVarName e
    if p.isEmpty then [] else p ++ '.' :: a.toList
  | _ => []

/-- `tagCapabilityKey`: the key of a string-literal tag operand, `""` otherwise -/
def tagCapabilityKey : Expr → String
  | .lit (.str s) => s
  | _ => ""

/-! ## Type environment: one `requestEnv` plus what the type checker reads of the schema -/

/-- `resolved.Entity`: `Shape` (as converted by `schemaRecordToCedarType`), `Tags`, `ParentTypes` -/
structure EntityDecl where
  attrs : Attrs
  tags : Option Ty
  parents : List String
deriving Repr, Inhabited

structure TEnv where
  principalType : String
  action : UID
  resourceType : String
  context : Attrs
  entityTypes : List String     -- declared entity types and enum types (`isKnownEntityType`)
  actions : List UID            -- every action of the schema
  strict : Bool
  entityDecls : List (String × EntityDecl) := []   -- `schema.Entities` (enum and action types have no entry)
  actionParents : List (UID × List UID) := []      -- `schema.Actions[uid].Entity.Parents`
deriving Repr, Inhabited

/-- `v.schema.Entities[et]`: the zero `resolved.Entity` for a type without an entry (enum types, action types) -/
def declOf (Γ : TEnv) (t : String) : EntityDecl :=
  match Γ.entityDecls.lookup t with
  | some d => d
  | none => ⟨[], none, []⟩

def entityParentsOf (Γ : TEnv) (t : String) : List String := (declOf Γ t).parents

def actionParentsOf (Γ : TEnv) (u : UID) : List UID :=
  match Γ.actionParents.lookup u with
  | some ps => ps
  | none => []

/-- `isActionEntity` -/
def isActionEntity (t : String) : Bool := t == "Action" || t.endsWith "::Action"

/-- `typeOfEntityUID`; `none` = "unrecognized entity type / action" -/
def typeOfEntityUID (Γ : TEnv) (t i : String) : Option Ty :=
  if Γ.entityTypes.contains t then some (.entity [t])
  else if isActionEntity t && Γ.actions.contains (t, i) then some (.entity [t])
  else none

def typeOfVar (Γ : TEnv) : Var → Ty
  | .principal => .entity [Γ.principalType]
  | .action => .entity [Γ.action.1]
  | .resource => .entity [Γ.resourceType]
  | .context => .record Γ.context

def isEntityTy : Ty → Bool | .entity _ => true | _ => false

/-- `isEntityOrSetOfEntity` -/
def isEntityOrSetOfEntity : Ty → Bool
  | .entity _ => true
  | .set .never => true
  | .set (.entity _) => true
  | _ => false

/-- `lookupEntityAttr`: the attribute must exist on EVERY element of the LUB; its type is the least upper bound of the
    declared types (folded in the order of the elements), required iff required everywhere.  `none` = Go `nil` -/
def lookupEntityAttrGo (dom strict : Bool) (Γ : TEnv) (a : String) : Option (Ty × Bool) → List String → Option (Ty × Bool)
  | res, [] => res
  | res, t :: ts =>
    match lookupAttr a (declOf Γ t).attrs with
    | none => none
    | some (ty, req) =>
      match res with
      | none => lookupEntityAttrGo dom strict Γ a (some (ty, req)) ts
      | some (rty, rreq) =>
        match lub dom strict rty ty with
        | none => none
        | some u => lookupEntityAttrGo dom strict Γ a (some (u, rreq && req)) ts

def lookupEntityAttr (dom strict : Bool) (Γ : TEnv) (tys : List String) (a : String) : Option (Ty × Bool) :=
  lookupEntityAttrGo dom strict Γ a none tys

/-- `hasResultTypeEntity` says `Bool` iff SOME element of the LUB declares the attribute (never `True`) -/
def anyHasAttr (Γ : TEnv) (tys : List String) (a : String) : Bool := tys.any (fun t => hasKey a (declOf Γ t).attrs)

/-- `entityHasTags`: SOME element of the LUB declares tags (only then can an entity of the LUB carry a tag).  Before the
    repair of `hastag-lub-mixed-tags` the Go function demanded tags on EVERY element. -/
def entityHasTags (Γ : TEnv) (tys : List String) : Bool := tys.any (fun t => (declOf Γ t).tags.isSome)

/-- `entityTagType`: LUB of the tag types of the elements that declare tags (elements without tags are skipped: an entity
    carrying a tag has one of the other types); `Never` if none does; `none` = error -/
def entityTagType (dom strict : Bool) (Γ : TEnv) : Ty → List String → Option Ty
  | acc, [] => some acc
  | acc, t :: ts =>
    match (declOf Γ t).tags with
    | none => entityTagType dom strict Γ acc ts
    | some tagTy =>
      match lub dom strict acc tagTy with
      | none => none
      | some u => entityTagType dom strict Γ u ts

/-- `isEntityDescendant`: depth-first search over `ParentTypes` with a visited set (`Schema.descVisFuel`, shared with
    C16, where the search is proved total within this fuel); `none` = out of fuel -/
def isEntityDescendant (Γ : TEnv) (child anc : String) : Option Bool :=
  (Schema.descVisFuel (entityParentsOf Γ) (Γ.entityDecls.length + 1) child anc []).map (·.1)

/-- inner loop of `anyEntityDescendantOf`.  An ACTION entity type may be below an action entity type of any name: action
    membership is given by the action hierarchy (a group may be declared in another namespace), not by `ParentTypes`
    (repair of `in-action-type-cross-namespace`) -/
def anyDescInner (Γ : TEnv) (lt : String) : List String → Option Bool
  | [] => some false
  | rt :: rs =>
    if lt == rt then some true else
    if isActionEntity lt && isActionEntity rt then some true else
    match isEntityDescendant Γ lt rt with
    | none => none
    | some true => some true
    | some false => anyDescInner Γ lt rs

/-- `anyEntityDescendantOf` -/
def anyEntityDescendantOf (Γ : TEnv) : List String → List String → Option Bool
  | [], _ => some false
  | lt :: ls, rhs =>
    match anyDescInner Γ lt rhs with
    | none => none
    | some true => some true
    | some false => anyEntityDescendantOf Γ ls rhs

/-- `isActionDescendant` (policy.go): plain recursive descent over the action parents, NO visited set
    (`Schema.descFuel`); `none` = out of fuel (the Go code does not return: cyclic action hierarchies are rejected by
    schema resolution) -/
def isActionDescendant (Γ : TEnv) (a anc : UID) : Option Bool :=
  Schema.descFuel (actionParentsOf Γ) (Γ.actionParents.length + 1) a anc

/-- `isActionInSet`: `getActionsInSet(targets)` = the targets and every schema action below one of them -/
def isActionInSet (Γ : TEnv) (a : UID) : List UID → Option Bool
  | [] => some false
  | t :: ts =>
    if a == t then some true
    else if !Γ.actions.contains a then isActionInSet Γ a ts
    else match isActionDescendant Γ a t with
      | none => none
      | some true => some true
      | some false => isActionInSet Γ a ts

/-- `exprToActionEUID` -/
def exprToActionEUID (Γ : TEnv) : Expr → Option UID
  | .var .action => some Γ.action
  | .lit (.entity t i) => if Γ.actions.contains (t, i) then some (t, i) else none
  | _ => none

/-- element of a set literal in `exprToActionEUIDs`: an action, or any other entity literal -/
def setElemEUID (Γ : TEnv) (e : Expr) : Option UID :=
  match exprToActionEUID Γ e with
  | some u => some u
  | none => match e with
    | .lit (.entity t i) => some (t, i)
    | _ => none

/-- `exprToActionEUIDs`; `none` = Go `nil` (an EMPTY set literal yields the nil slice too) -/
def exprToActionEUIDs (Γ : TEnv) (e : Expr) : Option (List UID) :=
  match exprToActionEUID Γ e with
  | some u => some [u]
  | none => match e with
    | .set es => if es.isEmpty then none else es.mapM (setElemEUID Γ)
    | _ => none

/-- `expectComparable` -/
def isComparable : Ty → Bool
  | .long | .ext .datetime | .ext .duration => true
  | _ => false

/-- what the comparison SHOULD also check (and Rust Cedar does): both sides the same comparable type -/
def sameComparable : Ty → Ty → Bool
  | .long, .long | .ext .datetime, .ext .datetime | .ext .duration, .ext .duration => true
  | _, _ => false

/-- `extFuncTypes`: name ↦ (isConstructor, argument types, return type) -/
def extFuncSig (fn : String) : Option (Bool × List Ty × Ty) :=
  if fn == "ip" then some (true, [.string], .ext .ipaddr)
  else if fn == "decimal" then some (true, [.string], .ext .decimal)
  else if fn == "datetime" then some (true, [.string], .ext .datetime)
  else if fn == "duration" then some (true, [.string], .ext .duration)
  else if fn == "lessThan" || fn == "lessThanOrEqual" || fn == "greaterThan" || fn == "greaterThanOrEqual" then
    some (false, [.ext .decimal, .ext .decimal], .bool)
  else if fn == "isIpv4" || fn == "isIpv6" || fn == "isLoopback" || fn == "isMulticast" then some (false, [.ext .ipaddr], .bool)
  else if fn == "isInRange" then some (false, [.ext .ipaddr, .ext .ipaddr], .bool)
  else if fn == "toDate" then some (false, [.ext .datetime], .ext .datetime)
  else if fn == "toTime" then some (false, [.ext .datetime], .ext .duration)
  else if fn == "offset" then some (false, [.ext .datetime, .ext .duration], .ext .datetime)
  else if fn == "durationSince" then some (false, [.ext .datetime, .ext .datetime], .ext .duration)
  else if fn == "toDays" || fn == "toHours" || fn == "toMinutes" || fn == "toSeconds" || fn == "toMilliseconds" then
    some (false, [.ext .duration], .long)
  else none

/-- `isSubtype` as used for extension-function arguments -/
def isSubtypeArg : Ty → Ty → Bool
  | .string, .string => true
  | .ext x, .ext y => x == y
  | _, _ => false

/-- `validateExtensionValue`: the literal must parse -/
def validExtLiteral (fn s : String) : Bool :=
  if fn == "ip" then (Scalars.parseIP s).toBool
  else if fn == "decimal" then (Scalars.parseDecimal s).toBool
  else if fn == "datetime" then (Scalars.parseDatetime s).toBool
  else if fn == "duration" then (Scalars.parseDuration s).toBool
  else true

end CedarGo.Validate
