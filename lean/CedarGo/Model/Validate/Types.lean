/-
  C15 — types of the validator model (`x/exp/schema/validate/cedar_type.go`, `capability.go`,
  `request_env.go`), restricted to what the FRAGMENT of `Check.lean` needs.  Core Lean only
  (linked into the `driver` executable).

  * `Ty` mirrors `cedarType` (one constructor per Go struct) plus `Ty.nil` for the Go value
    `cedarType(nil)` that `typeOfExtensionCall` returns WITHOUT an error for an unknown function
    applied to zero arguments.
  * record attribute maps are association lists (first match wins; built with `attrInsert`, so keys
    are unique as in a Go map); entity LUBs are lists of entity type names (order is irrelevant for
    everything the fragment does with them: membership, disjointness).
  * `lub` = `leastUpperBound` / `lubRecord` / `unionLUB`, with the strict/permissive distinction.
    With `dom = true` (the domain of the soundness theorem) the permissive branch that silently
    DROPS an attribute whose types are incompatible fails instead (see `C15_lub_drop_counterexample`).
-/
import CedarGo.Model.Eval
namespace CedarGo.Validate
open CedarGo

inductive ExtTy where
  | decimal | datetime | duration | ipaddr
deriving DecidableEq, Repr, Inhabited

inductive Ty where
  | nil                                   -- Go `cedarType(nil)` together with a nil error
  | never | tt | ff | bool | long | string
  | set (elem : Ty)
  | record (attrs : List (String × Ty × Bool))   -- attribute name ↦ (type, required)
  | entity (tys : List String)                    -- entityLUB.elements
  | ext (x : ExtTy)
deriving Repr, Inhabited

abbrev Attrs := List (String × Ty × Bool)

def lookupAttr (k : String) : Attrs → Option (Ty × Bool)
  | [] => none
  | (k', t, r) :: rest => if k == k' then some (t, r) else lookupAttr k rest

def hasKey (k : String) (as : Attrs) : Bool := (lookupAttr k as).isSome

/-- Go map assignment `attrs[k] = …` -/
def attrInsert (k : String) (t : Ty) (req : Bool) (as : Attrs) : Attrs :=
  (k, t, req) :: as.filter (fun a => !(a.1 == k))

def Ty.isNil : Ty → Bool | .nil => true | _ => false
def Ty.isNever : Ty → Bool | .never => true | _ => false
def isBoolTy : Ty → Bool | .bool | .tt | .ff => true | _ => false
def isSetTy : Ty → Bool | .set _ => true | _ => false

/-- `unionLUB` (sorted/compacted in Go; only membership is ever observed) -/
def unionTys (a b : List String) : List String := a ++ b.filter (fun t => !a.contains t)

/-- `entityLUB.isDisjoint` -/
def disjointTys (a b : List String) : Bool := a.all (fun t => !b.contains t)

/-- `areTypesDisjoint` -/
def areTypesDisjoint : Ty → Ty → Bool
  | .entity a, .entity b => disjointTys a b
  | _, _ => false

/-- `checkStrictEntityLUB`: `true` = no error -/
def strictEntityOK (strict : Bool) : Ty → Ty → Bool
  | .entity a, .entity b => !strict || a.any (fun t => b.contains t)
  | _, _ => true

mutual
/-- `Validator.leastUpperBound`; `none` = error -/
def lub (dom strict : Bool) : Ty → Ty → Option Ty
  | a, .never => some a
  | .nil, _ => none
  | .never, b => some b
  | .tt, .tt => some .tt
  | .tt, .ff => some .bool
  | .tt, .bool => some .bool
  | .ff, .ff => some .ff
  | .ff, .tt => some .bool
  | .ff, .bool => some .bool
  | .bool, .tt => some .bool
  | .bool, .ff => some .bool
  | .bool, .bool => some .bool
  | .long, .long => some .long
  | .string, .string => some .string
  | .set a, .set b => (lub dom strict a b).map .set
  | .record a, .record b =>
    -- strict mode: records with different key sets cannot be combined
    if strict && (a.length != b.length || !(a.all (fun x => hasKey x.1 b))) then none else
    match lubAttrs dom strict a b with
    | none => none
    | some r => some (.record (r ++ (b.filter (fun x => !hasKey x.1 a)).map (fun x => (x.1, x.2.1, false))))
  | .entity a, .entity b => some (.entity (unionTys a b))
  | .ext x, .ext y => if x = y then some (.ext x) else none
  | _, _ => none
/-- first loop of `lubRecord`: the attributes of `a` -/
def lubAttrs (dom strict : Bool) : Attrs → Attrs → Option Attrs
  | [], _ => some []
  | (k, ta, ra) :: rest, b =>
    match lookupAttr k b with
    | none => (lubAttrs dom strict rest b).map ((k, ta, false) :: ·)
    | some (tb, rb) =>
      match lub dom strict ta tb with
      | some t => (lubAttrs dom strict rest b).map ((k, t, ra && rb) :: ·)
      | none =>
        -- strict: error.  permissive: Go DROPS the attribute (`continue`) — outside the proved domain
        if strict || dom then none else lubAttrs dom strict rest b
end

/-! ## Capabilities (`capability.go`): a set of (access path, attribute) pairs.
   A path (`capPath`: a variable name, or `capAccess{base, attr}` on another path, compared structurally by Go's `==`) is
   the list `[variable, attr₁, …, attrₙ]`.  Tag capabilities (`tag: true`, from `hasTag`) are a separate name space and do
   not occur in the fragment. -/

abbrev Caps := List (List String × String)

def Caps.has (cs : Caps) (p : List String) (a : String) : Bool := cs.contains (p, a)
def Caps.add (cs : Caps) (p : List String) (a : String) : Caps := (p, a) :: cs
def Caps.merge (a b : Caps) : Caps := a ++ b
def Caps.intersect (a b : Caps) : Caps := a.filter (fun c => b.contains c)

def varNameStr : Var → String
  | .principal => "principal" | .action => "action" | .resource => "resource" | .context => "context"

/-- `exprCapPath`: the capability path of a variable-rooted access chain — the variable followed by the accessed
    attribute names — `[]` (Go `nil`) for any other expression.  Injective on variable-rooted chains
    (`exprCapPath_inj`).  (Before the repair of `capability-path-collision` the key was the DOTTED RENDERING of the
    chain, `exprVarName`, which conflates `context["a.b"]` with `context.a.b`.) -/
def exprCapPath : Expr → List String
  | .var v => [varNameStr v]
  | .access e a =>
    let p := exprCapPath e
    if p.isEmpty then [] else p ++ [a]
  | _ => []

/-- `exprVarName` (now used for error messages only): the dotted rendering of a variable-rooted access chain, as the
    character list of the Go string; `[]` (Go `""`) otherwise.  NOT injective. -/
def exprVarName : Expr → List Char
  | .var v => (varNameStr v).toList
  | .access e a =>
    let p := exprVarName e
    if p.isEmpty then [] else p ++ '.' :: a.toList
  | _ => []

/-! ## Type environment: one `requestEnv` plus what `typeOfEntityUID` reads of the schema -/

structure TEnv where
  principalType : String
  action : UID
  resourceType : String
  context : Attrs
  entityTypes : List String     -- declared entity types and enum types
  actions : List UID            -- every action of the schema
  strict : Bool
deriving Repr, Inhabited

/-- `isActionEntity` -/
def isActionEntity (t : String) : Bool := t == "Action" || t.endsWith "::Action"

/-- `typeOfEntityUID`; `none` = "unrecognized entity type / action" -/
def typeOfEntityUID (Γ : TEnv) (t i : String) : Option Ty :=
  if Γ.entityTypes.contains t then some (.entity [t])
  else if isActionEntity t && Γ.actions.contains (t, i) then some (.entity [t])
  else none

def typeOfVar (Γ : TEnv) : Var → Ty
  | .principal => .entity [Γ.principalType]
  | .action => .entity [Γ.action.1]
  | .resource => .entity [Γ.resourceType]
  | .context => .record Γ.context

/-- `expectComparable` -/
def isComparable : Ty → Bool
  | .long | .ext .datetime | .ext .duration => true
  | _ => false

/-- what the comparison SHOULD also check (and Rust Cedar does): both sides the same comparable type -/
def sameComparable : Ty → Ty → Bool
  | .long, .long | .ext .datetime, .ext .datetime | .ext .duration, .ext .duration => true
  | _, _ => false

/-- `extFuncTypes`: name ↦ (isConstructor, argument types, return type) -/
def extFuncSig (fn : String) : Option (Bool × List Ty × Ty) :=
  if fn == "ip" then some (true, [.string], .ext .ipaddr)
  else if fn == "decimal" then some (true, [.string], .ext .decimal)
  else if fn == "datetime" then some (true, [.string], .ext .datetime)
  else if fn == "duration" then some (true, [.string], .ext .duration)
  else if fn == "lessThan" || fn == "lessThanOrEqual" || fn == "greaterThan" || fn == "greaterThanOrEqual" then
    some (false, [.ext .decimal, .ext .decimal], .bool)
  else if fn == "isIpv4" || fn == "isIpv6" || fn == "isLoopback" || fn == "isMulticast" then some (false, [.ext .ipaddr], .bool)
  else if fn == "isInRange" then some (false, [.ext .ipaddr, .ext .ipaddr], .bool)
  else if fn == "toDate" then some (false, [.ext .datetime], .ext .datetime)
  else if fn == "toTime" then some (false, [.ext .datetime], .ext .duration)
  else if fn == "offset" then some (false, [.ext .datetime, .ext .duration], .ext .datetime)
  else if fn == "durationSince" then some (false, [.ext .datetime, .ext .datetime], .ext .duration)
  else if fn == "toDays" || fn == "toHours" || fn == "toMinutes" || fn == "toSeconds" || fn == "toMilliseconds" then
    some (false, [.ext .duration], .long)
  else none

/-- `isSubtype` as used for extension-function arguments -/
def isSubtypeArg : Ty → Ty → Bool
  | .string, .string => true
  | .ext x, .ext y => x == y
  | _, _ => false

/-- `validateExtensionValue`: the literal must parse -/
def validExtLiteral (fn s : String) : Bool :=
  if fn == "ip" then (Scalars.parseIP s).toBool
  else if fn == "decimal" then (Scalars.parseDecimal s).toBool
  else if fn == "datetime" then (Scalars.parseDatetime s).toBool
  else if fn == "duration" then (Scalars.parseDuration s).toBool
  else true

end CedarGo.Validate
