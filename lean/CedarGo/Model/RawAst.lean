/-
  C10: the RAW trees that flow between cedar-go's decoders and their consumers, before anything has
  checked them, and the places where each Go consumer panics on them.

  * `NodeJSON`  — `internal/json.nodeJSON` as `encoding/json` fills it in (json.go:82-141): a `nil`
    constructor for a nil `*nodeJSON` (the value of `{"Record":{"a":null}}`), `zero` for the zero struct
    (what `null` / `{}` decode to in a by-value position), arbitrary variable names, arbitrary function
    names with arbitrary argument counts.
  * `RawExpr`   — a Go `ast.IsNode` value as a consumer receives it: `nil` for a nil interface,
    `var` with an arbitrary name, `call` with an arbitrary name and arbitrary argument count.
  * `NodeJSON.toNode` — `nodeJSON.ToNode` (json_unmarshal.go): `.error .reject` where Go returns an error
    (a nil record entry and a method-style call without receiver included); it has no panic branch left.
  * `toExpr?`   — `eval.ToEval` (convert.go): panics on an unknown variable and in the `default` arm.
  * `marshalSkel` — the panic skeleton of `astNodeToMarshalNode` + `marshalCedar` (cedar_marshal.go):
    `default` arm; `n.Args[0]` of a method-style extension call is guarded by `len(n.Args) > 0`.
  * `jsonSkel`  — the panic skeleton of `nodeJSON.FromNode` (json_marshal.go): `default` arm.
  `Err.panic` is the only error these consumers can produce; everything else is a value.
-/
import CedarGo.Model.Fold
namespace CedarGo

/-- outcome of a decoder that is not a value -/
inductive DecErr where
  | reject    -- Go returns an `error`
  | panic     -- Go panics (nil dereference, index out of range, `panic(...)`)
deriving DecidableEq, Repr, Inhabited

/-- `internal/json.nodeJSON` after `encoding/json` has populated it -/
inductive NodeJSON where
  | nil                                   -- nil `*nodeJSON` (only reachable as a `recordJSON` map value)
  | zero                                  -- zero `nodeJSON{}`: every pointer nil, no extension call
  | lit (v : Value)                       -- `Value`
  | var (name : String)                   -- `Var`
  | unop (op : UnOp) (e : NodeJSON)
  | binop (op : BinOp) (l r : NodeJSON)
  | ite (c t e : NodeJSON)
  | access (e : NodeJSON) (attr : String)
  | has (e : NodeJSON) (attr : String)
  | like (e : NodeJSON) (p : Pattern)
  | is (e : NodeJSON) (ty : String)
  | isIn (e : NodeJSON) (ty : String) (r : NodeJSON)
  | set (es : List NodeJSON)
  | record (kes : List (String × NodeJSON))
  | call (fn : String) (args : List NodeJSON)   -- `ExtensionCall` with exactly one key
deriving Repr, Inhabited

/-- a Go `ast.IsNode` as consumers see it -/
inductive RawExpr where
  | nil                                   -- nil interface value
  | lit (v : Value)
  | var (name : String)                   -- `NodeTypeVariable{Name}`: any string
  | unop (op : UnOp) (e : RawExpr)
  | binop (op : BinOp) (l r : RawExpr)
  | ite (c t e : RawExpr)
  | access (e : RawExpr) (attr : String)
  | has (e : RawExpr) (attr : String)
  | like (e : RawExpr) (p : Pattern)
  | is (e : RawExpr) (ty : String)
  | isIn (e : RawExpr) (ty : String) (r : RawExpr)
  | set (es : List RawExpr)
  | record (kes : List (String × RawExpr))
  | call (fn : String) (args : List RawExpr)    -- `NodeTypeExtensionCall{Name, Args}`: any name, any arity
deriving Repr, Inhabited

/-- `consts.Principal | Action | Resource | Context` -/
def toVar? (s : String) : Option Var :=
  if s == "principal" then some .principal
  else if s == "action" then some .action
  else if s == "resource" then some .resource
  else if s == "context" then some .context
  else none

def knownVar (s : String) : Bool := (toVar? s).isSome

/-- `extensions.ExtMap[name].IsMethod` (the zero `ExtInfo` for an unknown name says `false`) -/
def isMethod (fn : String) : Bool :=
  match extLookup fn with | some (_, m) => m | none => false

def knownExt (fn : String) : Bool := (extLookup fn).isSome

/-! ## The well-formedness contract -/

mutual
/-- no nil node; variables are one of the four names -/
def RawExpr.wfb : RawExpr → Bool
  | .nil => false
  | .lit _ => true
  | .var n => knownVar n
  | .unop _ e => e.wfb
  | .binop _ l r => l.wfb && r.wfb
  | .ite c t e => c.wfb && t.wfb && e.wfb
  | .access e _ => e.wfb
  | .has e _ => e.wfb
  | .like e _ => e.wfb
  | .is e _ => e.wfb
  | .isIn e _ r => e.wfb && r.wfb
  | .set es => RawExpr.wfbList es
  | .record kes => RawExpr.wfbKVs kes
  | .call _ args => RawExpr.wfbList args
def RawExpr.wfbList : List RawExpr → Bool
  | [] => true
  | e :: es => e.wfb && RawExpr.wfbList es
def RawExpr.wfbKVs : List (String × RawExpr) → Bool
  | [] => true
  | (_, e) :: kes => e.wfb && RawExpr.wfbKVs kes
end

def RawExpr.WF (r : RawExpr) : Prop := r.wfb = true
instance (r : RawExpr) : Decidable r.WF := by unfold RawExpr.WF; infer_instance

mutual
/-- every method-style extension call has a receiver (`Args[0]`).  No consumer panics without it any more
    (`MarshalCedar` falls back to function style, cedar_marshal.go), but only such trees have a Cedar TEXT
    form that parses back: both decoders guarantee it. -/
def RawExpr.recvb : RawExpr → Bool
  | .nil | .lit _ | .var _ => true
  | .unop _ e | .access e _ | .has e _ | .like e _ | .is e _ => e.recvb
  | .binop _ l r | .isIn l _ r => l.recvb && r.recvb
  | .ite c t e => c.recvb && t.recvb && e.recvb
  | .set es => RawExpr.recvbList es
  | .record kes => RawExpr.recvbKVs kes
  | .call fn args => (!isMethod fn || !args.isEmpty) && RawExpr.recvbList args
def RawExpr.recvbList : List RawExpr → Bool
  | [] => true
  | e :: es => e.recvb && RawExpr.recvbList es
def RawExpr.recvbKVs : List (String × RawExpr) → Bool
  | [] => true
  | (_, e) :: kes => e.recvb && RawExpr.recvbKVs kes
end

def RawExpr.HasReceivers (r : RawExpr) : Prop := r.recvb = true
instance (r : RawExpr) : Decidable r.HasReceivers := by unfold RawExpr.HasReceivers; infer_instance

/-! ## Consumers -/

mutual
/-- `eval.ToEval`: the evaluator exists iff no panic branch is reached while building it -/
def RawExpr.toExpr? : RawExpr → Except Err Expr
  | .nil => .error .panic                      -- convert.go:93 `default: panic("unknown node type <nil>")`
  | .lit v => .ok (.lit v)
  | .var n =>
    match toVar? n with
    | some v => .ok (.var v)
    | none => .error .panic                    -- convert.go:58 `panic("unknown variable")`
  | .unop op e => do let e' ← e.toExpr?; .ok (.unop op e')
  | .binop op l r => do let l' ← l.toExpr?; let r' ← r.toExpr?; .ok (.binop op l' r')
  | .ite c t e => do let c' ← c.toExpr?; let t' ← t.toExpr?; let e' ← e.toExpr?; .ok (.ite c' t' e')
  | .access e a => do let e' ← e.toExpr?; .ok (.access e' a)
  | .has e a => do let e' ← e.toExpr?; .ok (.has e' a)
  | .like e p => do let e' ← e.toExpr?; .ok (.like e' p)
  | .is e ty => do let e' ← e.toExpr?; .ok (.is e' ty)
  | .isIn e ty r => do let e' ← e.toExpr?; let r' ← r.toExpr?; .ok (.isIn e' ty r')
  | .set es => do let es' ← RawExpr.toExprList? es; .ok (.set es')
  | .record kes => do let kes' ← RawExpr.toExprKVs? kes; .ok (.record kes')
  | .call fn args => do let as ← RawExpr.toExprList? args; .ok (.call fn as)   -- arity is an *error value* at run time
def RawExpr.toExprList? : List RawExpr → Except Err (List Expr)
  | [] => .ok []
  | e :: es => do let e' ← e.toExpr?; let es' ← RawExpr.toExprList? es; .ok (e' :: es')
def RawExpr.toExprKVs? : List (String × RawExpr) → Except Err (List (String × Expr))
  | [] => .ok []
  | (k, e) :: kes => do let e' ← e.toExpr?; let kes' ← RawExpr.toExprKVs? kes; .ok ((k, e') :: kes')
end

mutual
/-- `astNodeToMarshalNode` + `marshalCedar`: which children are visited, which index is taken -/
def RawExpr.marshalSkel : RawExpr → Except Err Unit
  | .nil => .error .panic                      -- cedar_marshal.go:455 `default: panic`
  | .lit _ => .ok ()
  | .var _ => .ok ()                           -- writes the name, whatever it is
  | .unop _ e => e.marshalSkel
  | .binop _ l r => do l.marshalSkel; r.marshalSkel
  | .ite c t e => do c.marshalSkel; t.marshalSkel; e.marshalSkel
  | .access e _ => e.marshalSkel
  | .has e _ => e.marshalSkel
  | .like e _ => e.marshalSkel
  | .is e _ => e.marshalSkel
  | .isIn e _ r => do e.marshalSkel; r.marshalSkel
  | .set es => RawExpr.marshalSkelList es
  | .record kes => RawExpr.marshalSkelKVs kes
  | .call fn args =>
    if isMethod fn then
      match args with
      | [] => .ok ()                           -- cedar_marshal.go: `info.IsMethod && len(n.Args) > 0` is false: function style `f()`
      | recv :: rest => do recv.marshalSkel; RawExpr.marshalSkelList rest
    else RawExpr.marshalSkelList args
def RawExpr.marshalSkelList : List RawExpr → Except Err Unit
  | [] => .ok ()
  | e :: es => do e.marshalSkel; RawExpr.marshalSkelList es
def RawExpr.marshalSkelKVs : List (String × RawExpr) → Except Err Unit
  | [] => .ok ()
  | (_, e) :: kes => do e.marshalSkel; RawExpr.marshalSkelKVs kes
end

mutual
/-- `nodeJSON.FromNode`: panics only in its `default` arm -/
def RawExpr.jsonSkel : RawExpr → Except Err Unit
  | .nil => .error .panic                      -- json_marshal.go:280 `default: panic`
  | .lit _ => .ok ()
  | .var _ => .ok ()
  | .unop _ e => e.jsonSkel
  | .binop _ l r => do l.jsonSkel; r.jsonSkel
  | .ite c t e => do c.jsonSkel; t.jsonSkel; e.jsonSkel
  | .access e _ => e.jsonSkel
  | .has e _ => e.jsonSkel
  | .like e _ => e.jsonSkel
  | .is e _ => e.jsonSkel
  | .isIn e _ r => do e.jsonSkel; r.jsonSkel
  | .set es => RawExpr.jsonSkelList es
  | .record kes => RawExpr.jsonSkelKVs kes
  | .call _ args => RawExpr.jsonSkelList args
def RawExpr.jsonSkelList : List RawExpr → Except Err Unit
  | [] => .ok ()
  | e :: es => do e.jsonSkel; RawExpr.jsonSkelList es
def RawExpr.jsonSkelKVs : List (String × RawExpr) → Except Err Unit
  | [] => .ok ()
  | (_, e) :: kes => do e.jsonSkel; RawExpr.jsonSkelKVs kes
end

/-! ## The JSON policy decoder (`nodeJSON.ToNode`) -/

mutual
def NodeJSON.toNode : NodeJSON → Except DecErr RawExpr
  | .nil => .error .reject                     -- `recordJSON.ToNode`: `v == nil` ⇒ "missing value for key"
  | .zero => .error .reject                    -- `extensionJSON.ToNode`: "unexpected number of extensions in node: 0"
  | .lit v => .ok (.lit v)
  | .var n => if knownVar n then .ok (.var n) else .error .reject
  | .unop op e => do let e' ← e.toNode; .ok (.unop op e')
  | .binop op l r => do let l' ← l.toNode; let r' ← r.toNode; .ok (.binop op l' r')
  | .ite c t e => do let c' ← c.toNode; let t' ← t.toNode; let e' ← e.toNode; .ok (.ite c' t' e')
  | .access e a => do let e' ← e.toNode; .ok (.access e' a)
  | .has e a => do let e' ← e.toNode; .ok (.has e' a)
  | .like e p => do let e' ← e.toNode; .ok (.like e' p)
  | .is e ty => do let e' ← e.toNode; .ok (.is e' ty)
  | .isIn e ty r => do let e' ← e.toNode; let r' ← r.toNode; .ok (.isIn e' ty r')
  | .set es => do let es' ← NodeJSON.toNodeList es; .ok (.set es')
  | .record kes => do let kes' ← NodeJSON.toNodeKVs kes; .ok (.record kes')
  | .call fn args =>
    -- the name is looked up, then a method without receiver is refused, BEFORE the arguments are converted;
    -- no other argument count is checked (arity is an error value at evaluation time)
    if knownExt fn && (!isMethod fn || !args.isEmpty) then
      do let as ← NodeJSON.toNodeList args; .ok (.call fn as)
    else .error .reject
def NodeJSON.toNodeList : List NodeJSON → Except DecErr (List RawExpr)
  | [] => .ok []
  | e :: es => do let e' ← e.toNode; let es' ← NodeJSON.toNodeList es; .ok (e' :: es')
def NodeJSON.toNodeKVs : List (String × NodeJSON) → Except DecErr (List (String × RawExpr))
  | [] => .ok []
  | (k, e) :: kes => do let e' ← e.toNode; let kes' ← NodeJSON.toNodeKVs kes; .ok ((k, e') :: kes')
end

/-! ## Policies and policy sets as decoded -/

structure RawPolicy where
  effect : Effect
  annotations : List (String × String) := []
  principal : Scope := .all
  action : Scope := .all
  resource : Scope := .all
  conditions : List (Bool × RawExpr) := []
  position : Position := {}
deriving Repr, Inhabited

def RawPolicy.WF (p : RawPolicy) : Prop := ∀ c ∈ p.conditions, c.2.WF

def toExprConds? : List (Bool × RawExpr) → Except Err (List (Bool × Expr))
  | [] => .ok []
  | (w, e) :: cs => do let e' ← e.toExpr?; let cs' ← toExprConds? cs; .ok ((w, e') :: cs')

/-- `cedar.newPolicy` = `eval.Compile`: every condition body goes through `fold` and `ToEval` -/
def RawPolicy.toPolicy? (p : RawPolicy) : Except Err Policy := do
  let cs ← toExprConds? p.conditions
  .ok { effect := p.effect, annotations := p.annotations, principal := p.principal, action := p.action,
        resource := p.resource, conditions := cs, position := p.position }

/-- `PolicySet.UnmarshalJSON` over the entries of `staticPolicies` (`map[string]*Policy`, `none` = a `null`
    entry = nil pointer): a nil entry is refused with an error BEFORE `newPolicy` is reached (policy_set.go),
    so `newPolicy` only ever receives a policy -/
def setEntries? : List (String × Option RawPolicy) → Except DecErr (List (String × RawPolicy))
  | [] => .ok []
  | (_, none) :: _ => .error .reject
  | (k, some p) :: rest => do let ps ← setEntries? rest; .ok ((k, p) :: ps)

/-! ## Size and nesting depth (what the recursion of every consumer is bounded by) -/

mutual
def RawExpr.depth : RawExpr → Nat
  | .nil | .lit _ | .var _ => 1
  | .unop _ e | .access e _ | .has e _ | .like e _ | .is e _ => e.depth + 1
  | .binop _ l r | .isIn l _ r => max l.depth r.depth + 1
  | .ite c t e => max c.depth (max t.depth e.depth) + 1
  | .set es | .call _ es => RawExpr.depthList es + 1
  | .record kes => RawExpr.depthKVs kes + 1
def RawExpr.depthList : List RawExpr → Nat
  | [] => 0
  | e :: es => max e.depth (RawExpr.depthList es)
def RawExpr.depthKVs : List (String × RawExpr) → Nat
  | [] => 0
  | (_, e) :: kes => max e.depth (RawExpr.depthKVs kes)
end

/-- `!!!…!true` with `n` negations: the text parser builds it with a LOOP (`unary`), every consumer
    walks it recursively -/
def notChain : Nat → RawExpr
  | 0 => .lit (.bool true)
  | n + 1 => .unop .not (notChain n)


/-! ## What the Cedar TEXT parser can build (`internal/parser/cedar_unmarshal.go`)

One constructor per family of construction sites.  The list of `ast.*` constructors and `ast.Node`
methods the parser calls is regenerated from the source by factgen (`parserConstructionSites`) and
compared with `facts/panic_sites.expected.json`: a new site breaks the tie. -/

def Var.name : Var → String
  | .principal => "principal" | .action => "action" | .resource => "resource" | .context => "context"

inductive ParserBuilt : RawExpr → Prop where
  /-- `primary`: `ast.Long`, `ast.String`, `ast.True`, `ast.False`; `unary`: `ast.Long(-n)`;
      `entityOrExtFun`: `ast.EntityUID` — always a non-nil `types.Value` -/
  | lit (v : Value) : ParserBuilt (.lit v)
  /-- `primary`: `ast.Principal()`, `ast.Action()`, `ast.Resource()`, `ast.Context()`; any other
      identifier is "invalid primary" -/
  | var (v : Var) : ParserBuilt (.var v.name)
  /-- `unary`: `ast.Not`, `ast.Negate`; `access`: `lhs.IsEmpty` -/
  | unop (op : UnOp) {e : RawExpr} : ParserBuilt e → ParserBuilt (.unop op e)
  /-- `or`, `and`, `relation`, `add`, `mult`; `access`: `lhs.Contains|ContainsAll|ContainsAny|HasTag|GetTag`
      (exactly one argument, else a parse error) -/
  | binop (op : BinOp) {l r : RawExpr} : ParserBuilt l → ParserBuilt r → ParserBuilt (.binop op l r)
  /-- `expression`: `ast.IfThenElse` -/
  | ite {c t e : RawExpr} : ParserBuilt c → ParserBuilt t → ParserBuilt e → ParserBuilt (.ite c t e)
  /-- `access`: `lhs.Access` for `.ident` and `["string"]`; `has`: the chained form -/
  | access {e : RawExpr} (a : String) : ParserBuilt e → ParserBuilt (.access e a)
  | has {e : RawExpr} (a : String) : ParserBuilt e → ParserBuilt (.has e a)
  | like {e : RawExpr} (p : Pattern) : ParserBuilt e → ParserBuilt (.like e p)
  | is {e : RawExpr} (ty : String) : ParserBuilt e → ParserBuilt (.is e ty)
  | isIn {e r : RawExpr} (ty : String) : ParserBuilt e → ParserBuilt r → ParserBuilt (.isIn e ty r)
  /-- `primary`: `ast.Set(set...)` -/
  | set {es : List RawExpr} : (∀ e ∈ es, ParserBuilt e) → ParserBuilt (.set es)
  /-- `record`: `ast.Record(elements)` -/
  | record {kes : List (String × RawExpr)} : (∀ ke ∈ kes, ParserBuilt ke.2) → ParserBuilt (.record kes)
  /-- `entityOrExtFun`: `ast.ExtensionCall(name, args...)` — only for a known name that is NOT a method -/
  | extFun (fn : String) {args : List RawExpr} : knownExt fn = true → isMethod fn = false →
      (∀ a ∈ args, ParserBuilt a) → ParserBuilt (.call fn args)
  /-- `access`: `ast.NewMethodCall(lhs, name, exprs...)` — only for a known method name; the receiver
      is `Args[0]` by construction -/
  | method (fn : String) {recv : RawExpr} {args : List RawExpr} : knownExt fn = true → isMethod fn = true →
      ParserBuilt recv → (∀ a ∈ args, ParserBuilt a) → ParserBuilt (.call fn (recv :: args))

end CedarGo
