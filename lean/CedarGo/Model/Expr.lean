/-
  Expressions, patterns, entities, environments (DESIGN §3.1).  Mirrors `x/exp/ast/node.go`.
-/
import CedarGo.Model.Value
namespace CedarGo

inductive Var where
  | principal | action | resource | context
deriving DecidableEq, Repr, Inhabited

inductive BinOp where
  | and | or | eq | ne | lt | le | gt | ge | add | sub | mul
  | in_ | contains | containsAll | containsAny | getTag | hasTag
deriving DecidableEq, Repr, Inhabited

inductive UnOp where
  | not | neg | isEmpty
deriving DecidableEq, Repr, Inhabited

/-- one component of `types.Pattern`: optional leading wildcard, then literal bytes -/
structure PatComp where
  wildcard : Bool
  literal : List UInt8
deriving DecidableEq, Repr, Inhabited

abbrev Pattern := List PatComp

inductive Expr where
  | lit (v : Value)
  | var (v : Var)
  | unop (op : UnOp) (e : Expr)
  | binop (op : BinOp) (l r : Expr)
  | ite (c t e : Expr)
  | access (e : Expr) (attr : String)
  | has (e : Expr) (attr : String)
  | like (e : Expr) (p : Pattern)
  | is (e : Expr) (ty : String)
  | isIn (e : Expr) (ty : String) (r : Expr)
  | set (es : List Expr)
  | record (kes : List (String × Expr))
  | call (fn : String) (args : List Expr)
deriving Repr, Inhabited

abbrev UID := String × String

structure EntityData where
  parents : List UID
  attrs : List (String × Value)   -- as built by `mkRecord`
  tags : List (String × Value)
deriving Repr, Inhabited

/-- entity store: association list with unique keys (Go `types.EntityMap`) -/
abbrev Entities := List (UID × EntityData)

def Entities.get (es : Entities) (u : UID) : Option EntityData :=
  match es with
  | [] => none
  | (k, d) :: rest => if k == u then some d else Entities.get rest u

structure Env where
  entities : Entities
  principal : Value
  action : Value
  resource : Value
  context : Value
deriving Repr, Inhabited

def emptyEnv : Env := ⟨[], .bool false, .bool false, .bool false, .bool false⟩

end CedarGo
