/-
  C09 — the JSON policy codec (`internal/json`) at the JSON-tree level.

  `toJ` mirrors `Policy.MarshalJSON` / `nodeJSON.FromNode` / `scopeJSON.FromNode`.
  `fromJ` mirrors `Policy.UnmarshalJSON`, which runs in two phases:
    1. `json.Unmarshal` of the whole document into `policyJSON` (nested `nodeJSON.UnmarshalJSON` with
       `DisallowUnknownFields` and the unknown-key-is-extension fallback) — `decodeNodeF`, result `NJ`;
    2. `ToNode` / `To…ScopeNode` over the decoded structs — `nodeToExpr`, `scopeTo…`.
  All phase-1 errors precede all phase-2 errors, hence the intermediate type.  (Phase 2 used to panic on a nil
  record entry; since the repair no function of this model returns `.panic`.)

  Facts about `encoding/json` that the phase-1 model relies on (Go 1.23, decode.go):
    * object keys match struct fields case-insensitively (`foldStr`);
    * `null` leaves a field untouched (pointer fields stay nil) — except that a non-pointer field whose
      pointer type implements `Unmarshaler` (nodeJSON, Pattern) has `UnmarshalJSON("null")` called;
    * a value of the wrong JSON kind is a *soft* error: recorded (first one wins), the value skipped,
      decoding continues; a pointer field is allocated before the kind is examined;
    * an unknown key under `DisallowUnknownFields` is a soft error as well;
    * an error returned by a nested `UnmarshalJSON` aborts decoding (*hard* error).
  `nodeJSON.UnmarshalJSON` takes the fallback iff the first soft error (in document = key order) is an
  unknown key; the struct fields already decoded stay set and win over `ExtensionCall` in `ToNode`.
-/
import CedarGo.Model.Json.Value
import CedarGo.Model.Policy
import CedarGo.Generated.Facts
namespace CedarGo.JsonModel
open CedarGo

/-! ## Key tables (the struct tags of `nodeJSON`) -/

def unOpKey : UnOp → String
  | .not => "!" | .neg => "neg" | .isEmpty => "isEmpty"

def binOpKey : BinOp → String
  | .and => "&&" | .or => "||" | .eq => "==" | .ne => "!=" | .lt => "<" | .le => "<=" | .gt => ">" | .ge => ">="
  | .add => "+" | .sub => "-" | .mul => "*" | .in_ => "in" | .contains => "contains"
  | .containsAll => "containsAll" | .containsAny => "containsAny" | .getTag => "getTag" | .hasTag => "hasTag"

def varName : Var → String
  | .principal => "principal" | .action => "action" | .resource => "resource" | .context => "context"

def unOpOfKey (k : String) : Option UnOp :=
  if k == "!" then some .not else if k == "neg" then some .neg else if k == "isEmpty" then some .isEmpty else none

def binOps : List BinOp :=
  [.eq, .ne, .in_, .lt, .le, .gt, .ge, .and, .or, .add, .sub, .mul, .contains, .containsAll, .containsAny, .getTag, .hasTag]

def binOpOfKey (k : String) : Option BinOp := binOps.find? (fun o => binOpKey o == k)

def varOfName (s : String) : Option Var :=
  if s == "principal" then some .principal else if s == "action" then some .action
  else if s == "resource" then some .resource else if s == "context" then some .context else none

/-- the fields of `nodeJSON` in the order of the `switch` in `nodeJSON.ToNode` -/
def nodeFieldOrder : List String :=
  ["Value", "Var", "!", "neg", "==", "!=", "in", "<", "<=", ">", ">=", "&&", "||", "+", "-", "*",
   "contains", "containsAll", "containsAny", "isEmpty", "getTag", "hasTag", ".", "has", "is", "like",
   "if-then-else", "Set", "Record"]

/-! ## Patterns -/

def bytesToString (bs : List UInt8) : String :=
  match String.fromUTF8? (ByteArray.mk bs.toArray) with
  | some s => s
  | none => ""

def bytesValid (bs : List UInt8) : Bool := (String.fromUTF8? (ByteArray.mk bs.toArray)).isSome

/-- the loop of `Pattern.MarshalJSON` over the components -/
def patternItemsToJ : Pattern → List J
  | [] => []
  | c :: rest =>
    (if c.wildcard then [J.str "Wildcard"] else [])
    ++ (if !c.wildcard || !c.literal.isEmpty then [J.obj [("Literal", .str (bytesToString c.literal))]] else [])
    ++ patternItemsToJ rest

/-- `Pattern.MarshalJSON`: a pattern without components (`NewPattern()`, the zero `Pattern`) is written as the
    empty literal `[{"Literal":""}]` — `[]` would be refused by `Pattern.UnmarshalJSON` -/
def patternToJ (p : Pattern) : List J :=
  if p.isEmpty then [J.obj [("Literal", .str "")]] else patternItemsToJ p

/-- one step of `types.NewPattern` (components kept in reverse).  A wildcard after a component with an empty literal
    starts no new component; it sets that component's wildcard flag (since `fix: NewPattern keeps a wildcard which
    follows a leading empty literal`: a no-op on a wildcard component — consecutive wildcards are one wildcard —, and
    the component a leading empty literal leaves behind becomes the wildcard; before, the wildcard was dropped there
    and `["", *, "a"]` built the pattern `a`). -/
def newPatternStep (acc : List PatComp) (c : Option String) : List PatComp :=
  match c with
  | some s =>
    match acc with
    | [] => [⟨false, s.toUTF8.toList⟩]
    | last :: rest => ⟨last.wildcard, last.literal ++ s.toUTF8.toList⟩ :: rest
  | none =>
    match acc with
    | [] => [⟨true, []⟩]
    | last :: rest => if !last.literal.isEmpty then ⟨true, []⟩ :: last :: rest else ⟨true, last.literal⟩ :: rest

/-- `types.NewPattern(components...)`: `some s` = string component, `none` = `Wildcard{}` -/
def newPattern (cs : List (Option String)) : Pattern := (cs.foldl newPatternStep []).reverse

/-- one element of the `[]any` that `Pattern.UnmarshalJSON` decodes: "Wildcard" or {"Literal": string} -/
def patElem (x : J) : R (Option String) :=
  match x with
  | .str s => if s == "Wildcard" then .ok none else .error .reject
  | .obj [(k, .str s)] => if k == "Literal" then .ok (some s) else .error .reject
  | _ => .error .reject

/-- `Pattern.UnmarshalJSON` on a non-null array -/
def patternOfJ (xs : List J) : R Pattern :=
  if xs.isEmpty then .error .reject else
  match mapMR patElem xs with
  | .error e => .error e
  | .ok cs => .ok (newPattern cs)

/-! ## Encoding -/

def uidJ (u : UID) : J := .obj [("id", .str u.2), ("type", .str u.1)]

/-- `scopeJSON.FromNode` + `omitempty` -/
def scopeToJ : Scope → J
  | .all => .obj [("op", .str "All")]
  | .eq e => .obj [("entity", uidJ e), ("op", .str "==")]
  | .in_ e => .obj [("entity", uidJ e), ("op", .str "in")]
  | .inSet es => if es.isEmpty then .obj [("op", .str "in")] else .obj [("entities", .arr (es.map uidJ)), ("op", .str "in")]
  | .is ty => if ty == "" then .obj [("op", .str "is")] else .obj [("entity_type", .str ty), ("op", .str "is")]
  | .isIn ty e =>
    if ty == "" then .obj [("in", .obj [("entity", uidJ e)]), ("op", .str "is")]
    else .obj [("entity_type", .str ty), ("in", .obj [("entity", uidJ e)]), ("op", .str "is")]

mutual
/-- `nodeJSON.FromNode` followed by `nodeJSON.MarshalJSON` -/
def exprToJ : Expr → J
  | .lit (.decimal d) => .obj [("decimal", .arr [.obj [("Value", .str (Scalars.printDecimal d))]])]
  | .lit (.ip a) => .obj [("ip", .arr [.obj [("Value", .str (printIPNet a))]])]
  | .lit v => .obj [("Value", encodeValue v)]
  | .var v => .obj [("Var", .str (varName v))]
  | .unop op e => .obj [(unOpKey op, .obj [("arg", exprToJ e)])]
  | .binop op l r => .obj [(binOpKey op, .obj [("left", exprToJ l), ("right", exprToJ r)])]
  | .ite c t e => .obj [("if-then-else", .obj [("else", exprToJ e), ("if", exprToJ c), ("then", exprToJ t)])]
  | .access e a => .obj [(".", .obj [("attr", .str a), ("left", exprToJ e)])]
  | .has e a => .obj [("has", .obj [("attr", .str a), ("left", exprToJ e)])]
  | .like e p => .obj [("like", .obj [("left", exprToJ e), ("pattern", .arr (patternToJ p))])]
  | .is e ty => .obj [("is", .obj [("entity_type", .str ty), ("left", exprToJ e)])]
  | .isIn e ty r => .obj [("is", .obj [("entity_type", .str ty), ("in", exprToJ r), ("left", exprToJ e)])]
  | .set es => .obj [("Set", .arr (exprsToJ es))]
  | .record kes => .obj [("Record", jObjOfPairs (kvExprsToJ kes))]
  | .call fn args => .obj [(fn, .arr (exprsToJ args))]
def exprsToJ : List Expr → List J
  | [] => []
  | e :: es => exprToJ e :: exprsToJ es
def kvExprsToJ : List (String × Expr) → List (String × J)
  | [] => []
  | (k, e) :: kes => (k, exprToJ e) :: kvExprsToJ kes
end

def condToJ (c : Bool × Expr) : J :=
  .obj [("body", exprToJ c.2), ("kind", .str (if c.1 then "when" else "unless"))]

def effStr (e : Effect) : String := match e with | .permit => "permit" | .forbid => "forbid"

/-- `Policy.MarshalJSON` -/
def toJ (p : Policy) : J :=
  let base : List (String × J) :=
    [("action", scopeToJ p.action),
     ("effect", .str (effStr p.effect)),
     ("principal", scopeToJ p.principal),
     ("resource", scopeToJ p.resource)]
  let withAnn := if p.annotations.isEmpty then base
    else jInsert "annotations" (jObjOfPairs (p.annotations.map fun kv => (kv.1, J.str kv.2))) base
  let withCond := if p.conditions.isEmpty then withAnn
    else jInsert "conditions" (.arr (p.conditions.map condToJ)) withAnn
  .obj withCond

/-- `PolicySet.MarshalJSON`: `{"staticPolicies": {id: policy}}` -/
def setToJ (ps : List (PolicyID × Policy)) : J :=
  .obj [("staticPolicies", jObjOfPairs (ps.map fun ip => (ip.1, toJ ip.2)))]

/-! ## Phase 1: `json.Unmarshal` into `nodeJSON` -/

/-- what `nodeJSON.ToNode` will look at: the first non-nil field in `switch` order, else `ExtensionCall` -/
inductive NJ where
  | empty                                          -- nothing set, `ExtensionCall` nil or empty
  | value (v : Value)
  | var (s : String)
  | unary (op : UnOp) (arg : NJ)
  | binary (op : BinOp) (l r : NJ)
  | strop (has : Bool) (l : NJ) (attr : String)
  | like (l : NJ) (p : Pattern)
  | is_ (l : NJ) (ty : String) (inn : Option NJ)
  | ite (c t e : NJ)
  | set (xs : List NJ)
  | record (kvs : List (String × Option NJ))       -- `none`: the entry was JSON `null` (nil `*nodeJSON`)
  | ext (entries : List (String × List NJ))        -- `ExtensionCall` with ≥ 1 entries
deriving Repr, Inhabited

/-- outcome of decoding one known field of `nodeJSON` from a non-null value -/
inductive FieldRes where
  | ok (n : NJ)
  | soft (zero : NJ)     -- wrong JSON kind: soft type error, the pointer field is allocated with its zero value

/-- a nested `nodeJSON` struct field (`Left nodeJSON` …): absent ⇒ zero node; present (even `null`) ⇒ `UnmarshalJSON` -/
def nodeField (dec : J → R NJ) (kvs : List (String × J)) (field : String) : R NJ :=
  match findField kvs field with
  | .absent => .ok .empty
  | .ambiguous => .error .unmodelled
  | .one j => dec j

/-- every key of a nested struct must be one of its fields (`DisallowUnknownFields` is inherited; an unknown
    key there always ends in rejection: see the file header) -/
def onlyFields (kvs : List (String × J)) (fields : List String) : R Unit :=
  if kvs.all (fun kv => fields.any (fun f => keyMatches kv.1 f)) then .ok () else .error .reject

def classifyKey (k : String) : Option String := nodeFieldOrder.find? (fun f => keyMatches k f)

/-- an entry of `recordJSON` (`map[string]*nodeJSON`): `null` leaves a nil pointer -/
def recEntry (dec : J → R NJ) (y : J) : R (Option NJ) :=
  match y with | .null => .ok none | _ => (dec y).map some

/-- pass 1 for one known field `f` of `nodeJSON` and its non-null value `x`; `dec` decodes a nested node -/
def decodeField (dec : J → R NJ) (f : String) (x : J) : R FieldRes :=
  if f == "Value" then (decodeValue x).map (fun v => .ok (.value v))
  else if f == "Var" then
    match x with | .str s => .ok (.ok (.var s)) | _ => .ok (.soft (.var ""))
  else if f == "Set" then
    match x with
    | .arr xs => (mapMR dec xs).map (fun ns => .ok (.set ns))
    | _ => .ok (.soft (.set []))
  else if f == "Record" then
    match x with
    | .obj rkvs => (mapKVR (recEntry dec) rkvs).map (fun es => .ok (.record es))
    | _ => .ok (.soft (.record []))
  else if f == "if-then-else" then
    match x with
    | .obj s => do
      onlyFields s ["if", "then", "else"]
      let c ← nodeField dec s "if"; let t ← nodeField dec s "then"; let e ← nodeField dec s "else"
      .ok (.ok (.ite c t e))
    | _ => .ok (.soft (.ite .empty .empty .empty))
  else if f == "like" then
    match x with
    | .obj s => do
      onlyFields s ["left", "pattern"]
      let l ← nodeField dec s "left"
      let p ← match findField s "pattern" with
        | .absent => pure []
        | .ambiguous => .error .unmodelled
        | .one (.arr ps) => patternOfJ ps
        | .one _ => .error .reject          -- null ⇒ empty component list ⇒ error; other kinds ⇒ type error
      .ok (.ok (.like l p))
    | _ => .ok (.soft (.like .empty []))
  else if f == "is" then
    match x with
    | .obj s => do
      onlyFields s ["left", "entity_type", "in"]
      let l ← nodeField dec s "left"
      let ty ← strField s "entity_type"
      let inn ← match findField s "in" with
        | .absent | .one .null => pure none
        | .ambiguous => .error .unmodelled
        | .one y => (dec y).map some
      .ok (.ok (.is_ l ty inn))
    | _ => .ok (.soft (.is_ .empty "" none))
  else if f == "." || f == "has" then
    match x with
    | .obj s => do
      onlyFields s ["left", "attr"]
      let l ← nodeField dec s "left"
      let a ← strField s "attr"
      .ok (.ok (.strop (f == "has") l a))
    | _ => .ok (.soft (.strop (f == "has") .empty ""))
  else match unOpOfKey f with
    | some op =>
      match x with
      | .obj s => do
        onlyFields s ["arg"]
        let a ← nodeField dec s "arg"
        .ok (.ok (.unary op a))
      | _ => .ok (.soft (.unary op .empty))
    | none =>
      match binOpOfKey f with
      | some op =>
        match x with
        | .obj s => do
          onlyFields s ["left", "right"]
          let l ← nodeField dec s "left"; let r ← nodeField dec s "right"
          .ok (.ok (.binary op l r))
        | _ => .ok (.soft (.binary op .empty .empty))
      | none => .error .unmodelled

/-- pass 1 over the entries in key order.  State: fields set so far; the first soft error seen:
    `none` | `some true` (unknown key) | `some false` (type error) -/
def scanFields (dec : J → R NJ) : List (String × J) → List (String × NJ) → Option Bool → R (List (String × NJ) × Option Bool)
  | [], set, first => .ok (set, first)
  | (k, x) :: rest, set, first =>
    match classifyKey k with
    | none => scanFields dec rest set (first.orElse fun _ => some true)
    | some f =>
      if set.any (fun s => s.1 == f) then .error .unmodelled   -- two spellings of one field
      else match x with
        | .null => scanFields dec rest set first
        | _ =>
          match decodeField dec f x with
          | .error e => .error e
          | .ok (.ok nj) => scanFields dec rest (set ++ [(f, nj)]) first
          | .ok (.soft z) => scanFields dec rest (set ++ [(f, z)]) (first.orElse fun _ => some false)

/-- the first non-nil field in the order of the `switch` in `ToNode` -/
def winnerOf (set : List (String × NJ)) : Option NJ :=
  nodeFieldOrder.findSome? (fun f => (set.find? (fun s => s.1 == f)).map (·.2))

/-- the fallback `n.unmarshalExtensionCall(b)`: the whole object as `map[string]arrayJSON` — every value `null` or an
    array of nodes.  (It used to be `json.Unmarshal(b, &n.ExtensionCall)`, which decoded the elements of a `Set` key a
    second time: same result, 2^depth time.  Since `fix: decode a JSON expression object with an unknown key only once`
    those elements are taken from pass 1; the model never described the cost and is unchanged.) -/
def extEntries (dec : J → R NJ) (kvs : List (String × J)) : R (List (String × List NJ)) :=
  mapKVR (fun x => match x with
    | .null => .ok []
    | .arr xs => mapMR dec xs
    | _ => .error .reject) kvs

/-- one level of `nodeJSON.UnmarshalJSON` -/
def decodeNodeStep (dec : J → R NJ) (j : J) : R NJ :=
  match j with
  | .null => .ok .empty
  | .obj kvs =>
    match scanFields dec kvs [] none with
    | .error e => .error e
    | .ok (set, first) =>
      match first with
      | none => .ok ((winnerOf set).getD .empty)
      | some false => .error .reject
      | some true =>
        match extEntries dec kvs with
        | .error e => .error e
        | .ok entries => .ok ((winnerOf set).getD (.ext entries))
  | _ => .error .reject

/-- `nodeJSON.UnmarshalJSON` with fuel -/
def decodeNodeF : Nat → J → R NJ
  | 0, _ => .error .unmodelled
  | n + 1, j => decodeNodeStep (decodeNodeF n) j

def decodeNode (j : J) : R NJ := decodeNodeF (j.depth + 1) j

/-! ## Phase 2: `ToNode` -/

/-- `extensions.ExtMap[name].IsMethod` (regenerated table) -/
def extIsMethod (name : String) : Bool := Facts.extMap.any (fun x => x.1 == name && x.2.2)

/-- combine the outcomes of the entries of a `Record` literal.  Go visits the entries in key order and stops at the
    first error or nil entry (since `fix: decode the entries of a JSON Record in key order`; it used to range over the
    map).  The model only distinguishes the error CLASSES, so it does not need to know which failing entry is first:
    a mix of `reject` and `unmodelled` entries is reported as `unmodelled`. -/
def errOf (r : String × R Expr) : Option JErr := match r.2 with | .error e => some e | .ok _ => none
def okOf (r : String × R Expr) : Option (String × Expr) := match r.2 with | .ok e => some (r.1, e) | .error _ => none

def combineRecord (rs : List (String × R Expr)) : R (List (String × Expr)) :=
  let errs := rs.filterMap errOf
  if errs.isEmpty then .ok (rs.filterMap okOf)
  else if errs.any (· == .unmodelled) then .error .unmodelled
  else if errs.all (· == .reject) then .error .reject
  else .error .unmodelled

mutual
def nodeToExpr : NJ → R Expr
  | .empty => .error .reject                       -- `unexpected number of extensions in node: 0`
  | .value v => .ok (.lit v)
  | .var s => match varOfName s with | some v => .ok (.var v) | none => .error .reject
  | .unary op a => match nodeToExpr a with | .ok e => .ok (.unop op e) | .error e => .error e
  | .binary op l r =>
    match nodeToExpr l with
    | .error e => .error e
    | .ok l' => match nodeToExpr r with | .ok r' => .ok (.binop op l' r') | .error e => .error e
  | .strop h l a => match nodeToExpr l with | .ok e => .ok (if h then .has e a else .access e a) | .error e => .error e
  | .like l p => match nodeToExpr l with | .ok e => .ok (.like e p) | .error e => .error e
  | .is_ l ty none => match nodeToExpr l with | .ok e => .ok (.is e ty) | .error e => .error e
  | .is_ l ty (some r) =>
    match nodeToExpr l with
    | .error e => .error e
    | .ok l' => match nodeToExpr r with | .ok r' => .ok (.isIn l' ty r') | .error e => .error e
  | .ite c t e =>
    match nodeToExpr c with
    | .error x => .error x
    | .ok c' => match nodeToExpr t with
      | .error x => .error x
      | .ok t' => match nodeToExpr e with | .ok e' => .ok (.ite c' t' e') | .error x => .error x
  | .set xs => match nodesToExprs xs with | .ok es => .ok (.set es) | .error e => .error e
  | .record kvs => match combineRecord (recordToExprs kvs) with | .ok kes => .ok (.record kes) | .error e => .error e
  | .ext entries => extToExpr entries
def nodesToExprs : List NJ → R (List Expr)
  | [] => .ok []
  | n :: ns => match nodeToExpr n with
    | .error e => .error e
    | .ok e => match nodesToExprs ns with | .ok es => .ok (e :: es) | .error x => .error x
/-- `extensionJSON.ToNode`: exactly one entry, a known extension name, and a method has its receiver -/
def extToExpr : List (String × List NJ) → R Expr
  | [(name, args)] =>
    if Facts.extMap.any (fun x => x.1 == name) then
      if extIsMethod name && args.isEmpty then .error .reject          -- "extension method … is missing its receiver"
      else match nodesToExprs args with | .ok es => .ok (.call name es) | .error e => .error e
    else .error .reject
  | _ => .error .reject
def recordToExprs : List (String × Option NJ) → List (String × R Expr)
  | [] => []
  | (k, none) :: rest => (k, .error .reject) :: recordToExprs rest     -- nil `*nodeJSON`: "missing value for key"
  | (k, some n) :: rest => (k, nodeToExpr n) :: recordToExprs rest
end

/-! ## Scopes and the policy document -/

structure ScopeJ where
  op : String := ""
  entity : Option UID := none
  entities : List UID := []
  entityType : String := ""
  inn : Option UID := none
deriving Repr, Inhabited

/-- `ImplicitlyMarshaledEntityUID` has no unmarshaller: a plain struct with fields `Type`, `ID` -/
def decodeImplicitUID : J → R UID
  | .null => .ok ("", "")
  | .obj kvs => do
    let t ← strField kvs "Type"
    let i ← strField kvs "ID"
    .ok (t, i)
  | _ => .error .reject

def decodeScope (kvs : List (String × J)) (field : String) : R ScopeJ :=
  match findField kvs field with
  | .absent | .one .null => .ok {}
  | .ambiguous => .error .unmodelled
  | .one (.obj s) => do
    let op ← strField s "op"
    let entity ← match findField s "entity" with
      | .absent | .one .null => pure none
      | .ambiguous => .error .unmodelled
      | .one (.obj e) => (decodeImplicitUID (.obj e)).map some
      | .one _ => .error .reject
    let entities ← match findField s "entities" with
      | .absent | .one .null => pure []
      | .ambiguous => .error .unmodelled
      | .one (.arr es) => mapMR decodeImplicitUID es
      | .one _ => .error .reject
    let ty ← strField s "entity_type"
    let inn ← match findField s "in" with
      | .absent | .one .null => pure none
      | .ambiguous => .error .unmodelled
      | .one (.obj i) =>
        match findField i "entity" with
        | .absent => pure (some ("", ""))
        | .ambiguous => .error .unmodelled
        | .one e => (decodeImplicitUID e).map some
      | .one _ => .error .reject
    .ok ⟨op, entity, entities, ty, inn⟩
  | .one _ => .error .reject

/-- `ToPrincipalResourceNode` -/
def scopeToPR (s : ScopeJ) : R Scope :=
  if s.op == "All" then .ok .all
  else if s.op == "==" then match s.entity with | some e => .ok (.eq e) | none => .error .reject
  else if s.op == "in" then match s.entity with | some e => .ok (.in_ e) | none => .error .reject
  else if s.op == "is" then match s.inn with | none => .ok (.is s.entityType) | some e => .ok (.isIn s.entityType e)
  else .error .reject

/-- `ToActionNode` -/
def scopeToAction (s : ScopeJ) : R Scope :=
  if s.op == "All" then .ok .all
  else if s.op == "==" then match s.entity with | some e => .ok (.eq e) | none => .error .reject
  else if s.op == "in" then match s.entity with | some e => .ok (.in_ e) | none => .ok (.inSet s.entities)
  else .error .reject

/-- conditions, phase 2: `ToNode` of the body, then the `kind` switch, in order -/
def condsToExprs : List (String × NJ) → R (List (Bool × Expr))
  | [] => .ok []
  | (kind, body) :: rest =>
    match nodeToExpr body with
    | .error e => .error e
    | .ok e =>
      if kind == "when" || kind == "unless" then
        match condsToExprs rest with
        | .ok cs => .ok ((kind == "when", e) :: cs)
        | .error x => .error x
      else .error .reject

/-- a value of `map[string]string` (`null` leaves the zero string) -/
def annVal (x : J) : R String := match x with | .str s => .ok s | .null => .ok "" | _ => .error .reject

/-- an element of `[]conditionJSON`, phase 1 -/
def decodeCond (c : J) : R (String × NJ) :=
  match c with
  | .null => .ok ("", NJ.empty)
  | .obj ckvs =>
    match strField ckvs "kind" with
    | .error e => .error e
    | .ok kind =>
      match nodeField decodeNode ckvs "body" with
      | .error e => .error e
      | .ok body => .ok (kind, body)
  | _ => .error .reject

def decodeAnns (kvs : List (String × J)) : R (List (String × String)) :=
  match findField kvs "annotations" with
  | .absent | .one .null => .ok []
  | .ambiguous => .error .unmodelled
  | .one (.obj a) => mapKVR annVal a
  | .one _ => .error .reject

def decodeConds (kvs : List (String × J)) : R (List (String × NJ)) :=
  match findField kvs "conditions" with
  | .absent | .one .null => .ok []
  | .ambiguous => .error .unmodelled
  | .one (.arr cs) => mapMR decodeCond cs
  | .one _ => .error .reject

def effectOf (s : String) : R Effect :=
  if s == "permit" then .ok .permit else if s == "forbid" then .ok .forbid else .error .reject

/-- `Policy.UnmarshalJSON`.  Annotations are added in key order (since `fix: decode policy annotations from JSON in key
    order`; the loop used to range over the Go map): the model returns them in the key order of the tree. -/
def fromJ (j : J) : R Policy :=
  match j with
  | .obj kvs => do
    -- phase 1: json.Unmarshal into policyJSON
    let anns ← decodeAnns kvs
    let effect ← strField kvs "effect"
    let pr ← decodeScope kvs "principal"
    let ac ← decodeScope kvs "action"
    let re ← decodeScope kvs "resource"
    let conds ← decodeConds kvs
    -- phase 2: effect, annotations, scopes, conditions in this order
    let eff ← effectOf effect
    let principal ← scopeToPR pr
    let action ← scopeToAction ac
    let resource ← scopeToPR re
    let conditions ← condsToExprs conds
    .ok { effect := eff, annotations := anns, principal, action, resource, conditions }
  | _ => .error .reject      -- null: effect "" ⇒ unknown effect; other kinds: type error

/-- an entry of `staticPolicies` (`map[string]*Policy`): a non-null entry goes through `Policy.UnmarshalJSON`
    during `json.Unmarshal` (entries in key order, the first error wins); `null` leaves a nil `*Policy` -/
def setEntry (x : J) : R (Option Policy) :=
  match x with | .null => .ok none | _ => (fromJ x).map some

def entryPolicy (kv : String × Option Policy) : Option (PolicyID × Policy) := kv.2.map (fun p => (kv.1, p))

/-- `PolicySet.UnmarshalJSON`: ids are the keys of `staticPolicies`; a nil `*Policy` is refused with an error
    (before anything is compiled), but only after `json.Unmarshal` of the whole document has succeeded -/
def setFromJ (j : J) : R (List (PolicyID × Policy)) :=
  match j with
  | .null => .ok []
  | .obj kvs =>
    match findField kvs "staticPolicies" with
    | .absent | .one .null => .ok []
    | .ambiguous => .error .unmodelled
    | .one (.obj ps) =>
      match mapKVR setEntry ps with
      | .error e => .error e
      | .ok es => if es.any (fun kv => kv.2.isNone) then .error .reject else .ok (es.filterMap entryPolicy)
    | .one _ => .error .reject
  | _ => .error .reject

/-! ## The identifications C09 allows, and the fragment of policies the JSON format can carry -/

def patItemComps : Pattern → List (Option String)
  | [] => []
  | c :: rest =>
    (if c.wildcard then [none] else [])
    ++ (if !c.wildcard || !c.literal.isEmpty then [some (bytesToString c.literal)] else [])
    ++ patItemComps rest

/-- the components `Pattern.MarshalJSON` writes, as `Pattern.UnmarshalJSON` hands them to `NewPattern`
    (the empty pattern is written as one empty literal) -/
def patComps (p : Pattern) : List (Option String) := if p.isEmpty then [some ""] else patItemComps p

/-- a pattern re-built by `NewPattern` (adjacent literals merged, consecutive wildcards merged; the pattern without
    components becomes the single empty literal, which matches the same strings) -/
def normPattern (p : Pattern) : Pattern := newPattern (patComps p)

mutual
/-- what an expression becomes through JSON: decimal / ip literal VALUES become constructor calls, record
    entries are listed by key (a later duplicate wins), patterns are re-built by `NewPattern` -/
def normE : Expr → Expr
  | .lit (.decimal d) => .call "decimal" [.lit (.str (Scalars.printDecimal d))]
  | .lit (.ip a) => .call "ip" [.lit (.str (printIPNet a))]
  | .lit v => .lit v
  | .var v => .var v
  | .unop op e => .unop op (normE e)
  | .binop op l r => .binop op (normE l) (normE r)
  | .ite c t e => .ite (normE c) (normE t) (normE e)
  | .access e a => .access (normE e) a
  | .has e a => .has (normE e) a
  | .like e p => .like (normE e) (normPattern p)
  | .is e ty => .is (normE e) ty
  | .isIn e ty r => .isIn (normE e) ty (normE r)
  | .set es => .set (normEs es)
  | .record kes => .record (sortKV (normKEs kes))
  | .call fn args => .call fn (normEs args)
def normEs : List Expr → List Expr
  | [] => []
  | e :: es => normE e :: normEs es
def normKEs : List (String × Expr) → List (String × Expr)
  | [] => []
  | (k, e) :: kes => (k, normE e) :: normKEs kes
end

/-- the policy as JSON carries it: annotations by key (a later duplicate wins), conditions normalised, no
    source position -/
def normP (p : Policy) : Policy :=
  { effect := p.effect, annotations := sortKV p.annotations, principal := p.principal, action := p.action,
    resource := p.resource, conditions := p.conditions.map (fun c => (c.1, normE c.2)), position := {} }

/-- `p' ≈ p`: `p'` is `p` up to the identifications above -/
def JsonEquiv (p' p : Policy) : Prop := p' = normP p

/-- no key occurs twice (what `ast.Record` builds and the text parser accepts) -/
def keysDistinct {α : Type} : List (String × α) → Bool
  | [] => true
  | (k, _) :: rest => !(rest.any (fun kv => kv.1 == k)) && keysDistinct rest

def validLiteral (bs : List UInt8) : Bool := (bytesToString bs).toUTF8.toList == bs

mutual
/-- expressions the JSON format can carry: literal values inside the proved fragment of C13, extension calls of
    known functions only (the decoder refuses other names) where a method has its receiver (the decoder refuses
    `{"lessThan":[]}`; such a call can only be built programmatically), `like` patterns with valid UTF-8 literals, record
    literals without duplicate keys (a duplicate is dropped by the encoder; the restriction is only needed for the
    fuel bound of the decoder model) -/
def renderableE : Expr → Bool
  | .lit (.decimal _) => true
  | .lit (.ip _) => true
  | .lit v => vWF v && vNoReserved v
  | .var _ => true
  | .unop _ e => renderableE e
  | .binop _ l r => renderableE l && renderableE r
  | .ite c t e => renderableE c && renderableE t && renderableE e
  | .access e _ => renderableE e
  | .has e _ => renderableE e
  | .like e p => renderableE e && p.all (fun c => validLiteral c.literal)
  | .is e _ => renderableE e
  | .isIn e _ r => renderableE e && renderableE r
  | .set es => renderableEs es
  | .record kes => renderableKEs kes && keysDistinct kes
  | .call fn args => (Facts.extMap.any (fun x => x.1 == fn) && !(extIsMethod fn && args.isEmpty)) && renderableEs args
def renderableEs : List Expr → Bool
  | [] => true
  | e :: es => renderableE e && renderableEs es
def renderableKEs : List (String × Expr) → Bool
  | [] => true
  | (_, e) :: kes => renderableE e && renderableKEs kes
end

def scopePR : Scope → Bool | .inSet _ => false | _ => true
def scopeAct : Scope → Bool | .is _ => false | .isIn _ _ => false | _ => true

/-- policies the JSON format can carry (the scope restrictions are what Go's types `IsPrincipalScopeNode` /
    `IsActionScopeNode` / `IsResourceScopeNode` enforce) -/
def renderableP (p : Policy) : Bool :=
  scopePR p.principal && scopeAct p.action && scopePR p.resource && p.conditions.all (fun c => renderableE c.2)

/-! ## `Lean.Json`-typed entry points -/

def toJson (p : Policy) : Lean.Json := (toJ p).toJson
def fromJson (j : Lean.Json) : R Policy := fromJ (J.ofJson j)

end CedarGo.JsonModel
