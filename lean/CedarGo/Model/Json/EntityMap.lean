/-
  C13 — `types.EntityMap` JSON codec with the ORDER of the emitted array (types/entity_map.go).

    func (e EntityMap) MarshalJSON() ([]byte, error) {
        s := slices.Collect(maps.Values(e))                       // Go map order: arbitrary
        slices.SortFunc(s, func(a, b Entity) int { return strings.Compare(a.UID.String(), b.UID.String()) })
        return json.Marshal(s)                                    // nil slice (empty map) ⇒ `null`
    }
    func (e *EntityMap) UnmarshalJSON(b []byte) error {
        var s []Entity; json.Unmarshal(b, &s)
        res := EntityMap{}
        for _, e := range s {
            if _, ok := res[e.UID]; ok { return fmt.Errorf("duplicate entity %v", e.UID) }   // a UID may be named once
            res[e.UID] = e
        }
        *e = res
    }

  The sort key is `EntityUID.String()` = Type ++ `::"` ++ rust.EscapeString(ID) ++ `"` compared bytewise (for valid
  UTF-8 that is the code-point order of Lean's `String` order) — NOT the (type, id) order used for the parents of one
  entity.  The model's input list stands for the arbitrary order in which Go iterates the map; `slices.SortFunc` is
  not stable, which is harmless exactly because the key is injective (`C13_uidString_injective`).
-/
import CedarGo.Model.Json.Value
import CedarGo.Model.Text.Escape
namespace CedarGo.JsonModel
open CedarGo

/-- `EntityUID.String()` -/
def uidString (u : UID) : String :=
  u.1 ++ "::\"" ++ String.ofList (Text.escapeString u.2.toList) ++ "\""

/-- insertion into a list sorted by `uidString` -/
def insertEnt (e : UID × EntityData) : Entities → Entities
  | [] => [e]
  | x :: xs => if uidString e.1 ≤ uidString x.1 then e :: x :: xs else x :: insertEnt e xs

/-- `slices.SortFunc(s, by UID.String())` (any sorting algorithm: the keys of a map are pairwise different) -/
def sortEntities (es : Entities) : Entities := es.foldr insertEnt []

/-- `EntityMap.MarshalJSON`: `null` for the empty map, otherwise the entities in `UID.String()` order -/
def encodeEntityMap (es : Entities) : J :=
  if es.isEmpty then .null else .arr ((sortEntities es).map encodeEntity)

/-- `EntityMap.UnmarshalJSON` (= `decodeEntities`: array of entities entered into a map one by one, a second entry for a
    UID already present is an error; `null` gives the empty map) -/
def decodeEntityMap (j : J) : R Entities := decodeEntities j

/-- decode, then encode again: what a second `json.Marshal` prints for an accepted document -/
def reencodeEntityMap (j : J) : R J := (decodeEntityMap j).map encodeEntityMap

end CedarGo.JsonModel
