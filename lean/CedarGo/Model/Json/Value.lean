/-
  C13 — JSON codec of values, entities, entity maps and requests at the JSON-tree level.
  Mirrors `types/json.go` (`UnmarshalJSON`, `unmarshalExtensionValue`), the `MarshalJSON`/`UnmarshalJSON`
  methods of `types/{set,record,entity_uid,entity,entity_map,decimal,datetime,duration,ipaddr}.go`
  and the struct tags of `types.Entity` / `types.Request`.

  Decoders take fuel (`J.depth j + 1` always suffices: every recursive call is on a strict sub-tree);
  the public entry points supply it.  A Go `error` return is `.error .reject`.
-/
import CedarGo.Model.Json.Tree
import CedarGo.Model.Scalars
import CedarGo.Model.Expr
namespace CedarGo.JsonModel
open CedarGo CedarGo.Scalars

/-! ## `netip.Addr.String` / `netip.Prefix.String` (needed by `IPAddr.MarshalJSON`) -/

def hexDigitsOf (n : Nat) : List Char := (Nat.toDigits 16 n)

def dotted4 (a : Nat) : String :=
  s!"{a / 16777216 % 256}.{a / 65536 % 256}.{a / 256 % 256}.{a % 256}"

/-- the eight 16-bit groups of an IPv6 address, most significant first -/
def groups6 (a : Nat) : List Nat :=
  [a / 2^112 % 65536, a / 2^96 % 65536, a / 2^80 % 65536, a / 2^64 % 65536,
   a / 2^48 % 65536, a / 2^32 % 65536, a / 2^16 % 65536, a % 65536]

/-- length of the run of zero groups starting at the head -/
def zeroRun : List Nat → Nat
  | 0 :: rest => zeroRun rest + 1
  | _ => 0

/-- `appendTo6`: leftmost longest run (length ≥ 2) of zero groups; returns (start, end) or (255, 255) -/
def bestZeroRun (gs : List Nat) : Nat × Nat :=
  let rec go : List Nat → Nat → Nat × Nat → Nat × Nat
    | [], _, best => best
    | g :: rest, i, best =>
      let l := zeroRun (g :: rest)
      let best := if l ≥ 2 && l > best.2 - best.1 then (i, i + l) else best
      go rest (i + 1) best
  go gs 0 (255, 255)

/-- second loop of `appendTo6` (fuel 9 ≥ number of iterations) -/
def v6Loop (gs : List Nat) (zs ze : Nat) : Nat → Nat → List Char → List Char
  | 0, _, acc => acc
  | f + 1, i, acc =>
    if i ≥ 8 then acc
    else if i == zs then
      let acc := acc ++ [':', ':']
      if ze ≥ 8 then acc else v6Loop gs zs ze f (ze + 1) (acc ++ hexDigitsOf (gs.getD ze 0))
    else
      let acc := if i > 0 then acc ++ [':'] else acc
      v6Loop gs zs ze f (i + 1) (acc ++ hexDigitsOf (gs.getD i 0))

def printV6Groups (gs : List Nat) : String :=
  let (zs, ze) := bestZeroRun gs
  String.ofList (v6Loop gs zs ze 9 0 [])

/-- `netip.Addr.String` (no zone) -/
def printAddr (v6 : Bool) (a : Nat) : String :=
  if !v6 then dotted4 a
  else if a / 2^32 == 0xffff then "::ffff:" ++ dotted4 (a % 2^32)     -- Is4In6
  else printV6Groups (groups6 a)

/-- `types.IPAddr.String` (also what `IPAddr.MarshalJSON` puts in "arg") -/
def printIPNet (p : IPNet) : String :=
  if p.bits == p.bitLen then printAddr p.v6 p.addr
  else printAddr p.v6 p.addr ++ "/" ++ toString p.bits

/-! ## Encoding (`MarshalJSON`).  Object keys are written in sorted order. -/

def extJ (fn arg : String) : J := .obj [("__extn", .obj [("arg", .str arg), ("fn", .str fn)])]

def implicitUID (u : UID) : J := .obj [("id", .str u.2), ("type", .str u.1)]

mutual
/-- `json.Marshal(v)` for a `types.Value`; set members in list order (Go: hash order — not modelled,
    the comparison sorts value arrays), record entries in key order -/
def encodeValue : Value → J
  | .bool b => .bool b
  | .long n => .num n 0
  | .str s => .str s
  | .entity t i => .obj [("__entity", .obj [("id", .str i), ("type", .str t)])]
  | .set xs => .arr (encodeValues xs)
  | .record kvs => .obj (encodeKVs kvs)
  | .decimal d => extJ "decimal" (printDecimal d)
  | .datetime t => extJ "datetime" (printDatetime t)
  | .duration d => extJ "duration" (printDuration d)
  | .ip a => extJ "ip" (printIPNet a)
def encodeValues : List Value → List J
  | [] => []
  | v :: vs => encodeValue v :: encodeValues vs
def encodeKVs : List (String × Value) → List (String × J)
  | [] => []
  | (k, v) :: kvs => (k, encodeValue v) :: encodeKVs kvs
end

/-! ## Decoding (`types.UnmarshalJSON`) -/

def liftErr {α} (r : Except Err α) : R α := match r with | .ok a => .ok a | .error _ => .error .reject

/-- the `switch res.Extn.Fn` of `UnmarshalJSON` -/
def parseExt (fn arg : String) : R Value :=
  if fn == "ip" then liftErr ((parseIP arg).map Value.ip)
  else if fn == "decimal" then liftErr ((parseDecimal arg).map Value.decimal)
  else if fn == "datetime" then liftErr ((parseDatetime arg).map Value.datetime)
  else if fn == "duration" then liftErr ((parseDuration arg).map Value.duration)
  else .error .reject

inductive Escape where
  | none                         -- not an escape: continue with the next alternative
  | found (a b : String)
  | ambiguous

/-- `json.Unmarshal(b, &extn{})` on the payload of `__extn` / `json.Unmarshal(b, &extEntity{})` on the payload
    of `__entity`: two string fields; a type error makes the enclosing `Unmarshal` fail -/
def twoStrings (kvs : List (String × J)) (f1 f2 : String) : Escape :=
  match strField kvs f1, strField kvs f2 with
  | .ok a, .ok b => .found a b
  | .error .unmodelled, _ => .ambiguous
  | _, .error .unmodelled => .ambiguous
  | _, _ => .none

/-- first block of `UnmarshalJSON`: `json.Unmarshal(b, &extValueJSON{}) == nil && res.Extn != nil` -/
def extnStep : J → Escape
  | .obj kvs =>
    match findField kvs "__extn" with
    | .absent => .none
    | .ambiguous => .ambiguous
    | .one (.obj ekvs) => twoStrings ekvs "fn" "arg"
    | .one _ => .none             -- null: Extn stays nil; other kinds: type error
  | _ => .none

/-- `case '{'`: `json.Unmarshal(b, &entityValueJSON{}) == nil && ej.Entity != nil`.
    Without an `__entity` member `ej.Entity` stays nil whatever else happens, so that is tested first. -/
def entityStep (kvs : List (String × J)) : Escape :=
  match findField kvs "__entity" with
  | .absent => .none
  | .ambiguous => .ambiguous
  | .one (.obj ekvs) =>
    match optStrField kvs "type", optStrField kvs "id" with
    | .error .unmodelled, _ => .ambiguous
    | _, .error .unmodelled => .ambiguous
    | .ok _, .ok _ => twoStrings ekvs "type" "id"
    | _, _ => .none               -- top-level "type"/"id" of a wrong kind: Unmarshal fails, falls to Record
  | .one _ => .none               -- null: Entity stays nil; other kinds: type error

def mapMR {α β} (f : α → R β) : List α → R (List β)
  | [] => .ok []
  | x :: xs => match f x with
    | .error e => .error e
    | .ok y => match mapMR f xs with
      | .error e => .error e
      | .ok ys => .ok (y :: ys)

def mapKVR {β} (f : J → R β) : List (String × J) → R (List (String × β))
  | [] => .ok []
  | (k, x) :: xs => match f x with
    | .error e => .error e
    | .ok y => match mapKVR f xs with
      | .error e => .error e
      | .ok ys => .ok ((k, y) :: ys)

/-- `types.UnmarshalJSON` with fuel -/
def decodeValueF : Nat → J → R Value
  | 0, _ => .error .unmodelled
  | n + 1, j =>
    match extnStep j with
    | .found fn arg => parseExt fn arg
    | .ambiguous => .error .unmodelled
    | .none =>
      match j with
      | .arr xs => (mapMR (decodeValueF n) xs).map mkSet        -- Set.UnmarshalJSON: []explicitValue, NewSet
      | .obj kvs =>
        match entityStep kvs with
        | .found ty id => .ok (.entity ty id)
        | .ambiguous => .error .unmodelled
        | .none => (mapKVR (decodeValueF n) kvs).map mkRecord    -- Record.UnmarshalJSON: map[string]explicitValue
      | .str s => .ok (.str s)
      | .bool b => .ok (.bool b)
      | .num m e => if e == 0 && decide (InI64 m) then .ok (.long m) else .error .reject
      | .null => .error .reject

def decodeValue (j : J) : R Value := decodeValueF (j.depth + 1) j

/-! ## The fragment on which the round trip is proved (C13) -/

/-- a record key that reaches the escape decoders (Go matches struct fields case-insensitively) -/
def reservedKey (k : String) : Bool := keyMatches k "__extn" || keyMatches k "__entity"

mutual
/-- no record inside the value has a reserved key -/
def vNoReserved : Value → Bool
  | .set xs => noReservedKeysL xs
  | .record kvs => noReservedKeysKV kvs
  | _ => true
def noReservedKeysL : List Value → Bool
  | [] => true
  | v :: vs => vNoReserved v && noReservedKeysL vs
def noReservedKeysKV : List (String × Value) → Bool
  | [] => true
  | (k, v) :: kvs => !reservedKey k && vNoReserved v && noReservedKeysKV kvs
end

def okEq (r : Except Err Int) (x : Int) : Bool := match r with | .ok y => y == x | .error _ => false
def okEqIP (r : Except Err IPNet) (x : IPNet) : Bool := match r with | .ok y => y == x | .error _ => false

/-- keys strictly increasing -/
def keysSorted : List (String × Value) → Bool
  | [] => true
  | [_] => true
  | (k, _) :: (k', v') :: rest => decide (k < k') && keysSorted ((k', v') :: rest)

/-- no member is `beq` to an earlier one (what `NewSet` produces) -/
def nodupV : List Value → List Value → Bool
  | _, [] => true
  | seen, x :: xs => !Value.memL x seen && nodupV (x :: seen) xs

mutual
/-- well-formed for JSON: longs in range; sets duplicate-free and records key-sorted (as built by `NewSet` /
    `NewRecord`); extension values whose text form parses back to the same value (that is C12's subject: the
    JSON layer adds nothing to it) -/
def vWF : Value → Bool
  | .bool _ => true
  | .str _ => true
  | .entity _ _ => true
  | .long n => decide (InI64 n)
  | .set xs => wfJsonL xs && nodupV [] xs
  | .record kvs => wfJsonKV kvs && keysSorted kvs
  | .decimal d => okEq (parseDecimal (printDecimal d)) d
  | .datetime t => okEq (parseDatetime (printDatetime t)) t
  | .duration d => okEq (parseDuration (printDuration d)) d
  | .ip a => okEqIP (parseIP (printIPNet a)) a
def wfJsonL : List Value → Bool
  | [] => true
  | v :: vs => vWF v && wfJsonL vs
def wfJsonKV : List (String × Value) → Bool
  | [] => true
  | (_, v) :: kvs => vWF v && wfJsonKV kvs
end

mutual
/-- fuel needed by `decodeValueF` on the encoding -/
def vNeed : Value → Nat
  | .set xs => needL xs + 1
  | .record kvs => needKV kvs + 1
  | _ => 1
def needL : List Value → Nat
  | [] => 0
  | v :: vs => max (vNeed v) (needL vs)
def needKV : List (String × Value) → Nat
  | [] => 0
  | (_, v) :: kvs => max (vNeed v) (needKV kvs)
end

/-! ## Typed positions: `EntityUID.UnmarshalJSON`, `unmarshalExtensionValue` -/

/-- `EntityUID.UnmarshalJSON`: explicit `{"__entity":{…}}` or implicit `{"type":…,"id":…}` -/
def decodeUID : J → R UID
  | .obj kvs => do
    let ty ← optStrField kvs "type"
    let id ← optStrField kvs "id"
    match findField kvs "__entity" with
    | .ambiguous => .error .unmodelled
    | .one (.obj ekvs) => do
      let t ← strField ekvs "type"
      let i ← strField ekvs "id"
      .ok (t, i)
    | .one .null | .absent =>
      match ty, id with
      | some t, some i => .ok (t, i)
      | _, _ => .error .reject
    | .one _ => .error .reject
  | _ => .error .reject       -- null: nothing found; other kinds: type error

/-- `unmarshalExtensionValue(b, extName, parse)`: bare string, `{"__extn":{fn,arg}}` or `{fn,arg}` -/
def decodeExtArg (extName : String) : J → R String
  | .str s => .ok s
  | .null => .error .reject                        -- Extn nil, then Fn == "" ⇒ errJSONExtNotFound
  | .obj kvs =>
    match findField kvs "__extn" with
    | .ambiguous => .error .unmodelled
    | .one (.obj ekvs) => do
      let fn ← strField ekvs "fn"
      let arg ← strField ekvs "arg"
      if fn == extName then .ok arg else .error .reject
    | .one .null | .absent => do
      let fn ← strField kvs "fn"
      let arg ← strField kvs "arg"
      if fn == "" then .error .reject else if fn == extName then .ok arg else .error .reject
    | .one _ => .error .reject
  | _ => .error .reject

def decodeDecimalTyped (j : J) : R Value := do liftErr ((parseDecimal (← decodeExtArg "decimal" j)).map Value.decimal)
def decodeDatetimeTyped (j : J) : R Value := do liftErr ((parseDatetime (← decodeExtArg "datetime" j)).map Value.datetime)
def decodeDurationTyped (j : J) : R Value := do liftErr ((parseDuration (← decodeExtArg "duration" j)).map Value.duration)
def decodeIPTyped (j : J) : R Value := do liftErr ((parseIP (← decodeExtArg "ip" j)).map Value.ip)

/-! ## Entities, entity maps, requests -/

def uidLt (a b : UID) : Bool := a.1 < b.1 || (a.1 == b.1 && a.2 < b.2)

def insertUID (u : UID) : List UID → List UID
  | [] => [u]
  | x :: xs => if uidLt u x then u :: x :: xs else if u == x then x :: xs else x :: insertUID u xs

/-- parents as `Entity.MarshalJSON` emits them: a set, sorted by (type, id) -/
def sortUIDs (us : List UID) : List UID := us.foldl (fun acc u => insertUID u acc) []

/-- `Entity.MarshalJSON` -/
def encodeEntity (e : UID × EntityData) : J :=
  .obj [("attrs", .obj (encodeKVs e.2.attrs)),
        ("parents", .arr ((sortUIDs e.2.parents).map implicitUID)),
        ("tags", .obj (encodeKVs e.2.tags)),
        ("uid", implicitUID e.1)]

/-- `EntityMap.MarshalJSON` (array order: Go sorts by `UID.String()`; the comparison sorts the array).
    An empty map is `slices.Collect` of nothing, a nil slice, which marshals as `null`. -/
def encodeEntities (es : Entities) : J := if es.isEmpty then .null else .arr (es.map encodeEntity)

/-- a `types.Record` struct field (`Record.UnmarshalJSON` is called for `null` too) -/
def decodeRecordField (kvs : List (String × J)) (field : String) : R (List (String × Value)) :=
  match findField kvs field with
  | .absent | .one .null => .ok []
  | .ambiguous => .error .unmodelled
  | .one (.obj rkvs) => do
    match mkRecord (← mapKVR decodeValue rkvs) with
    | .record r => .ok r
    | _ => .ok []
  | .one _ => .error .reject

/-- an `EntityUID` struct field: absent leaves the zero UID; `null` reaches `UnmarshalJSON` and fails -/
def decodeUIDField (kvs : List (String × J)) (field : String) : R UID :=
  match findField kvs field with
  | .absent => .ok ("", "")
  | .ambiguous => .error .unmodelled
  | .one j => decodeUID j

/-- element of `[]types.Entity` (no custom unmarshaller: struct tags uid/parents/attrs/tags) -/
def decodeEntity : J → R (UID × EntityData)
  | .null => .ok (("", ""), ⟨[], [], []⟩)
  | .obj kvs => do
    let uid ← decodeUIDField kvs "uid"
    let parents ← match findField kvs "parents" with
      | .absent | .one .null => pure []
      | .ambiguous => .error .unmodelled
      | .one (.arr ps) => mapMR decodeUID ps
      | .one _ => .error .reject
    let attrs ← decodeRecordField kvs "attrs"
    let tags ← decodeRecordField kvs "tags"
    .ok (uid, ⟨sortUIDs parents, attrs, tags⟩)
  | _ => .error .reject

/-- Go map assignment `res[e.UID] = e` on an association list kept in first-insertion order -/
def entInsert (e : UID × EntityData) : Entities → Entities
  | [] => [e]
  | x :: xs => if x.1 == e.1 then e :: xs else x :: entInsert e xs

/-- one turn of the loop of `EntityMap.UnmarshalJSON`:
    `if _, ok := res[e.UID]; ok { return fmt.Errorf("duplicate entity …") }; res[e.UID] = e` -/
def entAdd (acc : Entities) (e : UID × EntityData) : R Entities :=
  if (Entities.get acc e.1).isSome then .error .reject else .ok (entInsert e acc)

/-- the loop of `EntityMap.UnmarshalJSON` over the decoded `[]Entity`, starting from the map built so far -/
def entAddAll : Entities → List (UID × EntityData) → R Entities
  | acc, [] => .ok acc
  | acc, e :: es => do entAddAll (← entAdd acc e) es

/-- `EntityMap.UnmarshalJSON`: the whole array is decoded first (`json.Unmarshal(b, &s)`), then the entities are entered
    one by one; the second entry of a UID is an error (no entry is ever replaced) -/
def decodeEntities : J → R Entities
  | .null => .ok []
  | .arr xs => do
    let es ← mapMR decodeEntity xs
    entAddAll [] es
  | _ => .error .reject

structure RequestM where
  principal : UID
  action : UID
  resource : UID
  context : List (String × Value)
deriving Repr, Inhabited

def encodeRequest (r : RequestM) : J :=
  .obj [("action", encodeValue (.entity r.action.1 r.action.2)),
        ("context", .obj (encodeKVs r.context)),
        ("principal", encodeValue (.entity r.principal.1 r.principal.2)),
        ("resource", encodeValue (.entity r.resource.1 r.resource.2))]

def decodeRequest : J → R RequestM
  | .null => .ok ⟨("", ""), ("", ""), ("", ""), []⟩
  | .obj kvs => do
    let p ← decodeUIDField kvs "principal"
    let a ← decodeUIDField kvs "action"
    let r ← decodeUIDField kvs "resource"
    let c ← decodeRecordField kvs "context"
    .ok ⟨p, a, r, c⟩
  | _ => .error .reject

/-! ## Schema-guided coercion of implicit spellings (`x/exp/types/json.go`) -/

/-- `resolved.IsType` (attribute optionality and annotations play no part in coercion) -/
inductive STy where
  | str | long | bool
  | entity (ty : String)
  | ext (name : String)
  | set (elem : STy)
  | record (attrs : List (String × STy))
deriving Repr, Inhabited

/-- `coerceEntityUID`: a record with String members "type" and "id" (other members are ignored) -/
def coerceEntityUID : Value → Value
  | .record kvs =>
    match kvGet "type" kvs, kvGet "id" kvs with
    | some (.str t), some (.str i) => .entity t i
    | _, _ => .record kvs
  | v => v

/-- `coerceExtension`: a String that parses as the extension type -/
def coerceExtension (v : Value) (name : String) : Value :=
  match v with
  | .str s =>
    if name == "ipaddr" then (match parseIP s with | .ok a => .ip a | .error _ => v)
    else if name == "decimal" then (match parseDecimal s with | .ok d => .decimal d | .error _ => v)
    else if name == "datetime" then (match parseDatetime s with | .ok d => .datetime d | .error _ => v)
    else if name == "duration" then (match parseDuration s with | .ok d => .duration d | .error _ => v)
    else v
  | _ => v

mutual
/-- `coerceValue`.  Go returns the original value when nothing changed and otherwise rebuilds the set / record;
    both are `Equal`, the model always rebuilds. -/
def coerceValue : STy → Value → Value
  | .str, v => v
  | .long, v => v
  | .bool, v => v
  | .entity _, v => coerceEntityUID v
  | .ext n, v => coerceExtension v n
  | .set t, v => match v with | .set xs => mkSet (xs.map (fun x => coerceValue t x)) | _ => v
  | .record attrs, v => match v with | .record kvs => .record (coerceAttrs attrs kvs) | _ => v
/-- `coerceRecord`: every attribute of the type that is present is coerced; others pass through -/
def coerceAttrs : List (String × STy) → List (String × Value) → List (String × Value)
  | [], m => m
  | (name, t) :: rest, m =>
    coerceAttrs rest (match kvGet name m with | some val => kvInsert name (coerceValue t val) m | none => m)
end

/-! ## `Lean.Json`-typed entry points -/

def encodeValueJson (v : Value) : Lean.Json := (encodeValue v).toJson
def decodeValueJson (j : Lean.Json) : R Value := decodeValue (J.ofJson j)

end CedarGo.JsonModel
