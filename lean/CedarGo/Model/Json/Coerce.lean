/-
  C13 — schema-guided coercion of a whole entity (`x/exp/types/json.go`: `coerceEntity`, `coerceTagValues`) on top of
  `coerceValue` / `coerceAttrs` (Model/Json/Value.lean), and the document-level entry points

      decode (unguided) → coerce against the schema type

  `Entity.UnmarshalJSONWithSchema` / `EntityMap.UnmarshalJSONWithSchema` additionally VALIDATE the coerced entities
  (x/exp/schema/validate, strict): that part is C15/C16's subject and is not modelled here; the harness compares the
  coerced entity only when Go's validator accepts it.
-/
import CedarGo.Model.Json.Value
namespace CedarGo.JsonModel
open CedarGo

/-- `resolved.Entity` as far as coercion looks at it: the attribute shape and the optional tag type -/
structure SchemaEntityM where
  shape : List (String × STy)
  tags : Option STy
deriving Repr, Inhabited

/-- `coerceTagValues`: every tag value is coerced against the one tag type (keys unchanged); no tag type ⇒ unchanged -/
def coerceTags (t : Option STy) (tags : List (String × Value)) : List (String × Value) :=
  match t with
  | none => tags
  | some t => tags.map (fun kv => (kv.1, coerceValue t kv.2))

/-- `coerceEntity`: an entity whose type the schema does not declare is returned unchanged -/
def coerceEntityM (se : Option SchemaEntityM) (e : UID × EntityData) : UID × EntityData :=
  match se with
  | none => e
  | some s => (e.1, ⟨e.2.parents, coerceAttrs s.shape e.2.attrs, coerceTags s.tags e.2.tags⟩)

/-- a value document in a position typed `t`: unguided decode, then `coerceValue` -/
def decodeCoerced (t : STy) (j : J) : R Value := (decodeValue j).map (coerceValue t)

/-- an entity document: unguided decode, then `coerceEntity` -/
def decodeEntityCoerced (se : Option SchemaEntityM) (j : J) : R (UID × EntityData) :=
  (decodeEntity j).map (coerceEntityM se)

end CedarGo.JsonModel
