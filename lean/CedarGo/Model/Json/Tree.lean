/-
  JSON trees for the C09 / C13 codec models.

  `Lean.Json` is the interchange type (the driver parses the document text with `Lean.Json.parse`, and
  `toJson`/`fromJson` in Model/Json/{Policy,Value}.lean take and return `Lean.Json`).  The codec models
  themselves are written over `J`, a first-order copy of `Lean.Json` whose objects are key-sorted
  association lists: `Lean.Json.obj` wraps `Std.TreeMap.Raw`, which supports neither structural
  recursion nor kernel evaluation, and the property theorems need both.  `J.ofJson`/`J.toJson` convert
  (objects are emitted by `TreeMap.toList`, i.e. sorted by key, duplicate keys already collapsed by
  the parser).  bytes ↔ tree is `encoding/json` on the Go side and `Lean.Json.parse` here; both are
  trusted and exercised by the correspondence check.

  What the tree level cannot see (and therefore the harness never sends to the model): the order of
  object keys, duplicate keys, the spelling of number literals (`1e2` and `100` are the same
  `JsonNumber`), invalid UTF-8, insignificant white space.
-/
import Lean.Data.Json
namespace CedarGo.JsonModel
open Lean

inductive J where
  | null
  | bool (b : Bool)
  | num (m : Int) (e : Nat)          -- `JsonNumber`: m · 10^(-e)
  | str (s : String)
  | arr (xs : List J)
  | obj (kvs : List (String × J))    -- sorted by key, unique keys (as produced by `ofJson`)
deriving Repr, Inhabited

/-- outcomes of a decoder other than success -/
inductive JErr where
  | reject       -- the Go decoder returns an error
  | panic        -- the Go decoder panics (C10)
  | unmodelled   -- the behaviour depends on something the tree does not determine (key order, duplicate
                 --   field spellings, Go map iteration order): the driver prints `skip`
deriving DecidableEq, Repr, Inhabited

abbrev R := Except JErr

mutual
def J.depth : J → Nat
  | .arr xs => J.depthL xs + 1
  | .obj kvs => J.depthKV kvs + 1
  | _ => 1
def J.depthL : List J → Nat
  | [] => 0
  | x :: xs => max (J.depth x) (J.depthL xs)
def J.depthKV : List (String × J) → Nat
  | [] => 0
  | (_, x) :: kvs => max (J.depth x) (J.depthKV kvs)
end

partial def J.ofJson : Json → J
  | .null => .null
  | .bool b => .bool b
  | .num n => .num n.mantissa n.exponent
  | .str s => .str s
  | .arr a => .arr (a.toList.map J.ofJson)
  | .obj kvs => .obj (kvs.toList.map fun (k, v) => (k, J.ofJson v))

partial def J.toJson : J → Json
  | .null => .null
  | .bool b => .bool b
  | .num m e => .num ⟨m, e⟩
  | .str s => .str s
  | .arr xs => .arr (xs.map J.toJson).toArray
  | .obj kvs => .obj (kvs.foldl (fun acc (k, v) => acc.insert k (J.toJson v)) {})

/-! ## Go's case-insensitive matching of object keys against struct field names (`encoding/json` fold.go)

`foldName` upper-cases ASCII letters and maps every other rune to the smallest member of its
`unicode.SimpleFold` orbit.  All field names involved are ASCII, and the only non-ASCII runes whose
orbit contains an ASCII letter are U+017F (ſ → S) and U+212A (K → K), so a key matches a field name
iff the two are equal after this map. -/
def foldChar (c : Char) : Char :=
  if 'a' ≤ c && c ≤ 'z' then Char.ofNat (c.toNat - 32)
  else if c.toNat == 0x17F then 'S'
  else if c.toNat == 0x212A then 'K'
  else c

def foldStr (s : String) : String := String.ofList (s.toList.map foldChar)

def keyMatches (key field : String) : Bool := foldStr key == foldStr field

/-- result of looking a struct field up among the keys of an object -/
inductive Field where
  | absent
  | one (j : J)
  | ambiguous      -- several keys of the object fold to this field: Go keeps the last one *in document order*
deriving Inhabited

def findField (kvs : List (String × J)) (field : String) : Field :=
  match kvs.filter (fun kv => keyMatches kv.1 field) with
  | [] => .absent
  | [kv] => .one kv.2
  | _ => .ambiguous

/-- a `string` struct field: absent or `null` leave the zero value; any other kind is a type error -/
def strField (kvs : List (String × J)) (field : String) : R String :=
  match findField kvs field with
  | .absent => .ok ""
  | .one (.str s) => .ok s
  | .one .null => .ok ""
  | .one _ => .error .reject
  | .ambiguous => .error .unmodelled

/-- a `*string` struct field -/
def optStrField (kvs : List (String × J)) (field : String) : R (Option String) :=
  match findField kvs field with
  | .absent => .ok none
  | .one (.str s) => .ok (some s)
  | .one .null => .ok none
  | .one _ => .error .reject
  | .ambiguous => .error .unmodelled

/-! ## Canonical rendering (shared with the Go harness, `vh.CanonJSON`)

Objects `{hexkey:v,…}` in key order, arrays `[v,…]` in order, strings `S<hex of UTF-8>`, integers `N<m>`,
other numbers `N<m>e-<e>`, `T`/`F`/`Z`. -/
def hexNib (n : Nat) : Char := if n < 10 then Char.ofNat (48 + n) else Char.ofNat (87 + n)
def hexStr (s : String) : String :=
  String.ofList (s.toUTF8.toList.flatMap fun b => [hexNib (b.toNat / 16), hexNib (b.toNat % 16)])

mutual
def J.canon : J → String
  | .null => "Z"
  | .bool b => if b then "T" else "F"
  | .num m e => if e == 0 then s!"N{m}" else s!"N{m}e-{e}"
  | .str s => "S" ++ hexStr s
  | .arr xs => "[" ++ ",".intercalate (J.canonL xs) ++ "]"
  | .obj kvs => "{" ++ ",".intercalate (J.canonKV kvs) ++ "}"
def J.canonL : List J → List String
  | [] => []
  | x :: xs => J.canon x :: J.canonL xs
def J.canonKV : List (String × J) → List String
  | [] => []
  | (k, x) :: kvs => (hexStr k ++ ":" ++ J.canon x) :: J.canonKV kvs
end

def insertStr (s : String) : List String → List String
  | [] => [s]
  | x :: xs => if s ≤ x then s :: x :: xs else x :: insertStr s xs

def sortStrs (xs : List String) : List String := xs.foldl (fun acc s => insertStr s acc) []

/-- insert into a key-sorted association list, replacing an existing key (Go map assignment) -/
def insKV {α : Type} (k : String) (v : α) : List (String × α) → List (String × α)
  | [] => [(k, v)]
  | (k', v') :: rest =>
    if k < k' then (k, v) :: (k', v') :: rest
    else if k == k' then (k, v) :: rest
    else (k', v') :: insKV k v rest

/-- a Go `map[string]T` built by assigning the pairs in order (later wins), listed in key order -/
def sortKV {α : Type} (kvs : List (String × α)) : List (String × α) :=
  kvs.foldl (fun acc kv => insKV kv.1 kv.2 acc) []

abbrev jInsert (k : String) (v : J) (l : List (String × J)) : List (String × J) := insKV k v l

/-- a Go `map[string]T` built by assigning the pairs in order, marshalled (keys sorted) -/
def jObjOfPairs (kvs : List (String × J)) : J := .obj (sortKV kvs)

end CedarGo.JsonModel
