/-
  C13 — JSON codec of `types.Diagnostic` and `types.Decision` (types/authorize.go).

    type Diagnostic struct       { Reasons []DiagnosticReason `json:"reasons,omitempty"`; Errors []DiagnosticError `json:"errors,omitempty"` }
    type DiagnosticReason struct { PolicyID PolicyID `json:"policy"`; Position Position `json:"position"` }
    type DiagnosticError struct  { PolicyID PolicyID `json:"policy"`; Position Position `json:"position"`; Message string `json:"message"` }
    type Position struct         { Filename string `json:"filename"`; Offset int `json:"offset"`; Line int `json:"line"`; Column int `json:"column"` }

  None of the four has a custom (un)marshaller: this is `encoding/json`'s struct codec.  Every field is exported and
  encoded; the only thing NOT encoded is the difference between a nil and an empty non-nil slice (`omitempty` drops
  both, decoding an absent member leaves nil).  To make that visible a slice is `Option (List α)`: `none` = nil,
  `some []` = empty non-nil.

    func (a Decision) MarshalJSON() ([]byte, error) { return []byte(`"` + a.String() + `"`), nil }
    func (a *Decision) UnmarshalJSON(b []byte) error {
        if string(b) == "null" { return nil }                               // no-op, encoding/json's convention
        var s string
        if err := json.Unmarshal(b, &s); err != nil { return err }          // not a JSON string
        switch s { case "allow": *a = Allow; case "deny": *a = Deny; default: return fmt.Errorf("invalid decision %q", s) }
        return nil
    }

  `Decision.UnmarshalJSON` receives the TEXT of the JSON value; it is modelled on that text (not on the tree), so that the
  statement "every spelling of the string `allow` decodes to Allow" talks about spellings (`jsonStringToken` is the
  reading of a string token, tied to `encoding/json` by the correspondence op jstr-token).  Until the repair the function
  compared the raw bytes with `"allow"` and never failed.
-/
import CedarGo.Model.Json.Value
namespace CedarGo.JsonModel
open CedarGo

structure PositionM where
  filename : String
  offset : Int
  line : Int
  column : Int
deriving DecidableEq, Repr, Inhabited

structure ReasonM where
  policy : String
  position : PositionM
deriving DecidableEq, Repr, Inhabited

structure DiagErrorM where
  policy : String
  position : PositionM
  message : String
deriving DecidableEq, Repr, Inhabited

/-- `none` = nil slice, `some l` = non-nil slice -/
structure DiagnosticM where
  reasons : Option (List ReasonM)
  errors : Option (List DiagErrorM)
deriving DecidableEq, Repr, Inhabited

/-! ## Encoding (keys in sorted order, as everywhere at tree level) -/

def encodePosition (p : PositionM) : J :=
  .obj [("column", .num p.column 0), ("filename", .str p.filename), ("line", .num p.line 0), ("offset", .num p.offset 0)]

def encodeReason (r : ReasonM) : J :=
  .obj [("policy", .str r.policy), ("position", encodePosition r.position)]

def encodeDiagError (e : DiagErrorM) : J :=
  .obj [("message", .str e.message), ("policy", .str e.policy), ("position", encodePosition e.position)]

/-- `omitempty` on a slice: nil and empty are both left out -/
def sliceMember {α} (name : String) (enc : α → J) : Option (List α) → List (String × J)
  | some (x :: xs) => [(name, .arr ((x :: xs).map enc))]
  | _ => []

def encodeDiagnostic (d : DiagnosticM) : J :=
  .obj (sliceMember "errors" encodeDiagError d.errors ++ sliceMember "reasons" encodeReason d.reasons)

/-! ## Decoding (`json.Unmarshal` into a fresh variable) -/

/-- an `int` struct field (64-bit): absent or `null` leave 0; an integer literal in range is stored; a literal with a
    fraction, out of range, or any other kind is an `UnmarshalTypeError` -/
def intField (kvs : List (String × J)) (field : String) : R Int :=
  match findField kvs field with
  | .absent => .ok 0
  | .one .null => .ok 0
  | .one (.num m e) => if e == 0 && decide (InI64 m) then .ok m else .error .reject
  | .one _ => .error .reject
  | .ambiguous => .error .unmodelled

def zeroPosition : PositionM := ⟨"", 0, 0, 0⟩

def decodePositionObj (kvs : List (String × J)) : R PositionM := do
  let f ← strField kvs "filename"
  let o ← intField kvs "offset"
  let l ← intField kvs "line"
  let c ← intField kvs "column"
  .ok ⟨f, o, l, c⟩

/-- a `Position` struct field -/
def positionField (kvs : List (String × J)) (field : String) : R PositionM :=
  match findField kvs field with
  | .absent => .ok zeroPosition
  | .one .null => .ok zeroPosition
  | .one (.obj pkvs) => decodePositionObj pkvs
  | .one _ => .error .reject
  | .ambiguous => .error .unmodelled

/-- element of `[]DiagnosticReason` -/
def decodeReason : J → R ReasonM
  | .null => .ok ⟨"", zeroPosition⟩
  | .obj kvs => do
    let p ← strField kvs "policy"
    let pos ← positionField kvs "position"
    .ok ⟨p, pos⟩
  | _ => .error .reject

/-- element of `[]DiagnosticError` -/
def decodeDiagError : J → R DiagErrorM
  | .null => .ok ⟨"", zeroPosition, ""⟩
  | .obj kvs => do
    let p ← strField kvs "policy"
    let pos ← positionField kvs "position"
    let m ← strField kvs "message"
    .ok ⟨p, pos, m⟩
  | _ => .error .reject

/-- a slice-typed struct field: absent or `null` ⇒ nil; an array ⇒ a non-nil slice (possibly empty) -/
def sliceField {α} (kvs : List (String × J)) (field : String) (dec : J → R α) : R (Option (List α)) :=
  match findField kvs field with
  | .absent => .ok none
  | .one .null => .ok none
  | .one (.arr xs) => (mapMR dec xs).map some
  | .one _ => .error .reject
  | .ambiguous => .error .unmodelled

def decodeDiagnostic : J → R DiagnosticM
  | .null => .ok ⟨none, none⟩
  | .obj kvs => do
    let rs ← sliceField kvs "reasons" decodeReason
    let es ← sliceField kvs "errors" decodeDiagError
    .ok ⟨rs, es⟩
  | _ => .error .reject

/-- what the JSON form keeps of a slice: nil and empty are identified -/
def normSlice {α} : Option (List α) → Option (List α)
  | some (x :: xs) => some (x :: xs)
  | _ => none

def DiagnosticM.norm (d : DiagnosticM) : DiagnosticM := ⟨normSlice d.reasons, normSlice d.errors⟩

/-! ## `Decision` — text level -/

/-- `Decision.MarshalJSON`: the bytes written -/
def encodeDecisionText (allow : Bool) : String := if allow then "\"allow\"" else "\"deny\""

def isJsonSpace (c : Char) : Bool := c == ' ' || c == '\t' || c == '\n' || c == '\r'

def trimJsonSpace (s : String) : String :=
  String.ofList ((s.toList.dropWhile isJsonSpace).reverse.dropWhile isJsonSpace).reverse

/-! ### the string a JSON string token denotes (RFC 8259 §7; `encoding/json.unquote`)

Only what the statement "this token spells the string `allow`" needs: plain characters, the two-character escapes
and `\uXXXX` for scalar values outside the surrogate range (`none` for anything else, incl. surrogate escapes, raw
control characters and a missing closing quote). -/

def hexVal? (c : Char) : Option Nat :=
  if '0' ≤ c && c ≤ '9' then some (c.toNat - 48)
  else if 'a' ≤ c && c ≤ 'f' then some (c.toNat - 87)
  else if 'A' ≤ c && c ≤ 'F' then some (c.toNat - 55)
  else none

def simpleEscape? (c : Char) : Option Char :=
  if c == '"' then some '"' else if c == '\\' then some '\\' else if c == '/' then some '/'
  else if c == 'b' then some (Char.ofNat 8) else if c == 'f' then some (Char.ofNat 12)
  else if c == 'n' then some '\n' else if c == 'r' then some '\r' else if c == 't' then some '\t'
  else none

/-- body of a string token up to and including the closing quote; `acc` is the reversed output -/
def jsonStringBody : List Char → List Char → Option (List Char)
  | ['"'], acc => some acc.reverse
  | '\\' :: 'u' :: a :: b :: c :: d :: rest, acc =>
    match hexVal? a, hexVal? b, hexVal? c, hexVal? d with
    | some a, some b, some c, some d =>
      let n := ((a * 16 + b) * 16 + c) * 16 + d
      if 0xD800 ≤ n && n ≤ 0xDFFF then none else jsonStringBody rest (Char.ofNat n :: acc)
    | _, _, _, _ => none
  | '\\' :: e :: rest, acc =>
    match simpleEscape? e with
    | some ch => jsonStringBody rest (ch :: acc)
    | none => none
  | ch :: rest, acc => if ch == '"' || ch == '\\' || ch.toNat < 32 then none else jsonStringBody rest (ch :: acc)
  | [], _ => none

/-- the string denoted by a JSON string token (`none`: not a string token of the modelled class) -/
def jsonStringToken (tok : String) : Option String :=
  match tok.toList with
  | '"' :: body => (jsonStringBody body []).map String.ofList
  | _ => none

/-- what the property asks of a `Decision` decoder, on the decoded STRING: exactly the two names -/
def decisionOfString (s : String) : Option Bool :=
  if s == "allow" then some true else if s == "deny" then some false else none

/-- `Decision.UnmarshalJSON(b)`: `b` is the text of the JSON value as it stands in the document (encoding/json hands
    the bytes of the value over unparsed, without the surrounding white space).  `.ok (some d)`: the receiver is set to
    `d`; `.ok none`: the receiver is left as it was (`null`); `.error .reject`: an error is returned, the receiver is
    left as it was.  `json.Unmarshal(b, &s)` into a Go string fails for every text that is not a string token; a token
    outside the class read by `jsonStringToken` (surrogate escapes) denotes a string holding a character beyond the
    BMP or U+FFFD, which is neither name, so `none` is an error in either case. -/
def decodeDecisionText (raw : String) : R (Option Bool) :=
  if raw == "null" then .ok none
  else match jsonStringToken raw with
    | some s =>
      match decisionOfString s with
      | some d => .ok (some d)
      | none => .error .reject
    | none => .error .reject

/-- the receiver after `json.Unmarshal(raw, &recv)` -/
def decodeDecisionInto (recv : Bool) (raw : String) : R Bool :=
  (decodeDecisionText raw).map (fun o => o.getD recv)

end CedarGo.JsonModel
