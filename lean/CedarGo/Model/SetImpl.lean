/-
  C11 model: Go's open-addressed `types.Set` (types/set.go) and the hash functions of every value kind
  (types/*.go `hash()`), plus the Go-map based `types.Record` equality (types/record.go).
  Core Lean only (linked into the `driver` executable).

  * `Table` is the Go `map[uint64]Value`: a finite map from slot number to value, as an association
    list with unique keys (uniqueness is an invariant proved in CedarGoProofs/Lemmas/C11Set.lean).
  * The hash function is a PARAMETER `hash : Value → UInt64` everywhere; `goHash` is the real one.
  * Go's `for { … hash++ }` probe loops carry fuel = table size + 1; `probe` reports `.exhausted` if
    the fuel runs out (Go would spin forever) and C11_probe_terminates proves it never does for
    tables with fewer than 2^64 entries.
-/
import CedarGo.Model.Value
namespace CedarGo

/-- the Go `map[uint64]Value` of a `types.Set` -/
abbrev Table := List (UInt64 × Value)

/-- Go map lookup `set[hash]` -/
def Table.get : Table → UInt64 → Option Value
  | [], _ => none
  | (k', v) :: t, k => if k = k' then some v else Table.get t k

/-- outcome of one probe loop (set.go:28-38 and :86-94) -/
inductive Probe where
  | found (slot : UInt64)      -- `v.Equal(existing)` at this slot
  | empty (slot : UInt64)      -- `!ok`: first unoccupied slot
  | exhausted                  -- fuel ran out (never happens, C11_probe_terminates)
deriving Repr, DecidableEq

/-- the probe loop shared by `NewSet` and `Contains`: start at slot `h`; stop at an empty slot or at an
    element equal to `v`; otherwise `hash++` (UInt64 addition wraps around exactly like Go's uint64). -/
def probe (t : Table) (v : Value) : Nat → UInt64 → Probe
  | 0, _ => .exhausted
  | fuel + 1, h =>
    match t.get h with
    | none => .empty h
    | some existing => if v.beq existing then .found h else probe t v fuel (h + 1)

/-- one iteration of the `for _, vv := range v` loop of `NewSet` -/
def insertV (hash : Value → UInt64) (t : Table) (v : Value) : Table :=
  match probe t v (t.length + 1) (hash v) with
  | .empty slot => (slot, v) :: t
  | .found _ => t
  | .exhausted => t

def buildTable (hash : Value → UInt64) (vs : List Value) : Table := vs.foldl (insertV hash) []

def sumU64 : List UInt64 → UInt64
  | [] => 0
  | x :: xs => x + sumU64 xs

/-- `types.Set`: the table and the cached hash (sum of the member hashes, wrapping) -/
structure SetImpl where
  tbl : Table
  hashVal : UInt64
deriving Repr

/-- `types.NewSet(vs...)` -/
def newSet (hash : Value → UInt64) (vs : List Value) : SetImpl :=
  let t := buildTable hash vs
  ⟨t, sumU64 (t.map fun kv => hash kv.2)⟩

namespace SetImpl

/-- `Set.Len` -/
def len (s : SetImpl) : Nat := s.tbl.length

/-- `Set.Slice` / `Set.All` (in table order; Go's order is unspecified) -/
def slice (s : SetImpl) : List Value := s.tbl.map (·.2)

/-- `Set.Contains` -/
def contains (hash : Value → UInt64) (s : SetImpl) (v : Value) : Bool :=
  match probe s.tbl v (s.tbl.length + 1) (hash v) with
  | .found _ => true
  | _ => false

/-- `Set.Equal` on two sets: same length, same summed hash, every member of `s` contained in `b` -/
def equal (hash : Value → UInt64) (s b : SetImpl) : Bool :=
  if s.len != b.len || s.hashVal != b.hashVal then false
  else s.tbl.all fun kv => b.contains hash kv.2

/-- `containsAllEval` (internal/eval/evalers.go): every member of `rhs` is in `lhs` -/
def containsAll (hash : Value → UInt64) (lhs rhs : SetImpl) : Bool :=
  rhs.tbl.all fun kv => lhs.contains hash kv.2

/-- `containsAnyEval`: some member of `rhs` is in `lhs` -/
def containsAny (hash : Value → UInt64) (lhs rhs : SetImpl) : Bool :=
  rhs.tbl.any fun kv => lhs.contains hash kv.2

end SetImpl

/-! ## The real hash functions -/

def fnvOffset : UInt64 := 14695981039346656037
def fnvPrime : UInt64 := 1099511628211

/-- one byte of Go's `fnv.New64()` (FNV-1: multiply, then xor) -/
@[inline] def fnvByte (h : UInt64) (b : UInt8) : UInt64 := (h * fnvPrime) ^^^ b.toUInt64

def fnvBytes (h : UInt64) (bs : List UInt8) : UInt64 := bs.foldl fnvByte h

/-- `h.Write([]byte(s))` -/
def fnvString (h : UInt64) (s : String) : UInt64 := s.toUTF8.foldl fnvByte h

/-- `binary.Write(h, binary.LittleEndian, x)` for a uint64 -/
def fnvLE64 (h : UInt64) (x : UInt64) : UInt64 :=
  fnvBytes h ((List.range 8).map fun i => (x >>> (8 * UInt64.ofNat i)).toUInt8)

/-- Go `uint64(int64 value)` -/
def u64OfInt (n : Int) : UInt64 := UInt64.ofInt n

/-- big-endian bytes of `n`, `len` of them -/
def beBytes (len : Nat) (n : Nat) : List UInt8 :=
  (List.range len).map fun i => UInt8.ofNat (n / 256 ^ (len - 1 - i) % 256)

/-- `netip.Prefix.MarshalBinary`: 4 or 16 address bytes, then the prefix length -/
def ipBinary (a : IPNet) : List UInt8 :=
  beBytes (if a.v6 then 16 else 4) a.addr ++ [UInt8.ofNat a.bits]

mutual
/-- `Value.hash()` of every kind (boolean.go:27, long.go:41, string.go:29, entity_uid.go:119,
    set.go:186, record.go:196, decimal.go:196, datetime.go:327, duration.go:289, ipaddr.go:140).
    `.set xs` denotes `NewSet(xs...)`, whose hash is the wrapping sum over the DISTINCT members. -/
def goHash : Value → UInt64
  | .bool b => if b then 1 else 0
  | .long n => u64OfInt n
  | .str s => fnvString fnvOffset s
  | .entity ty id => fnvString (fnvString fnvOffset ty) id
  | .set xs => goHashSet [] xs
  | .record kvs => match kvs with
    | [] => 0
    | _ :: _ => goHashKVs fnvOffset kvs
  | .decimal n => u64OfInt n
  | .datetime n => u64OfInt n
  | .duration n => u64OfInt n
  | .ip a => fnvBytes fnvOffset (ipBinary a)
/-- wrapping sum of the hashes of the members not already `seen` (first occurrences, as `dedupV`) -/
def goHashSet : List Value → List Value → UInt64
  | _, [] => 0
  | seen, x :: xs => if Value.memL x seen then goHashSet seen xs else goHash x + goHashSet (x :: seen) xs
/-- record.go:33-36: for each key in sorted order, the key bytes then the value hash little-endian -/
def goHashKVs : UInt64 → List (String × Value) → UInt64
  | h, [] => h
  | h, (k, v) :: rest => goHashKVs (fnvLE64 (fnvString h k) (goHash v)) rest
end

/-- a deliberately terrible hash that still respects equality: kind tag mod 3 -/
def kindHash : Value → UInt64
  | .bool _ => 0 | .long _ => 1 | .str _ => 2 | .entity .. => 0 | .set _ => 1 | .record _ => 2
  | .decimal _ => 0 | .datetime _ => 1 | .duration _ => 2 | .ip _ => 0

/-- the worst hash: everything collides -/
def constHash : Value → UInt64 := fun _ => 0

/-- another terrible one: collides everything AND starts at the top of the slot space so probing wraps around -/
def wrapHash : Value → UInt64 := fun _ => 18446744073709551615

/-! ## Records as Go maps -/

/-- the Go `map[String]Value` of a `types.Record`: association list with unique keys, any order -/
abbrev RecMap := List (String × Value)

def RecMap.get : RecMap → String → Option Value
  | [], _ => none
  | (k', v) :: m, k => if k = k' then some v else RecMap.get m k

/-- Go map assignment `m[k] = v` -/
def RecMap.set : RecMap → String → Value → RecMap
  | [], k, v => [(k, v)]
  | (k', v') :: m, k, v => if k = k' then (k, v) :: m else (k', v') :: RecMap.set m k v

/-- a Go map built by assigning the pairs in order (later wins) -/
def RecMap.ofList (kvs : List (String × Value)) : RecMap := kvs.foldl (fun m kv => m.set kv.1 kv.2) []

/-- `types.Record`: the (cloned) map and the cached hash -/
structure RecImpl where
  m : RecMap
  hashVal : UInt64
deriving Repr

/-- `slices.Sort(keys)`: the pairs of the map in key order (insertion into a sorted association list) -/
def RecMap.sorted (m : RecMap) : List (String × Value) := m.foldl (fun acc kv => kvInsert kv.1 kv.2 acc) []

/-- record.go:27-38 with the value hash as a parameter: 0 for the empty map, else FNV-1 over
    key bytes and little-endian value hash in key order -/
def recHash (hash : Value → UInt64) (m : RecMap) : UInt64 :=
  match m.sorted with
  | [] => 0
  | kvs => kvs.foldl (fun h kv => fnvLE64 (fnvString h kv.1) (hash kv.2)) fnvOffset

/-- `types.NewRecord(m)` where the Go map `m` was built by assigning `kvs` in order -/
def newRecord (hash : Value → UInt64) (kvs : List (String × Value)) : RecImpl :=
  let m := RecMap.ofList kvs
  ⟨m, recHash hash m⟩

/-- `Record.Equal` (record.go:115-127) on two records -/
def RecImpl.equal (r b : RecImpl) : Bool :=
  if r.m.length != b.m.length || r.hashVal != b.hashVal then false
  else r.m.all fun kv => match b.m.get kv.1 with
    | some bv => kv.2.beq bv
    | none => false

end CedarGo
