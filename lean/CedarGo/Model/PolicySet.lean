/-
  C20: `PolicySet` (policy_set.go) as an association list without duplicate ids.
-/
import CedarGo.Model.Fold
namespace CedarGo

abbrev PS := List (PolicyID × Policy)

def PS.get : PS → PolicyID → Option Policy
  | [], _ => none
  | (k, p) :: rest, id => if k == id then some p else PS.get rest id

/-- `Add`: store (replacing an existing entry), report whether the id was new -/
def PS.add (s : PS) (id : PolicyID) (p : Policy) : PS × Bool :=
  if (s.get id).isSome then (s.map (fun kp => if kp.1 == id then (id, p) else kp), false)
  else (s ++ [(id, p)], true)

/-- `Remove`: delete, report whether the id existed -/
def PS.remove (s : PS) (id : PolicyID) : PS × Bool :=
  (s.filter (fun kp => kp.1 != id), (s.get id).isSome)

def insertId (x : PolicyID) : List PolicyID → List PolicyID
  | [] => [x]
  | y :: ys => if x ≤ y then x :: y :: ys else y :: insertId x ys

def sortIds : List PolicyID → List PolicyID
  | [] => []
  | x :: xs => insertId x (sortIds xs)

/-- the order in which `MarshalCedar` emits policies: lexicographic by id -/
def PS.ids (s : PS) : List PolicyID := sortIds (s.map (·.1))

/-- `Map()` / `All()`: the contents -/
def PS.contents (s : PS) : List (PolicyID × Policy) := s

def policyIdOf (i : Nat) : PolicyID := "policy" ++ toString i

/-- `NewPolicySetFromBytes(name, doc)` after parsing `doc` to the policy list `ps` -/
def PS.fromList (name : String) (ps : List Policy) : PS :=
  let rec go : Nat → List Policy → PS
    | _, [] => []
    | i, p :: rest => (policyIdOf i, { p with position := { p.position with filename := name } }) :: go (i + 1) rest
  go 0 ps

/-- operations of a history -/
inductive PSOp where
  | add (id : PolicyID) (p : Policy)
  | remove (id : PolicyID)
  | get (id : PolicyID)
  | ids
deriving Repr

inductive PSOut where
  | bool (b : Bool)
  | policy (p : Option Policy)
  | idList (l : List PolicyID)
deriving Repr

def PS.step (s : PS) : PSOp → PS × PSOut
  | .add id p => let (s', b) := s.add id p; (s', .bool b)
  | .remove id => let (s', b) := s.remove id; (s', .bool b)
  | .get id => (s, .policy (s.get id))
  | .ids => (s, .idList s.ids)

def PS.run (s : PS) : List PSOp → PS × List PSOut
  | [] => (s, [])
  | op :: ops => let (s', o) := s.step op; let (s'', os) := PS.run s' ops; (s'', o :: os)

end CedarGo
