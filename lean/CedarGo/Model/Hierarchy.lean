/-
  C03: the ancestor search of `internal/eval/evalers.go` (`entityInOne`, `entityInSet`).
  The order in which Go's map yields an entity's parents is the order of `EntityData.parents`;
  the theorems hold for every order.
-/
import CedarGo.Model.Expr
namespace CedarGo

/-- the inner `for k := range fe.Parents.All()` loop: push eligible, not yet known parents -/
def pushParents (es : Entities) (entity : UID) : List UID → List UID → List UID → List UID × List UID
  | [], todo, known => (todo, known)
  | k :: ks, todo, known =>
    match es.get k with
    | none => pushParents es entity ks todo known
    | some p =>
      if p.parents.isEmpty || k == entity || known.contains k then pushParents es entity ks todo known
      else pushParents es entity ks (k :: todo) (k :: known)

/-- the outer `for` loop; `hit ps` = "the parents `ps` contain (one of) the target(s)";
    `none` = out of fuel (proved impossible for `fuel ≥ es.length + 1`) -/
def inLoop (es : Entities) (entity : UID) (hit : List UID → Bool) :
    Nat → UID → List UID → List UID → Option Bool
  | 0, _, _, _ => none
  | fuel + 1, cand, todo, known =>
    match es.get cand with
    | some fe =>
      if hit fe.parents then some true else
      match pushParents es entity fe.parents todo known with
      | ([], _) => some false
      | (c :: rest, known') => inLoop es entity hit fuel c rest known'
    | none =>
      match todo with
      | [] => some false
      | c :: rest => inLoop es entity hit fuel c rest known

def entityInOneFuel (fuel : Nat) (es : Entities) (entity parent : UID) : Option Bool :=
  if entity == parent then some true
  else inLoop es entity (fun ps => ps.contains parent) fuel entity [] []

def entityInSetFuel (fuel : Nat) (es : Entities) (entity : UID) (parents : List UID) : Option Bool :=
  if parents.contains entity then some true
  else inLoop es entity (fun ps => ps.any (fun p => parents.contains p)) fuel entity [] []

def entityInOne (es : Entities) (entity parent : UID) : Option Bool :=
  entityInOneFuel (es.length + 1) es entity parent

def entityInSet (es : Entities) (entity : UID) (parents : List UID) : Option Bool :=
  entityInSetFuel (es.length + 1) es entity parents

end CedarGo
