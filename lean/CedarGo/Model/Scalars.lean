/-
  Scalar / extension-value text forms (C12), transcribed from
  `types/decimal.go`, `types/duration.go`, `types/datetime.go`, `types/ipaddr.go`
  and the parts of `strconv`, `time` and `net/netip` they call (those are *modelled*, DESIGN §5).
  All functions work on `List Char` (Unicode scalars); the Go code works on bytes, the two
  agree on every valid-UTF-8 input because every accepted character is ASCII.
-/
import CedarGo.Model.Value
namespace CedarGo.Scalars
open CedarGo

def isDig (c : Char) : Bool := '0' ≤ c && c ≤ '9'
def digVal (c : Char) : Nat := c.toNat - '0'.toNat

/-- value of a digit string, most significant first -/
def digitsVal (cs : List Char) : Nat := cs.foldl (fun acc c => acc * 10 + digVal c) 0

def allDigits (cs : List Char) : Bool := !cs.isEmpty && cs.all isDig

/-- optional sign of `strconv.ParseInt` -/
def signSplit : List Char → Bool × List Char
  | '-' :: r => (true, r)
  | '+' :: r => (false, r)
  | r => (false, r)

/-- `strconv.ParseInt(s, 10, 64)`: optional sign, at least one digit, in range. -/
def parseInt64 (cs : List Char) : Option Int :=
  let p := signSplit cs
  if allDigits p.2 then
    let v : Int := digitsVal p.2
    let v := if p.1 then -v else v
    if minI64 ≤ v ∧ v ≤ maxI64 then some v else none
  else none

/-- `strconv.ParseUint(s, 10, bits)` -/
def parseUintMax (cs : List Char) (max : Nat) : Option Nat :=
  if allDigits cs then
    let v := digitsVal cs
    if v ≤ max then some v else none
  else none

def splitAtChar (c : Char) : List Char → Option (List Char × List Char)
  | [] => none
  | x :: xs => if x == c then some ([], xs) else
      match splitAtChar c xs with
      | some (a, b) => some (x :: a, b)
      | none => none

/-! ## Decimal -/

/-- `newDecimal(intPart, tenThousandths)` -/
def newDecimal (intPart tt : Int) : Except Err Int :=
  if intPart > 922337203685477 || (intPart == 922337203685477 && tt > 5807) then .error .extDecimal
  else if intPart < -922337203685477 || (intPart == -922337203685477 && tt < -5808) then .error .extDecimal
  else .ok (intPart * 10000 + tt)

/-- `types.ParseDecimal` -/
def parseDecimalL (cs : List Char) : Except Err Int :=
  match splitAtChar '.' cs with
  | none => .error .extDecimal
  | some (ip, fp) =>
    -- `s[0] == '+'`: the sign `strconv.ParseInt` would accept is not Cedar syntax
    if cs.head? == some '+' then .error .extDecimal else
    match parseInt64 ip with
    | none => .error .extDecimal
    | some i =>
      match parseUintMax fp 65535 with
      | none => .error .extDecimal
      | some f =>
        if fp.length > 4 then .error .extDecimal else
        let tt : Int := (f * 10 ^ (4 - fp.length) : Nat)
        let tt := if cs.head? == some '-' then -tt else tt
        newDecimal i tt

def parseDecimal (s : String) : Except Err Int := parseDecimalL s.toList

def padLeft (n : Nat) (c : Char) (cs : List Char) : List Char :=
  List.replicate (n - cs.length) c ++ cs

/-- the decimal digit character of `d < 10` -/
def digitChar (d : Nat) : Char := Char.ofNat (48 + d)

/-- decimal digits of `n`, most significant first, by structural recursion on fuel -/
def natDigitsF : Nat → Nat → List Char
  | 0, _ => []
  | f + 1, n => if n < 10 then [digitChar n] else natDigitsF f (n / 10) ++ [digitChar (n % 10)]

/-- `strconv.FormatUint(n, 10)` / `fmt` `%d` of a non-negative number (own digit function;
    fuel `n + 1` always suffices, see `natDigits_lt`/`natDigits_ge` in the C12 lemmas) -/
def natDigits (n : Nat) : List Char := natDigitsF (n + 1) n

/-- strip up to three trailing zeros (`Decimal.String`) -/
def trimZeros3 (cs : List Char) : List Char :=
  let r := cs.reverse
  let rec go : Nat → List Char → List Char
    | 0, r => r
    | n+1, '0' :: r => go n r
    | _, r => r
  (go 3 r).reverse

/-- `Decimal.String` on character lists -/
def printDecimalL (d : Int) : List Char :=
  let a := d.natAbs
  let body := natDigits (a / 10000) ++ ['.'] ++ padLeft 4 '0' (natDigits (a % 10000))
  let body := trimZeros3 body
  if d < 0 then '-' :: body else body

/-- `Decimal.String` -/
def printDecimal (d : Int) : String := String.ofList (printDecimalL d)

/-- Go `int16(x)` of an `int64` -/
def wrap16 (x : Int) : Int := (x + 32768) % 65536 - 32768

/-- `types.NewDecimal(i, exponent)`, literally: `int64(math.Pow10(k))` is exact for `k ≤ 18`;
    for a positive exponent the operand is compared with `MaxInt64/pow` and `MinInt64/pow` (Go `/` truncates)
    before the product is formed, so the product never wraps (`newDecimalExp_pos` in the C12 lemmas). -/
def newDecimalExp (i : Int) (exponent : Int) : Except Err Int :=
  if exponent < -4 || exponent > 14 then .error .extDecimal else
  if exponent ≤ 0 then
    let p : Int := 10 ^ (-exponent).toNat
    let intPart := Int.tdiv i p
    let fracPart := wrap (Int.tmod i p * 10 ^ (4 + exponent).toNat)
    newDecimal intPart (wrap16 fracPart)
  else
    let pow : Int := 10 ^ exponent.toNat
    if i > Int.tdiv maxI64 pow then .error .extDecimal
    else if i < Int.tdiv minI64 pow then .error .extDecimal
    else newDecimal (wrap (i * pow)) (wrap16 0)

/-! ## Long (`fmt.Sprint(int64)` / `strconv.ParseInt`) -/

def printLongL (n : Int) : List Char := if n < 0 then '-' :: natDigits n.natAbs else natDigits n.natAbs
def printLong (n : Int) : String := String.ofList (printLongL n)
def parseLong (s : String) : Option Int := parseInt64 s.toList

/-! ## Duration -/

def unitIndex : List Char → Nat
  | ['d'] => 0 | ['h'] => 1 | ['m'] => 2 | ['s'] => 3 | _ => 4  -- "ms"

def unitMillis : Nat → Int
  | 0 => 86400000 | 1 => 3600000 | 2 => 60000 | 3 => 1000 | _ => 1

/-- the main loop of `types.ParseDuration`; `unitI` = next admissible index in `unitOrder`; `limit` = the largest
    admissible magnitude (2^63 after a leading `-`, 2^63-1 otherwise).  Go accumulates `total`/`value` in `uint64`;
    the guards keep every intermediate result ≤ `limit` (`durLoop_ok_range` in the C12 lemmas), so exact
    arithmetic on `Int` is what the unsigned arithmetic computes. -/
def durLoop (limit : Int) : List Char → (unitI : Nat) → (total value : Int) → (hasValue : Bool) → Except Err Int
  | [], _, total, _, hasValue => if hasValue then .error .extDuration else .ok total
  | c :: rest, unitI, total, value, hasValue =>
    if unitI ≥ 5 then
      (if hasValue then .error .extDuration else .error .extDuration)  -- i < len(s): invalid duration
    else if isDig c then
      let digit : Int := digVal c
      if value > (limit - digit) / 10 then .error .extDuration
      else durLoop limit rest unitI total (value * 10 + digit) true
    else if c == 'd' || c == 'h' || c == 'm' || c == 's' then
      if !hasValue then .error .extDuration else
      let isMs := c == 'm' && rest.head? == some 's'
      let idx := if isMs then 4 else unitIndex [c]
      if idx < unitI then .error .extDuration else
      let millis := unitMillis idx
      if value > limit / millis then .error .extDuration else
      let product := value * millis
      if total > limit - product then .error .extDuration else
      if isMs then
        match rest with
        | _ :: rest' => durLoop limit rest' (idx + 1) (total + product) 0 false
        | [] => .error .extDuration
      else durLoop limit rest (idx + 1) (total + product) 0 false
    else .error .extDuration

/-- `types.ParseDuration` -/
def parseDurationL (cs : List Char) : Except Err Int :=
  -- Go: len(s) <= 1 in bytes; a one-character non-ASCII string passes that test and is rejected later
  if cs.length ≤ 1 then .error .extDuration else
  -- `int64(-total)` (negation in uint64) is exactly `-total` for `total ≤ 2^63`, which the guards ensure
  if cs.head? == some '-' then (durLoop (maxI64 + 1) cs.tail 0 0 0 false).map (fun t => -t)
  else durLoop maxI64 cs 0 0 0 false

def parseDuration (s : String) : Except Err Int := parseDurationL s.toList

def unitChars : Nat → List Char
  | 0 => ['d'] | 1 => ['h'] | 2 => ['m'] | 3 => ['s'] | _ => ['m', 's']

/-- one `if q > 0 { FormatInt(q); unit }` block of `Duration.String` -/
def durPart (q : Int) (idx : Nat) : List Char := if q > 0 then natDigits q.toNat ++ unitChars idx else []

/-- `Duration.String` (the magnitude is kept in a `uint64`, where negating `uint64(d)` gives exactly `-d`
    for every negative `int64`, MinInt64 included) -/
def printDurationL (d : Int) : List Char :=
  if d == 0 then ['0', 'm', 's'] else
  let rem0 : Int := if d < 0 then -d else d
  let sign : List Char := if d < 0 then ['-'] else []
  let days := Int.tdiv rem0 86400000
  let r1 := Int.tmod rem0 86400000
  let hours := Int.tdiv r1 3600000
  let r2 := Int.tmod r1 3600000
  let mins := Int.tdiv r2 60000
  let r3 := Int.tmod r2 60000
  let secs := Int.tdiv r3 1000
  let r4 := Int.tmod r3 1000
  sign ++ (durPart days 0 ++ (durPart hours 1 ++ (durPart mins 2 ++ (durPart secs 3 ++ durPart r4 4))))

def printDuration (d : Int) : String := String.ofList (printDurationL d)

/-! ## Datetime -/

def isLeap (y : Int) : Bool := (y % 4 == 0 && y % 100 != 0) || y % 400 == 0

def daysInMonth (y : Int) (m : Nat) : Nat :=
  match m with
  | 1 => 31 | 2 => if isLeap y then 29 else 28 | 3 => 31 | 4 => 30 | 5 => 31 | 6 => 30
  | 7 => 31 | 8 => 31 | 9 => 30 | 10 => 31 | 11 => 30 | 12 => 31 | _ => 0

/-- days since 1970-01-01 of a proleptic Gregorian civil date (Hinnant's algorithm) -/
def daysFromCivil (y : Int) (m d : Nat) : Int :=
  let y' : Int := if m ≤ 2 then y - 1 else y
  let era : Int := y' / 400            -- floor division
  let yoe : Int := y' - era * 400      -- [0, 399]
  let mp : Int := if m > 2 then (m : Int) - 3 else (m : Int) + 9
  let doy : Int := (153 * mp + 2) / 5 + (d : Int) - 1
  let doe : Int := yoe * 365 + yoe / 4 - yoe / 100 + doy
  era * 146097 + doe - 719468

/-- inverse of `daysFromCivil` -/
def civilFromDays (z0 : Int) : Int × Nat × Nat :=
  let z := z0 + 719468
  let era := z / 146097
  let doe := z - era * 146097
  let yoe := (doe - doe / 1460 + doe / 36524 - doe / 146096) / 365
  let y := yoe + era * 400
  let doy := doe - (365 * yoe + yoe / 4 - yoe / 100)
  let mp := (5 * doy + 2) / 153
  let d := doy - (153 * mp + 2) / 5 + 1
  let m := if mp < 10 then mp + 3 else mp - 9
  (if m ≤ 2 then y + 1 else y, m.toNat, d.toNat)

/-- `parseUint(s, chars, maxValue)`: exactly `n` digits, value ≤ max -/
def takeUint (cs : List Char) (n max : Nat) : Option (Nat × List Char) :=
  if cs.length < n then none else
  let ds := cs.take n
  if allDigits ds then
    let v := digitsVal ds
    if v ≤ max then some (v, cs.drop n) else none
  else none

def expectCh (c : Char) : List Char → Option (List Char)
  | x :: xs => if x == c then some xs else none
  | [] => none

/-- `minDatetime = time.Date(-292275055, 5, 17, 16, 47, 04, 192ms)` as written in types/datetime.go.
    (The true instant of MinInt64 ms is one day earlier, 05-16: the first day of the range prints
    but does not parse — C12 finding, NOT repaired: types/datetime_test.go asserts that
    `-292275055-05-17T16:47:04.191Z` is out of range.) -/
def minDatetimeMs : Int := daysFromCivil (-292275055) 5 17 * 86400000 + 16 * 3600000 + 47 * 60000 + 4 * 1000 + 192
/-- `maxDatetime = time.Date(292278994, 8, 17, 7, 12, 55, 807ms)` -/
def maxDatetimeMs : Int := daysFromCivil 292278994 8 17 * 86400000 + 7 * 3600000 + 12 * 60000 + 55 * 1000 + 807

/-- year header of `ParseDatetime`: sign, year width, year maximum, remaining text -/
def dtHeader (cs : List Char) : Option (Int × Nat × Nat × List Char) :=
  match cs with
  | [] => none
  | c0 :: _ =>
    if c0 == '+' || c0 == '-' then some ((if c0 == '-' then -1 else 1), 9, 999999999, cs.drop 1)
    else if isDig c0 then some (1, 4, 9999, cs)
    else none

/-- `MM-DD` and `checkValidDay` for a known year: (year, month, day, rest) -/
def dtMonthDay (year : Int) (s : List Char) : Option (Int × Nat × Nat × List Char) :=
  match takeUint s 2 12 with
  | none => none
  | some (month, s) =>
  match expectCh '-' s with
  | none => none
  | some s =>
  match takeUint s 2 31 with
  | none => none
  | some (day, s) =>
  if !(1 ≤ month && 1 ≤ day && day ≤ daysInMonth year month) then none else some (year, month, day, s)

/-- the `YYYY-MM-DD` / `±YYYYYYYYY-MM-DD` prefix incl. `checkValidDay`: (year, month, day, rest) -/
def dtDate (cs : List Char) : Option (Int × Nat × Nat × List Char) :=
  match dtHeader cs with
  | none => none
  | some (ysign, ylen, ymax, s) =>
  match takeUint s ylen ymax with
  | none => none
  | some (absYear, s) =>
  match expectCh '-' s with
  | none => none
  | some s => dtMonthDay ((absYear : Int) * ysign) s

/-- `hh:mm:ss` and the optional `.SSS`: (hour, minute, second, milli, rest) -/
def dtTime (s : List Char) : Option (Nat × Nat × Nat × Nat × List Char) :=
  match takeUint s 2 23 with
  | none => none
  | some (hour, s) =>
  match expectCh ':' s with
  | none => none
  | some s =>
  match takeUint s 2 59 with
  | none => none
  | some (minute, s) =>
  match expectCh ':' s with
  | none => none
  | some s =>
  match takeUint s 2 59 with
  | none => none
  | some (second, s) =>
  match s with
  | '.' :: r =>
    (match takeUint r 3 999 with
     | none => none
     | some (milli, s) => some (hour, minute, second, milli, s))
  | _ => some (hour, minute, second, 0, s)

/-- time zone designator: `Z` or `±hhmm`; (offset in ms, rest) -/
def dtOffset (s : List Char) : Option (Int × List Char) :=
  match s with
  | 'Z' :: r => some (0, r)
  | c :: r =>
    if c == '+' || c == '-' then
      match takeUint r 2 23 with
      | none => none
      | some (hh, r) =>
        match takeUint r 2 59 with
        | none => none
        | some (mm, r) =>
          let o : Int := ((hh : Int) * 60 + (mm : Int)) * 60000
          some ((if c == '-' then -o else o), r)
    else none
  | [] => none

/-- `types.ParseDatetime`; result in milliseconds since the epoch -/
def parseDatetimeL (cs : List Char) : Except Err Int :=
  let E : Except Err Int := .error .extDatetime
  match dtDate cs with
  | none => E
  | some (year, month, day, s) =>
  let dayMs : Int := daysFromCivil year month day * 86400000
  -- date-only path: `t.Before(time.UnixMilli(MinInt64)) || t.After(time.UnixMilli(MaxInt64))`, the exact range
  if s.isEmpty then (if dayMs < minI64 || dayMs > maxI64 then E else .ok dayMs)
  else
  match expectCh 'T' s with
  | none => E
  | some s =>
  match dtTime s with
  | none => E
  | some (hour, minute, second, milli, s) =>
  -- Go: `len(s) == 0` after the seconds / after the milliseconds is an error, as is any other designator
  match dtOffset s with
  | none => E
  | some (offset, s) =>
  if !s.isEmpty then E else
  let t : Int := dayMs + (hour : Int) * 3600000 + (minute : Int) * 60000 + (second : Int) * 1000 + (milli : Int) - offset
  -- Go: `t.Before(minDatetime) || t.After(maxDatetime)` with the two package-level constants
  if t < minDatetimeMs || t > maxDatetimeMs then E else .ok t

def parseDatetime (s : String) : Except Err Int := parseDatetimeL s.toList

/-- `%0nd` of a non-negative number -/
def padL (n : Nat) (v : Nat) : List Char := padLeft n '0' (natDigits v)
def pad (n : Nat) (v : Nat) : String := String.ofList (padL n v)

/-- `Datetime.String` on character lists -/
def printDatetimeL (ms : Int) : List Char :=
  let days := ms / 86400000            -- floor
  let rem := (ms - days * 86400000).toNat
  let (y, m, d) := civilFromDays days
  let hh := rem / 3600000
  let mi := rem % 3600000 / 60000
  let ss := rem % 60000 / 1000
  let ml := rem % 1000
  let time := padL 2 m ++ ('-' :: (padL 2 d ++ ('T' :: (padL 2 hh ++ (':' :: (padL 2 mi ++ (':' :: (padL 2 ss ++ ('.' :: (padL 3 ml ++ ['Z']))))))))))
  if 0 ≤ y && y ≤ 9999 then padL 4 y.toNat ++ ('-' :: time)
  else (if y < 0 then '-' else '+') :: (padL 9 y.natAbs ++ ('-' :: time))

/-- `Datetime.String` -/
def printDatetime (ms : Int) : String := String.ofList (printDatetimeL ms)

/-! ## IP addresses -/

/-- `parseIPv4Fields` on the whole string -/
def parseV4Loop : List Char → (val digLen pos : Nat) → (prevDot first : Bool) → (acc : Nat) → Option Nat
  | [], val, _, pos, prevDot, first, acc =>
      if first then none else if prevDot then none else
      if pos < 3 then none else some (acc * 256 + val)
  | c :: rest, val, digLen, pos, prevDot, first, acc =>
    if isDig c then
      if digLen == 1 && val == 0 then none else
      let val := val * 10 + digVal c
      if val > 255 then none else parseV4Loop rest val (digLen + 1) pos false false acc
    else if c == '.' then
      if first || rest.isEmpty || prevDot then none else
      if pos == 3 then none else
      parseV4Loop rest 0 0 (pos + 1) true false (acc * 256 + val)
    else none

def parseV4 (cs : List Char) : Option Nat := parseV4Loop cs 0 0 0 false true 0

def hexVal (c : Char) : Option Nat :=
  if isDig c then some (c.toNat - '0'.toNat)
  else if 'a' ≤ c && c ≤ 'f' then some (c.toNat - 'a'.toNat + 10)
  else if 'A' ≤ c && c ≤ 'F' then some (c.toNat - 'A'.toNat + 10)
  else none

/-- read 1..4 hex digits -/
def hexGroup : List Char → Nat → Nat → Option (Nat × Nat × List Char)
  | [], n, acc => some (n, acc, [])
  | c :: rest, n, acc =>
    match hexVal c with
    | some h => if n ≥ 4 then none else hexGroup rest (n + 1) (acc * 16 + h)
    | none => some (n, acc, c :: rest)

/-- the field loop of `parseIPv6`; `groups` are collected most significant first,
    `ell` = number of groups before the `::` -/
def v6Loop : Nat → List Char → List Nat → Option Nat → Option (List Nat × Option Nat)
  | 0, _, _, _ => none
  | fuel + 1, s, groups, ell =>
    if groups.length ≥ 8 then (if s.isEmpty then some (groups, ell) else none) else
    match hexGroup s 0 0 with
    | none => none
    | some (n, acc, s) =>
      if n == 0 then none else
      -- embedded IPv4 ('.') is rejected earlier by ParseIPAddr's colon/dot count, or fails here
      let groups := groups ++ [acc]
      match s with
      | [] => some (groups, ell)
      | ':' :: [] => none
      | ':' :: ':' :: rest =>
        (match ell with
         | some _ => none
         | none => if rest.isEmpty then some (groups, some groups.length)
                   else v6Loop fuel rest groups (some groups.length))
      | ':' :: rest => v6Loop fuel rest groups ell
      | _ => none

def groupsToNat (gs : List Nat) : Nat := gs.foldl (fun a g => a * 65536 + g) 0

def parseV6 (cs : List Char) : Option Nat :=
  if cs.contains '%' then none else   -- zones: `ParseIPAddr` rejects every address with a zone (`addr.Zone() == ""`)
  let r : Option (List Nat × Option Nat) :=
    match cs with
    | ':' :: ':' :: rest => if rest.isEmpty then some ([], some 0) else v6Loop 9 rest [] (some 0)
    | _ => v6Loop 9 cs [] none
  match r with
  | none => none
  | some (groups, ell) =>
    if groups.length < 8 then
      match ell with
      | none => none
      | some e =>
        let n := 8 - groups.length
        some (groupsToNat (groups.take e ++ List.replicate n 0 ++ groups.drop e))
    else if groups.length == 8 then
      (match ell with | some _ => none | none => some (groupsToNat groups))
    else none

/-- `netip.ParseAddr` restricted to zone-free results (all that `types.ParseIPAddr` lets through) -/
def parseAddr (cs : List Char) : Option (Bool × Nat) :=
  match cs.find? (fun c => c == '.' || c == ':' || c == '%') with
  | some '.' => (parseV4 cs).map (fun a => (false, a))
  | some ':' => (parseV6 cs).map (fun a => (true, a))
  | _ => none

def lastIndexOf (c : Char) (cs : List Char) : Option Nat :=
  let rec go : List Char → Nat → Option Nat → Option Nat
    | [], _, r => r
    | x :: xs, i, r => go xs (i + 1) (if x == c then some i else r)
  go cs 0 none

/-- `netip.ParsePrefix` -/
def parsePrefix (cs : List Char) : Option IPNet :=
  match lastIndexOf '/' cs with
  | none => none
  | some i =>
    match parseAddr (cs.take i) with
    | none => none
    | some (v6, a) =>
      let bs := cs.drop (i + 1)
      if bs.length > 1 && !(match bs.head? with | some c => '1' ≤ c && c ≤ '9' | none => false) then none else
      if !allDigits bs then none else
      let bits := digitsVal bs
      if bits > (if v6 then 128 else 32) then none else some ⟨v6, a, bits⟩

def countCh (c : Char) (cs : List Char) : Nat := (cs.filter (· == c)).length

/-- `types.ParseIPAddr` -/
def parseIPL (cs : List Char) : Except Err IPNet :=
  if countCh ':' cs ≥ 2 && countCh '.' cs ≥ 2 then .error .extIP else
  match parsePrefix cs with
  | some p => .ok p
  | none =>
    match parseAddr cs with
    | some (v6, a) => .ok ⟨v6, a, if v6 then 128 else 32⟩
    | none => .error .extIP

def parseIP (s : String) : Except Err IPNet := parseIPL s.toList

/-! ### printing (`netip.Addr.String`, `netip.Prefix.String`, `IPAddr.String`) -/

/-- dotted quad of a 32-bit number -/
def printV4 (a : Nat) : List Char :=
  natDigits (a / 16777216 % 256) ++ ('.' :: (natDigits (a / 65536 % 256) ++ ('.' :: (natDigits (a / 256 % 256) ++
    ('.' :: natDigits (a % 256))))))

def hexDigitChar (d : Nat) : Char := if d < 10 then Char.ofNat (48 + d) else Char.ofNat (87 + d)

/-- lower-case hex without leading zeros, by structural recursion on fuel -/
def natHexF : Nat → Nat → List Char
  | 0, _ => []
  | f + 1, n => if n < 16 then [hexDigitChar n] else natHexF f (n / 16) ++ [hexDigitChar (n % 16)]

def natHex (n : Nat) : List Char := natHexF (n + 1) n

/-- the eight 16-bit groups of a 128-bit number, most significant first -/
def v6Groups (a : Nat) : List Nat :=
  (List.range 8).map fun i => a / 65536 ^ (7 - i) % 65536

/-- length of the run of zero groups at the head of a list -/
def zeroRun : List Nat → Nat
  | 0 :: r => zeroRun r + 1
  | _ => 0

/-- `appendTo6`'s search: the first longest run (length ≥ 2) of zero groups, as (start, end) -/
def bestZeroRun : List Nat → (i : Nat) → (best : Option (Nat × Nat)) → Option (Nat × Nat)
  | [], _, best => best
  | g :: r, i, best =>
    let l := zeroRun (g :: r)
    let cur := match best with | some (s, e) => e - s | none => 0
    bestZeroRun r (i + 1) (if l ≥ 2 && l > cur then some (i, i + l) else best)

/-- the output loop of `appendTo6` over the groups from index `i` on -/
def v6Emit (gs : List Nat) (zs ze : Nat) : Nat → Nat → List Char
  | 0, _ => []
  | fuel + 1, i =>
    if i ≥ 8 then [] else
    if i == zs then
      ':' :: ':' :: (if ze ≥ 8 then [] else natHex (gs.getD ze 0) ++ v6Emit gs zs ze fuel (ze + 1))
    else
      (if i > 0 then [':'] else []) ++ natHex (gs.getD i 0) ++ v6Emit gs zs ze fuel (i + 1)

/-- `netip.Addr.String` for a zone-free address -/
def printAddr (v6 : Bool) (a : Nat) : List Char :=
  if !v6 then printV4 a
  else if a / 4294967296 == 0xffff then "::ffff:".toList ++ printV4 (a % 4294967296)   -- Is4In6
  else
    let gs := v6Groups a
    match bestZeroRun gs 0 none with
    | some (zs, ze) => v6Emit gs zs ze 9 0
    | none => v6Emit gs 255 255 9 0

/-- `types.IPAddr.String` -/
def printIPL (n : IPNet) : List Char :=
  if n.bits == (if n.v6 then 128 else 32) then printAddr n.v6 n.addr
  else printAddr n.v6 n.addr ++ ('/' :: natDigits n.bits)

def printIP (n : IPNet) : String := String.ofList (printIPL n)

end CedarGo.Scalars
namespace CedarGo
open Scalars

def IPNet.bitLen (a : IPNet) : Nat := if a.v6 then 128 else 32

/-- address with the host bits cleared (`Prefix.Masked().Addr()`) -/
def IPNet.masked (a : IPNet) : Nat :=
  let sh := a.bitLen - a.bits
  (a.addr >>> sh) <<< sh

/-- `Addr.Is4In6` then `Unmap`: ::ffff:a.b.c.d behaves as the IPv4 address for loopback/multicast tests -/
def unmap (v6 : Bool) (addr : Nat) : Bool × Nat :=
  if v6 && addr >>> 32 == 0xffff then (false, addr % 4294967296) else (v6, addr)

def IPNet.isLoopback (a : IPNet) : Bool :=
  let (v6, ad) := unmap a.v6 a.masked
  if v6 then ad == 1 else ad >>> 24 == 127

def IPNet.isMulticast (a : IPNet) : Bool :=
  let (v6, ad) := unmap a.v6 a.addr
  let m := if v6 then ad >>> 120 == 0xff else (ad >>> 24) &&& 0xf0 == 0xe0
  m && a.bits ≥ (if a.v6 then 8 else 4)

/-- `i.Contains(o)`: `i.Prefix().Contains(o.Addr()) && i.bits <= o.bits` -/
def IPNet.contains (i o : IPNet) : Bool :=
  i.v6 == o.v6 && (i.addr >>> (i.bitLen - i.bits)) == (o.addr >>> (i.bitLen - i.bits)) && i.bits ≤ o.bits

end CedarGo
