/-
  C04: constant folding (`internal/eval/fold.go`).
  `fold` folds children first; when every child folded to a literal it evaluates the operator's
  evaluator over those literals in the empty environment (with the forced-error evaluator for
  `in`, `is…in`, `getTag`, `hasTag`, and `.`/`has` on an entity) and keeps the literal on success.
-/
import CedarGo.Model.Policy
namespace CedarGo

def Expr.asLit : Expr → Option Value | .lit v => some v | _ => none

def allLits : List Expr → Option (List Value)
  | [] => some []
  | e :: es => match e.asLit, allLits es with
    | some v, some vs => some (v :: vs)
    | _, _ => none

/-- `tryFold`'s last step: `node` is the rebuilt operator over folded children; `forced` says the
    evaluator is `newErrorEval`; otherwise evaluate the rebuilt node in the empty environment. -/
def tryFoldNode (allLit : Bool) (forced : Bool) (node : Expr) : Expr :=
  if allLit && !forced then
    match eval node emptyEnv with
    | .ok v => .lit v
    | .error _ => node
  else node

def isEntityLit : Expr → Bool | .lit (.entity ..) => true | _ => false
def Expr.isLit : Expr → Bool | .lit _ => true | _ => false

mutual
def fold : Expr → Expr
  | .lit v => .lit v
  | .var v => .var v
  | .unop op e =>
    let e' := fold e
    tryFoldNode e'.isLit false (.unop op e')
  | .binop op l r =>
    let l' := fold l
    let r' := fold r
    let forced := op == .in_ || op == .getTag || op == .hasTag
    tryFoldNode (l'.isLit && r'.isLit) forced (.binop op l' r')
  | .ite c t e =>
    let c' := fold c; let t' := fold t; let e' := fold e
    tryFoldNode (c'.isLit && t'.isLit && e'.isLit) false (.ite c' t' e')
  | .access e a =>
    let e' := fold e
    tryFoldNode e'.isLit (isEntityLit e') (.access e' a)
  | .has e a =>
    let e' := fold e
    tryFoldNode e'.isLit (isEntityLit e') (.has e' a)
  | .like e p =>
    let e' := fold e
    tryFoldNode e'.isLit false (.like e' p)
  | .is e ty =>
    let e' := fold e
    tryFoldNode e'.isLit false (.is e' ty)
  | .isIn e ty r =>
    let e' := fold e; let r' := fold r
    tryFoldNode (e'.isLit && r'.isLit) true (.isIn e' ty r')
  | .set es =>
    let es' := foldList es
    tryFoldNode (es'.all Expr.isLit) false (.set es')
  | .record kes =>
    let kes' := foldKVs kes
    tryFoldNode (kes'.all (fun ke => ke.2.isLit)) false (.record kes')
  | .call fn args =>
    let args' := foldList args
    tryFoldNode (args'.all Expr.isLit) false (.call fn args')
def foldList : List Expr → List Expr
  | [] => []
  | e :: es => fold e :: foldList es
def foldKVs : List (String × Expr) → List (String × Expr)
  | [] => []
  | (k, e) :: kes => (k, fold e) :: foldKVs kes
end

/-- `foldPolicy`: only condition bodies are folded -/
def foldPolicy (p : Policy) : Policy :=
  { p with conditions := p.conditions.map (fun c => (c.1, fold c.2)) }

/-- `eval.Compile` -/
def compile (p : Policy) : Expr := policyToExpr (foldPolicy p)

/-- what `cedar.Authorize` runs -/
def authorize (ps : List (PolicyID × Policy)) (env : Env) : AuthzResult := authorizeWith compile ps env

end CedarGo
