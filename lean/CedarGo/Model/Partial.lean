/-
  C06: partial evaluation — `internal/eval/partial.go`, mirrored INCLUDING its defects.

  Go's `partial(env, n)` returns `(node, err)` with `err ∈ {nil, errVariable, errIgnore, other}`; that is `PR`.
  Note what travels with `errVariable`: `tryPartial` returns `mkNode(nodes)` — the operator rebuilt over its
  *partially evaluated* children, e.g. `{key: __cedar::variable::"k"}.key` for `context.key` — and
    * `tryPartial` (as a caller) and `PartialPolicy` discard that node and keep the ORIGINAL sub-expression,
    * `partialAnd` / `partialOr` / `partialIfThenElse` keep it (the stale-residual defect).
  A value that merely CONTAINS an unknown (a set / record with a variable entity inside) is an ordinary
  `NodeValue` for `tryPartial`, so every operator is evaluated over it (the tainted-container defect).
  `e is T in r` is handled as a strict binary operator although its evaluator short-circuits (isIn defect).

  Unknowns are the entity `__cedar::variable::"name"`, ignored parts the entity `__cedar::ignore::""`.
  Error messages are not modelled: `extError` carries the empty string.
-/
import CedarGo.Model.Fold
namespace CedarGo

def variableEntityType : String := "__cedar::variable"
def ignoreEntityType : String := "__cedar::ignore"

/-- `eval.Variable(name)` -/
def mkVariable (name : String) : Value := .entity variableEntityType name
/-- `eval.Ignore()` -/
def mkIgnore : Value := .entity ignoreEntityType ""

/-- `IsVariable` -/
def Value.isVariable : Value → Bool
  | .entity ty _ => ty == variableEntityType
  | _ => false

/-- `IsIgnore` -/
def Value.isIgnore : Value → Bool
  | .entity ty _ => ty == ignoreEntityType
  | _ => false

/-- result of `partial`: `(node, nil)`, `(node, errVariable)`, `(nil, errIgnore)`, `(nil, err)` -/
inductive PR where
  | ok (e : Expr)
  | var (stale : Expr)
  | ign
  | err (e : Err)
deriving Repr, Inhabited

/-- result of running the evaluator built by `mkEval` -/
inductive EvR where
  | val (v : Value)
  | ign
  | err (e : Err)
deriving Repr, Inhabited

/-- `extError(err)` (message not modelled) -/
def extError : Expr := .call partialErrorName [.lit (.str "")]

def evalR (node : Expr) (env : Env) : EvR :=
  match eval node env with
  | .ok v => .val v
  | .error e => .err e

/-- `partialHasEval.Eval` over a literal operand -/
def hasStep (env : Env) (v : Value) (a : String) : EvR :=
  match v with
  | .entity ty id =>
    match env.entities.get (ty, id) with
    | none => .val (.bool false)
    | some d =>
      match kvGet a d.attrs with
      | some x => if x.isIgnore then .ign else .val (.bool true)
      | none => .val (.bool false)
  | .record kvs =>
    match kvGet a kvs with
    | some x => if x.isIgnore then .ign else .val (.bool true)
    | none => .val (.bool false)
  | _ => .err .type

/-- the tail of `tryPartial` when every child is a value: run the evaluator, classify the result.
    `node` is `mkNode(nodes)` (the operator over its literal children). -/
def finishVal (node : Expr) (r : EvR) : PR :=
  match r with
  | .err e => .err e
  | .ign => .ign
  | .val v => if v.isVariable then .var node else if v.isIgnore then .ign else .ok (.lit v)

/-- `tryPartial` with one child -/
def combine1 (orig : Expr) (p : PR) (mk : Expr → Expr) (ev : Expr → EvR) : PR :=
  match p with
  | .err e => .err e
  | .ign => .ign
  | .var _ => .ok (mk orig)                       -- errVariable: the ORIGINAL child is kept
  | .ok e' => if e'.isLit then finishVal (mk e') (ev (mk e')) else .ok (mk e')

/-- `tryPartial` with two children (children are processed left to right; the first error wins) -/
def combine2 (l r : Expr) (p1 p2 : PR) (mk : Expr → Expr → Expr) (ev : Expr → EvR) : PR :=
  match p1 with
  | .err e => .err e
  | .ign => .ign
  | .var _ =>
    match p2 with
    | .err e => .err e
    | .ign => .ign
    | .var _ => .ok (mk l r)
    | .ok r' => .ok (mk l r')
  | .ok l' =>
    match p2 with
    | .err e => .err e
    | .ign => .ign
    | .var _ => .ok (mk l' r)
    | .ok r' => if l'.isLit && r'.isLit then finishVal (mk l' r') (ev (mk l' r')) else .ok (mk l' r')

/-- state of the `for i, n := range nodes` loop of `tryPartial` for n-ary nodes -/
inductive LoopR where
  | fail (p : PR)                                        -- `return nil, err`
  | done (nodes : List Expr) (allLit : Bool)             -- rebuilt children; `ok`
deriving Repr, Inhabited

def consR (orig : Expr) (p : PR) (rest : LoopR) : LoopR :=
  match p with
  | .err e => .fail (.err e)
  | .ign => .fail .ign
  | .var _ =>
    match rest with
    | .fail q => .fail q
    | .done ns _ => .done (orig :: ns) false
  | .ok e' =>
    match rest with
    | .fail q => .fail q
    | .done ns b => .done (e' :: ns) (e'.isLit && b)

def finishList (r : LoopR) (mk : List Expr → Expr) (ev : Expr → EvR) : PR :=
  match r with
  | .fail p => p
  | .done ns true => finishVal (mk ns) (ev (mk ns))
  | .done ns false => .ok (mk ns)

/-- the part of `partialAnd` after the left operand has been looked at -/
def andRest (left : Expr) (pr : PR) : PR :=
  match pr with
  | .ign => .ign
  | .err _ => .ok (.binop .and left extError)
  | .var stale => .ok (.binop .and left stale)        -- DEFECT: the stale node, not the original operand
  | .ok r' => .ok (.binop .and left r')

def orRest (left : Expr) (pr : PR) : PR :=
  match pr with
  | .ign => .ign
  | .err _ => .ok (.binop .or left extError)
  | .var stale => .ok (.binop .or left stale)
  | .ok r' => .ok (.binop .or left r')

/-- `partialAnd` given the results for both operands -/
def andStep (env : Env) (r : Expr) (pl pr : PR) : PR :=
  match pl with
  | .err e => .err e
  | .ign => .ign
  | .var stale => andRest stale pr                    -- DEFECT: `left` is the stale node
  | .ok (.lit (.bool false)) => .ok (.lit (.bool false))
  | .ok (.lit (.bool true)) =>
      combine2 (.lit (.bool true)) r (.ok (.lit (.bool true))) pr (.binop .and) (evalR · env)
  | .ok (.lit _) => .err .type
  | .ok l' => andRest l' pr

def orStep (env : Env) (r : Expr) (pl pr : PR) : PR :=
  match pl with
  | .err e => .err e
  | .ign => .ign
  | .var stale => orRest stale pr
  | .ok (.lit (.bool true)) => .ok (.lit (.bool true))
  | .ok (.lit (.bool false)) =>
      combine2 (.lit (.bool false)) r (.ok (.lit (.bool false))) pr (.binop .or) (evalR · env)
  | .ok (.lit _) => .err .type
  | .ok l' => orRest l' pr

/-- a branch of `partialIfThenElse`: `none` = errIgnore escapes -/
def branchNode (p : PR) : Option Expr :=
  match p with
  | .ign => none
  | .err _ => some extError
  | .var stale => some stale                          -- DEFECT
  | .ok e => some e

def iteRest (c : Expr) (pt pe : PR) : PR :=
  match branchNode pt with
  | none => .ign
  | some t' =>
    match branchNode pe with
    | none => .ign
    | some e' => .ok (.ite c t' e')

def iteStep (pc pt pe : PR) : PR :=
  match pc with
  | .err e => .err e
  | .ign => .ign
  | .var stale => iteRest stale pt pe                 -- DEFECT
  | .ok (.lit (.bool true)) => pt                     -- `return partial(env, v.Then)`: passes (node, err) through
  | .ok (.lit (.bool false)) => pe
  | .ok (.lit _) => .err .type
  | .ok c' => iteRest c' pt pe

def rebuildKVs : List (String × Expr) → List Expr → List (String × Expr)
  | (k, _) :: kes, n :: ns => (k, n) :: rebuildKVs kes ns
  | _, _ => []

mutual
/-- `partial` -/
def partialE (env : Env) : Expr → PR
  | .lit v => .ok (.lit v)
  | .var x => finishVal (.var x) (evalR (.var x) env)
  | .unop op e => combine1 e (partialE env e) (.unop op) (evalR · env)
  | .binop .and l r => andStep env r (partialE env l) (partialE env r)
  | .binop .or l r => orStep env r (partialE env l) (partialE env r)
  | .binop op l r => combine2 l r (partialE env l) (partialE env r) (.binop op) (evalR · env)
  | .ite c t e => iteStep (partialE env c) (partialE env t) (partialE env e)
  | .access e a => combine1 e (partialE env e) (.access · a) (evalR · env)
  | .has e a =>
      combine1 e (partialE env e) (.has · a)
        (fun n => match n with | .has (.lit v) _ => hasStep env v a | _ => .err .panic)
  | .like e p => combine1 e (partialE env e) (.like · p) (evalR · env)
  | .is e ty => combine1 e (partialE env e) (.is · ty) (evalR · env)
  | .isIn e ty r => combine2 e r (partialE env e) (partialE env r) (.isIn · ty ·) (evalR · env)   -- DEFECT: strict in `r`
  | .set es => finishList (partialList env es) .set (evalR · env)
  | .record kes => finishList (partialKVs env kes) (fun ns => .record (rebuildKVs kes ns)) (evalR · env)
  | .call fn args => finishList (partialList env args) (.call fn) (evalR · env)
def partialList (env : Env) : List Expr → LoopR
  | [] => .done [] true
  | e :: es => consR e (partialE env e) (partialList env es)
def partialKVs (env : Env) : List (String × Expr) → LoopR
  | [] => .done [] true
  | (_, e) :: kes => consR e (partialE env e) (partialKVs env kes)
end

/-- the `switch t := in.(type)` of `partialScopeEval` for a known entity -/
def scopeBool (env : Env) (ty id : String) (s : Scope) : Bool :=
  match s with
  | .all => true
  | .eq e => (ty, id) == e
  | .in_ e => entityInOne env.entities (ty, id) e == some true
  | .inSet es => entityInSet env.entities (ty, id) es == some true
  | .is t => ty == t
  | .isIn t e => ty == t && entityInOne env.entities (ty, id) e == some true

/-- `partialScopeEval`: `none` = not evaluated (unknown or not an entity) -/
def scopeEval (env : Env) (ent : Value) (s : Scope) : Option Bool :=
  if ent.isVariable then none
  else if ent.isIgnore then some true
  else match ent with
  | .entity ty id => some (scopeBool env ty id s)
  | _ => none

/-- `partialPrincipalScope` etc.: `none` = drop the policy -/
def partialScope (env : Env) (ent : Value) (s : Scope) : Option Scope :=
  match scopeEval env ent s with
  | some false => none
  | some true => some .all
  | none => some s

/-- one iteration of the condition loop of `PartialPolicy`, given the result for the body and what the
    remaining conditions yield (`none` = drop the policy) -/
def condStep (effect : Effect) (w : Bool) (body : Expr) (p : PR) (rest : Option (List (Bool × Expr))) :
    Option (List (Bool × Expr)) :=
  match p with
  | .var _ => rest.map ((w, body) :: ·)                      -- the ORIGINAL condition is kept
  | .ign => if effect == .permit then rest else none
  | .err _ => some [(w, extError)]                          -- `return &p2, true`: later conditions are not looked at
  | .ok (.lit (.bool b)) => if b != w then none else rest
  | .ok (.lit _) => some [(w, extError)]
  | .ok body' => rest.map ((w, body') :: ·)

/-- the condition loop of `PartialPolicy`: `none` = drop the policy -/
def partialConds (env : Env) (effect : Effect) : List (Bool × Expr) → Option (List (Bool × Expr))
  | [] => some []
  | (w, body) :: rest => condStep effect w body (partialE env body) (partialConds env effect rest)

/-- `PartialPolicy`: `none` = `keep == false` -/
def partialPolicy (env : Env) (p : Policy) : Option Policy :=
  match partialScope env env.principal p.principal with
  | none => none
  | some ps =>
  match partialScope env env.action p.action with
  | none => none
  | some acs =>
  match partialScope env env.resource p.resource with
  | none => none
  | some rs =>
  match partialConds env p.effect p.conditions with
  | none => none
  | some cs => some { p with principal := ps, action := acs, resource := rs, conditions := cs }

/-! ## completions of the unknowns (used to STATE soundness; executable so the driver can report domains) -/

mutual
/-- the value is, or contains, an unknown (any name) or an ignore marker -/
def Value.hasMarker : Value → Bool
  | .entity ty _ => ty == variableEntityType || ty == ignoreEntityType
  | .record kvs => Value.hasMarkerKVs kvs
  | .set xs => Value.hasMarkerList xs
  | _ => false
def Value.hasMarkerKVs : List (String × Value) → Bool
  | [] => false
  | (_, x) :: rest => Value.hasMarker x || Value.hasMarkerKVs rest
def Value.hasMarkerList : List Value → Bool
  | [] => false
  | x :: xs => Value.hasMarker x || Value.hasMarkerList xs
end

mutual
/-- full simultaneous substitution of every unknown by its completion (`types.NewSet` re-deduplicates a
    set that contained an unknown) -/
def Value.substAll (σ : String → Value) : Value → Value
  | .entity ty id => if ty == variableEntityType then σ id else .entity ty id
  | .record kvs => .record (Value.substAllKVs σ kvs)
  | .set xs => if Value.hasMarkerList xs then mkSet (Value.substAllList σ xs) else .set xs
  | .bool b => .bool b
  | .long n => .long n
  | .str s => .str s
  | .decimal n => .decimal n
  | .datetime n => .datetime n
  | .duration n => .duration n
  | .ip a => .ip a
def Value.substAllKVs (σ : String → Value) : List (String × Value) → List (String × Value)
  | [] => []
  | (k, x) :: rest => (k, Value.substAll σ x) :: Value.substAllKVs σ rest
def Value.substAllList (σ : String → Value) : List Value → List Value
  | [] => []
  | x :: xs => Value.substAll σ x :: Value.substAllList σ xs
end

/-! ## the proved domain (decidable; an instrumented copy of `partialE`)

  `domE env e` holds when, along the partial evaluation of `e` against `env`,
    * (NoTaintedWholeUse) every operator other than attribute access / `has` only consumes literal operands that are
      marker-free — a set or record that merely contains an unknown is never compared, searched, embedded, …;
      literals written in the policy are marker-free;
    * (NoVariableOperandOfShortCircuit) no operand of `&&`, `||`, `if` reports `errVariable` in a position where
      the code keeps the node returned with it;
    * (is-in guard) an erroring right operand of `e is T in r` only occurs when `e` is known to be of type `T`
      (or `e` itself fails).
  These are exactly the three defect families; outside the domain the `_counterexample` theorems apply. -/

/-- a literal result consumed by a non-access operator must be marker-free -/
def PR.cleanLit : PR → Bool
  | .ok (.lit v) => !v.hasMarker
  | _ => true

def PR.notVar : PR → Bool
  | .var _ => false
  | _ => true

def PR.isLitR : PR → Bool
  | .ok (.lit _) => true
  | _ => false

/-- `&&` / `||`: operands as the code uses them -/
def scDom (pl pr : PR) : Bool :=
  pl.notVar && pl.cleanLit && (if pl.isLitR then pr.cleanLit else pr.notVar && pr.cleanLit)

def iteDom (pc pt pe : PR) : Bool :=
  pc.notVar && pc.cleanLit &&
    (if pc.isLitR then true
     else match pc with
       | .ok _ => pt.notVar && pt.cleanLit && pe.notVar && pe.cleanLit
       | _ => true)

def isInGuard (ty : String) (pe pr : PR) : Bool :=
  match pr with
  | .err _ =>
    (match pe with
     | .err _ => true
     | .ign => true
     | .ok (.lit (.entity ty' _)) => ty' == ty
     | _ => false)
  | _ => true

mutual
def domE (env : Env) : Expr → Bool
  | .lit v => !v.hasMarker
  | .var _ => true
  | .unop _ e => domE env e && (partialE env e).cleanLit
  | .binop .and l r => domE env l && domE env r && scDom (partialE env l) (partialE env r)
  | .binop .or l r => domE env l && domE env r && scDom (partialE env l) (partialE env r)
  | .binop _ l r => domE env l && domE env r && (partialE env l).cleanLit && (partialE env r).cleanLit
  | .ite c t e => domE env c && domE env t && domE env e && iteDom (partialE env c) (partialE env t) (partialE env e)
  | .access e _ => domE env e
  | .has e _ => domE env e
  | .like e _ => domE env e && (partialE env e).cleanLit
  | .is e _ => domE env e && (partialE env e).cleanLit
  | .isIn e ty r =>
      domE env e && domE env r && (partialE env e).cleanLit && (partialE env r).cleanLit
        && isInGuard ty (partialE env e) (partialE env r)
  | .set es => domList env es
  | .record kes => domKVs env kes
  | .call _ args => domList env args
def domList (env : Env) : List Expr → Bool
  | [] => true
  | e :: es => domE env e && (partialE env e).cleanLit && domList env es
def domKVs (env : Env) : List (String × Expr) → Bool
  | [] => true
  | (_, e) :: kes => domE env e && (partialE env e).cleanLit && domKVs env kes
end

def PR.notIgn : PR → Bool
  | .ign => false
  | _ => true

/-- the policy-level domain: no ignore markers among the request parts, every condition in `domE`, no
    condition whose partial evaluation reports `errIgnore`, and no condition that folds to a literal which
    merely contains an unknown -/
def partialDomain (env : Env) (p : Policy) : Bool :=
  !env.principal.isIgnore && !env.action.isIgnore && !env.resource.isIgnore &&
    p.conditions.all fun c => domE env c.2 && (partialE env c.2).notIgn && (partialE env c.2).cleanLit

/-- the completed environment: unknowns in the four request parts replaced; the store is untouched -/
def completeEnv (σ : String → Value) (env : Env) : Env :=
  { env with
    principal := env.principal.substAll σ
    action := env.action.substAll σ
    resource := env.resource.substAll σ
    context := env.context.substAll σ }

/-- completion of an environment with ignored parts: unknowns are replaced by `σ`, an ignored request part by
    the value `ι` gives it (any value: "for at least one value of the ignored part") -/
def completeEnvI (σ : String → Value) (ι : Var → Value) (env : Env) : Env :=
  { env with
    principal := if env.principal.isIgnore then ι .principal else env.principal.substAll σ
    action := if env.action.isIgnore then ι .action else env.action.substAll σ
    resource := if env.resource.isIgnore then ι .resource else env.resource.substAll σ
    context := if env.context.isIgnore then ι .context else env.context.substAll σ }

/-- the domain for environments with ignored parts: as `partialDomain`, but ignore markers and `errIgnore` are allowed -/
def partialDomainI (env : Env) (p : Policy) : Bool :=
  p.conditions.all fun c => domE env c.2 && (partialE env c.2).cleanLit

end CedarGo
