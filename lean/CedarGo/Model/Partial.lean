/-
  C06: partial evaluation — `internal/eval/partial.go` (as repaired: see "history" below).

  Go's `partial(env, n)` returns `(node, err)` with `err ∈ {nil, errVariable, errIgnore, other}`; that is `PR`.
  What travels with `errVariable` is `mkNode(nodes)` — the operator rebuilt over its *partially evaluated* children,
  e.g. `{key: __cedar::variable::"k"}.key` for `context.key`; every consumer (`tryPartial`, `PartialPolicy`,
  `partialAnd` / `partialOr` / `partialIfThenElse` / `partialIsIn`) discards that node and keeps the ORIGINAL
  sub-expression.
  A value that merely CONTAINS an unknown (a set / record with a variable entity inside) is looked into by attribute
  access and `has` only (`tryPartialOperands` with `lookInside`); for every other operator, and wherever a node is
  embedded in a residual, it is as unknown as the variable itself (`PR.whole`) and the original sub-expression is kept.
  Likewise a value that merely CONTAINS the ignore marker is looked into by attribute access and `has` only; for every
  other operator, and wherever it would be embedded in a residual, it is ignored (`errIgnore`) like the marker itself.
  `e is T in r` follows `isInEval`: the right-hand side is strict only once the type test is known to pass
  (`isInStep`).

  History: this file mirrored four defect families of partial.go until they were repaired
  (`stale-residual-and|or|if`: `partialAnd/Or/IfThenElse` kept the node returned with `errVariable`;
  `tainted-container-*` / `tainted-record-*`: every operator was evaluated over values that merely contain an unknown;
  `isin-eager-rhs-error`: `is … in` was a strict binary operator; `nested-ignore-consumed-whole`: a value that merely
  contains the ignore marker was consumed whole as a known value).  The former counterexamples are regression
  examples in `CedarGoProofs/Properties/C06.lean`.

  Unknowns are the entity `__cedar::variable::"name"`, ignored parts the entity `__cedar::ignore::""`.
  Error messages are not modelled: `extError` carries the empty string.
-/
import CedarGo.Model.Fold
namespace CedarGo

def variableEntityType : String := "__cedar::variable"
def ignoreEntityType : String := "__cedar::ignore"

/-- `eval.Variable(name)` -/
def mkVariable (name : String) : Value := .entity variableEntityType name
/-- `eval.Ignore()` -/
def mkIgnore : Value := .entity ignoreEntityType ""

/-- `IsVariable` -/
def Value.isVariable : Value → Bool
  | .entity ty _ => ty == variableEntityType
  | _ => false

/-- `IsIgnore` -/
def Value.isIgnore : Value → Bool
  | .entity ty _ => ty == ignoreEntityType
  | _ => false

mutual
/-- `containsVariable`: the value is, or contains (inside records / sets, at any depth), an unknown (any name) -/
def Value.hasUnknown : Value → Bool
  | .entity ty _ => ty == variableEntityType
  | .record kvs => Value.hasUnknownKVs kvs
  | .set xs => Value.hasUnknownList xs
  | _ => false
def Value.hasUnknownKVs : List (String × Value) → Bool
  | [] => false
  | (_, x) :: rest => Value.hasUnknown x || Value.hasUnknownKVs rest
def Value.hasUnknownList : List Value → Bool
  | [] => false
  | x :: xs => Value.hasUnknown x || Value.hasUnknownList xs
end

mutual
/-- the value is, or contains (inside records / sets, at any depth), an ignore marker -/
def Value.hasIgnore : Value → Bool
  | .entity ty _ => ty == ignoreEntityType
  | .record kvs => Value.hasIgnoreKVs kvs
  | .set xs => Value.hasIgnoreList xs
  | _ => false
def Value.hasIgnoreKVs : List (String × Value) → Bool
  | [] => false
  | (_, x) :: rest => Value.hasIgnore x || Value.hasIgnoreKVs rest
def Value.hasIgnoreList : List Value → Bool
  | [] => false
  | x :: xs => Value.hasIgnore x || Value.hasIgnoreList xs
end

/-- `containsIgnore`: the value is a record or set with an ignore marker somewhere inside (the marker itself is
    `isIgnore`, not `ignInside`) -/
def Value.ignInside : Value → Bool
  | .record kvs => Value.hasIgnoreKVs kvs
  | .set xs => Value.hasIgnoreList xs
  | _ => false

/-- result of `partial`: `(node, nil)`, `(node, errVariable)`, `(nil, errIgnore)`, `(nil, err)` -/
inductive PR where
  | ok (e : Expr)
  | var (stale : Expr)
  | ign
  | err (e : Err)
deriving Repr, Inhabited

/-- result of running the evaluator built by `mkEval` -/
inductive EvR where
  | val (v : Value)
  | ign
  | err (e : Err)
deriving Repr, Inhabited

/-- `isValueWithIgnore`, then `isValueWithVariable`: for every consumer other than attribute access / `has`, a literal
    that contains an ignore marker is ignored like the marker itself — exactly like `(nil, errIgnore)` — and a literal
    that contains an unknown is as unknown as the variable itself — it is treated exactly like `(node, errVariable)`: the
    ORIGINAL sub-expression is kept.  The ignore test comes first (`tryPartialOperands` returns `errIgnore` as soon as it
    meets such an operand; `partialAnd` / `Or` / `IfThenElse` / `IsIn` test `errIgnore || isValueWithIgnore` first). -/
def PR.whole : PR → PR
  | .ok (.lit v) => if v.ignInside then .ign else if v.hasUnknown then .var (.lit v) else .ok (.lit v)
  | p => p

/-- `extError(err)` (message not modelled) -/
def extError : Expr := .call partialErrorName [.lit (.str "")]

def evalR (node : Expr) (env : Env) : EvR :=
  match eval node env with
  | .ok v => .val v
  | .error e => .err e

/-- `partialHasEval.Eval` over a literal operand -/
def hasStep (env : Env) (v : Value) (a : String) : EvR :=
  match v with
  | .entity ty id =>
    match env.entities.get (ty, id) with
    | none => .val (.bool false)
    | some d =>
      match kvGet a d.attrs with
      | some x => if x.isIgnore then .ign else .val (.bool true)
      | none => .val (.bool false)
  | .record kvs =>
    match kvGet a kvs with
    | some x => if x.isIgnore then .ign else .val (.bool true)
    | none => .val (.bool false)
  | _ => .err .type

/-- the tail of `tryPartial` when every child is a value: run the evaluator, classify the result.
    `node` is `mkNode(nodes)` (the operator over its literal children). -/
def finishVal (node : Expr) (r : EvR) : PR :=
  match r with
  | .err e => .err e
  | .ign => .ign
  | .val v => if v.isVariable then .var node else if v.isIgnore then .ign else .ok (.lit v)

/-- `tryPartialOperands` with one child.  The caller passes `p.whole` unless the operator looks inside its operand
    (`lookInside`: attribute access and `has`) -/
def combine1 (orig : Expr) (p : PR) (mk : Expr → Expr) (ev : Expr → EvR) : PR :=
  match p with
  | .err e => .err e
  | .ign => .ign
  | .var _ => .ok (mk orig)                       -- errVariable: the ORIGINAL child is kept
  | .ok e' => if e'.isLit then finishVal (mk e') (ev (mk e')) else .ok (mk e')

/-- `tryPartial` with two children (children are processed left to right; the first error wins); the caller passes
    `p1.whole`, `p2.whole` -/
def combine2 (l r : Expr) (p1 p2 : PR) (mk : Expr → Expr → Expr) (ev : Expr → EvR) : PR :=
  match p1 with
  | .err e => .err e
  | .ign => .ign
  | .var _ =>
    match p2 with
    | .err e => .err e
    | .ign => .ign
    | .var _ => .ok (mk l r)
    | .ok r' => .ok (mk l r')
  | .ok l' =>
    match p2 with
    | .err e => .err e
    | .ign => .ign
    | .var _ => .ok (mk l' r)
    | .ok r' => if l'.isLit && r'.isLit then finishVal (mk l' r') (ev (mk l' r')) else .ok (mk l' r')

/-- state of the `for i, n := range nodes` loop of `tryPartial` for n-ary nodes -/
inductive LoopR where
  | fail (p : PR)                                        -- `return nil, err`
  | done (nodes : List Expr) (allLit : Bool)             -- rebuilt children; `ok`
deriving Repr, Inhabited

def consR (orig : Expr) (p : PR) (rest : LoopR) : LoopR :=
  match p with
  | .err e => .fail (.err e)
  | .ign => .fail .ign
  | .var _ =>
    match rest with
    | .fail q => .fail q
    | .done ns _ => .done (orig :: ns) false
  | .ok e' =>
    match rest with
    | .fail q => .fail q
    | .done ns b => .done (e' :: ns) (e'.isLit && b)

def finishList (r : LoopR) (mk : List Expr → Expr) (ev : Expr → EvR) : PR :=
  match r with
  | .fail p => p
  | .done ns true => finishVal (mk ns) (ev (mk ns))
  | .done ns false => .ok (mk ns)

/-- the part of `partialAnd` / `partialOr` after the left operand has been looked at: `left` is what stands for the
    left operand in the residual, `r` the ORIGINAL right operand -/
def scRest (op : BinOp) (left r : Expr) (pr : PR) : PR :=
  match pr.whole with
  | .ign => .ign
  | .err _ => .ok (.binop op left extError)
  | .var _ => .ok (.binop op left r)                  -- errVariable (or a value containing an unknown): the original
  | .ok r' => .ok (.binop op left r')

/-- `partialAnd` given the results for both operands (`l`, `r`: the original operands) -/
def andStep (env : Env) (l r : Expr) (pl pr : PR) : PR :=
  match pl with
  | .err e => .err e
  | .ign => .ign
  | .var _ => scRest .and l r pr                      -- errVariable: the ORIGINAL left operand is kept
  | .ok (.lit (.bool false)) => .ok (.lit (.bool false))
  | .ok (.lit (.bool true)) =>
      combine2 (.lit (.bool true)) r (.ok (.lit (.bool true))) pr.whole (.binop .and) (evalR · env)
  | .ok (.lit _) => .err .type
  | .ok l' => scRest .and l' r pr

def orStep (env : Env) (l r : Expr) (pl pr : PR) : PR :=
  match pl with
  | .err e => .err e
  | .ign => .ign
  | .var _ => scRest .or l r pr
  | .ok (.lit (.bool true)) => .ok (.lit (.bool true))
  | .ok (.lit (.bool false)) =>
      combine2 (.lit (.bool false)) r (.ok (.lit (.bool false))) pr.whole (.binop .or) (evalR · env)
  | .ok (.lit _) => .err .type
  | .ok l' => scRest .or l' r pr

/-- a branch of `partialIfThenElse` (`orig`: the original branch): `none` = errIgnore escapes -/
def branchNode (orig : Expr) (p : PR) : Option Expr :=
  match p.whole with
  | .ign => none
  | .err _ => some extError
  | .var _ => some orig
  | .ok e => some e

def iteRest (c t e : Expr) (pt pe : PR) : PR :=
  match branchNode t pt with
  | none => .ign
  | some t' =>
    match branchNode e pe with
    | none => .ign
    | some e' => .ok (.ite c t' e')

/-- `partialIfThenElse` (`c`, `t`, `e`: the original sub-expressions) -/
def iteStep (c t e : Expr) (pc pt pe : PR) : PR :=
  match pc with
  | .err e => .err e
  | .ign => .ign
  | .var _ => iteRest c t e pt pe
  | .ok (.lit (.bool true)) => pt                     -- `return partial(env, v.Then)`: passes (node, err) through
  | .ok (.lit (.bool false)) => pe
  | .ok (.lit _) => .err .type
  | .ok c' => iteRest c' t e pt pe

/-- the tail of `partialIsIn` while the type test is undecided: an error of the right-hand side stays in the residual -/
def isInRest (left : Expr) (ty : String) (r : Expr) (pr : PR) : PR :=
  match pr.whole with
  | .ign => .ign
  | .err _ => .ok (.isIn left ty extError)
  | .var _ => .ok (.isIn left ty r)
  | .ok r' => .ok (.isIn left ty r')

/-- `partialIsIn` (`l`, `r`: the original operands): a literal left operand decides the type test
    (`ValueToEntity`, then the type comparison); only when it passes is the operator strict in `r` -/
def isInStep (env : Env) (ty : String) (l r : Expr) (pl pr : PR) : PR :=
  match pl with
  | .err e => .err e
  | .ign => .ign
  | .var _ => isInRest l ty r pr
  | .ok (.lit (.entity ty' id)) =>
      if ty' != ty then .ok (.lit (.bool false))
      else combine2 (.lit (.entity ty' id)) r (PR.ok (.lit (.entity ty' id))).whole pr.whole (.isIn · ty ·) (evalR · env)
  | .ok (.lit _) => .err .type
  | .ok l' => isInRest l' ty r pr

def rebuildKVs : List (String × Expr) → List Expr → List (String × Expr)
  | (k, _) :: kes, n :: ns => (k, n) :: rebuildKVs kes ns
  | _, _ => []

mutual
/-- `partial` -/
def partialE (env : Env) : Expr → PR
  | .lit v => .ok (.lit v)
  | .var x => finishVal (.var x) (evalR (.var x) env)
  | .unop op e => combine1 e (partialE env e).whole (.unop op) (evalR · env)
  | .binop .and l r => andStep env l r (partialE env l) (partialE env r)
  | .binop .or l r => orStep env l r (partialE env l) (partialE env r)
  | .binop op l r => combine2 l r (partialE env l).whole (partialE env r).whole (.binop op) (evalR · env)
  | .ite c t e => iteStep c t e (partialE env c) (partialE env t) (partialE env e)
  | .access e a => combine1 e (partialE env e) (.access · a) (evalR · env)                -- lookInside
  | .has e a =>
      combine1 e (partialE env e) (.has · a)                                               -- lookInside
        (fun n => match n with | .has (.lit v) _ => hasStep env v a | _ => .err .panic)
  | .like e p => combine1 e (partialE env e).whole (.like · p) (evalR · env)
  | .is e ty => combine1 e (partialE env e).whole (.is · ty) (evalR · env)
  | .isIn e ty r => isInStep env ty e r (partialE env e) (partialE env r)
  | .set es => finishList (partialList env es) .set (evalR · env)
  | .record kes => finishList (partialKVs env kes) (fun ns => .record (rebuildKVs kes ns)) (evalR · env)
  | .call fn args => finishList (partialList env args) (.call fn) (evalR · env)
def partialList (env : Env) : List Expr → LoopR
  | [] => .done [] true
  | e :: es => consR e (partialE env e).whole (partialList env es)
def partialKVs (env : Env) : List (String × Expr) → LoopR
  | [] => .done [] true
  | (_, e) :: kes => consR e (partialE env e).whole (partialKVs env kes)
end

/-- the `switch t := in.(type)` of `partialScopeEval` for a known entity -/
def scopeBool (env : Env) (ty id : String) (s : Scope) : Bool :=
  match s with
  | .all => true
  | .eq e => (ty, id) == e
  | .in_ e => entityInOne env.entities (ty, id) e == some true
  | .inSet es => entityInSet env.entities (ty, id) es == some true
  | .is t => ty == t
  | .isIn t e => ty == t && entityInOne env.entities (ty, id) e == some true

/-- `partialScopeEval`: `none` = not evaluated (unknown or not an entity) -/
def scopeEval (env : Env) (ent : Value) (s : Scope) : Option Bool :=
  if ent.isVariable then none
  else if ent.isIgnore then some true
  else match ent with
  | .entity ty id => some (scopeBool env ty id s)
  | _ => none

/-- `partialPrincipalScope` etc.: `none` = drop the policy -/
def partialScope (env : Env) (ent : Value) (s : Scope) : Option Scope :=
  match scopeEval env ent s with
  | some false => none
  | some true => some .all
  | none => some s

/-- one iteration of the condition loop of `PartialPolicy`, given the result for the body and what the
    remaining conditions yield (`none` = drop the policy) -/
def condStep (effect : Effect) (w : Bool) (body : Expr) (p : PR) (rest : Option (List (Bool × Expr))) :
    Option (List (Bool × Expr)) :=
  match p with
  | .var _ => rest.map ((w, body) :: ·)                      -- the ORIGINAL condition is kept
  | .ign => if effect == .permit then rest else none
  | .err _ => some [(w, extError)]                          -- `return &p2, true`: later conditions are not looked at
  | .ok (.lit (.bool b)) => if b != w then none else rest
  | .ok (.lit _) => some [(w, extError)]
  | .ok body' => rest.map ((w, body') :: ·)

/-- the condition loop of `PartialPolicy`: `none` = drop the policy -/
def partialConds (env : Env) (effect : Effect) : List (Bool × Expr) → Option (List (Bool × Expr))
  | [] => some []
  | (w, body) :: rest => condStep effect w body (partialE env body) (partialConds env effect rest)

/-- `PartialPolicy`: `none` = `keep == false` -/
def partialPolicy (env : Env) (p : Policy) : Option Policy :=
  match partialScope env env.principal p.principal with
  | none => none
  | some ps =>
  match partialScope env env.action p.action with
  | none => none
  | some acs =>
  match partialScope env env.resource p.resource with
  | none => none
  | some rs =>
  match partialConds env p.effect p.conditions with
  | none => none
  | some cs => some { p with principal := ps, action := acs, resource := rs, conditions := cs }

/-! ## completions of the unknowns (used to STATE soundness; executable so the driver can report domains) -/

mutual
/-- the value is, or contains, an unknown (any name) or an ignore marker -/
def Value.hasMarker : Value → Bool
  | .entity ty _ => ty == variableEntityType || ty == ignoreEntityType
  | .record kvs => Value.hasMarkerKVs kvs
  | .set xs => Value.hasMarkerList xs
  | _ => false
def Value.hasMarkerKVs : List (String × Value) → Bool
  | [] => false
  | (_, x) :: rest => Value.hasMarker x || Value.hasMarkerKVs rest
def Value.hasMarkerList : List Value → Bool
  | [] => false
  | x :: xs => Value.hasMarker x || Value.hasMarkerList xs
end

mutual
/-- full simultaneous substitution of every unknown by its completion (`types.NewSet` re-deduplicates a
    set that contained an unknown; a set without unknowns is left alone) -/
def Value.substAll (σ : String → Value) : Value → Value
  | .entity ty id => if ty == variableEntityType then σ id else .entity ty id
  | .record kvs => .record (Value.substAllKVs σ kvs)
  | .set xs => if Value.hasUnknownList xs then mkSet (Value.substAllList σ xs) else .set xs
  | .bool b => .bool b
  | .long n => .long n
  | .str s => .str s
  | .decimal n => .decimal n
  | .datetime n => .datetime n
  | .duration n => .duration n
  | .ip a => .ip a
def Value.substAllKVs (σ : String → Value) : List (String × Value) → List (String × Value)
  | [] => []
  | (k, x) :: rest => (k, Value.substAll σ x) :: Value.substAllKVs σ rest
def Value.substAllList (σ : String → Value) : List Value → List Value
  | [] => []
  | x :: xs => Value.substAll σ x :: Value.substAllList σ xs
end

/-! ## the premise of the keep / drop statements (decidable)

  Since the repairs the expression-level soundness theorem (`C06_partialE_sound`) needs NO hypothesis on the expression or
  the environment.  What remains at policy level is the property's own premise: keep / drop soundness is claimed for
  environments with UNKNOWNS; ignore markers only promise widening (`C06_partial_ignore_widens_partial`). -/

/-- no key occurs twice in the entry list of a record literal -/
def keysNodup : List (String × Expr) → Bool
  | [] => true
  | (k, _) :: rest => !(rest.any (fun kv => kv.1 == k)) && keysNodup rest

mutual
/-- Every record literal of the expression (at every depth) lists each key once: what the text parser accepts
    (`duplicate key`), what the JSON decoder (a Go map) and the builder `ast.Record` (a later duplicate replaces the
    earlier entry) produce.  Only a hand-written `ast.NodeTypeRecord{Elements: …}` can repeat a key; for such a node
    `partial` (which visits EVERY element) and `Eval` (which evaluates the map built by `ToEval`: the last entry of
    each key) look at different entries, so the soundness statements are about expressions with this property. -/
def Expr.recKeysDistinct : Expr → Bool
  | .lit _ => true
  | .var _ => true
  | .unop _ e => e.recKeysDistinct
  | .binop _ l r => l.recKeysDistinct && r.recKeysDistinct
  | .ite c t e => c.recKeysDistinct && t.recKeysDistinct && e.recKeysDistinct
  | .access e _ => e.recKeysDistinct
  | .has e _ => e.recKeysDistinct
  | .like e _ => e.recKeysDistinct
  | .is e _ => e.recKeysDistinct
  | .isIn e _ r => e.recKeysDistinct && r.recKeysDistinct
  | .set es => recKeysDistinctL es
  | .record kes => keysNodup kes && recKeysDistinctKVs kes
  | .call _ args => recKeysDistinctL args
def recKeysDistinctL : List Expr → Bool
  | [] => true
  | e :: es => e.recKeysDistinct && recKeysDistinctL es
def recKeysDistinctKVs : List (String × Expr) → Bool
  | [] => true
  | (_, e) :: kes => e.recKeysDistinct && recKeysDistinctKVs kes
end

def Policy.recKeysDistinct (p : Policy) : Bool := p.conditions.all fun c => c.2.recKeysDistinct

def PR.notIgn : PR → Bool
  | .ign => false
  | _ => true

/-- no ignore marker is met: no request part is ignored and no condition's partial evaluation reports `errIgnore`
    (an ignore marker nested inside the context or an entity's attributes); and the conditions are expressions a parser,
    decoder or builder can produce (`Expr.recKeysDistinct`) -/
def partialDomain (env : Env) (p : Policy) : Bool :=
  !env.principal.isIgnore && !env.action.isIgnore && !env.resource.isIgnore &&
    p.conditions.all fun c => (partialE env c.2).notIgn && c.2.recKeysDistinct

/-- the completed environment: unknowns in the four request parts replaced; the store is untouched -/
def completeEnv (σ : String → Value) (env : Env) : Env :=
  { env with
    principal := env.principal.substAll σ
    action := env.action.substAll σ
    resource := env.resource.substAll σ
    context := env.context.substAll σ }

/-- completion of an environment with ignored parts: unknowns are replaced by `σ`, an ignored request part by
    the value `ι` gives it (any value: "for at least one value of the ignored part") -/
def completeEnvI (σ : String → Value) (ι : Var → Value) (env : Env) : Env :=
  { env with
    principal := if env.principal.isIgnore then ι .principal else env.principal.substAll σ
    action := if env.action.isIgnore then ι .action else env.action.substAll σ
    resource := if env.resource.isIgnore then ι .resource else env.resource.substAll σ
    context := if env.context.isIgnore then ι .context else env.context.substAll σ }

end CedarGo
