/-
  Shared value model (DESIGN §3.1).  Core Lean only: this file is linked into the `driver` executable.
  Mirrors cedar-go `types/*.go`: one constructor per `types.Value` implementation.
-/
namespace CedarGo

/-- `netip.Prefix` without zone: address family, address as a number, prefix length. -/
structure IPNet where
  v6 : Bool
  addr : Nat
  bits : Nat
deriving DecidableEq, Repr, Inhabited

inductive Value where
  | bool (b : Bool)
  | long (n : Int)
  | str (s : String)
  | entity (ty id : String)
  | set (xs : List Value)                 -- member list (duplicate-free when built by `mkSet`)
  | record (kvs : List (String × Value))  -- key-sorted, unique keys when built by `mkRecord`
  | decimal (raw : Int)
  | datetime (ms : Int)
  | duration (ms : Int)
  | ip (a : IPNet)
deriving Repr, Inhabited

/-- two's complement 64-bit range -/
def minI64 : Int := -9223372036854775808
def maxI64 : Int := 9223372036854775807
def InI64 (x : Int) : Prop := minI64 ≤ x ∧ x ≤ maxI64
instance (x : Int) : Decidable (InI64 x) := by unfold InI64; infer_instance

/-- Go `int64` wrap-around of a mathematical integer. -/
def wrap (x : Int) : Int := (x + 9223372036854775808) % 18446744073709551616 - 9223372036854775808

mutual
/-- `types.Value.Equal`: semantic equality (sets compared as sets). -/
def Value.beq : Value → Value → Bool
  | .bool a, .bool b => a == b
  | .long a, .long b => a == b
  | .str a, .str b => a == b
  | .entity t i, .entity t' i' => t == t' && i == i'
  | .set xs, .set ys => Value.subL xs ys && Value.supL xs ys
  | .record a, .record b => Value.beqKV a b
  | .decimal a, .decimal b => a == b
  | .datetime a, .datetime b => a == b
  | .duration a, .duration b => a == b
  | .ip a, .ip b => a == b
  | _, _ => false
/-- every element of the first list is `beq` to some element of the second -/
def Value.subL : List Value → List Value → Bool
  | [], _ => true
  | x :: xs, ys => ys.any (fun y => Value.beq x y) && Value.subL xs ys
/-- every element of the second list is `beq` to some element of the first:
    strike out of `ys` everything equal to an `x`; nothing may remain -/
def Value.supL : List Value → List Value → Bool
  | [], ys => ys.isEmpty
  | x :: xs, ys => Value.supL xs (ys.filter (fun y => !Value.beq x y))
/-- records are key-sorted with unique keys, so equality is pointwise -/
def Value.beqKV : List (String × Value) → List (String × Value) → Bool
  | [], [] => true
  | (k, v) :: a, (k', v') :: b => k == k' && Value.beq v v' && Value.beqKV a b
  | _, _ => false
end

instance : BEq Value := ⟨Value.beq⟩

def Value.memL (v : Value) (xs : List Value) : Bool := xs.any (fun x => Value.beq x v)

/-- `types.NewSet`: keep the first occurrence of each distinct member. -/
def dedupV : List Value → List Value → List Value
  | acc, [] => acc.reverse
  | acc, x :: xs => if Value.memL x acc then dedupV acc xs else dedupV (x :: acc) xs

def mkSet (xs : List Value) : Value := .set (dedupV [] xs)

/-- insert into a key-sorted association list, replacing an existing key (Go map assignment) -/
def kvInsert (k : String) (v : Value) : List (String × Value) → List (String × Value)
  | [] => [(k, v)]
  | (k', v') :: rest =>
    if k < k' then (k, v) :: (k', v') :: rest
    else if k == k' then (k, v) :: rest
    else (k', v') :: kvInsert k v rest

/-- `types.NewRecord` of a Go map built by assigning the pairs in order (later wins). -/
def mkRecord (kvs : List (String × Value)) : Value :=
  .record (kvs.foldl (fun acc kv => kvInsert kv.1 kv.2 acc) [])

/-- `kvInsert` for any payload: insert into a key-sorted association list, a later entry with the same key
    replaces the earlier one (Go map assignment `m[k] = x`) -/
def insKey {α : Type} (k : String) (x : α) : List (String × α) → List (String × α)
  | [] => [(k, x)]
  | (k', x') :: rest =>
    if k < k' then (k, x) :: (k', x') :: rest
    else if k == k' then (k, x) :: rest
    else (k', x') :: insKey k x rest

/-- The entries of a Go `map[string]α` built by assigning the pairs in the given order (a later duplicate key
    overwrites the earlier one), listed the way `slices.Sorted(maps.Keys(m))` visits them: distinct keys in
    ascending byte order.  This is the order in which a record literal evaluates its entries. -/
def canonKVs {α : Type} (kvs : List (String × α)) : List (String × α) :=
  kvs.foldl (fun acc kv => insKey kv.1 kv.2 acc) []

/-- first error in list order wins, otherwise all the values (`for … { v, err := …; if err != nil { return err } }`) -/
def seqKVs {ε α : Type} : List (String × Except ε α) → Except ε (List (String × α))
  | [] => .ok []
  | (k, r) :: rest => do let v ← r; let vs ← seqKVs rest; .ok ((k, v) :: vs)

def kvGet (k : String) : List (String × Value) → Option Value
  | [] => none
  | (k', v) :: rest => if k == k' then some v else kvGet k rest

def Value.kind : Value → String
  | .bool _ => "bool" | .long _ => "long" | .str _ => "string" | .entity .. => "entity"
  | .set _ => "set" | .record _ => "record" | .decimal _ => "decimal" | .datetime _ => "datetime"
  | .duration _ => "duration" | .ip _ => "ip"

/-- Error kinds (DESIGN §3.3). Messages are never modelled. -/
inductive Err where
  | type | overflow | attr | tag | entity | unspecified | arity | unknownFn
  | extDecimal | extIP | extDatetime | extDuration | partialErr | panic
deriving DecidableEq, Repr, Inhabited

def Err.name : Err → String
  | .type => "type" | .overflow => "overflow" | .attr => "attr" | .tag => "tag" | .entity => "entity"
  | .unspecified => "unspecified" | .arity => "arity" | .unknownFn => "unknownfn"
  | .extDecimal => "ext-decimal" | .extIP => "ext-ip" | .extDatetime => "ext-datetime"
  | .extDuration => "ext-duration" | .partialErr => "partial-error" | .panic => "panic"

abbrev Res := Except Err Value

end CedarGo
