/-
  C14 — the map-iteration sites of `x/exp/batch/batch.go` (facts/map_ranges.expected.json), with the order in which
  the Go map yields its entries as an explicit list argument, as in Model/Order.lean.

    Authorize, `request.Variables` → `be.Variables`   (sorted-after since the repair)   bindingOrder
        the variables are collected in map order and sorted with
        `cmp.Or(cmp.Compare(len(a.Values), len(b.Values)), cmp.Compare(a.Key, b.Key))`; `batchAuthorize`
        (Model/Batch.lean) takes the list in this order.  Before the repair the key was `len(Values)` alone:
        variables with equally many values stayed in map order (`bindingOrderByLen`).
    Authorize, unbound / unused check                  (sorted-after since the repair)   firstUnbound / firstUnused
        `for _, key := range slices.Sorted(found.All())`, `for _, k := range slices.Sorted(maps.Keys(request.Variables))`:
        the error names the least offending name.
    cloneSub, set case                                 (sorted-after since the repair)   cloneSubSetOrd
        the substituted members are collected in `Set.All()` (map) order, sorted by their Cedar text and given to
        `NewSet` — the same shape as `coerceSetOrd`.
-/
import CedarGo.Model.Batch
import CedarGo.Model.Order
namespace CedarGo

/-! ## the order in which `batch.Authorize` binds the variables -/

/-- `cmp.Or(cmp.Compare(len(a.Values), len(b.Values)), cmp.Compare(a.Key, b.Key)) <= 0`: fewer values first, among
    equally many values the lesser name first -/
def varLe {α : Type} (a b : String × List α) : Bool :=
  decide (a.2.length < b.2.length) || (a.2.length == b.2.length && strLe a.1 b.1)

/-- the unrepaired comparison `len(a.Values) - len(b.Values) <= 0` -/
def varLenLe {α : Type} (a b : String × List α) : Bool := decide (a.2.length ≤ b.2.length)

/-- `be.Variables` after `slices.SortFunc`: the argument is `request.Variables` in the order the Go map yielded it -/
def bindingOrder {α : Type} (varsInMapOrder : List (String × List α)) : List (String × List α) :=
  sortBy varLe varsInMapOrder

/-- the unrepaired order (a sort by the number of values that keeps equals in the order met) -/
def bindingOrderByLen {α : Type} (varsInMapOrder : List (String × List α)) : List (String × List α) :=
  sortBy varLenLe varsInMapOrder

/-- `batch.Authorize` on a request whose `Variables` map yields its entries in the given order -/
def batchAuthorizeMap {ε : Type} (cancelled : Nat → Bool) (cb : BResult → Except ε Unit)
    (varsInMapOrder : List (String × List Value)) (env : Env) (ps : List (PolicyID × Policy)) : BRun ε :=
  batchAuthorize cancelled cb (bindingOrder varsInMapOrder) env ps

/-! ## which variable the unbound / unused error names -/

/-- `for _, key := range slices.Sorted(found.All()) { if _, ok := request.Variables[key]; !ok { return … key } }` -/
def firstUnbound (foundInMapOrder : List String) (bound : List String) : Option String :=
  ((sortBy strLe foundInMapOrder).filter (fun k => !bound.contains k)).head?

/-- `for _, k := range slices.Sorted(maps.Keys(request.Variables)) { if !found.Contains(k) { return … k } }` -/
def firstUnused (namesInMapOrder : List String) (found : List String) : Option String :=
  ((sortBy strLe namesInMapOrder).filter (fun k => !found.contains k)).head?

/-- the unrepaired loops: the first offending name in map order -/
def firstUnboundInMapOrder (foundInMapOrder : List String) (bound : List String) : Option String :=
  (foundInMapOrder.filter (fun k => !bound.contains k)).head?

/-! ## `cloneSub` on a set -/

/-- `cloneSub`, set case (repaired): the members are substituted in `Set.All()` (Go map) order, SORTED by their Cedar
    text (`MarshalCedar`; a member is identified with that text here, `sub` is the substitution on texts) and given
    to `NewSet`; the result is the order in which the rebuilt set is printed -/
def cloneSubSetOrd (hash : String → Nat) (sub : String → String) (membersInMapOrder : List String) : List String :=
  setRenderOrder ((sortBy strLe (membersInMapOrder.map sub)).map (fun m => (hash m, m)))

/-- the unrepaired rebuild: `NewSet` in map order -/
def cloneSubSetInMapOrder (hash : String → Nat) (sub : String → String) (membersInMapOrder : List String) : List String :=
  setRenderOrder ((membersInMapOrder.map sub).map (fun m => (hash m, m)))

end CedarGo
