/-
  Schema JSON codec — transcription of x/exp/schema/internal/json/json.go at the level of the Go structs
  that `encoding/json` reads and writes (`jsonNamespace`, `jsonEntityType`, `jsonAction`, `jsonType`, …).

  * `marshalSchema` / `unmarshalSchema` are `Schema.MarshalJSON` / `UnmarshalJSON` up to the struct tree;
    `checkNames` & co. transcribe names.go (the JSON parser accepts exactly the names the text format can express).
  * Fields tagged `omitempty` cannot distinguish nil from empty after a trip through JSON; the struct model
    identifies the two (lists, `""`), and keeps `Option` where Go has a pointer (`shape`, `tags`, `appliesTo`, `enum`).
  * `renderSchemaJson` prints the struct tree the way `encoding/json` does (struct fields in declaration order,
    map keys sorted, Go's string escaping incl. `\\u003c` for `<`), so that the driver can compare BYTES.
  `encoding/json` itself (text ↔ struct tree) is trusted, not modelled.
-/
import CedarGo.Model.Schema.Text
namespace CedarGo.Schema

mutual
/-- `jsonType` (+ the extra fields of `jsonAttr` on attribute entries) -/
inductive JType where
  | mk (type : String) (element : JElem) (attributes : JAttrs) (name : String)
  deriving DecidableEq
/-- `*jsonType` (the `element` pointer) -/
inductive JElem where
  | none
  | some (t : JType)
  deriving DecidableEq
/-- `map[string]jsonAttr` -/
inductive JAttrs where
  | nil
  | cons (key : String) (ty : JType) (required : Option Bool) (anns : Anns) (rest : JAttrs)
  deriving DecidableEq
end

structure JEntityType where
  memberOfTypes : List String := []
  shape : Option JType := none
  tags : Option JType := none
  anns : Anns := []
  enum : Option (List String) := none     -- `*[]string`: absent vs. present (possibly empty)
deriving DecidableEq

structure JAppliesTo where
  principalTypes : List String := []
  resourceTypes : List String := []
  context : Option JType := none
deriving DecidableEq

structure JAction where
  memberOf : List (String × String) := []     -- (id, type)
  appliesTo : Option JAppliesTo := none
  anns : Anns := []
deriving DecidableEq

structure JCommonType where
  ty : JType
  anns : Anns := []
deriving DecidableEq

structure JNamespace where
  entityTypes : List (String × JEntityType) := []
  actions : List (String × JAction) := []
  commonTypes : List (String × JCommonType) := []
  anns : Anns := []
deriving DecidableEq

/-- `map[string]jsonNamespace` -/
abbrev JSchema := List (String × JNamespace)

/-! ## marshal -/

mutual
/-- `marshalIsType` -/
def marshalTy : Ty → JType
  | .string => .mk "String" .none .nil ""
  | .long => .mk "Long" .none .nil ""
  | .bool => .mk "Boolean" .none .nil ""
  | .ext n => .mk "Extension" .none .nil n
  | .set e => .mk "Set" (.some (marshalTy e)) .nil ""
  | .record as => .mk "Record" .none (marshalAttrs as) ""
  | .entityRef n => .mk "Entity" .none .nil n
  | .typeRef n => .mk "EntityOrCommon" .none .nil n
/-- `marshalRecordType` (the attribute map) -/
def marshalAttrs : Attrs → JAttrs
  | .nil => .nil
  | .cons n o a t rest => .cons n (marshalTy t) (if o then some false else none) a (marshalAttrs rest)
end

def insertSortedStr (x : String) : List String → List String
  | [] => [x]
  | y :: ys => if x ≤ y then x :: y :: ys else y :: insertSortedStr x ys

/-- `sort.Strings` -/
def sortStrs (xs : List String) : List String := xs.foldr insertSortedStr []

def marshalEntity (e : Entity) : JEntityType :=
  { anns := e.anns, memberOfTypes := sortStrs e.parents,
    shape := e.shape.map fun as => marshalTy (.record as), tags := e.tags.map marshalTy }

def marshalEnum (e : Enum) : JEntityType := { anns := e.anns, enum := some e.values }

def marshalAction (a : Action) : JAction :=
  { anns := a.anns, memberOf := a.parents.map fun p => (p.2, p.1),
    appliesTo := a.appliesTo.map fun ap =>
      { principalTypes := ap.principals, resourceTypes := ap.resources, context := ap.context.map marshalTy } }

/-- `marshalNamespace`; entity and enum declarations share the `entityTypes` map (enums written last win on a clash) -/
def marshalNamespace (d : Namespace) : JNamespace :=
  { anns := d.anns
    commonTypes := d.commonTypes.map fun c => (c.1, { ty := marshalTy c.2.ty, anns := c.2.anns })
    entityTypes := (d.entities.filter fun e => !d.enums.any (fun en => en.1 == e.1)).map (fun e => (e.1, marshalEntity e.2)) ++
                   d.enums.map (fun e => (e.1, marshalEnum e.2))
    actions := d.actions.map fun a => (a.1, marshalAction a.2) }

def hasBareDecls (d : Namespace) : Bool :=
  !d.entities.isEmpty || !d.enums.isEmpty || !d.actions.isEmpty || !d.commonTypes.isEmpty

/-- `Schema.MarshalJSON` up to the struct tree: bare declarations under the key "" -/
def marshalSchema (s : Schema) : JSchema :=
  (if hasBareDecls s.bare then [("", marshalNamespace { s.bare with anns := [] })] else []) ++
  s.namespaces.map fun nd => (nd.1, marshalNamespace nd.2)

/-! ## names (`names.go`): the JSON parser accepts exactly the names the text format can express -/

def reservedTypeNamesJ : List String := ["Bool", "Boolean", "Entity", "Extension", "Long", "Record", "Set", "String"]

/-- `isIdentLike`: `[_a-zA-Z][_a-zA-Z0-9]*`, reserved keywords included (annotation keys) -/
def isIdentLike (s : String) : Bool :=
  match s.toList with
  | [] => false
  | c :: cs => isIdentStart c && cs.all isIdentContinue

/-- `strings.Split(s, "::")` on characters: leftmost, non-overlapping separators (`cur` = the component being read, reversed) -/
def splitSepAux : List Char → List Char → List (List Char)
  | cur, [] => [cur.reverse]
  | cur, [c] => [(c :: cur).reverse]
  | cur, c :: d :: rest =>
    if c = ':' ∧ d = ':' then cur.reverse :: splitSepAux [] rest
    else splitSepAux (c :: cur) (d :: rest)

def splitSep (s : String) : List String := (splitSepAux [] s.toList).map String.ofList

/-- `isPath`: IDENT { '::' IDENT } (`isIdent` is `isValidIdent` of the printer) -/
def isPathJ (s : String) : Bool := (splitSep s).all isValidIdent

/-- `isTypeName`: a path whose first component may also be `__cedar` (`strings.Cut` at the first "::", then `isPath` of
    the rest: the same components as one `Split`) -/
def isTypeNameJ (s : String) : Bool :=
  match splitSep s with
  | [] => false
  | first :: rest => (first == "__cedar" || isValidIdent first) && rest.all isValidIdent

/-- `checkAnnotations` -/
def annKeysOk (a : Anns) : Bool := a.all fun kv => isIdentLike kv.1

mutual
/-- `checkType` -/
def jtypeNamesOk : JType → Bool
  | .mk type element attrs name =>
    if type = "String" ∨ type = "Long" ∨ type = "Boolean" ∨ type = "Extension" then true
    else if type = "Set" then
      match element with
      | .none => true
      | .some e => jtypeNamesOk e
    else if type = "Record" then jattrsNamesOk attrs
    else if type = "Entity" ∨ type = "EntityOrCommon" then isTypeNameJ name
    else isTypeNameJ type
/-- `checkAttributes` -/
def jattrsNamesOk : JAttrs → Bool
  | .nil => true
  | .cons _ t _ a rest => annKeysOk a && jtypeNamesOk t && jattrsNamesOk rest
end

def jshapeNamesOk : JType → Bool
  | .mk _ _ attrs _ => jattrsNamesOk attrs

/-- `checkNames` (accept/reject; Go reports the first offender in key order) -/
def checkNames (j : JNamespace) : Bool :=
  annKeysOk j.anns &&
  j.commonTypes.all (fun c => isValidIdent c.1 && !reservedTypeNamesJ.contains c.1 && annKeysOk c.2.anns && jtypeNamesOk c.2.ty) &&
  j.entityTypes.all (fun e => isValidIdent e.1 && annKeysOk e.2.anns && e.2.memberOfTypes.all isTypeNameJ &&
    (match e.2.shape with | some t => jshapeNamesOk t | none => true) &&
    (match e.2.tags with | some t => jtypeNamesOk t | none => true)) &&
  j.actions.all (fun a => annKeysOk a.2.anns && a.2.memberOf.all (fun p => p.2 = "" || isTypeNameJ p.2) &&
    (match a.2.appliesTo with
     | some ap => ap.principalTypes.all isTypeNameJ && ap.resourceTypes.all isTypeNameJ &&
        (match ap.context with | some t => jtypeNamesOk t | none => true)
     | none => true))

/-! ## unmarshal -/

mutual
/-- `unmarshalType` -/
def unmarshalTy : JType → Except String Ty
  | .mk type element attrs name =>
    if type = "String" then .ok .string
    else if type = "Long" then .ok .long
    else if type = "Boolean" then .ok .bool
    else if type = "Extension" then .ok (.ext name)
    else if type = "Set" then
      match element with
      | .none => .error "set type missing element"
      | .some e => match unmarshalTy e with
        | .ok t => .ok (.set t)
        | .error x => .error x
    else if type = "Record" then
      match unmarshalAttrs attrs with
      | .ok as => .ok (.record as)
      | .error x => .error x
    else if type = "Entity" then .ok (.entityRef name)
    else if type = "EntityOrCommon" then .ok (.typeRef name)
    else .ok (.typeRef type)
/-- `unmarshalRecordType` -/
def unmarshalAttrs : JAttrs → Except String Attrs
  | .nil => .ok .nil
  | .cons k t req a rest =>
    match unmarshalTy t with
    | .error x => .error x
    | .ok ty =>
      match unmarshalAttrs rest with
      | .error x => .error x
      | .ok r => .ok (.cons k (req == some false) a ty r)
end

def unmarshalShape : JType → Except String Attrs
  | .mk _ _ attrs _ => unmarshalAttrs attrs

def optMapM {α β} (f : α → Except String β) : Option α → Except String (Option β)
  | none => .ok none
  | some a => (f a).map some

def unmarshalEntity (j : JEntityType) : Except String Entity := do
  let shape ← optMapM unmarshalShape j.shape
  let tags ← optMapM unmarshalTy j.tags
  .ok { anns := j.anns, parents := j.memberOfTypes, shape := shape, tags := tags }

def unmarshalAction (j : JAction) : Except String Action := do
  let ap ← optMapM (fun (a : JAppliesTo) => do
    let ctx ← optMapM unmarshalTy a.context
    .ok ({ principals := a.principalTypes, resources := a.resourceTypes, context := ctx } : AppliesTo)) j.appliesTo
  .ok { anns := j.anns, parents := j.memberOf.map fun p => (p.2, p.1), appliesTo := ap }

/-- the conversion loops of `unmarshalNamespace`: an `entityTypes` entry with an `enum` member is an enum, anything else
    an entity -/
def unmarshalNamespaceCore (j : JNamespace) : Except String Namespace := do
  let cts ← j.commonTypes.mapM fun c => do
    let t ← unmarshalTy c.2.ty
    .ok (c.1, ({ anns := c.2.anns, ty := t } : CommonType))
  let ents ← (j.entityTypes.filter fun e => e.2.enum.isNone).mapM fun e => do
    let x ← unmarshalEntity e.2
    .ok (e.1, x)
  let enums := j.entityTypes.filterMap fun e =>
    e.2.enum.map fun vs => (e.1, ({ anns := e.2.anns, values := vs } : Enum))
  let acts ← j.actions.mapM fun a => do
    let x ← unmarshalAction a.2
    .ok (a.1, x)
  .ok { anns := j.anns, entities := ents, enums := enums, actions := acts, commonTypes := cts }

/-- `unmarshalNamespace`: names are checked first (`checkNames`); an empty `enum` list is an error (the grammar requires
    at least one value) -/
def unmarshalNamespace (j : JNamespace) : Except String Namespace :=
  if !checkNames j then .error "invalid name"
  else if j.entityTypes.any (fun e => e.2.enum == some []) then .error "an enum entity type needs at least one value"
  else unmarshalNamespaceCore j

/-- the loop of `Schema.UnmarshalJSON` over the namespaces -/
def unmarshalSchemaCore (j : JSchema) : Except String Schema := do
  let nss ← j.mapM fun nd => do
    let d ← unmarshalNamespace nd.2
    .ok (nd.1, d)
  let bare := match nss.lookup "" with
    | some d => { d with anns := [] }
    | none => {}
  .ok { bare := bare, namespaces := nss.filter fun nd => nd.1 ≠ "" }

/-- `Schema.UnmarshalJSON` from the struct tree: every key but "" must be a namespace name -/
def unmarshalSchema (j : JSchema) : Except String Schema :=
  if j.any (fun nd => nd.1 ≠ "" && !isPathJ nd.1) then .error "not a valid namespace name"
  else unmarshalSchemaCore j

/-! ## rendering as `encoding/json` does -/

def hexDigitLower (n : Nat) : Char := if n < 10 then Char.ofNat (48 + n) else Char.ofNat (87 + n)

def u4 (n : Nat) : String :=
  String.ofList ['\\', 'u', hexDigitLower (n / 4096 % 16), hexDigitLower (n / 256 % 16), hexDigitLower (n / 16 % 16), hexDigitLower (n % 16)]

/-- Go `encoding/json` string escaping (escapeHTML = true) -/
def goJsonChar (c : Char) : String :=
  if c = '"' then "\\\"" else if c = '\\' then "\\\\"
  else if c = '\n' then "\\n" else if c = '\r' then "\\r" else if c = '\t' then "\\t"
  else if c = '\x08' then "\\b" else if c = '\x0c' then "\\f"
  else if c.val < 0x20 ∨ c = '<' ∨ c = '>' ∨ c = '&' ∨ c.val = 0x2028 ∨ c.val = 0x2029 then u4 c.val.toNat
  else String.singleton c

def goJsonString (s : String) : String := "\"" ++ String.join (s.toList.map goJsonChar) ++ "\""

def sortKV {α} (xs : List (String × α)) : List (String × α) :=
  xs.foldr (fun x acc =>
    let rec ins : List (String × α) → List (String × α)
      | [] => [x]
      | y :: ys => if x.1 ≤ y.1 then x :: y :: ys else y :: ins ys
    ins acc) []

def renderObj (fields : List String) : String := "{" ++ ",".intercalate fields ++ "}"

def renderStrMap (m : List (String × String)) : String :=
  renderObj ((sortKV m).map fun kv => goJsonString kv.1 ++ ":" ++ goJsonString kv.2)

def renderStrList (xs : List String) : String := "[" ++ ",".intercalate (xs.map goJsonString) ++ "]"

def JAttrs.toList : JAttrs → List (String × JType × Option Bool × Anns)
  | .nil => []
  | .cons k t r a rest => (k, t, r, a) :: rest.toList

mutual
/-- fields of `jsonType` in declaration order: type, element (omitempty), attributes (omitempty), name (omitempty) -/
partial def renderJTypeFields : JType → List String
  | .mk type element attrs name =>
    ["\"type\":" ++ goJsonString type] ++
    (match element with | .some e => ["\"element\":" ++ renderObj (renderJTypeFields e)] | .none => []) ++
    (match attrs with
     | .nil => []      -- `omitempty` drops an empty map, also for "Record"
     | as => ["\"attributes\":" ++ renderObj ((sortKV as.toList).map fun x =>
               goJsonString x.1 ++ ":" ++ renderObj (renderJTypeFields x.2.1 ++
                 (match x.2.2.1 with | some b => ["\"required\":" ++ (if b then "true" else "false")] | none => []) ++
                 (if x.2.2.2.isEmpty then [] else ["\"annotations\":" ++ renderStrMap x.2.2.2])))]) ++
    (if name = "" then [] else ["\"name\":" ++ goJsonString name])
end

def renderJType (t : JType) : String := renderObj (renderJTypeFields t)

def renderJEntityType (e : JEntityType) : String :=
  renderObj (
    (if e.memberOfTypes.isEmpty then [] else ["\"memberOfTypes\":" ++ renderStrList e.memberOfTypes]) ++
    (match e.shape with | some t => ["\"shape\":" ++ renderJType t] | none => []) ++
    (match e.tags with | some t => ["\"tags\":" ++ renderJType t] | none => []) ++
    (if e.anns.isEmpty then [] else ["\"annotations\":" ++ renderStrMap e.anns]) ++
    (match e.enum with | some vs => ["\"enum\":" ++ renderStrList vs] | none => []))

def renderJAction (a : JAction) : String :=
  renderObj (
    (if a.memberOf.isEmpty then [] else ["\"memberOf\":[" ++ ",".intercalate (a.memberOf.map fun p =>
        "{\"id\":" ++ goJsonString p.1 ++ ",\"type\":" ++ goJsonString p.2 ++ "}") ++ "]"]) ++
    (match a.appliesTo with
     | some ap => ["\"appliesTo\":" ++ renderObj (
          ["\"principalTypes\":" ++ (if ap.principalTypes.isEmpty then "null" else renderStrList ap.principalTypes),
           "\"resourceTypes\":" ++ (if ap.resourceTypes.isEmpty then "null" else renderStrList ap.resourceTypes)] ++
          (match ap.context with | some t => ["\"context\":" ++ renderJType t] | none => []))]
     | none => []) ++
    (if a.anns.isEmpty then [] else ["\"annotations\":" ++ renderStrMap a.anns]))

def renderJNamespace (d : JNamespace) : String :=
  renderObj (
    ["\"entityTypes\":" ++ renderObj ((sortKV d.entityTypes).map fun e => goJsonString e.1 ++ ":" ++ renderJEntityType e.2),
     "\"actions\":" ++ renderObj ((sortKV d.actions).map fun a => goJsonString a.1 ++ ":" ++ renderJAction a.2)] ++
    (if d.commonTypes.isEmpty then [] else
      ["\"commonTypes\":" ++ renderObj ((sortKV d.commonTypes).map fun c =>
        goJsonString c.1 ++ ":" ++ renderObj (renderJTypeFields c.2.ty ++ (if c.2.anns.isEmpty then [] else ["\"annotations\":" ++ renderStrMap c.2.anns])))]) ++
    (if d.anns.isEmpty then [] else ["\"annotations\":" ++ renderStrMap d.anns]))

/-- the bytes of `Schema.MarshalJSON` -/
def renderSchemaJson (s : Schema) : String :=
  renderObj ((sortKV (marshalSchema s)).map fun nd => goJsonString nd.1 ++ ":" ++ renderJNamespace nd.2)

end CedarGo.Schema
