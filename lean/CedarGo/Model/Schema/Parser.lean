/-
  Cedar schema text LEXER and PARSER — transcription of x/exp/schema/internal/parser/{token,parser}.go at token
  level (positions and error texts are not modelled: a parse either yields an AST or fails).
  Executable model only (`partial def` loops): it is tied to the Go parser by the `schema-parse` correspondence op;
  no theorem is stated about it.
-/
import CedarGo.Model.Schema.Text
namespace CedarGo.Schema

inductive Tok where
  | eof
  | ident (s : String)
  | str (s : String)
  | reserved (s : String)
  | at | lbrace | rbrace | lbrack | rbrack | langle | rangle | lparen | rparen
  | comma | semi | colon | dcolon | question | equals
deriving DecidableEq, Repr

/-! ## lexer -/

/-- `skipWhitespaceAndComments`; `none` = unterminated block comment -/
partial def skipWs : List Char → Option (List Char)
  | c :: cs =>
    if c = ' ' ∨ c = '\t' ∨ c = '\r' ∨ c = '\n' then skipWs cs
    else if c = '/' then
      match cs with
      | '/' :: rest => skipWs (rest.dropWhile (· ≠ '\n'))
      | '*' :: rest =>
        let rec block : List Char → Option (List Char)
          | '*' :: '/' :: r => some r
          | _ :: r => block r
          | [] => none
        match block rest with
        | some r => skipWs r
        | none => none
      | _ => some (c :: cs)
    else some (c :: cs)
  | [] => some []

/-- `scanString` after the opening quote: the raw body and the rest after the closing quote -/
partial def scanStr (acc : List Char) : List Char → Option (List Char × List Char)
  | [] => none
  | c :: cs =>
    if c = '"' then some (acc.reverse, cs)
    else if c = '\n' then none
    else if c = '\\' then
      match cs with
      | [] => none
      | e :: r => scanStr (e :: c :: acc) r
    else scanStr (c :: acc) cs

/-- the whole token stream (the Go lexer is lazy, but every token up to EOF is consumed by a successful parse) -/
partial def lexAll (src : List Char) : Except String (List Tok) := do
  match skipWs src with
  | none => throw "unterminated block comment"
  | some [] => pure [.eof]
  | some (c :: cs) =>
    if isIdentStart c then
      let body := cs.takeWhile isIdentContinue
      let rest := cs.dropWhile isIdentContinue
      let text := String.ofList (c :: body)
      let t := if reservedKeywords.contains text then Tok.reserved text else Tok.ident text
      pure (t :: (← lexAll rest))
    else if c = '"' then
      match scanStr [] cs with
      | none => throw "unterminated string literal"
      | some (raw, rest) =>
        match unquoteCedar raw with
        | none => throw "invalid string escape"
        | some s => pure (Tok.str (String.ofList s) :: (← lexAll rest))
    else
      let single (t : Tok) : Except String (List Tok) := do pure (t :: (← lexAll cs))
      if c = '@' then single .at else if c = '{' then single .lbrace else if c = '}' then single .rbrace
      else if c = '[' then single .lbrack else if c = ']' then single .rbrack
      else if c = '<' then single .langle else if c = '>' then single .rangle
      else if c = '(' then single .lparen else if c = ')' then single .rparen
      else if c = ',' then single .comma else if c = ';' then single .semi
      else if c = '?' then single .question else if c = '=' then single .equals
      else if c = ':' then
        match cs with
        | ':' :: rest => do pure (Tok.dcolon :: (← lexAll rest))
        | _ => single .colon
      else throw "unexpected character"

/-! ## parser -/

abbrev P := StateT (List Tok) (Except String)

def peekTok : P Tok := do
  match ← get with
  | t :: _ => pure t
  | [] => pure .eof

def advanceTok : P Unit := modify List.tail

def expectTok (t : Tok) : P Unit := do
  if (← peekTok) = t then advanceTok else throw "unexpected token"

def isIdentTok (s : String) : P Bool := do pure ((← peekTok) = .ident s)

def reservedTypeNames : List String := ["Bool", "Boolean", "Entity", "Extension", "Long", "Record", "Set", "String"]

/-- `parseAnnotations` -/
partial def parseAnnotations (acc : Anns := []) : P Anns := do
  if (← peekTok) = .at then
    advanceTok
    let key ← match ← peekTok with
      | .ident s => pure s
      | .reserved s => pure s
      | _ => throw "expected annotation name"
    advanceTok
    let value ← if (← peekTok) = .lparen then do
        advanceTok
        match ← peekTok with
        | .str v => do advanceTok; expectTok .rparen; pure v
        | _ => throw "expected annotation value string"
      else pure ""
    if acc.any (·.1 = key) then throw "duplicate annotation"
    parseAnnotations (acc ++ [(key, value)])
  else pure acc

/-- `parsePathRest`: { '::' IDENT } after the first component -/
partial def parsePathRest (path : String) : P String := do
  if (← peekTok) = .dcolon then
    advanceTok
    match ← peekTok with
    | .ident s => do advanceTok; parsePathRest (path ++ "::" ++ s)
    | _ => throw "expected identifier after '::'"
  else pure path

/-- `parsePath`: IDENT { '::' IDENT }, `__cedar` allowed as first component -/
def parsePath : P String := do
  let first ← match ← peekTok with
    | .ident s => pure s
    | .reserved "__cedar" => pure "__cedar"
    | _ => throw "expected identifier"
  advanceTok
  parsePathRest first

/-- `parseName`: IDENT | STR | `__cedar` -/
def parseName : P String := do
  match ← peekTok with
  | .ident s => do advanceTok; pure s
  | .reserved "__cedar" => do advanceTok; pure "__cedar"
  | .str s => do advanceTok; pure s
  | _ => throw "expected name"

def setAttr (as : List (String × Bool × Anns × Ty)) (n : String) (v : Bool × Anns × Ty) : List (String × Bool × Anns × Ty) :=
  if as.any (·.1 = n) then as.map (fun a => if a.1 = n then (n, v) else a) else as ++ [(n, v)]

mutual
/-- `parseType` -/
partial def parseType : P Ty := do
  match ← peekTok with
  | .lbrace => do pure (.record (← parseRecordType))
  | .ident "Set" => do
    advanceTok
    -- `Set` is no keyword: without '<' it is the first component of a path (an entity type or namespace called Set)
    if (← peekTok) ≠ .langle then pure (.typeRef (← parsePathRest "Set"))
    else
      expectTok .langle
      let e ← parseType
      expectTok .rangle
      pure (.set e)
  | _ => do pure (.typeRef (← parsePath))
/-- `parseRecordType` (a later attribute of the same name replaces the earlier one, as the Go map does) -/
partial def parseRecordType : P Attrs := do
  expectTok .lbrace
  let rec loop (acc : List (String × Bool × Anns × Ty)) : P (List (String × Bool × Anns × Ty)) := do
    match ← peekTok with
    | .rbrace => pure acc
    | .eof => throw "expected '}'"
    | _ =>
      let anns ← parseAnnotations
      let name ← parseName
      let optional ← if (← peekTok) = .question then do advanceTok; pure true else pure false
      expectTok .colon
      let t ← parseType
      if (← peekTok) = .comma then advanceTok
      loop (setAttr acc name (optional, anns, t))
  let as ← loop []
  advanceTok
  pure (Attrs.ofList as)
end

/-- `parseEntityTypes`: Path | '[' [ Path { ',' Path } ] ']' -/
partial def parseEntityTypes : P (List String) := do
  if (← peekTok) = .lbrack then
    advanceTok
    let rec loop (acc : List String) : P (List String) := do
      if (← peekTok) = .rbrack then pure acc
      else
        let p ← parsePath
        if (← peekTok) = .comma then advanceTok
        else if (← peekTok) ≠ .rbrack then throw "expected ',' or ']'"
        loop (acc ++ [p])
    let r ← loop []
    advanceTok
    pure r
  else do pure [← parsePath]

/-- `parseQualName`: Name | Path '::' STR -/
partial def parseQualName : P (String × String) := do
  match ← peekTok with
  | .str s => do advanceTok; pure ("", s)
  | _ =>
    let first ← match ← peekTok with
      | .ident s => pure s
      | .reserved "__cedar" => pure "__cedar"
      | _ => throw "expected identifier"
    advanceTok
    let rec more (path : String) : P (String × String) := do
      if (← peekTok) = .dcolon then
        advanceTok
        match ← peekTok with
        | .str s => do advanceTok; pure (path, s)
        | .ident s => do advanceTok; more (path ++ "::" ++ s)
        | _ => throw "expected identifier or string after '::'"
      else pure ("", path)
    more first

partial def parseActionParents : P (List (String × String)) := do
  if (← peekTok) = .lbrack then
    advanceTok
    let rec loop (acc : List (String × String)) : P (List (String × String)) := do
      if (← peekTok) = .rbrack then pure acc
      else
        let p ← parseQualName
        if (← peekTok) = .comma then advanceTok
        else if (← peekTok) ≠ .rbrack then throw "expected ',' or ']'"
        loop (acc ++ [p])
    let r ← loop []
    advanceTok
    pure r
  else do pure [← parseQualName]

/-- `parseAppliesTo` -/
partial def parseAppliesTo : P AppliesTo := do
  expectTok .lbrace
  let rec loop (ap : AppliesTo) (hasP hasR hasC : Bool) : P (AppliesTo × Bool × Bool) := do
    match ← peekTok with
    | .rbrace => pure (ap, hasP, hasR)
    | .eof => throw "expected '}'"
    | .ident "principal" =>
      if hasP then throw "duplicate principal"
      advanceTok; expectTok .colon
      let refs ← parseEntityTypes
      if refs.isEmpty then throw "principal types must not be empty"
      if (← peekTok) = .comma then advanceTok
      loop { ap with principals := refs } true hasR hasC
    | .ident "resource" =>
      if hasR then throw "duplicate resource"
      advanceTok; expectTok .colon
      let refs ← parseEntityTypes
      if refs.isEmpty then throw "resource types must not be empty"
      if (← peekTok) = .comma then advanceTok
      loop { ap with resources := refs } hasP true hasC
    | .ident "context" =>
      if hasC then throw "duplicate context"
      advanceTok; expectTok .colon
      let t ← parseType
      if (← peekTok) = .comma then advanceTok
      loop { ap with context := some t } hasP hasR true
    | _ => throw "expected 'principal', 'resource', or 'context'"
  let (ap, hasP, hasR) ← loop {} false false false
  if !hasP then throw "appliesTo must include a principal declaration"
  if !hasR then throw "appliesTo must include a resource declaration"
  advanceTok
  pure ap

partial def parseIdents : P (List String) := do
  let first ← match ← peekTok with
    | .ident s => pure s
    | _ => throw "expected identifier"
  advanceTok
  let rec more (acc : List String) : P (List String) := do
    if (← peekTok) = .comma then
      advanceTok
      match ← peekTok with
      | .ident s => do advanceTok; more (acc ++ [s])
      | _ => throw "expected identifier after ','"
    else pure acc
  more [first]

partial def parseNames : P (List String) := do
  let first ← parseName
  let rec more (acc : List String) : P (List String) := do
    if (← peekTok) = .comma then
      advanceTok
      let n ← parseName
      more (acc ++ [n])
    else pure acc
  more [first]

def addEntities (d : Namespace) (names : List String) (e : Entity) : Except String Namespace :=
  names.foldlM (fun d n =>
    if d.entities.any (·.1 = n) ∨ d.enums.any (·.1 = n) then .error "entity declared twice"
    else .ok { d with entities := d.entities ++ [(n, e)] }) d

def addEnums (d : Namespace) (names : List String) (e : Enum) : Except String Namespace :=
  names.foldlM (fun d n =>
    if d.entities.any (·.1 = n) ∨ d.enums.any (·.1 = n) then .error "entity declared twice"
    else .ok { d with enums := d.enums ++ [(n, e)] }) d

def addActions (d : Namespace) (names : List String) (a : Action) : Except String Namespace :=
  names.foldlM (fun d n =>
    if d.actions.any (·.1 = n) then .error "action declared twice"
    else .ok { d with actions := d.actions ++ [(n, a)] }) d

/-- `parseDecl` (entity / action / type) into the accumulated declarations of the current namespace -/
partial def parseDecl (anns : Anns) (d : Namespace) : P Namespace := do
  match ← peekTok with
  | .ident "entity" =>
    advanceTok
    let names ← parseIdents
    if (← isIdentTok "enum") then
      advanceTok
      expectTok .lbrack
      let rec loop (acc : List String) : P (List String) := do
        match ← peekTok with
        | .rbrack => pure acc
        | .str v =>
          advanceTok
          if (← peekTok) = .comma then advanceTok
          else if (← peekTok) ≠ .rbrack then throw "expected ',' or ']' in enum"
          loop (acc ++ [v])
        | _ => throw "expected string literal in enum"
      let values ← loop []
      if values.isEmpty then throw "an enum entity type needs at least one value"
      advanceTok
      expectTok .semi
      StateT.lift (addEnums d names { anns := anns, values := values })
    else
      let memberOf ← if (← peekTok) = .reserved "in" then do advanceTok; parseEntityTypes else pure []
      let shape ← match ← peekTok with
        | .equals => do advanceTok; pure (some (← parseRecordType))
        | .lbrace => do pure (some (← parseRecordType))
        | _ => pure none
      let tags ← if (← isIdentTok "tags") then do advanceTok; pure (some (← parseType)) else pure none
      expectTok .semi
      StateT.lift (addEntities d names { anns := anns, parents := memberOf, shape := shape, tags := tags })
  | .ident "action" =>
    advanceTok
    let names ← parseNames
    let memberOf ← if (← peekTok) = .reserved "in" then do advanceTok; parseActionParents else pure []
    let applies ← if (← isIdentTok "appliesTo") then do advanceTok; pure (some (← parseAppliesTo)) else pure none
    if (← isIdentTok "attributes") then
      advanceTok; expectTok .lbrace; expectTok .rbrace
    expectTok .semi
    StateT.lift (addActions d names { anns := anns, parents := memberOf, appliesTo := applies })
  | .ident "type" =>
    advanceTok
    let name ← match ← peekTok with
      | .ident s => pure s
      | _ => throw "expected type name"
    if reservedTypeNames.contains name then throw "reserved type name"
    advanceTok
    expectTok .equals
    let t ← parseType
    expectTok .semi
    if d.commonTypes.any (·.1 = name) then throw "type declared twice"
    pure { d with commonTypes := d.commonTypes ++ [(name, { anns := anns, ty := t })] }
  | _ => throw "expected declaration (entity, action, or type)"

/-- `parseSchema` -/
partial def parseSchemaToks (s : Schema) : P Schema := do
  if (← peekTok) = .eof then pure s
  else
    let anns ← parseAnnotations
    if (← isIdentTok "namespace") then
      advanceTok
      let path ← parsePath
      if (path.splitOn "::").contains "__cedar" then throw "the name contains \"__cedar\", which is reserved"
      expectTok .lbrace
      let rec loop (d : Namespace) : P Namespace := do
        match ← peekTok with
        | .rbrace => pure d
        | .eof => throw "expected '}' to close namespace"
        | _ =>
          let inner ← parseAnnotations
          loop (← parseDecl inner d)
      let d ← loop { anns := anns }
      advanceTok
      if s.namespaces.any (·.1 = path) then throw "namespace declared twice"
      parseSchemaToks { s with namespaces := s.namespaces ++ [(path, d)] }
    else
      let d ← parseDecl anns s.bare
      parseSchemaToks { s with bare := d }

/-- `ParseSchema` -/
def parseSchema (src : String) : Except String Schema := do
  let toks ← lexAll src.toList
  let (s, _) ← (parseSchemaToks {}).run toks
  pure s

end CedarGo.Schema
