/-
  Cedar schema text LEXER and PARSER — transcription of x/exp/schema/internal/parser/{token,parser}.go at token
  level (positions and error texts are not modelled: a parse either yields an AST or fails).

  Total model (no `partial def`), so that theorems can be stated about it (CedarGoProofs/Properties/C17.lean):
  * Loops that only look at a fixed number of tokens per iteration (`{ '::' IDENT }`, `{ ',' IDENT }`, the enum value
    list) are structurally recursive on the token list.
  * Every other loop and the recursive descent into types carry FUEL: `none` = out of fuel, `some (.error _)` = the
    parser rejects, so fuel is never confused with rejection.  `C17_schema_parser_total` / `C17_schema_lexer_total`
    show that the fuel `parseSchema` runs with is never exhausted (Go has no fuel).
  * No `do`: steps are sequenced with `bindR` / explicit matches (Go's `if err != nil { return err }`).
  * The lexer: Go's `skipWhitespaceAndComments` loop is merged into the token loop `lexFuel` (one iteration = one
    white-space character, one comment, or one token); the Go lexer is lazy, but every token up to EOF is consumed by a
    successful parse, so lexing the whole text first changes neither acceptance nor the AST.
  Tied to the Go parser by the `schema-parse` and `schema-text-roundtrip` correspondence ops.
-/
import CedarGo.Model.Schema.Text
namespace CedarGo.Schema

inductive Tok where
  | eof
  | ident (s : String)
  | str (s : String)
  | reserved (s : String)
  | at | lbrace | rbrace | lbrack | rbrack | langle | rangle | lparen | rparen
  | comma | semi | colon | dcolon | question | equals
deriving DecidableEq, Repr

/-! ## lexer -/

/-- the body of a block comment after `/*`: the rest after the closing `*/`; `none` = unterminated -/
def skipBlock : List Char → Option (List Char)
  | [] => none
  | c :: r =>
    if c = '*' ∧ r.head? = some '/' then some (r.drop 1)
    else skipBlock r

/-- `scanString` after the opening quote: the raw body and the rest after the closing quote -/
def scanStr (acc : List Char) : List Char → Option (List Char × List Char)
  | [] => none
  | c :: cs =>
    if c = '"' then some (acc.reverse, cs)
    else if c = '\n' then none
    else if c = '\\' then
      match cs with
      | [] => none
      | e :: r => scanStr (e :: c :: acc) r
    else scanStr (c :: acc) cs

/-- the single-character tokens of `next` (all but `:`) -/
def punctTok (c : Char) : Option Tok :=
  if c = '@' then some .at else if c = '{' then some .lbrace else if c = '}' then some .rbrace
  else if c = '[' then some .lbrack else if c = ']' then some .rbrack
  else if c = '<' then some .langle else if c = '>' then some .rangle
  else if c = '(' then some .lparen else if c = ')' then some .rparen
  else if c = ',' then some .comma else if c = ';' then some .semi
  else if c = '?' then some .question else if c = '=' then some .equals
  else none

/-- identifier or reserved keyword (`cedarparser.IsReservedKeyword`) -/
def identTok (text : String) : Tok := if reservedKeywords.contains text then .reserved text else .ident text

abbrev LexR := Option (Except String (List Tok))

def consTok (t : Tok) : LexR → LexR
  | none => none
  | some (.error e) => some (.error e)
  | some (.ok ts) => some (.ok (t :: ts))

/-- the whole token stream, ending with `eof` -/
def lexFuel : Nat → List Char → LexR
  | 0, _ => none
  | _ + 1, [] => some (.ok [.eof])
  | n + 1, c :: cs =>
    if c = ' ' ∨ c = '\t' ∨ c = '\r' ∨ c = '\n' then lexFuel n cs
    else if c = '/' ∧ cs.head? = some '/' then lexFuel n ((cs.drop 1).dropWhile (· ≠ '\n'))
    else if c = '/' ∧ cs.head? = some '*' then
      match skipBlock (cs.drop 1) with
      | none => some (.error "unterminated block comment")
      | some r => lexFuel n r
    else if isIdentStart c then
      consTok (identTok (String.ofList (c :: cs.takeWhile isIdentContinue))) (lexFuel n (cs.dropWhile isIdentContinue))
    else if c = '"' then
      match scanStr [] cs with
      | none => some (.error "unterminated string literal")
      | some (raw, rest) =>
        match unquoteCedar raw with
        | none => some (.error "invalid string escape")
        | some s => consTok (.str (String.ofList s)) (lexFuel n rest)
    else if c = ':' then
      if cs.head? = some ':' then consTok .dcolon (lexFuel n (cs.drop 1)) else consTok .colon (lexFuel n cs)
    else match punctTok c with
      | some t => consTok t (lexFuel n cs)
      | none => some (.error "unexpected character")

/-- every iteration consumes at least one character -/
def lexAllF (src : List Char) : LexR := lexFuel (src.length + 1) src

def lexAll (src : List Char) : Except String (List Tok) :=
  match lexAllF src with
  | some r => r
  | none => .error "out of fuel"

/-! ## parser -/

/-- result of a parser step: `none` = out of fuel, else error or (value, remaining tokens) -/
abbrev PR (α : Type) := Option (Except String (α × List Tok))
/-- result of a step that needs no fuel -/
abbrev ER (α : Type) := Except String (α × List Tok)

def bindR {α β : Type} (a : PR α) (k : α → List Tok → PR β) : PR β :=
  match a with
  | none => none
  | some (.error e) => some (.error e)
  | some (.ok (v, ts)) => k v ts

def bindE {α β : Type} (a : ER α) (k : α → List Tok → PR β) : PR β :=
  match a with
  | .error e => some (.error e)
  | .ok (v, ts) => k v ts

/-- `p.tok` (past the end of the list the lexer keeps returning EOF) -/
def peekT : List Tok → Tok
  | [] => .eof
  | t :: _ => t

/-- the tokens after `p.readToken()` -/
def advT : List Tok → List Tok
  | [] => []
  | _ :: r => r

/-- `p.expect(tt)` -/
def expectT (t : Tok) (ts : List Tok) : ER Unit :=
  if peekT ts = t then .ok ((), advT ts) else .error "unexpected token"

/-- skip an optional token -/
def optT (t : Tok) (ts : List Tok) : List Tok := if peekT ts = t then advT ts else ts

def reservedTypeNames : List String := ["Bool", "Boolean", "Entity", "Extension", "Long", "Record", "Set", "String"]

/-- annotation key: identifier or any reserved keyword -/
def annKey : Tok → Option String
  | .ident s => some s
  | .reserved s => some s
  | _ => none

/-- the optional `( STR )` of an annotation -/
def annValue (ts : List Tok) : ER String :=
  if peekT ts = .lparen then
    match peekT (advT ts) with
    | .str v =>
      match expectT .rparen (advT (advT ts)) with
      | .ok (_, r) => .ok (v, r)
      | .error e => .error e
    | _ => .error "expected annotation value string"
  else .ok ("", ts)

/-- `parseAnnotations` -/
def parseAnnsF : Nat → Anns → List Tok → PR Anns
  | 0, _, _ => none
  | n + 1, acc, ts =>
    if peekT ts ≠ .at then some (.ok (acc, ts))
    else
      match annKey (peekT (advT ts)) with
      | none => some (.error "expected annotation name")
      | some key =>
        bindE (annValue (advT (advT ts))) fun value r =>
          if acc.any (·.1 = key) then some (.error "duplicate annotation")
          else parseAnnsF n (acc ++ [(key, value)]) r

/-- `parsePathRest`: { '::' IDENT } after the first component -/
def parsePathRest : String → List Tok → ER String
  | path, .dcolon :: .ident s :: rest => parsePathRest (path ++ "::" ++ s) rest
  | _, .dcolon :: _ => .error "expected identifier after '::'"
  | path, ts => .ok (path, ts)

/-- first component of a path: IDENT, or the reserved `__cedar` -/
def pathFirst : Tok → Option String
  | .ident s => some s
  | .reserved s => if s = "__cedar" then some s else none
  | _ => none

/-- `parsePath`: IDENT { '::' IDENT }, `__cedar` allowed as first component -/
def parsePath (ts : List Tok) : ER String :=
  match pathFirst (peekT ts) with
  | some first => parsePathRest first (advT ts)
  | none => .error "expected identifier"

/-- IDENT | STR | `__cedar` -/
def nameTok : Tok → Option String
  | .ident s => some s
  | .reserved s => if s = "__cedar" then some s else none
  | .str s => some s
  | _ => none

/-- `parseName` -/
def parseName (ts : List Tok) : ER String :=
  match nameTok (peekT ts) with
  | some s => .ok (s, advT ts)
  | none => .error "expected name"

/-- `rec[name] = …` on the attribute list kept in insertion order: a later attribute of the same name replaces the earlier one -/
def setAttr (as : List (String × Bool × Anns × Ty)) (n : String) (v : Bool × Anns × Ty) : List (String × Bool × Anns × Ty) :=
  if as.any (·.1 = n) then as.map (fun a => if a.1 = n then (n, v) else a) else as ++ [(n, v)]

mutual
/-- `parseType` -/
def parseTypeF : Nat → List Tok → PR Ty
  | 0, _ => none
  | n + 1, ts =>
    if peekT ts = .lbrace then
      bindR (recLoopF n [] (advT ts)) fun as r => some (.ok (.record (Attrs.ofList as), r))
    else if peekT ts = .ident "Set" then
      -- `Set` is no keyword: without '<' it is the first component of a path (an entity type or namespace called Set)
      if peekT (advT ts) ≠ .langle then
        bindE (parsePathRest "Set" (advT ts)) fun p r => some (.ok (.typeRef p, r))
      else
        bindR (parseTypeF n (advT (advT ts))) fun e r =>
          bindE (expectT .rangle r) fun _ r' => some (.ok (.set e, r'))
    else bindE (parsePath ts) fun p r => some (.ok (.typeRef p, r))
/-- the attribute loop of `parseRecordType` after the opening brace, up to and including the closing brace -/
def recLoopF : Nat → List (String × Bool × Anns × Ty) → List Tok → PR (List (String × Bool × Anns × Ty))
  | 0, _, _ => none
  | n + 1, acc, ts =>
    if peekT ts = .rbrace then some (.ok (acc, advT ts))
    else if peekT ts = .eof then some (.error "expected '}'")
    else
      bindR (parseAnnsF (n + 1) [] ts) fun anns r1 =>
      bindE (parseName r1) fun name r2 =>
      bindE (expectT .colon (optT .question r2)) fun _ r3 =>
      bindR (parseTypeF n r3) fun t r4 =>
      recLoopF n (setAttr acc name (decide (peekT r2 = .question), anns, t)) (optT .comma r4)
end

/-- `parseRecordType` -/
def parseRecordF (n : Nat) (ts : List Tok) : PR Attrs :=
  bindE (expectT .lbrace ts) fun _ r => bindR (recLoopF n [] r) fun as r' => some (.ok (Attrs.ofList as, r'))

/-- the loop `for p.tok.Type != tokenRBracket { item; ',' | ']' }` of `parseEntityTypes` / `parseActionParents`, up to and
    including the closing bracket -/
def bracketLoopF {α : Type} (item : List Tok → ER α) : Nat → List α → List Tok → PR (List α)
  | 0, _, _ => none
  | n + 1, acc, ts =>
    if peekT ts = .rbrack then some (.ok (acc, advT ts))
    else
      bindE (item ts) fun p r =>
        if peekT r = .comma then bracketLoopF item n (acc ++ [p]) (advT r)
        else if peekT r ≠ .rbrack then some (.error "expected ',' or ']'")
        else bracketLoopF item n (acc ++ [p]) r

/-- item | '[' [ item { ',' item } ] ']' -/
def bracketOrOneF {α : Type} (item : List Tok → ER α) (n : Nat) (ts : List Tok) : PR (List α) :=
  if peekT ts = .lbrack then bracketLoopF item n [] (advT ts)
  else bindE (item ts) fun p r => some (.ok ([p], r))

/-- `parseEntityTypes`: Path | '[' [ Path { ',' Path } ] ']' -/
def parseEntityTypesF (n : Nat) (ts : List Tok) : PR (List String) := bracketOrOneF parsePath n ts

/-- the loop of `parsePathForRef` after the first component -/
def qualMore : String → List Tok → ER (String × String)
  | path, .dcolon :: .str s :: rest => .ok ((path, s), rest)
  | path, .dcolon :: .ident s :: rest => qualMore (path ++ "::" ++ s) rest
  | _, .dcolon :: _ => .error "expected identifier or string after '::'"
  | path, ts => .ok (("", path), ts)

/-- `parseQualName`: Name | Path '::' STR -/
def parseQualName (ts : List Tok) : ER (String × String) :=
  match peekT ts with
  | .str s => .ok (("", s), advT ts)
  | t =>
    match pathFirst t with
    | some first => qualMore first (advT ts)
    | none => .error "expected identifier"

/-- `parseActionParents` -/
def parseActionParentsF (n : Nat) (ts : List Tok) : PR (List (String × String)) := bracketOrOneF parseQualName n ts

/-- the loop of `parseAppliesTo` (stops AT the closing brace) -/
def appliesLoopF : Nat → AppliesTo → Bool → Bool → Bool → List Tok → PR (AppliesTo × Bool × Bool)
  | 0, _, _, _, _, _ => none
  | n + 1, ap, hasP, hasR, hasC, ts =>
    if peekT ts = .rbrace then some (.ok ((ap, hasP, hasR), ts))
    else if peekT ts = .eof then some (.error "expected '}'")
    else if peekT ts = .ident "principal" then
      if hasP then some (.error "duplicate principal")
      else
        bindE (expectT .colon (advT ts)) fun _ r =>
        bindR (parseEntityTypesF n r) fun refs r' =>
          if refs.isEmpty then some (.error "principal types must not be empty")
          else appliesLoopF n { ap with principals := refs } true hasR hasC (optT .comma r')
    else if peekT ts = .ident "resource" then
      if hasR then some (.error "duplicate resource")
      else
        bindE (expectT .colon (advT ts)) fun _ r =>
        bindR (parseEntityTypesF n r) fun refs r' =>
          if refs.isEmpty then some (.error "resource types must not be empty")
          else appliesLoopF n { ap with resources := refs } hasP true hasC (optT .comma r')
    else if peekT ts = .ident "context" then
      if hasC then some (.error "duplicate context")
      else
        bindE (expectT .colon (advT ts)) fun _ r =>
        bindR (parseTypeF n r) fun t r' =>
          appliesLoopF n { ap with context := some t } hasP hasR true (optT .comma r')
    else some (.error "expected 'principal', 'resource', or 'context'")

/-- `parseAppliesTo` -/
def parseAppliesToF (n : Nat) (ts : List Tok) : PR AppliesTo :=
  bindE (expectT .lbrace ts) fun _ r =>
  bindR (appliesLoopF n {} false false false r) fun res r' =>
    if !res.2.1 then some (.error "appliesTo must include a principal declaration")
    else if !res.2.2 then some (.error "appliesTo must include a resource declaration")
    else some (.ok (res.1, advT r'))

/-- { ',' IDENT } -/
def identsMore : List String → List Tok → ER (List String)
  | acc, .comma :: .ident s :: rest => identsMore (acc ++ [s]) rest
  | _, .comma :: _ => .error "expected identifier after ','"
  | acc, ts => .ok (acc, ts)

/-- `parseIdents`: IDENT { ',' IDENT } -/
def parseIdents (ts : List Tok) : ER (List String) :=
  match peekT ts with
  | .ident s => identsMore [s] (advT ts)
  | _ => .error "expected identifier"

/-- { ',' Name } -/
def namesMore : List String → List Tok → ER (List String)
  | acc, .comma :: t :: rest =>
    match nameTok t with
    | some s => namesMore (acc ++ [s]) rest
    | none => .error "expected name"
  | _, [.comma] => .error "expected name"
  | acc, ts => .ok (acc, ts)

/-- `parseNames`: Name { ',' Name } -/
def parseNames (ts : List Tok) : ER (List String) :=
  match parseName ts with
  | .ok (first, r) => namesMore [first] r
  | .error e => .error e

/-- the value loop of `parseEnumEntity` after '[', up to and including ']' -/
def enumLoop : List String → List Tok → ER (List String)
  | acc, .rbrack :: rest => .ok (acc, rest)
  | acc, .str v :: .comma :: rest => enumLoop (acc ++ [v]) rest
  | acc, .str v :: .rbrack :: rest => .ok (acc ++ [v], rest)
  | _, .str _ :: _ => .error "expected ',' or ']' in enum"
  | _, _ => .error "expected string literal in enum"

def addEntities (d : Namespace) (names : List String) (e : Entity) : Except String Namespace :=
  names.foldlM (fun d n =>
    if d.entities.any (·.1 = n) ∨ d.enums.any (·.1 = n) then .error "entity declared twice"
    else .ok { d with entities := d.entities ++ [(n, e)] }) d

def addEnums (d : Namespace) (names : List String) (e : Enum) : Except String Namespace :=
  names.foldlM (fun d n =>
    if d.entities.any (·.1 = n) ∨ d.enums.any (·.1 = n) then .error "entity declared twice"
    else .ok { d with enums := d.enums ++ [(n, e)] }) d

def addActions (d : Namespace) (names : List String) (a : Action) : Except String Namespace :=
  names.foldlM (fun d n =>
    if d.actions.any (·.1 = n) then .error "action declared twice"
    else .ok { d with actions := d.actions ++ [(n, a)] }) d

def liftNs (x : Except String Namespace) (r : List Tok) : PR Namespace :=
  match x with
  | .ok d => some (.ok (d, r))
  | .error e => some (.error e)

/-- `parseEnumEntity` after the keyword `enum` -/
def parseEnumRest (anns : Anns) (names : List String) (d : Namespace) (ts : List Tok) : PR Namespace :=
  bindE (expectT .lbrack ts) fun _ r =>
  bindE (enumLoop [] r) fun values r' =>
    -- (Go checks the emptiness before consuming ']'; both orders reject)
    if values.isEmpty then some (.error "an enum entity type needs at least one value")
    else bindE (expectT .semi r') fun _ r'' => liftNs (addEnums d names { anns := anns, values := values }) r''

/-- the optional `in` clause of an entity declaration -/
def parseEntityIn (n : Nat) (ts : List Tok) : PR (List String) :=
  if peekT ts = .reserved "in" then parseEntityTypesF n (advT ts) else some (.ok ([], ts))

/-- the optional shape of an entity declaration, with optional '=' -/
def parseEntityShape (n : Nat) (ts : List Tok) : PR (Option Attrs) :=
  if peekT ts = .equals then bindR (parseRecordF n (advT ts)) fun as r => some (.ok (some as, r))
  else if peekT ts = .lbrace then bindR (parseRecordF n ts) fun as r => some (.ok (some as, r))
  else some (.ok (none, ts))

/-- the optional `tags` clause -/
def parseEntityTags (n : Nat) (ts : List Tok) : PR (Option Ty) :=
  if peekT ts = .ident "tags" then bindR (parseTypeF n (advT ts)) fun t r => some (.ok (some t, r))
  else some (.ok (none, ts))

/-- `parseEntity` after the keyword -/
def parseEntityF (n : Nat) (anns : Anns) (d : Namespace) (ts : List Tok) : PR Namespace :=
  bindE (parseIdents ts) fun names r =>
    if peekT r = .ident "enum" then parseEnumRest anns names d (advT r)
    else
      bindR (parseEntityIn n r) fun memberOf r1 =>
      bindR (parseEntityShape n r1) fun shape r2 =>
      bindR (parseEntityTags n r2) fun tags r3 =>
      bindE (expectT .semi r3) fun _ r4 =>
        liftNs (addEntities d names { anns := anns, parents := memberOf, shape := shape, tags := tags }) r4

def parseActionIn (n : Nat) (ts : List Tok) : PR (List (String × String)) :=
  if peekT ts = .reserved "in" then parseActionParentsF n (advT ts) else some (.ok ([], ts))

def parseActionApplies (n : Nat) (ts : List Tok) : PR (Option AppliesTo) :=
  if peekT ts = .ident "appliesTo" then bindR (parseAppliesToF n (advT ts)) fun ap r => some (.ok (some ap, r))
  else some (.ok (none, ts))

/-- the deprecated `attributes {}` -/
def parseActionAttributes (ts : List Tok) : ER Unit :=
  if peekT ts = .ident "attributes" then
    match expectT .lbrace (advT ts) with
    | .ok (_, r) => expectT .rbrace r
    | .error e => .error e
  else .ok ((), ts)

/-- `parseAction` after the keyword -/
def parseActionF (n : Nat) (anns : Anns) (d : Namespace) (ts : List Tok) : PR Namespace :=
  bindE (parseNames ts) fun names r =>
  bindR (parseActionIn n r) fun memberOf r1 =>
  bindR (parseActionApplies n r1) fun applies r2 =>
  bindE (parseActionAttributes r2) fun _ r3 =>
  bindE (expectT .semi r3) fun _ r4 =>
    liftNs (addActions d names { anns := anns, parents := memberOf, appliesTo := applies }) r4

/-- `parseTypeDecl` after the keyword -/
def parseTypeDeclF (n : Nat) (anns : Anns) (d : Namespace) (ts : List Tok) : PR Namespace :=
  match peekT ts with
  | .ident name =>
    if reservedTypeNames.contains name then some (.error "reserved type name")
    else
      bindE (expectT .equals (advT ts)) fun _ r =>
      bindR (parseTypeF n r) fun t r1 =>
      bindE (expectT .semi r1) fun _ r2 =>
        if d.commonTypes.any (·.1 = name) then some (.error "type declared twice")
        else some (.ok ({ d with commonTypes := d.commonTypes ++ [(name, { anns := anns, ty := t })] }, r2))
  | _ => some (.error "expected type name")

/-- `parseDecl` (entity / action / type) into the accumulated declarations of the current namespace -/
def parseDeclF (n : Nat) (anns : Anns) (d : Namespace) (ts : List Tok) : PR Namespace :=
  if peekT ts = .ident "entity" then parseEntityF n anns d (advT ts)
  else if peekT ts = .ident "action" then parseActionF n anns d (advT ts)
  else if peekT ts = .ident "type" then parseTypeDeclF n anns d (advT ts)
  else some (.error "expected declaration (entity, action, or type)")

/-- the declaration loop of `parseNamespace` after '{', up to and including '}' -/
def nsLoopF : Nat → Namespace → List Tok → PR Namespace
  | 0, _, _ => none
  | n + 1, d, ts =>
    if peekT ts = .rbrace then some (.ok (d, advT ts))
    else if peekT ts = .eof then some (.error "expected '}' to close namespace")
    else
      bindR (parseAnnsF (n + 1) [] ts) fun inner r =>
      bindR (parseDeclF n inner d r) fun d' r' => nsLoopF n d' r'

/-- `strings.Split(s, "::")` on characters: leftmost, non-overlapping separators (`cur` = the component being read, reversed) -/
def splitPathAux : List Char → List Char → List (List Char)
  | cur, [] => [cur.reverse]
  | cur, [c] => [(c :: cur).reverse]
  | cur, c :: d :: rest =>
    if c = ':' ∧ d = ':' then cur.reverse :: splitPathAux [] rest
    else splitPathAux (c :: cur) (d :: rest)

/-- `strings.Split(path, "::")` contains `__cedar` -/
def pathHasCedar (path : String) : Bool := (splitPathAux [] path.toList).contains "__cedar".toList

/-- `parseSchema` -/
def parseSchemaF : Nat → Schema → List Tok → PR Schema
  | 0, _, _ => none
  | n + 1, s, ts =>
    if peekT ts = .eof then some (.ok (s, ts))
    else
      bindR (parseAnnsF (n + 1) [] ts) fun anns r =>
        if peekT r = .ident "namespace" then
          bindE (parsePath (advT r)) fun path r1 =>
            if pathHasCedar path then some (.error "the name contains \"__cedar\", which is reserved")
            else
              bindE (expectT .lbrace r1) fun _ r2 =>
              bindR (nsLoopF n { anns := anns } r2) fun d r3 =>
                if s.namespaces.any (·.1 = path) then some (.error "namespace declared twice")
                else parseSchemaF n { s with namespaces := s.namespaces ++ [(path, d)] } r3
        else
          bindR (parseDeclF n anns s.bare r) fun d r' => parseSchemaF n { s with bare := d } r'

/-- the parser on a token list, with the fuel `ParseSchema` needs at most (every iteration and every nested call
    consumes a token) -/
def parseToks (toks : List Tok) : PR Schema := parseSchemaF (toks.length + 1) {} toks

/-- `ParseSchema` -/
def parseSchema (src : String) : Except String Schema :=
  match lexAll src.toList with
  | .error e => .error e
  | .ok toks =>
    match parseToks toks with
    | some (.ok (s, _)) => .ok s
    | some (.error e) => .error e
    | none => .error "out of fuel"

end CedarGo.Schema
