/-
  Cedar schema text PRINTER — transcription of x/exp/schema/internal/parser/marshal.go — plus the string
  quoting (`quoteCedar`, `isValidIdent`) and the unquoting the schema lexer applies to string tokens
  (`rust.Unquote(raw, false)`, internal/rust/rust.go).  Valid UTF-8 only (Lean `Char`s).
  Maps are printed in key order; the model's association lists are key-sorted by construction and are
  sorted again here where Go calls `slices.Sorted(maps.Keys(..))` on a top-level map.
-/
import CedarGo.Model.Schema.Ast
namespace CedarGo.Schema

/-! ## identifiers and quoting -/

def reservedKeywords : List String := ["true", "false", "if", "then", "else", "in", "like", "has", "is", "__cedar"]

def isIdentStart (c : Char) : Bool := ('a' ≤ c && c ≤ 'z') || ('A' ≤ c && c ≤ 'Z') || c == '_'
def isIdentContinue (c : Char) : Bool := isIdentStart c || ('0' ≤ c && c ≤ '9')

/-- `isValidIdent` -/
def isValidIdent (s : String) : Bool :=
  match s.toList with
  | [] => false
  | c :: cs => isIdentStart c && cs.all isIdentContinue && !reservedKeywords.contains s

def hexDigitLowerT (n : Nat) : Char := if n < 10 then Char.ofNat (48 + n) else Char.ofNat (87 + n)

/-- `%x`: lower-case hexadecimal without padding (fuel 8 digits covers every `Char`) -/
def hexDigitsAux : Nat → Nat → List Char → List Char
  | 0, _, acc => acc
  | fuel + 1, n, acc =>
    let acc' := hexDigitLowerT (n % 16) :: acc
    if n / 16 = 0 then acc' else hexDigitsAux fuel (n / 16) acc'

def hexDigitsOf (n : Nat) : List Char := hexDigitsAux 8 n []

/-- one rune of `quoteCedar` -/
def quoteChar (c : Char) : List Char :=
  if c = '"' then ['\\', '"']
  else if c = '\\' then ['\\', '\\']
  else if c = '\n' then ['\\', 'n']
  else if c = '\r' then ['\\', 'r']
  else if c = '\t' then ['\\', 't']
  else if c = '\x00' then ['\\', '0']
  else if 0x20 ≤ c.val ∧ c.val < 0x7f then [c]
  else ['\\', 'u', '{'] ++ hexDigitsOf c.val.toNat ++ ['}']

def quoteBody (s : List Char) : List Char := s.flatMap quoteChar

/-- `quoteCedar` -/
def quoteCedar (s : String) : String := String.ofList ('"' :: quoteBody s.toList ++ ['"'])

/-- `digitVal` restricted to `IsHexadecimal` -/
def hexVal (c : Char) : Option Nat :=
  if '0' ≤ c ∧ c ≤ '9' then some (c.val.toNat - 48)
  else if 'a' ≤ c ∧ c ≤ 'f' then some (c.val.toNat - 87)
  else if 'A' ≤ c ∧ c ≤ 'F' then some (c.val.toNat - 55)
  else none

/-- `parseUnicodeEscape` after the opening brace: hex digits up to `}`, 1..6 digits, a valid rune -/
def parseUnicodeDigits : Nat → Nat → List Char → Option (Char × List Char)
  | _, _, [] => none
  | digits, acc, c :: rest =>
    if c = '}' then
      if h : digits ≠ 0 ∧ digits ≤ 6 ∧ acc.isValidChar then some (Char.ofNatAux acc h.2.2, rest) else none
    else match hexVal c with
      | some d => parseUnicodeDigits (digits + 1) (16 * acc + d) rest
      | none => none

/-- one step of `rust.Unquote(b, false)`: the next decoded rune and the remaining input -/
def unquoteStep : List Char → Option (Char × List Char)
  | [] => none
  | c :: rest =>
    -- (a validly encoded U+FFFD is an ordinary character: `nextRune` only rejects `utf8.RuneError` of width ≤ 1)
    if c ≠ '\\' then some (c, rest)
    else match rest with
      | [] => none
      | e :: r =>
        if e = 'n' then some ('\n', r)
        else if e = 'r' then some ('\r', r)
        else if e = 't' then some ('\t', r)
        else if e = '\\' then some ('\\', r)
        else if e = '0' then some ('\x00', r)
        else if e = '\'' then some ('\'', r)
        else if e = '"' then some ('"', r)
        else if e = 'x' then
          match r with
          | h1 :: h2 :: r' =>
            match hexVal h1, hexVal h2 with
            | some a, some b => if h : 16 * a + b ≤ 127 then some (Char.ofNatAux (16 * a + b) (by
                  have : (16 * a + b) < 0xd800 := by omega
                  exact Or.inl this), r') else none
            | _, _ => none
          | _ => none
        else if e = 'u' then
          match r with
          | '{' :: r' => parseUnicodeDigits 0 0 r'
          | _ => none
        else none

/-- `rust.Unquote(b, false)`; every step consumes at least one rune, so fuel = input length suffices -/
def unquoteFuel : Nat → List Char → Option (List Char)
  | _, [] => some []
  | 0, _ :: _ => none
  | fuel + 1, s =>
    match unquoteStep s with
    | none => none
    | some (c, rest) => (unquoteFuel fuel rest).map (c :: ·)

def unquoteCedar (body : List Char) : Option (List Char) := unquoteFuel body.length body

/-! ## the printer -/

def tabs (n : Nat) : String := String.ofList (List.replicate n '\t')

def insertKV {α} (x : String × α) : List (String × α) → List (String × α)
  | [] => [x]
  | y :: ys => if x.1 ≤ y.1 then x :: y :: ys else y :: insertKV x ys

/-- `slices.Sorted(maps.Keys(m))` -/
def sortedKV {α} (xs : List (String × α)) : List (String × α) := xs.foldr insertKV []

/-- `marshalAnnotations` -/
def printAnns (indent : Nat) (a : Anns) : String :=
  String.join ((sortedKV a).map fun kv =>
    tabs indent ++ (if kv.2 = "" then "@" ++ kv.1 ++ "\n" else "@" ++ kv.1 ++ "(" ++ quoteCedar kv.2 ++ ")\n"))

/-- `marshalActionName` / `marshalAttrName` -/
def printName (s : String) : String := if isValidIdent s then s else quoteCedar s

/-- the names a namespace declares as entity type, enum or common type (`scope.declares`) -/
def declNames (d : Namespace) : List String :=
  d.entities.map (·.1) ++ d.enums.map (·.1) ++ d.commonTypes.map (·.1)

/-- `marshalBuiltin`: a built-in type is written with the reserved `__cedar` namespace when the current or the empty
    namespace declares a type of that name (`sh` = the names declared there), since such a declaration is found first
    when the bare name is resolved -/
def builtinName (sh : List String) (n : String) : String := if sh.contains n then "__cedar::" ++ n else n

mutual
/-- `marshalType` -/
def printTy (sh : List String) (indent : Nat) : Ty → String
  | .string => builtinName sh "String"
  | .long => builtinName sh "Long"
  | .bool => builtinName sh "Bool"
  | .ext n => builtinName sh n
  | .set e => "Set<" ++ printTy sh indent e ++ ">"
  | .record as =>
    (match as with
     | .nil => "{}"
     | _ => "{\n" ++ printAttrs sh (indent + 1) as ++ tabs indent ++ "}")
  | .entityRef n => n
  | .typeRef n => n
/-- the attribute lines (the loop body of `marshalRecordType`, at the inner indentation) -/
def printAttrs (sh : List String) (indent : Nat) : Attrs → String
  | .nil => ""
  | .cons n o a t rest =>
    printAnns indent a ++ tabs indent ++ printName n ++ (if o then "?" else "") ++ ": " ++ printTy sh indent t ++
    (match rest with | .nil => "" | _ => ",") ++ "\n" ++ printAttrs sh indent rest
end

/-- `marshalRecordType` -/
def printRecord (sh : List String) (indent : Nat) (as : Attrs) : String := printTy sh indent (.record as)

/-- `marshalEntityTypeRefs` -/
def printTypeRefs (refs : List String) : String :=
  match refs with
  | [r] => r
  | _ => "[" ++ ", ".intercalate refs ++ "]"

/-- `marshalParentRef` -/
def printParentRef (p : String × String) : String :=
  if p.1 = "" then printName p.2 else p.1 ++ "::" ++ quoteCedar p.2

def printParentRefs (refs : List (String × String)) : String :=
  match refs with
  | [r] => printParentRef r
  | _ => "[" ++ ", ".intercalate (refs.map printParentRef) ++ "]"

/-- `marshalAppliesTo` (nil and empty principal/resource lists are identified: both are omitted) -/
def printAppliesTo (sh : List String) (indent : Nat) (ap : AppliesTo) : String :=
  let parts : List String :=
    (if ap.principals.isEmpty then [] else [tabs (indent + 1) ++ "principal: " ++ printTypeRefs ap.principals]) ++
    (if ap.resources.isEmpty then [] else [tabs (indent + 1) ++ "resource: " ++ printTypeRefs ap.resources]) ++
    (match ap.context with | some t => [tabs (indent + 1) ++ "context: " ++ printTy sh (indent + 1) t] | none => [])
  " appliesTo {\n" ++ ",\n".intercalate parts ++ (if parts.isEmpty then "" else "\n") ++ tabs indent ++ "}"

/-- the declarations of `marshalDecls`, one string each, in Go's order: types, entities, enums, actions (each key-sorted);
    `sh` = the names declared by the empty namespace and by `d` (`m.bare`, `m.ns`) -/
def printDecls (sh : List String) (indent : Nat) (d : Namespace) : List String :=
  (sortedKV d.commonTypes).map (fun c =>
    printAnns indent c.2.anns ++ tabs indent ++ "type " ++ c.1 ++ " = " ++ printTy sh indent c.2.ty ++ ";\n") ++
  (sortedKV d.entities).map (fun e =>
    printAnns indent e.2.anns ++ tabs indent ++ "entity " ++ e.1 ++
    (if e.2.parents.isEmpty then "" else " in " ++ printTypeRefs e.2.parents) ++
    (match e.2.shape with | some as => " " ++ printRecord sh indent as | none => "") ++
    (match e.2.tags with | some t => " tags " ++ printTy sh indent t | none => "") ++ ";\n") ++
  (sortedKV d.enums).map (fun e =>
    printAnns indent e.2.anns ++ tabs indent ++ "entity " ++ e.1 ++ " enum [" ++ ", ".intercalate (e.2.values.map quoteCedar) ++ "];\n") ++
  (sortedKV d.actions).map (fun a =>
    printAnns indent a.2.anns ++ tabs indent ++ "action " ++ printName a.1 ++
    (if a.2.parents.isEmpty then "" else " in " ++ printParentRefs a.2.parents) ++
    (match a.2.appliesTo with | some ap => printAppliesTo sh indent ap | none => "") ++ ";\n")

/-- `MarshalSchema`: declarations are separated by one empty line -/
def printSchema (s : Schema) : String :=
  let bare := printDecls (declNames s.bare) 0 s.bare
  let nss := (sortedKV s.namespaces).map fun nd =>
    printAnns 0 nd.2.anns ++ "namespace " ++ nd.1 ++ " {\n" ++ "\n".intercalate (printDecls (declNames nd.2 ++ declNames s.bare) 1 nd.2) ++ "}\n"
  "\n".intercalate (bare ++ nss)

end CedarGo.Schema
