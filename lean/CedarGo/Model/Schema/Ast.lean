/-
  Schema AST — transcription of x/exp/schema/ast/{ast,types}.go.
  Go maps are association lists (the driver and the encoders keep them key-sorted with unique keys);
  `IsType` is a mutual inductive with an explicit attribute list so that structural recursion and
  induction need no nested-inductive machinery.
-/
namespace CedarGo.Schema

/-- `ast.Annotations` (key ↦ value; a missing value is the empty string) -/
abbrev Anns := List (String × String)

mutual
/-- `ast.IsType` -/
inductive Ty where
  | string | long | bool
  | ext (name : String)
  | set (elem : Ty)
  | record (attrs : Attrs)
  | entityRef (name : String)     -- ast.EntityTypeRef
  | typeRef (name : String)       -- ast.TypeRef (entity type or common type, not yet resolved)
  deriving DecidableEq
/-- `ast.RecordType`: attribute name ↦ (type, optional, annotations) -/
inductive Attrs where
  | nil
  | cons (name : String) (optional : Bool) (anns : Anns) (ty : Ty) (rest : Attrs)
  deriving DecidableEq
end

def Attrs.toList : Attrs → List (String × Bool × Anns × Ty)
  | .nil => []
  | .cons n o a t r => (n, o, a, t) :: r.toList

def Attrs.ofList : List (String × Bool × Anns × Ty) → Attrs
  | [] => .nil
  | (n, o, a, t) :: r => .cons n o a t (Attrs.ofList r)

structure Entity where
  anns : Anns := []
  parents : List String := []       -- ParentTypes (EntityTypeRef), in declaration order
  shape : Option Attrs := none      -- nil vs (possibly empty) record
  tags : Option Ty := none
deriving DecidableEq, Inhabited

structure Enum where
  anns : Anns := []
  values : List String := []
deriving DecidableEq, Inhabited

structure AppliesTo where
  principals : List String := []
  resources : List String := []
  context : Option Ty := none
deriving DecidableEq, Inhabited

structure Action where
  anns : Anns := []
  parents : List (String × String) := []   -- ParentRef (type, id); type "" = action of the same namespace
  appliesTo : Option AppliesTo := none
deriving DecidableEq, Inhabited

structure CommonType where
  anns : Anns := []
  ty : Ty
deriving DecidableEq

structure Namespace where
  anns : Anns := []
  entities : List (String × Entity) := []
  enums : List (String × Enum) := []
  actions : List (String × Action) := []
  commonTypes : List (String × CommonType) := []
deriving DecidableEq, Inhabited

/-- `ast.Schema`: declarations of the empty namespace + named namespaces -/
structure Schema where
  bare : Namespace := {}
  namespaces : List (String × Namespace) := []
deriving DecidableEq, Inhabited

end CedarGo.Schema
