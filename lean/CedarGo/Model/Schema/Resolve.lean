/-
  Schema resolution — transcription of x/exp/schema/resolved/resolve.go — and the validator's three
  hierarchy walks (x/exp/schema/validate/{cedar_type,policy}.go).

  * Go maps are association lists; iteration order only selects WHICH error is reported, never whether
    one is, so the model walks lists in order and compares accept/reject + the resolved schema.
  * Go recursion that is not structural carries fuel: `resolveType` (the jump into the body of a common
    type), the DFS of `validateActionMembership`, `isEntityDescendant`, `isActionDescendant`, and the
    `for changed` loop of `getEntityTypesIn`.  `none` = out of fuel.  CedarGoProofs/Properties/C16.lean
    proves that none of them runs out (`isEntityDescendant` since it threads a visited set; `resolveType` since the
    Kahn pass and the resolver read the declaring namespace of a common type from the same table).
-/
import CedarGo.Model.Schema.Ast
namespace CedarGo.Schema

/-! ## names -/

/-- prefix before the LAST occurrence of "::" (`strings.LastIndex(s, "::")`), `none` if there is none -/
def lastSepPrefix : List Char → Option (List Char)
  | [] => none
  | c :: cs =>
    match lastSepPrefix cs with
    | some p => some (c :: p)
    | none => if c = ':' ∧ cs.head? = some ':' then some [] else none

/-- `strings.Contains(s, "::")` -/
def hasSep (s : String) : Bool := (lastSepPrefix s.toList).isSome

/-- `extractNamespace` as it existed before the repair of `resolve-common-type-cycle-undetected` (the resolver derived
    the declaring namespace of a common type from its qualified name; it is now recorded at registration, `RState.nsOf`).
    Kept for the regression example in Properties/C16.lean. -/
def extractNamespace (s : String) : String :=
  match lastSepPrefix s.toList with
  | some p => String.ofList p
  | none => ""

/-- `qualifyEntityType` / `qualifyPath` -/
def qualify (ns name : String) : String := if ns = "" then name else ns ++ "::" ++ name

/-- `qualifyActionType` -/
def actionType (ns : String) : String := if ns = "" then "Action" else ns ++ "::Action"

def dropPrefix : List Char → List Char → Option (List Char)
  | [], s => some s
  | _ :: _, [] => none
  | p :: ps, c :: cs => if p = c then dropPrefix ps cs else none

/-- `strings.HasPrefix(ref, "__cedar::")` and the remainder -/
def cedarSuffix (ref : String) : Option String :=
  (dropPrefix "__cedar::".toList ref.toList).map String.ofList

/-! ## resolved schema -/

mutual
inductive RTy where
  | string | long | bool
  | ext (name : String)
  | set (elem : RTy)
  | record (attrs : RAttrs)
  | entity (name : String)
  deriving DecidableEq
inductive RAttrs where
  | nil
  | cons (name : String) (optional : Bool) (anns : Anns) (ty : RTy) (rest : RAttrs)
  deriving DecidableEq
end

def RAttrs.toList : RAttrs → List (String × Bool × Anns × RTy)
  | .nil => []
  | .cons n o a t r => (n, o, a, t) :: r.toList

abbrev UID := String × String

structure REntity where
  name : String
  anns : Anns
  parents : List String
  shape : RAttrs
  tags : Option RTy
deriving DecidableEq

structure REnum where
  name : String
  anns : Anns
  values : List UID
deriving DecidableEq

structure RAppliesTo where
  principals : List String
  resources : List String
  context : RAttrs
deriving DecidableEq

structure RAction where
  uid : UID
  parents : List UID       -- a set in Go (`types.NewEntityUIDSet`): duplicate-free, order immaterial
  anns : Anns
  appliesTo : Option RAppliesTo
deriving DecidableEq

structure RSchema where
  namespaces : List (String × Anns) := []
  entities : List (String × REntity) := []
  enums : List (String × REnum) := []
  actions : List (UID × RAction) := []
deriving DecidableEq

inductive RErr where
  | declaredTwice | shadow | cycle | undefinedType | undefinedEntity | undefinedBuiltin | unknownExtension
  | contextNotRecord | undefinedParent | actionCycle
deriving DecidableEq, Repr

/-- result of a fuelled computation: `none` = out of fuel (the Go code would still be running) -/
abbrev Fuelled (α : Type) := Option (Except RErr α)

/-! ## phase 1: registration;  phase 2: shadowing (RFC 70) -/

structure RState where
  entityTypes : List String := []
  enumTypes : List String := []
  commonTypes : List (String × Ty) := []
  commonNS : List (String × String) := []    -- `commonTypeNS`: qualified name ↦ namespace the common type was declared in

def RState.isEntity (r : RState) (n : String) : Bool := r.entityTypes.contains n || r.enumTypes.contains n
def RState.common? (r : RState) (p : String) : Option Ty := r.commonTypes.lookup p
/-- `r.commonTypeNS[p]` (a missing key reads as `""`) -/
def RState.nsOf (r : RState) (p : String) : String := (r.commonNS.lookup p).getD ""

def registerDecls (r : RState) (ns : String) (d : Namespace) : Except RErr RState :=
  if d.entities.any (fun e => d.enums.any (fun en => en.1 == e.1)) then .error .declaredTwice
  else .ok {
    entityTypes := r.entityTypes ++ d.entities.map (fun e => qualify ns e.1)
    enumTypes := r.enumTypes ++ d.enums.map (fun e => qualify ns e.1)
    commonTypes := r.commonTypes ++ d.commonTypes.map (fun c => (qualify ns c.1, c.2.ty))
    commonNS := r.commonNS ++ d.commonTypes.map (fun c => (qualify ns c.1, ns)) }

def registerAll (s : Schema) : Except RErr RState := do
  let r ← registerDecls {} "" s.bare
  s.namespaces.foldlM (fun r (n, d) => registerDecls r n d) r

def checkShadowing (s : Schema) : Except RErr Unit :=
  let bareTypes := s.bare.entities.map (·.1) ++ s.bare.enums.map (·.1) ++ s.bare.commonTypes.map (·.1)
  let bareActions := s.bare.actions.map (·.1)
  let clash (d : Namespace) : Bool :=
    d.entities.any (fun e => bareTypes.contains e.1) || d.enums.any (fun e => bareTypes.contains e.1) ||
    d.commonTypes.any (fun e => bareTypes.contains e.1)
  if s.namespaces.any (fun nd => clash nd.2) then .error .shadow
  else if s.namespaces.any (fun nd => nd.2.actions.any (fun a => bareActions.contains a.1)) then .error .shadow
  else .ok ()

/-! ## phase 3: cycle detection among common types (Kahn) -/

mutual
/-- `collectTypeRefs` -/
def collectTypeRefs : Ty → List String
  | .typeRef n => [n]
  | .set e => collectTypeRefs e
  | .record as => collectAttrRefs as
  | _ => []
def collectAttrRefs : Attrs → List String
  | .nil => []
  | .cons _ _ _ t r => collectTypeRefs t ++ collectAttrRefs r
end

/-- `resolveTypeRefPath` -/
def resolveTypeRefPath (r : RState) (ns ref : String) : String :=
  if hasSep ref then ref
  else if ns ≠ "" ∧ (r.common? (ns ++ "::" ++ ref)).isSome then ns ++ "::" ++ ref
  else ref

/-- the dependency list `deps[name]` built by `detectCommonTypeCycles` (duplicates kept, as in Go) -/
def depsOf (r : RState) (name : String) (body : Ty) : List String :=
  (collectTypeRefs body).filterMap fun ref =>
    let p := resolveTypeRefPath r (r.nsOf name) ref
    if (r.common? p).isSome then some p else none

/-- keys of a Go map: every name once (first occurrence kept) -/
def dedupStr : List String → List String
  | [] => []
  | x :: xs => x :: (dedupStr xs).filter (fun y => y ≠ x)

/-- the keys of `r.commonTypes` (the nodes of the dependency graph) -/
def RState.nodes (r : RState) : List String := dedupStr (r.commonTypes.map (·.1))

/-- `deps` as a function of the node (first declaration of a name wins, as `lookup` does) -/
def RState.deps (r : RState) (name : String) : List String :=
  match r.common? name with
  | some body => depsOf r name body
  | none => []

def upd (f : String → Int) (k : String) (v : Int) : String → Int := fun x => if x = k then v else f x

/-- `for _, neighbor := range deps[node] { inDegree[neighbor]--; if inDegree[neighbor] == 0 { queue = append(queue, neighbor) } }` -/
def relax : List String → (String → Int) → List String → (String → Int) × List String
  | [], ind, q => (ind, q)
  | n :: ns, ind, q =>
    let ind' := upd ind n (ind n - 1)
    if ind' n = 0 then relax ns ind' (q ++ [n]) else relax ns ind' q

/-- the `for len(queue) > 0` loop; returns the nodes in the order they were dequeued (`visited` = its length) and the final in-degrees -/
def kahnLoop (deps : String → List String) : Nat → (String → Int) → List String → List String → List String × (String → Int)
  | 0, ind, _, popped => (popped, ind)
  | _ + 1, ind, [], popped => (popped, ind)
  | fuel + 1, ind, node :: queue, popped =>
    let (ind', queue') := relax (deps node) ind queue
    kahnLoop deps fuel ind' queue' (popped ++ [node])

/-- in-degrees: `for _, neighbors := range deps { for _, n := range neighbors { inDegree[n]++ } }` -/
def initInDegree (deps : String → List String) (nodes : List String) : String → Int :=
  fun v => ((nodes.map fun u => (deps u).count v).sum : Nat)

def kahnRun (r : RState) : List String × (String → Int) :=
  let nodes := r.nodes
  let ind := initInDegree r.deps nodes
  kahnLoop r.deps (nodes.length + 1) ind (nodes.filter fun v => ind v = 0) []

/-- `detectCommonTypeCycles`: error iff fewer nodes were dequeued than exist AND some in-degree is still positive -/
def detectCycles (r : RState) : Except RErr Unit :=
  let (popped, ind) := kahnRun r
  if popped.length ≠ r.nodes.length ∧ r.nodes.any (fun v => ind v > 0) then .error .cycle else .ok ()

/-! ## phase 4: resolution -/

def lookupBuiltin (p : String) : Option RTy :=
  if p = "String" then some .string
  else if p = "Long" then some .long
  else if p = "Bool" ∨ p = "Boolean" then some .bool
  else if p = "ipaddr" ∨ p = "decimal" ∨ p = "datetime" ∨ p = "duration" then some (.ext p)
  else none

/-- `resolveEntityTypeRef` -/
def resolveEntityTypeRef (r : RState) (ns ref : String) : Except RErr String :=
  if hasSep ref then
    if r.isEntity ref then .ok ref else .error .undefinedEntity
  else if ns ≠ "" ∧ r.isEntity (ns ++ "::" ++ ref) then .ok (ns ++ "::" ++ ref)
  else if r.isEntity ref then .ok ref
  else .error .undefinedEntity

/-- what a `TypeRef` denotes (`resolveTypeRef` / `resolveQualifiedTypeRef` up to the recursive call) -/
inductive RefTarget where
  | common (ns : String) (body : Ty)     -- recurse into `body`, resolving its names in `ns` (= the recorded declaring namespace)
  | entity (name : String)
  | builtin (t : RTy)
  | undefined (e : RErr)
deriving DecidableEq

def lookupTypeRef (r : RState) (ns ref : String) : RefTarget :=
  if hasSep ref then
    match cedarSuffix ref with
    | some b => match lookupBuiltin b with
      | some t => .builtin t
      | none => .undefined .undefinedBuiltin
    | none =>
      match r.common? ref with
      | some ct => .common (r.nsOf ref) ct
      | none => if r.isEntity ref then .entity ref else .undefined .undefinedType
  else
    match (if ns ≠ "" then r.common? (ns ++ "::" ++ ref) else none) with
    | some ct => .common (r.nsOf (ns ++ "::" ++ ref)) ct
    | none =>
      if ns ≠ "" ∧ r.isEntity (ns ++ "::" ++ ref) then .entity (ns ++ "::" ++ ref)
      else match r.common? ref with
        | some ct => .common (r.nsOf ref) ct
        | none =>
          if r.isEntity ref then .entity ref
          else match lookupBuiltin ref with
            | some t => .builtin t
            | none => .undefined .undefinedType

mutual
/-- `resolveType` with the jump into a common type's body delegated to `k` (which has less fuel) -/
def resolveTyWith (r : RState) (k : String → Ty → Fuelled RTy) (ns : String) : Ty → Fuelled RTy
  | .string => some (.ok .string)
  | .long => some (.ok .long)
  | .bool => some (.ok .bool)
  | .ext n =>
    -- only the extension types `lookupBuiltin` knows exist (`{"type":"Extension","name":"nope"}` is an error)
    if lookupBuiltin n = some (.ext n) then some (.ok (.ext n)) else some (.error .unknownExtension)
  | .set e =>
    match resolveTyWith r k ns e with
    | none => none
    | some (.error x) => some (.error x)
    | some (.ok t) => some (.ok (.set t))
  | .record as =>
    match resolveAttrsWith r k ns as with
    | none => none
    | some (.error x) => some (.error x)
    | some (.ok ras) => some (.ok (.record ras))
  | .entityRef n =>
    match resolveEntityTypeRef r ns n with
    | .ok et => some (.ok (.entity et))
    | .error x => some (.error x)
  | .typeRef n =>
    match lookupTypeRef r ns n with
    | .common ns' body => k ns' body
    | .entity et => some (.ok (.entity et))
    | .builtin t => some (.ok t)
    | .undefined x => some (.error x)
/-- `resolveRecordType` -/
def resolveAttrsWith (r : RState) (k : String → Ty → Fuelled RTy) (ns : String) : Attrs → Fuelled RAttrs
  | .nil => some (.ok .nil)
  | .cons n o a t rest =>
    match resolveTyWith r k ns t with
    | none => none
    | some (.error x) => some (.error x)
    | some (.ok rt) =>
      match resolveAttrsWith r k ns rest with
      | none => none
      | some (.error x) => some (.error x)
      | some (.ok rr) => some (.ok (.cons n o a rt rr))
end

/-- `resolveType`; fuel = how many nested common-type bodies may still be entered -/
def resolveTypeFuel (r : RState) : Nat → String → Ty → Fuelled RTy
  | 0 => fun _ _ => none
  | fuel + 1 => resolveTyWith r (resolveTypeFuel r fuel)

def resolveAttrsFuel (r : RState) (fuel : Nat) (ns : String) (as : Attrs) : Fuelled RAttrs :=
  match fuel with
  | 0 => none
  | fuel + 1 => resolveAttrsWith r (resolveTypeFuel r fuel) ns as

/-- the fuel `Resolve` runs with: one more than the number of common types -/
def RState.fuel (r : RState) : Nat := r.commonTypes.length + 1

def fbind {α β} (x : Fuelled α) (f : α → Fuelled β) : Fuelled β :=
  match x with
  | none => none
  | some (.error e) => some (.error e)
  | some (.ok a) => f a

def flift {α} (x : Except RErr α) : Fuelled α := some x

def fmapM {α β} (f : α → Fuelled β) : List α → Fuelled (List β)
  | [] => some (.ok [])
  | a :: as => fbind (f a) fun b => fbind (fmapM f as) fun bs => some (.ok (b :: bs))

def resolveEntity (r : RState) (ns : String) (name : String) (e : Entity) : Fuelled REntity :=
  fbind (fmapM (fun p => flift (resolveEntityTypeRef r ns p)) e.parents) fun ps =>
  fbind (match e.shape with
         | some as => resolveAttrsFuel r r.fuel ns as
         | none => some (.ok .nil)) fun shape =>
  fbind (match e.tags with
         | some t => fbind (resolveTypeFuel r r.fuel ns t) fun rt => some (.ok (some rt))
         | none => some (.ok none)) fun tags =>
  some (.ok { name := qualify ns name, anns := e.anns, parents := ps, shape := shape, tags := tags })

def resolveEnum (ns name : String) (e : Enum) : REnum :=
  { name := qualify ns name, anns := e.anns, values := e.values.map fun v => (qualify ns name, v) }

/-- `resolveActionParentRef` -/
def resolveActionParentRef (ns : String) (ref : String × String) : UID :=
  if ref.1 = "" then (actionType ns, ref.2) else (ref.1, ref.2)

def dedupUIDs : List UID → List UID
  | [] => []
  | u :: us => let rest := dedupUIDs us; if rest.contains u then rest else u :: rest

def resolveAction (r : RState) (ns : String) (name : String) (a : Action) : Fuelled RAction :=
  let uid : UID := (actionType ns, name)
  let parents := dedupUIDs (a.parents.map (resolveActionParentRef ns))
  fbind (match a.appliesTo with
         | none => some (.ok none)
         | some apl =>
           fbind (fmapM (fun p => flift (resolveEntityTypeRef r ns p)) apl.principals) fun ps =>
           fbind (fmapM (fun p => flift (resolveEntityTypeRef r ns p)) apl.resources) fun rs =>
           fbind (match apl.context with
                  | none => some (.ok .nil)
                  | some t => fbind (resolveTypeFuel r r.fuel ns t) fun rt =>
                      match rt with
                      | .record ras => some (.ok ras)
                      | _ => some (.error .contextNotRecord)) fun ctx =>
           some (.ok (some { principals := ps, resources := rs, context := ctx }))) fun applies =>
  some (.ok { uid := uid, parents := parents, anns := a.anns, appliesTo := applies })

def resolveNamespace (r : RState) (ns : String) (d : Namespace) (acc : RSchema) : Fuelled RSchema :=
  fbind (fmapM (fun e => fbind (resolveEntity r ns e.1 e.2) fun re => some (.ok (qualify ns e.1, re))) d.entities) fun ents =>
  let enums := d.enums.map fun e => (qualify ns e.1, resolveEnum ns e.1 e.2)
  fbind (fmapM (fun a => fbind (resolveAction r ns a.1 a.2) fun ra => some (.ok (ra.uid, ra))) d.actions) fun acts =>
  some (.ok { acc with entities := acc.entities ++ ents, enums := acc.enums ++ enums, actions := acc.actions ++ acts })

def resolveNamespaces (r : RState) : List (String × Namespace) → RSchema → Fuelled RSchema
  | [], acc => some (.ok acc)
  | (n, d) :: rest, acc =>
    fbind (resolveNamespace r n d { acc with namespaces := acc.namespaces ++ [(n, d.anns)] }) fun acc' =>
    resolveNamespaces r rest acc'

/-! ## phase 5: action membership -/

def RSchema.actionParents (rs : RSchema) (u : UID) : List UID :=
  match rs.actions.lookup u with
  | some a => a.parents
  | none => []

/-- the `for parent := range …Parents.All()` loop of the DFS, threading the `done` list -/
def visitListWith (k : UID → List UID → Fuelled (List UID)) : List UID → List UID → Fuelled (List UID)
  | [], done => some (.ok done)
  | p :: ps, done =>
    match k p done with
    | some (.ok d) => visitListWith k ps d
    | other => other

/-- `visit` of `validateActionMembership`: `path` = nodes in state 1 (visiting), `done` = nodes in state 2 -/
def visitFuel (rs : RSchema) : Nat → List UID → UID → List UID → Fuelled (List UID)
  | 0, _, _, _ => none
  | fuel + 1, path, u, done =>
    if path.contains u then some (.error .actionCycle)
    else if done.contains u then some (.ok done)
    else
      match visitListWith (fun p d => visitFuel rs fuel (u :: path) p d) (rs.actionParents u) done with
      | some (.ok d) => some (.ok (u :: d))
      | other => other

/-- `for uid := range result.Actions { visit(uid) }`; returns the final `done` list -/
def checkActionCycles (rs : RSchema) : Fuelled (List UID) :=
  visitListWith (fun u d => visitFuel rs (rs.actions.length + 1) [] u d) (rs.actions.map (·.1)) []

def validateActionMembership (rs : RSchema) : Fuelled Unit :=
  let uids := rs.actions.map (·.1)
  if rs.actions.any (fun a => a.2.parents.any (fun p => !uids.contains p)) then some (.error .undefinedParent)
  else fbind (checkActionCycles rs) fun _ => some (.ok ())

/-- `resolved.Resolve` -/
def resolve (s : Schema) : Fuelled RSchema :=
  fbind (flift (registerAll s)) fun r =>
  fbind (flift (checkShadowing s)) fun _ =>
  fbind (flift (detectCycles r)) fun _ =>
  fbind (resolveNamespace r "" s.bare {}) fun acc =>
  fbind (resolveNamespaces r s.namespaces acc) fun rs =>
  fbind (validateActionMembership rs) fun _ =>
  some (.ok rs)

/-! ## the validator's hierarchy walks -/

def RSchema.entityParents (rs : RSchema) (t : String) : List String :=
  match rs.entities.lookup t with
  | some e => e.parents
  | none => []

/-- `for _, parent := range parents { if parent == anc { return true }; if rec(parent) { return true } }; return false` -/
def descListWith {α} [DecidableEq α] (k : α → Option Bool) (anc : α) : List α → Option Bool
  | [] => some false
  | p :: ps =>
    if p = anc then some true
    else match k p with
      | none => none
      | some true => some true
      | some false => descListWith k anc ps

/-- the recursion of `isActionDescendant` (and, before the repair of `entity-descendant-unbounded-recursion`, of
    `isEntityDescendant`): plain depth-first descent over the successor lists, NO visited set; `none` = out of fuel -/
def descFuel {α} [DecidableEq α] (succ : α → List α) : Nat → α → α → Option Bool
  | 0, _, _ => none
  | fuel + 1, child, anc => descListWith (fun p => descFuel succ fuel p anc) anc (succ child)

/-- the parent loop of `isEntityDescendantFrom`, threading the `visited` map (a Go map is shared by reference, so what
    one recursive call adds is seen by the later iterations):
    `for _, parent := range parents { if parent == anc { return true }; if rec(parent, visited) { return true } }; return false` -/
def descListVis {α} [DecidableEq α] (k : α → List α → Option (Bool × List α)) (anc : α) :
    List α → List α → Option (Bool × List α)
  | [], vis => some (false, vis)
  | p :: ps, vis =>
    if p = anc then some (true, vis)
    else match k p vis with
      | none => none
      | some (true, vis') => some (true, vis')
      | some (false, vis') => descListVis k anc ps vis'

/-- `isEntityDescendantFrom` (cedar_type.go): depth-first search with a visited set — a type already in `visited`
    answers `false` at once, otherwise it is added and its parents are searched.  Returns the answer and the final
    visited set; `none` = out of fuel -/
def descVisFuel {α} [DecidableEq α] (succ : α → List α) : Nat → α → α → List α → Option (Bool × List α)
  | 0, _, _, _ => none
  | fuel + 1, child, anc, vis =>
    if vis.contains child then some (false, vis)
    else descListVis (fun p v => descVisFuel succ fuel p anc v) anc (succ child) (child :: vis)

/-- `isEntityDescendant` (cedar_type.go): `isEntityDescendantFrom` started with an empty visited set over `ParentTypes` -/
def isEntityDescendantFuel (rs : RSchema) (fuel : Nat) (child anc : String) : Option Bool :=
  (descVisFuel rs.entityParents fuel child anc []).map (·.1)

/-- `isActionDescendant` (policy.go): the same shape over action parents -/
def isActionDescendantFuel (rs : RSchema) : Nat → UID → UID → Option Bool := descFuel rs.actionParents

/-- one pass of the `for changed` loop of `getEntityTypesIn` -/
def typesInPass (ents : List (String × REntity)) (result : List String) : List String × Bool :=
  ents.foldl (fun (acc : List String × Bool) e =>
    if acc.1.contains e.1 then acc
    else if e.2.parents.any (fun p => acc.1.contains p) then (acc.1 ++ [e.1], true)
    else acc) (result, false)

def typesInLoop (ents : List (String × REntity)) : Nat → List String → Option (List String)
  | 0, _ => none
  | fuel + 1, res =>
    let (res', changed) := typesInPass ents res
    if changed then typesInLoop ents fuel res' else some res'

/-- `getEntityTypesIn` -/
def getEntityTypesIn (rs : RSchema) (target : String) : Option (List String) :=
  let first := (rs.entities.filter fun e => e.2.parents.contains target).map (·.1)
  typesInLoop rs.entities (rs.entities.length + 1) (target :: first)

/-- kinds of literal values a policy `NodeValue` can hold -/
inductive LitKind where
  | bool | long | string | entity | set | record | extension
deriving DecidableEq, Repr

/-- `typeOfValue`: every kind of literal has a case (Boolean/Long/String/EntityUID; the four extension values;
    sets and records recurse into their members), `.ok ()` = "returns a type or an error", `.error ()` = panic.
    Before the repair of `typeofvalue-non-entity-literal-panic` set/record/extension values fell through to
    `val.(types.EntityUID)` and panicked. -/
def typeOfValueOutcome : LitKind → Except Unit Unit
  | .bool | .long | .string | .entity => .ok ()
  | .set | .record | .extension => .ok ()

end CedarGo.Schema
