/-
  Abstract heap model for C19 (race-free concurrent reads; inputs never mutated).

  No executable model of cedar-go can exhibit a Go data race: that is a property of the Go memory
  model and scheduler.  What this file models is the REASON there can be none: a read-only API call is a
  computation over a heap in which it only READS the locations that existed before the call (policies,
  policy sets, entity maps, requests, values: `Loc.shared`) and writes only locations it allocated itself
  (`Loc.priv owner _`: the Go allocator hands every call fresh addresses, so the private locations of
  different calls are disjoint — that guarantee is part of the modelled, not verified, Go runtime).

  Two presentations:
  * traces: an operation is a `List Step`; `Interleave ops tr` = `tr` is an interleaving of the step lists;
  * programs: an operation is a `Prog α` (the next step may depend on every value read so far) run by a
    scheduler `runSched`; its result is literally a function of what it reads.
  The theorems are in CedarGoProofs/Properties/C19.lean.  The hypothesis (`ReadOnly`, `Confined`,
  `Prog.Isolated`) is what factgen's write-set extractor discharges from the Go source on every run.
-/
namespace CedarGo.Heap

/-- heap locations: `shared n` existed before the calls started (the inputs); `priv i n` is the n-th cell
    allocated by operation `i` during its call -/
inductive Loc where
  | shared (n : Nat)
  | priv (owner : Nat) (n : Nat)
  deriving DecidableEq, Repr

abbrev Val := Int

abbrev Heap := Loc → Val

def Heap.set (h : Heap) (l : Loc) (v : Val) : Heap := fun l' => if l' = l then v else h l'

def Loc.isShared : Loc → Bool
  | .shared _ => true
  | .priv _ _ => false

/-- what operation `i` can name at all: the inputs and its own allocations -/
def Loc.visibleTo (i : Nat) : Loc → Bool
  | .shared _ => true
  | .priv o _ => o == i

inductive Act where
  | read (l : Loc)
  | write (l : Loc) (v : Val)
  deriving DecidableEq, Repr

structure Step where
  owner : Nat
  act : Act
  deriving DecidableEq, Repr

def Step.loc (s : Step) : Loc :=
  match s.act with
  | .read l => l
  | .write l _ => l

/-- run a step list on a heap: final heap and, in order, what every read observed (tagged by owner) -/
def exec : Heap → List Step → Heap × List (Nat × Val)
  | h, [] => (h, [])
  | h, ⟨o, .read l⟩ :: rest => ((exec h rest).1, (o, h l) :: (exec h rest).2)
  | h, ⟨_, .write l v⟩ :: rest => exec (h.set l v) rest

/-- the values operation `i` observed, in order -/
def obsOf (i : Nat) (obs : List (Nat × Val)) : List Val :=
  (obs.filter (fun p => p.1 == i)).map (·.2)

/-- the locations an operation writes -/
def writeSet : List Step → List Loc
  | [] => []
  | ⟨_, .write l _⟩ :: rest => l :: writeSet rest
  | ⟨_, .read _⟩ :: rest => writeSet rest

/-- read-only: the write set restricted to the pre-existing (shared) locations is empty -/
def ReadOnly (op : List Step) : Prop := ∀ l ∈ writeSet op, l.isShared = false

/-- operation number `i` is made of its own steps and only names the inputs and its own allocations -/
def Confined (i : Nat) (op : List Step) : Prop := ∀ s ∈ op, s.owner = i ∧ s.loc.visibleTo i = true

/-- `Interleave ops tr`: `tr` is obtained by repeatedly taking the next step of some operation -/
inductive Interleave : List (List Step) → List Step → Prop where
  | done (ops : List (List Step)) : (∀ op ∈ ops, op = []) → Interleave ops []
  | step (ops : List (List Step)) (i : Nat) (s : Step) (rest tr : List Step) :
      ops[i]? = some (s :: rest) → Interleave (ops.set i rest) tr → Interleave ops (s :: tr)

/-- two heaps look the same to operation `i` -/
def AgreeOn (i : Nat) (h h' : Heap) : Prop := ∀ l, l.visibleTo i = true → h l = h' l

/-! ### programs: the next step depends on what was read -/

inductive Prog (α : Type) where
  | ret (a : α)
  | read (l : Loc) (k : Val → Prog α)
  | write (l : Loc) (v : Val) (k : Prog α)

/-- run a program alone, to completion: its result and the final heap -/
def Prog.run : Prog α → Heap → α × Heap
  | .ret a, h => (a, h)
  | .read l k, h => (k (h l)).run h
  | .write l v k, h => k.run (h.set l v)

/-- the trace of steps a program takes when run alone as operation `i` -/
def Prog.trace (i : Nat) : Prog α → Heap → List Step
  | .ret _, _ => []
  | .read l k, h => ⟨i, .read l⟩ :: (k (h l)).trace i h
  | .write l v k, h => ⟨i, .write l v⟩ :: k.trace i (h.set l v)

/-- one scheduler quantum -/
def Prog.step1 : Prog α → Heap → Prog α × Heap
  | .ret a, h => (.ret a, h)
  | .read l k, h => (k (h l), h)
  | .write l v k, h => (k, h.set l v)

/-- run a pool of programs under a schedule (the list of thread numbers that get the next quantum) -/
def runSched : List (Prog α) → Heap → List Nat → List (Prog α) × Heap
  | ps, h, [] => (ps, h)
  | ps, h, i :: sched =>
    match ps[i]? with
    | none => runSched ps h sched
    | some p => runSched (ps.set i (p.step1 h).1) (p.step1 h).2 sched

/-- program `i` writes only its own allocations and reads only the inputs and its own allocations,
    whatever values it reads -/
inductive Prog.Isolated (i : Nat) : Prog α → Prop where
  | ret (a : α) : Prog.Isolated i (.ret a)
  | read (l : Loc) (k : Val → Prog α) : l.visibleTo i = true → (∀ v, Prog.Isolated i (k v)) → Prog.Isolated i (.read l k)
  | write (n : Nat) (v : Val) (k : Prog α) : Prog.Isolated i k → Prog.Isolated i (.write (.priv i n) v k)

end CedarGo.Heap
