/-
  C14 — determinism.  Every place where the Go code iterates a Go map (facts/map_ranges.expected.json)
  is a model function with an explicit ORDER PARAMETER: the list argument *is* the order in which the
  map yields its entries on this particular `range` (Go randomises it on every loop, so every
  evaluation is a new schedule).  "All internal iteration orders" is then "all permutations of that list"
  (`List.Perm`), "all schedules of a whole expression" is the relation `Resched` below.

  Sites and their model functions:
    recordLiteralEval.Eval  (sorted-after since the repair)  evalRecordLitOrd   = what `eval (.record kes)` does
    containsAll/AnyEval     (quantifier)               containsAllLoop / containsAnyLoop
    doInEval, set form      (sorted-after since the repair: the conversion error that sorts first)  inSetFirstBad + `doIn`
    entityInOne/InSet       (quantifier over parents)  Hierarchy.lean (parents list = map order)
    Authorize               (builds sets)              authorizeWith over the yielded policy sequence
    PolicySet.MarshalCedar, Record/Set marshal, EntityMap/Entity JSON, schema printers (sorted-after)
                                                        encodeSorted = render ∘ sort ∘ (map order)
    recordJSON.ToNode, Policy.UnmarshalJSON annotations (sorted-after since the repair)   decodeRecordJsonOrd / decodeAnnotationsOrd
    coerceSet (x/exp/types)  (sorted-after since the repair)   coerceSetOrd
    Set.orderedSlots (Set.MarshalJSON/MarshalCedar; sorted-after, probing order since the repair)   orderedSlots / marshalSetMembers
-/
import CedarGo.Model.Fold
import CedarGo.Model.PolicySet
import CedarGo.Model.SetImpl
namespace CedarGo

/-! ## Sorting (the model of `slices.Sort` / `slices.SortFunc` / `slices.Sorted` on a key list) -/

def insertBy {α : Type} (le : α → α → Bool) (x : α) : List α → List α
  | [] => [x]
  | y :: ys => if le x y then x :: y :: ys else y :: insertBy le x ys

def sortBy {α : Type} (le : α → α → Bool) : List α → List α
  | [] => []
  | x :: xs => insertBy le x (sortBy le xs)

/-- byte-wise string order (`slices.Sort` on `[]string` / `[]PolicyID` / record keys) -/
def strLe (a b : String) : Bool := decide (a ≤ b)
/-- the order `slices.Sorted(maps.Keys(m))` induces on the entries of a string-keyed map: by key -/
def keyLe {α : Type} (a b : String × α) : Bool := strLe a.1 b.1
/-- `slices.Sort` on the `uint64` slot numbers of a `types.Set` -/
def natLe (a b : Nat) : Bool := decide (a ≤ b)
/-- `Entity.MarshalJSON`: parents compared by type, then by id -/
def uidLe (a b : UID) : Bool := decide (a.1 < b.1) || (a.1 == b.1 && decide (a.2 ≤ b.2))

/-! ## Encoders: collect the keys in map order, sort, render -/

/-- an encoder that sorts what the map yielded before rendering (`sorted-after` sites) -/
def encodeSorted {κ : Type} (le : κ → κ → Bool) (render : κ → String) (keysInMapOrder : List κ) : List String :=
  (sortBy le keysInMapOrder).map render

/-- an encoder that renders in the order the map yielded (`order-leaks` sites) -/
def encodeInMapOrder {κ : Type} (render : κ → String) (keysInMapOrder : List κ) : List String :=
  keysInMapOrder.map render

/-- `PolicySet.MarshalCedar` (ids collected from the map, `slices.Sort`, each policy rendered);
    `PolicySet.MarshalJSON`, `Record.MarshalJSON/MarshalCedar`, `EntityMap.MarshalJSON` (by `UID.String()`),
    the schema printers (`slices.Sorted(maps.Keys(..))`) have the same shape over string keys -/
def marshalByStringKey (render : String → String) (keysInMapOrder : List String) : List String :=
  encodeSorted strLe render keysInMapOrder
/-- `Set.MarshalJSON/MarshalCedar` before the repair of `set-hash-collision-order`: slot numbers collected from the
    map, sorted, members rendered (kept for the regression examples; the repaired printer is `marshalSetMembers` below) -/
def marshalSetOrd (render : Nat → String) (slotsInMapOrder : List Nat) : List String :=
  encodeSorted natLe render slotsInMapOrder
/-- `Entity.MarshalJSON`: parents collected from the set, `slices.SortFunc` by (type, id) -/
def marshalParentsOrd (render : UID → String) (parentsInMapOrder : List UID) : List String :=
  encodeSorted uidLe render parentsInMapOrder

/-! ## `Set.orderedSlots` (types/set.go, repaired): the order in which `Set.MarshalJSON/MarshalCedar` visit the slots

The table is the C11 model of the Go map (`Table`, slot numbers are `UInt64`, `NewSet` = `buildTable`).  The list
argument is the table in the order the Go map yields its entries. -/

/-- `slices.Sort` on `[]uint64` -/
def slotLe (a b : UInt64) : Bool := decide (a ≤ b)

/-- `for slot, v := range s.s { if v.hash() > slot { wrapped = true } }`: some element sits in a slot below its hash,
    which happens only when `NewSet`'s probing (`hash++`) wrapped around from slot 2^64-1 to slot 0 -/
def tableWrapped (hash : Value → UInt64) (t : Table) : Bool := t.any fun kv => decide (kv.1 < hash kv.2)

/-- `i := len(slots)-1; for i > 0 && slots[i-1]+1 == slots[i] { i-- }` as the pair `(slots[:i], slots[i:])`: the sorted
    slots split before the run of consecutive slots that ends with the last one -/
def splitTopRun : List UInt64 → List UInt64 × List UInt64
  | [] => ([], [])
  | [k] => ([], [k])
  | k :: k' :: rest =>
    let br := splitTopRun (k' :: rest)
    if br.1.isEmpty && k + 1 == k' then ([], k :: br.2) else (k :: br.1, br.2)

/-- `Set.orderedSlots`: ascending; if an element wrapped around, the run of slots ending at the last slot first
    (`slices.Concat(slots[i:], slots[:i])`) -/
def orderedSlots (hash : Value → UInt64) (tableInMapOrder : Table) : List UInt64 :=
  let slots := sortBy slotLe (tableInMapOrder.map (·.1))
  if tableWrapped hash tableInMapOrder then (splitTopRun slots).2 ++ (splitTopRun slots).1 else slots

/-- the table entries in the order of `orderedSlots` -/
def orderedEntries (hash : Value → UInt64) (t : Table) : Table :=
  (orderedSlots hash t).filterMap fun k => (t.get k).map fun v => (k, v)

/-- the members in the order in which `Set.MarshalJSON/MarshalCedar` write them (`s.s[k]` for `k` in `orderedSlots`) -/
def marshalSetMembers (hash : Value → UInt64) (t : Table) : List Value := (orderedEntries hash t).map (·.2)

/-- the unrepaired order: ascending slots -/
def marshalSetMembersBySlot (t : Table) : List Value := (sortBy slotLe (t.map (·.1))).filterMap t.get

/-! ## Evaluation sites -/

/-- `recordLiteralEval.Eval` (repaired): `for _, k := range slices.Sorted(maps.Keys(n.elements))` — whatever order
    the Go map yields its entries in, they are evaluated in ascending key order (`canonKVs`: the entries of the
    map, i.e. the last entry of every key, by key), the first error is returned; otherwise the values are stored
    in a `RecordMap` (`mkRecord`). -/
def evalRecordLitOrd (kesInMapOrder : List (String × Expr)) (env : Env) : Res :=
  match evalKVs (canonKVs kesInMapOrder) env with
  | .error e => .error e
  | .ok kvs => .ok (mkRecord kvs)

/-- `containsAllEval.Eval`'s loop: `for e := range rhs.All() { if !lhs.Contains(e) { return false } }; return true` -/
def containsAllLoop (lhs : List Value) : List Value → Bool
  | [] => true
  | e :: es => if !(e.memL lhs) then false else containsAllLoop lhs es

/-- `containsAnyEval.Eval`'s loop -/
def containsAnyLoop (lhs : List Value) : List Value → Bool
  | [] => false
  | e :: es => if e.memL lhs then true else containsAnyLoop lhs es

/-- `eval.TypeName` of a value (what the message of a failed conversion names) -/
def goTypeName : Value → String
  | .bool _ => "bool" | .decimal _ => "decimal" | .datetime _ => "datetime"
  | .entity t _ => "(entity of type `" ++ t ++ "`)"
  | .ip _ => "IP" | .long _ => "long" | .record _ => "record" | .set _ => "set" | .str _ => "string"
  | .duration _ => "unknown type"

/-- the type name in the message of `ValueToEntity` for a member that is not an entity -/
def nonEntityName : Value → Option String
  | .entity _ _ => none
  | v => some (goTypeName v)

/-- `doInEval`, set case (repaired): every member is converted in the order the set yields them; of the conversion
    errors the one whose MESSAGE SORTS FIRST is returned.  The messages are a fixed text followed by
    `TypeName(member)`: the model's stand-in for the message is that name, and "the message that sorts first" is the
    head of the sorted names. -/
def inSetFirstBad (membersInMapOrder : List Value) : Option String :=
  (sortBy strLe (membersInMapOrder.filterMap nonEntityName)).head?

/-! ## `types.NewSet`: open addressing — where colliding members land depends on the insertion order -/

/-- first free slot at or after `h` (bounded probe) -/
def probeSlot (used : List Nat) : Nat → Nat → Nat
  | 0, h => h
  | fuel + 1, h => if used.contains h then probeSlot used fuel (h + 1) else h

/-- `NewSet`: insert (hash, member) pairs in the given order; a member goes to the first free slot
    starting at its hash (members are assumed distinct) -/
def assignSlots {α : Type} : List (Nat × α) → List (Nat × α) → List (Nat × α)
  | acc, [] => acc
  | acc, (h, x) :: rest => assignSlots (acc ++ [(probeSlot (acc.map (·.1)) (acc.length + 1) h, x)]) rest

/-- the member order `Set.MarshalJSON/MarshalCedar` prints: by slot number -/
def setRenderOrder {α : Type} (membersInInsertionOrder : List (Nat × α)) : List α :=
  (sortBy (fun a b => natLe a.1 b.1) (assignSlots [] membersInInsertionOrder)).map (·.2)

/-- `coerceSet` (x/exp/types, repaired): the coerced members are collected in `Set.All()` (Go map) order, SORTED by
    their Cedar text (`MarshalCedar`; a member is identified with that text here) and given to `NewSet` -/
def coerceSetOrd (hash : String → Nat) (membersInMapOrder : List String) : List String :=
  setRenderOrder ((sortBy strLe membersInMapOrder).map (fun m => (hash m, m)))

/-! ## JSON policy decoder (repaired): the entries of a Go map are listed by key -/

/-- `recordJSON.ToNode`: `for _, k := range slices.Sorted(maps.Keys(j)) { nodes = append(nodes, Pair{k, j[k]}) }`
    (`canonKVs`: the entries of the map by key, whatever order the map yields them in) -/
def decodeRecordJsonOrd (entriesInMapOrder : List (String × Expr)) : Expr := .record (canonKVs entriesInMapOrder)

/-- `Policy.UnmarshalJSON`: `for _, k := range slices.Sorted(maps.Keys(j.Annotations)) { p.Annotate(k, …) }` -/
def decodeAnnotationsOrd (p : Policy) (annotationsInMapOrder : List (String × String)) : Policy :=
  { p with annotations := canonKVs annotationsInMapOrder }

/-- the order in which `MarshalCedar` prints the entries of a record literal: AST order -/
def cedarRecordKeyOrder : Expr → List String
  | .record kes => kes.map (·.1)
  | _ => []

/-- the order in which `MarshalJSON` prints them: `recordToJSON` stores them in a Go map again and
    `encoding/json` sorts map keys -/
def jsonRecordKeyOrder : Expr → List String
  | .record kes => sortBy strLe (kes.map (·.1))
  | _ => []

def cedarAnnotationOrder (p : Policy) : List String := p.annotations.map (·.1)
def jsonAnnotationOrder (p : Policy) : List String := sortBy strLe (p.annotations.map (·.1))

/-! ## Schedules of a whole expression -/

/-- two results that differ at most in WHICH error is reported -/
def simE {α : Type} : Except Err α → Except Err α → Prop
  | .ok v, .ok w => v = w
  | .error _, .error _ => True
  | _, _ => False

abbrev Res.sim (a b : Res) : Prop := simE a b

mutual
/-- `Resched e e'`: `e'` is `e` with the entries of every record literal (at every depth) listed in
    some other order — two schedules of the same expression.  Record literals have distinct keys
    (they are Go maps). -/
def Resched : Expr → Expr → Prop
  | .lit v, e' => e' = .lit v
  | .var x, e' => e' = .var x
  | .unop op a, e' => ∃ a', e' = .unop op a' ∧ Resched a a'
  | .binop op l r, e' => ∃ l' r', e' = .binop op l' r' ∧ Resched l l' ∧ Resched r r'
  | .ite c t f, e' => ∃ c' t' f', e' = .ite c' t' f' ∧ Resched c c' ∧ Resched t t' ∧ Resched f f'
  | .access a k, e' => ∃ a', e' = .access a' k ∧ Resched a a'
  | .has a k, e' => ∃ a', e' = .has a' k ∧ Resched a a'
  | .like a p, e' => ∃ a', e' = .like a' p ∧ Resched a a'
  | .is a ty, e' => ∃ a', e' = .is a' ty ∧ Resched a a'
  | .isIn a ty r, e' => ∃ a' r', e' = .isIn a' ty r' ∧ Resched a a' ∧ Resched r r'
  | .set es, e' => ∃ es', e' = .set es' ∧ ReschedList es es'
  | .record kes, e' => ∃ mid kes', e' = .record kes' ∧ ReschedKVs kes mid ∧ mid.Perm kes' ∧ (kes.map (·.1)).Nodup
  | .call fn args, e' => ∃ args', e' = .call fn args' ∧ ReschedList args args'
def ReschedList : List Expr → List Expr → Prop
  | [], l' => l' = []
  | e :: es, l' => ∃ x xs, l' = x :: xs ∧ Resched e x ∧ ReschedList es xs
def ReschedKVs : List (String × Expr) → List (String × Expr) → Prop
  | [], l' => l' = []
  | (k, e) :: kes, l' => ∃ x xs, l' = (k, x) :: xs ∧ Resched e x ∧ ReschedKVs kes xs
end

/-- the same policy under another schedule of its conditions -/
def ReschedConds : List (Bool × Expr) → List (Bool × Expr) → Prop
  | [], l' => l' = []
  | (w, e) :: cs, l' => ∃ x xs, l' = (w, x) :: xs ∧ Resched e x ∧ ReschedConds cs xs

def ReschedPolicy (p p' : Policy) : Prop :=
  p'.effect = p.effect ∧ p'.principal = p.principal ∧ p'.action = p.action ∧ p'.resource = p.resource ∧
  p'.position = p.position ∧ ReschedConds p.conditions p'.conditions

/-! ## All schedules of one record literal (used by the driver op `c14.reclit`) -/

def insertEverywhere {α : Type} (x : α) : List α → List (List α)
  | [] => [[x]]
  | y :: ys => (x :: y :: ys) :: (insertEverywhere x ys).map (y :: ·)

def perms {α : Type} : List α → List (List α)
  | [] => [[]]
  | x :: xs => (perms xs).flatMap (insertEverywhere x)

/-- every result `recordLiteralEval.Eval` can produce for this literal: one per iteration order (all equal since
    the repair: `C14_evalRecordLit_order_indep`) -/
def recordLitOutcomes (kes : List (String × Expr)) (env : Env) : List Res :=
  (perms kes).map (fun σ => evalRecordLitOrd σ env)

end CedarGo
