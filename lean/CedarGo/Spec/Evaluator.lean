/-
  C01 — the SPECIFICATION side: `Spec.evaluate`, a transcription of the Cedar language semantics
  (the Cedar Lean specification: `Cedar.Spec.Evaluator` — `evaluate`, `apply₁`, `apply₂`, `inₑ`, `inₛ`,
  `hasAttr`, `getAttr`, `hasTag`, `getTag`; `Cedar.Spec.Ext` — `call`; `Cedar.Spec.Ext.Datetime`;
  `Cedar.Spec.Wildcard` — `wildcardMatch`) onto the value/expression types shared with the model.
  It is written from the specification as the author knows it (the sandbox has no copy to diff against:
  this file is in the trusted base, DESIGN §5) and NOT from the Go code; in particular

  * every operator evaluates ALL its operands left to right and only then applies the operator
    (`apply₁` / `apply₂` / `call` fail with a type error on ill-typed operand values) — the Go code
    converts each operand as soon as it is evaluated; only `&&`, `||`, `if` short-circuit;
  * integer arithmetic is checked by MATHEMATICAL range tests (`Int64.add?` …: `intOrErr`);
  * `in` is reachability through the parent links of entities present in the store (`Reach`; Cedar
    stores the transitively closed ancestor sets, cedar-go stores parents and searches — C03);
  * `like` is the backtracking `wildcardMatch` on the element sequence of the pattern;
  * `toDate` / `toTime` use FLOOR semantics, `toDate` fails when the floored instant leaves the
    64-bit range (`floorDate`, `floorTime`);
  * a record expression is a map: its entries are evaluated in ascending key order (the order of the
    reference implementation's `BTreeMap`), the first error wins;
  * `a != b`, `a > b`, `a >= b`, `e is T in r` are the parser's desugarings `!(a == b)`, `!(a <= b)`,
    `!(a < b)`, `(e is T) && (e in r)`.

  What is shared with the model and therefore not specified here a second time: the value
  representation and `Value.beq` / `mkSet` / `mkRecord` / `kvGet` (C11), the scalar parsers and IP
  predicates of `Model/Scalars.lean` (C12).  Cedar's single `extensionError` is refined into the error
  kinds cedar-go reports (`ext-*` for a malformed literal, `overflow` for datetime arithmetic).
  cedar-go run-time errors for things the Cedar parser rejects before evaluation are added where
  cedar-go raises them: unknown function, wrong arity, the zero `EntityUID` (`unspecified`), and the
  partial-evaluation artefact `__cedar::partialError`.

  The file is core-only.  `Spec.evaluate` is noncomputable (it decides `Reach` classically): it is
  a specification, it does not run.
-/
import CedarGo.Model.Expr
import CedarGo.Model.Scalars
namespace CedarGo.Spec
open CedarGo CedarGo.Scalars

/-! ## Entity hierarchy: `in` -/

/-- `b` is reachable from `a` by following parent links of entities PRESENT in the store
    (reflexive, transitive).  Same definition as `CedarGo.Reach` of C03 (proved equivalent there). -/
inductive Reach (es : Entities) : UID → UID → Prop where
  | refl (a : UID) : Reach es a a
  | step {a p b : UID} {d : EntityData} : es.get a = some d → p ∈ d.parents → Reach es p b → Reach es a b

open Classical in
/-- `inₑ uid₁ uid₂ es` -/
noncomputable def inₑ (es : Entities) (a b : UID) : Bool := decide (Reach es a b)

def asEntityUID : Value → Except Err UID
  | .entity t i => .ok (t, i)
  | _ => .error .type

def asBool : Value → Except Err Bool
  | .bool b => .ok b
  | _ => .error .type

/-- `inₛ uid vs es`: every member must be an entity; true iff some member is reachable -/
noncomputable def inₛ (es : Entities) (a : UID) (vs : List Value) : Res := do
  let uids ← vs.mapM asEntityUID
  .ok (.bool (uids.any (inₑ es a)))

/-! ## `like`: `Cedar.Spec.Wildcard` (on the UTF-8 byte sequence, see the remark at `wildcardMatch`) -/

inductive PatElem where
  | star
  | justChar (c : UInt8)
deriving DecidableEq, Repr

/-- the element sequence of a component pattern: `*` for a wildcard flag, then the literal's elements -/
def patElems : Pattern → List PatElem
  | [] => []
  | c :: rest => (if c.wildcard then [PatElem.star] else []) ++ c.literal.map PatElem.justChar ++ patElems rest

/-- `k` holds of some suffix of the text (the star consumed the corresponding prefix) -/
def starMatch (k : List UInt8 → Bool) : List UInt8 → Bool
  | [] => k []
  | x :: xs => k (x :: xs) || starMatch k xs

/-- `wildcardMatch text pattern` of the specification:
    `[] , []` ⇒ true; `c::cs , justChar p :: ps` ⇒ `c = p ∧ match cs ps`;
    `text , star :: ps` ⇒ `match text ps ∨ (text = c::cs ∧ match cs (star :: ps))`. -/
def wildcardMatchElems : List PatElem → List UInt8 → Bool
  | [], s => s.isEmpty
  | .justChar _ :: _, [] => false
  | .justChar c :: ps, x :: xs => c == x && wildcardMatchElems ps xs
  | .star :: ps, s => starMatch (wildcardMatchElems ps) s

/-- Remark (bytes vs characters).  The specification matches sequences of Unicode scalar values; this
    definition (like the Go code and the model) matches UTF-8 byte sequences.  For a pattern whose
    literals are valid UTF-8 and a valid UTF-8 text the two agree: UTF-8 is self-synchronising, so a
    literal's encoding can only occur in the text at a scalar boundary and a star then consumes whole
    scalars.  That equivalence is not proved here; invalid UTF-8 is outside every theorem (DESIGN §5). -/
def wildcardMatch (p : Pattern) (s : List UInt8) : Bool := wildcardMatchElems (patElems p) s

/-! ## Operators -/

/-- `intOrErr (i.add? j)` etc.: the mathematical result if it is a 64-bit integer, else `arithBoundsError` -/
def intOrErr (x : Int) : Res := if InI64 x then .ok (.long x) else .error .overflow

def apply₁ : UnOp → Value → Res
  | .not, .bool b => .ok (.bool (!b))
  | .neg, .long i => intOrErr (-i)
  | .isEmpty, .set s => .ok (.bool s.isEmpty)
  | _, _ => .error .type

def applyLike (p : Pattern) : Value → Res
  | .str s => .ok (.bool (wildcardMatch p s.toUTF8.toList))
  | _ => .error .type

def applyIs (ty : String) : Value → Res
  | .entity t _ => .ok (.bool (t == ty))
  | _ => .error .type

def zeroUID : UID := ("", "")

/-- `hasTag uid tag es` (`tagsOrEmpty`: a missing entity has no tags) -/
def hasTag (es : Entities) (u : UID) (tag : String) : Res :=
  match es.get u with
  | none => .ok (.bool false)
  | some d => .ok (.bool (kvGet tag d.tags).isSome)

/-- `getTag uid tag es`: `entityDoesNotExist`, then `tagDoesNotExist` -/
def getTag (es : Entities) (u : UID) (tag : String) : Res :=
  if u == zeroUID then .error .unspecified else
  match es.get u with
  | none => .error .entity
  | some d => match kvGet tag d.tags with | some v => .ok v | none => .error .tag

noncomputable def apply₂ (es : Entities) : BinOp → Value → Value → Res
  | .eq, a, b => .ok (.bool (a.beq b))
  | .ne, a, b => .ok (.bool (!a.beq b))                               -- `!(a == b)`
  | .lt, .long a, .long b => .ok (.bool (a < b))
  | .lt, .datetime a, .datetime b => .ok (.bool (a < b))
  | .lt, .duration a, .duration b => .ok (.bool (a < b))
  | .le, .long a, .long b => .ok (.bool (a ≤ b))
  | .le, .datetime a, .datetime b => .ok (.bool (a ≤ b))
  | .le, .duration a, .duration b => .ok (.bool (a ≤ b))
  | .gt, .long a, .long b => .ok (.bool (!decide (a ≤ b)))            -- `!(a <= b)`
  | .gt, .datetime a, .datetime b => .ok (.bool (!decide (a ≤ b)))
  | .gt, .duration a, .duration b => .ok (.bool (!decide (a ≤ b)))
  | .ge, .long a, .long b => .ok (.bool (!decide (a < b)))            -- `!(a < b)`
  | .ge, .datetime a, .datetime b => .ok (.bool (!decide (a < b)))
  | .ge, .duration a, .duration b => .ok (.bool (!decide (a < b)))
  | .add, .long a, .long b => intOrErr (a + b)
  | .sub, .long a, .long b => intOrErr (a - b)
  | .mul, .long a, .long b => intOrErr (a * b)
  | .contains, .set s, v => .ok (.bool (v.memL s))
  | .containsAll, .set s, .set t => .ok (.bool (t.all (fun x => x.memL s)))    -- `t ⊆ s`
  | .containsAny, .set s, .set t => .ok (.bool (t.any (fun x => x.memL s)))    -- `s ∩ t ≠ ∅`
  | .in_, .entity t i, .entity t' i' => .ok (.bool (inₑ es (t, i) (t', i')))
  | .in_, .entity t i, .set vs => inₛ es (t, i) vs
  | .hasTag, .entity t i, .str tag => hasTag es (t, i) tag
  | .getTag, .entity t i, .str tag => getTag es (t, i) tag
  | _, _, _ => .error .type      -- includes `.and` / `.or`, which `evaluate` never passes here

/-- `hasAttr v a es` (`attrsOrEmpty`: a missing entity has no attributes) -/
def hasAttr (es : Entities) (a : String) : Value → Res
  | .record kvs => .ok (.bool (kvGet a kvs).isSome)
  | .entity t i =>
    match es.get (t, i) with
    | none => .ok (.bool false)
    | some d => .ok (.bool (kvGet a d.attrs).isSome)
  | _ => .error .type

/-- `getAttr v a es`: `entityDoesNotExist`, then `attrDoesNotExist` -/
def getAttr (es : Entities) (a : String) : Value → Res
  | .record kvs => match kvGet a kvs with | some x => .ok x | none => .error .attr
  | .entity t i =>
    if (t, i) == zeroUID then .error .unspecified else
    match es.get (t, i) with
    | none => .error .entity
    | some d => match kvGet a d.attrs with | some x => .ok x | none => .error .attr
  | _ => .error .type

/-! ## Extension functions: `Cedar.Spec.Ext.call` -/

inductive ExtFun where
  | decimal | lessThan | lessThanOrEqual | greaterThan | greaterThanOrEqual
  | ip | isIpv4 | isIpv6 | isLoopback | isMulticast | isInRange
  | datetime | duration | offset | durationSince | toDate | toTime
  | toMilliseconds | toSeconds | toMinutes | toHours | toDays
deriving DecidableEq, Repr

def ExtFun.name : ExtFun → String
  | .decimal => "decimal" | .lessThan => "lessThan" | .lessThanOrEqual => "lessThanOrEqual"
  | .greaterThan => "greaterThan" | .greaterThanOrEqual => "greaterThanOrEqual"
  | .ip => "ip" | .isIpv4 => "isIpv4" | .isIpv6 => "isIpv6" | .isLoopback => "isLoopback"
  | .isMulticast => "isMulticast" | .isInRange => "isInRange"
  | .datetime => "datetime" | .duration => "duration" | .offset => "offset" | .durationSince => "durationSince"
  | .toDate => "toDate" | .toTime => "toTime" | .toMilliseconds => "toMilliseconds" | .toSeconds => "toSeconds"
  | .toMinutes => "toMinutes" | .toHours => "toHours" | .toDays => "toDays"

def ExtFun.all : List ExtFun :=
  [.decimal, .lessThan, .lessThanOrEqual, .greaterThan, .greaterThanOrEqual, .ip, .isIpv4, .isIpv6, .isLoopback,
   .isMulticast, .isInRange, .datetime, .duration, .offset, .durationSince, .toDate, .toTime, .toMilliseconds,
   .toSeconds, .toMinutes, .toHours, .toDays]

def ExtFun.ofName? (s : String) : Option ExtFun := ExtFun.all.find? (fun f => f.name == s)

/-- number of arguments (receiver included) -/
def ExtFun.arity : ExtFun → Nat
  | .lessThan | .lessThanOrEqual | .greaterThan | .greaterThanOrEqual | .isInRange | .offset | .durationSince => 2
  | _ => 1

/-- the two date projections, abstracted so that the refinement theorem can be stated once for the
    specification (`cedarDates`) and once for what the Go code computes -/
structure DateFns where
  toDate : Int → Res
  toTime : Int → Res

/-- `Datetime.toDate`: midnight of the same day, i.e. `⌊t / 86400000⌋ · 86400000` (`/` on `Int` floors for
    a positive divisor); fails when that instant is not a 64-bit number of milliseconds -/
def floorDate (t : Int) : Res :=
  let d := 86400000 * (t / 86400000)
  if InI64 d then .ok (.datetime d) else .error .overflow

/-- `Datetime.toTime`: milliseconds since midnight, always in `[0, 86399999]` (`%` on `Int` is non-negative) -/
def floorTime (t : Int) : Res := .ok (.duration (t % 86400000))

def cedarDates : DateFns := ⟨floorDate, floorTime⟩

def call (D : DateFns) : ExtFun → List Value → Res
  | .decimal, [.str s] => (parseDecimal s).map .decimal
  | .lessThan, [.decimal a, .decimal b] => .ok (.bool (a < b))
  | .lessThanOrEqual, [.decimal a, .decimal b] => .ok (.bool (a ≤ b))
  | .greaterThan, [.decimal a, .decimal b] => .ok (.bool (a > b))
  | .greaterThanOrEqual, [.decimal a, .decimal b] => .ok (.bool (a ≥ b))
  | .ip, [.str s] => (parseIP s).map .ip
  | .isIpv4, [.ip a] => .ok (.bool (!a.v6))
  | .isIpv6, [.ip a] => .ok (.bool a.v6)
  | .isLoopback, [.ip a] => .ok (.bool a.isLoopback)
  | .isMulticast, [.ip a] => .ok (.bool a.isMulticast)
  | .isInRange, [.ip a, .ip b] => .ok (.bool (b.contains a))
  | .datetime, [.str s] => (parseDatetime s).map .datetime
  | .duration, [.str s] => (parseDuration s).map .duration
  | .offset, [.datetime t, .duration d] => if InI64 (t + d) then .ok (.datetime (t + d)) else .error .overflow
  | .durationSince, [.datetime t, .datetime u] => if InI64 (t - u) then .ok (.duration (t - u)) else .error .overflow
  | .toDate, [.datetime t] => D.toDate t
  | .toTime, [.datetime t] => D.toTime t
  | .toMilliseconds, [.duration d] => .ok (.long d)
  | .toSeconds, [.duration d] => .ok (.long (Int.tdiv d 1000))          -- `Int64` division truncates
  | .toMinutes, [.duration d] => .ok (.long (Int.tdiv d 60000))
  | .toHours, [.duration d] => .ok (.long (Int.tdiv d 3600000))
  | .toDays, [.duration d] => .ok (.long (Int.tdiv d 86400000))
  | _, _ => .error .type

def partialErrorName : String := "__cedar::partialError"

/-! ## `evaluate` -/

mutual
noncomputable def evaluateWith (D : DateFns) : Expr → Env → Res
  | .lit v, _ => .ok v
  | .var .principal, env => .ok env.principal
  | .var .action, env => .ok env.action
  | .var .resource, env => .ok env.resource
  | .var .context, env => .ok env.context
  | .ite c t e, env => do
      let b ← (evaluateWith D c env).bind asBool
      if b then evaluateWith D t env else evaluateWith D e env
  | .binop op l r, env =>
      match op with
      | .and => do
          let b ← (evaluateWith D l env).bind asBool
          if !b then .ok (.bool b) else
          let b' ← (evaluateWith D r env).bind asBool
          .ok (.bool b')
      | .or => do
          let b ← (evaluateWith D l env).bind asBool
          if b then .ok (.bool b) else
          let b' ← (evaluateWith D r env).bind asBool
          .ok (.bool b')
      | op => do
          let v₁ ← evaluateWith D l env
          let v₂ ← evaluateWith D r env
          apply₂ env.entities op v₁ v₂
  | .unop op e, env => do
      let v ← evaluateWith D e env
      apply₁ op v
  | .like e p, env => do
      let v ← evaluateWith D e env
      applyLike p v
  | .is e ty, env => do
      let v ← evaluateWith D e env
      applyIs ty v
  | .isIn e ty r, env => do          -- `(e is ty) && (e in r)`; `e` is pure, so it is evaluated once
      let v ← evaluateWith D e env
      let b ← (applyIs ty v).bind asBool
      if !b then .ok (.bool b) else
      let v₂ ← evaluateWith D r env
      let b' ← (apply₂ env.entities .in_ v v₂).bind asBool
      .ok (.bool b')
  | .has e a, env => do
      let v ← evaluateWith D e env
      hasAttr env.entities a v
  | .access e a, env => do
      let v ← evaluateWith D e env
      getAttr env.entities a v
  | .set es, env => do
      let vs ← evaluateList D es env
      .ok (mkSet vs)
  | .record kes, env => do
      -- a record expression is a MAP from attribute names to expressions: its entries are evaluated in
      -- key order (`canonKVs`: distinct keys ascending; a repeated key, which the Cedar parser rejects
      -- and cedar-go accepts, keeps its last entry), the first error wins.  Written as "every entry's
      -- own result, then the first error in key order" so that the recursion is structural
      -- (`evaluate_recordLit`, Lemmas/C01RefineEval.lean: `evaluateKVs D (canonKVs kes) env`).
      let kvs ← seqKVs (canonKVs (evaluateEach D kes env))
      .ok (mkRecord kvs)
  | .call fn args, env =>
      -- cedar-go only: a residual error node left by partial evaluation
      if fn == partialErrorName && args.length == 1 then
        (do let vs ← evaluateList D args env
            match vs with
            | [.str _] => .error .partialErr
            | _ => .error .type)
      else
      match ExtFun.ofName? fn with
      | none => .error .unknownFn                       -- rejected by the Cedar parser
      | some f =>
        if f.arity != args.length then .error .arity    -- rejected by the Cedar parser
        else do
          let vs ← evaluateList D args env
          call D f vs
/-- `xs.mapM evaluate`: left to right, first error wins -/
noncomputable def evaluateList (D : DateFns) : List Expr → Env → Except Err (List Value)
  | [], _ => .ok []
  | e :: es, env => do
      let v ← evaluateWith D e env
      let vs ← evaluateList D es env
      .ok (v :: vs)
/-- every entry of a record expression with its own result -/
noncomputable def evaluateEach (D : DateFns) : List (String × Expr) → Env → List (String × Res)
  | [], _ => []
  | (k, e) :: kes, env => (k, evaluateWith D e env) :: evaluateEach D kes env
end

/-- `axs.mapM (bindAttr a (evaluate x))`: entries in the given order, first error wins -/
noncomputable def evaluateKVs (D : DateFns) : List (String × Expr) → Env → Except Err (List (String × Value))
  | [], _ => .ok []
  | (k, e) :: kes, env => do
      let v ← evaluateWith D e env
      let vs ← evaluateKVs D kes env
      .ok ((k, v) :: vs)

/-- **The specification**: Cedar's `evaluate` with the specification's `toDate` / `toTime`. -/
noncomputable def evaluate (e : Expr) (env : Env) : Res := evaluateWith cedarDates e env

end CedarGo.Spec
