/-
  Driver ops for C09.
-/
import CedarGo.Driver.Ops.Core
namespace CedarGo.Driver
open Lean CedarGo

def c09Ops : List (String × Handler) := []

end CedarGo.Driver
