/-
  Driver ops for C09: the JSON policy codec model (Model/Json/Policy.lean).

    json-encode     {"policy": p}            → canonical tree of `toJ p` (set VALUES inside literals sorted)
    json-decode     {"doc": "<json text>"}   → `ok <canonical policy>` | `err` | `panic`; `skip …` when the tree
                                               does not determine Go's behaviour
    jsonset-encode  {"policies": [[id,p],…]} → canonical tree of `PolicySet.MarshalJSON`
    jsonset-decode  {"doc"}                  → `ok id=<policy>;…` sorted by id
    c09-cross       {"policy": p, "chain": "J"|"T"}  → the MODEL's cross-format pipeline, every stage rendered canonically:
                      chain J:  p →json→ q1 →text→ q2 →json→ q3 →text→ q4     `j=<q1> t=<q2> j=<q3> t=<q4>`
                      chain T:  p →text→ r1 →json→ r2 →text→ r3               `t=<r1> j=<r2> t=<r3>`
                    →json→ = `fromJ ∘ toJ` (Policy.MarshalJSON, UnmarshalJSON), →text→ = `parsePolicy ∘ pieceToks ∘ marshalPolicy`
                    (Policy.MarshalCedar, UnmarshalCedar); a refused stage is `err` and ends the chain; `skip` when a
                    policy to be written as text is outside the modelled domain of the marshaller (`policyModelled`)
-/
import CedarGo.Driver.Ops.C13
import CedarGo.Model.Json.Policy
import CedarGo.Model.Text.Marshal
import CedarGo.Model.Text.Parser
namespace CedarGo.Driver
open Lean CedarGo CedarGo.JsonModel

/-- set values have no order: sort members by the canonical rendering of their encoding (Go: hash order) -/
partial def canonValueC09 : Value → Value
  | .set xs =>
    let ys := xs.map canonValueC09
    let keyed := ys.map fun y => (canonVC13 (encodeValue y), y)
    .set ((sortStrs (keyed.map (·.1))).filterMap fun k => (keyed.find? (·.1 == k)).map (·.2))
  | .record kvs => .record (kvs.map fun kv => (kv.1, canonValueC09 kv.2))
  | v => v

partial def canonLitsC09 : Expr → Expr
  | .lit v => .lit (canonValueC09 v)
  | .var v => .var v
  | .unop op e => .unop op (canonLitsC09 e)
  | .binop op l r => .binop op (canonLitsC09 l) (canonLitsC09 r)
  | .ite c t e => .ite (canonLitsC09 c) (canonLitsC09 t) (canonLitsC09 e)
  | .access e a => .access (canonLitsC09 e) a
  | .has e a => .has (canonLitsC09 e) a
  | .like e p => .like (canonLitsC09 e) p
  | .is e ty => .is (canonLitsC09 e) ty
  | .isIn e ty r => .isIn (canonLitsC09 e) ty (canonLitsC09 r)
  | .set es => .set (es.map canonLitsC09)
  | .record kes => .record (kes.map fun ke => (ke.1, canonLitsC09 ke.2))
  | .call fn args => .call fn (args.map canonLitsC09)

def canonPolicyLitsC09 (p : Policy) : Policy :=
  { p with conditions := p.conditions.map fun c => (c.1, canonLitsC09 c.2) }

def showPatternC09 (p : Pattern) : String :=
  "[" ++ ",".intercalate (p.map fun c => (if c.wildcard then "w" else "l") ++ hexBytes c.literal) ++ "]"

partial def showExprC09 : Expr → String
  | .lit v => s!"(lit {showValue v})"
  | .var v => s!"(var {varName v})"
  | .unop op e => s!"(un {unOpKey op} {showExprC09 e})"
  | .binop op l r => s!"(bin {binOpKey op} {showExprC09 l} {showExprC09 r})"
  | .ite c t e => s!"(ite {showExprC09 c} {showExprC09 t} {showExprC09 e})"
  | .access e a => s!"(. {showExprC09 e} {hex a})"
  | .has e a => s!"(has {showExprC09 e} {hex a})"
  | .like e p => s!"(like {showExprC09 e} {showPatternC09 p})"
  | .is e ty => s!"(is {showExprC09 e} {hex ty})"
  | .isIn e ty r => s!"(isin {showExprC09 e} {hex ty} {showExprC09 r})"
  | .set es => "(set" ++ String.join (es.map fun e => " " ++ showExprC09 e) ++ ")"
  | .record kes => "(rec" ++ String.join ((sortDedup (kes.map fun ke => hex ke.1 ++ "=" ++ showExprC09 ke.2)).map (" " ++ ·)) ++ ")"
  | .call fn args => s!"(call {hex fn}" ++ String.join (args.map fun e => " " ++ showExprC09 e) ++ ")"

def showUIDC09 (u : UID) : String := s!"{hex u.1}:{hex u.2}"

def showScopeC09 : Scope → String
  | .all => "all"
  | .eq e => s!"eq {showUIDC09 e}"
  | .in_ e => s!"in {showUIDC09 e}"
  | .inSet es => "inset [" ++ ",".intercalate (es.map showUIDC09) ++ "]"
  | .is ty => s!"is {hex ty}"
  | .isIn ty e => s!"isin {hex ty} {showUIDC09 e}"

def showPolicyC09 (p : Policy) : String :=
  (match p.effect with | .permit => "permit" | .forbid => "forbid")
  ++ " ann=[" ++ ",".intercalate (sortDedup (p.annotations.map fun kv => hex kv.1 ++ "=" ++ hex kv.2)) ++ "]"
  ++ " P=" ++ showScopeC09 p.principal ++ " A=" ++ showScopeC09 p.action ++ " R=" ++ showScopeC09 p.resource
  ++ String.join (p.conditions.map fun c => (if c.1 then " when " else " unless ") ++ showExprC09 c.2)

/-- every `like` literal is valid UTF-8 (otherwise the Go string is outside the model: `skip`) -/
partial def validPatternsC09 : Expr → Bool
  | .unop _ e => validPatternsC09 e
  | .binop _ l r => validPatternsC09 l && validPatternsC09 r
  | .ite c t e => validPatternsC09 c && validPatternsC09 t && validPatternsC09 e
  | .access e _ => validPatternsC09 e
  | .has e _ => validPatternsC09 e
  | .like e p => (p.all fun c => bytesValid c.literal) && validPatternsC09 e
  | .is e _ => validPatternsC09 e
  | .isIn e _ r => validPatternsC09 e && validPatternsC09 r
  | .set es => es.all validPatternsC09
  | .record kes => kes.all fun ke => validPatternsC09 ke.2
  | .call _ args => args.all validPatternsC09
  | _ => true

def opJsonEncode : Handler := fun _ j => do
  let p ← decPolicy (← field j "policy")
  if !(p.conditions.all fun c => validPatternsC09 c.2) then .error "invalid-utf8-pattern" else
  .ok (toJ (canonPolicyLitsC09 p)).canon

def opJsonDecode : Handler := fun _ j => do
  showRC13 showPolicyC09 (fromJ (← parseDocC13 j))

def showSetC09 (ps : List (PolicyID × Policy)) : String :=
  ";".intercalate (sortDedup (ps.map fun ip => hex ip.1 ++ "=" ++ showPolicyC09 ip.2))

def opJsonSetEncode : Handler := fun _ j => do
  let ps ← decPolicies (← field j "policies")
  .ok (setToJ (ps.map fun ip => (ip.1, canonPolicyLitsC09 ip.2))).canon

def opJsonSetDecode : Handler := fun _ j => do
  showRC13 showSetC09 (setFromJ (← parseDocC13 j))

/-- one stage of a cross-format chain: `.ok none` = the stage refused its input (`err`) -/
def jsonStageC09 (p : Policy) : D (Option Policy) :=
  match fromJ (toJ (canonPolicyLitsC09 p)) with
  | .ok q => .ok (some q)
  | .error .reject => .ok none
  | .error .panic => .error "model-panic"
  | .error .unmodelled => .error "tree-does-not-determine"

def textStageC09 (p : Policy) : D (Option Policy) :=
  if !Text.policyModelled p then .error "unmodelled-policy" else
  match Text.parsePolicy (Text.pieceToks (Text.marshalPolicy p)) with
  | none => .error "fuel"
  | some (.error _) => .ok none
  | some (.ok q) => .ok (some q)

/-- run the stages in order; the rendering stops after the first refused stage -/
def runChainC09 : List (Bool × String) → Policy → String → D String
  | [], _, acc => .ok acc
  | (isJson, label) :: rest, p, acc => do
    let r ← if isJson then jsonStageC09 p else textStageC09 p
    let sep := if acc.isEmpty then "" else " "
    match r with
    | none => .ok (acc ++ sep ++ label ++ "=err")
    | some q => runChainC09 rest q (acc ++ sep ++ label ++ "=" ++ showPolicyC09 q)

def opCrossC09 : Handler := fun _ j => do
  let p ← decPolicy (← field j "policy")
  if !(p.conditions.all fun c => validPatternsC09 c.2) then .error "invalid-utf8-pattern" else
  let chain ← jStr (← field j "chain")
  if chain == "J" then runChainC09 [(true, "j"), (false, "t"), (true, "j"), (false, "t")] p ""
  else if chain == "T" then runChainC09 [(false, "t"), (true, "j"), (false, "t")] p ""
  else .error "bad chain"

def c09Ops : List (String × Handler) :=
  [("json-encode", opJsonEncode), ("json-decode", opJsonDecode),
   ("jsonset-encode", opJsonSetEncode), ("jsonset-decode", opJsonSetDecode), ("c09-cross", opCrossC09)]

end CedarGo.Driver
