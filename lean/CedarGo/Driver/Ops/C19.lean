/-
  Driver ops for C19.
-/
import CedarGo.Driver.Ops.Core
namespace CedarGo.Driver
open Lean CedarGo

def c19Ops : List (String × Handler) := []

end CedarGo.Driver
