/-
  Driver ops for C19.  C19 has no correspondence op: its model (CedarGo/Model/Heap.lean) is an abstract heap
  with interleavings, which no execution of the Go code can be lined up against (DESIGN §4 C19); the tie to the
  source is the write-set extractor (factgen/c19.go) plus the race/immutability search of the harness.
  The import keeps the heap model inside the core library build.
-/
import CedarGo.Driver.Ops.Core
import CedarGo.Model.Heap
namespace CedarGo.Driver
open Lean CedarGo

def c19Ops : List (String × Handler) := []

end CedarGo.Driver
