/-
  Driver ops for C20.
-/
import CedarGo.Driver.Ops.Core
namespace CedarGo.Driver
open Lean CedarGo

def c20Ops : List (String × Handler) := []

end CedarGo.Driver
