/-
  Driver ops for C20: one line = one history over a policy set.
-/
import CedarGo.Driver.Ops.Core
import CedarGo.Model.PolicySet
namespace CedarGo.Driver
open Lean CedarGo

/-- `pset`: run a history; policies are referred to by index into `policies` and identified in
    `get` outputs by their annotation `k` (annotations survive the JSON round trip, positions do not) -/
def opPset : Handler := fun envs j => do
  let pols ← (← jArr (← field j "policies")).mapM decPolicy
  let ops ← jArr (← field j "ops")
  let mut s : PS := []
  let mut outs : List String := []
  for o in ops do
    match ← jArr o with
    | [.str "add", i, k] =>
      let id ← jHex i
      let k ← jNat k
      match pols[k]? with
      | some p => let (s', b) := s.add id p; s := s'; outs := outs ++ [toString b]
      | none => throw "bad policy index"
    | [.str "remove", i] =>
      let (s', b) := s.remove (← jHex i); s := s'; outs := outs ++ [toString b]
    | [.str "get", i] =>
      match s.get (← jHex i) with
      | some p => outs := outs ++ ["p" ++ ((p.annotations.lookup "k").getD "?")]
      | none => outs := outs ++ ["none"]
    | [.str "reset", entries] =>
      -- `UnmarshalJSON` into the existing set: the contents are REPLACED by the document's
      let mut t : PS := []
      for e in ← jArr entries do
        match ← jArr e with
        | [i, k] =>
          match pols[(← jNat k)]? with
          | some p => t := (t.add (← jHex i) p).1
          | none => throw "bad policy index"
        | _ => throw "bad reset entry"
      s := t; outs := outs ++ ["reset"]
    | [.str "ids"] => outs := outs ++ [",".intercalate (s.ids.map hex)]
    | [.str "len"] => outs := outs ++ [toString s.length]
    | [.str "authz", .str k] =>
      match envs[k]? with
      | some env => outs := outs ++ [showAuthz (authorize s env)]
      | none => throw s!"unknown envref {k}"
    | _ => throw "bad pset op"
  .ok (";".intercalate outs)

def c20Ops : List (String × Handler) := [("pset", opPset)]

end CedarGo.Driver
