/-
  Driver ops for C06.
    partial : {policy, env, impl:{keep, policy?}} → "dom=0|1 domI=0|1 agree" | "dom=0|1 domI=0|1 differ model=… impl=…"
      (`dom` = the case satisfies `partialDomain`, the premise of the keep / drop soundness theorems: no ignore marker
       is met; `domI` = the ignore-widening theorem applies: no record literal repeats a key)
      runs `partialPolicy` (Model/Partial.lean) on the policy and the partial environment (unknowns / ignore
      markers arrive as the reserved entities) and compares the model's residual with the implementation's
      residual AST after canonical rendering (`showExpr`; the message inside `__cedar::partialError(..)` is masked).
    partial-show : {policy, env} → "dropped" | "kept <policy>"   (model output only, for diagnosis)
-/
import CedarGo.Driver.Ops.Core
import CedarGo.Model.Partial
namespace CedarGo.Driver
open Lean CedarGo

def showPattern (p : Pattern) : String :=
  "".intercalate (p.map fun c => (if c.wildcard then "*" else "") ++ "'" ++ hexBytes c.literal ++ "'")

def BinOp.name : BinOp → String
  | .and => "and" | .or => "or" | .eq => "eq" | .ne => "ne" | .lt => "lt" | .le => "le" | .gt => "gt" | .ge => "ge"
  | .add => "add" | .sub => "sub" | .mul => "mul" | .in_ => "in" | .contains => "contains"
  | .containsAll => "containsAll" | .containsAny => "containsAny" | .getTag => "getTag" | .hasTag => "hasTag"

def UnOp.name : UnOp → String | .not => "not" | .neg => "neg" | .isEmpty => "isEmpty"

def Var.name : Var → String
  | .principal => "principal" | .action => "action" | .resource => "resource" | .context => "context"

/-- canonical rendering of an expression: literals by `showValue` (sets sorted), everything else structural -/
partial def showExpr : Expr → String
  | .lit v => showValue v
  | .var v => Var.name v
  | .unop op e => s!"({UnOp.name op} {showExpr e})"
  | .binop op l r => s!"({BinOp.name op} {showExpr l} {showExpr r})"
  | .ite c t e => s!"(if {showExpr c} {showExpr t} {showExpr e})"
  | .access e a => s!"(. {showExpr e} {hex a})"
  | .has e a => s!"(has {showExpr e} {hex a})"
  | .like e p => s!"(like {showExpr e} {showPattern p})"
  | .is e ty => s!"(is {showExpr e} {hex ty})"
  | .isIn e ty r => s!"(isIn {showExpr e} {hex ty} {showExpr r})"
  | .set es => "(set " ++ " ".intercalate (es.map showExpr) ++ ")"
  | .record kes => "(rec " ++ " ".intercalate (kes.map fun ke => s!"{hex ke.1}={showExpr ke.2}") ++ ")"
  | .call fn args =>
    if fn == partialErrorName && args.length == 1 then "(perr)"
    else s!"(call {hex fn} " ++ " ".intercalate (args.map showExpr) ++ ")"

def showUID (u : UID) : String := s!"{hex u.1}:{hex u.2}"

def showScope : Scope → String
  | .all => "all"
  | .eq e => s!"(eq {showUID e})"
  | .in_ e => s!"(in {showUID e})"
  | .inSet es => "(inSet " ++ " ".intercalate (es.map showUID) ++ ")"
  | .is t => s!"(is {hex t})"
  | .isIn t e => s!"(isIn {hex t} {showUID e})"

def showPolicy (p : Policy) : String :=
  (if p.effect == .permit then "permit" else "forbid")
    ++ " @[" ++ ",".intercalate (p.annotations.map fun a => s!"{hex a.1}={hex a.2}") ++ "]"
    ++ s!" P={showScope p.principal} A={showScope p.action} R={showScope p.resource} pos={showPos p.position} "
    ++ " ".intercalate (p.conditions.map fun c => (if c.1 then "when " else "unless ") ++ showExpr c.2)

def showPartial : Option Policy → String
  | none => "dropped"
  | some p => "kept " ++ showPolicy p

/-- the store comes from `envref` (or a whole `env`); `parts`, when present, overrides the four request parts -/
def getEnvWithParts (envs : Envs) (j : Json) : D Env := do
  let env ← getEnv envs j
  match j.getObjVal? "parts" with
  | .ok p =>
    .ok { env with
      principal := ← decValue (← field p "principal"), action := ← decValue (← field p "action"),
      resource := ← decValue (← field p "resource"), context := ← decValue (← field p "context") }
  | .error _ => .ok env

def opPartialShow : Handler := fun envs j => do
  let p ← decPolicy (← field j "policy")
  let env ← getEnvWithParts envs j
  .ok (showPartial (partialPolicy env p))

def opPartial : Handler := fun envs j => do
  let p ← decPolicy (← field j "policy")
  let env ← getEnvWithParts envs j
  let impl ← field j "impl"
  let keep ← jBool (← field impl "keep")
  let implRes ← if keep then do let q ← decPolicy (← field impl "policy"); pure (some q) else pure none
  let m := showPartial (partialPolicy env p)
  let i := showPartial implRes
  -- `domI`: the ignore-widening theorem only asks that no record literal repeats a key (1 for every parsed/decoded policy)
  let dom := (if partialDomain env p then "dom=1" else "dom=0") ++ (if p.recKeysDistinct then " domI=1" else " domI=0")
  .ok (dom ++ " " ++ (if m == i then "agree" else s!"differ model={m} impl={i}"))

def c06Ops : List (String × Handler) := [("partial", opPartial), ("partial-show", opPartialShow)]

end CedarGo.Driver
