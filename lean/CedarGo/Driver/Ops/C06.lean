/-
  Driver ops for C06.
-/
import CedarGo.Driver.Ops.Core
namespace CedarGo.Driver
open Lean CedarGo

def c06Ops : List (String × Handler) := []

end CedarGo.Driver
