/-
  Driver ops for C18.
-/
import CedarGo.Driver.Ops.Core
namespace CedarGo.Driver
open Lean CedarGo

def c18Ops : List (String × Handler) := []

end CedarGo.Driver
