/-
  Driver ops for C18.
  `lex`  {"src": hex}                                  → pure lexer on the whole byte string
  `scan` {"src": hex, "chunks":[n…], "buflen": n, "final": "eof"|"eofdata"|"fail", "failat": k?}
         → the buffered scanner model under the given reader schedule
  Output: `ok type:offset:line:col:hextext,…` (type 0 EOF,1 ident,2 int,3 keyword,4 string,5 operator,6 unknown) or `err`.
-/
import CedarGo.Driver.Ops.Core
import CedarGo.Model.Text.Scanner
namespace CedarGo.Driver
open Lean CedarGo CedarGo.Text CedarGo.Text.Lx

def tokTypeCode : TokType → Nat
  | .eof => 0 | .ident => 1 | .int => 2 | .keyword => 3 | .string => 4 | .operator => 5 | .unknown => 6

def showRawTok (t : RawTok) : String :=
  s!"{tokTypeCode t.ty}:{t.pos.offset}:{t.pos.line}:{t.pos.column}:{hexBytes t.text}"

def showLex : Except LexErr (List RawTok) → String
  | .ok ts => "ok " ++ ",".intercalate (ts.map showRawTok)
  | .error .fuel => "model-out-of-fuel"
  | .error _ => "err"

def opLex : Handler := fun _ j => do
  let src ← unhexBytes (← jStr (← field j "src"))
  .ok (showLex (rawTokens src))

/-- chunk sizes must add up to the number of bytes the reader delivers (= |src|, or the failure position) -/
def opScan : Handler := fun _ j => do
  let src ← unhexBytes (← jStr (← field j "src"))
  let sizes ← (← jArr (← field j "chunks")).mapM jNat
  let bufLen ← jNat (← field j "buflen")
  let final ← match ← jStr (← field j "final") with
    | "eof" => pure Final.eof | "eofdata" => pure Final.eofData | "fail" => pure Final.fail
    | s => throw s!"bad final {s}"
  if bufLen < 4 then throw "buflen < 4" else
  let total := sizes.foldl (· + ·) 0
  if total > src.length then throw "chunks exceed src" else
  if final != .fail && total != src.length then throw "chunks do not cover src" else
  .ok (showLex (scan bufLen ⟨chunksOf sizes (src.take total), final⟩))

def c18Ops : List (String × Handler) := [("lex", opLex), ("scan", opScan)]

end CedarGo.Driver
