/-
  Driver ops for C05.
-/
import CedarGo.Driver.Ops.Core
namespace CedarGo.Driver
open Lean CedarGo

def c05Ops : List (String × Handler) := []

end CedarGo.Driver
