/-
  Driver ops for C05.
    clonesub : {value, key, with, impl, implChanged} → "agree" | "differ …"
      `batch.cloneSub` against `Model/Batch.lean`.  Go iterates a map in the record case, so which of several
      fields bearing the variable is replaced is not determined: the op accepts any member of the set of outcomes
      the model can produce under some iteration order (`cloneSubAll`); where every record has at most one bearing
      field that set is the singleton `{cloneSub …}` and the comparison is exact.
    batch    : {policies, env (template + store), orders: [[ [name, [values…]] … ] …], impl} → "agree" | "differ …"
      the whole enumeration (`batchAuthorize`: staged partial evaluation, substitution, final authorization) for each
      candidate variable order (batch sorts by list length; ties are unspecified); agrees if the implementation's
      canonical result multiset equals the model's for one of the orders.
-/
import CedarGo.Driver.Ops.Core
import CedarGo.Model.Batch
namespace CedarGo.Driver
open Lean CedarGo

/-- all outcomes of `cloneSub` over all iteration orders of the records involved -/
partial def cloneSubAll (k : String) (v : Value) : Value → List (Value × Bool)
  | .entity ty id => if ty == variableEntityType && id == k then [(v, true)] else [(.entity ty id, false)]
  | .record kvs =>
    -- any field that can change may be "the first one"
    let cands := (List.range kvs.length).flatMap fun i =>
      match kvs[i]? with
      | none => []
      | some (kk, vv) =>
        ((cloneSubAll k v vv).filter (·.2)).map fun (vv', _) =>
          (Value.record (kvs.take i ++ [(kk, vv')] ++ kvs.drop (i + 1)), true)
    if cands.isEmpty then [(.record kvs, false)] else cands
  | .set xs =>
    let outs := xs.map (cloneSubAll k v)
    if outs.any (fun os => os.any (·.2)) then
      -- every member is rewritten; a member with several outcomes multiplies the possibilities
      let combos := outs.foldr (fun os acc => os.flatMap fun o => acc.map (o.1 :: ·)) [[]]
      combos.map fun ms => (mkSet ms, true)
    else [(.set xs, false)]
  | x => [(x, false)]

def opCloneSub : Handler := fun _ j => do
  let r ← decValue (← field j "value")
  let k ← jHex (← field j "key")
  let v ← decValue (← field j "with")
  let impl ← decValue (← field j "impl")
  let implChanged ← jBool (← field j "implChanged")
  let m := cloneSub k v r
  let implS := showValue impl
  if r.oneBearing k then
    if showValue m.1 == implS && m.2 == implChanged then .ok "agree"
    else .ok s!"differ (exact) model={showValue m.1},{m.2} impl={implS},{implChanged}"
  else
    let all := cloneSubAll k v r
    if all.any (fun o => showValue o.1 == implS && o.2 == implChanged) then .ok "agree"
    else .ok s!"differ (no iteration order gives it) model={showValue m.1},{m.2} impl={implS},{implChanged}"

def showVals (vals : List (String × Value)) : String :=
  ";".intercalate (sortDedup (vals.map fun kv => s!"{hex kv.1}={showValue kv.2}"))

def showBResult (r : BResult) : String :=
  let reasons := sortDedup (r.reasons.map fun (i, _) => hex i)
  let errors := sortDedup (r.errors.map fun (i, _, _) => hex i)
  s!"{showVals r.values}|{showValue r.principal}|{showValue r.action}|{showValue r.resource}|{showValue r.context}|"
    ++ (if r.allow then "allow" else "deny") ++ "|" ++ ",".intercalate reasons ++ "|" ++ ",".intercalate errors

/-- sorted with multiplicity (the callback multiset) -/
def insertSortedDup (s : String) : List String → List String
  | [] => [s]
  | x :: xs => if s ≤ x then s :: x :: xs else x :: insertSortedDup s xs

def showRun (r : BRun Unit) : String :=
  let (calls, tail) := match r with
    | .ok calls => (calls, "")
    | .error (.cancelled, calls) => (calls, " ERR cancelled")
    | .error (.invalidPart, calls) => (calls, " ERR invalid-part")
    | .error (.callback _, calls) => (calls, " ERR callback")
  " ## ".intercalate ((calls.map showBResult).foldl (fun acc s => insertSortedDup s acc) []) ++ tail

def decVars (j : Json) : D (List (String × List Value)) := do
  (← jArr j).mapM fun kv => do
    match ← jArr kv with
    | [k, vs] => .ok ((← jHex k), (← (← jArr vs).mapM decValue))
    | _ => .error "bad variable entry"

/-- the store comes from `envref` (or a whole `env`); `parts`, when present, overrides the four request parts -/
def getEnvParts (envs : Envs) (j : Json) : D Env := do
  let env ← getEnv envs j
  match j.getObjVal? "parts" with
  | .ok p =>
    .ok { env with
      principal := ← decValue (← field p "principal"), action := ← decValue (← field p "action"),
      resource := ← decValue (← field p "resource"), context := ← decValue (← field p "context") }
  | .error _ => .ok env

def opBatch : Handler := fun envs j => do
  let ps ← decPolicies (← field j "policies")
  let env ← getEnvParts envs j
  let orders ← (← jArr (← field j "orders")).mapM decVars
  let impl ← jStr (← field j "impl")
  let outs := orders.map fun vars => showRun (batchAuthorize (fun _ => false) (fun _ => .ok ()) vars env ps)
  if outs.any (· == impl) then .ok "agree"
  else .ok s!"differ model={outs.headD "<no order>"} impl={impl}"

def c05Ops : List (String × Handler) := [("clonesub", opCloneSub), ("batch", opBatch)]

end CedarGo.Driver
