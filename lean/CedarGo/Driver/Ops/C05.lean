/-
  Driver ops for C05.
    clonesub : {value, key, with, impl, implChanged} → "agree" | "differ …"
      `batch.cloneSub` against `Model/Batch.lean`, exact (value after canonical rendering, and the change flag).
      Since the repair of `clonesub-second-occurrence` the result no longer depends on Go's map iteration order.
    batch    : {policies, env (template + store), orders: [[ [name, [values…]] … ] …], impl} → "agree" | "differ …"
      the whole enumeration (`batchAuthorize`: staged partial evaluation, substitution, final authorization) for each
      candidate variable order (batch sorts by list length, then by name — `bindingOrder` in Model/BatchOrder.lean;
      the harness sends that one order since the repair of `batch-variable-order-error-message`, before it sent every
      order consistent with the lengths); agrees if the implementation's canonical result multiset equals the
      model's for one of the orders.
-/
import CedarGo.Driver.Ops.Core
import CedarGo.Model.Batch
namespace CedarGo.Driver
open Lean CedarGo

def opCloneSub : Handler := fun _ j => do
  let r ← decValue (← field j "value")
  let k ← jHex (← field j "key")
  let v ← decValue (← field j "with")
  let impl ← decValue (← field j "impl")
  let implChanged ← jBool (← field j "implChanged")
  let m := cloneSub k v r
  let implS := showValue impl
  if showValue m.1 == implS && m.2 == implChanged then .ok "agree"
  else .ok s!"differ model={showValue m.1},{m.2} impl={implS},{implChanged}"

def showVals (vals : List (String × Value)) : String :=
  ";".intercalate (sortDedup (vals.map fun kv => s!"{hex kv.1}={showValue kv.2}"))

def showBResult (r : BResult) : String :=
  let reasons := sortDedup (r.reasons.map fun (i, _) => hex i)
  let errors := sortDedup (r.errors.map fun (i, _, _) => hex i)
  s!"{showVals r.values}|{showValue r.principal}|{showValue r.action}|{showValue r.resource}|{showValue r.context}|"
    ++ (if r.allow then "allow" else "deny") ++ "|" ++ ",".intercalate reasons ++ "|" ++ ",".intercalate errors

/-- sorted with multiplicity (the callback multiset) -/
def insertSortedDup (s : String) : List String → List String
  | [] => [s]
  | x :: xs => if s ≤ x then s :: x :: xs else x :: insertSortedDup s xs

def showRun (r : BRun Unit) : String :=
  let (calls, tail) := match r with
    | .ok calls => (calls, "")
    | .error (.cancelled, calls) => (calls, " ERR cancelled")
    | .error (.invalidPart, calls) => (calls, " ERR invalid-part")
    | .error (.callback _, calls) => (calls, " ERR callback")
  " ## ".intercalate ((calls.map showBResult).foldl (fun acc s => insertSortedDup s acc) []) ++ tail

def decVars (j : Json) : D (List (String × List Value)) := do
  (← jArr j).mapM fun kv => do
    match ← jArr kv with
    | [k, vs] => .ok ((← jHex k), (← (← jArr vs).mapM decValue))
    | _ => .error "bad variable entry"

/-- the store comes from `envref` (or a whole `env`); `parts`, when present, overrides the four request parts -/
def getEnvParts (envs : Envs) (j : Json) : D Env := do
  let env ← getEnv envs j
  match j.getObjVal? "parts" with
  | .ok p =>
    .ok { env with
      principal := ← decValue (← field p "principal"), action := ← decValue (← field p "action"),
      resource := ← decValue (← field p "resource"), context := ← decValue (← field p "context") }
  | .error _ => .ok env

def opBatch : Handler := fun envs j => do
  let ps ← decPolicies (← field j "policies")
  let env ← getEnvParts envs j
  let orders ← (← jArr (← field j "orders")).mapM decVars
  let impl ← jStr (← field j "impl")
  let outs := orders.map fun vars => showRun (batchAuthorize (fun _ => false) (fun _ => .ok ()) vars env ps)
  if outs.any (· == impl) then .ok "agree"
  else .ok s!"differ model={outs.headD "<no order>"} impl={impl}"

def c05Ops : List (String × Handler) := [("clonesub", opCloneSub), ("batch", opBatch)]

end CedarGo.Driver
