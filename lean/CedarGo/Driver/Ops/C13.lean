/-
  Driver ops for C13: the value / entity / request JSON codec models (Model/Json/Value.lean).

    vjson-encode  {"value": v}            → canonical tree of `encodeValue v` (arrays sorted: a value array is a set)
    vjson-decode  {"doc": "<json text>"}  → `ok <showValue>` | `err` ;  `skip …` when the tree does not determine Go's behaviour
    uid-decode    {"doc"}                 → typed position `EntityUID.UnmarshalJSON`
    ext-decode    {"kind","doc"}          → typed position `Decimal/Datetime/Duration/IPAddr.UnmarshalJSON`
    ejson-encode  {"entities": es}        → canonical tree of `EntityMap.MarshalJSON`
    ejson-decode  {"doc"}                 → canonical rendering of the decoded entity map
    rjson-encode / rjson-decode           → requests
    coerce        {"value": v, "type": t} → schema-guided coercion of one value (`coerceValue`)

  second round (entity maps with their array order, Diagnostic / Decision, nested coercion of documents):
    emjson-encode   {"entities": es}      → `EntityMap.MarshalJSON` with the ORDER of the array and of each parents list
    emjson-reencode {"doc"}               → decode, encode again (what a second Marshal prints; duplicates: last wins)
    diagjson-encode {"diag": d}           → canonical tree of `json.Marshal(Diagnostic)`
    diagjson-decode {"doc"}               → decoded Diagnostic (nil and empty slices told apart)
    decision-encode {"allow": b}          → the text `Decision.MarshalJSON` writes
    decision-decode {"text": raw}         → `ok allow` / `ok deny` / `err` (not JSON at all)
    jstr-token      {"text": tok}         → the string a JSON string token denotes (`jsonStringToken`)
    coerce-nested   {"doc", "type": t}    → unguided decode, then `coerceValue t`
    coerce-entity   {"doc", "shape", "tags", "declared"} → unguided decode of an entity, then `coerceEntity`
-/
import CedarGo.Driver.Ops.Core
import CedarGo.Model.Json.Value
import CedarGo.Model.Json.EntityMap
import CedarGo.Model.Json.Diagnostic
import CedarGo.Model.Json.Coerce
namespace CedarGo.Driver
open Lean CedarGo CedarGo.JsonModel

/-- canonical rendering with every array sorted (value documents: arrays are sets) -/
partial def canonVC13 : J → String
  | .arr xs => "[" ++ ",".intercalate (sortStrs (xs.map canonVC13)) ++ "]"
  | .obj kvs => "{" ++ ",".intercalate (kvs.map fun kv => hexStr kv.1 ++ ":" ++ canonVC13 kv.2) ++ "}"
  | j => j.canon

def parseDocC13 (j : Json) : D J := do
  let s ← jStr (← field j "doc")
  match Json.parse s with
  | .ok t => .ok (J.ofJson t)
  | .error e => .error s!"unparsable-doc {e}"

def showRC13 {α} (sh : α → String) : R α → D String
  | .ok a => .ok ("ok " ++ sh a)
  | .error .reject => .ok "err"
  | .error .panic => .ok "panic"
  | .error .unmodelled => .error "tree-does-not-determine"

def showUIDC13 (u : UID) : String := s!"E{hex u.1}:{hex u.2}"

def showKVsC13 (kvs : List (String × Value)) : String := showValue (.record kvs)

def showEntityC13 (e : UID × EntityData) : String :=
  showUIDC13 e.1 ++ " parents=[" ++ ",".intercalate (sortDedup (e.2.parents.map showUIDC13)) ++ "] attrs=" ++ showKVsC13 e.2.attrs
    ++ " tags=" ++ showKVsC13 e.2.tags

def showEntitiesC13 (es : Entities) : String := ";".intercalate (sortDedup (es.map showEntityC13))

def showRequestC13 (r : RequestM) : String :=
  s!"P={showUIDC13 r.principal} A={showUIDC13 r.action} R={showUIDC13 r.resource} C={showKVsC13 r.context}"

def opVJsonEncode : Handler := fun _ j => do
  let v ← decValue (← field j "value")
  .ok (canonVC13 (encodeValue v))

def opVJsonDecode : Handler := fun _ j => do
  showRC13 showValue (decodeValue (← parseDocC13 j))

def opUIDDecode : Handler := fun _ j => do
  showRC13 showUIDC13 (decodeUID (← parseDocC13 j))

def opExtDecode : Handler := fun _ j => do
  let kind ← jStr (← field j "kind")
  let t ← parseDocC13 j
  let r ← match kind with
    | "decimal" => pure (decodeDecimalTyped t)
    | "datetime" => pure (decodeDatetimeTyped t)
    | "duration" => pure (decodeDurationTyped t)
    | "ip" => pure (decodeIPTyped t)
    | _ => .error "bad kind"
  showRC13 showValue r

def opEJsonEncode : Handler := fun _ j => do
  let es ← decEntities (← field j "entities")
  .ok (canonVC13 (encodeEntities es))

def opEJsonDecode : Handler := fun _ j => do
  showRC13 showEntitiesC13 (decodeEntities (← parseDocC13 j))

def decRequestC13 (j : Json) : D RequestM := do
  let kvs ← match ← decValue (← field j "context") with
    | .record kvs => pure kvs
    | _ => .error "context not a record"
  .ok ⟨← decUID (← field j "principal"), ← decUID (← field j "action"), ← decUID (← field j "resource"), kvs⟩

def opRJsonEncode : Handler := fun _ j => do
  let r ← decRequestC13 (← field j "request")
  .ok (canonVC13 (encodeRequest r))

def opRJsonDecode : Handler := fun _ j => do
  showRC13 showRequestC13 (decodeRequest (← parseDocC13 j))

partial def decSTyC13 (j : Json) : D STy := do
  match ← jArr j with
  | [.str "str"] => .ok .str
  | [.str "long"] => .ok .long
  | [.str "bool"] => .ok .bool
  | [.str "entity", t] => .ok (.entity (← jHex t))
  | [.str "ext", .str n] => .ok (.ext n)
  | [.str "set", t] => .ok (.set (← decSTyC13 t))
  | [.str "record", attrs] => do
    let as ← (← jArr attrs).mapM fun a => do
      match ← jArr a with
      | [k, t] => .ok ((← jHex k), (← decSTyC13 t))
      | _ => .error "bad attr"
    .ok (.record as)
  | _ => .error "bad type"

/-- `coerce {"value": v, "type": t}`: `coerceValue` of x/exp/types (hook `VerifCoerceValue`) -/
def opCoerceC13 : Handler := fun _ j => do
  let v ← decValue (← field j "value")
  let t ← decSTyC13 (← field j "type")
  .ok (showValue (coerceValue t v))

/-! ## second round -/

/-- entity-map documents: the outer array and each `parents` array in document order, value documents (`attrs`,
    `tags`) with sorted arrays (a value array is a set) -/
def canonEntityC13 : J → String
  | .obj kvs => "{" ++ ",".intercalate (kvs.map fun kv =>
      hexStr kv.1 ++ ":" ++ (if kv.1 == "attrs" || kv.1 == "tags" then canonVC13 kv.2 else kv.2.canon)) ++ "}"
  | j => j.canon

def canonEntityMapC13 : J → String
  | .arr xs => "[" ++ ",".intercalate (xs.map canonEntityC13) ++ "]"
  | j => j.canon

def opEMJsonEncode : Handler := fun _ j => do
  let es ← decEntities (← field j "entities")
  .ok (canonEntityMapC13 (encodeEntityMap es))

def opEMJsonReencode : Handler := fun _ j => do
  showRC13 canonEntityMapC13 (reencodeEntityMap (← parseDocC13 j))

def decPositionC13 (j : Json) : D PositionM := do
  match ← jArr j with
  | [f, o, l, c] => .ok ⟨← jHex f, ← jInt o, ← jInt l, ← jInt c⟩
  | _ => .error "bad position"

def decSliceC13 {α} (j : Json) (dec : Json → D α) : D (Option (List α)) :=
  match j with
  | .null => .ok none
  | _ => do .ok (some (← (← jArr j).mapM dec))

def decDiagC13 (j : Json) : D DiagnosticM := do
  let rs ← decSliceC13 (← field j "reasons") fun r => do
    match ← jArr r with
    | [p, pos] => .ok (⟨← jHex p, ← decPositionC13 pos⟩ : ReasonM)
    | _ => .error "bad reason"
  let es ← decSliceC13 (← field j "errors") fun e => do
    match ← jArr e with
    | [p, pos, m] => .ok (⟨← jHex p, ← decPositionC13 pos, ← jHex m⟩ : DiagErrorM)
    | _ => .error "bad error"
  .ok ⟨rs, es⟩

def showPositionC13 (p : PositionM) : String := s!"{hex p.filename}:{p.offset}:{p.line}:{p.column}"

def showSliceC13 {α} (sh : α → String) : Option (List α) → String
  | none => "nil"
  | some xs => "[" ++ ",".intercalate (xs.map sh) ++ "]"

def showDiagC13 (d : DiagnosticM) : String :=
  "R=" ++ showSliceC13 (fun (r : ReasonM) => s!"{hex r.policy}@{showPositionC13 r.position}") d.reasons ++
  " E=" ++ showSliceC13 (fun (e : DiagErrorM) => s!"{hex e.policy}@{showPositionC13 e.position}#{hex e.message}") d.errors

def opDiagJsonEncode : Handler := fun _ j => do
  .ok (encodeDiagnostic (← decDiagC13 (← field j "diag"))).canon

def opDiagJsonDecode : Handler := fun _ j => do
  showRC13 showDiagC13 (decodeDiagnostic (← parseDocC13 j))

def opDecisionEncode : Handler := fun _ j => do
  .ok (hex (encodeDecisionText (← jBool (← field j "allow"))))

/-- `json.Unmarshal(text, &decision)` where `decision` holds `recv` (absent: the zero value, Deny) before the call: a
    syntax error is reported before `UnmarshalJSON` is reached -/
def opDecisionDecode : Handler := fun _ j => do
  let raw ← jHex (← field j "text")
  let recv ← match j.getObjVal? "recv" with
    | .ok r => jBool r
    | .error _ => pure false
  match Json.parse raw with
  | .error _ => .ok "err"
  | .ok _ =>
    showRC13 (fun (d : Bool) => if d then "allow" else "deny") (decodeDecisionInto recv (trimJsonSpace raw))

def opJStrToken : Handler := fun _ j => do
  match jsonStringToken (← jHex (← field j "text")) with
  | some s => .ok ("ok S" ++ hex s)
  | none => .ok "none"

def opCoerceNested : Handler := fun _ j => do
  let t ← decSTyC13 (← field j "type")
  showRC13 showValue (decodeCoerced t (← parseDocC13 j))

def opCoerceEntity : Handler := fun _ j => do
  let declared ← jBool (← field j "declared")
  let se ← if declared then do
      let shape ← match ← decSTyC13 (← field j "shape") with
        | .record attrs => pure attrs
        | _ => .error "shape not a record type"
      let tags ← match ← field j "tags" with
        | .null => pure none
        | t => do pure (some (← decSTyC13 t))
      pure (some (⟨shape, tags⟩ : SchemaEntityM))
    else pure none
  showRC13 showEntityC13 (decodeEntityCoerced se (← parseDocC13 j))

def c13Ops : List (String × Handler) :=
  [("emjson-encode", opEMJsonEncode), ("emjson-reencode", opEMJsonReencode), ("diagjson-encode", opDiagJsonEncode),
   ("diagjson-decode", opDiagJsonDecode), ("decision-encode", opDecisionEncode), ("decision-decode", opDecisionDecode),
   ("jstr-token", opJStrToken), ("coerce-nested", opCoerceNested), ("coerce-entity", opCoerceEntity)] ++
  [("vjson-encode", opVJsonEncode), ("vjson-decode", opVJsonDecode), ("uid-decode", opUIDDecode),
   ("ext-decode", opExtDecode), ("ejson-encode", opEJsonEncode), ("ejson-decode", opEJsonDecode),
   ("rjson-encode", opRJsonEncode), ("rjson-decode", opRJsonDecode), ("coerce", opCoerceC13)]

end CedarGo.Driver
