/-
  Driver ops for C13.
-/
import CedarGo.Driver.Ops.Core
namespace CedarGo.Driver
open Lean CedarGo

def c13Ops : List (String × Handler) := []

end CedarGo.Driver
