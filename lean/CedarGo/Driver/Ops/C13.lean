/-
  Driver ops for C13: the value / entity / request JSON codec models (Model/Json/Value.lean).

    vjson-encode  {"value": v}            → canonical tree of `encodeValue v` (arrays sorted: a value array is a set)
    vjson-decode  {"doc": "<json text>"}  → `ok <showValue>` | `err` ;  `skip …` when the tree does not determine Go's behaviour
    uid-decode    {"doc"}                 → typed position `EntityUID.UnmarshalJSON`
    ext-decode    {"kind","doc"}          → typed position `Decimal/Datetime/Duration/IPAddr.UnmarshalJSON`
    ejson-encode  {"entities": es}        → canonical tree of `EntityMap.MarshalJSON`
    ejson-decode  {"doc"}                 → canonical rendering of the decoded entity map
    rjson-encode / rjson-decode           → requests
    coerce        {"value": v, "type": t} → schema-guided coercion of one value (`coerceValue`)
-/
import CedarGo.Driver.Ops.Core
import CedarGo.Model.Json.Value
namespace CedarGo.Driver
open Lean CedarGo CedarGo.JsonModel

/-- canonical rendering with every array sorted (value documents: arrays are sets) -/
partial def canonVC13 : J → String
  | .arr xs => "[" ++ ",".intercalate (sortStrs (xs.map canonVC13)) ++ "]"
  | .obj kvs => "{" ++ ",".intercalate (kvs.map fun kv => hexStr kv.1 ++ ":" ++ canonVC13 kv.2) ++ "}"
  | j => j.canon

def parseDocC13 (j : Json) : D J := do
  let s ← jStr (← field j "doc")
  match Json.parse s with
  | .ok t => .ok (J.ofJson t)
  | .error e => .error s!"unparsable-doc {e}"

def showRC13 {α} (sh : α → String) : R α → D String
  | .ok a => .ok ("ok " ++ sh a)
  | .error .reject => .ok "err"
  | .error .panic => .ok "panic"
  | .error .unmodelled => .error "tree-does-not-determine"

def showUIDC13 (u : UID) : String := s!"E{hex u.1}:{hex u.2}"

def showKVsC13 (kvs : List (String × Value)) : String := showValue (.record kvs)

def showEntityC13 (e : UID × EntityData) : String :=
  showUIDC13 e.1 ++ " parents=[" ++ ",".intercalate (sortDedup (e.2.parents.map showUIDC13)) ++ "] attrs=" ++ showKVsC13 e.2.attrs
    ++ " tags=" ++ showKVsC13 e.2.tags

def showEntitiesC13 (es : Entities) : String := ";".intercalate (sortDedup (es.map showEntityC13))

def showRequestC13 (r : RequestM) : String :=
  s!"P={showUIDC13 r.principal} A={showUIDC13 r.action} R={showUIDC13 r.resource} C={showKVsC13 r.context}"

def opVJsonEncode : Handler := fun _ j => do
  let v ← decValue (← field j "value")
  .ok (canonVC13 (encodeValue v))

def opVJsonDecode : Handler := fun _ j => do
  showRC13 showValue (decodeValue (← parseDocC13 j))

def opUIDDecode : Handler := fun _ j => do
  showRC13 showUIDC13 (decodeUID (← parseDocC13 j))

def opExtDecode : Handler := fun _ j => do
  let kind ← jStr (← field j "kind")
  let t ← parseDocC13 j
  let r ← match kind with
    | "decimal" => pure (decodeDecimalTyped t)
    | "datetime" => pure (decodeDatetimeTyped t)
    | "duration" => pure (decodeDurationTyped t)
    | "ip" => pure (decodeIPTyped t)
    | _ => .error "bad kind"
  showRC13 showValue r

def opEJsonEncode : Handler := fun _ j => do
  let es ← decEntities (← field j "entities")
  .ok (canonVC13 (encodeEntities es))

def opEJsonDecode : Handler := fun _ j => do
  showRC13 showEntitiesC13 (decodeEntities (← parseDocC13 j))

def decRequestC13 (j : Json) : D RequestM := do
  let kvs ← match ← decValue (← field j "context") with
    | .record kvs => pure kvs
    | _ => .error "context not a record"
  .ok ⟨← decUID (← field j "principal"), ← decUID (← field j "action"), ← decUID (← field j "resource"), kvs⟩

def opRJsonEncode : Handler := fun _ j => do
  let r ← decRequestC13 (← field j "request")
  .ok (canonVC13 (encodeRequest r))

def opRJsonDecode : Handler := fun _ j => do
  showRC13 showRequestC13 (decodeRequest (← parseDocC13 j))

partial def decSTyC13 (j : Json) : D STy := do
  match ← jArr j with
  | [.str "str"] => .ok .str
  | [.str "long"] => .ok .long
  | [.str "bool"] => .ok .bool
  | [.str "entity", t] => .ok (.entity (← jHex t))
  | [.str "ext", .str n] => .ok (.ext n)
  | [.str "set", t] => .ok (.set (← decSTyC13 t))
  | [.str "record", attrs] => do
    let as ← (← jArr attrs).mapM fun a => do
      match ← jArr a with
      | [k, t] => .ok ((← jHex k), (← decSTyC13 t))
      | _ => .error "bad attr"
    .ok (.record as)
  | _ => .error "bad type"

/-- `coerce {"value": v, "type": t}`: `coerceValue` of x/exp/types (hook `VerifCoerceValue`) -/
def opCoerceC13 : Handler := fun _ j => do
  let v ← decValue (← field j "value")
  let t ← decSTyC13 (← field j "type")
  .ok (showValue (coerceValue t v))

def c13Ops : List (String × Handler) :=
  [("vjson-encode", opVJsonEncode), ("vjson-decode", opVJsonDecode), ("uid-decode", opUIDDecode),
   ("ext-decode", opExtDecode), ("ejson-encode", opEJsonEncode), ("ejson-decode", opEJsonDecode),
   ("rjson-encode", opRJsonEncode), ("rjson-decode", opRJsonDecode), ("coerce", opCoerceC13)]

end CedarGo.Driver
