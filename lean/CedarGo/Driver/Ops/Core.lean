/-
  Handlers for the shared ops: eval (C01/C03/C04), authz (C02/C04/C14), fold (C04 white-box).
-/
import CedarGo.Driver.Codec
import Std.Data.HashMap
namespace CedarGo.Driver
open Lean CedarGo

def decPolicies (j : Json) : D (List (PolicyID × Policy)) := do
  (← jArr j).mapM fun ip => do
    match ← jArr ip with
    | [i, p] => .ok ((← jHex i), (← decPolicy p))
    | _ => .error "bad policy entry"

def showAuthz (r : AuthzResult) : String :=
  let reasons := sortDedup (r.reasons.map fun (i, p) => s!"{hex i}@{showPos p}")
  let errors := sortDedup (r.errors.map fun (i, p, _) => s!"{hex i}@{showPos p}")
  (if r.allow then "allow" else "deny") ++ " reasons=[" ++ ",".intercalate reasons ++ "] errors=[" ++ ",".intercalate errors ++ "]"

/-- driver state: environments defined once by `defenv` and referenced by name afterwards -/
abbrev Envs := Std.HashMap String Env

def getEnv (envs : Envs) (j : Json) : D Env :=
  match j.getObjVal? "envref" with
  | .ok (.str k) => match envs[k]? with | some e => .ok e | none => .error s!"unknown envref {k}"
  | _ => do decEnv (← field j "env")

abbrev Handler := Envs → Json → D String

def opEval : Handler := fun envs j => do
  let e ← decExpr (← field j "expr")
  let env ← getEnv envs j
  .ok (showRes (eval e env))

/-- one policy, evaluated unfolded (`Eval(PolicyToNode(ast))`) and folded (what `Authorize` runs) -/
def opPolicyEval : Handler := fun envs j => do
  let p ← decPolicy (← field j "policy")
  let env ← getEnv envs j
  .ok (showBoolRes (evalBool (policyToExpr p) env) ++ " | " ++ showBoolRes (evalBool (compile p) env))

def opAuthz : Handler := fun envs j => do
  let ps ← decPolicies (← field j "policies")
  let env ← getEnv envs j
  .ok (showAuthz (authorize ps env))

def coreOps : List (String × Handler) :=
  [("eval", opEval), ("policy-eval", opPolicyEval), ("authz", opAuthz)]

end CedarGo.Driver
