/-
  Handlers for the shared ops: eval (C01/C03/C04), authz (C02/C04/C14), fold (C04 white-box).
-/
import CedarGo.Driver.Codec
namespace CedarGo.Driver
open Lean CedarGo

def decPolicies (j : Json) : D (List (PolicyID × Policy)) := do
  (← jArr j).mapM fun ip => do
    match ← jArr ip with
    | [i, p] => .ok ((← jHex i), (← decPolicy p))
    | _ => .error "bad policy entry"

def showAuthz (r : AuthzResult) : String :=
  let reasons := sortDedup (r.reasons.map fun (i, p) => s!"{hex i}@{showPos p}")
  let errors := sortDedup (r.errors.map fun (i, p, e) => s!"{hex i}@{showPos p}!{e.name}")
  (if r.allow then "allow" else "deny") ++ " reasons=[" ++ ",".intercalate reasons ++ "] errors=[" ++ ",".intercalate errors ++ "]"

def opEval (j : Json) : D String := do
  let e ← decExpr (← field j "expr")
  let env ← decEnv (← field j "env")
  .ok (showRes (eval e env))

/-- one policy, evaluated unfolded (`Eval(PolicyToNode(ast))`) and folded (what `Authorize` runs) -/
def opPolicyEval (j : Json) : D String := do
  let p ← decPolicy (← field j "policy")
  let env ← decEnv (← field j "env")
  .ok (showBoolRes (evalBool (policyToExpr p) env) ++ " | " ++ showBoolRes (evalBool (compile p) env))

def opAuthz (j : Json) : D String := do
  let ps ← decPolicies (← field j "policies")
  let env ← decEnv (← field j "env")
  .ok (showAuthz (authorize ps env))

def coreOps : List (String × (Json → D String)) :=
  [("eval", opEval), ("policy-eval", opPolicyEval), ("authz", opAuthz)]

end CedarGo.Driver
