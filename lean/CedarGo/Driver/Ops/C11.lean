/-
  Driver ops for C11 (value equality, hashing, sets, records).
    set-ops   {"a":[v…],"b":[v…],"probes":[v…]}  a, b are the ARGUMENT LISTS given to `NewSet`
              (order and duplicates kept).  The model is run five times — the open-addressed table with the real
              hash `goHash`, with three deliberately terrible hashes (kind tag mod 3, constant 0, constant
              2^64-1 so that probing wraps around), and the list operations used by `CedarGo.eval` —
              and the five answers must coincide (C11_hash_unobservable, C11_set_refines_list).
    hash      {"v":v}            goHash v, compared with the Go hook `types.VerifHash`
    eq        {"a":v,"b":v}      Value.beq both ways, kind comparison, hash comparison
    rec-ops   {"a":[[k,v]…],"b":[[k,v]…],"probes":[k…]}  records built by assigning the pairs in order:
              Go-map model (`RecImpl`) and key-sorted list model (`mkRecord`) must coincide
    alias-history {"ops":[op…],"disc":"go"|"alias-ctor"|…}  a history over the reference-level heap model
              (Model/Alias.lean) — the same history the harness replays on the real Go objects; answer = the
              rendering of every live value object and every caller-owned container after EVERY step
-/
import CedarGo.Driver.Ops.Core
import CedarGo.Model.SetImpl
import CedarGo.Model.Alias
namespace CedarGo.Driver
open Lean CedarGo

def bit (b : Bool) : String := if b then "1" else "0"
def bits (bs : List Bool) : String := String.join (bs.map bit)

def decValues (j : Json) : D (List Value) := do (← jArr j).mapM decValue

/-- all observations of the pair of sets (a, b) and the probes, through the table model with `hash` -/
def setObsImpl (hash : Value → UInt64) (a b probes : List Value) : String :=
  let sa := newSet hash a
  let sb := newSet hash b
  s!"lenA={sa.len} lenB={sb.len} inA={bits (probes.map (sa.contains hash))} inB={bits (probes.map (sb.contains hash))}" ++
  s!" eqAB={bit (sa.equal hash sb)} eqBA={bit (sb.equal hash sa)} eqAA={bit (sa.equal hash sa)}" ++
  s!" allAB={bit (sa.containsAll hash sb)} allBA={bit (sb.containsAll hash sa)}" ++
  s!" anyAB={bit (sa.containsAny hash sb)} anyBA={bit (sb.containsAny hash sa)}" ++
  s!" members={showValue (.set sa.slice)}"

def setMembers : Value → List Value
  | .set xs => xs
  | _ => []

/-- the same observations through the list operations of the evaluator model -/
def setObsList (a b probes : List Value) : String :=
  let va := mkSet a
  let vb := mkSet b
  let sa := setMembers va
  let sb := setMembers vb
  s!"lenA={sa.length} lenB={sb.length} inA={bits (probes.map (·.memL sa))} inB={bits (probes.map (·.memL sb))}" ++
  s!" eqAB={bit (va.beq vb)} eqBA={bit (vb.beq va)} eqAA={bit (va.beq va)}" ++
  s!" allAB={bit (sb.all (·.memL sa))} allBA={bit (sa.all (·.memL sb))}" ++
  s!" anyAB={bit (sb.any (·.memL sa))} anyBA={bit (sa.any (·.memL sb))}" ++
  s!" members={showValue va}"

def opSetOps : Handler := fun _ j => do
  let a ← decValues (← field j "a")
  let b ← decValues (← field j "b")
  let probes ← decValues (fieldOr j "probes" (.arr #[]))
  let rs := [("go", setObsImpl goHash a b probes), ("kind", setObsImpl kindHash a b probes),
             ("const", setObsImpl constHash a b probes), ("wrap", setObsImpl wrapHash a b probes),
             ("list", setObsList a b probes)]
  match rs with
  | (_, r) :: rest =>
    if rest.all (fun p => p.2 == r) then .ok r
    else .ok ("MODEL-MISMATCH " ++ " | ".intercalate (rs.map fun p => p.1 ++ ": " ++ p.2))
  | [] => .error "unreachable"

def opHash : Handler := fun _ j => do
  let v ← decValue (← field j "v")
  .ok (toString (goHash v).toNat)

def opEq : Handler := fun _ j => do
  let a ← decValue (← field j "a")
  let b ← decValue (← field j "b")
  .ok s!"eq={bit (a.beq b)} qe={bit (b.beq a)} kind={bit (a.kind == b.kind)} hash={bit (goHash a == goHash b)}"

def decPairs (j : Json) : D (List (String × Value)) := do
  (← jArr j).mapM fun kv => do
    match ← jArr kv with
    | [k, v] => .ok ((← jHex k), (← decValue v))
    | _ => .error "bad kv"

def optShow : Option Value → String
  | none => "-"
  | some v => showValue v

def recObsImpl (hash : Value → UInt64) (a b : List (String × Value)) (probes : List String) : String :=
  let ra := newRecord hash a
  let rb := newRecord hash b
  s!"lenA={ra.m.length} lenB={rb.m.length} eqAB={bit (ra.equal rb)} eqBA={bit (rb.equal ra)} eqAA={bit (ra.equal ra)}" ++
  s!" getA=[{",".intercalate (probes.map fun k => optShow (ra.m.get k))}] getB=[{",".intercalate (probes.map fun k => optShow (rb.m.get k))}]"

def recKVs : Value → List (String × Value)
  | .record kvs => kvs
  | _ => []

def recObsList (a b : List (String × Value)) (probes : List String) : String :=
  let va := mkRecord a
  let vb := mkRecord b
  s!"lenA={(recKVs va).length} lenB={(recKVs vb).length} eqAB={bit (va.beq vb)} eqBA={bit (vb.beq va)} eqAA={bit (va.beq va)}" ++
  s!" getA=[{",".intercalate (probes.map fun k => optShow (kvGet k (recKVs va)))}] getB=[{",".intercalate (probes.map fun k => optShow (kvGet k (recKVs vb)))}]"

def opRecOps : Handler := fun _ j => do
  let a ← decPairs (← field j "a")
  let b ← decPairs (← field j "b")
  let probes ← (← jArr (fieldOr j "probes" (.arr #[]))).mapM jHex
  let rs := [("go", recObsImpl goHash a b probes), ("const", recObsImpl constHash a b probes), ("list", recObsList a b probes)]
  match rs with
  | (_, r) :: rest =>
    if rest.all (fun p => p.2 == r) then
      .ok (r ++ s!" hashA={(newRecord goHash a).hashVal.toNat} showA={showValue (mkRecord a)}")
    else .ok ("MODEL-MISMATCH " ++ " | ".intercalate (rs.map fun p => p.1 ++ ": " ++ p.2))
  | [] => .error "unreachable"

/-! ### alias-history: histories over the reference-level heap model -/

def c11InsertDup (s : String) : List String → List String
  | [] => [s]
  | x :: xs => if s < x || s == x then s :: x :: xs else x :: c11InsertDup s xs

/-- sort keeping duplicates (multiset rendering) -/
def c11SortDup (xs : List String) : List String := xs.foldl (fun acc s => c11InsertDup s acc) []

def c11DecSrc (j : Json) : D Alias.Src := do
  match j with
  | .arr #[.str "live", i] => .ok (.live (← jNat i))
  | _ => .ok (.scalar (← decValue j))

def c11DecOptNat (j : Json) : D (Option Nat) :=
  match j with
  | .null => .ok none
  | _ => do .ok (some (← jNat j))

def c11DecOp (j : Json) : D Alias.Op := do
  match ← jArr j with
  | [.str "mkSlice", xs] => .ok (.mkSlice (← (← jArr xs).mapM c11DecSrc))
  | [.str "mkMap", kvs] => do
      let ps ← (← jArr kvs).mapM fun kv => do
        match ← jArr kv with
        | [k, v] => .ok ((← jHex k), (← c11DecSrc v))
        | _ => .error "bad kv"
      .ok (.mkMap ps)
  | [.str "copyCont", r] => .ok (.copyCont (← jNat r))
  | [.str "newRecord", r] => .ok (.newRecord (← c11DecOptNat r))
  | [.str "newSet", r] => .ok (.newSet (← c11DecOptNat r))
  | [.str "newUIDSet", r] => .ok (.newUIDSet (← c11DecOptNat r))
  | [.str "recordMap", i] => .ok (.recordMap (← jNat i))
  | [.str "recordGet", i, k] => .ok (.recordGet (← jNat i) (← jHex k))
  | [.str "recordAll", i] => .ok (.recordAll (← jNat i))
  | [.str "setSlice", i] => .ok (.setSlice (← jNat i))
  | [.str "setAll", i] => .ok (.setAll (← jNat i))
  | [.str "unmarshalRecord", i, kvs] => .ok (.unmarshalRecord (← jNat i) (← decPairs kvs))
  | [.str "unmarshalSet", i, xs] => .ok (.unmarshalSet (← jNat i) (← decValues xs))
  | [.str "setKey", r, k, x] => .ok (.setKey (← jNat r) (← jHex k) (← c11DecSrc x))
  | [.str "delKey", r, k] => .ok (.delKey (← jNat r) (← jHex k))
  | [.str "clearMap", r] => .ok (.clearMap (← jNat r))
  | [.str "setElem", r, i, x] => .ok (.setElem (← jNat r) (← jNat i) (← c11DecSrc x))
  | [.str "fillSlice", r, x] => .ok (.fillSlice (← jNat r) (← c11DecSrc x))
  | [.str "appendElem", r, x] => .ok (.appendElem (← jNat r) (← c11DecSrc x))
  | [.str "reslice", r, n] => .ok (.reslice (← jNat r) (← jNat n))
  | [.str "readElem", r, i] => .ok (.readElem (← jNat r) (← jNat i))
  | [.str "readKey", r, k] => .ok (.readKey (← jNat r) (← jHex k))
  | _ => .error s!"bad alias op {j.compress}"

def c11Disc (name : String) : D Alias.Disc :=
  match name with
  | "go" => .ok Alias.goDisc
  | "alias-ctor" => .ok { Alias.goDisc with newRecord := .alias }
  | "alias-empty-ctor" => .ok { Alias.goDisc with newRecord := .aliasWhenEmpty }
  | "alias-map" => .ok { Alias.goDisc with recordMap := .alias }
  | "alias-slice" => .ok { Alias.goDisc with setSlice := .alias }
  | "alias-decoder" => .ok { Alias.goDisc with unmarshalRecord := .alias }
  | _ => .error s!"unknown discipline {name}"

/-- a live value object: its pure value; `~` marks the nil map of `Record{}` / `NewRecord(nil)` (observable: `Map()`
    is nil; the nil table of `Set{}` / `NewSet()` is not observable through the API: `Slice()` of any empty set is nil) -/
def c11ShowObj (h : Alias.Heap) (v : Alias.VObj) : String :=
  showValue (Alias.abs h v) ++ (match v with | .ref .record none => "~" | _ => "")

/-- a caller-owned container: a map as the record it spells, a slice as the multiset of its first `len` elements -/
def c11ShowOwned (h : Alias.Heap) (r : Alias.Ref) : String :=
  match h[r.addr]? with
  | some (.map kvs) => "m" ++ showValue (Alias.absCont .record (some (.map kvs)) (Alias.abs h))
  | some (.seq xs) => "(" ++ ",".intercalate (c11SortDup ((xs.take r.len).map (c11ShowObj h))) ++ ")"
  | none => "?"

/-- live values, segment by segment; the values yielded by an iterator come in no particular order -/
def c11ShowLive (h : Alias.Heap) : List Alias.VObj → List (Nat × Bool) → List String
  | _, [] => []
  | vs, (n, unordered) :: segs =>
    let seg := (vs.take n).map (c11ShowObj h)
    (if unordered then c11SortDup seg else seg) ++ c11ShowLive h (vs.drop n) segs

def c11ShowState (s : Alias.State) (segs : List (Nat × Bool)) : String :=
  "L:" ++ " ".intercalate (c11ShowLive s.heap s.live segs) ++ " O:" ++ " ".intercalate (s.owned.map (c11ShowOwned s.heap))

def c11IsIter : Alias.Op → Bool
  | .recordAll _ => true
  | .setAll _ => true
  | _ => false

def c11RunShow (d : Alias.Disc) : Alias.State → List (Nat × Bool) → List Alias.Op → List String
  | _, _, [] => []
  | s, segs, op :: ops =>
    let s' := Alias.step d s op
    let segs' := segs ++ [(s'.live.length - s.live.length, c11IsIter op)]
    c11ShowState s' segs' :: c11RunShow d s' segs' ops

def opAliasHistory : Handler := fun _ j => do
  let ops ← (← jArr (← field j "ops")).mapM c11DecOp
  let d ← c11Disc (← jStr (fieldOr j "disc" (.str "go")))
  .ok (" | ".intercalate (c11RunShow d Alias.init [] ops))

def c11Ops : List (String × Handler) :=
  [("set-ops", opSetOps), ("hash", opHash), ("eq", opEq), ("rec-ops", opRecOps), ("alias-history", opAliasHistory)]

end CedarGo.Driver
