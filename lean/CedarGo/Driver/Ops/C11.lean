/-
  Driver ops for C11.
-/
import CedarGo.Driver.Ops.Core
namespace CedarGo.Driver
open Lean CedarGo

def c11Ops : List (String × Handler) := []

end CedarGo.Driver
