/-
  Driver ops for C11 (value equality, hashing, sets, records).
    set-ops   {"a":[v…],"b":[v…],"probes":[v…]}  a, b are the ARGUMENT LISTS given to `NewSet`
              (order and duplicates kept).  The model is run five times — the open-addressed table with the real
              hash `goHash`, with three deliberately terrible hashes (kind tag mod 3, constant 0, constant
              2^64-1 so that probing wraps around), and the list operations used by `CedarGo.eval` —
              and the five answers must coincide (C11_hash_unobservable, C11_set_refines_list).
    hash      {"v":v}            goHash v, compared with the Go hook `types.VerifHash`
    eq        {"a":v,"b":v}      Value.beq both ways, kind comparison, hash comparison
    rec-ops   {"a":[[k,v]…],"b":[[k,v]…],"probes":[k…]}  records built by assigning the pairs in order:
              Go-map model (`RecImpl`) and key-sorted list model (`mkRecord`) must coincide
-/
import CedarGo.Driver.Ops.Core
import CedarGo.Model.SetImpl
namespace CedarGo.Driver
open Lean CedarGo

def bit (b : Bool) : String := if b then "1" else "0"
def bits (bs : List Bool) : String := String.join (bs.map bit)

def decValues (j : Json) : D (List Value) := do (← jArr j).mapM decValue

/-- all observations of the pair of sets (a, b) and the probes, through the table model with `hash` -/
def setObsImpl (hash : Value → UInt64) (a b probes : List Value) : String :=
  let sa := newSet hash a
  let sb := newSet hash b
  s!"lenA={sa.len} lenB={sb.len} inA={bits (probes.map (sa.contains hash))} inB={bits (probes.map (sb.contains hash))}" ++
  s!" eqAB={bit (sa.equal hash sb)} eqBA={bit (sb.equal hash sa)} eqAA={bit (sa.equal hash sa)}" ++
  s!" allAB={bit (sa.containsAll hash sb)} allBA={bit (sb.containsAll hash sa)}" ++
  s!" anyAB={bit (sa.containsAny hash sb)} anyBA={bit (sb.containsAny hash sa)}" ++
  s!" members={showValue (.set sa.slice)}"

def setMembers : Value → List Value
  | .set xs => xs
  | _ => []

/-- the same observations through the list operations of the evaluator model -/
def setObsList (a b probes : List Value) : String :=
  let va := mkSet a
  let vb := mkSet b
  let sa := setMembers va
  let sb := setMembers vb
  s!"lenA={sa.length} lenB={sb.length} inA={bits (probes.map (·.memL sa))} inB={bits (probes.map (·.memL sb))}" ++
  s!" eqAB={bit (va.beq vb)} eqBA={bit (vb.beq va)} eqAA={bit (va.beq va)}" ++
  s!" allAB={bit (sb.all (·.memL sa))} allBA={bit (sa.all (·.memL sb))}" ++
  s!" anyAB={bit (sb.any (·.memL sa))} anyBA={bit (sa.any (·.memL sb))}" ++
  s!" members={showValue va}"

def opSetOps : Handler := fun _ j => do
  let a ← decValues (← field j "a")
  let b ← decValues (← field j "b")
  let probes ← decValues (fieldOr j "probes" (.arr #[]))
  let rs := [("go", setObsImpl goHash a b probes), ("kind", setObsImpl kindHash a b probes),
             ("const", setObsImpl constHash a b probes), ("wrap", setObsImpl wrapHash a b probes),
             ("list", setObsList a b probes)]
  match rs with
  | (_, r) :: rest =>
    if rest.all (fun p => p.2 == r) then .ok r
    else .ok ("MODEL-MISMATCH " ++ " | ".intercalate (rs.map fun p => p.1 ++ ": " ++ p.2))
  | [] => .error "unreachable"

def opHash : Handler := fun _ j => do
  let v ← decValue (← field j "v")
  .ok (toString (goHash v).toNat)

def opEq : Handler := fun _ j => do
  let a ← decValue (← field j "a")
  let b ← decValue (← field j "b")
  .ok s!"eq={bit (a.beq b)} qe={bit (b.beq a)} kind={bit (a.kind == b.kind)} hash={bit (goHash a == goHash b)}"

def decPairs (j : Json) : D (List (String × Value)) := do
  (← jArr j).mapM fun kv => do
    match ← jArr kv with
    | [k, v] => .ok ((← jHex k), (← decValue v))
    | _ => .error "bad kv"

def optShow : Option Value → String
  | none => "-"
  | some v => showValue v

def recObsImpl (hash : Value → UInt64) (a b : List (String × Value)) (probes : List String) : String :=
  let ra := newRecord hash a
  let rb := newRecord hash b
  s!"lenA={ra.m.length} lenB={rb.m.length} eqAB={bit (ra.equal rb)} eqBA={bit (rb.equal ra)} eqAA={bit (ra.equal ra)}" ++
  s!" getA=[{",".intercalate (probes.map fun k => optShow (ra.m.get k))}] getB=[{",".intercalate (probes.map fun k => optShow (rb.m.get k))}]"

def recKVs : Value → List (String × Value)
  | .record kvs => kvs
  | _ => []

def recObsList (a b : List (String × Value)) (probes : List String) : String :=
  let va := mkRecord a
  let vb := mkRecord b
  s!"lenA={(recKVs va).length} lenB={(recKVs vb).length} eqAB={bit (va.beq vb)} eqBA={bit (vb.beq va)} eqAA={bit (va.beq va)}" ++
  s!" getA=[{",".intercalate (probes.map fun k => optShow (kvGet k (recKVs va)))}] getB=[{",".intercalate (probes.map fun k => optShow (kvGet k (recKVs vb)))}]"

def opRecOps : Handler := fun _ j => do
  let a ← decPairs (← field j "a")
  let b ← decPairs (← field j "b")
  let probes ← (← jArr (fieldOr j "probes" (.arr #[]))).mapM jHex
  let rs := [("go", recObsImpl goHash a b probes), ("const", recObsImpl constHash a b probes), ("list", recObsList a b probes)]
  match rs with
  | (_, r) :: rest =>
    if rest.all (fun p => p.2 == r) then
      .ok (r ++ s!" hashA={(newRecord goHash a).hashVal.toNat} showA={showValue (mkRecord a)}")
    else .ok ("MODEL-MISMATCH " ++ " | ".intercalate (rs.map fun p => p.1 ++ ": " ++ p.2))
  | [] => .error "unreachable"

def c11Ops : List (String × Handler) :=
  [("set-ops", opSetOps), ("hash", opHash), ("eq", opEq), ("rec-ops", opRecOps)]

end CedarGo.Driver
