/-
  Driver ops for C07.
-/
import CedarGo.Driver.Ops.Core
namespace CedarGo.Driver
open Lean CedarGo

def c07Ops : List (String × Handler) := []

end CedarGo.Driver
