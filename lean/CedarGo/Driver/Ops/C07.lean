/-
  Driver ops for C07 (and helpers shared with C08):
    render        policy → text of `renderMin` / `renderFull` under `layout seed` (hex)
    parse-tokens  token list produced by the Go `Tokenize` hook → canonical policy (`showPolicyC07`) or `err`
    parse-bytes   {"text": hex, "list": bool} → MODEL lexer (`Lx.tokensWithPos`) → model parser → canonical policy /
                  policy list with positions, or `err` (scanner or parse error): the composed pipeline of
                  C07_parse_text_roundtrip_partial / C18_stream_parse_eq_bytes_parse, compared with Go's
                  `Policy.UnmarshalCedar` / `NewPolicyListFromBytes` on the same bytes
    escape / unquote / pattern / escape-class   white-box ops for Model/Text/Escape.lean
-/
import CedarGo.Driver.Ops.Core
import CedarGo.Model.Text.Printer
import CedarGo.Model.Text.Parser
import CedarGo.Model.Text.Layout
namespace CedarGo.Driver
open Lean CedarGo CedarGo.Text

def binOpNameC07 : BinOp → String
  | .and => "and" | .or => "or" | .eq => "eq" | .ne => "ne" | .lt => "lt" | .le => "le" | .gt => "gt" | .ge => "ge"
  | .add => "add" | .sub => "sub" | .mul => "mul" | .in_ => "in" | .contains => "contains"
  | .containsAll => "containsAll" | .containsAny => "containsAny" | .getTag => "getTag" | .hasTag => "hasTag"

def unOpNameC07 : UnOp → String
  | .not => "not" | .neg => "neg" | .isEmpty => "isEmpty"

def showPatternC07 (p : Pattern) : String :=
  "[" ++ ",".intercalate (p.map fun c => (if c.wildcard then "*" else "") ++ hexBytes c.literal) ++ "]"

/-- canonical rendering of an expression tree (the Go harness prints the same for `ast.IsNode`) -/
partial def showExprC07 : Expr → String
  | .lit v => showValue v
  | .var v => "$" ++ varName v
  | .unop op e => s!"({unOpNameC07 op} {showExprC07 e})"
  | .binop op l r => s!"({binOpNameC07 op} {showExprC07 l} {showExprC07 r})"
  | .ite c t e => s!"(ite {showExprC07 c} {showExprC07 t} {showExprC07 e})"
  | .access e a => s!"(access {showExprC07 e} {hex a})"
  | .has e a => s!"(has {showExprC07 e} {hex a})"
  | .like e p => s!"(like {showExprC07 e} {showPatternC07 p})"
  | .is e ty => s!"(is {showExprC07 e} {hex ty})"
  | .isIn e ty r => s!"(isIn {showExprC07 e} {hex ty} {showExprC07 r})"
  | .set es => "(set" ++ String.join (es.map fun e => " " ++ showExprC07 e) ++ ")"
  | .record kes => "(rec" ++ String.join (kes.map fun ke => " " ++ hex ke.1 ++ "=" ++ showExprC07 ke.2) ++ ")"
  | .call fn args => s!"(call {hex fn}" ++ String.join (args.map fun e => " " ++ showExprC07 e) ++ ")"

def showUIDC07 (u : UID) : String := hex u.1 ++ ":" ++ hex u.2

def showScopeC07 : Scope → String
  | .all => "all"
  | .eq e => s!"eq({showUIDC07 e})"
  | .in_ e => s!"in({showUIDC07 e})"
  | .inSet es => "inSet(" ++ ",".intercalate (es.map showUIDC07) ++ ")"
  | .is ty => s!"is({hex ty})"
  | .isIn ty e => s!"isIn({hex ty},{showUIDC07 e})"

/-- canonical rendering of a policy, with (`pos = true`) or without its position -/
def showPolicyC07 (pos : Bool) (p : Policy) : String :=
  (match p.effect with | .permit => "permit" | .forbid => "forbid") ++
  " @[" ++ ",".intercalate (p.annotations.map fun kv => hex kv.1 ++ "=" ++ hex kv.2) ++ "]" ++
  " P:" ++ showScopeC07 p.principal ++ " A:" ++ showScopeC07 p.action ++ " R:" ++ showScopeC07 p.resource ++
  " C[" ++ ";".intercalate (p.conditions.map fun c => (if c.1 then "when " else "unless ") ++ showExprC07 c.2) ++ "]" ++
  (if pos then s!" @{p.position.offset}:{p.position.line}:{p.position.column}" else "")

def tokTypeOfNat : Nat → TokType
  | 0 => .eof | 1 => .ident | 2 => .int | 3 => .keyword | 4 => .string | 5 => .operator | _ => .unknown

def tokTypeToNat : TokType → Nat
  | .eof => 0 | .ident => 1 | .int => 2 | .keyword => 3 | .string => 4 | .operator => 5 | .unknown => 6

/-- `[type, offset, line, column, hex text]`; the final EOF token of the Go slice is dropped -/
def decTokensC07 (j : Json) : D (List Token) := do
  let toks ← (← jArr j).mapM fun t => do
    match ← jArr t with
    | [ty, off, line, col, text] => .ok (⟨tokTypeOfNat (← jNat ty), ⟨← jNat off, ← jNat line, ← jNat col⟩, ← jHex text⟩ : Token)
    | _ => .error "bad token"
  match toks.getLast? with
  | some t => if t.ty == .eof then .ok toks.dropLast else .ok toks
  | none => .ok toks

def opRenderC07 : Handler := fun _ j => do
  let p ← decPolicy (← field j "policy")
  let mode ← jStr (← field j "mode")
  let seed ← jNat (← field j "seed")
  .ok ("ok " ++ hex (layout seed (renderPolicy (mode == "full") p)))

def opParseTokensC07 : Handler := fun _ j => do
  let ts ← decTokensC07 (← field j "tokens")
  let isList := match j.getObjVal? "list" with | .ok (.bool b) => b | _ => false
  if isList then
    match parsePolicies ts with
    | none => .ok "fuel"
    | some (.error _) => .ok "err"
    | some (.ok ps) => .ok ("ok " ++ " ## ".intercalate (ps.map (showPolicyC07 true)))
  else
    match parsePolicy ts with
    | none => .ok "fuel"
    | some (.error _) => .ok "err"
    | some (.ok p) => .ok ("ok " ++ showPolicyC07 true p)

def opParseBytesC07 : Handler := fun _ j => do
  let src ← unhexBytes (← jStr (← field j "text"))
  let isList := match j.getObjVal? "list" with | .ok (.bool b) => b | _ => false
  match Lx.tokensWithPos src with
  | .error .fuel => .ok "model-out-of-fuel"
  | .error _ => .ok "err"
  | .ok toks =>
    let ts := parserInput toks
    if isList then
      match parsePolicies ts with
      | none => .ok "fuel"
      | some (.error _) => .ok "err"
      | some (.ok ps) => .ok ("ok " ++ " ## ".intercalate (ps.map (showPolicyC07 true)))
    else
      match parsePolicy ts with
      | none => .ok "fuel"
      | some (.error _) => .ok "err"
      | some (.ok p) => .ok ("ok " ++ showPolicyC07 true p)

def hexChars (cs : List Char) : String := hex (String.ofList cs)

def opEscapeC07 : Handler := fun _ j => do
  let s ← jHex (← field j "s")
  let mode ← jStr (← field j "mode")
  if mode == "charall" then .ok (hexChars (escapeCharAll s.toList))
  else .ok (hexChars (escapeString s.toList))

def opUnquoteC07 : Handler := fun _ j => do
  let s ← jHex (← field j "s")
  let star ← jBool (← field j "star")
  match unquote star s.toList with
  | .ok (r, rest) => .ok s!"ok {hexChars r} {hexChars rest}"
  | .error _ => .ok "err"

def opPatternC07 : Handler := fun _ j => do
  let s ← jHex (← field j "raw")
  match parsePattern s.toList with
  | .ok p =>
    match escapePattern p with
    | some cs => .ok s!"ok {showPatternC07 p} {hexChars cs}"
    | none => .ok s!"ok {showPatternC07 p} ?"
  | .error _ => .ok "err"

/-- per code point in `[from, to)`: `0`-`3` = printable + 2·graphemeExtended; `x` = surrogate -/
def opEscapeClassC07 : Handler := fun _ j => do
  let a ← jNat (← field j "from")
  let b ← jNat (← field j "to")
  let cls (n : Nat) : Char :=
    if 0xD800 ≤ n && n ≤ 0xDFFF then 'x' else
    let c := Char.ofNat n
    Char.ofNat (48 + (if isPrintable c then 1 else 0) + (if isGraphemeExtended c then 2 else 0))
  .ok (String.ofList ((List.range (b - a)).map fun i => cls (a + i)))

def c07Ops : List (String × Handler) := [
  ("render", opRenderC07), ("parse-tokens", opParseTokensC07), ("parse-bytes", opParseBytesC07), ("escape", opEscapeC07), ("unquote", opUnquoteC07),
  ("pattern", opPatternC07), ("escape-class", opEscapeClassC07)]

end CedarGo.Driver
