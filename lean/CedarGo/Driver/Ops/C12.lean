/-
  Driver ops for C12.
-/
import CedarGo.Driver.Ops.Core
namespace CedarGo.Driver
open Lean CedarGo

def c12Ops : List (String × Handler) := []

end CedarGo.Driver
