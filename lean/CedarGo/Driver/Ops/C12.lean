/-
  Driver ops for C12 (scalar / extension text forms).
    parse-decimal | parse-duration | parse-datetime | parse-long   {"s": hex}        → `ok <int>` | `err`
    parse-ip                                                        {"s": hex}        → `ok <v6> <addr> <bits>` | `err`
    print-decimal | print-duration | print-datetime | print-long    {"raw": "<int>"}  → hex of the printed text
    print-ip                                                        {"fam": 4|6, "addr": "<nat>", "bits": n} → hex of the printed text
    new-decimal                                                     {"i": "<int>", "exp": "<int>"} → `ok <raw>` | `err`
    civil                                                           {"days": "<int>"} → `y m d`   (civilFromDays)
    days                                                            {"y","m","d"}     → `<int>`   (daysFromCivil)
  Inputs that are not valid UTF-8 are outside the model (`skip invalid-utf8`).
-/
import CedarGo.Driver.Ops.Core
namespace CedarGo.Driver
open Lean CedarGo CedarGo.Scalars

def showIntRes (r : Except Err Int) : String :=
  match r with
  | .ok v => s!"ok {v}"
  | .error _ => "err"

def opParseWith (f : String → Except Err Int) : Handler := fun _ j => do
  let s ← jHex (← field j "s")
  .ok (showIntRes (f s))

def opParseLong : Handler := fun _ j => do
  let s ← jHex (← field j "s")
  .ok (match parseLong s with | some v => s!"ok {v}" | none => "err")

def opParseIP : Handler := fun _ j => do
  let s ← jHex (← field j "s")
  .ok (match parseIP s with
       | .ok a => s!"ok {if a.v6 then 6 else 4} {a.addr} {a.bits}"
       | .error _ => "err")

def opPrintWith (f : Int → String) : Handler := fun _ j => do
  let v ← jInt (← field j "raw")
  .ok (hex (f v))

def opPrintIP : Handler := fun _ j => do
  let v6 ← jInt (← field j "fam")
  let a ← jNat (← field j "addr")
  let b ← jNat (← field j "bits")
  .ok (hex (printIP ⟨v6 == 6, a, b⟩))

def opNewDecimal : Handler := fun _ j => do
  let i ← jInt (← field j "i")
  let e ← jInt (← field j "exp")
  .ok (showIntRes (newDecimalExp i e))

def opCivil : Handler := fun _ j => do
  let z ← jInt (← field j "days")
  let (y, m, d) := civilFromDays z
  .ok s!"{y} {m} {d}"

def opDays : Handler := fun _ j => do
  let y ← jInt (← field j "y")
  let m ← jNat (← field j "m")
  let d ← jNat (← field j "d")
  .ok s!"{daysFromCivil y m d}"

def c12Ops : List (String × Handler) := [
  ("parse-decimal", opParseWith parseDecimal),
  ("parse-duration", opParseWith parseDuration),
  ("parse-datetime", opParseWith parseDatetime),
  ("parse-long", opParseLong),
  ("parse-ip", opParseIP),
  ("print-decimal", opPrintWith printDecimal),
  ("print-duration", opPrintWith printDuration),
  ("print-datetime", opPrintWith printDatetime),
  ("print-long", opPrintWith printLong),
  ("print-ip", opPrintIP),
  ("new-decimal", opNewDecimal),
  ("civil", opCivil),
  ("days", opDays)]

end CedarGo.Driver
