/-
  Driver ops for C16.
-/
import CedarGo.Driver.Ops.Core
namespace CedarGo.Driver
open Lean CedarGo

def c16Ops : List (String × Handler) := []

end CedarGo.Driver
