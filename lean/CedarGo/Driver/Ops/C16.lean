/-
  Driver ops for C16: `schema-resolve` (accept/reject + canonical dump of the resolved schema) and the three
  hierarchy walks of the validator on the resolved schema (`schema-entdesc`, `schema-actdesc`, `schema-typesin`).
-/
import CedarGo.Driver.Ops.Core
import CedarGo.Driver.CodecC1617
namespace CedarGo.Driver
open Lean CedarGo CedarGo.Schema

def getSchemaC1617 (j : Json) : D Schema := do
  let s ← decSchemaC1617 (← field j "schema")
  if schemaCollides s then .error "colliding-qualified-names" else .ok s

def showResolve (s : Schema) : String :=
  match resolve s with
  | none => "diverges"
  | some (.error _) => "err"
  | some (.ok rs) => "ok " ++ dumpResolved rs

def opSchemaResolve : Handler := fun _ j => do
  .ok (showResolve (← getSchemaC1617 j))

def withResolved (j : Json) (f : RSchema → D String) : D String := do
  match resolve (← getSchemaC1617 j) with
  | some (.ok rs) => f rs
  | _ => .error "unresolved"

def showOptBool : Option Bool → String
  | none => "diverges"
  | some true => "true"
  | some false => "false"

/-- `isEntityDescendant`: fuel = number of entity types + 1; running out of it means a type re-entered the
    recursion stack, i.e. the Go recursion never returns -/
def opSchemaEntDesc : Handler := fun _ j => withResolved j fun rs => do
  .ok (showOptBool (isEntityDescendantFuel rs (rs.entities.length + 1) (← jHex (← field j "a")) (← jHex (← field j "b"))))

def decUIDC16 (j : Json) : D UID := do
  match ← jArr j with
  | [t, i] => .ok ((← jHex t), (← jHex i))
  | _ => .error "bad uid"

def opSchemaActDesc : Handler := fun _ j => withResolved j fun rs => do
  .ok (showOptBool (isActionDescendantFuel rs (rs.actions.length + 1) (← decUIDC16 (← field j "a")) (← decUIDC16 (← field j "b"))))

def opSchemaTypesIn : Handler := fun _ j => withResolved j fun rs => do
  match getEntityTypesIn rs (← jHex (← field j "a")) with
  | none => .ok "diverges"
  | some ts => .ok (",".intercalate (sortDedup (ts.map hex)))

def c16Ops : List (String × Handler) :=
  [("schema-resolve", opSchemaResolve), ("schema-entdesc", opSchemaEntDesc), ("schema-actdesc", opSchemaActDesc), ("schema-typesin", opSchemaTypesIn)]

end CedarGo.Driver
