/-
  Driver ops for C10.
-/
import CedarGo.Driver.Ops.Core
namespace CedarGo.Driver
open Lean CedarGo

def c10Ops : List (String × Handler) := []

end CedarGo.Driver
