/-
  Driver ops for C10.
  `c10-raw`: the harness sends the `nodeJSON` tree of a policy-JSON condition body (as `encoding/json`
  populates it: `nil` for a `null` record entry, `zero` for `null`/`{}` in a by-value position); the
  model answers what the Go code must do with it at each stage:
    dec   = `ast.Policy.UnmarshalJSON`            ok | reject   (the model has no panic branch: C10_json_decoder_wf)
    eval  = `cedar.NewPolicyFromAST` + evaluation  ok | panic      (ToEval)
    cedar = `MarshalCedar`                         ok | panic
    json  = `MarshalJSON`                          ok | panic
    wf    = the decoded tree satisfies `RawExpr.WF`            (always true: C10_json_decoder_wf)
    recv  = the decoded tree satisfies `RawExpr.HasReceivers`  (always true: C10_json_decoder_wf)
-/
import CedarGo.Driver.Ops.Core
import CedarGo.Model.RawAst
namespace CedarGo.Driver
open Lean CedarGo

partial def decNodeJSONC10 (j : Json) : D NodeJSON := do
  let a ← jArr j
  match a with
  | [.str "nil"] => .ok .nil
  | [.str "zero"] => .ok .zero
  | [.str "lit"] => .ok (.lit (.bool true))
  | [.str "var", v] => .ok (.var (← jHex v))
  | [.str "ite", c, t, e] => .ok (.ite (← decNodeJSONC10 c) (← decNodeJSONC10 t) (← decNodeJSONC10 e))
  | [.str "access", e, atr] => .ok (.access (← decNodeJSONC10 e) (← jHex atr))
  | [.str "has", e, atr] => .ok (.has (← decNodeJSONC10 e) (← jHex atr))
  | [.str "like", e] => .ok (.like (← decNodeJSONC10 e) [])
  | [.str "is", e, ty] => .ok (.is (← decNodeJSONC10 e) (← jHex ty))
  | [.str "isIn", e, ty, r] => .ok (.isIn (← decNodeJSONC10 e) (← jHex ty) (← decNodeJSONC10 r))
  | [.str "set", es] => .ok (.set (← (← jArr es).mapM decNodeJSONC10))
  | [.str "rec", kes] => do
      let ps ← (← jArr kes).mapM fun kv => do
        match ← jArr kv with
        | [k, v] => .ok ((← jHex k), (← decNodeJSONC10 v))
        | _ => .error "bad rec entry"
      .ok (.record ps)
  | [.str "call", fn, args] => .ok (.call (← jHex fn) (← (← jArr args).mapM decNodeJSONC10))
  | [.str op, x] =>
      match unOps.lookup op with
      | some o => .ok (.unop o (← decNodeJSONC10 x))
      | none => .error s!"bad unop {op}"
  | [.str op, l, r] =>
      match binOps.lookup op with
      | some o => .ok (.binop o (← decNodeJSONC10 l) (← decNodeJSONC10 r))
      | none => .error s!"bad binop {op}"
  | _ => .error s!"bad raw node {j.compress}"

def showStageC10 {α : Type} : Except Err α → String
  | .ok _ => "ok"
  | .error .panic => "panic"
  | .error _ => "error"

def opC10Raw : Handler := fun _ j => do
  let n ← decNodeJSONC10 (← field j "raw")
  match n.toNode with
  | .error .reject => .ok "dec=reject eval=- cedar=- json=- wf=- recv=-"
  | .error .panic => .ok "dec=panic eval=- cedar=- json=- wf=- recv=-"
  | .ok r =>
    .ok s!"dec=ok eval={showStageC10 r.toExpr?} cedar={showStageC10 r.marshalSkel} json={showStageC10 r.jsonSkel} wf={r.wfb} recv={r.recvb}"

def c10Ops : List (String × Handler) := [("c10-raw", opC10Raw)]

end CedarGo.Driver
