/-
  Driver ops for C14.
-/
import CedarGo.Driver.Ops.Core
namespace CedarGo.Driver
open Lean CedarGo

def c14Ops : List (String × Handler) := []

end CedarGo.Driver
