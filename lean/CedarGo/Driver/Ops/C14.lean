/-
  Driver ops for C14 (determinism): the model's order-parameterised functions, run over ALL orders.
    c14.reclit   {"entries":[[hexkey, expr]…], env}   every result `recordLiteralEval.Eval` can produce
                                                      (one per permutation of the entries), sorted, `|`-joined
    c14.inmsg    {"members":[value…]}                 every type name the message of `x in [members]` can
                                                      mention (first non-entity member over all orders), or `none`
    c14.sortkeys {"keys":[hex…]}                      the order in which a string-keyed encoder emits the keys
    c14.containsall / c14.containsany {"lhs":[value…],"rhs":[value…]}   the loop's answer over all orders of rhs
    c14.setorder {"sep":hex,"members":[{"value":value,"text":hex}…]}   the bytes `Set.MarshalJSON/MarshalCedar` write for
                                                      `NewSet(members…)` (members in insertion order): the table is built
                                                      with the model's `goHash`, the slots are visited in `orderedSlots`
                                                      order, each member is written as its `text` (supplied by the harness)
    c14.bindorder {"vars":[[hexname, count]…]}         the order in which `batch.Authorize` binds the variables (hex names,
                                                      `,`-joined), for every order in which the map may yield them
    c14.firstname {"names":[hex…],"other":[hex…]}      the name the unbound- (unused-) variable error of `batch.Authorize`
                                                      mentions: the least of `names` that is not in `other` (or `none`),
                                                      for every order of `names`
-/
import CedarGo.Driver.Ops.Core
import CedarGo.Model.Order
import CedarGo.Model.BatchOrder
namespace CedarGo.Driver
open Lean CedarGo

def c14MaxPerm : Nat := 6

def opC14RecLit : Handler := fun envs j => do
  let kes ← (← jArr (← field j "entries")).mapM fun kv => do
    match ← jArr kv with
    | [k, v] => .ok ((← jHex k), (← decExpr v))
    | _ => .error "bad entry"
  if kes.length > c14MaxPerm then throw "too-many-entries"
  let env ← getEnv envs j
  .ok ("|".intercalate (sortDedup ((recordLitOutcomes kes env).map showRes)))

def opC14InMsg : Handler := fun _ j => do
  let vs ← (← jArr (← field j "members")).mapM decValue
  if vs.length > c14MaxPerm then throw "too-many-members"
  let outs := (perms vs).map fun σ => match inSetFirstBad σ with | some k => k | none => "none"
  .ok ("|".intercalate (sortDedup outs))

def opC14SortKeys : Handler := fun _ j => do
  let ks ← (← jArr (← field j "keys")).mapM jHex
  .ok (",".intercalate ((marshalByStringKey hex ks)))

def c14Quant (loop : List Value → List Value → Bool) : Handler := fun _ j => do
  let lhs ← (← jArr (← field j "lhs")).mapM decValue
  let rhs ← (← jArr (← field j "rhs")).mapM decValue
  -- `NewSet` removes duplicates; the loop runs over the members of the right-hand set
  let lhs := match mkSet lhs with | .set xs => xs | _ => []
  let rhs := match mkSet rhs with | .set xs => xs | _ => []
  if rhs.length > c14MaxPerm then
    .ok (toString (loop lhs rhs))
  else
    .ok ("|".intercalate (sortDedup ((perms rhs).map fun σ => toString (loop lhs σ))))

def opC14SetOrder : Handler := fun _ j => do
  let sep ← jHex (← field j "sep")
  let ms ← (← jArr (← field j "members")).mapM fun m => do
    let v ← decValue (← field m "value")
    let t ← jHex (← field m "text")
    .ok (v, t)
  let written := marshalSetMembers goHash (buildTable goHash (ms.map (·.1)))
  let texts := written.map fun v => match ms.find? (fun m => m.1.beq v) with | some m => m.2 | none => "?"
  .ok (hex ("[" ++ sep.intercalate texts ++ "]"))

def opC14BindOrder : Handler := fun _ j => do
  let vars ← (← jArr (← field j "vars")).mapM fun kv => do
    match ← jArr kv with
    | [k, n] => .ok ((← jHex k), List.replicate (← jNat n) ())
    | _ => .error "bad variable"
  if vars.length > c14MaxPerm then throw "too-many-variables"
  let outs := (perms vars).map fun σ => ",".intercalate ((bindingOrder σ).map fun v => hex v.1)
  .ok ("|".intercalate (sortDedup outs))

def opC14FirstName : Handler := fun _ j => do
  let names ← (← jArr (← field j "names")).mapM jHex
  let other ← (← jArr (← field j "other")).mapM jHex
  if names.length > c14MaxPerm then throw "too-many-names"
  let outs := (perms names).map fun σ => match firstUnbound σ other with | some k => hex k | none => "none"
  .ok ("|".intercalate (sortDedup outs))

def c14Ops : List (String × Handler) :=
  [("c14.reclit", opC14RecLit), ("c14.inmsg", opC14InMsg), ("c14.sortkeys", opC14SortKeys),
   ("c14.containsall", c14Quant containsAllLoop), ("c14.containsany", c14Quant containsAnyLoop),
   ("c14.setorder", opC14SetOrder), ("c14.bindorder", opC14BindOrder), ("c14.firstname", opC14FirstName)]

end CedarGo.Driver
