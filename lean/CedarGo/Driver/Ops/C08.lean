/-
  Driver ops for C08:
    fragment  policy → membership in the proved fragments (`policyOK false/true`, `policyOKGo`)
    marshal   policy (+ the tokens Go's scanner produced for Go's own `MarshalCedar` output) →
              `text=<hex of the model's bytes> toks=same|diff` ; `skip` outside the modelled domain
-/
import CedarGo.Driver.Ops.C07
import CedarGo.Model.Text.Marshal
import CedarGo.Model.Text.Fragment
namespace CedarGo.Driver
open Lean CedarGo CedarGo.Text

def opMarshalC08 : Handler := fun _ j => do
  let p ← decPolicy (← field j "policy")
  if !policyModelled p then .error "unmodelled-policy" else
  let ps := marshalPolicy p
  let toks ← decTokensC07 (← field j "tokens")
  let same := (pieceToks ps).map (fun t => (t.ty, t.text)) == toks.map (fun t => (t.ty, t.text))
  .ok s!"text={hex (pieceText ps)} toks={if same then "same" else "diff"}"

/-- the model parser applied to the model marshaller's tokens: `ok <policy>` / `err` -/
def opMarshalParseC08 : Handler := fun _ j => do
  let p ← decPolicy (← field j "policy")
  if !policyModelled p then .error "unmodelled-policy" else
  match parsePolicy (pieceToks (marshalPolicy p)) with
  | none => .ok "fuel"
  | some (.error _) => .ok "err"
  | some (.ok q) => .ok ("ok " ++ showPolicyC07 false q)

/-- is the policy inside the domains of the proved round-trip theorems (C07 renderMin / renderFull, C08 marshal)? -/
def opFragmentC08 : Handler := fun _ j => do
  let p ← decPolicy (← field j "policy")
  let p := { p with position := {} }
  .ok s!"min={policyOK false p} full={policyOK true p} go={policyOKGo p}"

def c08Ops : List (String × Handler) := [("marshal", opMarshalC08), ("marshal-parse", opMarshalParseC08), ("fragment", opFragmentC08)]

end CedarGo.Driver
