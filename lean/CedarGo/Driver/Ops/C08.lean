/-
  Driver ops for C08:
    fragment  policy → membership in the proved fragments (`policyOK false/true`, `policyOKGo`)
    marshal   policy (+ the tokens Go's scanner produced for Go's own `MarshalCedar` output) →
              `text=<hex of the model's bytes> toks=same|diff` ; `skip` outside the modelled domain
    marshal-value   a value (the content of a `NodeValue`) → `ctext=<hex> parse=<tree|err>`: the model's
              `Value.MarshalCedar` with the member renderings of every set in ascending text order (Go writes them in
              hash-slot order: the harness brings Go's real output into the same order), and the model parser's
              reading of that text; `skip` outside the modelled domain
    value-fragment  is the value inside `valOK`, the domain of C08_marshal_value_meaning_partial?
-/
import CedarGo.Driver.Ops.C07
import CedarGo.Model.Text.Marshal
import CedarGo.Model.Text.Fragment
namespace CedarGo.Driver
open Lean CedarGo CedarGo.Text

def opMarshalC08 : Handler := fun _ j => do
  let p ← decPolicy (← field j "policy")
  if !policyModelled p then .error "unmodelled-policy" else
  let ps := marshalPolicy p
  let toks ← decTokensC07 (← field j "tokens")
  let same := (pieceToks ps).map (fun t => (t.ty, t.text)) == toks.map (fun t => (t.ty, t.text))
  .ok s!"text={hex (pieceText ps)} toks={if same then "same" else "diff"}"

/-- the model parser applied to the model marshaller's tokens: `ok <policy>` / `err` -/
def opMarshalParseC08 : Handler := fun _ j => do
  let p ← decPolicy (← field j "policy")
  if !policyModelled p then .error "unmodelled-policy" else
  match parsePolicy (pieceToks (marshalPolicy p)) with
  | none => .ok "fuel"
  | some (.error _) => .ok "err"
  | some (.ok q) => .ok ("ok " ++ showPolicyC07 false q)

/-- is the policy inside the domains of the proved round-trip theorems (C07 renderMin / renderFull, C08 marshal)? -/
def opFragmentC08 : Handler := fun _ j => do
  let p ← decPolicy (← field j "policy")
  let p := { p with position := {} }
  .ok s!"min={policyOK false p} full={policyOK true p} go={policyOKGo p} gov={policyOKGoV p}"

/-- insertion into a list of renderings kept in ascending order of their text -/
def insByTextC08 (x : List Piece) : List (List Piece) → List (List Piece)
  | [] => [x]
  | y :: ys => if pieceText y < pieceText x then y :: insByTextC08 x ys else x :: y :: ys

/-- the canonical member order used to compare a set's bytes with Go's: ascending text of the member renderings -/
def sortByTextC08 (xs : List (List Piece)) : List (List Piece) := xs.foldr insByTextC08 []

def opMarshalValueC08 : Handler := fun _ j => do
  let v ← decValue (← field j "value")
  if !litModelled v then .error "unmodelled-value" else
  let ps := marshalValW sortByTextC08 v
  let parsed := match parseExpr (pieceToks ps) with
    | none => "fuel"
    | some (.error _) => "err"
    | some (.ok (e, rest)) => if rest.isEmpty then "ok " ++ showExprC07 e else "trailing"
  .ok s!"ctext={hex (pieceText ps)} parse={parsed}"

def opValueFragmentC08 : Handler := fun _ j => do
  let v ← decValue (← field j "value")
  .ok s!"valok={valOK v}"

def c08Ops : List (String × Handler) := [("marshal", opMarshalC08), ("marshal-parse", opMarshalParseC08), ("fragment", opFragmentC08),
  ("marshal-value", opMarshalValueC08), ("value-fragment", opValueFragmentC08)]

end CedarGo.Driver
