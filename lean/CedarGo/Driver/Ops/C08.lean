/-
  Driver ops for C08.
-/
import CedarGo.Driver.Ops.Core
namespace CedarGo.Driver
open Lean CedarGo

def c08Ops : List (String × Handler) := []

end CedarGo.Driver
