/-
  Driver ops for C17.
-/
import CedarGo.Driver.Ops.Core
namespace CedarGo.Driver
open Lean CedarGo

def c17Ops : List (String × Handler) := []

end CedarGo.Driver
