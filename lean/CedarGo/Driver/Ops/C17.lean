/-
  Driver ops for C17: the Cedar text printer (`schema-print`, bytes), the JSON encoder (`schema-json`, bytes)
  and the JSON struct-level round trip (`schema-json-roundtrip`).  `schema-resolve` lives in Ops/C16.lean.
-/
import CedarGo.Driver.Ops.C16
import CedarGo.Model.Schema.Json
import CedarGo.Model.Schema.Text
import CedarGo.Model.Schema.Parser
namespace CedarGo.Driver
open Lean CedarGo CedarGo.Schema

def opSchemaPrint : Handler := fun _ j => do
  .ok (hex (printSchema (← getSchemaC1617 j)))

def opSchemaJson : Handler := fun _ j => do
  .ok (hex (renderSchemaJson (← getSchemaC1617 j)))

def opSchemaJsonRoundtrip : Handler := fun _ j => do
  let s ← getSchemaC1617 j
  match unmarshalSchema (marshalSchema s) with
  | .ok s' => .ok (if s' = { s with bare := { s.bare with anns := [] } } then "same" else "differs")
  | .error _ => .ok "error"

/-- the text parser: Cedar schema text (hex) -> canonical AST dump, or `err` -/
def opSchemaParse : Handler := fun _ j => do
  let src ← jHex (← field j "text")
  match parseSchema src with
  | .ok s => .ok ("ok " ++ showSchemaAst s)
  | .error _ => .ok "err"

/-- the text leg inside the model: `(parse (print s)).bind resolve` against `resolve s`, and print stability -/
def opSchemaTextRoundtrip : Handler := fun _ j => do
  let s ← getSchemaC1617 j
  let t1 := printSchema s
  match parseSchema t1 with
  | .error _ => .ok ("unparseable " ++ (match resolve s with | some (.ok _) => "resolvable" | _ => "unresolvable"))
  | .ok s' =>
    let stable := if printSchema s' = t1 then "stable" else "unstable"
    let same := if showResolve s' = showResolve s then "same" else "differs"
    .ok (stable ++ " " ++ same)

def c17Ops : List (String × Handler) :=
  [("schema-print", opSchemaPrint), ("schema-json", opSchemaJson), ("schema-json-roundtrip", opSchemaJsonRoundtrip),
   ("schema-parse", opSchemaParse), ("schema-text-roundtrip", opSchemaTextRoundtrip)]

end CedarGo.Driver
