/-
  Driver ops for C15: `validate` — the fragment model's accept/reject decision for a policy against a
  tiny schema encoding of our own (harness/vh/enc_c15.go): known entity type names (declared + enum), the declared
  entity types with attribute record type / tag type / parent types, actions with parents, appliesTo
  principal/resource lists and a context record type.  Constructs outside the fragment answer `skip`.
-/
import CedarGo.Driver.Ops.Core
import CedarGo.Model.Validate.Check
namespace CedarGo.Driver
open Lean CedarGo CedarGo.Validate

def decExtTyC15 (s : String) : D ExtTy :=
  match s with
  | "decimal" => .ok .decimal | "datetime" => .ok .datetime | "duration" => .ok .duration | "ipaddr" => .ok .ipaddr
  | _ => .error s!"unknown-extension-type {s}"

partial def decTyC15 (j : Json) : D Ty := do
  match ← jArr j with
  | [.str "string"] => .ok .string
  | [.str "long"] => .ok .long
  | [.str "bool"] => .ok .bool
  | [.str "ext", .str x] => .ok (.ext (← decExtTyC15 x))
  | [.str "entity", t] => .ok (.entity [← jHex t])
  | [.str "set", e] => .ok (.set (← decTyC15 e))
  | [.str "record", as] => do
      let attrs ← (← jArr as).mapM fun a => do
        match ← jArr a with
        | [k, t, req] => .ok ((← jHex k), (← decTyC15 t), (← jBool req))
        | _ => .error "bad attr"
      .ok (.record attrs)
  | _ => .error s!"bad type {j.compress}"

def decSchemaC15 (j : Json) : D SchemaLite := do
  let ets ← (← jArr (← field j "entityTypes")).mapM jHex
  let acts ← (← jArr (← field j "actions")).mapM fun a => do
    let uid ← decUID (← field a "uid")
    let parents ← (← jArr (fieldOr a "parents" (.arr #[]))).mapM decUID
    match a.getObjVal? "appliesTo" with
    | .error _ => .ok { uid := uid, appliesTo := none, parents := parents : ActionDecl }
    | .ok apl => do
      let ps ← (← jArr (← field apl "principals")).mapM jHex
      let rs ← (← jArr (← field apl "resources")).mapM jHex
      match ← decTyC15 (← field apl "context") with
      | .record attrs => .ok { uid := uid, appliesTo := some (ps, rs, attrs), parents := parents : ActionDecl }
      | _ => .error "context must be a record type"
  -- `schema.Entities`: name, attribute record type, optional tag type, parent types
  let ents ← (← jArr (fieldOr j "entities" (.arr #[]))).mapM fun e => do
    let name ← jHex (← field e "name")
    let attrs ← match ← decTyC15 (← field e "shape") with
      | .record attrs => .ok attrs
      | _ => .error "shape must be a record type"
    let tags ← match e.getObjVal? "tags" with
      | .error _ => .ok none
      | .ok t => do .ok (some (← decTyC15 t))
    let parents ← (← jArr (← field e "parents")).mapM jHex
    .ok (name, ({ attrs := attrs, tags := tags, parents := parents } : EntityDecl))
  .ok { entityTypes := ets, actions := acts, entities := ents }

def decPolicyC15 (j : Json) : D Policy := do
  let conds ← (← jArr (← field j "conditions")).mapM fun c => do
    match ← jArr c with
    | [w, b] => .ok ((← jBool w), (← decExpr b))
    | _ => .error "bad condition"
  .ok { effect := .permit, principal := ← decScope (← field j "principal"), action := ← decScope (← field j "action"),
        resource := ← decScope (← field j "resource"), conditions := conds }

def validateC15 (dom : Bool) : Handler := fun _ j => do
  let s ← decSchemaC15 (← field j "schema")
  let strict ← jBool (← field j "strict")
  let p ← decPolicyC15 (← field j "policy")
  match validatePolicy dom s strict p with
  | .ok true => .ok "accept"
  | .ok false => .ok "reject"
  | .error .unsupported => .error "outside-fragment"
  | .error .reject => .ok "reject"

/-- `validate`: the Go algorithm (`dom = false`), compared with `validate.New(..).Policy`;
    `validate-dom`: the same restricted to the domain of `C15_typeOf_sound_partial` (reported as a share, and
    checked for inclusion: whatever it accepts the Go validator must accept) -/
def c15Ops : List (String × Handler) := [("validate", validateC15 false), ("validate-dom", validateC15 true)]

end CedarGo.Driver
