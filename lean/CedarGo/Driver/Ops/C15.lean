/-
  Driver ops for C15.
-/
import CedarGo.Driver.Ops.Core
namespace CedarGo.Driver
open Lean CedarGo

def c15Ops : List (String × Handler) := []

end CedarGo.Driver
