/-
  Line-protocol codec (DESIGN §2.4): JSON in, canonical text out.
  Values/expressions arrive as tagged JSON arrays produced by the Go harness walking the public
  Go types; strings are hex of their UTF-8 bytes; integers are decimal strings.
-/
import Lean.Data.Json
import CedarGo.Model.Fold
namespace CedarGo.Driver
open Lean CedarGo

abbrev D := Except String

def hexDigit (c : Char) : Option Nat :=
  if '0' ≤ c && c ≤ '9' then some (c.toNat - 48)
  else if 'a' ≤ c && c ≤ 'f' then some (c.toNat - 87)
  else none

def unhexBytes (s : String) : D (List UInt8) :=
  let rec go : List Char → List UInt8 → D (List UInt8)
    | [], acc => .ok acc.reverse
    | a :: b :: rest, acc =>
      match hexDigit a, hexDigit b with
      | some x, some y => go rest (UInt8.ofNat (x * 16 + y) :: acc)
      | _, _ => .error "bad hex"
    | _, _ => .error "odd hex"
  go s.toList []

def unhex (s : String) : D String := do
  let bs ← unhexBytes s
  match String.fromUTF8? (ByteArray.mk bs.toArray) with
  | some s => .ok s
  | none => .error "invalid-utf8"

def hexOfNat (n : Nat) : Char := if n < 10 then Char.ofNat (48 + n) else Char.ofNat (87 + n)

def hexBytes (bs : List UInt8) : String :=
  String.ofList (bs.flatMap fun b => [hexOfNat (b.toNat / 16), hexOfNat (b.toNat % 16)])

def hex (s : String) : String := hexBytes s.toUTF8.toList

def jStr (j : Json) : D String := match j with | .str s => .ok s | _ => .error s!"expected string: {j.compress}"
def jArr (j : Json) : D (List Json) := match j with | .arr a => .ok a.toList | _ => .error s!"expected array: {j.compress}"
def jBool (j : Json) : D Bool := match j with | .bool b => .ok b | _ => .error "expected bool"
def jInt (j : Json) : D Int := do
  match j with
  | .str s => match s.toInt? with | some i => .ok i | none => .error s!"bad int {s}"
  | .num n => if n.exponent == 0 then .ok n.mantissa else .error "non-integer"
  | _ => .error "expected int"
def jNat (j : Json) : D Nat := do let i ← jInt j; .ok i.toNat
def jHex (j : Json) : D String := do unhex (← jStr j)
def field (j : Json) (k : String) : D Json := match j.getObjVal? k with | .ok v => .ok v | .error _ => .error s!"missing field {k}"
def fieldOr (j : Json) (k : String) (d : Json) : Json := match j.getObjVal? k with | .ok v => v | .error _ => d

partial def decValue (j : Json) : D Value := do
  let a ← jArr j
  match a with
  | [.str "b", b] => .ok (.bool (← jBool b))
  | [.str "l", n] => .ok (.long (← jInt n))
  | [.str "s", s] => .ok (.str (← jHex s))
  | [.str "e", t, i] => .ok (.entity (← jHex t) (← jHex i))
  | [.str "set", xs] => do
      let vs ← (← jArr xs).mapM decValue
      .ok (mkSet vs)                       -- the argument list given to `types.NewSet`
  | [.str "rec", kvs] => do
      let ps ← (← jArr kvs).mapM fun kv => do
        match ← jArr kv with
        | [k, v] => .ok ((← jHex k), (← decValue v))
        | _ => .error "bad rec entry"
      .ok (mkRecord ps)
  | [.str "dec", n] => .ok (.decimal (← jInt n))
  | [.str "dt", n] => .ok (.datetime (← jInt n))
  | [.str "dur", n] => .ok (.duration (← jInt n))
  | [.str "ip", v6, addr, bits] => .ok (.ip ⟨← jBool v6, ← jNat addr, ← jNat bits⟩)
  | _ => .error s!"bad value {j.compress}"

def decPattern (j : Json) : D Pattern := do
  (← jArr j).mapM fun c => do
    match ← jArr c with
    | [w, l] => .ok ⟨← jBool w, ← unhexBytes (← jStr l)⟩
    | _ => .error "bad pattern comp"

def decVar (s : String) : D Var :=
  match s with
  | "principal" => .ok .principal | "action" => .ok .action
  | "resource" => .ok .resource | "context" => .ok .context
  | _ => .error s!"unknown-var {s}"

def binOps : List (String × BinOp) := [
  ("and", .and), ("or", .or), ("eq", .eq), ("ne", .ne), ("lt", .lt), ("le", .le), ("gt", .gt), ("ge", .ge),
  ("add", .add), ("sub", .sub), ("mul", .mul), ("in", .in_), ("contains", .contains),
  ("containsAll", .containsAll), ("containsAny", .containsAny), ("getTag", .getTag), ("hasTag", .hasTag)]

def unOps : List (String × UnOp) := [("not", .not), ("neg", .neg), ("isEmpty", .isEmpty)]

partial def decExpr (j : Json) : D Expr := do
  let a ← jArr j
  match a with
  | [.str "lit", v] => .ok (.lit (← decValue v))
  | [.str "var", .str v] => .ok (.var (← decVar v))
  | [.str "ite", c, t, e] => .ok (.ite (← decExpr c) (← decExpr t) (← decExpr e))
  | [.str "access", e, atr] => .ok (.access (← decExpr e) (← jHex atr))
  | [.str "has", e, atr] => .ok (.has (← decExpr e) (← jHex atr))
  | [.str "like", e, p] => .ok (.like (← decExpr e) (← decPattern p))
  | [.str "is", e, ty] => .ok (.is (← decExpr e) (← jHex ty))
  | [.str "isIn", e, ty, r] => .ok (.isIn (← decExpr e) (← jHex ty) (← decExpr r))
  | [.str "set", es] => .ok (.set (← (← jArr es).mapM decExpr))
  | [.str "rec", kes] => do
      let ps ← (← jArr kes).mapM fun kv => do
        match ← jArr kv with
        | [k, v] => .ok ((← jHex k), (← decExpr v))
        | _ => .error "bad rec entry"
      .ok (.record ps)
  | [.str "call", fn, args] => .ok (.call (← jHex fn) (← (← jArr args).mapM decExpr))
  | [.str op, x] =>
      match unOps.lookup op with
      | some o => .ok (.unop o (← decExpr x))
      | none => .error s!"bad unop {op}"
  | [.str op, l, r] =>
      match binOps.lookup op with
      | some o => .ok (.binop o (← decExpr l) (← decExpr r))
      | none => .error s!"bad binop {op}"
  | _ => .error s!"bad expr {j.compress}"

def decUID (j : Json) : D UID := do
  match ← jArr j with
  | [t, i] => .ok (← jHex t, ← jHex i)
  | _ => .error "bad uid"

def decKVs (j : Json) : D (List (String × Value)) := do
  let ps ← (← jArr j).mapM fun kv => do
    match ← jArr kv with
    | [k, v] => .ok ((← jHex k), (← decValue v))
    | _ => .error "bad kv"
  match mkRecord ps with
  | .record kvs => .ok kvs
  | _ => .ok []

def decEntities (j : Json) : D Entities := do
  (← jArr j).mapM fun e => do
    let uid ← decUID (← field e "uid")
    let parents ← (← jArr (← field e "parents")).mapM decUID
    let attrs ← decKVs (← field e "attrs")
    let tags ← decKVs (← field e "tags")
    .ok (uid, ⟨parents, attrs, tags⟩)

def decEnv (j : Json) : D Env := do
  .ok { entities := ← decEntities (← field j "entities"),
        principal := ← decValue (← field j "principal"),
        action := ← decValue (← field j "action"),
        resource := ← decValue (← field j "resource"),
        context := ← decValue (← field j "context") }

def decScope (j : Json) : D Scope := do
  match ← jArr j with
  | [.str "all"] => .ok .all
  | [.str "eq", u] => .ok (.eq (← decUID u))
  | [.str "in", u] => .ok (.in_ (← decUID u))
  | [.str "inSet", us] => .ok (.inSet (← (← jArr us).mapM decUID))
  | [.str "is", t] => .ok (.is (← jHex t))
  | [.str "isIn", t, u] => .ok (.isIn (← jHex t) (← decUID u))
  | _ => .error "bad scope"

def decPosition (j : Json) : D Position := do
  match ← jArr j with
  | [f, o, l, c] => .ok ⟨← jHex f, ← jNat o, ← jNat l, ← jNat c⟩
  | _ => .error "bad position"

def decPolicy (j : Json) : D Policy := do
  let eff ← jStr (← field j "effect")
  let anns ← (← jArr (fieldOr j "annotations" (.arr #[]))).mapM fun kv => do
    match ← jArr kv with
    | [k, v] => .ok ((← jHex k), (← jHex v))
    | _ => .error "bad annotation"
  let conds ← (← jArr (fieldOr j "conditions" (.arr #[]))).mapM fun c => do
    match ← jArr c with
    | [w, b] => .ok ((← jBool w), (← decExpr b))
    | _ => .error "bad condition"
  let pos ← match j.getObjVal? "position" with
    | .ok p => decPosition p
    | .error _ => .ok {}
  .ok { effect := if eff == "permit" then .permit else .forbid,
        annotations := anns,
        principal := ← decScope (← field j "principal"),
        action := ← decScope (← field j "action"),
        resource := ← decScope (← field j "resource"),
        conditions := conds,
        position := pos }

/-! ## Canonical output -/

def insertSorted (s : String) : List String → List String
  | [] => [s]
  | x :: xs => if s < x then s :: x :: xs else if s == x then x :: xs else x :: insertSorted s xs

def sortDedup (xs : List String) : List String := xs.foldl (fun acc s => insertSorted s acc) []

partial def showValue : Value → String
  | .bool b => if b then "true" else "false"
  | .long n => s!"L{n}"
  | .str s => s!"S{hex s}"
  | .entity t i => s!"E{hex t}:{hex i}"
  | .set xs => "[" ++ ",".intercalate (sortDedup (xs.map showValue)) ++ "]"
  | .record kvs => "{" ++ ",".intercalate (kvs.map fun kv => s!"{hex kv.1}={showValue kv.2}") ++ "}"
  | .decimal n => s!"D{n}"
  | .datetime n => s!"T{n}"
  | .duration n => s!"U{n}"
  | .ip a => s!"I{if a.v6 then 6 else 4}:{a.addr}/{a.bits}"

def showRes : Res → String
  | .ok v => "ok " ++ showValue v
  | .error e => "err " ++ e.name

def showBoolRes : Except Err Bool → String
  | .ok b => if b then "ok true" else "ok false"
  | .error e => "err " ++ e.name

def showPos (p : Position) : String := s!"{hex p.filename}:{p.offset}:{p.line}:{p.column}"

end CedarGo.Driver
