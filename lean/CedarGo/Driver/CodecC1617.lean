/-
  Codec helpers for C16/C17: decoder of the tagged schema encoding produced by harness/vh/enc_c1617.go
  and the canonical dump of a resolved schema (same format as `vh.DumpResolved`).
-/
import CedarGo.Driver.Codec
import CedarGo.Model.Schema.Resolve
namespace CedarGo.Driver
open Lean CedarGo CedarGo.Schema

def decAnnsC1617 (j : Json) : D Anns := do
  (← jArr j).mapM fun kv => do
    match ← jArr kv with
    | [k, v] => .ok ((← jHex k), (← jHex v))
    | _ => .error "bad annotation"

mutual
partial def decTyC1617 (j : Json) : D Ty := do
  match ← jArr j with
  | [.str "string"] => .ok .string
  | [.str "long"] => .ok .long
  | [.str "bool"] => .ok .bool
  | [.str "ext", n] => .ok (.ext (← jHex n))
  | [.str "set", e] => .ok (.set (← decTyC1617 e))
  | [.str "record", as] => .ok (.record (← decAttrsC1617 as))
  | [.str "entity", n] => .ok (.entityRef (← jHex n))
  | [.str "ref", n] => .ok (.typeRef (← jHex n))
  | _ => .error "bad type"
partial def decAttrsC1617 (j : Json) : D Attrs := do
  let l ← (← jArr j).mapM fun a => do
    match ← jArr a with
    | [n, o, an, t] => .ok ((← jHex n), (← jBool o), (← decAnnsC1617 an), (← decTyC1617 t))
    | _ => .error "bad attribute"
  .ok (Attrs.ofList l)
end

def jOpt {α} (j : Json) (f : Json → D α) : D (Option α) :=
  match j with
  | .null => .ok none
  | _ => do .ok (some (← f j))

def decPairsC1617 {α} (j : Json) (f : Json → D α) : D (List (String × α)) := do
  (← jArr j).mapM fun kv => do
    match ← jArr kv with
    | [k, v] => .ok ((← jHex k), (← f v))
    | _ => .error "bad pair"

def decNamespaceC1617 (j : Json) : D Namespace := do
  let ents ← decPairsC1617 (← field j "ents") fun e => do
    let parents ← (← jArr (← field e "parents")).mapM jHex
    .ok ({ anns := ← decAnnsC1617 (← field e "anns"), parents := parents,
           shape := ← jOpt (fieldOr e "shape" .null) decAttrsC1617, tags := ← jOpt (fieldOr e "tags" .null) decTyC1617 } : Entity)
  let enums ← decPairsC1617 (← field j "enums") fun e => do
    .ok ({ anns := ← decAnnsC1617 (← field e "anns"), values := ← (← jArr (← field e "values")).mapM jHex } : Enum)
  let acts ← decPairsC1617 (← field j "acts") fun a => do
    let parents ← (← jArr (← field a "parents")).mapM fun p => do
      match ← jArr p with
      | [t, i] => .ok ((← jHex t), (← jHex i))
      | _ => .error "bad parent ref"
    let applies ← jOpt (fieldOr a "applies" .null) fun ap => do
      .ok ({ principals := ← (← jArr (← field ap "principals")).mapM jHex, resources := ← (← jArr (← field ap "resources")).mapM jHex,
             context := ← jOpt (fieldOr ap "context" .null) decTyC1617 } : AppliesTo)
    .ok ({ anns := ← decAnnsC1617 (← field a "anns"), parents := parents, appliesTo := applies } : Action)
  let cts ← decPairsC1617 (← field j "cts") fun c => do
    .ok ({ anns := ← decAnnsC1617 (← field c "anns"), ty := ← decTyC1617 (← field c "ty") } : CommonType)
  let anns ← match j.getObjVal? "anns" with
    | .ok a => decAnnsC1617 a
    | .error _ => .ok []
  .ok { anns := anns, entities := ents, enums := enums, actions := acts, commonTypes := cts }

def decSchemaC1617 (j : Json) : D Schema := do
  let bare ← decNamespaceC1617 j
  let nss ← decPairsC1617 (← field j "nss") decNamespaceC1617
  .ok { bare := bare, namespaces := nss }

/-! ### which schemas the model covers

Go registers declarations in maps keyed by the QUALIFIED name; two declarations whose qualified names collide
(`ns "A"` + ident `"B::C"` vs `ns "A::B"` + ident `"C"`, or a namespace called `""`) overwrite each other in map
iteration order, which the list model does not reproduce.  Such inputs are answered with `skip`. -/

def hasDup : List String → Bool
  | [] => false
  | x :: xs => xs.contains x || hasDup xs

def qualifiedKeys (s : Schema) (f : Namespace → List String) : List String :=
  (f s.bare).map (qualify "") ++ s.namespaces.flatMap fun nd => (f nd.2).map (qualify nd.1)

def schemaCollides (s : Schema) : Bool :=
  hasDup (qualifiedKeys s fun d => d.entities.map (·.1)) ||
  hasDup (qualifiedKeys s fun d => d.enums.map (·.1)) ||
  hasDup (qualifiedKeys s fun d => d.commonTypes.map (·.1)) ||
  hasDup (s.bare.actions.map (fun a => actionType "" ++ "\x00" ++ a.1) ++ s.namespaces.flatMap fun nd => nd.2.actions.map fun a => actionType nd.1 ++ "\x00" ++ a.1) ||
  s.namespaces.any (fun nd => nd.1 = "") || hasDup (s.namespaces.map (·.1))

/-! ### canonical dump of a resolved schema -/

def insertBy {α} (lt : α → α → Bool) (x : α) : List α → List α
  | [] => [x]
  | y :: ys => if lt x y then x :: y :: ys else y :: insertBy lt x ys

def sortBy {α} (lt : α → α → Bool) (xs : List α) : List α := xs.foldr (insertBy lt) []

def sortStrings (xs : List String) : List String := sortBy (fun a b => decide (a < b)) xs
def sortByKey {α} (xs : List (String × α)) : List (String × α) := sortBy (fun a b => decide (a.1 < b.1)) xs

def dumpAnnsC1617 (a : Anns) : String :=
  "@" ++ ",".intercalate ((sortByKey a).map fun kv => hex kv.1 ++ "=" ++ hex kv.2)

mutual
partial def dumpRTy : RTy → String
  | .string => "S"
  | .long => "L"
  | .bool => "B"
  | .ext n => "X(" ++ hex n ++ ")"
  | .set e => "Set(" ++ dumpRTy e ++ ")"
  | .record as => dumpRAttrs as
  | .entity n => "E(" ++ hex n ++ ")"
partial def dumpRAttrs (as : RAttrs) : String :=
  "{" ++ ",".intercalate ((sortByKey as.toList).map fun x =>
    hex x.1 ++ (if x.2.1 then "?" else "") ++ dumpAnnsC1617 x.2.2.1 ++ ":" ++ dumpRTy x.2.2.2) ++ "}"
end

def hexListSorted (xs : List String) : String := "[" ++ ",".intercalate ((sortStrings xs).map hex) ++ "]"

def uidLt (a b : UID) : Bool := if a.1 = b.1 then decide (a.2 < b.2) else decide (a.1 < b.1)
def showUIDC1617 (u : UID) : String := hex u.1 ++ ":" ++ hex u.2

def dumpResolved (s : RSchema) : String :=
  "ns[" ++ ";".intercalate ((sortByKey s.namespaces).map fun (k, a) => hex k ++ "/" ++ hex k ++ dumpAnnsC1617 a) ++
  "] ents[" ++ ";".intercalate ((sortByKey s.entities).map fun (k, e) =>
      hex k ++ "/" ++ hex e.name ++ dumpAnnsC1617 e.anns ++ " in" ++ hexListSorted e.parents ++ " shape" ++ dumpRAttrs e.shape ++ " tags" ++
      (match e.tags with | none => "-" | some t => dumpRTy t)) ++
  "] enums[" ++ ";".intercalate ((sortByKey s.enums).map fun (k, e) =>
      hex k ++ "/" ++ hex e.name ++ dumpAnnsC1617 e.anns ++ " [" ++ ",".intercalate (e.values.map showUIDC1617) ++ "]") ++
  "] acts[" ++ ";".intercalate ((sortBy (fun a b => uidLt a.1 b.1) s.actions).map fun (u, a) =>
      showUIDC1617 u ++ "/" ++ showUIDC1617 a.uid ++ dumpAnnsC1617 a.anns ++ " in[" ++ ",".intercalate (sortStrings (a.parents.map showUIDC1617)) ++ "] applies" ++
      (match a.appliesTo with
       | none => "-"
       | some ap => "{p" ++ hexListSorted ap.principals ++ " r" ++ hexListSorted ap.resources ++ " c" ++ dumpRAttrs ap.context ++ "}")) ++
  "]"

/-! ### canonical dump of a schema AST (same format as `vh.ShowSchemaAST`) -/

mutual
partial def showTyAst : Ty → String
  | .string => "S"
  | .long => "L"
  | .bool => "B"
  | .ext n => "X(" ++ hex n ++ ")"
  | .set e => "Set(" ++ showTyAst e ++ ")"
  | .record as => showAttrsAst as
  | .entityRef n => "E(" ++ hex n ++ ")"
  | .typeRef n => "T(" ++ hex n ++ ")"
partial def showAttrsAst (as : Attrs) : String :=
  "{" ++ ",".intercalate ((sortByKey as.toList).map fun x =>
    hex x.1 ++ (if x.2.1 then "?" else "") ++ dumpAnnsC1617 x.2.2.1 ++ ":" ++ showTyAst x.2.2.2) ++ "}"
end

def showNamespaceAst (d : Namespace) : String :=
  "E[" ++ ";".intercalate ((sortByKey d.entities).map fun (k, e) =>
      hex k ++ dumpAnnsC1617 e.anns ++ " in[" ++ ",".intercalate (e.parents.map hex) ++ "] shape" ++
      (match e.shape with | none => "-" | some as => showAttrsAst as) ++ " tags" ++
      (match e.tags with | none => "-" | some t => showTyAst t)) ++
  "] N[" ++ ";".intercalate ((sortByKey d.enums).map fun (k, e) =>
      hex k ++ dumpAnnsC1617 e.anns ++ " [" ++ ",".intercalate (e.values.map hex) ++ "]") ++
  "] A[" ++ ";".intercalate ((sortByKey d.actions).map fun (k, a) =>
      hex k ++ dumpAnnsC1617 a.anns ++ " in[" ++ ",".intercalate (a.parents.map fun p => hex p.1 ++ ":" ++ hex p.2) ++ "] applies" ++
      (match a.appliesTo with
       | none => "-"
       | some ap => "{p[" ++ ",".intercalate (ap.principals.map hex) ++ "] r[" ++ ",".intercalate (ap.resources.map hex) ++ "] c" ++
           (match ap.context with | none => "-" | some t => showTyAst t) ++ "}")) ++
  "] C[" ++ ";".intercalate ((sortByKey d.commonTypes).map fun (k, c) =>
      hex k ++ dumpAnnsC1617 c.anns ++ "=" ++ showTyAst c.ty) ++ "]"

def showSchemaAst (s : Schema) : String :=
  showNamespaceAst s.bare ++ " NS[" ++ ";".intercalate ((sortByKey s.namespaces).map fun (k, d) =>
    hex k ++ dumpAnnsC1617 d.anns ++ " " ++ showNamespaceAst d) ++ "]"

end CedarGo.Driver
