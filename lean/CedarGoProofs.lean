import CedarGoProofs.Properties.C02
