/-
  `driver`: reads one JSON object per line on stdin, writes `id<TAB>result` per line on stdout.
  Links only the core-only library `CedarGo`.
-/
import CedarGo.Driver.Ops.Core
open Lean CedarGo CedarGo.Driver

def allOps : List (String × (Json → D String)) := coreOps

def handleLine (line : String) : String :=
  match Json.parse line with
  | .error e => s!"?\tprotocol-error {e}"
  | .ok j =>
    let id := match j.getObjVal? "id" with | .ok (.num n) => toString n.mantissa | .ok (.str s) => s | _ => "?"
    match j.getObjVal? "op" with
    | .ok (.str op) =>
      match allOps.lookup op with
      | some h =>
        match h j with
        | .ok s => s!"{id}\t{s}"
        | .error e => s!"{id}\tskip {e}"
      | none => s!"{id}\tskip unknown-op {op}"
    | _ => s!"{id}\tprotocol-error no-op"

partial def loop (hin : IO.FS.Stream) (hout : IO.FS.Stream) : IO Unit := do
  let line ← hin.getLine
  if line.isEmpty then return ()
  let l := line.trimAsciiEnd.toString
  if !l.isEmpty then hout.putStrLn (handleLine l)
  loop hin hout

def main : IO Unit := do
  let hin ← IO.getStdin
  let hout ← IO.getStdout
  loop hin hout
  hout.flush
