/-
  `driver`: reads one JSON object per line on stdin, writes `id<TAB>result` per line on stdout.
  Links only the core-only library `CedarGo`.
  `{"op":"defenv","name":k,"env":…}` stores an environment; later lines may say `"envref":k`.
-/
import CedarGo.Driver.Ops.Core
open Lean CedarGo CedarGo.Driver

def allOps : List (String × Handler) := coreOps

def handleLine (envs : Envs) (line : String) : Envs × String :=
  match Json.parse line with
  | .error e => (envs, s!"?\tprotocol-error {e}")
  | .ok j =>
    let id := match j.getObjVal? "id" with | .ok (.num n) => toString n.mantissa | .ok (.str s) => s | _ => "?"
    match j.getObjVal? "op" with
    | .ok (.str "defenv") =>
      (match j.getObjVal? "name", (field j "env").bind decEnv with
       | .ok (.str k), .ok env => (envs.insert k env, s!"{id}\tdefined")
       | _, .error e => (envs, s!"{id}\tskip {e}")
       | _, _ => (envs, s!"{id}\tprotocol-error defenv"))
    | .ok (.str op) =>
      match allOps.lookup op with
      | some h =>
        match h envs j with
        | .ok s => (envs, s!"{id}\t{s}")
        | .error e => (envs, s!"{id}\tskip {e}")
      | none => (envs, s!"{id}\tskip unknown-op {op}")
    | _ => (envs, s!"{id}\tprotocol-error no-op")

partial def loop (hin : IO.FS.Stream) (hout : IO.FS.Stream) (envs : Envs) : IO Unit := do
  let line ← hin.getLine
  if line.isEmpty then return ()
  let l := line.trimAsciiEnd.toString
  if l.isEmpty then loop hin hout envs else
  let (envs, out) := handleLine envs l
  hout.putStrLn out
  loop hin hout envs

def main : IO Unit := do
  let hin ← IO.getStdin
  let hout ← IO.getStdout
  loop hin hout {}
  hout.flush
