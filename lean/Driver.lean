/-
  `driver`: reads one JSON object per line on stdin, writes `id<TAB>result` per line on stdout.
  Links only the core-only library `CedarGo`.
  `{"op":"defenv","name":k,"env":…}` stores an environment; later lines may say `"envref":k`.
-/
import CedarGo.Driver.Ops.Core
import CedarGo.Driver.Ops.C05
import CedarGo.Driver.Ops.C06
import CedarGo.Driver.Ops.C07
import CedarGo.Driver.Ops.C08
import CedarGo.Driver.Ops.C09
import CedarGo.Driver.Ops.C10
import CedarGo.Driver.Ops.C11
import CedarGo.Driver.Ops.C12
import CedarGo.Driver.Ops.C13
import CedarGo.Driver.Ops.C14
import CedarGo.Driver.Ops.C15
import CedarGo.Driver.Ops.C16
import CedarGo.Driver.Ops.C17
import CedarGo.Driver.Ops.C18
import CedarGo.Driver.Ops.C19
import CedarGo.Driver.Ops.C20
open Lean CedarGo CedarGo.Driver

def allOps : List (String × Handler) :=
  coreOps ++ c05Ops ++ c06Ops ++ c07Ops ++ c08Ops ++ c09Ops ++ c10Ops ++ c11Ops ++ c12Ops ++ c13Ops ++ c14Ops ++ c15Ops ++ c16Ops ++ c17Ops ++ c18Ops ++ c19Ops ++ c20Ops

def handleLine (envs : Envs) (line : String) : Envs × String :=
  match Json.parse line with
  | .error e => (envs, s!"?\tprotocol-error {e}")
  | .ok j =>
    let id := match j.getObjVal? "id" with | .ok (.num n) => toString n.mantissa | .ok (.str s) => s | _ => "?"
    match j.getObjVal? "op" with
    | .ok (.str "defenv") =>
      (match j.getObjVal? "name", (field j "env").bind decEnv with
       | .ok (.str k), .ok env => (envs.insert k env, s!"{id}\tdefined")
       | _, .error e => (envs, s!"{id}\tskip {e}")
       | _, _ => (envs, s!"{id}\tprotocol-error defenv"))
    | .ok (.str op) =>
      match allOps.lookup op with
      | some h =>
        match h envs j with
        | .ok s => (envs, s!"{id}\t{s}")
        | .error e => (envs, s!"{id}\tskip {e}")
      | none => (envs, s!"{id}\tskip unknown-op {op}")
    | _ => (envs, s!"{id}\tprotocol-error no-op")

partial def loop (hin : IO.FS.Stream) (hout : IO.FS.Stream) (envs : Envs) : IO Unit := do
  let line ← hin.getLine
  if line.isEmpty then return ()
  let l := line.trimAsciiEnd.toString
  if l.isEmpty then loop hin hout envs else
  let (envs, out) := handleLine envs l
  hout.putStrLn out
  loop hin hout envs

def main : IO Unit := do
  let hin ← IO.getStdin
  let hout ← IO.getStdout
  loop hin hout {}
  hout.flush
