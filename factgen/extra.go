package main

// Map-iteration sites (tie (a) of C14, DESIGN §2.3).
//
// The extractor is syntactic (go/parser + go/ast; a go/types pass with the source importer costs
// minutes on this tree) but resolves types as far as declarations allow:
//
//   * every package of the repository is parsed once; per package we collect the named map types
//     (`type X map[..]`, `type Y X`, `type Z = pkg.X`, to a fixpoint, across packages through the
//     file's imports), every struct's fields with their declared types, every function/method with
//     its first result type;
//   * inside a function, the declared types of the receiver, parameters, named results, `var`
//     declarations and `x := make(T)/T{..}/f(..)/y.M(..)/maps.Clone(..)` locals are tracked, and the
//     variables bound by `for k, v := range m` get the map's key/value types;
//   * the operand of a `range` is resolved through identifiers and selector chains; when the chain
//     resolves, the answer is exact (kind "map"); when it does not, the last selector is compared with
//     the set of map-typed field names of the whole repository (kind "map-by-name": may be a false
//     positive, to be classified `not-a-map` by hand);
//   * iterator methods: every function whose result is iter.Seq/iter.Seq2 and whose body ranges over
//     a map, calls maps.All/Keys/Values or returns another such iterator (fixpoint) is map-backed;
//     `range x.M()` for a map-backed iterator name M is a site (kind "iter-method");
//     `range maps.Keys/Values/All(..)` is kind "maps-iter";
//   * iteration that is not a `range` statement: `maps.Keys/Values/All(..)` used as a value
//     (kind "maps-call", e.g. slices.Sorted(maps.Keys(m))), calls of callback iterators whose body
//     ranges over a map (kind "iterate-callback", e.g. Set.Iterate) and calls of methods returning a
//     slice in map order (kind "map-order-slice", e.g. Set.Slice).
//
// Repeated sites with the same (file, func, expr) get a " #n" suffix so that each has its own class.

import (
	"go/ast"
	"os"
	"path/filepath"
	"sort"
	"strconv"
	"strings"
)

const modulePath = "github.com/cedar-policy/cedar-go"

// anchored packages: sites are reported for these directories
var mapRangeDirs = []string{".", "ast", "internal/eval", "internal/json", "internal/parser", "internal/mapset", "types",
	"x/exp/ast", "x/exp/batch", "x/exp/eval", "x/exp/schema", "x/exp/schema/ast", "x/exp/schema/internal/parser", "x/exp/schema/internal/json",
	"x/exp/schema/resolved", "x/exp/schema/validate", "x/exp/types"}

type tyRef struct {
	e   ast.Expr
	pkg *pkgInfo
	f   *ast.File
}

type pkgInfo struct {
	dir     string
	files   map[string]*ast.File     // rel path -> file
	types   map[string]tyRef         // type name -> declared underlying/aliased type expression
	funcs   map[string]*ast.FuncDecl // top-level functions
	fileOf  map[*ast.FuncDecl]*ast.File
	methods []*ast.FuncDecl
}

var pkgs = map[string]*pkgInfo{}

// global name-based tables (fallbacks)
var mapFieldNames = map[string]bool{}      // field names declared with a map type somewhere
var iterNames = map[string]bool{}          // functions/methods returning iter.Seq* that are map-backed
var callbackIterNames = map[string]bool{}  // methods taking a func and ranging over a map (Iterate)
var mapOrderSliceNames = map[string]bool{} // methods returning a slice collected from a map
var methodResult = map[string][]tyRef{}    // method name -> first result types over all receivers

func loadPackages() {
	_ = filepath.WalkDir(repo, func(path string, d os.DirEntry, err error) error {
		if err != nil {
			return nil
		}
		if d.IsDir() {
			n := d.Name()
			if n == "testdata" || n == "corpus" || (strings.HasPrefix(n, ".") && path != repo) || n == "verifhooks" {
				return filepath.SkipDir
			}
			rel, _ := filepath.Rel(repo, path)
			files, _ := listGo(rel)
			if len(files) == 0 {
				return nil
			}
			p := &pkgInfo{dir: rel, files: map[string]*ast.File{}, types: map[string]tyRef{}, funcs: map[string]*ast.FuncDecl{}, fileOf: map[*ast.FuncDecl]*ast.File{}}
			for _, fr := range files {
				if strings.HasPrefix(filepath.Base(fr), "hooks_") {
					continue
				}
				f := parseFile(fr)
				if f == nil {
					continue
				}
				p.files[fr] = f
				for _, decl := range f.Decls {
					switch v := decl.(type) {
					case *ast.GenDecl:
						for _, s := range v.Specs {
							if ts, ok := s.(*ast.TypeSpec); ok {
								p.types[ts.Name.Name] = tyRef{ts.Type, p, f}
							}
						}
					case *ast.FuncDecl:
						p.fileOf[v] = f
						if v.Recv == nil {
							p.funcs[v.Name.Name] = v
						} else {
							p.methods = append(p.methods, v)
						}
					}
				}
			}
			pkgs[rel] = p
		}
		return nil
	})
}

func importDir(f *ast.File, alias string) (string, bool) {
	for _, im := range f.Imports {
		path, err := strconv.Unquote(im.Path.Value)
		if err != nil {
			continue
		}
		name := filepath.Base(path)
		if im.Name != nil {
			name = im.Name.Name
		}
		if name != alias {
			continue
		}
		if path == modulePath {
			return ".", true
		}
		if strings.HasPrefix(path, modulePath+"/") {
			return strings.TrimPrefix(path, modulePath+"/"), true
		}
		return "", false
	}
	return "", false
}

// deref strips pointers, parentheses and generic instantiations.
func deref(e ast.Expr) ast.Expr {
	for {
		switch v := e.(type) {
		case *ast.StarExpr:
			e = v.X
		case *ast.ParenExpr:
			e = v.X
		case *ast.IndexExpr:
			e = v.X
		case *ast.IndexListExpr:
			e = v.X
		default:
			return e
		}
	}
}

// lookupNamed resolves a (possibly qualified) type name to its declaration.
func lookupNamed(t tyRef) (tyRef, bool) {
	switch v := deref(t.e).(type) {
	case *ast.Ident:
		if t.pkg == nil {
			return tyRef{}, false
		}
		r, ok := t.pkg.types[v.Name]
		return r, ok
	case *ast.SelectorExpr:
		if x, ok := v.X.(*ast.Ident); ok && t.f != nil {
			if dir, ok := importDir(t.f, x.Name); ok {
				if p := pkgs[dir]; p != nil {
					r, ok := p.types[v.Sel.Name]
					return r, ok
				}
			}
		}
	}
	return tyRef{}, false
}

// underlying follows named types to a map/struct/other literal type (bounded depth).
func underlying(t tyRef) tyRef {
	for i := 0; i < 8; i++ {
		if t.e == nil {
			return t
		}
		switch deref(t.e).(type) {
		case *ast.Ident, *ast.SelectorExpr:
			n, ok := lookupNamed(t)
			if !ok {
				return t
			}
			t = n
		default:
			return tyRef{deref(t.e), t.pkg, t.f}
		}
	}
	return t
}

func isMapRef(t tyRef) bool {
	if t.e == nil {
		return false
	}
	_, ok := underlying(t).e.(*ast.MapType)
	return ok
}

func isIterSeqType(e ast.Expr) bool {
	if e == nil {
		return false
	}
	s := exprString(deref(e))
	return s == "iter.Seq" || s == "iter.Seq2"
}

func isSliceType(e ast.Expr) bool {
	a, ok := e.(*ast.ArrayType)
	return ok && a.Len == nil
}

// fieldType finds field `name` in the struct type t (through named types and pointers, one level of embedding).
func fieldType(t tyRef, name string) (tyRef, bool) {
	u := underlying(t)
	st, ok := u.e.(*ast.StructType)
	if !ok || st.Fields == nil {
		return tyRef{}, false
	}
	for _, fl := range st.Fields.List {
		for _, n := range fl.Names {
			if n.Name == name {
				return tyRef{fl.Type, u.pkg, u.f}, true
			}
		}
	}
	for _, fl := range st.Fields.List {
		if len(fl.Names) == 0 { // embedded
			if r, ok := fieldType(tyRef{fl.Type, u.pkg, u.f}, name); ok {
				return r, true
			}
		}
	}
	return tyRef{}, false
}

func firstResult(fd *ast.FuncDecl) ast.Expr {
	if fd.Type.Results == nil || len(fd.Type.Results.List) == 0 {
		return nil
	}
	return fd.Type.Results.List[0].Type
}

// scope: declared types of the identifiers visible in one function.
type scope struct {
	pkg      *pkgInfo
	file     *ast.File
	vars     map[string]tyRef
	caseBind map[*ast.CaseClause]string // type-switch clauses -> the identifier they bind
}

func (s *scope) ref(e ast.Expr) tyRef { return tyRef{e, s.pkg, s.file} }

// typeOf resolves the static type of an expression as far as declarations allow.
func (s *scope) typeOf(e ast.Expr) (tyRef, bool) {
	switch v := e.(type) {
	case *ast.ParenExpr:
		return s.typeOf(v.X)
	case *ast.StarExpr:
		return s.typeOf(v.X)
	case *ast.Ident:
		t, ok := s.vars[v.Name]
		return t, ok && t.e != nil
	case *ast.SelectorExpr:
		if x, ok := v.X.(*ast.Ident); ok {
			if _, isVar := s.vars[x.Name]; !isVar {
				if _, isPkg := importDir(s.file, x.Name); isPkg {
					return tyRef{}, false // package-level variable of another package
				}
			}
		}
		xt, ok := s.typeOf(v.X)
		if !ok {
			return tyRef{}, false
		}
		return fieldType(xt, v.Sel.Name)
	case *ast.CompositeLit:
		if v.Type != nil {
			return s.ref(v.Type), true
		}
	case *ast.UnaryExpr:
		if cl, ok := v.X.(*ast.CompositeLit); ok && cl.Type != nil {
			return s.ref(cl.Type), true
		}
	case *ast.IndexExpr: // m[k] for a map with a resolvable value type
		if xt, ok := s.typeOf(v.X); ok {
			if mt, ok := underlying(xt).e.(*ast.MapType); ok {
				u := underlying(xt)
				return tyRef{mt.Value, u.pkg, u.f}, true
			}
		}
	case *ast.CallExpr:
		switch fn := v.Fun.(type) {
		case *ast.Ident:
			if (fn.Name == "make" || fn.Name == "new") && len(v.Args) > 0 {
				return s.ref(v.Args[0]), true
			}
			if fd := s.pkg.funcs[fn.Name]; fd != nil {
				if r := firstResult(fd); r != nil {
					return tyRef{r, s.pkg, s.pkg.fileOf[fd]}, true
				}
			}
			if _, ok := s.pkg.types[fn.Name]; ok && len(v.Args) == 1 { // conversion T(x)
				return s.ref(fn), true
			}
		case *ast.SelectorExpr:
			if x, ok := fn.X.(*ast.Ident); ok {
				if _, isVar := s.vars[x.Name]; !isVar {
					if x.Name == "maps" && (fn.Sel.Name == "Clone") && len(v.Args) == 1 {
						return s.typeOf(v.Args[0])
					}
					if dir, ok := importDir(s.file, x.Name); ok {
						if p := pkgs[dir]; p != nil {
							if fd := p.funcs[fn.Sel.Name]; fd != nil {
								if r := firstResult(fd); r != nil {
									return tyRef{r, p, p.fileOf[fd]}, true
								}
							}
							if _, ok := p.types[fn.Sel.Name]; ok && len(v.Args) == 1 {
								return s.ref(fn), true
							}
						}
						return tyRef{}, false
					}
				}
			}
			// method call: unique result type over all methods of that name
			rs := methodResult[fn.Sel.Name]
			if len(rs) > 0 {
				allMap, allSame := true, true
				for _, r := range rs {
					if !isMapRef(r) {
						allMap = false
					}
					if exprString(r.e) != exprString(rs[0].e) {
						allSame = false
					}
				}
				if allMap || allSame {
					return rs[0], true
				}
			}
		case *ast.IndexExpr: // generic conversion MapSet[T](h)
			if len(v.Args) == 1 {
				return s.ref(fn), true
			}
		}
	}
	return tyRef{}, false
}

func newScope(p *pkgInfo, f *ast.File, fd *ast.FuncDecl) *scope {
	s := &scope{pkg: p, file: f, vars: map[string]tyRef{}, caseBind: map[*ast.CaseClause]string{}}
	addFields := func(fl *ast.FieldList) {
		if fl == nil {
			return
		}
		for _, fld := range fl.List {
			for _, n := range fld.Names {
				s.vars[n.Name] = s.ref(fld.Type)
			}
		}
	}
	addFields(fd.Recv)
	addFields(fd.Type.Params)
	addFields(fd.Type.Results)
	return s
}

// declare walks the body in source order recording local variable types (no block scoping: a
// shadowing redeclaration with a different type overwrites, which can only turn an exact answer
// into the name-based fallback or vice versa for the same name).
func (s *scope) declare(n ast.Node) {
	switch v := n.(type) {
	case *ast.TypeSwitchStmt: // switch t := x.(type): inside a single-type clause t has that type
		if as, ok := v.Assign.(*ast.AssignStmt); ok && len(as.Lhs) == 1 {
			if id, ok := as.Lhs[0].(*ast.Ident); ok && v.Body != nil {
				for _, st := range v.Body.List {
					if cc, ok := st.(*ast.CaseClause); ok {
						s.caseBind[cc] = id.Name
					}
				}
			}
		}
	case *ast.CaseClause:
		if name, ok := s.caseBind[v]; ok {
			if len(v.List) == 1 {
				s.vars[name] = s.ref(v.List[0])
			} else {
				s.vars[name] = tyRef{}
			}
		}
	case *ast.FuncLit:
		if v.Type.Params != nil {
			for _, fld := range v.Type.Params.List {
				for _, nm := range fld.Names {
					s.vars[nm.Name] = s.ref(fld.Type)
				}
			}
		}
	case *ast.DeclStmt:
		if gd, ok := v.Decl.(*ast.GenDecl); ok {
			for _, sp := range gd.Specs {
				vs, ok := sp.(*ast.ValueSpec)
				if !ok {
					continue
				}
				for i, nm := range vs.Names {
					if vs.Type != nil {
						s.vars[nm.Name] = s.ref(vs.Type)
					} else if i < len(vs.Values) {
						if t, ok := s.typeOf(vs.Values[i]); ok {
							s.vars[nm.Name] = t
						} else {
							s.vars[nm.Name] = tyRef{}
						}
					}
				}
			}
		}
	case *ast.AssignStmt:
		if v.Tok.String() != ":=" {
			return
		}
		for i, l := range v.Lhs {
			id, ok := l.(*ast.Ident)
			if !ok || id.Name == "_" {
				continue
			}
			if len(v.Lhs) == len(v.Rhs) {
				if t, ok := s.typeOf(v.Rhs[i]); ok {
					s.vars[id.Name] = t
					continue
				}
			} else if i == 0 && len(v.Rhs) == 1 { // v, ok := m[k] / f()
				if t, ok := s.typeOf(v.Rhs[0]); ok {
					s.vars[id.Name] = t
					continue
				}
			}
			s.vars[id.Name] = tyRef{}
		}
	case *ast.RangeStmt:
		if v.Tok.String() != ":=" {
			return
		}
		xt, ok := s.typeOf(v.X)
		var kt, vt tyRef
		if ok {
			u := underlying(xt)
			switch m := u.e.(type) {
			case *ast.MapType:
				kt, vt = tyRef{m.Key, u.pkg, u.f}, tyRef{m.Value, u.pkg, u.f}
			case *ast.ArrayType:
				vt = tyRef{m.Elt, u.pkg, u.f}
			}
		}
		if id, ok := v.Key.(*ast.Ident); ok && id.Name != "_" {
			s.vars[id.Name] = kt
		}
		if id, ok := v.Value.(*ast.Ident); ok && id.Name != "_" {
			s.vars[id.Name] = vt
		}
	}
}

func isMapsIterCall(e ast.Expr) bool {
	c, ok := e.(*ast.CallExpr)
	if !ok {
		return false
	}
	s := exprString(c.Fun)
	return s == "maps.Keys" || s == "maps.Values" || s == "maps.All"
}

// rangeKind classifies the operand of a range statement; "" = not a map iteration.
func (s *scope) rangeKind(x ast.Expr) string {
	if isMapsIterCall(x) {
		return "maps-iter"
	}
	if c, ok := x.(*ast.CallExpr); ok {
		if t, ok := s.typeOf(x); ok {
			if isMapRef(t) {
				return "map"
			}
			if isIterSeqType(t.e) {
				if sel, ok := c.Fun.(*ast.SelectorExpr); ok && !iterNames[sel.Sel.Name] {
					return ""
				}
				return "iter-method"
			}
		}
		switch fn := c.Fun.(type) {
		case *ast.SelectorExpr:
			if iterNames[fn.Sel.Name] {
				return "iter-method"
			}
		case *ast.Ident:
			if iterNames[fn.Name] {
				return "iter-method"
			}
		}
		return ""
	}
	if t, ok := s.typeOf(x); ok {
		if isMapRef(t) {
			return "map"
		}
		if isIterSeqType(underlying(t).e) {
			return "iter-value"
		}
		return ""
	}
	switch v := x.(type) {
	case *ast.SelectorExpr:
		if mapFieldNames[v.Sel.Name] {
			return "map-by-name"
		}
	}
	return ""
}

// bodyIteratesMap: does the function body range over a map / call maps.* / a map-backed iterator?
func bodyIteratesMap(p *pkgInfo, fd *ast.FuncDecl) bool {
	s := newScope(p, p.fileOf[fd], fd)
	found := false
	ast.Inspect(fd.Body, func(n ast.Node) bool {
		if n == nil || found {
			return false
		}
		s.declare(n)
		switch v := n.(type) {
		case *ast.RangeStmt:
			if k := s.rangeKind(v.X); k != "" {
				found = true
			}
		case *ast.CallExpr:
			if isMapsIterCall(v) {
				found = true
			}
			if sel, ok := v.Fun.(*ast.SelectorExpr); ok && (iterNames[sel.Sel.Name] || mapOrderSliceNames[sel.Sel.Name] || callbackIterNames[sel.Sel.Name]) {
				found = true
			}
		}
		return true
	})
	return found
}

func hasFuncParam(fd *ast.FuncDecl) bool {
	if fd.Type.Params == nil {
		return false
	}
	for _, p := range fd.Type.Params.List {
		t := p.Type
		if _, ok := t.(*ast.FuncType); ok {
			return true
		}
		if id, ok := t.(*ast.Ident); ok && strings.HasSuffix(id.Name, "Iterator") {
			return true
		}
	}
	return false
}

func buildGlobalTables() {
	for _, p := range pkgs {
		for _, tr := range p.types {
			if st, ok := tr.e.(*ast.StructType); ok && st.Fields != nil {
				for _, fl := range st.Fields.List {
					if isMapRef(tyRef{fl.Type, tr.pkg, tr.f}) {
						for _, n := range fl.Names {
							mapFieldNames[n.Name] = true
						}
					}
				}
			}
		}
		for _, m := range p.methods {
			if r := firstResult(m); r != nil {
				methodResult[m.Name.Name] = append(methodResult[m.Name.Name], tyRef{r, p, p.fileOf[m]})
			}
		}
	}
	// anonymous struct fields / local struct types inside functions
	for _, p := range pkgs {
		for _, f := range p.files {
			ast.Inspect(f, func(n ast.Node) bool {
				if st, ok := n.(*ast.StructType); ok && st.Fields != nil {
					for _, fl := range st.Fields.List {
						if isMapRef(tyRef{fl.Type, p, f}) {
							for _, nm := range fl.Names {
								mapFieldNames[nm.Name] = true
							}
						}
					}
				}
				return true
			})
		}
	}
	// iterator / callback / slice methods: fixpoint over "body iterates a map"
	for changed := true; changed; {
		changed = false
		for _, p := range pkgs {
			var all []*ast.FuncDecl
			all = append(all, p.methods...)
			for _, fd := range p.funcs {
				all = append(all, fd)
			}
			for _, fd := range all {
				if fd.Body == nil {
					continue
				}
				r := firstResult(fd)
				name := fd.Name.Name
				switch {
				case isIterSeqType(r) && !iterNames[name]:
					if bodyIteratesMap(p, fd) {
						iterNames[name] = true
						changed = true
					}
				case r != nil && isSliceType(r) && exprString(r.(*ast.ArrayType).Elt) != "byte" && fd.Recv != nil && (fd.Type.Params == nil || len(fd.Type.Params.List) == 0) && !mapOrderSliceNames[name]:
					// a nullary method returning a slice whose body only collects a map
					if len(fd.Body.List) <= 3 && bodyIteratesMap(p, fd) && !containsSort(fd.Body) {
						mapOrderSliceNames[name] = true
						changed = true
					}
				case fd.Recv != nil && r == nil && hasFuncParam(fd) && !callbackIterNames[name]:
					if len(fd.Body.List) <= 2 && bodyIteratesMap(p, fd) {
						callbackIterNames[name] = true
						changed = true
					}
				}
			}
		}
	}
}

func containsSort(n ast.Node) bool {
	found := false
	ast.Inspect(n, func(n ast.Node) bool {
		if c, ok := n.(*ast.CallExpr); ok {
			s := exprString(c.Fun)
			if strings.HasPrefix(s, "sort.") || strings.HasPrefix(s, "slices.Sort") {
				found = true
			}
		}
		return !found
	})
	return found
}

func mapRangeFacts() {
	loadPackages()
	buildGlobalTables()
	for _, d := range mapRangeDirs {
		p := pkgs[filepath.Clean(d)]
		if p == nil {
			continue
		}
		var rels []string
		for rel := range p.files {
			rels = append(rels, rel)
		}
		sort.Strings(rels)
		for _, rel := range rels {
			f := p.files[rel]
			for _, decl := range f.Decls {
				fd, ok := decl.(*ast.FuncDecl)
				if !ok || fd.Body == nil {
					continue
				}
				fn := fd.Name.Name
				if fd.Recv != nil && len(fd.Recv.List) > 0 {
					fn = exprString(fd.Recv.List[0].Type) + "." + fn
				}
				seen := map[string]int{}
				emit := func(x ast.Expr, kind string) {
					e := exprString(x)
					seen[e]++
					if seen[e] > 1 {
						e = e + " #" + strconv.Itoa(seen[e])
					}
					facts.MapRanges = append(facts.MapRanges, mapRange{File: rel, Func: fn, Expr: e, Kind: kind})
				}
				s := newScope(p, f, fd)
				rangeOperands := map[ast.Expr]bool{}
				ast.Inspect(fd.Body, func(n ast.Node) bool {
					if n == nil {
						return false
					}
					s.declare(n)
					switch v := n.(type) {
					case *ast.RangeStmt:
						rangeOperands[v.X] = true
						if k := s.rangeKind(v.X); k != "" {
							emit(v.X, k)
						}
					case *ast.CallExpr:
						if rangeOperands[v] {
							return true
						}
						if isMapsIterCall(v) {
							emit(v, "maps-call")
						} else if sel, ok := v.Fun.(*ast.SelectorExpr); ok {
							switch {
							case callbackIterNames[sel.Sel.Name]:
								emit(v.Fun, "iterate-callback")
							case mapOrderSliceNames[sel.Sel.Name] && len(v.Args) == 0:
								emit(v, "map-order-slice")
							}
						}
					}
					return true
				})
			}
		}
	}
}
