package main

import (
	"go/ast"
	"strings"
)

// mapRangeFacts: every `range` statement in non-test files of the anchored packages whose operand
// is syntactically a map-like iteration (map-typed field/ident by naming convention is not decidable
// without types, so we record: `maps.Keys/Values/All(..)`, `.All()`, `.Keys()`, `.Values()` iterator
// calls and ranges over identifiers/selectors declared as maps in the same file).
func mapRangeFacts() {
	dirs := []string{".", "internal/eval", "internal/json", "internal/parser", "types", "internal/mapset", "x/exp/batch", "x/exp/schema/internal/parser", "x/exp/schema/internal/json", "x/exp/schema/resolved", "x/exp/schema/validate", "x/exp/schema", "x/exp/types"}
	for _, d := range dirs {
		files, _ := listGo(d)
		for _, rel := range files {
			f := parseFile(rel)
			if f == nil {
				continue
			}
			mapNames := declaredMaps(f)
			for _, decl := range f.Decls {
				fd, ok := decl.(*ast.FuncDecl)
				if !ok || fd.Body == nil {
					continue
				}
				fn := fd.Name.Name
				if fd.Recv != nil && len(fd.Recv.List) > 0 {
					fn = exprString(fd.Recv.List[0].Type) + "." + fn
				}
				local := localMaps(fd)
				ast.Inspect(fd.Body, func(n ast.Node) bool {
					rs, ok := n.(*ast.RangeStmt)
					if !ok {
						return true
					}
					x := exprString(rs.X)
					kind := ""
					switch {
					case strings.HasPrefix(x, "maps.Keys(") || strings.HasPrefix(x, "maps.Values(") || strings.HasPrefix(x, "maps.All("):
						kind = "maps-iter"
					case strings.HasSuffix(x, ".All()") || strings.HasSuffix(x, ".Keys()") || strings.HasSuffix(x, ".Values()"):
						kind = "iter-method"
					case mapNames[lastSel(x)] || local[x]:
						kind = "map"
					}
					if kind != "" {
						facts.MapRanges = append(facts.MapRanges, mapRange{File: rel, Func: fn, Expr: x, Kind: kind})
					}
					return true
				})
			}
		}
	}
}

func lastSel(x string) string {
	if i := strings.LastIndex(x, "."); i >= 0 {
		return x[i+1:]
	}
	return x
}

// declaredMaps: struct fields and package vars whose declared type is a map (by syntax).
func declaredMaps(f *ast.File) map[string]bool {
	m := map[string]bool{}
	ast.Inspect(f, func(n ast.Node) bool {
		switch v := n.(type) {
		case *ast.Field:
			if isMapType(v.Type) {
				for _, n := range v.Names {
					m[n.Name] = true
				}
			}
		case *ast.ValueSpec:
			if v.Type != nil && isMapType(v.Type) {
				for _, n := range v.Names {
					m[n.Name] = true
				}
			}
			for i, val := range v.Values {
				if cl, ok := val.(*ast.CompositeLit); ok && isMapType(cl.Type) && i < len(v.Names) {
					m[v.Names[i].Name] = true
				}
			}
		}
		return true
	})
	return m
}

var mapTypeNames = map[string]bool{"RecordMap": true, "types.RecordMap": true, "EntityMap": true, "types.EntityMap": true, "PolicyMap": true, "Annotations": true, "types.Annotations": true}

func isMapType(e ast.Expr) bool {
	if e == nil {
		return false
	}
	if _, ok := e.(*ast.MapType); ok {
		return true
	}
	return mapTypeNames[exprString(e)]
}

// localMaps: parameters/locals of the function declared with a map type or made with make(map..)/map literal.
func localMaps(fd *ast.FuncDecl) map[string]bool {
	m := map[string]bool{}
	if fd.Type.Params != nil {
		for _, p := range fd.Type.Params.List {
			if isMapType(p.Type) {
				for _, n := range p.Names {
					m[n.Name] = true
				}
			}
		}
	}
	if fd.Recv != nil {
		for _, p := range fd.Recv.List {
			if isMapType(p.Type) {
				for _, n := range p.Names {
					m[n.Name] = true
				}
			}
		}
	}
	ast.Inspect(fd.Body, func(n ast.Node) bool {
		as, ok := n.(*ast.AssignStmt)
		if !ok {
			return true
		}
		for i, r := range as.Rhs {
			if i >= len(as.Lhs) {
				break
			}
			id, ok := as.Lhs[i].(*ast.Ident)
			if !ok {
				continue
			}
			switch v := r.(type) {
			case *ast.CallExpr:
				if fn, ok := v.Fun.(*ast.Ident); ok && fn.Name == "make" && len(v.Args) > 0 && isMapType(v.Args[0]) {
					m[id.Name] = true
				}
			case *ast.CompositeLit:
				if isMapType(v.Type) {
					m[id.Name] = true
				}
			}
		}
		return true
	})
	return m
}
