// factgen: extracts facts from /repo's Go source (go/parser + go/ast only) and writes
// CedarGo/Generated/Facts.lean plus facts.json.  Run on every check (DESIGN §2.3).
package main

import (
	"encoding/json"
	"flag"
	"fmt"
	"go/ast"
	"go/constant"
	"go/parser"
	"go/token"
	"os"
	"path/filepath"
	"sort"
	"strconv"
	"strings"
)

type extEntry struct {
	Name     string
	Args     int
	IsMethod bool
}

type Facts struct {
	ExtMap       []extEntry        `json:"extMap"`
	ExtDispatch  []string          `json:"extDispatch"` // names with a case in newExtensionEval's switch
	IntConsts    map[string]string `json:"intConsts"`
	FoldForced   []string          `json:"foldForced"`  // node types whose fold arm builds newErrorEval unconditionally
	FoldEntityGuard []string       `json:"foldEntityGuard"` // node types whose fold arm guards on EntityUID
	FoldArms     []string          `json:"foldArms"`
	ToEvalArms   []string          `json:"toEvalArms"`
	MapRanges    []mapRange        `json:"mapRanges"`
	Errors       []string          `json:"errors"`
}

type mapRange struct {
	File string `json:"file"`
	Func string `json:"func"`
	Expr string `json:"expr"`
	Kind string `json:"kind"`
}

var repo string
var fset = token.NewFileSet()
var facts = Facts{IntConsts: map[string]string{}}

func parseFile(rel string) *ast.File {
	f, err := parser.ParseFile(fset, filepath.Join(repo, rel), nil, parser.ParseComments)
	if err != nil {
		facts.Errors = append(facts.Errors, err.Error())
		return nil
	}
	return f
}

func exprString(e ast.Expr) string {
	switch v := e.(type) {
	case *ast.Ident:
		return v.Name
	case *ast.SelectorExpr:
		return exprString(v.X) + "." + v.Sel.Name
	case *ast.BasicLit:
		return v.Value
	case *ast.CallExpr:
		var as []string
		for _, a := range v.Args {
			as = append(as, exprString(a))
		}
		return exprString(v.Fun) + "(" + strings.Join(as, ",") + ")"
	case *ast.IndexExpr:
		return exprString(v.X) + "[" + exprString(v.Index) + "]"
	case *ast.StarExpr:
		return "*" + exprString(v.X)
	case *ast.ParenExpr:
		return "(" + exprString(v.X) + ")"
	case *ast.UnaryExpr:
		return v.Op.String() + exprString(v.X)
	case *ast.BinaryExpr:
		return exprString(v.X) + v.Op.String() + exprString(v.Y)
	case *ast.TypeAssertExpr:
		return exprString(v.X) + ".(type)"
	}
	return fmt.Sprintf("<%T>", e)
}

// evalConst evaluates an integer constant expression over known constants.
func evalConst(e ast.Expr, env map[string]constant.Value) (constant.Value, bool) {
	switch v := e.(type) {
	case *ast.BasicLit:
		if v.Kind == token.INT {
			return constant.MakeFromLiteral(v.Value, token.INT, 0), true
		}
	case *ast.Ident:
		c, ok := env[v.Name]
		return c, ok
	case *ast.ParenExpr:
		return evalConst(v.X, env)
	case *ast.CallExpr: // int64(x) conversions
		if len(v.Args) == 1 {
			return evalConst(v.Args[0], env)
		}
	case *ast.BinaryExpr:
		a, ok1 := evalConst(v.X, env)
		b, ok2 := evalConst(v.Y, env)
		if ok1 && ok2 {
			switch v.Op {
			case token.MUL, token.ADD, token.SUB:
				return constant.BinaryOp(a, v.Op, b), true
			case token.SHL:
				n, _ := constant.Uint64Val(b)
				return constant.Shift(a, token.SHL, uint(n)), true
			}
		}
	case *ast.UnaryExpr:
		a, ok := evalConst(v.X, env)
		if ok && v.Op == token.SUB {
			return constant.UnaryOp(token.SUB, a, 0), true
		}
	}
	return nil, false
}

func collectConsts(rel, prefix string) {
	f := parseFile(rel)
	if f == nil {
		return
	}
	env := map[string]constant.Value{}
	for _, d := range f.Decls {
		gd, ok := d.(*ast.GenDecl)
		if !ok || gd.Tok != token.CONST {
			continue
		}
		for _, s := range gd.Specs {
			vs := s.(*ast.ValueSpec)
			for i, n := range vs.Names {
				if i < len(vs.Values) {
					if c, ok := evalConst(vs.Values[i], env); ok {
						env[n.Name] = c
						facts.IntConsts[prefix+n.Name] = c.ExactString()
					}
				}
			}
		}
	}
}

func extMapFacts() {
	f := parseFile("internal/extensions/extensions.go")
	if f == nil {
		return
	}
	ast.Inspect(f, func(n ast.Node) bool {
		vs, ok := n.(*ast.ValueSpec)
		if !ok || len(vs.Names) != 1 || vs.Names[0].Name != "ExtMap" || len(vs.Values) != 1 {
			return true
		}
		cl, ok := vs.Values[0].(*ast.CompositeLit)
		if !ok {
			return true
		}
		for _, el := range cl.Elts {
			kv := el.(*ast.KeyValueExpr)
			name, _ := strconv.Unquote(kv.Key.(*ast.BasicLit).Value)
			e := extEntry{Name: name}
			for _, fe := range kv.Value.(*ast.CompositeLit).Elts {
				fkv := fe.(*ast.KeyValueExpr)
				switch fkv.Key.(*ast.Ident).Name {
				case "Args":
					e.Args, _ = strconv.Atoi(fkv.Value.(*ast.BasicLit).Value)
				case "IsMethod":
					e.IsMethod = fkv.Value.(*ast.Ident).Name == "true"
				}
			}
			facts.ExtMap = append(facts.ExtMap, e)
		}
		return false
	})
	sort.Slice(facts.ExtMap, func(i, j int) bool { return facts.ExtMap[i].Name < facts.ExtMap[j].Name })
}

func findFunc(f *ast.File, name string) *ast.FuncDecl {
	for _, d := range f.Decls {
		if fd, ok := d.(*ast.FuncDecl); ok && fd.Name.Name == name && fd.Recv == nil {
			return fd
		}
	}
	return nil
}

func dispatchFacts() {
	f := parseFile("internal/eval/evalers.go")
	if f == nil {
		return
	}
	fd := findFunc(f, "newExtensionEval")
	if fd == nil {
		facts.Errors = append(facts.Errors, "newExtensionEval not found")
		return
	}
	ast.Inspect(fd, func(n ast.Node) bool {
		cc, ok := n.(*ast.CaseClause)
		if !ok {
			return true
		}
		for _, e := range cc.List {
			if bl, ok := e.(*ast.BasicLit); ok && bl.Kind == token.STRING {
				s, _ := strconv.Unquote(bl.Value)
				facts.ExtDispatch = append(facts.ExtDispatch, s)
			}
		}
		return true
	})
	sort.Strings(facts.ExtDispatch)
}

// typeSwitchArms lists the case types of the first type switch in function fn, with a classifier per arm.
func typeSwitchArms(f *ast.File, fn string, each func(typ string, cc *ast.CaseClause)) []string {
	fd := findFunc(f, fn)
	if fd == nil {
		facts.Errors = append(facts.Errors, fn+" not found")
		return nil
	}
	var arms []string
	done := false
	ast.Inspect(fd, func(n ast.Node) bool {
		ts, ok := n.(*ast.TypeSwitchStmt)
		if !ok || done {
			return !done
		}
		done = true
		for _, st := range ts.Body.List {
			cc := st.(*ast.CaseClause)
			for _, e := range cc.List {
				t := exprString(e)
				arms = append(arms, t)
				if each != nil {
					each(t, cc)
				}
			}
		}
		return false
	})
	sort.Strings(arms)
	return arms
}

func foldFacts() {
	f := parseFile("internal/eval/fold.go")
	if f == nil {
		return
	}
	facts.FoldArms = typeSwitchArms(f, "fold", func(typ string, cc *ast.CaseClause) {
		hasErr, hasGuard := false, false
		ast.Inspect(cc, func(n ast.Node) bool {
			switch v := n.(type) {
			case *ast.CallExpr:
				if id, ok := v.Fun.(*ast.Ident); ok && id.Name == "newErrorEval" {
					hasErr = true
				}
			case *ast.TypeAssertExpr:
				if exprString(v.Type) == "types.EntityUID" {
					hasGuard = true
				}
			}
			return true
		})
		if hasErr && hasGuard {
			facts.FoldEntityGuard = append(facts.FoldEntityGuard, typ)
		} else if hasErr {
			facts.FoldForced = append(facts.FoldForced, typ)
		}
	})
	sort.Strings(facts.FoldForced)
	sort.Strings(facts.FoldEntityGuard)
	if c := parseFile("internal/eval/convert.go"); c != nil {
		facts.ToEvalArms = typeSwitchArms(c, "ToEval", nil)
	}
}

func leanStr(s string) string { return strconv.Quote(s) }

func main() {
	out := flag.String("out", "", "Facts.lean path")
	jsonOut := flag.String("json", "", "facts.json path")
	flag.StringVar(&repo, "repo", "/repo", "repository root")
	flag.Parse()

	extMapFacts()
	dispatchFacts()
	collectConsts("internal/consts/consts.go", "consts.")
	collectConsts("types/decimal.go", "decimal.")
	collectConsts("internal/parser/cedar_tokenize.go", "tokenize.")
	foldFacts()
	mapRangeFacts()
	extraFacts()

	var b strings.Builder
	b.WriteString("/- GENERATED by /verif/factgen from /repo's Go source on every check. Do not edit. -/\nnamespace CedarGo.Facts\n\n")
	b.WriteString("def extMap : List (String × Nat × Bool) := [\n")
	for i, e := range facts.ExtMap {
		sep := ","
		if i == len(facts.ExtMap)-1 {
			sep = ""
		}
		fmt.Fprintf(&b, "  (%s, %d, %v)%s\n", leanStr(e.Name), e.Args, e.IsMethod, sep)
	}
	b.WriteString("]\n\n")
	writeStrList(&b, "extDispatch", facts.ExtDispatch)
	writeStrList(&b, "foldArms", facts.FoldArms)
	writeStrList(&b, "foldForced", facts.FoldForced)
	writeStrList(&b, "foldEntityGuard", facts.FoldEntityGuard)
	writeStrList(&b, "toEvalArms", facts.ToEvalArms)
	keys := make([]string, 0, len(facts.IntConsts))
	for k := range facts.IntConsts {
		keys = append(keys, k)
	}
	sort.Strings(keys)
	b.WriteString("def intConsts : List (String × Int) := [\n")
	for i, k := range keys {
		sep := ","
		if i == len(keys)-1 {
			sep = ""
		}
		fmt.Fprintf(&b, "  (%s, %s)%s\n", leanStr(k), facts.IntConsts[k], sep)
	}
	b.WriteString("]\n\n")
	writeExtra(&b)
	b.WriteString("end CedarGo.Facts\n")
	if *out != "" {
		old, _ := os.ReadFile(*out)
		if string(old) != b.String() {
			_ = os.MkdirAll(filepath.Dir(*out), 0o755)
			if err := os.WriteFile(*out, []byte(b.String()), 0o644); err != nil {
				fmt.Fprintln(os.Stderr, err)
				os.Exit(2)
			}
		}
	}
	if *jsonOut != "" {
		j, _ := json.MarshalIndent(facts, "", " ")
		_ = os.WriteFile(*jsonOut, j, 0o644)
	}
	if len(facts.Errors) > 0 {
		fmt.Fprintln(os.Stderr, "factgen errors:", facts.Errors)
		os.Exit(3)
	}
}

func writeStrList(b *strings.Builder, name string, xs []string) {
	fmt.Fprintf(b, "def %s : List String := [", name)
	for i, x := range xs {
		if i > 0 {
			b.WriteString(", ")
		}
		b.WriteString(leanStr(x))
	}
	b.WriteString("]\n\n")
}
