package main

import (
	"os"
	"path/filepath"
	"sort"
	"strings"
)

func listGo(dir string) ([]string, error) {
	ents, err := os.ReadDir(filepath.Join(repo, dir))
	if err != nil {
		return nil, err
	}
	var out []string
	for _, e := range ents {
		n := e.Name()
		if e.IsDir() || !strings.HasSuffix(n, ".go") || strings.HasSuffix(n, "_test.go") || strings.HasPrefix(n, "verif_") {
			continue
		}
		out = append(out, filepath.Join(dir, n))
	}
	sort.Strings(out)
	return out, nil
}

// extraFacts / writeExtra: hooks for property-specific facts added later.
func extraFacts() {
	c10WriteFacts() // C10 panic-site / construction-site facts (c10.go): .facts.C10.json
	c19Facts() // C19 write-set extractor (c19.go): writeSites / writeSetInfo in .facts.json
	c11AliasFacts() // C11 alias-discipline extractor (c11.go): aliasFactsAll in .facts.json, aliasFacts / aliasWriters in Facts.lean
}

func writeExtra(b *strings.Builder) { c11WriteLean(b) }
