package main

// C19 write-set extractor (DESIGN §4 C19, §2.3).
//
// For every function reachable (syntactic, name-based call graph) from the read-only API roots it
// lists every assignment / map update / append / delete / copy / clear / ++ / channel send / in-place
// std mutator (sort, slices.Compact…, maps.Copy, json.Unmarshal, (*bytes.Buffer).Write…, sync and
// sync/atomic operations) whose target is NOT storage allocated by the same call, every `go`
// statement, and every mention of code it cannot see (module packages outside the analysed set,
// unsafe, reflect).  The list is emitted as `writeSites` in .facts.json and compared with the hand
// classification facts/writes.expected.json by ./check (structural_facts): an unclassified site, or one
// classified SHARED-WRITE, breaks the tie for C19.  tools/c19_mutants.py is its self-test.
//
// The analysis is go/ast only.  go/types with the `source` importer does work offline here, but it
// type-checks the standard library from source on every run (measured: ~45 s CPU, 100 s wall for the
// four packages needed) and factgen runs at the start of EVERY property's check; export data via
// `go list -export` would add a `go` subprocess (5-20 s under load) and a failure mode shared by all
// properties.  Scoping comes from the parser's object resolution, "types" from declaration syntax.
//
// How a write target is judged (all of it an approximation in the trusted base, named in the manifest):
//   * freshness is SHALLOW: a value is fresh when it was allocated by this call (make/new/composite
//     literal/&T{}/zero `var`/append-to-fresh/Clone/Collect/a callee all of whose returns are fresh —
//     a greatest fixpoint over all functions).  Writing ONE step into a fresh value is local.
//   * deeper steps need the intermediate place to be fresh too: a selector path `x.f` is fresh when every
//     assignment to it in the function is fresh and one of them dominates the use (same or enclosing
//     block, earlier), or when it was never assigned and every binding of x is a literal/zero value whose
//     f is fresh or omitted; an element `x[i]` / range value is fresh when x is a container of this call
//     that only ever received fresh elements and never escapes (is not aliased, returned, passed on).
//   * fields of a struct held BY VALUE in a variable of the call (`p2 := *p; p2.f = …`, `var j T`,
//     parameters of struct type) are the variable's own storage; what such a field REFERS to is not.
//   * aliases created through pointers to locals (`q := &x; q.f = shared`) are not tracked.
//   * calls are resolved by NAME over all analysed packages (a superset of the real callees), narrowed to
//     the methods of the receiver's declared type only where that type is written in the source;
//     interface dispatch, method values and function values are covered by the same rule: every mention
//     of a declared function/method name is a call edge; encoding/json and fmt reach Marshal*/String/Error.
//   * a callee that writes through a parameter is summarised (`writes through #i`, least fixpoint); every
//     call site in a reachable function is then checked: a fresh/local argument discharges it, the
//     caller's own parameter propagates the summary to the caller (at an API root: `root-writes-param`),
//     anything else is a `call-arg` site; a writing function used as a VALUE is a `funcvalue` site.
//   * writes into an explicitly passed output sink (`*bytes.Buffer`, `io.Writer`, `*strings.Builder`,
//     `hash.Hash`) are not listed one by one (counted in writeSetInfo.sinkWrites); they propagate like any
//     other summary, so a sink that is not a local of the API call (a scratch buffer kept in a policy) is
//     reported at the call that passes it.

import (
	"encoding/json"
	"fmt"
	"go/ast"
	"go/token"
	"sort"
	"strings"
)

// ---- output ----

type writeSite struct {
	File   string `json:"file"`
	Func   string `json:"func"`
	Target string `json:"target"`
	Kind   string `json:"kind"`
	Root   string `json:"root"`
	Line   int    `json:"line"`
}

var c19Sites []writeSite
var c19Info = map[string]any{}

// extraJSON: additional top-level keys of .facts.json contributed by property-specific extractors.
var extraJSON = map[string]any{}

// MarshalJSON merges extraJSON into the encoded Facts (Facts itself is declared in main.go).
func (f Facts) MarshalJSON() ([]byte, error) {
	type plain Facts
	b, err := json.Marshal(plain(f))
	if err != nil {
		return nil, err
	}
	if len(extraJSON) == 0 {
		return b, nil
	}
	var m map[string]json.RawMessage
	if err := json.Unmarshal(b, &m); err != nil {
		return nil, err
	}
	for k, v := range extraJSON {
		vb, err := json.Marshal(v)
		if err != nil {
			return nil, err
		}
		m[k] = vb
	}
	return json.Marshal(m)
}

// ---- configuration ----

const c19Module = "github.com/cedar-policy/cedar-go"

// packages whose functions take part in the call graph (the anchored read paths + what they call).
var c19Dirs = []string{".", "internal/eval", "internal/json", "internal/parser", "types", "internal/mapset",
	"x/exp/batch", "x/exp/eval", "x/exp/schema/validate",
	// support packages called from the read paths (builders used by PolicyToNode/scopeToNode, tables)
	"x/exp/ast", "ast", "internal", "internal/extensions", "internal/rust", "internal/consts", "x/exp/schema/resolved", "x/exp/schema/ast", "x/exp/types"}

// isRoot decides whether a function is a read-only API root.
func c19IsRoot(f *c19Fn) bool {
	n, r := f.decl.Name.Name, f.recv
	isMarshal := strings.HasPrefix(n, "Marshal") || n == "String" || n == "ExplicitMarshalJSON" || n == "Error"
	switch f.pkg {
	case ".":
		if r == "" {
			return n == "Authorize"
		}
		switch r {
		case "Policy":
			return isMarshal || n == "Annotations" || n == "Effect" || n == "Position" || n == "AST"
		case "PolicySet":
			return isMarshal || n == "IsAuthorized" || n == "Get" || n == "Map" || n == "All"
		case "PolicyMap", "PolicyList":
			return isMarshal || n == "All"
		}
		return isMarshal
	case "x/exp/batch":
		return r == "" && (n == "Authorize" || n == "Ignore" || n == "Variable")
	case "x/exp/eval":
		return r == "" && (n == "Eval" || n == "PartialPolicy" || n == "PolicyToNode" || n == "ToPartialError" || n == "ToVariable" || n == "TypeName")
	case "x/exp/schema/validate":
		return r == "Validator" && (n == "Policy" || n == "Entity" || n == "Entities" || n == "Request")
	case "types", "internal/mapset", "x/exp/types":
		if r == "" {
			return false
		}
		if isMarshal {
			return true
		}
		// accessors = every method that is not a decoder and not a declared mutator of the builder type MapSet
		if strings.HasPrefix(n, "Unmarshal") {
			return false
		}
		if r == "MapSet" && f.recvPtr {
			return false // Add / Remove / UnmarshalJSON: mutators of the (mutable) builder
		}
		return true
	case "internal/json", "internal/parser", "internal/eval", "x/exp/ast", "ast", "internal/rust":
		return r != "" && isMarshal // reached through encoding/json reflection and fmt verbs
	}
	return false
}

// std (or otherwise unparsed) package functions that mutate an argument in place: name -> argument index.
var c19StdMutators = map[string]int{
	"slices.Sort": 0, "slices.SortFunc": 0, "slices.SortStableFunc": 0, "slices.Reverse": 0,
	"slices.Delete": 0, "slices.DeleteFunc": 0, "slices.Insert": 0, "slices.Compact": 0, "slices.CompactFunc": 0, "slices.Replace": 0,
	"sort.Slice": 0, "sort.SliceStable": 0, "sort.Sort": 0, "sort.Stable": 0, "sort.Strings": 0, "sort.Ints": 0, "sort.Float64s": 0,
	"maps.Copy": 0, "maps.DeleteFunc": 0, "maps.Insert": 0,
	"json.Unmarshal": 1, "binary.Read": 2, "binary.PutUvarint": 0, "binary.PutVarint": 0, "utf8.EncodeRune": 0,
	"atomic.StoreInt32": 0, "atomic.StoreInt64": 0, "atomic.StoreUint32": 0, "atomic.StoreUint64": 0, "atomic.StorePointer": 0,
	"atomic.AddInt32": 0, "atomic.AddInt64": 0, "atomic.AddUint32": 0, "atomic.AddUint64": 0,
	"atomic.CompareAndSwapInt32": 0, "atomic.CompareAndSwapInt64": 0, "atomic.CompareAndSwapUint32": 0, "atomic.CompareAndSwapUint64": 0, "atomic.CompareAndSwapPointer": 0,
	"atomic.SwapInt32": 0, "atomic.SwapInt64": 0, "atomic.SwapPointer": 0,
	"io.ReadFull": 1, "io.Copy": 0, "io.WriteString": 0, "fmt.Fprintf": 0, "fmt.Fprint": 0, "fmt.Fprintln": 0, "binary.Write": 0,
}

// methods of types outside the analysed packages that mutate their receiver.
var c19MutatorMethods = map[string]bool{
	"Write": true, "WriteString": true, "WriteByte": true, "WriteRune": true, "ReadFrom": true, "Reset": true, "Truncate": true, "Grow": true,
	"Store": true, "Swap": true, "CompareAndSwap": true, "Add": true, "Or": true, "And": true, "Do": true,
	"LoadOrStore": true, "LoadAndDelete": true, "Delete": true, "CompareAndDelete": true, "Clear": true, "Put": true,
	"Lock": true, "Unlock": true, "RLock": true, "RUnlock": true, "Encode": true, "Flush": true, "Push": true, "Pop": true, "Init": true,
	"Set": true, "SetString": true, "SetInt64": true, "SetBytes": true, "Scan": true, "Next": true, "Decode": true, "Read": true,
}

// std / unparsed package functions whose result is freshly allocated (or not a reference at all).
var c19FreshStdPkgs = map[string]bool{"fmt": true, "errors": true, "strconv": true, "strings": true, "math": true, "time": true, "netip": true,
	"utf8": true, "unicode": true, "fnv": true, "big": true, "bits": true, "cmp": true, "context": true, "hex": true, "base64": true}
var c19FreshStdFuncs = map[string]bool{"maps.Clone": true, "maps.Collect": true, "slices.Clone": true, "slices.Collect": true, "slices.Sorted": true,
	"slices.SortedFunc": true, "slices.Concat": true, "slices.Repeat": true, "bytes.Join": true, "bytes.Clone": true, "bytes.NewBuffer": false,
	"json.Marshal": true, "json.MarshalIndent": true, "maps.Keys": true, "maps.Values": true, "maps.All": true, "slices.Values": true, "slices.All": true,
	"bytes.NewReader": true, "json.NewDecoder": true, "json.NewEncoder": true, "bytes.Compare": true, "bytes.Equal": true, "slices.Compare": true,
	"slices.Contains": true, "slices.Index": true, "slices.Equal": true, "slices.IndexFunc": true, "slices.ContainsFunc": true, "binary.Write": true}

// std functions that return (a reslice of) their first argument: the result is as fresh as that argument.
var c19AliasStdFuncs = map[string]bool{"slices.Compact": true, "slices.CompactFunc": true, "slices.Delete": true, "slices.DeleteFunc": true,
	"slices.Insert": true, "slices.Grow": true, "slices.Clip": true, "slices.Replace": true, "bytes.TrimSpace": true, "bytes.Trim": true,
	"bytes.TrimPrefix": true, "bytes.TrimSuffix": true, "bytes.TrimLeft": true, "bytes.TrimRight": true}

// parameter types that are explicit output sinks.
var c19SinkTypes = map[string]bool{"*bytes.Buffer": true, "io.Writer": true, "*strings.Builder": true, "hash.Hash": true, "hash.Hash64": true, "io.StringWriter": true, "io.ByteWriter": true}

var c19Builtins = map[string]bool{"append": true, "cap": true, "clear": true, "close": true, "complex": true, "copy": true, "delete": true, "imag": true,
	"len": true, "make": true, "max": true, "min": true, "new": true, "panic": true, "print": true, "println": true, "real": true, "recover": true}

// ---- program model ----

type c19Fn struct {
	pkg, file string
	decl      *ast.FuncDecl
	recv      string // receiver base type name ("" for functions)
	recvPtr   bool
	name      string            // display name: Recv.Name or Name
	imports   map[string]string // import name -> repo-relative dir ("" = outside the module)
	params    []*ast.Object     // declared parameter objects in order (blank/unnamed = nil)
	variadic  bool
	recvObj   *ast.Object
	writes    map[int]bool // summary: parameter indexes (-1 = receiver) the function writes through
	retFresh  bool
	reachable bool
	root      bool
	refs      []c19Ref // names mentioned in the body
	foreign   []string // mentions of module packages that are not analysed, of unsafe and of reflect
}

type c19Ref struct {
	pkg    string // "" = method/unknown package; otherwise repo-relative dir
	name   string
	method bool
}

type c19Prog struct {
	fns       []*c19Fn
	byPkgName map[string][]*c19Fn // pkg + ":" + name (functions without receiver)
	methods   map[string][]*c19Fn // method name -> all methods of that name
	types     map[string]ast.Expr // pkg + ":" + TypeName -> type expression
	pkgVars   map[string]bool     // pkg + ":" + name
	topSpecs  map[*ast.ValueSpec]bool
	dirs      map[string]bool // analysed packages
}

func c19ImportDir(path string) string {
	if path == c19Module {
		return "."
	}
	if strings.HasPrefix(path, c19Module+"/") {
		return strings.TrimPrefix(path, c19Module+"/")
	}
	return ""
}

func c19Load() *c19Prog {
	p := &c19Prog{byPkgName: map[string][]*c19Fn{}, methods: map[string][]*c19Fn{}, types: map[string]ast.Expr{}, pkgVars: map[string]bool{}, topSpecs: map[*ast.ValueSpec]bool{}, dirs: map[string]bool{}}
	for _, dir := range c19Dirs {
		p.dirs[dir] = true
		files, err := listGo(dir)
		if err != nil {
			continue // optional support package missing: nothing to analyse there
		}
		for _, rel := range files {
			f := parseFile(rel)
			if f == nil {
				continue
			}
			imports := map[string]string{}
			for _, im := range f.Imports {
				path := strings.Trim(im.Path.Value, `"`)
				name := path[strings.LastIndex(path, "/")+1:]
				if im.Name != nil {
					name = im.Name.Name
				}
				if d := c19ImportDir(path); d != "" {
					imports[name] = d
				} else {
					imports[name] = "" // outside the module
				}
			}
			for _, d := range f.Decls {
				switch v := d.(type) {
				case *ast.GenDecl:
					for _, s := range v.Specs {
						switch sp := s.(type) {
						case *ast.TypeSpec:
							p.types[dir+":"+sp.Name.Name] = sp.Type
						case *ast.ValueSpec:
							p.topSpecs[sp] = true
							if v.Tok == token.VAR {
								for _, n := range sp.Names {
									p.pkgVars[dir+":"+n.Name] = true
								}
							}
						}
					}
				case *ast.FuncDecl:
					if v.Body == nil {
						continue
					}
					fn := &c19Fn{pkg: dir, file: rel, decl: v, imports: imports, writes: map[int]bool{}, retFresh: true}
					fn.name = v.Name.Name
					if v.Recv != nil && len(v.Recv.List) > 0 {
						t := v.Recv.List[0].Type
						if st, ok := t.(*ast.StarExpr); ok {
							fn.recvPtr = true
							t = st.X
						}
						fn.recv = c19BaseTypeName(t)
						fn.name = fn.recv + "." + v.Name.Name
						if len(v.Recv.List[0].Names) > 0 {
							fn.recvObj = v.Recv.List[0].Names[0].Obj
						}
					}
					if v.Type.Params != nil {
						for _, fld := range v.Type.Params.List {
							if _, ok := fld.Type.(*ast.Ellipsis); ok {
								fn.variadic = true
							}
							if len(fld.Names) == 0 {
								fn.params = append(fn.params, nil)
							}
							for _, n := range fld.Names {
								fn.params = append(fn.params, n.Obj)
							}
						}
					}
					p.fns = append(p.fns, fn)
					if fn.recv == "" {
						p.byPkgName[dir+":"+fn.decl.Name.Name] = append(p.byPkgName[dir+":"+fn.decl.Name.Name], fn)
					} else {
						p.methods[fn.decl.Name.Name] = append(p.methods[fn.decl.Name.Name], fn)
					}
				}
			}
		}
	}
	return p
}

func c19BaseTypeName(t ast.Expr) string {
	switch v := t.(type) {
	case *ast.Ident:
		return v.Name
	case *ast.IndexExpr:
		return c19BaseTypeName(v.X)
	case *ast.IndexListExpr:
		return c19BaseTypeName(v.X)
	case *ast.StarExpr:
		return c19BaseTypeName(v.X)
	case *ast.ParenExpr:
		return c19BaseTypeName(v.X)
	}
	return exprString(t)
}

// unwrapFun strips generic instantiation and parentheses from a call's Fun.
func c19UnwrapFun(e ast.Expr) ast.Expr {
	for {
		switch v := e.(type) {
		case *ast.ParenExpr:
			e = v.X
		case *ast.IndexExpr:
			// either generic instantiation f[T] or a call of an indexed func value; treat f[T] when X is a name
			switch v.X.(type) {
			case *ast.Ident, *ast.SelectorExpr:
				e = v.X
			default:
				return e
			}
		case *ast.IndexListExpr:
			e = v.X
		default:
			return e
		}
	}
}

// isTypeExpr: is e (in call position) a type, i.e. is the call a conversion?
func (p *c19Prog) isTypeExpr(fn *c19Fn, e ast.Expr) bool {
	switch v := e.(type) {
	case *ast.ArrayType, *ast.MapType, *ast.ChanType, *ast.FuncType, *ast.InterfaceType, *ast.StructType:
		return true
	case *ast.StarExpr:
		return p.isTypeExpr(fn, v.X)
	case *ast.ParenExpr:
		return p.isTypeExpr(fn, v.X)
	case *ast.IndexExpr:
		return p.isTypeExpr(fn, v.X)
	case *ast.Ident:
		if v.Obj != nil {
			return v.Obj.Kind == ast.Typ
		}
		if _, ok := p.types[fn.pkg+":"+v.Name]; ok {
			return true
		}
		switch v.Name {
		case "string", "int", "int8", "int16", "int32", "int64", "uint", "uint8", "uint16", "uint32", "uint64", "uintptr", "byte", "rune", "float32", "float64", "bool", "any", "error":
			return true
		}
	case *ast.SelectorExpr:
		if id, ok := v.X.(*ast.Ident); ok && id.Obj == nil {
			if dir, ok := fn.imports[id.Name]; ok && dir != "" {
				_, isT := p.types[dir+":"+v.Sel.Name]
				return isT
			}
		}
	}
	return false
}

// callees resolves a call expression. std = the callee is a package-level function outside the analysed
// packages (qualified name returned); fnval = call through a local function value.
func (p *c19Prog) callees(fn *c19Fn, call *ast.CallExpr) (cands []*c19Fn, qual string, kind string) {
	fun := c19UnwrapFun(call.Fun)
	if p.isTypeExpr(fn, fun) {
		return nil, "", "conv"
	}
	switch v := fun.(type) {
	case *ast.Ident:
		if v.Obj != nil && v.Obj.Kind == ast.Var {
			return nil, v.Name, "fnval"
		}
		if c := p.byPkgName[fn.pkg+":"+v.Name]; len(c) > 0 {
			return c, v.Name, "func"
		}
		if c19Builtins[v.Name] {
			return nil, v.Name, "builtin"
		}
		return nil, v.Name, "unknown"
	case *ast.SelectorExpr:
		if id, ok := v.X.(*ast.Ident); ok && id.Obj == nil {
			if dir, ok := fn.imports[id.Name]; ok {
				if dir != "" {
					if c := p.byPkgName[dir+":"+v.Sel.Name]; len(c) > 0 {
						return c, id.Name + "." + v.Sel.Name, "func"
					}
					return nil, id.Name + "." + v.Sel.Name, "unknown"
				}
				return nil, id.Name + "." + v.Sel.Name, "std"
			}
		}
		if c := p.methods[v.Sel.Name]; len(c) > 0 {
			return c, v.Sel.Name, "method"
		}
		return nil, v.Sel.Name, "extmethod"
	case *ast.FuncLit:
		return nil, "", "funclit"
	}
	return nil, "", "fnval"
}

// calleesOf = callees, narrowed by the receiver's DECLARED type when the receiver is a plain variable whose
// type is written in the source (`caps capabilitySet`, `buf *bytes.Buffer`): only methods of that type are
// candidates.  Interfaces, embedded promotion and unknown types keep the full by-name candidate set.
func (c *c19Ctx) calleesOf(call *ast.CallExpr) (cands []*c19Fn, qual string, kind string) {
	cands, qual, kind = c.p.callees(c.fn, call)
	if kind != "method" {
		return
	}
	sel, ok := c19UnwrapFun(call.Fun).(*ast.SelectorExpr)
	if !ok {
		return
	}
	id, ok := sel.X.(*ast.Ident)
	if !ok {
		return
	}
	v := c.varOf(id)
	if v == nil || v.typ == nil {
		return
	}
	t := v.typ
	for {
		switch tt := t.(type) {
		case *ast.StarExpr:
			t = tt.X
			continue
		case *ast.ParenExpr:
			t = tt.X
			continue
		case *ast.IndexExpr:
			t = tt.X
			continue
		case *ast.IndexListExpr:
			t = tt.X
			continue
		}
		break
	}
	var tname, tpkg string
	switch tt := t.(type) {
	case *ast.Ident:
		tname, tpkg = tt.Name, c.fn.pkg
	case *ast.SelectorExpr:
		pid, ok := tt.X.(*ast.Ident)
		if !ok {
			return
		}
		dir, ok := c.fn.imports[pid.Name]
		if !ok {
			return
		}
		if dir == "" {
			return nil, qual, "extmethod" // a type from outside the module: none of our methods
		}
		tname, tpkg = tt.Sel.Name, dir
	default:
		return
	}
	te, known := c.p.types[tpkg+":"+tname]
	if !known || c.typeKind(te, tpkg, 0) == "interface" {
		return
	}
	var filtered []*c19Fn
	for _, f := range cands {
		if f.recv == tname && f.pkg == tpkg {
			filtered = append(filtered, f)
		}
	}
	if len(filtered) > 0 {
		return filtered, qual, kind
	}
	return
}

// ---- per-function analysis ----

type c19VarKind int

const (
	c19Local c19VarKind = iota
	c19Param
	c19Recv
	c19ClosureParam
	c19Result
)

type c19Binding struct {
	expr      ast.Expr // bound expression (nil with zero=true for `var x T` / named result)
	zero      bool
	opaque    bool     // range variable, multi-value receive etc.: never fresh
	typ       ast.Expr // declared type when known
	callIndex int      // for `a, b := f()`: expr is the call
	rangeOf   ast.Expr // value variable of `for _, v := range X`: as fresh as the elements of X
}

type c19Var struct {
	obj      *ast.Object
	kind     c19VarKind
	index    int // parameter index (c19Param), -1 receiver
	typ      ast.Expr
	bindings []c19Binding
	fresh    bool
}

type c19PathAssign struct {
	expr               ast.Expr
	pos                token.Pos // end of the assignment statement
	blockPos, blockEnd token.Pos // enclosing block
}

type c19Ctx struct {
	p           *c19Prog
	fn          *c19Fn
	vars        map[*ast.Object]*c19Var
	pathAssigns map[string][]c19PathAssign
	inProgress  map[string]bool
	elemStores  map[*ast.Object][]ast.Expr // values stored into elements of a local container (v[k] = e, append(v, e…))
	elemOpaque  map[*ast.Object]bool       // the container escapes or receives elements we cannot see
}

func (c *c19Ctx) varOf(id *ast.Ident) *c19Var {
	if id.Obj == nil {
		return nil
	}
	return c.vars[id.Obj]
}

func (c *c19Ctx) isPkgVar(id *ast.Ident) bool {
	if id.Obj != nil {
		if id.Obj.Kind != ast.Var {
			return false
		}
		if vs, ok := id.Obj.Decl.(*ast.ValueSpec); ok && c.p.topSpecs[vs] {
			return true
		}
		return false
	}
	return c.p.pkgVars[c.fn.pkg+":"+id.Name]
}

// pathKey renders a pure selector chain rooted at a local variable ("" if e is not one).
func (c *c19Ctx) pathKey(e ast.Expr) string {
	switch v := e.(type) {
	case *ast.Ident:
		if c.varOf(v) != nil {
			return fmt.Sprintf("%s#%p", v.Name, v.Obj)
		}
		return ""
	case *ast.ParenExpr:
		return c.pathKey(v.X)
	case *ast.StarExpr:
		// (*p).f and p.f denote the same storage
		if k := c.pathKey(v.X); k != "" {
			return k
		}
	case *ast.SelectorExpr:
		if k := c.pathKey(v.X); k != "" {
			return k + "." + v.Sel.Name
		}
	}
	return ""
}

func c19RootIdent(e ast.Expr) (*ast.Ident, *ast.CallExpr) {
	for {
		switch v := e.(type) {
		case *ast.Ident:
			return v, nil
		case *ast.SelectorExpr:
			e = v.X
		case *ast.IndexExpr:
			e = v.X
		case *ast.IndexListExpr:
			e = v.X
		case *ast.SliceExpr:
			e = v.X
		case *ast.StarExpr:
			e = v.X
		case *ast.ParenExpr:
			e = v.X
		case *ast.TypeAssertExpr:
			e = v.X
		case *ast.UnaryExpr:
			e = v.X
		case *ast.CallExpr:
			if len(v.Args) == 1 { // conversion T(x): look through
				fun := c19UnwrapFun(v.Fun)
				switch fun.(type) {
				case *ast.ParenExpr, *ast.StarExpr, *ast.ArrayType, *ast.MapType:
					e = v.Args[0]
					continue
				}
			}
			return nil, v
		default:
			return nil, nil
		}
	}
}

// collect builds the variable table, bindings and path assignments of one function (closures included).
func (c *c19Ctx) collect() {
	fd := c.fn.decl
	addField := func(fl *ast.FieldList, kind c19VarKind, start int) {
		if fl == nil {
			return
		}
		i := start
		for _, f := range fl.List {
			if len(f.Names) == 0 {
				i++
			}
			for _, n := range f.Names {
				if n.Obj != nil {
					v := &c19Var{obj: n.Obj, kind: kind, index: i, typ: f.Type, fresh: true}
					if kind == c19Result {
						v.bindings = append(v.bindings, c19Binding{zero: true, typ: f.Type})
					}
					c.vars[n.Obj] = v
				}
				i++
			}
		}
	}
	addField(fd.Recv, c19Recv, -1)
	addField(fd.Type.Params, c19Param, 0)
	addField(fd.Type.Results, c19Result, 0)

	bind := func(lhs ast.Expr, b c19Binding) {
		id, ok := lhs.(*ast.Ident)
		if !ok || id.Name == "_" || id.Obj == nil {
			return
		}
		v := c.vars[id.Obj]
		if v == nil {
			if id.Obj.Kind != ast.Var {
				return
			}
			if vs, ok := id.Obj.Decl.(*ast.ValueSpec); ok && c.p.topSpecs[vs] {
				return // package-level variable
			}
			v = &c19Var{obj: id.Obj, kind: c19Local, fresh: true}
			c.vars[id.Obj] = v
		}
		if b.typ != nil && v.typ == nil {
			v.typ = b.typ
		}
		v.bindings = append(v.bindings, b)
	}

	var walk func(n ast.Node, blockPos, blockEnd token.Pos)
	walkList := func(list []ast.Stmt, pos, end token.Pos) {
		for _, s := range list {
			walk(s, pos, end)
		}
	}
	walk = func(n ast.Node, blockPos, blockEnd token.Pos) {
		if n == nil {
			return
		}
		switch s := n.(type) {
		case *ast.BlockStmt:
			walkList(s.List, s.Pos(), s.End())
			return
		case *ast.CaseClause:
			for _, e := range s.List {
				walk(e, blockPos, blockEnd)
			}
			walkList(s.Body, s.Pos(), s.End())
			return
		case *ast.CommClause:
			walk(s.Comm, blockPos, blockEnd)
			walkList(s.Body, s.Pos(), s.End())
			return
		case *ast.FuncLit:
			addField(s.Type.Params, c19ClosureParam, 0)
			addField(s.Type.Results, c19Result, 0)
			walk(s.Body, s.Body.Pos(), s.Body.End())
			return
		case *ast.AssignStmt:
			if s.Tok == token.ASSIGN || s.Tok == token.DEFINE {
				for i, l := range s.Lhs {
					var b c19Binding
					switch {
					case len(s.Rhs) == len(s.Lhs):
						b = c19Binding{expr: s.Rhs[i]}
						if ta, ok := s.Rhs[i].(*ast.TypeAssertExpr); ok && s.Tok == token.DEFINE {
							b.typ = ta.Type
						}
					case len(s.Rhs) == 1:
						switch r := s.Rhs[0].(type) {
						case *ast.CallExpr:
							b = c19Binding{expr: r, callIndex: i}
						case *ast.TypeAssertExpr:
							if i == 0 {
								b = c19Binding{expr: r.X, typ: r.Type}
							} else {
								b = c19Binding{zero: true}
							}
						case *ast.IndexExpr: // v, ok := m[k]
							if i == 0 {
								b = c19Binding{expr: r}
							} else {
								b = c19Binding{zero: true}
							}
						default:
							b = c19Binding{opaque: true}
						}
					default:
						b = c19Binding{opaque: true}
					}
					bind(l, b)
					if k := c.pathKey(l); k != "" && strings.Contains(k, ".") && b.expr != nil {
						c.pathAssigns[k] = append(c.pathAssigns[k], c19PathAssign{expr: b.expr, pos: s.End(), blockPos: blockPos, blockEnd: blockEnd})
					} else if k != "" && strings.Contains(k, ".") {
						c.pathAssigns[k] = append(c.pathAssigns[k], c19PathAssign{expr: nil, pos: s.End(), blockPos: blockPos, blockEnd: blockEnd})
					}
				}
			}
			for _, r := range s.Rhs {
				walk(r, blockPos, blockEnd)
			}
			for _, l := range s.Lhs {
				walk(l, blockPos, blockEnd)
			}
			return
		case *ast.DeclStmt:
			if gd, ok := s.Decl.(*ast.GenDecl); ok {
				for _, sp := range gd.Specs {
					vs, ok := sp.(*ast.ValueSpec)
					if !ok {
						continue
					}
					for i, nm := range vs.Names {
						switch {
						case len(vs.Values) == 0:
							bind(nm, c19Binding{zero: true, typ: vs.Type})
						case len(vs.Values) == len(vs.Names):
							bind(nm, c19Binding{expr: vs.Values[i], typ: vs.Type})
						case len(vs.Values) == 1:
							if call, ok := vs.Values[0].(*ast.CallExpr); ok {
								bind(nm, c19Binding{expr: call, callIndex: i, typ: vs.Type})
							} else {
								bind(nm, c19Binding{opaque: true})
							}
						}
					}
					for _, v := range vs.Values {
						walk(v, blockPos, blockEnd)
					}
				}
			}
			return
		case *ast.RangeStmt:
			if s.Tok == token.DEFINE || s.Tok == token.ASSIGN {
				if s.Key != nil {
					bind(s.Key, c19Binding{opaque: true})
				}
				if s.Value != nil {
					bind(s.Value, c19Binding{rangeOf: s.X})
				}
			}
			walk(s.X, blockPos, blockEnd)
			walk(s.Body, blockPos, blockEnd)
			return
		case *ast.TypeSwitchStmt:
			walk(s.Init, blockPos, blockEnd)
			// `switch t := x.(type)`: the parser gives every clause the same object declared by the assign
			if as, ok := s.Assign.(*ast.AssignStmt); ok && len(as.Lhs) == 1 && len(as.Rhs) == 1 {
				if ta, ok := as.Rhs[0].(*ast.TypeAssertExpr); ok {
					bind(as.Lhs[0], c19Binding{expr: ta.X})
					walk(ta.X, blockPos, blockEnd)
				}
			} else {
				walk(s.Assign, blockPos, blockEnd)
			}
			walk(s.Body, blockPos, blockEnd)
			return
		}
		// generic traversal of children, keeping the current block
		ast.Inspect(n, func(ch ast.Node) bool {
			if ch == nil || ch == n {
				return true
			}
			walk(ch, blockPos, blockEnd)
			return false
		})
	}
	walk(fd.Body, fd.Body.Pos(), fd.Body.End())

	// type-switch clause objects: go/parser creates one implicit object per clause only in go/types;
	// with ast.Object resolution all uses share the Assign's object, so nothing more to do.

	c.collectElems()

	// greatest fixpoint of variable freshness
	for changed := true; changed; {
		changed = false
		for _, v := range c.vars {
			if !v.fresh {
				continue
			}
			f := v.kind == c19Local || v.kind == c19Result
			if f {
				for _, b := range v.bindings {
					if !c.bindingFresh(b) {
						f = false
						break
					}
				}
				if len(v.bindings) == 0 {
					f = false
				}
			}
			if !f {
				v.fresh = false
				changed = true
			}
		}
	}
}

// std functions that read a container argument without storing foreign elements into it.
var c19ElemNeutralStd = map[string]bool{"slices.Sort": true, "slices.SortFunc": true, "slices.SortStableFunc": true, "slices.Reverse": true,
	"slices.Compact": true, "slices.CompactFunc": true, "slices.Delete": true, "slices.DeleteFunc": true, "slices.Grow": true, "slices.Clip": true,
	"sort.Slice": true, "sort.SliceStable": true, "sort.Strings": true, "sort.Ints": true, "errors.Join": true, "strings.Join": true,
	"slices.Contains": true, "slices.Index": true, "slices.Equal": true, "slices.IndexFunc": true, "slices.ContainsFunc": true,
	"slices.Clone": true, "maps.Clone": true, "maps.Keys": true, "maps.Values": true, "maps.All": true, "slices.Values": true, "slices.All": true,
	"slices.Collect": true, "slices.Sorted": true, "json.Marshal": true, "bytes.Join": true, "slices.Compare": true, "slices.Concat": true,
	"slices.BinarySearch": true, "slices.Max": true, "slices.Min": true}

// collectElems records, for every local variable, the values stored into its elements and whether it
// escapes (is aliased, returned, passed to code that could store other elements, has its element address taken).
func (c *c19Ctx) collectElems() {
	var stack []ast.Node
	ast.Inspect(c.fn.decl.Body, func(n ast.Node) bool {
		if n == nil {
			stack = stack[:len(stack)-1]
			return true
		}
		stack = append(stack, n)
		id, ok := n.(*ast.Ident)
		if !ok || id.Obj == nil {
			return true
		}
		v := c.vars[id.Obj]
		if v == nil || (v.kind != c19Local && v.kind != c19Result) {
			return true
		}
		// climb through parens and reslices: they denote the same container
		i := len(stack) - 2
		var child ast.Node = id
		for i >= 0 {
			switch p := stack[i].(type) {
			case *ast.ParenExpr:
				child = p
				i--
				continue
			case *ast.SliceExpr:
				if p.X == child {
					child = p
					i--
					continue
				}
			}
			break
		}
		if i < 0 {
			return true
		}
		opaque := func() { c.elemOpaque[id.Obj] = true }
		switch p := stack[i].(type) {
		case *ast.IndexExpr:
			if p.X != child {
				return true // used as an index
			}
			if i == 0 {
				return true
			}
			switch g := stack[i-1].(type) {
			case *ast.AssignStmt:
				for k, l := range g.Lhs {
					if l != ast.Expr(p) {
						continue
					}
					if g.Tok != token.ASSIGN {
						continue // += etc.: numbers and strings
					}
					if len(g.Rhs) == len(g.Lhs) {
						c.elemStores[id.Obj] = append(c.elemStores[id.Obj], g.Rhs[k])
					} else {
						opaque()
					}
				}
			case *ast.UnaryExpr:
				if g.Op == token.AND {
					opaque()
				}
			}
		case *ast.RangeStmt:
			if p.X != child && (p.Key == child || p.Value == child) && p.Tok == token.ASSIGN {
				opaque()
			}
		case *ast.AssignStmt:
			for _, r := range p.Rhs {
				if r == child {
					// aliased under another name; harmless only for self assignment x = x[:n]
					self := false
					if len(p.Lhs) == len(p.Rhs) {
						for k, rr := range p.Rhs {
							if rr == child {
								if lid, ok := p.Lhs[k].(*ast.Ident); ok && lid.Obj == id.Obj {
									self = true
								}
							}
						}
					}
					if !self {
						opaque()
					}
				}
			}
		case *ast.ValueSpec:
			for _, r := range p.Values {
				if r == child {
					opaque()
				}
			}
		case *ast.CallExpr:
			argIdx := -1
			for k, a := range p.Args {
				if a == child {
					argIdx = k
				}
			}
			if argIdx < 0 {
				return true // the function position
			}
			_, qual, kind := c.calleesOf(p)
			switch {
			case kind == "builtin" && (qual == "len" || qual == "cap" || qual == "delete" || qual == "clear" || qual == "min" || qual == "max" || qual == "panic" || qual == "print" || qual == "println"):
			case kind == "builtin" && qual == "append":
				if argIdx == 0 {
					if p.Ellipsis != token.NoPos && len(p.Args) == 2 {
						c.elemStores[id.Obj] = append(c.elemStores[id.Obj], &ast.IndexExpr{X: p.Args[1], Index: &ast.BasicLit{Kind: token.INT, Value: "0"}})
					} else {
						c.elemStores[id.Obj] = append(c.elemStores[id.Obj], p.Args[1:]...)
					}
					// the result must come back to the same variable, otherwise another name shares the backing array
					back := false
					if i > 0 {
						if as, ok := stack[i-1].(*ast.AssignStmt); ok && len(as.Lhs) == len(as.Rhs) {
							for k, r := range as.Rhs {
								if r == ast.Expr(p) {
									if lid, ok := as.Lhs[k].(*ast.Ident); ok && lid.Obj == id.Obj {
										back = true
									}
								}
							}
						}
					}
					if !back {
						opaque()
					}
				}
				// as a spread / element argument the container is only read
			case kind == "builtin" && qual == "copy":
				if argIdx == 0 && len(p.Args) == 2 {
					c.elemStores[id.Obj] = append(c.elemStores[id.Obj], &ast.IndexExpr{X: p.Args[1], Index: &ast.BasicLit{Kind: token.INT, Value: "0"}})
				}
			case kind == "std" && qual == "maps.Copy":
				if argIdx == 0 && len(p.Args) == 2 {
					c.elemStores[id.Obj] = append(c.elemStores[id.Obj], &ast.IndexExpr{X: p.Args[1], Index: &ast.BasicLit{Kind: token.INT, Value: "0"}})
				}
			case kind == "std" && (c19ElemNeutralStd[qual] || strings.HasPrefix(qual, "fmt.")):
				// slices.Compact & co. return the same container: the result must come back to the variable or be dropped
				if c19AliasStdFuncs[qual] && i > 0 {
					if as, ok := stack[i-1].(*ast.AssignStmt); ok {
						back := false
						if len(as.Lhs) == len(as.Rhs) {
							for k, r := range as.Rhs {
								if r == ast.Expr(p) {
									if lid, ok := as.Lhs[k].(*ast.Ident); ok && lid.Obj == id.Obj {
										back = true
									}
								}
							}
						}
						if !back {
							opaque()
						}
					} else if _, isStmt := stack[i-1].(*ast.ExprStmt); !isStmt {
						opaque()
					}
				}
			default:
				opaque()
			}
		case *ast.UnaryExpr:
			if p.Op == token.AND {
				opaque()
			}
		case *ast.SelectorExpr:
			if p.X == child {
				// a method call on the container (named slice/map type) — or a field of a struct variable, which has
				// no elements to protect.  Only the call case matters.
				if i > 0 {
					if ce, ok := stack[i-1].(*ast.CallExpr); ok && c19UnwrapFun(ce.Fun) == ast.Expr(p) {
						opaque()
					}
				}
			}
		case *ast.ReturnStmt, *ast.CompositeLit, *ast.KeyValueExpr, *ast.SendStmt, *ast.TypeAssertExpr, *ast.StarExpr, *ast.GoStmt, *ast.DeferStmt:
			opaque()
		}
		return true
	})
}

func (c *c19Ctx) bindingFresh(b c19Binding) bool {
	if b.opaque {
		return false
	}
	if b.zero {
		return true
	}
	if b.rangeOf != nil {
		return c.elemFresh(b.rangeOf)
	}
	return c.fresh(b.expr)
}

// elemFresh: x is a local container (slice/map) allocated by this call, every value ever stored into its
// elements is fresh, and it never escapes to code that could store something else.
func (c *c19Ctx) elemFresh(x ast.Expr) bool {
	for {
		if p, ok := x.(*ast.ParenExpr); ok {
			x = p.X
			continue
		}
		break
	}
	id, ok := x.(*ast.Ident)
	if !ok {
		return false
	}
	v := c.varOf(id)
	if v == nil || (v.kind != c19Local && v.kind != c19Result) || !v.fresh || c.elemOpaque[v.obj] {
		return false
	}
	key := "elem:" + c.pathKey(id)
	if c.inProgress[key] {
		return true
	}
	c.inProgress[key] = true
	defer delete(c.inProgress, key)
	// the bindings must create the elements visibly: zero, nil, make, literal (fresh elements), append(self…), alias-preserving std of self
	for _, b := range v.bindings {
		if b.zero {
			continue
		}
		if b.opaque || b.rangeOf != nil || !c.bindingElemsFresh(b.expr, v.obj) {
			return false
		}
	}
	for _, e := range c.elemStores[v.obj] {
		if e == nil || !c.fresh(e) {
			return false
		}
	}
	return true
}

// bindingElemsFresh: expression e, bound to container variable self, contributes only fresh elements.
func (c *c19Ctx) bindingElemsFresh(e ast.Expr, self *ast.Object) bool {
	switch v := e.(type) {
	case *ast.ParenExpr:
		return c.bindingElemsFresh(v.X, self)
	case *ast.Ident:
		if v.Name == "nil" && v.Obj == nil {
			return true
		}
		return v.Obj == self
	case *ast.SliceExpr:
		return c.bindingElemsFresh(v.X, self)
	case *ast.CompositeLit:
		for _, el := range v.Elts {
			val := el
			if kv, ok := el.(*ast.KeyValueExpr); ok {
				val = kv.Value
			}
			if _, isLit := val.(*ast.CompositeLit); isLit {
				continue // elided-type element literal: stored inline / freshly allocated
			}
			if !c.fresh(val) {
				return false
			}
		}
		return true
	case *ast.CallExpr:
		_, qual, kind := c.calleesOf(v)
		switch {
		case kind == "builtin" && (qual == "make" || qual == "new"):
			return true
		case kind == "builtin" && qual == "append":
			if len(v.Args) == 0 || !c.bindingElemsFresh(v.Args[0], self) {
				return false
			}
			if v.Ellipsis != token.NoPos {
				return len(v.Args) == 2 && c.elemFresh(v.Args[1])
			}
			for _, a := range v.Args[1:] {
				if !c.fresh(a) {
					return false
				}
			}
			return true
		case kind == "std" && c19AliasStdFuncs[qual] && len(v.Args) > 0 && (qual == "slices.Compact" || qual == "slices.CompactFunc" || qual == "slices.Delete" || qual == "slices.DeleteFunc" || qual == "slices.Grow" || qual == "slices.Clip"):
			return c.bindingElemsFresh(v.Args[0], self)
		}
	}
	return false
}

// fresh: does e evaluate to a value allocated by this call (shallowly), or to a non-reference?
func (c *c19Ctx) fresh(e ast.Expr) bool {
	switch v := e.(type) {
	case nil:
		return true
	case *ast.BasicLit, *ast.FuncLit, *ast.CompositeLit, *ast.BinaryExpr:
		return true
	case *ast.ParenExpr:
		return c.fresh(v.X)
	case *ast.Ident:
		switch v.Name {
		case "nil", "true", "false", "iota":
			if v.Obj == nil {
				return true
			}
		}
		if vv := c.varOf(v); vv != nil {
			return vv.fresh
		}
		if v.Obj != nil && v.Obj.Kind == ast.Con {
			return true
		}
		if v.Obj != nil && v.Obj.Kind == ast.Fun {
			return true
		}
		return false
	case *ast.UnaryExpr:
		if v.Op == token.AND {
			if _, ok := v.X.(*ast.CompositeLit); ok {
				return true
			}
			return c.storageLocal(v.X)
		}
		return v.Op != token.ARROW
	case *ast.StarExpr:
		return false // a copy of what a pointer refers to: its fields may alias shared storage
	case *ast.SliceExpr:
		return c.fresh(v.X)
	case *ast.TypeAssertExpr:
		return c.fresh(v.X)
	case *ast.SelectorExpr:
		if k := c.pathKey(v); k != "" {
			return c.pathFresh(v, k, v.Pos())
		}
		// pkg.Const / pkg.Var
		return false
	case *ast.IndexExpr:
		return c.elemFresh(v.X) // an element read out of a container of this call that only ever received fresh values
	case *ast.CallExpr:
		return c.callFresh(v)
	case *ast.KeyValueExpr:
		return c.fresh(v.Value)
	}
	return false
}

func (c *c19Ctx) callFresh(call *ast.CallExpr) bool {
	cands, qual, kind := c.calleesOf(call)
	switch kind {
	case "conv":
		if len(call.Args) == 1 {
			return c.fresh(call.Args[0])
		}
		return true
	case "builtin":
		switch qual {
		case "make", "new", "len", "cap", "min", "max", "real", "imag", "complex", "recover":
			return true
		case "append":
			if len(call.Args) == 0 {
				return true
			}
			return c.fresh(call.Args[0])
		}
		return true
	case "std":
		if c19AliasStdFuncs[qual] && len(call.Args) > 0 {
			return c.fresh(call.Args[0])
		}
		if v, ok := c19FreshStdFuncs[qual]; ok {
			return v
		}
		if i := strings.IndexByte(qual, '.'); i > 0 && c19FreshStdPkgs[qual[:i]] {
			return true
		}
		return false
	case "func", "method":
		for _, f := range cands {
			if !f.retFresh {
				return false
			}
		}
		return true
	}
	return false
}

// pathFresh: freshness of the value held at a selector path rooted at a local variable.
// use = position of the use: one of the (all fresh) explicit assignments must dominate it, else the initial value counts.
func (c *c19Ctx) pathFresh(e *ast.SelectorExpr, key string, use token.Pos) bool {
	if c.inProgress[key] {
		return true // coinductive: x.f = append(x.f, …)
	}
	c.inProgress[key] = true
	defer delete(c.inProgress, key)
	as := c.pathAssigns[key]
	if len(as) > 0 {
		dominated := false
		for _, a := range as {
			if a.expr == nil || !c.fresh(a.expr) {
				return false
			}
			if a.pos <= use && a.blockPos <= use && use <= a.blockEnd {
				dominated = true
			}
		}
		if dominated {
			return true
		}
	}
	// initial state: the field as the root's bindings created it
	return c.initialFieldFresh(e)
}

// initialFieldFresh: e = X.f; is the value of field f fresh in every binding of X (composite literal
// element, or absent = zero), recursively for nested paths of zero/literal-initialised structs?
func (c *c19Ctx) initialFieldFresh(e *ast.SelectorExpr) bool {
	x := e.X
	for {
		if p, ok := x.(*ast.ParenExpr); ok {
			x = p.X
			continue
		}
		if s, ok := x.(*ast.StarExpr); ok {
			x = s.X
			continue
		}
		break
	}
	switch xv := x.(type) {
	case *ast.Ident:
		v := c.varOf(xv)
		if v == nil || (v.kind != c19Local && v.kind != c19Result) || len(v.bindings) == 0 {
			return false
		}
		for _, b := range v.bindings {
			if b.opaque {
				return false
			}
			if b.zero {
				continue
			}
			if !c.literalFieldFresh(b.expr, e.Sel.Name) {
				return false
			}
		}
		return true
	case *ast.SelectorExpr:
		// nested: X itself must be a (zero or literal) struct stored inline in a fresh parent, never assigned
		k := c.pathKey(xv)
		if k == "" || len(c.pathAssigns[k]) > 0 {
			return false
		}
		return c.initialFieldFresh(xv) && c.zeroInitialised(xv)
	}
	return false
}

// zeroInitialised: path e was left at its zero value by every binding of its root (so its own fields are zero).
func (c *c19Ctx) zeroInitialised(e *ast.SelectorExpr) bool {
	id, _ := c19RootIdent(e)
	if id == nil {
		return false
	}
	v := c.varOf(id)
	if v == nil {
		return false
	}
	// only depth-1 paths are checked against literals; deeper paths must come from zero/elided roots
	x, ok := e.X.(*ast.Ident)
	if !ok || x.Obj != id.Obj {
		return c.zeroInitialised(e.X.(*ast.SelectorExpr))
	}
	for _, b := range v.bindings {
		if b.zero {
			continue
		}
		if b.opaque || !c.literalOmits(b.expr, e.Sel.Name) {
			return false
		}
	}
	return true
}

func c19Literal(e ast.Expr) *ast.CompositeLit {
	for {
		switch v := e.(type) {
		case *ast.ParenExpr:
			e = v.X
		case *ast.UnaryExpr:
			if v.Op != token.AND {
				return nil
			}
			e = v.X
		case *ast.CompositeLit:
			return v
		default:
			return nil
		}
	}
}

func (c *c19Ctx) literalFieldFresh(e ast.Expr, field string) bool {
	if call, ok := e.(*ast.CallExpr); ok {
		if _, q, k := c.p.callees(c.fn, call); k == "builtin" && q == "new" {
			return true
		}
	}
	lit := c19Literal(e)
	if lit == nil {
		return false
	}
	for _, el := range lit.Elts {
		kv, ok := el.(*ast.KeyValueExpr)
		if !ok {
			return false // positional literal: cannot tell which element is the field
		}
		if id, ok := kv.Key.(*ast.Ident); ok && id.Name == field {
			return c.fresh(kv.Value)
		}
	}
	return true // field omitted: zero
}

func (c *c19Ctx) literalOmits(e ast.Expr, field string) bool {
	if call, ok := e.(*ast.CallExpr); ok {
		if _, q, k := c.p.callees(c.fn, call); k == "builtin" && q == "new" {
			return true
		}
	}
	lit := c19Literal(e)
	if lit == nil {
		return false
	}
	for _, el := range lit.Elts {
		kv, ok := el.(*ast.KeyValueExpr)
		if !ok {
			return false
		}
		if id, ok := kv.Key.(*ast.Ident); ok && id.Name == field {
			return false
		}
	}
	return true
}

// typeKind resolves a declared type expression syntactically: "struct", "pointer", "map", "slice", "array",
// "interface", "func", "basic", "" (unknown).
func (c *c19Ctx) typeKind(t ast.Expr, pkg string, depth int) string {
	if depth > 8 {
		return ""
	}
	switch v := t.(type) {
	case *ast.StructType:
		return "struct"
	case *ast.StarExpr:
		return "pointer"
	case *ast.MapType:
		return "map"
	case *ast.ArrayType:
		if v.Len == nil {
			return "slice"
		}
		return "array"
	case *ast.InterfaceType:
		return "interface"
	case *ast.FuncType:
		return "func"
	case *ast.ChanType:
		return "chan"
	case *ast.Ellipsis:
		return "slice"
	case *ast.ParenExpr:
		return c.typeKind(v.X, pkg, depth+1)
	case *ast.IndexExpr:
		return c.typeKind(v.X, pkg, depth+1)
	case *ast.IndexListExpr:
		return c.typeKind(v.X, pkg, depth+1)
	case *ast.Ident:
		if te, ok := c.p.types[pkg+":"+v.Name]; ok {
			return c.typeKind(te, pkg, depth+1)
		}
		switch v.Name {
		case "string", "int", "int8", "int16", "int32", "int64", "uint", "uint8", "uint16", "uint32", "uint64", "uintptr", "byte", "rune", "float32", "float64", "bool":
			return "basic"
		case "error", "any":
			return "interface"
		}
	case *ast.SelectorExpr:
		if id, ok := v.X.(*ast.Ident); ok {
			if dir, ok := c.fn.imports[id.Name]; ok && dir != "" {
				if te, ok := c.p.types[dir+":"+v.Sel.Name]; ok {
					return c.typeKind(te, dir, depth+1)
				}
			}
		}
	}
	return ""
}

// valueStorage: x is a variable of this call that holds a struct (or array) BY VALUE, so that assigning
// to x.f changes only the variable itself.
func (c *c19Ctx) valueStorage(id *ast.Ident) bool {
	v := c.varOf(id)
	if v == nil {
		return false
	}
	if v.typ != nil {
		k := c.typeKind(v.typ, c.fn.pkg, 0)
		if k == "struct" || k == "array" {
			return true
		}
		if k != "" {
			return false
		}
	}
	if v.kind != c19Local && v.kind != c19Result {
		return false
	}
	if len(v.bindings) == 0 {
		return false
	}
	for _, b := range v.bindings {
		switch {
		case b.opaque:
			return false
		case b.zero:
			if b.typ == nil {
				return false
			}
			if k := c.typeKind(b.typ, c.fn.pkg, 0); k != "struct" && k != "array" {
				return false
			}
		default:
			x := b.expr
			for {
				if p, ok := x.(*ast.ParenExpr); ok {
					x = p.X
					continue
				}
				break
			}
			switch bv := x.(type) {
			case *ast.StarExpr:
				// copy of a pointee: a struct value unless the pointee is itself a reference
			case *ast.CompositeLit:
				if k := c.typeKind(bv.Type, c.fn.pkg, 0); k != "struct" && k != "array" {
					return false
				}
			default:
				return false
			}
		}
	}
	return true
}

// elemKind: kind of the element type of a slice/array variable, from its declared type or its bindings.
func (c *c19Ctx) elemKind(v *c19Var) string {
	var ts []ast.Expr
	if v.typ != nil {
		ts = append(ts, v.typ)
	}
	for _, b := range v.bindings {
		if b.typ != nil {
			ts = append(ts, b.typ)
		}
		switch e := b.expr.(type) {
		case *ast.CompositeLit:
			if e.Type != nil {
				ts = append(ts, e.Type)
			}
		case *ast.CallExpr:
			if id, ok := e.Fun.(*ast.Ident); ok && id.Name == "make" && id.Obj == nil && len(e.Args) > 0 {
				ts = append(ts, e.Args[0])
			}
		}
	}
	for _, t := range ts {
		if at, ok := t.(*ast.ArrayType); ok {
			if k := c.typeKind(at.Elt, c.fn.pkg, 0); k != "" {
				return k
			}
		}
	}
	return ""
}

// storageLocal: is the storage DENOTED by e (the thing an assignment to e overwrites) owned by this call?
func (c *c19Ctx) storageLocal(e ast.Expr) bool {
	switch v := e.(type) {
	case *ast.ParenExpr:
		return c.storageLocal(v.X)
	case *ast.Ident:
		if v.Name == "_" {
			return true
		}
		return c.varOf(v) != nil // the variable itself (parameters included: they are copies)
	case *ast.SelectorExpr:
		return c.containerLocal(v.X, v.Pos(), true)
	case *ast.IndexExpr:
		return c.containerLocal(v.X, v.Pos(), false)
	case *ast.StarExpr:
		return c.containerLocal(v.X, v.Pos(), false)
	case *ast.SliceExpr:
		return c.containerLocal(v.X, v.Pos(), false)
	}
	return false
}

// containerLocal: may we write one step into x? selector=true for x.f (fields of a by-value struct are
// part of the variable), false for x[i] / *x.
func (c *c19Ctx) containerLocal(x ast.Expr, use token.Pos, selector bool) bool {
	for {
		if p, ok := x.(*ast.ParenExpr); ok {
			x = p.X
			continue
		}
		break
	}
	switch v := x.(type) {
	case *ast.Ident:
		vv := c.varOf(v)
		if vv == nil {
			return false
		}
		if vv.fresh {
			return true
		}
		if selector && c.valueStorage(v) {
			return true
		}
		if !selector && vv.typ != nil && c.typeKind(vv.typ, c.fn.pkg, 0) == "array" {
			return true
		}
		return false
	case *ast.SelectorExpr:
		if k := c.pathKey(v); k != "" {
			if c.pathFresh(v, k, use) {
				return true
			}
			// a struct stored inline in local storage: x.a.f with x.a a by-value struct field of a local value
			return false
		}
		return false
	case *ast.StarExpr:
		if selector {
			return c.containerLocal(v.X, use, true)
		}
		return false
	case *ast.IndexExpr:
		if c.fresh(v) {
			return true // a (pointer) element that was itself allocated by this call
		}
		if selector {
			// x[i].f with x a slice/array of this call holding structs BY VALUE: the field lives in x's backing array
			if id, ok := v.X.(*ast.Ident); ok {
				if vv := c.varOf(id); vv != nil && vv.fresh && c.elemKind(vv) == "struct" {
					return true
				}
			}
		}
		return false
	case *ast.CallExpr:
		return c.callFresh(v)
	case *ast.CompositeLit:
		return true
	case *ast.UnaryExpr:
		if v.Op == token.AND {
			return c.storageLocal(v.X)
		}
	case *ast.TypeAssertExpr:
		return c.containerLocal(v.X, use, selector)
	case *ast.SliceExpr:
		return c.containerLocal(v.X, use, false)
	}
	return false
}

// argLocal: an argument handed to a callee that writes through the corresponding parameter is harmless
// when it is fresh or a pointer to / a place inside storage of this call.
func (c *c19Ctx) argLocal(a ast.Expr, isReceiver bool) bool {
	if c.fresh(a) {
		return true
	}
	if isReceiver {
		// x.M() with pointer receiver takes &x implicitly
		switch v := a.(type) {
		case *ast.Ident:
			if vv := c.varOf(v); vv != nil && (vv.kind == c19Local || vv.kind == c19Result) && c.valueStorage(v) {
				return true
			}
		case *ast.SelectorExpr:
			// a field stored inline in local storage (j.Principal with `var j policyJSON`)
			if id, ok := v.X.(*ast.Ident); ok {
				if vv := c.varOf(id); vv != nil && (vv.kind == c19Local || vv.kind == c19Result) && c.valueStorage(id) && len(c.pathAssigns[c.pathKey(v)]) == 0 {
					return c.initialFieldFresh(v)
				}
			}
		}
	}
	return false
}

// rootOf describes where a non-local target comes from, and the parameters it derives from.
func (c *c19Ctx) rootOf(e ast.Expr, seen map[*ast.Object]bool) (desc string, params []int) {
	id, call := c19RootIdent(e)
	if call != nil {
		_, q, _ := c.p.callees(c.fn, call)
		// a call result: derive from the receiver / arguments
		var ps []int
		if sel, ok := c19UnwrapFun(call.Fun).(*ast.SelectorExpr); ok {
			_, p2 := c.rootOf(sel.X, seen)
			ps = append(ps, p2...)
		}
		for _, a := range call.Args {
			_, p2 := c.rootOf(a, seen)
			ps = append(ps, p2...)
		}
		return "call:" + q, ps
	}
	if id == nil {
		return "expr", nil
	}
	v := c.varOf(id)
	if v == nil {
		if c.isPkgVar(id) {
			return "pkgvar:" + id.Name, nil
		}
		return "global:" + id.Name, nil
	}
	switch v.kind {
	case c19Param:
		return "param:" + id.Name, []int{v.index}
	case c19Recv:
		return "recv:" + id.Name, []int{-1}
	case c19ClosureParam:
		return "closure-param:" + id.Name, nil
	}
	if seen[v.obj] {
		return "derived:" + id.Name, nil
	}
	seen[v.obj] = true
	var ps []int
	var from []string
	for _, b := range v.bindings {
		if b.opaque || b.zero || b.expr == nil || c.fresh(b.expr) {
			if b.opaque {
				from = append(from, "range/recv")
			}
			continue
		}
		d, p2 := c.rootOf(b.expr, seen)
		from = append(from, d)
		ps = append(ps, p2...)
	}
	sort.Strings(from)
	from = c19Uniq(from)
	return "derived:" + id.Name + "<-" + strings.Join(from, "|"), ps
}

func c19Uniq(xs []string) []string {
	out := xs[:0]
	for i, x := range xs {
		if i == 0 || x != xs[i-1] {
			out = append(out, x)
		}
	}
	return out
}

// rangeDerivedParams: a range variable derives from the ranged expression; used so that writes through
// range variables reach the summary.  (bindings are opaque; we re-scan the function for the RangeStmt.)
func (c *c19Ctx) rangeSources() map[*ast.Object]ast.Expr {
	m := map[*ast.Object]ast.Expr{}
	ast.Inspect(c.fn.decl.Body, func(n ast.Node) bool {
		if rs, ok := n.(*ast.RangeStmt); ok {
			for _, e := range []ast.Expr{rs.Key, rs.Value} {
				if id, ok := e.(*ast.Ident); ok && id.Obj != nil {
					m[id.Obj] = rs.X
				}
			}
		}
		return true
	})
	return m
}

type c19Write struct {
	target ast.Expr
	kind   string
	pos    token.Pos
}

// analyse one function: returns its direct non-local writes (as sites) and updates its summary.
// emit=false: only summaries are updated.
func (c *c19Ctx) analyse(emit bool) (sites []writeSite, changed bool) {
	fn := c.fn
	rangeSrc := c.rangeSources()
	addSummary := func(ps []int) {
		for _, i := range ps {
			if !fn.writes[i] {
				fn.writes[i] = true
				changed = true
			}
		}
	}
	paramsOf := func(e ast.Expr) (string, []int) {
		d, ps := c.rootOf(e, map[*ast.Object]bool{})
		// range variables: follow to the ranged expression
		if id, _ := c19RootIdent(e); id != nil && id.Obj != nil {
			if src, ok := rangeSrc[id.Obj]; ok {
				d2, p2 := c.rootOf(src, map[*ast.Object]bool{})
				d += "<-range " + d2
				ps = append(ps, p2...)
			}
		}
		return d, ps
	}
	isSinkParam := func(e ast.Expr) bool {
		id, ok := e.(*ast.Ident)
		if !ok {
			return false
		}
		v := c.varOf(id)
		return v != nil && (v.kind == c19Param || v.kind == c19Recv) && v.typ != nil && c19SinkTypes[exprString(v.typ)]
	}
	site := func(target ast.Expr, kind string, pos token.Pos) {
		d, ps := paramsOf(target)
		addSummary(ps)
		if emit {
			sites = append(sites, writeSite{File: fn.file, Func: fn.name, Target: exprString(target), Kind: kind, Root: d, Line: fset.Position(pos).Line})
		}
	}
	write := func(target ast.Expr, kind string, pos token.Pos) {
		if target == nil {
			return
		}
		if id, ok := target.(*ast.Ident); ok {
			if id.Name == "_" || c.varOf(id) != nil {
				return
			}
			if id.Obj != nil && id.Obj.Kind != ast.Var {
				return
			}
			site(target, kind, pos)
			return
		}
		if c.storageLocal(target) {
			return
		}
		site(target, kind, pos)
	}
	// container writes: the thing written INTO is arg itself (append/copy/delete/sort…)
	into := func(arg ast.Expr, kind string, pos token.Pos) {
		for {
			if p, ok := arg.(*ast.ParenExpr); ok {
				arg = p.X
				continue
			}
			break
		}
		if u, ok := arg.(*ast.UnaryExpr); ok && u.Op == token.AND {
			write(u.X, kind, pos)
			return
		}
		if c.fresh(arg) {
			return
		}
		if isSinkParam(arg) {
			_, ps := paramsOf(arg)
			addSummary(ps)
			c19SinkWrites++
			return
		}
		site(arg, kind, pos)
	}

	ast.Inspect(fn.decl.Body, func(n ast.Node) bool {
		switch s := n.(type) {
		case *ast.AssignStmt:
			for _, l := range s.Lhs {
				k := "assign"
				if s.Tok != token.ASSIGN && s.Tok != token.DEFINE {
					k = "assign" + s.Tok.String()
				}
				if _, ok := l.(*ast.IndexExpr); ok {
					k = "index-" + k
				}
				write(l, k, s.Pos())
			}
		case *ast.IncDecStmt:
			write(s.X, s.Tok.String(), s.Pos())
		case *ast.SendStmt:
			if !c.fresh(s.Chan) {
				site(s.Chan, "chan-send", s.Pos())
			}
		case *ast.GoStmt:
			// the theorem treats one API call as ONE sequential step list: a goroutine started on a read path is outside it
			if emit {
				sites = append(sites, writeSite{File: fn.file, Func: fn.name, Target: exprString(s.Call.Fun), Kind: "go-statement", Root: "goroutine", Line: fset.Position(s.Pos()).Line})
			}
		case *ast.RangeStmt:
			if s.Tok == token.ASSIGN {
				write(s.Key, "range-assign", s.Pos())
				write(s.Value, "range-assign", s.Pos())
			}
		case *ast.CallExpr:
			cands, qual, kind := c.calleesOf(s)
			switch kind {
			case "builtin":
				switch qual {
				case "append":
					if len(s.Args) > 0 {
						into(s.Args[0], "append", s.Pos())
					}
				case "copy", "delete", "clear":
					if len(s.Args) > 0 {
						into(s.Args[0], qual, s.Pos())
					}
				}
			case "std":
				if i, ok := c19StdMutators[qual]; ok && i < len(s.Args) {
					into(s.Args[i], "call:"+qual, s.Pos())
				}
			case "extmethod":
				if c19MutatorMethods[qual] {
					recv := c19UnwrapFun(s.Fun).(*ast.SelectorExpr).X
					if !c.argLocal(recv, true) {
						if isSinkParam(recv) {
							_, ps := paramsOf(recv)
							addSummary(ps)
							c19SinkWrites++
						} else {
							site(recv, "mutcall:"+qual, s.Pos())
						}
					}
				}
			case "func", "method":
				// union of the candidates' summaries
				idx := map[int]bool{}
				for _, f := range cands {
					for i := range f.writes {
						idx[i] = true
					}
				}
				var is []int
				for i := range idx {
					is = append(is, i)
				}
				sort.Ints(is)
				for _, i := range is {
					var args []ast.Expr
					if i == -1 {
						if sel, ok := c19UnwrapFun(s.Fun).(*ast.SelectorExpr); ok && kind == "method" {
							args = []ast.Expr{sel.X}
						}
					} else if i < len(s.Args) {
						args = []ast.Expr{s.Args[i]}
						// variadic tail
						for _, f := range cands {
							if f.variadic && i == len(f.params)-1 {
								args = s.Args[i:]
							}
						}
					}
					for _, a := range args {
						if c.argLocal(a, i == -1) {
							continue
						}
						d, ps := paramsOf(a)
						if len(ps) > 0 && !strings.HasPrefix(d, "derived") {
							addSummary(ps) // our own parameter handed on: the caller's caller decides (roots: `root-writes-param` below)
							continue
						}
						addSummary(ps)
						if emit {
							sites = append(sites, writeSite{File: fn.file, Func: fn.name, Target: exprString(a), Kind: fmt.Sprintf("call-arg:%s#%d", qual, i), Root: d, Line: fset.Position(s.Pos()).Line})
						}
					}
				}
			}
		}
		return true
	})

	// function values: a mention (not in call position) of a function that writes through a parameter
	if emit {
		callFuns := map[ast.Expr]bool{}
		ast.Inspect(fn.decl.Body, func(n ast.Node) bool {
			if ce, ok := n.(*ast.CallExpr); ok {
				callFuns[c19UnwrapFun(ce.Fun)] = true
				if sel, ok := c19UnwrapFun(ce.Fun).(*ast.SelectorExpr); ok {
					callFuns[sel.Sel] = true
				}
			}
			return true
		})
		ast.Inspect(fn.decl.Body, func(n ast.Node) bool {
			switch v := n.(type) {
			case *ast.SelectorExpr:
				if callFuns[v] {
					return true
				}
				if id, ok := v.X.(*ast.Ident); ok && id.Obj == nil {
					if dir, ok := fn.imports[id.Name]; ok && dir != "" {
						for _, f := range c.p.byPkgName[dir+":"+v.Sel.Name] {
							if len(f.writes) > 0 {
								sites = append(sites, writeSite{File: fn.file, Func: fn.name, Target: exprString(v), Kind: "funcvalue-writes-param", Root: "func:" + f.name, Line: fset.Position(v.Pos()).Line})
							}
						}
					}
				}
				return false
			case *ast.Ident:
				if callFuns[v] || v.Obj == nil || v.Obj.Kind != ast.Fun {
					return true
				}
				for _, f := range c.p.byPkgName[fn.pkg+":"+v.Name] {
					if len(f.writes) > 0 {
						sites = append(sites, writeSite{File: fn.file, Func: fn.name, Target: v.Name, Kind: "funcvalue-writes-param", Root: "func:" + f.name, Line: fset.Position(v.Pos()).Line})
					}
				}
			}
			return true
		})
	}
	return sites, changed
}

var c19SinkWrites int

func (p *c19Prog) newCtx(fn *c19Fn) *c19Ctx {
	c := &c19Ctx{p: p, fn: fn, vars: map[*ast.Object]*c19Var{}, pathAssigns: map[string][]c19PathAssign{}, inProgress: map[string]bool{},
		elemStores: map[*ast.Object][]ast.Expr{}, elemOpaque: map[*ast.Object]bool{}}
	c.collect()
	return c
}

// returnsFresh: every result of every return statement is fresh (closures' returns excluded).
func (c *c19Ctx) returnsFresh() bool {
	ok := true
	var visit func(n ast.Node) bool
	visit = func(n ast.Node) bool {
		switch s := n.(type) {
		case *ast.FuncLit:
			return false
		case *ast.ReturnStmt:
			if len(s.Results) == 0 {
				// named results
				if c.fn.decl.Type.Results != nil {
					for _, f := range c.fn.decl.Type.Results.List {
						for _, nm := range f.Names {
							if v := c.vars[nm.Obj]; v != nil && !v.fresh {
								ok = false
							}
						}
					}
				}
			}
			for _, r := range s.Results {
				if !c.fresh(r) {
					ok = false
				}
			}
		}
		return ok
	}
	ast.Inspect(c.fn.decl.Body, visit)
	return ok
}

// refs: every declared function/method name mentioned in the body (calls, method values, function values).
func (p *c19Prog) collectRefs(fn *c19Fn) {
	seen := map[c19Ref]bool{}
	add := func(r c19Ref) {
		if !seen[r] {
			seen[r] = true
			fn.refs = append(fn.refs, r)
		}
	}
	usesJSON, usesFmt := false, false
	ast.Inspect(fn.decl.Body, func(n ast.Node) bool {
		switch v := n.(type) {
		case *ast.SelectorExpr:
			if id, ok := v.X.(*ast.Ident); ok && id.Obj == nil {
				if dir, ok := fn.imports[id.Name]; ok {
					if dir != "" {
						add(c19Ref{pkg: dir, name: v.Sel.Name})
						if !p.dirs[dir] {
							fn.foreign = append(fn.foreign, dir+"."+v.Sel.Name)
						}
					} else if id.Name == "unsafe" || id.Name == "reflect" {
						fn.foreign = append(fn.foreign, id.Name+"."+v.Sel.Name)
					} else if id.Name == "json" {
						usesJSON = true
					} else if id.Name == "fmt" || id.Name == "errors" {
						usesFmt = true
					}
					return false
				}
			}
			add(c19Ref{name: v.Sel.Name, method: true})
		case *ast.Ident:
			if v.Obj == nil || v.Obj.Kind == ast.Fun {
				add(c19Ref{pkg: fn.pkg, name: v.Name})
			}
		}
		return true
	})
	if usesJSON { // encoding/json calls these through reflection
		for _, m := range []string{"MarshalJSON", "MarshalText"} {
			add(c19Ref{name: m, method: true})
		}
	}
	if usesFmt { // fmt verbs call these
		for _, m := range []string{"String", "Error", "Format", "GoString"} {
			add(c19Ref{name: m, method: true})
		}
	}
}

func c19Facts() {
	p := c19Load()
	if len(p.fns) == 0 {
		return
	}
	ctxs := map[*c19Fn]*c19Ctx{}
	// (1) returns-fresh: greatest fixpoint (variable freshness depends on callee freshness, so contexts are rebuilt)
	for iter := 0; iter < 12; iter++ {
		changed := false
		for _, fn := range p.fns {
			c := p.newCtx(fn)
			ctxs[fn] = c
			if fn.retFresh && !c.returnsFresh() {
				fn.retFresh = false
				changed = true
			}
		}
		if !changed {
			break
		}
	}
	// (2) reachability
	for _, fn := range p.fns {
		p.collectRefs(fn)
		fn.root = c19IsRoot(fn)
	}
	var queue []*c19Fn
	for _, fn := range p.fns {
		if fn.root {
			fn.reachable = true
			queue = append(queue, fn)
		}
	}
	for len(queue) > 0 {
		fn := queue[0]
		queue = queue[1:]
		for _, r := range fn.refs {
			var cs []*c19Fn
			if r.method {
				cs = p.methods[r.name]
			} else {
				cs = p.byPkgName[r.pkg+":"+r.name]
			}
			for _, g := range cs {
				if !g.reachable {
					g.reachable = true
					queue = append(queue, g)
				}
			}
		}
	}
	// (3) write summaries: least fixpoint over ALL functions
	for iter := 0; iter < 20; iter++ {
		changed := false
		for _, fn := range p.fns {
			if _, ch := ctxs[fn].analyse(false); ch {
				changed = true
			}
		}
		if !changed {
			break
		}
	}
	// (4) sites of reachable functions
	c19SinkWrites = 0
	nReach, nRoots := 0, 0
	var roots []string
	for _, fn := range p.fns {
		if !fn.reachable {
			continue
		}
		nReach++
		if fn.root {
			nRoots++
			roots = append(roots, fn.pkg+":"+fn.name)
		}
		sites, _ := ctxs[fn].analyse(true)
		c19Sites = append(c19Sites, sites...)
		for _, fr := range fn.foreign {
			// code the extractor does not see (a module package outside the analysed set) or cannot follow (unsafe, reflect)
			c19Sites = append(c19Sites, writeSite{File: fn.file, Func: fn.name, Target: fr, Kind: "unanalysed-callee", Root: "outside the analysed packages", Line: fset.Position(fn.decl.Pos()).Line})
		}
		if fn.root {
			var is []int
			for i := range fn.writes {
				is = append(is, i)
			}
			sort.Ints(is)
			for _, i := range is {
				name := "receiver"
				if i >= 0 && i < len(fn.params) && fn.params[i] != nil {
					name = fn.params[i].Name
					if v := ctxs[fn].vars[fn.params[i]]; v != nil && v.typ != nil && c19SinkTypes[exprString(v.typ)] {
						continue // an output sink handed in by the caller of the API is the caller's to be written
					}
				} else if fn.recvObj != nil && i == -1 {
					name = fn.recvObj.Name
				}
				c19Sites = append(c19Sites, writeSite{File: fn.file, Func: fn.name, Target: name, Kind: "root-writes-param", Root: fmt.Sprintf("param#%d", i), Line: fset.Position(fn.decl.Pos()).Line})
			}
		}
	}
	// dedupe by (file, func, target, kind), keep first line
	sort.SliceStable(c19Sites, func(i, j int) bool {
		a, b := c19Sites[i], c19Sites[j]
		if a.File != b.File {
			return a.File < b.File
		}
		if a.Func != b.Func {
			return a.Func < b.Func
		}
		if a.Target != b.Target {
			return a.Target < b.Target
		}
		if a.Kind != b.Kind {
			return a.Kind < b.Kind
		}
		return a.Line < b.Line
	})
	out := c19Sites[:0]
	for i, s := range c19Sites {
		if i > 0 {
			q := c19Sites[i-1]
			if q.File == s.File && q.Func == s.Func && q.Target == s.Target && q.Kind == s.Kind {
				continue
			}
		}
		out = append(out, s)
	}
	c19Sites = out
	if c19Sites == nil {
		c19Sites = []writeSite{}
	}
	sort.Strings(roots)
	var summaries []string
	for _, fn := range p.fns {
		if fn.reachable && len(fn.writes) > 0 {
			var is []int
			for i := range fn.writes {
				is = append(is, i)
			}
			sort.Ints(is)
			summaries = append(summaries, fmt.Sprintf("%s:%s writes through %v", fn.pkg, fn.name, is))
		}
	}
	sort.Strings(summaries)
	c19Info = map[string]any{"functions": len(p.fns), "reachable": nReach, "roots": nRoots, "rootList": roots, "sinkWrites": c19SinkWrites, "paramWriters": summaries}
	extraJSON["writeSites"] = c19Sites
	extraJSON["writeSetInfo"] = c19Info
}
