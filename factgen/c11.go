package main

// C11 alias-discipline extractor (last clause of C11: "values are immutable").
//
// For every constructor, accessor, iterator and decoder of the immutable value types (types.Record,
// types.Set, mapset.ImmutableMapSet = types.EntityUIDSet, plus the mutable helpers they are built on:
// mapset.MapSet, types.Entity, types.EntityMap) it records, from the syntax of the function alone,
//
//   <fn>.param.<p>  what happens to a parameter of map / slice / variadic type:
//                     aliased | cloned | cloned-unless-nil | cloned-if(<cond>) | elements-read | passed-to:<callee>
//   <fn>.result     where each returned reference comes from:
//                     clone | fresh | nil | zero | element | field-alias | param(<p>) | struct{<field>=…} |
//                     iterator-readonly | iterator-writes | iterator-yields-field | call:<callee>
//   <fn>.recv       what the function does THROUGH its receiver:
//                     readonly | replaced(<class>) | writes-field(<f>) | sets-field(<f>=<class>) | calls-writer(<m>)
//   <type>.type     the declaration of the type (field names and types)
//
// The list is emitted as `aliasFactsAll` in .facts.json (compared by ./check with the hand classification
// facts/alias.expected.json: a new or changed entry breaks the tie of C11) and, for the functions the Lean
// model CedarGo/Model/Alias.lean has an operation for, as `CedarGo.Facts.aliasFacts`, which theorem
// `C11_facts_alias_discipline` equates with the model's discipline; every function that writes through a
// receiver is listed in `CedarGo.Facts.aliasWriters` (theorem `C11_facts_alias_writers`).
// The analysis is go/ast only, flow-insensitive (a clone anywhere before the end counts, its enclosing `if`
// conditions are reported) and name-based; it is an approximation in the trusted base.

import (
	"fmt"
	"go/ast"
	"go/token"
	"sort"
	"strings"
)

var c11Dirs = []string{"types", "internal/mapset"} // every non-test file: a method added in a new file is seen too
var c11Types = map[string]bool{"Record": true, "Set": true, "Entity": true, "EntityMap": true, "MapSet": true, "ImmutableMapSet": true,
	"RecordMap": true, "EntityUIDSet": true}
var c11Funcs = map[string]bool{"NewRecord": true, "NewSet": true, "NewEntityUIDSet": true, "Immutable": true, "FromItems": true, "Make": true}

// keys that have an operation in the Lean model (Alias.modelDiscipline lists the same keys)
var c11Modelled = []string{
	"mapset.(*ImmutableMapSet).UnmarshalJSON.recv", "mapset.(*MapSet).UnmarshalJSON.recv",
	"mapset.FromItems.param.items", "mapset.FromItems.result", "mapset.Immutable.param.args", "mapset.Immutable.result",
	"mapset.ImmutableMapSet.All.result", "mapset.ImmutableMapSet.Slice.result", "mapset.MapSet.All.result", "mapset.MapSet.Slice.result",
	"types.(*Record).UnmarshalJSON.recv", "types.(*Set).UnmarshalJSON.recv",
	"types.Entity.type", "types.EntityUIDSet.type",
	"types.NewEntityUIDSet.param.args", "types.NewEntityUIDSet.result",
	"types.NewRecord.param.m", "types.NewRecord.result", "types.NewSet.param.v", "types.NewSet.result",
	"types.Record.All.result", "types.Record.Get.result", "types.Record.Keys.result", "types.Record.Map.result", "types.Record.Values.result",
	"types.Record.type", "types.Set.All.result", "types.Set.Slice.result", "types.Set.type",
}

type c11Fn struct {
	pkg, name, recvType, recvName, key string
	ptr                              bool
	decl                             *ast.FuncDecl
	locals                           map[string][]string // variable -> classes of the values assigned to it
	params                           map[string]bool     // reference-typed parameters
	result, recv                     string
	busy, done                       bool
}

var c11Fns = map[string]*c11Fn{}           // "Type.Method" / "Func"
var c11RefFields = map[string]map[string]bool{} // struct type -> fields of map/slice type
var c11Out = map[string]string{}

func c11Base(t ast.Expr) (string, bool) { // base type name of a receiver / conversion / literal type
	ptr := false
	for {
		switch v := t.(type) {
		case *ast.StarExpr:
			ptr, t = true, v.X
		case *ast.ParenExpr:
			t = v.X
		case *ast.IndexExpr:
			t = v.X
		case *ast.IndexListExpr:
			t = v.X
		case *ast.SelectorExpr:
			return v.Sel.Name, ptr
		case *ast.Ident:
			return v.Name, ptr
		default:
			return "", ptr
		}
	}
}

func c11IsRefType(t ast.Expr) bool {
	switch v := t.(type) {
	case *ast.MapType, *ast.Ellipsis:
		return true
	case *ast.ArrayType:
		return v.Len == nil && exprString(v.Elt) != "byte"
	case *ast.Ident:
		return v.Name == "RecordMap"
	}
	return false
}

func c11TypeString(t ast.Expr) string {
	switch v := t.(type) {
	case *ast.MapType:
		return "map[" + c11TypeString(v.Key) + "]" + c11TypeString(v.Value)
	case *ast.ArrayType:
		return "[]" + c11TypeString(v.Elt)
	case *ast.StructType:
		var fs []string
		for _, f := range v.Fields.List {
			for _, n := range f.Names {
				fs = append(fs, n.Name+":"+c11TypeString(f.Type))
			}
		}
		return "struct{" + strings.Join(fs, ",") + "}"
	case *ast.IndexExpr:
		return c11TypeString(v.X) + "[" + c11TypeString(v.Index) + "]"
	}
	return exprString(t)
}

func c11Join(cs []string) string {
	set := map[string]bool{}
	for _, c := range cs {
		for _, p := range strings.Split(c, "|") {
			if p != "" {
				set[p] = true
			}
		}
	}
	out := make([]string, 0, len(set))
	for c := range set {
		out = append(out, c)
	}
	sort.Strings(out)
	return strings.Join(out, "|")
}

// c11Load parses the files and registers types and functions.
func c11Load() {
	var files []string
	for _, d := range c11Dirs {
		fs, _ := listGo(d)
		files = append(files, fs...)
	}
	for _, rel := range files {
		f := parseFile(rel)
		if f == nil {
			continue
		}
		pkg := f.Name.Name
		for _, d := range f.Decls {
			switch v := d.(type) {
			case *ast.GenDecl:
				for _, s := range v.Specs {
					ts, ok := s.(*ast.TypeSpec)
					if !ok || !c11Types[ts.Name.Name] {
						continue
					}
					kind := "defined "
					if ts.Assign.IsValid() {
						kind = "alias "
					}
					c11Out[pkg+"."+ts.Name.Name+".type"] = kind + c11TypeString(ts.Type)
					if st, ok := ts.Type.(*ast.StructType); ok {
						c11RefFields[ts.Name.Name] = map[string]bool{}
						for _, fl := range st.Fields.List {
							for _, n := range fl.Names {
								if c11IsRefType(fl.Type) {
									c11RefFields[ts.Name.Name][n.Name] = true
								}
							}
						}
					}
				}
			case *ast.FuncDecl:
				if v.Body == nil {
					continue
				}
				fn := &c11Fn{pkg: pkg, name: v.Name.Name, decl: v, locals: map[string][]string{}, params: map[string]bool{}}
				if v.Recv != nil && len(v.Recv.List) > 0 {
					fn.recvType, fn.ptr = c11Base(v.Recv.List[0].Type)
					if len(v.Recv.List[0].Names) > 0 {
						fn.recvName = v.Recv.List[0].Names[0].Name
					}
					if !c11Types[fn.recvType] {
						continue
					}
					fn.key = pkg + "." + fn.recvType + "." + fn.name
					if fn.ptr {
						fn.key = pkg + ".(*" + fn.recvType + ")." + fn.name
					}
					c11Fns[fn.recvType+"."+fn.name] = fn
				} else if c11Funcs[fn.name] {
					fn.key = pkg + "." + fn.name
					c11Fns[fn.name] = fn
				} else {
					continue
				}
				for _, p := range v.Type.Params.List {
					for _, n := range p.Names {
						if c11IsRefType(p.Type) {
							fn.params[n.Name] = true
						}
					}
				}
			}
		}
	}
	// ImmutableMapSet is `defined MapSet[T]`: it has MapSet's fields
	if c11RefFields["ImmutableMapSet"] == nil {
		c11RefFields["ImmutableMapSet"] = c11RefFields["MapSet"]
	}
}

// typeOf: the analysed type a receiver-like expression has, as far as syntax tells ("" = unknown)
func (fn *c11Fn) typeOf(e ast.Expr) string {
	switch v := e.(type) {
	case *ast.ParenExpr:
		return fn.typeOf(v.X)
	case *ast.StarExpr:
		return fn.typeOf(v.X)
	case *ast.Ident:
		if v.Name == fn.recvName && fn.recvName != "" {
			return fn.recvType
		}
	case *ast.CallExpr: // conversion T(x)
		if t, _ := c11Base(v.Fun); c11Types[t] && len(v.Args) == 1 {
			return t
		}
	}
	return ""
}

// rootedAtRecv: is e built from the receiver by conversions, parentheses, * and & only?
func (fn *c11Fn) rootedAtRecv(e ast.Expr) bool {
	switch v := e.(type) {
	case *ast.ParenExpr:
		return fn.rootedAtRecv(v.X)
	case *ast.StarExpr:
		return fn.rootedAtRecv(v.X)
	case *ast.UnaryExpr:
		return fn.rootedAtRecv(v.X)
	case *ast.Ident:
		if fn.recvName != "" && v.Name == fn.recvName {
			return true
		}
		for _, c := range fn.locals[v.Name] { // a local copy of the receiver struct shares its references
			if c == "recv" {
				return true
			}
		}
	case *ast.CallExpr:
		if t, _ := c11Base(v.Fun); c11Types[t] && len(v.Args) == 1 {
			return fn.rootedAtRecv(v.Args[0])
		}
	}
	return false
}

func c11CallName(e ast.Expr) string { // "pkg.F", "F", "x.M" with generic instantiation stripped
	switch v := e.(type) {
	case *ast.IndexExpr:
		return c11CallName(v.X)
	case *ast.IndexListExpr:
		return c11CallName(v.X)
	case *ast.ParenExpr:
		return c11CallName(v.X)
	case *ast.SelectorExpr:
		return exprString(v.X) + "." + v.Sel.Name
	case *ast.Ident:
		return v.Name
	}
	return exprString(e)
}

// expr classifies where the reference held by e comes from.
func (fn *c11Fn) expr(e ast.Expr, depth int) string {
	if depth > 12 {
		return "deep"
	}
	switch v := e.(type) {
	case *ast.ParenExpr:
		return fn.expr(v.X, depth+1)
	case *ast.StarExpr:
		return fn.expr(v.X, depth+1)
	case *ast.UnaryExpr:
		if v.Op == token.AND {
			return fn.expr(v.X, depth+1)
		}
		return "scalar"
	case *ast.BasicLit, *ast.BinaryExpr, *ast.TypeAssertExpr:
		return "scalar"
	case *ast.FuncLit:
		return fn.funcLit(v)
	case *ast.IndexExpr:
		return "element"
	case *ast.Ident:
		switch {
		case v.Name == "nil":
			return "nil"
		case v.Name == "true" || v.Name == "false":
			return "scalar"
		case fn.params[v.Name]:
			return "param(" + v.Name + ")"
		case v.Name == fn.recvName && fn.recvName != "":
			return "recv"
		}
		if cs, ok := fn.locals[v.Name]; ok {
			return c11Join(cs)
		}
		return "scalar"
	case *ast.SelectorExpr:
		if t := fn.typeOf(v.X); t != "" && c11RefFields[t][v.Sel.Name] {
			return "field-alias"
		}
		return "scalar"
	case *ast.CompositeLit:
		t, _ := c11Base(v.Type)
		if _, isMap := v.Type.(*ast.MapType); isMap || c11RefFields[t] == nil {
			return "fresh"
		}
		var fs []string
		for _, el := range v.Elts {
			if kv, ok := el.(*ast.KeyValueExpr); ok && c11RefFields[t][exprString(kv.Key)] {
				fs = append(fs, exprString(kv.Key)+"="+strings.ReplaceAll(fn.expr(kv.Value, depth+1), "|", "/"))
			}
		}
		return "struct{" + strings.Join(fs, ",") + "}"
	case *ast.CallExpr:
		name := c11CallName(v.Fun)
		switch name {
		case "maps.Clone", "slices.Clone":
			return "clone"
		case "make", "new":
			return "fresh"
		case "slices.Collect", "slices.Sorted":
			if len(v.Args) == 1 {
				if c, ok := v.Args[0].(*ast.CallExpr); ok {
					switch c11CallName(c.Fun) {
					case "maps.Values", "maps.Keys":
						return "clone"
					}
				}
			}
			return "call:" + name
		}
		if t, _ := c11Base(v.Fun); c11Types[t] && len(v.Args) == 1 { // conversion
			return fn.expr(v.Args[0], depth+1)
		}
		if callee := fn.callee(v); callee != nil {
			return callee.resultClass()
		}
		return "call:" + name
	}
	return "scalar"
}

// callee resolves a call to an analysed function or method.
func (fn *c11Fn) callee(call *ast.CallExpr) *c11Fn {
	f := call.Fun
	for {
		switch v := f.(type) {
		case *ast.IndexExpr:
			f = v.X
			continue
		case *ast.IndexListExpr:
			f = v.X
			continue
		case *ast.ParenExpr:
			f = v.X
			continue
		}
		break
	}
	switch v := f.(type) {
	case *ast.Ident:
		return c11Fns[v.Name]
	case *ast.SelectorExpr:
		if id, ok := v.X.(*ast.Ident); ok && (id.Name == "mapset" || id.Name == "types") {
			return c11Fns[v.Sel.Name]
		}
		if t := fn.typeOf(v.X); t != "" {
			return c11Fns[t+"."+v.Sel.Name]
		}
	}
	return nil
}

func (fn *c11Fn) funcLit(fl *ast.FuncLit) string {
	declared := map[string]bool{}
	ast.Inspect(fl, func(n ast.Node) bool {
		switch v := n.(type) {
		case *ast.AssignStmt:
			if v.Tok == token.DEFINE {
				for _, l := range v.Lhs {
					if id, ok := l.(*ast.Ident); ok {
						declared[id.Name] = true
					}
				}
			}
		case *ast.RangeStmt:
			for _, l := range []ast.Expr{v.Key, v.Value} {
				if id, ok := l.(*ast.Ident); ok && v.Tok == token.DEFINE {
					declared[id.Name] = true
				}
			}
		}
		return true
	})
	root := func(e ast.Expr) string {
		for {
			switch v := e.(type) {
			case *ast.SelectorExpr:
				e = v.X
			case *ast.IndexExpr:
				e = v.X
			case *ast.StarExpr:
				e = v.X
			case *ast.ParenExpr:
				e = v.X
			case *ast.Ident:
				return v.Name
			default:
				return "?"
			}
		}
	}
	class := "iterator-readonly"
	ast.Inspect(fl.Body, func(n ast.Node) bool {
		switch v := n.(type) {
		case *ast.AssignStmt:
			for _, l := range v.Lhs {
				if id, ok := l.(*ast.Ident); ok && (declared[id.Name] || id.Name == "_") {
					continue
				}
				if !declared[root(l)] {
					class = "iterator-writes"
				}
			}
		case *ast.IncDecStmt:
			if !declared[root(v.X)] {
				class = "iterator-writes"
			}
		case *ast.CallExpr:
			name := c11CallName(v.Fun)
			if (name == "delete" || name == "clear") && len(v.Args) > 0 && !declared[root(v.Args[0])] {
				class = "iterator-writes"
			}
			for _, a := range v.Args {
				if c := fn.expr(a, 1); (c == "field-alias" || strings.HasPrefix(c, "param(")) && class == "iterator-readonly" {
					class = "iterator-yields-field"
				}
			}
		}
		return true
	})
	return class
}

// collectLocals records, for every local variable, the classes of what is assigned to it (fixpoint: two rounds).
func (fn *c11Fn) collectLocals() {
	decoded := map[string]bool{}
	ast.Inspect(fn.decl.Body, func(n ast.Node) bool { // &x passed to json.Unmarshal
		if c, ok := n.(*ast.CallExpr); ok && c11CallName(c.Fun) == "json.Unmarshal" && len(c.Args) == 2 {
			if u, ok := c.Args[1].(*ast.UnaryExpr); ok && u.Op == token.AND {
				if id, ok := u.X.(*ast.Ident); ok {
					decoded[id.Name] = true
				}
			}
		}
		return true
	})
	for round := 0; round < 2; round++ {
		next := map[string][]string{}
		add := func(name, class string) {
			if name != "_" && !fn.params[name] && name != fn.recvName {
				next[name] = append(next[name], class)
			}
		}
		ast.Inspect(fn.decl.Body, func(n ast.Node) bool {
			switch v := n.(type) {
			case *ast.AssignStmt:
				if len(v.Lhs) == len(v.Rhs) {
					for i, l := range v.Lhs {
						if id, ok := l.(*ast.Ident); ok {
							add(id.Name, fn.expr(v.Rhs[i], 0))
						}
					}
				} else if len(v.Rhs) == 1 { // v, ok := m[k] / x.(T) / f()
					if id, ok := v.Lhs[0].(*ast.Ident); ok {
						add(id.Name, fn.expr(v.Rhs[0], 0))
					}
				}
			case *ast.ValueSpec:
				for i, n := range v.Names {
					switch {
					case i < len(v.Values):
						add(n.Name, fn.expr(v.Values[i], 0))
					case decoded[n.Name]:
						add(n.Name, "decoded")
					default:
						add(n.Name, "zero")
					}
				}
			case *ast.RangeStmt:
				for _, l := range []ast.Expr{v.Key, v.Value} {
					if id, ok := l.(*ast.Ident); ok {
						add(id.Name, "element")
					}
				}
			}
			return true
		})
		fn.locals = next
	}
}

func c11BasicResult(t ast.Expr) bool {
	if at, ok := t.(*ast.ArrayType); ok {
		return exprString(at.Elt) == "byte"
	}
	switch exprString(t) {
	case "bool", "int", "error", "string", "uint64":
		return true
	}
	return false
}

// resultClass: the union over all return statements of the classes of the returned references.
func (fn *c11Fn) resultClass() string {
	if fn.done {
		return fn.result
	}
	if fn.busy {
		return "recursive"
	}
	fn.busy = true
	fn.collectLocals()
	var keep []int
	if fn.decl.Type.Results != nil {
		i := 0
		for _, r := range fn.decl.Type.Results.List {
			n := len(r.Names)
			if n == 0 {
				n = 1
			}
			for k := 0; k < n; k++ {
				if !c11BasicResult(r.Type) {
					keep = append(keep, i)
				}
				i++
			}
		}
	}
	var cs []string
	var walk func(n ast.Node) bool
	walk = func(n ast.Node) bool {
		switch v := n.(type) {
		case *ast.FuncLit:
			return false // returns of a closure are not returns of the function
		case *ast.ReturnStmt:
			for _, i := range keep {
				if i < len(v.Results) {
					cs = append(cs, fn.expr(v.Results[i], 0))
				}
			}
		}
		return true
	}
	ast.Inspect(fn.decl.Body, walk)
	fn.result = c11Join(cs)
	if len(keep) == 0 {
		fn.result = "no-reference"
	}
	fn.busy, fn.done = false, true
	return fn.result
}

// recvClass: what the function does through its receiver (direct writes; calls of writers are added by the caller).
func (fn *c11Fn) recvClass() string {
	if fn.recvName == "" {
		return ""
	}
	var cs []string
	target := func(l ast.Expr, rhs ast.Expr) {
		switch v := l.(type) {
		case *ast.StarExpr:
			if fn.rootedAtRecv(v.X) {
				c := "?"
				if rhs != nil {
					c = fn.expr(rhs, 0)
				}
				cs = append(cs, "replaced("+strings.ReplaceAll(c, "|", "/")+")")
			}
		case *ast.IndexExpr:
			if sel, ok := v.X.(*ast.SelectorExpr); ok && fn.rootedAtRecv(sel.X) {
				cs = append(cs, "writes-field("+sel.Sel.Name+")")
			}
		case *ast.SelectorExpr:
			if fn.rootedAtRecv(v.X) {
				c := "?"
				if rhs != nil {
					c = fn.expr(rhs, 0)
				}
				cs = append(cs, "sets-field("+v.Sel.Name+"="+strings.ReplaceAll(c, "|", "/")+")")
			}
		}
	}
	ast.Inspect(fn.decl.Body, func(n ast.Node) bool {
		switch v := n.(type) {
		case *ast.AssignStmt:
			for i, l := range v.Lhs {
				var rhs ast.Expr
				if len(v.Lhs) == len(v.Rhs) {
					rhs = v.Rhs[i]
				}
				target(l, rhs)
			}
		case *ast.IncDecStmt:
			target(v.X, nil)
		case *ast.CallExpr:
			name := c11CallName(v.Fun)
			if (name == "delete" || name == "clear") && len(v.Args) > 0 {
				if sel, ok := v.Args[0].(*ast.SelectorExpr); ok && fn.rootedAtRecv(sel.X) {
					cs = append(cs, "writes-field("+sel.Sel.Name+")")
				}
			}
		}
		return true
	})
	if len(cs) == 0 {
		return "readonly"
	}
	return c11Join(cs)
}

// paramClass: what happens to reference parameter p.
func (fn *c11Fn) paramClass(p string, depth int) string {
	retained := strings.Contains(fn.resultClass(), "param("+p+")") || strings.Contains(fn.recv, "param("+p+")")
	var guards, clones, other, passed []string
	var stack []ast.Node
	ast.Inspect(fn.decl.Body, func(n ast.Node) bool {
		if n == nil {
			stack = stack[:len(stack)-1]
			return true
		}
		stack = append(stack, n)
		switch v := n.(type) {
		case *ast.AssignStmt:
			for i, l := range v.Lhs {
				if id, ok := l.(*ast.Ident); !ok || id.Name != p || v.Tok == token.DEFINE || i >= len(v.Rhs) {
					continue
				}
				call, ok := v.Rhs[i].(*ast.CallExpr)
				if ok && (c11CallName(call.Fun) == "maps.Clone" || c11CallName(call.Fun) == "slices.Clone") && len(call.Args) == 1 && exprString(call.Args[0]) == p {
					var g []string
					for k := 0; k+1 < len(stack); k++ {
						if is, ok := stack[k].(*ast.IfStmt); ok {
							if stack[k+1] == ast.Node(is.Body) {
								g = append(g, exprString(is.Cond))
							} else if stack[k+1] == is.Else {
								g = append(g, "!("+exprString(is.Cond)+")")
							}
						}
					}
					clones = append(clones, "clone")
					guards = append(guards, strings.Join(g, "&&"))
				} else {
					other = append(other, fn.expr(v.Rhs[i], 0))
				}
			}
		case *ast.CallExpr:
			for ai, a := range v.Args {
				if id, ok := a.(*ast.Ident); !ok || id.Name != p {
					continue
				}
				name := c11CallName(v.Fun)
				switch name {
				case "len", "cap", "maps.Keys", "maps.Values", "maps.All", "maps.Clone", "slices.Clone", "slices.Values", "slices.All":
					continue
				}
				if callee := fn.callee(v); callee != nil && depth < 6 {
					i, names := 0, []string{}
					for _, f := range callee.decl.Type.Params.List {
						for _, n := range f.Names {
							names = append(names, n.Name)
						}
					}
					if i = ai; i >= len(names) {
						i = len(names) - 1
					}
					if i >= 0 && callee.params[names[i]] {
						passed = append(passed, callee.paramClass(names[i], depth+1))
						continue
					}
				}
				passed = append(passed, "passed-to:"+name)
			}
		}
		return true
	})
	switch {
	case len(other) > 0:
		return "reassigned(" + strings.ReplaceAll(c11Join(other), "|", "/") + ")"
	case retained && len(clones) == 0:
		return "aliased"
	case retained:
		var cs []string
		for _, g := range guards {
			switch g {
			case "":
				cs = append(cs, "cloned")
			case p + "!=nil":
				cs = append(cs, "cloned-unless-nil")
			default:
				cs = append(cs, "cloned-if("+g+")")
			}
		}
		return c11Join(cs)
	case len(passed) > 0:
		return c11Join(passed)
	}
	return "elements-read"
}

func c11AliasFacts() {
	c11Load()
	names := make([]string, 0, len(c11Fns))
	for n := range c11Fns {
		names = append(names, n)
	}
	sort.Strings(names)
	for _, n := range names {
		c11Fns[n].resultClass()
	}
	for _, n := range names {
		c11Fns[n].recv = c11Fns[n].recvClass()
	}
	// calls of writers through the receiver (one propagation round per nesting level; three are plenty)
	for round := 0; round < 3; round++ {
		for _, n := range names {
			fn := c11Fns[n]
			if fn.recvName == "" {
				continue
			}
			ast.Inspect(fn.decl.Body, func(x ast.Node) bool {
				call, ok := x.(*ast.CallExpr)
				if !ok {
					return true
				}
				sel, ok := call.Fun.(*ast.SelectorExpr)
				if !ok || !fn.rootedAtRecv(sel.X) {
					return true
				}
				for on, other := range c11Fns {
					if t := fn.typeOf(sel.X); t != "" && on != t+"."+sel.Sel.Name { // receiver type known: that type's method only
						continue
					}
					if other.name == sel.Sel.Name && other.recvName != "" && other.recv != "readonly" && !strings.HasPrefix(other.recv, "replaced(") &&
						!strings.Contains(fn.recv, "calls-writer("+other.name+")") {
						if fn.recv == "readonly" {
							fn.recv = ""
						}
						fn.recv = c11Join([]string{fn.recv, "calls-writer(" + other.name + ")"})
					}
				}
				return true
			})
		}
	}
	for _, n := range names {
		fn := c11Fns[n]
		c11Out[fn.key+".result"] = fn.result
		if fn.recvName != "" {
			c11Out[fn.key+".recv"] = fn.recv
		}
		for p := range fn.params {
			c11Out[fn.key+".param."+p] = fn.paramClass(p, 0)
		}
	}
	keys := make([]string, 0, len(c11Out))
	for k := range c11Out {
		keys = append(keys, k)
	}
	sort.Strings(keys)
	type kv struct {
		Key   string `json:"key"`
		Class string `json:"class"`
	}
	all := []kv{}
	for _, k := range keys {
		all = append(all, kv{k, c11Out[k]})
	}
	extraJSON["aliasFactsAll"] = all
}

// c11WriteLean emits `aliasFacts` (the modelled keys) and `aliasWriters` (every function that is not read-only through its receiver).
func c11WriteLean(b *strings.Builder) {
	pairs := func(name string, kvs [][2]string) {
		fmt.Fprintf(b, "def %s : List (String × String) := [\n", name)
		for i, kv := range kvs {
			sep := ","
			if i == len(kvs)-1 {
				sep = ""
			}
			fmt.Fprintf(b, "  (%s, %s)%s\n", leanStr(kv[0]), leanStr(kv[1]), sep)
		}
		b.WriteString("]\n\n")
	}
	var modelled, writers [][2]string
	for _, k := range c11Modelled {
		c, ok := c11Out[k]
		if !ok {
			c = "MISSING"
		}
		modelled = append(modelled, [2]string{k, c})
	}
	keys := make([]string, 0, len(c11Out))
	for k := range c11Out {
		keys = append(keys, k)
	}
	sort.Strings(keys)
	for _, k := range keys {
		if strings.HasSuffix(k, ".recv") && c11Out[k] != "readonly" {
			writers = append(writers, [2]string{k, c11Out[k]})
		}
	}
	pairs("aliasFacts", modelled)
	pairs("aliasWriters", writers)
}
