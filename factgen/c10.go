package main

// C10 facts: every place where the decoder / encoder / evaluator packages can panic by construction —
// explicit `panic(` calls, unchecked single-value type assertions `x.(T)`, and constant-index
// expressions on node argument slices (`n.Args[0]`) — plus the list of `ast` constructors and
// `ast.Node` methods the Cedar text parser calls (its construction sites).  Written next to the
// main facts file as `.facts.C10.json`; the C10 harness compares it with
// facts/panic_sites.expected.json (hand-classified), so a NEW panic site or construction site
// breaks the tie.

import (
	"encoding/json"
	"flag"
	"go/ast"
	"go/token"
	"os"
	"path/filepath"
	"sort"
	"strings"
)

type c10Site struct {
	File  string `json:"file"`
	Func  string `json:"func"`
	Kind  string `json:"kind"` // panic | assert | index
	Expr  string `json:"expr"`
	Guard string `json:"guard,omitempty"` // index sites: condition of the innermost enclosing `if` (then-branch) that tests a len(...)
}

type c10Facts struct {
	PanicSites        []c10Site `json:"panicSites"`
	ParserConstructs  []string  `json:"parserConstructionSites"`
	JSONDecoderPtrMap []string  `json:"jsonDecoderPointerContainers"` // map/slice-of-pointer types in the JSON policy codec (nil-able entries)
	JSONNilGuards     []string  `json:"jsonDecoderNilGuards"`         // `for _, v := range X { if v == nil { return … } … }` in the JSON policy decoders
}

var c10Dirs = []string{".", "ast", "types", "internal/eval", "internal/json", "internal/parser", "internal/extensions", "internal/rust", "internal/mapset",
	"x/exp/ast", "x/exp/eval", "x/exp/types", "x/exp/schema", "x/exp/schema/ast", "x/exp/schema/internal/json", "x/exp/schema/internal/parser", "x/exp/schema/resolved"}

func c10FuncName(fd *ast.FuncDecl) string {
	fn := fd.Name.Name
	if fd.Recv != nil && len(fd.Recv.List) > 0 {
		fn = exprString(fd.Recv.List[0].Type) + "." + fn
	}
	return fn
}

func c10Collect() c10Facts {
	var out c10Facts
	for _, d := range c10Dirs {
		files, _ := listGo(d)
		for _, rel := range files {
			f := parseFile(rel)
			if f == nil {
				continue
			}
			for _, decl := range f.Decls {
				fd, ok := decl.(*ast.FuncDecl)
				if !ok || fd.Body == nil {
					continue
				}
				fn := c10FuncName(fd)
				// type assertions that are checked: the X of `v, ok := x.(T)` / `v, ok = x.(T)` and of type switches
				checked := map[*ast.TypeAssertExpr]bool{}
				ast.Inspect(fd.Body, func(n ast.Node) bool {
					switch v := n.(type) {
					case *ast.AssignStmt:
						if len(v.Lhs) == 2 && len(v.Rhs) == 1 {
							if ta, ok := v.Rhs[0].(*ast.TypeAssertExpr); ok {
								checked[ta] = true
							}
						}
					case *ast.ValueSpec:
						if len(v.Names) == 2 && len(v.Values) == 1 {
							if ta, ok := v.Values[0].(*ast.TypeAssertExpr); ok {
								checked[ta] = true
							}
						}
					case *ast.TypeSwitchStmt:
						ast.Inspect(v.Assign, func(m ast.Node) bool {
							if ta, ok := m.(*ast.TypeAssertExpr); ok {
								checked[ta] = true
							}
							return true
						})
					}
					return true
				})
				var stack []ast.Node
				ast.Inspect(fd.Body, func(n ast.Node) bool {
					if n == nil {
						stack = stack[:len(stack)-1]
						return true
					}
					stack = append(stack, n)
					switch v := n.(type) {
					case *ast.CallExpr:
						if id, ok := v.Fun.(*ast.Ident); ok && id.Name == "panic" {
							arg := ""
							if len(v.Args) > 0 {
								arg = exprString(v.Args[0])
							}
							out.PanicSites = append(out.PanicSites, c10Site{File: rel, Func: fn, Kind: "panic", Expr: arg})
						}
					case *ast.TypeAssertExpr:
						if v.Type != nil && !checked[v] {
							out.PanicSites = append(out.PanicSites, c10Site{File: rel, Func: fn, Kind: "assert", Expr: exprString(v.X) + ".(" + exprString(v.Type) + ")"})
						}
					case *ast.IndexExpr:
						// constant index on a selector whose field is a node/argument list
						if bl, ok := v.Index.(*ast.BasicLit); ok && bl.Kind == token.INT {
							if sel, ok := v.X.(*ast.SelectorExpr); ok {
								switch sel.Sel.Name {
								case "Args", "Elements", "Entities", "Conditions", "comps":
									guard := ""
									for i := len(stack) - 1; i >= 0 && guard == ""; i-- {
										if is, ok := stack[i].(*ast.IfStmt); ok && is.Body.Pos() <= v.Pos() && v.End() <= is.Body.End() {
											if c := exprString(is.Cond); strings.Contains(c, "len(") {
												guard = c
											}
										}
									}
									out.PanicSites = append(out.PanicSites, c10Site{File: rel, Func: fn, Kind: "index", Expr: exprString(v.X) + "[" + bl.Value + "]", Guard: guard})
								}
							}
						}
					}
					return true
				})
			}
		}
	}
	sort.Slice(out.PanicSites, func(i, j int) bool {
		a, b := out.PanicSites[i], out.PanicSites[j]
		if a.File != b.File {
			return a.File < b.File
		}
		if a.Func != b.Func {
			return a.Func < b.Func
		}
		if a.Kind != b.Kind {
			return a.Kind < b.Kind
		}
		return a.Expr < b.Expr
	})

	// construction sites of the Cedar text parser: `ast.X` selectors and methods of ast.Node it uses
	nodeMethods := map[string]bool{}
	if files, err := listGo("x/exp/ast"); err == nil {
		for _, rel := range files {
			f := parseFile(rel)
			if f == nil {
				continue
			}
			for _, decl := range f.Decls {
				if fd, ok := decl.(*ast.FuncDecl); ok && fd.Recv != nil && len(fd.Recv.List) > 0 && exprString(fd.Recv.List[0].Type) == "Node" && ast.IsExported(fd.Name.Name) {
					nodeMethods[fd.Name.Name] = true
				}
			}
		}
	}
	seen := map[string]bool{}
	if f := parseFile("internal/parser/cedar_unmarshal.go"); f != nil {
		ast.Inspect(f, func(n ast.Node) bool {
			sel, ok := n.(*ast.SelectorExpr)
			if !ok {
				return true
			}
			x := exprString(sel.X)
			switch {
			case x == "ast":
				seen["ast."+sel.Sel.Name] = true
			case x == "ast.Node":
				seen["ast.Node."+sel.Sel.Name] = true
				return false
			case nodeMethods[sel.Sel.Name] && x != "p" && x != "t" && x != "parser" && !strings.HasPrefix(x, "types") && x != "policy" && x != "a":
				seen["ast.Node."+sel.Sel.Name] = true
			}
			return true
		})
	}
	for k := range seen {
		out.ParserConstructs = append(out.ParserConstructs, k)
	}
	sort.Strings(out.ParserConstructs)

	// nil-able containers in the JSON policy codec: map values / slice elements / fields of pointer type whose
	// pointee has a ToNode method or is a Policy
	for _, rel := range []string{"internal/json/json.go", "internal/json/policy_set.go"} {
		f := parseFile(rel)
		if f == nil {
			continue
		}
		ast.Inspect(f, func(n ast.Node) bool {
			ts, ok := n.(*ast.TypeSpec)
			if !ok {
				return true
			}
			switch t := ts.Type.(type) {
			case *ast.MapType:
				if st, ok := t.Value.(*ast.StarExpr); ok {
					out.JSONDecoderPtrMap = append(out.JSONDecoderPtrMap, ts.Name.Name+": map["+exprString(t.Key)+"]*"+exprString(st.X))
				}
			case *ast.ArrayType:
				if st, ok := t.Elt.(*ast.StarExpr); ok {
					out.JSONDecoderPtrMap = append(out.JSONDecoderPtrMap, ts.Name.Name+": []*"+exprString(st.X))
				}
			}
			return true
		})
	}
	sort.Strings(out.JSONDecoderPtrMap)

	// nil guards of the JSON policy decoders: a `range` loop whose first statement returns when the element is nil
	for _, rel := range []string{"internal/json/json_unmarshal.go", "policy_set.go"} {
		f := parseFile(rel)
		if f == nil {
			continue
		}
		for _, decl := range f.Decls {
			fd, ok := decl.(*ast.FuncDecl)
			if !ok || fd.Body == nil {
				continue
			}
			fn := c10FuncName(fd)
			ast.Inspect(fd.Body, func(n ast.Node) bool {
				rs, ok := n.(*ast.RangeStmt)
				if !ok || rs.Value == nil || len(rs.Body.List) == 0 {
					return true
				}
				// the element: the range value itself, or — when the loop ranges over the SORTED KEYS of the map
				// (`for _, k := range slices.Sorted(maps.Keys(m)) { v := m[k]; if v == nil {…} }`) — the variable the
				// first statement assigns `m[k]` to
				elem, first := exprString(rs.Value), 0
				if as, ok := rs.Body.List[0].(*ast.AssignStmt); ok && as.Tok == token.DEFINE && len(as.Lhs) == 1 && len(as.Rhs) == 1 && len(rs.Body.List) > 1 {
					if ix, ok := as.Rhs[0].(*ast.IndexExpr); ok && exprString(ix.Index) == exprString(rs.Value) {
						elem, first = exprString(as.Lhs[0]), 1
					}
				}
				is, ok := rs.Body.List[first].(*ast.IfStmt)
				if !ok || is.Init != nil || len(is.Body.List) == 0 {
					return true
				}
				be, ok := is.Cond.(*ast.BinaryExpr)
				if !ok || be.Op != token.EQL || exprString(be.X) != elem || exprString(be.Y) != "nil" {
					return true
				}
				if _, ok := is.Body.List[len(is.Body.List)-1].(*ast.ReturnStmt); ok {
					out.JSONNilGuards = append(out.JSONNilGuards, rel+": "+fn+": range "+exprString(rs.X)+": "+exprString(is.Cond)+" returns")
				}
				return true
			})
		}
	}
	sort.Strings(out.JSONNilGuards)
	return out
}

// c10Facts writes `.facts.C10.json` next to the main facts JSON (same directory as -json).
func c10WriteFacts() {
	jf := flag.Lookup("json")
	if jf == nil || jf.Value.String() == "" {
		return
	}
	out := c10Collect()
	b, _ := json.MarshalIndent(out, "", " ")
	_ = os.WriteFile(filepath.Join(filepath.Dir(jf.Value.String()), ".facts.C10.json"), b, 0o644)
}
