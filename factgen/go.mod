module factgen

go 1.23.0
