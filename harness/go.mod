module verifharness

go 1.23.0

require github.com/cedar-policy/cedar-go v0.0.0

require golang.org/x/exp v0.0.0-20220921023135-46d9e7742f1e // indirect

replace github.com/cedar-policy/cedar-go => /repo
