package vh

import (
	"github.com/cedar-policy/cedar-go/x/exp/ast"
	"github.com/cedar-policy/cedar-go/x/exp/eval"
)

// OrderSensitive reports whether some record literal in n has two entries that both fail, with different
// outcomes.  Until `fix: evaluate the entries of a record literal in key order` recordLiteralEval ranged over
// a Go map and reported whichever erroring entry it met first; C01/C04 stepped around such cases.  They do
// not any more: this is now only the CLASSIFIER of a repeated-evaluation instability (if the implementation
// ever gives two results for one input again, an instability on such a literal is reported as
// `record-literal-multi-error-order`, anything else as `impl-nondeterministic`).
func OrderSensitive(n ast.IsNode, env eval.Env) bool {
	found := false
	var walk func(x ast.IsNode)
	kids := func(x ast.IsNode) []ast.IsNode {
		switch v := x.(type) {
		case ast.NodeTypeAnd:
			return []ast.IsNode{v.Left, v.Right}
		case ast.NodeTypeOr:
			return []ast.IsNode{v.Left, v.Right}
		case ast.NodeTypeEquals:
			return []ast.IsNode{v.Left, v.Right}
		case ast.NodeTypeNotEquals:
			return []ast.IsNode{v.Left, v.Right}
		case ast.NodeTypeLessThan:
			return []ast.IsNode{v.Left, v.Right}
		case ast.NodeTypeLessThanOrEqual:
			return []ast.IsNode{v.Left, v.Right}
		case ast.NodeTypeGreaterThan:
			return []ast.IsNode{v.Left, v.Right}
		case ast.NodeTypeGreaterThanOrEqual:
			return []ast.IsNode{v.Left, v.Right}
		case ast.NodeTypeAdd:
			return []ast.IsNode{v.Left, v.Right}
		case ast.NodeTypeSub:
			return []ast.IsNode{v.Left, v.Right}
		case ast.NodeTypeMult:
			return []ast.IsNode{v.Left, v.Right}
		case ast.NodeTypeIn:
			return []ast.IsNode{v.Left, v.Right}
		case ast.NodeTypeContains:
			return []ast.IsNode{v.Left, v.Right}
		case ast.NodeTypeContainsAll:
			return []ast.IsNode{v.Left, v.Right}
		case ast.NodeTypeContainsAny:
			return []ast.IsNode{v.Left, v.Right}
		case ast.NodeTypeGetTag:
			return []ast.IsNode{v.Left, v.Right}
		case ast.NodeTypeHasTag:
			return []ast.IsNode{v.Left, v.Right}
		case ast.NodeTypeNot:
			return []ast.IsNode{v.Arg}
		case ast.NodeTypeNegate:
			return []ast.IsNode{v.Arg}
		case ast.NodeTypeIsEmpty:
			return []ast.IsNode{v.Arg}
		case ast.NodeTypeIfThenElse:
			return []ast.IsNode{v.If, v.Then, v.Else}
		case ast.NodeTypeAccess:
			return []ast.IsNode{v.Arg}
		case ast.NodeTypeHas:
			return []ast.IsNode{v.Arg}
		case ast.NodeTypeLike:
			return []ast.IsNode{v.Arg}
		case ast.NodeTypeIs:
			return []ast.IsNode{v.Left}
		case ast.NodeTypeIsIn:
			return []ast.IsNode{v.Left, v.Entity}
		case ast.NodeTypeSet:
			return v.Elements
		case ast.NodeTypeExtensionCall:
			return v.Args
		case ast.NodeTypeRecord:
			out := make([]ast.IsNode, len(v.Elements))
			for i, e := range v.Elements {
				out[i] = e.Value
			}
			return out
		}
		return nil
	}
	walk = func(x ast.IsNode) {
		if found || x == nil {
			return
		}
		if r, ok := x.(ast.NodeTypeRecord); ok && len(r.Elements) >= 2 {
			var first string
			nerr := 0
			for _, e := range r.Elements {
				var res string
				if Protect(func() { v, err := eval.Eval(e.Value, env); res = ShowRes(v, err) }) != nil {
					res = "err panic"
				}
				if len(res) >= 3 && res[:3] == "err" {
					nerr++
					if nerr == 1 {
						first = res
					} else if res != first {
						found = true
						return
					}
				}
			}
		}
		for _, k := range kids(x) {
			walk(k)
		}
	}
	walk(n)
	return found
}

// PolicyOrderSensitive applies OrderSensitive to every condition body of a policy.
func PolicyOrderSensitive(p *ast.Policy, env eval.Env) bool {
	for _, c := range p.Conditions {
		if OrderSensitive(c.Body, env) {
			return true
		}
	}
	return false
}
