package vh

// Encoders for the C15 `validate` correspondence op: a tiny schema encoding of our own
// (entity type names, actions with appliesTo lists and context record types) that does not go
// through any schema codec of cedar-go.

import (
	"sort"

	"github.com/cedar-policy/cedar-go/types"
	"github.com/cedar-policy/cedar-go/x/exp/ast"
	"github.com/cedar-policy/cedar-go/x/exp/schema/resolved"
)

// EncC15Type encodes a resolved schema type.
func EncC15Type(t resolved.IsType) any {
	switch v := t.(type) {
	case resolved.StringType:
		return []any{"string"}
	case resolved.LongType:
		return []any{"long"}
	case resolved.BoolType:
		return []any{"bool"}
	case resolved.ExtensionType:
		return []any{"ext", string(v)}
	case resolved.EntityType:
		return []any{"entity", Hex(string(v))}
	case resolved.SetType:
		return []any{"set", EncC15Type(v.Element)}
	case resolved.RecordType:
		as := []any{}
		for _, k := range c15SortedAttrs(v) {
			as = append(as, []any{Hex(string(k)), EncC15Type(v[k].Type), !v[k].Optional})
		}
		return []any{"record", as}
	}
	panic("EncC15Type: unknown type")
}

// EncC15Schema encodes what the fragment model needs of a resolved schema.
func EncC15Schema(s *C15Schema) any {
	ets := []any{}
	for _, t := range s.AllEntityTypes() {
		ets = append(ets, Hex(string(t)))
	}
	acts := []any{}
	for _, uid := range s.ActionUIDs {
		a := s.RS.Actions[uid]
		m := map[string]any{"uid": EncUID(uid)}
		var parents []types.EntityUID
		for pu := range a.Entity.Parents.All() {
			parents = append(parents, pu)
		}
		sortedUIDs(parents)
		ps := []any{}
		for _, pu := range parents {
			ps = append(ps, EncUID(pu))
		}
		m["parents"] = ps
		if a.AppliesTo != nil {
			ps, rs := []any{}, []any{}
			for _, p := range a.AppliesTo.Principals {
				ps = append(ps, Hex(string(p)))
			}
			for _, r := range a.AppliesTo.Resources {
				rs = append(rs, Hex(string(r)))
			}
			m["appliesTo"] = map[string]any{"principals": ps, "resources": rs, "context": EncC15Type(a.AppliesTo.Context)}
		}
		acts = append(acts, m)
	}
	// schema.Entities (declared, non-enum entity types): shape, tags, parent types
	ents := []any{}
	var names []string
	for n := range s.RS.Entities {
		names = append(names, string(n))
	}
	sort.Strings(names)
	for _, n := range names {
		e := s.RS.Entities[types.EntityType(n)]
		shape := e.Shape
		if shape == nil {
			shape = resolved.RecordType{}
		}
		m := map[string]any{"name": Hex(n), "shape": EncC15Type(shape)}
		if e.Tags != nil {
			m["tags"] = EncC15Type(e.Tags)
		}
		ps := []any{}
		for _, p := range e.ParentTypes {
			ps = append(ps, Hex(string(p)))
		}
		m["parents"] = ps
		ents = append(ents, m)
	}
	return map[string]any{"entityTypes": ets, "actions": acts, "entities": ents}
}

// EncC15Policy: scopes + conditions (the effect and annotations play no role in validation).
func EncC15Policy(p *ast.Policy) any {
	conds := []any{}
	for _, c := range p.Conditions {
		conds = append(conds, []any{bool(c.Condition), EncExpr(c.Body)})
	}
	return map[string]any{"principal": EncScope(p.Principal), "action": EncScope(p.Action), "resource": EncScope(p.Resource), "conditions": conds}
}

var _ = types.String("")
