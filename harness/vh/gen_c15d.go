package vh

// C15 generators, fourth part: two more near-miss families around least upper bounds and the operand types of `in`.
//
//   lub-attr         attribute access / `has` on an if-then-else whose branches have DIFFERENT record types (a variable
//                    path of record type against a record literal that lacks / adds one attribute, either branch the wider
//                    one, also one level down) or different ENTITY types (attribute declared by one type only, optional
//                    in one and required in the other, declared by both): the attribute that only one branch has must
//                    come out optional (record LUB) / undeclared (entity LUB), and no capability can protect the read.
//   in-operand-type  `in` / `is..in` whose right operand is NOT an entity or a set of entities: a set of SETS of entities
//                    (literal or a schema path of that type), a record holding an entity, a Long / String / set of Longs,
//                    the join of an entity and a set; or whose left operand is a set / record / attribute of another type.

import (
	"github.com/cedar-policy/cedar-go/types"
	"github.com/cedar-policy/cedar-go/x/exp/ast"
	"github.com/cedar-policy/cedar-go/x/exp/schema/resolved"
)

func c15RecordWithout(rt resolved.RecordType, k types.String) resolved.RecordType {
	out := resolved.RecordType{}
	for a, t := range rt {
		if a != k {
			out[a] = t
		}
	}
	return out
}

// lubAttr: see the file comment.
func (c *C15Gen) lubAttr(d int) (ast.IsNode, bool) {
	cond := func() ast.IsNode { return c.condBool() }
	if c.chance(0.6) {
		// ---- records
		var recs []c15Path
		for _, p := range c.paths {
			if rt, ok := p.ty.(resolved.RecordType); ok && len(rt) > 0 && c.satisfied(p) && p.nsegs > 0 {
				recs = append(recs, p)
			}
		}
		var wide ast.IsNode
		var rt resolved.RecordType
		src := "path"
		if len(recs) > 0 && c.chance(0.75) {
			p := recs[c.pick(len(recs))]
			wide, rt = p.node, p.ty.(resolved.RecordType)
		} else {
			rt = resolved.RecordType{"n": resolved.Attribute{Type: resolved.LongType{}}, "s": resolved.Attribute{Type: resolved.StringType{}}, "o": resolved.Attribute{Type: resolved.LongType{}, Optional: true}}
			full := resolved.RecordType{}
			for k, a := range rt {
				full[k] = resolved.Attribute{Type: a.Type}
			}
			wide, src = c.recLit(full, d-1), "literal"
		}
		ks := c15SortedAttrs(rt)
		k := ks[c.pick(len(ks))]
		narrowTy := c15RecordWithout(rt, k)
		// the other branch: a literal without k, or another path of exactly that narrower type
		var narrow ast.IsNode = c.recLit(narrowTy, d-1)
		for _, q := range recs {
			if C15TypeKey(q.ty) == C15TypeKey(narrowTy) && c.chance(0.5) {
				narrow = q.node
			}
		}
		order := "then-wider"
		var e ast.IsNode
		if c.chance(0.5) {
			e = iteN(cond(), wide, narrow)
		} else {
			e, order = iteN(cond(), narrow, wide), "else-wider"
		}
		if c.chance(0.2) { // one level down
			if order == "then-wider" {
				e = acc(iteN(cond(), ast.NodeTypeRecord{Elements: []ast.RecordElementNode{{Key: "r", Value: wide}}}, ast.NodeTypeRecord{Elements: []ast.RecordElementNode{{Key: "r", Value: narrow}}}), "r")
			} else {
				e = acc(iteN(cond(), ast.NodeTypeRecord{Elements: []ast.RecordElementNode{{Key: "r", Value: narrow}}}, ast.NodeTypeRecord{Elements: []ast.RecordElementNode{{Key: "r", Value: wide}}}), "r")
			}
			order += ":nested"
		}
		kt := rt[k].Type
		var n ast.IsNode
		form := ""
		switch x := c.pick(10); {
		case x < 5:
			n, form = c.useBool(acc(e, k), kt, d-1), "read-one-sided"
		case x < 7: // `has` on a non-path expression yields no capability
			n, form = andN(hasN(e, k), c.useBool(acc(e, k), kt, d-1)), "has&&read-one-sided"
		case x < 8:
			n, form = hasN(e, k), "has-one-sided"
		default:
			var shared []types.String
			for _, a := range ks {
				if a != k && !rt[a].Optional {
					shared = append(shared, a)
				}
			}
			if len(shared) == 0 {
				n, form = hasN(e, k), "has-one-sided"
			} else {
				a := shared[c.pick(len(shared))]
				n, form = c.useBool(acc(e, a), rt[a].Type, d-1), "read-shared"
			}
		}
		c.note("lub-attr:record:" + order)
		c.note("lub-attr:record-src=" + src)
		c.note("lub-attr:form=" + form)
		return n, true
	}
	// ---- entities
	paths := c.declaredEntityPaths()
	for tries := 0; tries < 8 && len(paths) >= 2; tries++ {
		p, q := paths[c.pick(len(paths))], paths[c.pick(len(paths))]
		tp, tq := types.EntityType(p.ty.(resolved.EntityType)), types.EntityType(q.ty.(resolved.EntityType))
		if tp == tq {
			continue
		}
		sp, sq := c.S.RS.Entities[tp].Shape, c.S.RS.Entities[tq].Shape
		type cand struct {
			k    types.String
			kind string
		}
		var cands []cand
		for _, k := range c15SortedAttrs(sp) {
			a := sp[k]
			b, both := sq[k]
			switch {
			case !both && !a.Optional:
				cands = append(cands, cand{k, "declared-by-one"})
			case both && !a.Optional && b.Optional && C15TypeKey(a.Type) == C15TypeKey(b.Type):
				cands = append(cands, cand{k, "optional-in-one"})
			case both && !a.Optional && !b.Optional && C15TypeKey(a.Type) == C15TypeKey(b.Type):
				cands = append(cands, cand{k, "declared-by-both"})
			case both && !a.Optional && !b.Optional:
				cands = append(cands, cand{k, "declared-by-both-different-types"})
			}
		}
		if len(cands) == 0 {
			continue
		}
		cd := cands[c.pick(len(cands))]
		var e ast.IsNode
		if c.chance(0.5) {
			e = iteN(cond(), p.node, q.node)
		} else {
			e = iteN(cond(), q.node, p.node)
		}
		var n ast.IsNode
		form := "read"
		switch c.pick(4) {
		case 0:
			n, form = andN(hasN(e, cd.k), c.useBool(acc(e, cd.k), sp[cd.k].Type, d-1)), "has&&read"
		case 1:
			n, form = hasN(e, cd.k), "has"
		default:
			n = c.useBool(acc(e, cd.k), sp[cd.k].Type, d-1)
		}
		c.note("lub-attr:entity:" + cd.kind)
		c.note("lub-attr:form=" + form)
		return n, true
	}
	return nil, false
}

// inOperandType: see the file comment.
func (c *C15Gen) inOperandType(d int) (ast.IsNode, bool) {
	paths := c.declaredEntityPaths()
	if len(paths) == 0 {
		return nil, false
	}
	p := paths[c.pick(len(paths))]
	lt := types.EntityType(p.ty.(resolved.EntityType))
	// a type the left one can be a member of, if any (so that only the operand KIND is wrong)
	target := lt
	for t := range c.S.strictAncestors(lt) {
		if t < target || target == lt {
			target = t
		}
	}
	ent := func() ast.IsNode { return c.entityOfType(target) }
	setOf := func(es ...ast.IsNode) ast.IsNode { return ast.NodeTypeSet{Elements: es} }
	var lhs ast.IsNode = p.node
	var rhs ast.IsNode
	kind := ""
	switch k := c.pick(24); {
	case k < 5:
		rhs, kind = setOf(setOf(ent())), "rhs=set-of-sets-literal"
		if c.chance(0.5) {
			rhs = setOf(setOf(ent()), setOf(ent(), ent()))
		}
	case k < 9:
		kind = "rhs=set-of-sets-literal"
		rhs = setOf(setOf(ent()))
		for _, q := range c.paths {
			if st, ok := q.ty.(resolved.SetType); ok && c.satisfied(q) {
				if st2, ok := st.Element.(resolved.SetType); ok {
					if _, ok := st2.Element.(resolved.EntityType); ok {
						rhs, kind = q.node, "rhs=set-of-sets-path"
						break
					}
				}
			}
		}
	case k < 11:
		rhs, kind = setOf(iteN(c.condBool(), setOf(ent()), setOf(ent(), ent()))), "rhs=set-of-sets-ite"
	case k < 13:
		rhs, kind = setOf(ent(), setOf(ent())), "rhs=set-mixing-entity-and-set"
	case k < 15:
		rhs, kind = iteN(c.condBool(), ent(), setOf(ent())), "rhs=ite-entity-or-set"
	case k < 17:
		rhs, kind = ast.NodeTypeRecord{Elements: []ast.RecordElementNode{{Key: "a", Value: ent()}}}, "rhs=record"
	case k < 19:
		rhs, kind = []ast.IsNode{lit(types.Long(1)), lit(types.String("a")), setOf(lit(types.Long(1))), setOf(lit(types.String("a")), lit(types.String("b")))}[c.pick(4)], "rhs=non-entity"
	case k < 21:
		lhs, rhs, kind = setOf(p.node), ent(), "lhs=set"
		if c.chance(0.5) {
			rhs = setOf(ent())
		}
	case k < 22:
		lhs, rhs, kind = ast.NodeTypeRecord{Elements: []ast.RecordElementNode{{Key: "a", Value: p.node}}}, setOf(ent()), "lhs=record"
	default:
		lhs, rhs, kind = c.Expr([]resolved.IsType{resolved.LongType{}, resolved.StringType{}, resolved.BoolType{}}[c.pick(3)], 1), setOf(ent()), "lhs=non-entity"
	}
	var test ast.IsNode = ast.NodeTypeIn{BinaryNode: bin(lhs, rhs)}
	if c.chance(0.2) {
		test = ast.NodeTypeIsIn{NodeTypeIs: ast.NodeTypeIs{Left: lhs, EntityType: lt}, Entity: rhs}
		kind += ",is-in"
	}
	c.note("in-operand:" + kind)
	switch c.pick(5) {
	case 0:
		return andN(test, c.boolExpr(d-1)), true
	case 1:
		return iteN(test, c.boolExpr(d-1), lit(types.False)), true
	case 2:
		return notN(test), true
	}
	return test, true
}
