package vh

// Generators for C09 (JSON policy codec) and C13 (value / entity / request JSON).

import (
	"encoding/json"
	"math"
	"net/netip"
	"strings"
	"unicode/utf8"

	"github.com/cedar-policy/cedar-go/types"
	"github.com/cedar-policy/cedar-go/x/exp/ast"
	"github.com/cedar-policy/cedar-go/x/exp/schema/resolved"
)

// SpecialRunesC0913 are the characters JSON encoders treat specially, plus block boundaries.
var SpecialRunesC0913 = []rune{'"', '\\', '/', '<', '>', '&', 0x2028, 0x2029, 0, 1, 0x1f, 0x7f, 0x80, 0xa0, 0xff, 0x17f, 0x212a, 0xd7ff, 0xe000, 0xfffd, 0xfffe, 0xffff,
	0x10000, 0x1f600, 0x10ffff, '\n', '\r', '\t', '\b', '\f', ' ', '*', '%', ':', '.', 'é', 0x301, '日'}

// UnicodeRune draws from all Unicode scalar values (never a surrogate).
func (g *Gen) UnicodeRune() rune {
	switch g.pick(5) {
	case 0:
		return SpecialRunesC0913[g.pick(len(SpecialRunesC0913))]
	case 1:
		return rune('a' + g.pick(26))
	case 2:
		return rune(g.pick(0x80))
	case 3:
		r := rune(g.pick(0xd800))
		return r
	default:
		r := rune(0xe000 + g.pick(0x110000-0xe000))
		return r
	}
}

// UnicodeString is a valid UTF-8 string over all of Unicode.
func (g *Gen) UnicodeString() string {
	if g.chance(0.25) {
		return Strings[g.pick(len(Strings))]
	}
	n := g.pick(6)
	var sb strings.Builder
	for i := 0; i < n; i++ {
		sb.WriteRune(g.UnicodeRune())
	}
	s := sb.String()
	if !utf8.ValidString(s) {
		panic("UnicodeString produced invalid UTF-8")
	}
	return s
}

// ReservedKeys are record keys that collide with the JSON escapes (and their case-fold variants).
var ReservedKeys = []string{"__entity", "__extn", "__ENTITY", "__Extn", "__eNTITY", "__EXTN"}

var c13Keys = []string{"a", "b", "type", "id", "fn", "arg", "", "Type", "uid", "attrs", "é", "k\"q", "k\\b", "<k>", " ", "value", "__entit", "_extn"}

func (g *Gen) KeyC13() string {
	if g.chance(0.7) {
		return c13Keys[g.pick(len(c13Keys))]
	}
	return g.UnicodeString()
}

var c13Types = []types.EntityType{"User", "Group", "Doc", "Action", "NS::Folder", "A", "", "Ünï::Çode", "a::b::c"}

func (g *Gen) UIDC13() types.EntityUID {
	if g.chance(0.5) {
		return g.UID()
	}
	return types.NewEntityUID(c13Types[g.pick(len(c13Types))], types.String(g.UnicodeString()))
}

var boundaryLongsC13 = []int64{math.MaxInt64, math.MinInt64, math.MaxInt64 - 1, math.MinInt64 + 1, 0, -1, 1, 1 << 53, 1<<53 + 1, -(1 << 53) - 1}

// IPC13 draws addresses and prefixes of both families (also IPv4-mapped IPv6 and unmasked prefixes).
func (g *Gen) IPC13() types.IPAddr {
	switch g.pick(4) {
	case 0:
		return g.IP()
	case 1:
		var b [4]byte
		for i := range b {
			b[i] = byte(g.pick(256))
		}
		bits := 32
		if g.chance(0.5) {
			bits = g.pick(33)
		}
		return types.IPAddr(netip.PrefixFrom(netip.AddrFrom4(b), bits))
	default:
		var b [16]byte
		for i := range b {
			if g.chance(0.5) {
				b[i] = byte(g.pick(256))
			}
		}
		if g.chance(0.1) { // IPv4-mapped
			copy(b[:], []byte{0, 0, 0, 0, 0, 0, 0, 0, 0, 0, 0xff, 0xff})
		}
		bits := 128
		if g.chance(0.5) {
			bits = g.pick(129)
		}
		return types.IPAddr(netip.PrefixFrom(netip.AddrFrom16(b), bits))
	}
}

// ValueC13 generates an arbitrary value: nesting <= depth, every extension type, boundary longs,
// heterogeneous sets, keys and strings over all of Unicode.  reserved=true allows record keys that collide
// with the JSON escapes.
func (g *Gen) ValueC13(depth int, reserved bool) types.Value {
	k := g.pick(12)
	if depth <= 0 && (k == 4 || k == 5) {
		k = g.pick(4)
	}
	switch k {
	case 0:
		return types.Boolean(g.pick(2) == 0)
	case 1:
		if g.chance(0.4) {
			return types.Long(boundaryLongsC13[g.pick(len(boundaryLongsC13))])
		}
		return types.Long(g.Long())
	case 2, 10:
		return types.String(g.UnicodeString())
	case 3, 11:
		return g.UIDC13()
	case 4:
		n := g.pick(4)
		var vs []types.Value
		for i := 0; i < n; i++ {
			vs = append(vs, g.ValueC13(depth-1, reserved))
		}
		return types.NewSet(vs...)
	case 5:
		n := g.pick(4)
		m := types.RecordMap{}
		for i := 0; i < n; i++ {
			key := g.KeyC13()
			if reserved && g.chance(0.3) {
				key = ReservedKeys[g.pick(len(ReservedKeys))]
			}
			m[types.String(key)] = g.ValueC13(depth-1, reserved)
		}
		return types.NewRecord(m)
	case 6:
		return g.Value(TDecimal, 0)
	case 7:
		return types.NewDatetimeFromMillis(g.Millis())
	case 8:
		return types.NewDurationFromMillis(g.Millis())
	default:
		return g.IPC13()
	}
}

// EscapeLookalikes are records whose JSON encoding coincides with (or resembles) an escape object.
func (g *Gen) EscapeLookalike() types.Value {
	str := func(s string) types.Value { return types.String(s) }
	rec := func(kv ...any) types.Record {
		m := types.RecordMap{}
		for i := 0; i+1 < len(kv); i += 2 {
			m[types.String(kv[i].(string))] = kv[i+1].(types.Value)
		}
		return types.NewRecord(m)
	}
	key := ReservedKeys[g.pick(len(ReservedKeys))]
	ent := strings.EqualFold(key, "__entity")
	switch g.pick(8) {
	case 0:
		if ent {
			return rec(key, rec("type", str("A"), "id", str(g.UnicodeString())))
		}
		return rec(key, rec("fn", str([]string{"ip", "decimal", "datetime", "duration"}[g.pick(4)]), "arg", str([]string{"1.2.3.4", "1.5", "2024-01-01", "1h"}[g.pick(4)])))
	case 1:
		if ent {
			return rec(key, rec("type", str("A")))
		}
		return rec(key, rec("fn", str("nosuch"), "arg", str("x")))
	case 2:
		return rec(key, rec())
	case 3:
		return rec(key, types.Long(5))
	case 4:
		if ent {
			return rec(key, rec("type", types.Long(1), "id", str("b")))
		}
		return rec(key, rec("fn", str("ip"), "arg", types.Long(1)))
	case 5:
		return rec(key, rec("type", str("A"), "id", str("b"), "fn", str("decimal"), "arg", str("1.0")), "other", types.Long(1))
	case 6:
		return rec("outer", rec(key, rec("type", str("A"), "id", str("b"), "fn", str("ip"), "arg", str("::1"))))
	default:
		return types.NewSet(rec(key, rec("type", str("T"), "id", str("i"), "fn", str("duration"), "arg", str("1ms"))), types.Long(1))
	}
}

// HasReservedKey reports whether some record inside v has a key that case-folds to __entity / __extn
// (Go's struct-field matching is case-insensitive, so these all reach the escape decoders).
func HasReservedKey(v types.Value) bool {
	switch t := v.(type) {
	case types.Set:
		for x := range t.All() {
			if HasReservedKey(x) {
				return true
			}
		}
	case types.Record:
		for k, x := range t.All() {
			if FoldsTo(string(k), "__entity") || FoldsTo(string(k), "__extn") || HasReservedKey(x) {
				return true
			}
		}
	}
	return false
}

// FoldsTo mirrors encoding/json's foldName equality for an ASCII field name.
func FoldsTo(key, field string) bool {
	f := func(s string) string {
		var sb strings.Builder
		for _, r := range s {
			switch {
			case 'a' <= r && r <= 'z':
				r -= 32
			case r == 0x17f:
				r = 'S'
			case r == 0x212a:
				r = 'K'
			}
			sb.WriteRune(r)
		}
		return sb.String()
	}
	return f(key) == f(field)
}

// WalkValues calls f on v and every value nested inside it.
func WalkValues(v types.Value, f func(types.Value)) {
	f(v)
	switch t := v.(type) {
	case types.Set:
		for x := range t.All() {
			WalkValues(x, f)
		}
	case types.Record:
		for _, x := range t.All() {
			WalkValues(x, f)
		}
	}
}

// EntityC13 generates an entity with arbitrary parents, attributes and tags.
func (g *Gen) EntityC13(uid types.EntityUID, depth int) types.Entity {
	var ps []types.EntityUID
	for i, n := 0, g.pick(4); i < n; i++ {
		ps = append(ps, g.UIDC13())
	}
	rec := func() types.Record {
		m := types.RecordMap{}
		for i, n := 0, g.pick(4); i < n; i++ {
			m[types.String(g.KeyC13())] = g.ValueC13(depth, false)
		}
		return types.NewRecord(m)
	}
	return types.Entity{UID: uid, Parents: types.NewEntityUIDSet(ps...), Attributes: rec(), Tags: rec()}
}

func (g *Gen) EntityMapC13(depth int) types.EntityMap {
	m := types.EntityMap{}
	for i, n := 0, g.pick(5); i < n; i++ {
		u := g.UIDC13()
		m[u] = g.EntityC13(u, depth)
	}
	return m
}

// ---- schema-directed generation (x/exp/types UnmarshalJSONWithSchema) ----

var schemaEntityTypes = []types.EntityType{"User", "Group", "Doc", "NS::Folder"}

// TypeC13 generates a resolved schema type.
func (g *Gen) TypeC13(depth int) resolved.IsType {
	k := g.pick(9)
	if depth <= 0 && k >= 7 {
		k = g.pick(7)
	}
	switch k {
	case 0:
		return resolved.StringType{}
	case 1:
		return resolved.LongType{}
	case 2:
		return resolved.BoolType{}
	case 3, 4:
		return resolved.EntityType(schemaEntityTypes[g.pick(len(schemaEntityTypes))])
	case 5, 6:
		return resolved.ExtensionType([]types.Ident{"ipaddr", "decimal", "datetime", "duration"}[g.pick(4)])
	case 7:
		return resolved.SetType{Element: g.TypeC13(depth - 1)}
	default:
		return g.RecordTypeC13(depth - 1)
	}
}

var schemaAttrNames = []types.String{"a", "b", "type", "id", "fn", "arg", "é", "k\"q", "x y"}

func (g *Gen) RecordTypeC13(depth int) resolved.RecordType {
	rt := resolved.RecordType{}
	for i, n := 0, g.pick(4); i < n; i++ {
		rt[schemaAttrNames[g.pick(len(schemaAttrNames))]] = resolved.Attribute{Type: g.TypeC13(depth), Optional: g.chance(0.3)}
	}
	return rt
}

// safeDatetimeDuration keeps extension values inside the range whose String() reparses (the
// extremes are separate known findings).
func (g *Gen) safeMillis() int64 {
	for {
		m := g.Millis()
		if m > math.MinInt64+86400000 && m < math.MaxInt64-86400000 {
			return m
		}
	}
}

// ValueOfTypeC13 generates a value conforming to a schema type.
func (g *Gen) ValueOfTypeC13(t resolved.IsType) types.Value {
	switch tt := t.(type) {
	case resolved.StringType:
		return types.String(g.UnicodeString())
	case resolved.LongType:
		return types.Long(g.Long())
	case resolved.BoolType:
		return types.Boolean(g.pick(2) == 0)
	case resolved.EntityType:
		return types.NewEntityUID(types.EntityType(tt), types.String(g.UnicodeString()))
	case resolved.ExtensionType:
		switch types.Ident(tt) {
		case "ipaddr":
			for {
				ip := g.IPC13()
				if !ip.Addr().Is4In6() {
					return ip
				}
			}
		case "decimal":
			return g.Value(TDecimal, 0)
		case "datetime":
			return types.NewDatetimeFromMillis(g.safeMillis())
		default:
			return types.NewDurationFromMillis(g.safeMillis())
		}
	case resolved.SetType:
		var vs []types.Value
		for i, n := 0, g.pick(4); i < n; i++ {
			vs = append(vs, g.ValueOfTypeC13(tt.Element))
		}
		return types.NewSet(vs...)
	case resolved.RecordType:
		m := types.RecordMap{}
		for name, attr := range tt {
			if attr.Optional && g.chance(0.4) {
				continue
			}
			m[name] = g.ValueOfTypeC13(attr.Type)
		}
		return types.NewRecord(m)
	}
	panic("ValueOfTypeC13: unknown type")
}

// ImplicitJSON encodes v using the implicit spellings its schema type allows: {"type","id"} for entity
// references, bare strings for extension values.  Built as a generic tree (never through the codec under test
// except for the leaf spellings String()).
func ImplicitJSON(v types.Value, t resolved.IsType) any {
	switch tt := t.(type) {
	case resolved.EntityType:
		u := v.(types.EntityUID)
		return map[string]any{"type": string(u.Type), "id": string(u.ID)}
	case resolved.ExtensionType:
		return v.(interface{ String() string }).String()
	case resolved.SetType:
		out := []any{}
		for x := range v.(types.Set).All() {
			out = append(out, ImplicitJSON(x, tt.Element))
		}
		return out
	case resolved.RecordType:
		out := map[string]any{}
		for k, x := range v.(types.Record).All() {
			out[string(k)] = ImplicitJSON(x, tt[k].Type)
		}
		return out
	case resolved.LongType:
		return json.Number(i64(int64(v.(types.Long))))
	case resolved.BoolType:
		return bool(v.(types.Boolean))
	default:
		return string(v.(types.String))
	}
}

// SchemaWorldC13 is a generated schema with a conforming entity map.
type SchemaWorldC13 struct {
	Schema   *resolved.Schema
	Entities types.EntityMap
	TagTypes map[types.EntityType]resolved.IsType
}

func (g *Gen) SchemaWorldC13() SchemaWorldC13 {
	s := &resolved.Schema{Namespaces: map[types.Path]resolved.Namespace{}, Entities: map[types.EntityType]resolved.Entity{},
		Enums: map[types.EntityType]resolved.Enum{}, Actions: map[types.EntityUID]resolved.Action{}}
	w := SchemaWorldC13{Schema: s, Entities: types.EntityMap{}, TagTypes: map[types.EntityType]resolved.IsType{}}
	for _, et := range schemaEntityTypes {
		e := resolved.Entity{Name: et, Shape: g.RecordTypeC13(2)}
		for _, pt := range schemaEntityTypes {
			if g.chance(0.5) {
				e.ParentTypes = append(e.ParentTypes, pt)
			}
		}
		if g.chance(0.6) {
			e.Tags = g.TypeC13(1)
			w.TagTypes[et] = e.Tags
		}
		s.Entities[et] = e
	}
	for i, n := 0, 1+g.pick(4); i < n; i++ {
		et := schemaEntityTypes[g.pick(len(schemaEntityTypes))]
		se := s.Entities[et]
		uid := types.NewEntityUID(et, types.String(g.UnicodeString()))
		var ps []types.EntityUID
		if len(se.ParentTypes) > 0 {
			for j, m := 0, g.pick(3); j < m; j++ {
				ps = append(ps, types.NewEntityUID(se.ParentTypes[g.pick(len(se.ParentTypes))], types.String(g.UnicodeString())))
			}
		}
		tags := types.RecordMap{}
		if se.Tags != nil {
			for j, m := 0, g.pick(3); j < m; j++ {
				tags[types.String(g.KeyC13())] = g.ValueOfTypeC13(se.Tags)
			}
		}
		w.Entities[uid] = types.Entity{UID: uid, Parents: types.NewEntityUIDSet(ps...),
			Attributes: g.ValueOfTypeC13(se.Shape).(types.Record), Tags: types.NewRecord(tags)}
	}
	return w
}

// ImplicitEntitiesJSON renders the world's entities with every implicit spelling the schema allows.
func (w SchemaWorldC13) ImplicitEntitiesJSON() any {
	out := []any{}
	for _, e := range w.Entities {
		se := w.Schema.Entities[e.UID.Type]
		ps := []any{}
		for p := range e.Parents.All() {
			ps = append(ps, map[string]any{"type": string(p.Type), "id": string(p.ID)})
		}
		tags := map[string]any{}
		for k, v := range e.Tags.All() {
			tags[string(k)] = ImplicitJSON(v, se.Tags)
		}
		out = append(out, map[string]any{
			"uid":     map[string]any{"type": string(e.UID.Type), "id": string(e.UID.ID)},
			"parents": ps, "attrs": ImplicitJSON(e.Attributes, se.Shape), "tags": tags,
		})
	}
	return out
}

// ---- C09 policy generator ----

var annKeysC09 = []types.Ident{"id", "advice", "a", "b", "permit", "if", "__x"}

// PolicyC09 generates a policy over all node kinds: vh.Gen.Policy plus Unicode strings / attributes /
// annotation values, extension-typed literal values, literal set and record VALUES, rare duplicate record keys.
func (g *Gen) PolicyC09(depth int) *ast.Policy {
	p := g.Policy(depth)
	p.Annotations = nil
	seen := map[types.Ident]bool{}
	for i, n := 0, g.pick(4); i < n; i++ {
		k := annKeysC09[g.pick(len(annKeysC09))]
		if seen[k] && !g.chance(0.1) {
			continue
		}
		seen[k] = true
		p.Annotations = append(p.Annotations, ast.AnnotationType{Key: k, Value: types.String(g.UnicodeString())})
	}
	for i := range p.Conditions {
		p.Conditions[i].Body = g.decorateC09(p.Conditions[i].Body, 3)
	}
	if g.chance(0.3) {
		p.Conditions = append(p.Conditions, ast.ConditionType{Condition: ast.Condition(g.chance(0.7)), Body: g.extraC09(1 + g.pick(3))})
	}
	return p
}

// extraC09 produces node shapes the typed generator rarely reaches.
func (g *Gen) extraC09(depth int) ast.IsNode {
	leaf := func() ast.IsNode { return ast.NodeValue{Value: g.ValueC13(2, g.chance(0.05))} }
	if depth <= 0 {
		return leaf()
	}
	d := depth - 1
	switch g.pick(9) {
	case 0:
		return ast.NodeTypeAccess{StrOpNode: ast.StrOpNode{Arg: g.extraC09(d), Value: types.String(g.KeyC13())}}
	case 1:
		return ast.NodeTypeHas{StrOpNode: ast.StrOpNode{Arg: g.extraC09(d), Value: types.String(g.KeyC13())}}
	case 2:
		var comps []any
		for i, n := 0, 1+g.pick(4); i < n; i++ {
			if g.chance(0.4) {
				comps = append(comps, types.Wildcard{})
			} else {
				comps = append(comps, types.String(g.UnicodeString()))
			}
		}
		return ast.NodeTypeLike{Arg: g.extraC09(d), Value: types.NewPattern(comps...)}
	case 3:
		var es []ast.RecordElementNode
		seen := map[string]bool{}
		for i, n := 0, g.pick(4); i < n; i++ {
			k := g.KeyC13()
			if g.chance(0.15) {
				k = ReservedKeys[g.pick(len(ReservedKeys))] // reserved keys in a Record LITERAL are unambiguous
			}
			if seen[k] && !g.chance(0.2) {
				continue
			}
			seen[k] = true
			es = append(es, ast.RecordElementNode{Key: types.String(k), Value: g.extraC09(d)})
		}
		return ast.NodeTypeRecord{Elements: es}
	case 4:
		var es []ast.IsNode
		for i, n := 0, g.pick(4); i < n; i++ {
			es = append(es, g.extraC09(d))
		}
		return ast.NodeTypeSet{Elements: es}
	case 5:
		names := []string{"decimal", "ip", "datetime", "duration", "offset", "durationSince", "toDate", "toTime", "isInRange", "lessThan", "isIpv4", "toDays"}
		var args []ast.IsNode
		for i, n := 0, g.pick(3); i < n; i++ {
			args = append(args, g.extraC09(d))
		}
		return ast.NodeTypeExtensionCall{Name: types.Path(names[g.pick(len(names))]), Args: args}
	case 6:
		return ast.NodeTypeIsIn{NodeTypeIs: ast.NodeTypeIs{Left: g.extraC09(d), EntityType: c13Types[g.pick(len(c13Types))]}, Entity: g.extraC09(d)}
	case 7:
		return ast.NodeTypeNegate{UnaryNode: ast.UnaryNode{Arg: g.extraC09(d)}}
	default:
		return g.Expr(TBool, depth)
	}
}

// decorateC09 occasionally replaces a whole condition by a tree of the untyped shapes.
func (g *Gen) decorateC09(n ast.IsNode, depth int) ast.IsNode {
	if g.chance(0.05) && depth > 0 {
		return g.extraC09(depth - 1)
	}
	return n
}
