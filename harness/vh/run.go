package vh

import (
	"bufio"
	"bytes"
	"crypto/sha256"
	"encoding/hex"
	"encoding/json"
	"fmt"
	"hash/fnv"
	"math/rand"
	"os"
	"os/exec"
	"path/filepath"
	"sort"
	"strconv"
	"strings"
	"time"
)

// Ctx carries the configuration of one check run.
type Ctx struct {
	Prop      string
	Tier      string // quick | thorough
	Seed      int64
	Driver    string // path of the Lean driver executable
	VerifDir  string
	ReplayDir string
	Rng       *rand.Rand
	Replay    string // replay file (optional)
	OutPath   string // result file
	Start     time.Time

	Known []KnownFinding
	Res   *Result
}

func (c *Ctx) Thorough() bool { return c.Tier == "thorough" }

// N picks a case count by tier.
func (c *Ctx) N(quick, thorough int) int {
	if c.Thorough() {
		return thorough
	}
	return quick
}

// KnownFinding is one entry of /verif/known_findings.json.
type KnownFinding struct {
	Property string `json:"property"`
	Class    string `json:"class"`
	Status   string `json:"status"` // finding | fixed
	What     string `json:"what"`
	Commit   string `json:"commit,omitempty"`
	Input    any    `json:"input,omitempty"`
}

// Finding is a property failure observed on the implementation.
type Finding struct {
	Class    string `json:"class"`  // narrow classifier computed next to the oracle
	What     string `json:"what"`   // one line
	Check    string `json:"check"`  // correspondence | oracle | proof
	Op       string `json:"op"`
	Input    any    `json:"input"`
	Expected any    `json:"expected,omitempty"`
	Actual   any    `json:"actual,omitempty"`
	NoInput  bool   `json:"no_failing_input_found,omitempty"`
}

// Result is what vh reports to the check script.
type Result struct {
	Property      string         `json:"property"`
	Evaluations   int            `json:"evaluations"`
	Distinct      int            `json:"distinct_nontrivial"`
	Rule          string         `json:"rule"`
	Samples       []any          `json:"samples"`
	Distribution  map[string]int `json:"distribution"`
	Corresponded  int            `json:"traces_validated_against_impl"` // lines compared model vs impl
	Skipped       int            `json:"model_skipped"`                 // lines the model declined (unmodelled input)
	OracleChecks  int            `json:"oracle_checks"`
	WhiteboxDrift int            `json:"whitebox_drift"`
	Violations    []string       `json:"violations"` // VIOLATION lines
	KnownHits     []string       `json:"known_hits"` // KNOWN-FINDING lines
	Exhaustive    bool           `json:"exhaustive,omitempty"`
	Notes         []string       `json:"notes,omitempty"`
	distinct      map[string]bool
	knownSeen     map[string]int
	violSeen      map[string]bool
}

func NewCtx(prop, tier string, seed int64, driver, verifDir string) *Ctx {
	c := &Ctx{Prop: prop, Tier: tier, Seed: seed, Driver: driver, VerifDir: verifDir,
		ReplayDir: filepath.Join(verifDir, "replays"), Rng: rand.New(rand.NewSource(seed)), Start: time.Now()}
	c.Res = &Result{Property: prop, Distribution: map[string]int{}, distinct: map[string]bool{},
		knownSeen: map[string]int{}, violSeen: map[string]bool{}, Violations: []string{}, KnownHits: []string{}, Samples: []any{}}
	b, err := os.ReadFile(filepath.Join(verifDir, "known_findings.json"))
	if err == nil {
		_ = json.Unmarshal(b, &c.Known)
	}
	return c
}

// Count records one explored case; key identifies distinct cases; nontrivial by the caller's rule.
func (c *Ctx) Count(key string, nontrivial bool) {
	c.Res.Evaluations++
	if nontrivial && !c.Res.distinct[key] {
		if len(c.Res.distinct) < 5_000_000 {
			c.Res.distinct[key] = true
		}
		c.Res.Distinct++
	}
}

func (c *Ctx) Dist(k string) { c.Res.Distribution[k]++ }

func (c *Ctx) Sample(s any) {
	if len(c.Res.Samples) < 8 {
		c.Res.Samples = append(c.Res.Samples, s)
	}
}

// Report handles a property failure: known finding → KNOWN-FINDING line, otherwise VIOLATION + replay.
func (c *Ctx) Report(f Finding) {
	for _, k := range c.Known {
		if k.Property == c.Prop && k.Class == f.Class && k.Status == "finding" {
			c.Res.knownSeen[f.Class]++
			if c.Res.knownSeen[f.Class] == 1 {
				c.Res.KnownHits = append(c.Res.KnownHits, fmt.Sprintf("KNOWN-FINDING: property=%s %s [%s] e.g. %s", c.Prop, k.What, f.Class, oneLine(f.What)))
			}
			return
		}
	}
	if c.Res.violSeen[f.Class] && len(c.Res.Violations) >= 3 {
		return // one replay per class is enough; keep at most a few
	}
	c.Res.violSeen[f.Class] = true
	_ = os.MkdirAll(c.ReplayDir, 0o755)
	body := map[string]any{
		"property": c.Prop, "seed": c.Seed, "tier": c.Tier, "finding": f,
		"cmd": fmt.Sprintf("./check %s --replay <this file>", c.Prop),
	}
	b, _ := json.MarshalIndent(body, "", " ")
	h := sha256.Sum256(b)
	path := filepath.Join(c.ReplayDir, fmt.Sprintf("%s-%s-%s.json", c.Prop, sanitize(f.Class), hex.EncodeToString(h[:4])))
	_ = os.WriteFile(path, b, 0o644)
	line := fmt.Sprintf("VIOLATION property=%s replay=%s", c.Prop, path)
	if f.NoInput {
		line += " no-failing-input-found"
	}
	c.Res.Violations = append(c.Res.Violations, line)
	fmt.Fprintf(os.Stderr, "violation [%s]: %s\n", f.Class, oneLine(f.What))
}

func sanitize(s string) string {
	return strings.Map(func(r rune) rune {
		if r >= 'a' && r <= 'z' || r >= 'A' && r <= 'Z' || r >= '0' && r <= '9' || r == '-' {
			return r
		}
		return '_'
	}, s)
}

func oneLine(s string) string {
	s = strings.ReplaceAll(s, "\n", " ")
	if len(s) > 300 {
		s = s[:300] + "…"
	}
	return s
}

// ---- correspondence with the Lean driver ----

// Line is one protocol line with the implementation's canonical output.
type Line struct {
	Op      string
	raw     []byte // marshalled payload (without id/op)
	Impl    string // canonical output of the Go implementation; "" = do not compare (model output only)
	Tag     string // free-form label for distributions / classification
}

type Batch struct {
	lines []Line
	envs  map[string]bool
}

// EnvRef makes sure env is defined in the driver (one `defenv` line) and returns its reference name.
func (b *Batch) EnvRef(e EnvEnc) string {
	if b.envs == nil {
		b.envs = map[string]bool{}
	}
	if !b.envs[e.Name] {
		b.envs[e.Name] = true
		b.Add("defenv", map[string]any{"name": e.Name, "env": e.Raw}, "defined", "")
	}
	return e.Name
}

func (b *Batch) Add(op string, payload map[string]any, impl string, tag string) int {
	raw, err := json.Marshal(payload)
	if err != nil {
		panic(err)
	}
	b.lines = append(b.lines, Line{Op: op, Impl: impl, Tag: tag, raw: raw})
	return len(b.lines) - 1
}

// Payload decodes the stored payload of a line (for reports).
func (l Line) Payload() map[string]any {
	var m map[string]any
	_ = json.Unmarshal(l.raw, &m)
	return m
}

// Line returns line i.
func (b *Batch) Line(i int) Line { return b.lines[i] }

// Key returns a short hash identifying the encoded input of line i (for distinct counting).
func (b *Batch) Key(i int) string {
	h := fnv.New64a()
	h.Write([]byte(b.lines[i].Op))
	h.Write(b.lines[i].raw)
	return string(h.Sum(nil))
}

func (b *Batch) Len() int { return len(b.lines) }

// Disagreement is a correspondence failure (model vs implementation).
type Disagreement struct {
	Index int
	Line  Line
	Model string
}

// RunDriver pipes the batch through the Lean driver and returns model outputs by index.
func (c *Ctx) RunDriver(b *Batch) ([]string, error) {
	t0 := time.Now()
	defer func() {
		c.Res.Notes = append(c.Res.Notes, fmt.Sprintf("driver: %d lines, %.1fs", len(b.lines), time.Since(t0).Seconds()))
	}()
	cmd := exec.Command(c.Driver)
	stdin, err := cmd.StdinPipe()
	if err != nil {
		return nil, err
	}
	stdout, err := cmd.StdoutPipe()
	if err != nil {
		return nil, err
	}
	var errb bytes.Buffer
	cmd.Stderr = &errb
	if err := cmd.Start(); err != nil {
		return nil, err
	}
	go func() {
		w := bufio.NewWriterSize(stdin, 1<<20)
		for i, l := range b.lines {
			fmt.Fprintf(w, `{"id":%d,"op":%q,`, i, l.Op)
			if len(l.raw) <= 2 {
				w.WriteString(`"_":0}`)
			} else {
				w.Write(l.raw[1:])
			}
			w.WriteByte('\n')
		}
		w.Flush()
		stdin.Close()
	}()
	res := make([]string, len(b.lines))
	sc := bufio.NewScanner(stdout)
	sc.Buffer(make([]byte, 1<<20), 1<<28)
	n := 0
	for sc.Scan() {
		t := sc.Text()
		tab := strings.IndexByte(t, '\t')
		if tab < 0 {
			continue
		}
		idx, err := strconv.Atoi(t[:tab])
		if err != nil || idx < 0 || idx >= len(res) {
			continue
		}
		res[idx] = t[tab+1:]
		n++
	}
	if err := cmd.Wait(); err != nil {
		return res, fmt.Errorf("driver failed: %v: %s", err, errb.String())
	}
	if n != len(b.lines) {
		return res, fmt.Errorf("driver returned %d lines for %d inputs", n, len(b.lines))
	}
	return res, nil
}

// Correspond runs the batch and returns the disagreements; model "skip …" lines are counted, not compared.
func (c *Ctx) Correspond(b *Batch) ([]Disagreement, []string, error) {
	model, err := c.RunDriver(b)
	if err != nil {
		return nil, model, err
	}
	var ds []Disagreement
	for i, l := range b.lines {
		if strings.HasPrefix(model[i], "skip ") {
			c.Res.Skipped++
			c.Dist("model-skip:" + firstWord(model[i][5:]))
			continue
		}
		if l.Impl == "" {
			continue
		}
		c.Res.Corresponded++
		if model[i] != l.Impl {
			ds = append(ds, Disagreement{Index: i, Line: l, Model: model[i]})
		}
	}
	return ds, model, nil
}

func firstWord(s string) string {
	if i := strings.IndexByte(s, ' '); i >= 0 {
		return s[:i]
	}
	return s
}

// WriteResult writes the result JSON for the check script.
func (c *Ctx) WriteResult(path string) error {
	r := c.Res
	keys := make([]string, 0, len(r.Distribution))
	for k := range r.Distribution {
		keys = append(keys, k)
	}
	sort.Strings(keys)
	b, err := json.MarshalIndent(r, "", " ")
	if err != nil {
		return err
	}
	return os.WriteFile(path, b, 0o644)
}

// Protect runs f, converting a panic into an error string.
func Protect(f func()) (panicked any) {
	defer func() {
		if r := recover(); r != nil {
			panicked = r
		}
	}()
	f()
	return nil
}

// WithTimeout runs f in a goroutine; false = f did not finish within d (the goroutine keeps spinning:
// the caller should Report and then call FlushAndExit).
func WithTimeout(d time.Duration, f func()) bool {
	done := make(chan struct{})
	go func() {
		defer close(done)
		f()
	}()
	select {
	case <-done:
		return true
	case <-time.After(d):
		return false
	}
}

// FlushAndExit prints the report lines, writes the result file and exits (used after a hang is detected).
func (c *Ctx) FlushAndExit() {
	for _, l := range c.Res.KnownHits {
		fmt.Println(l)
	}
	for _, l := range c.Res.Violations {
		fmt.Println(l)
	}
	if c.OutPath != "" {
		_ = c.WriteResult(c.OutPath)
	}
	if len(c.Res.Violations) > 0 {
		os.Exit(1)
	}
	os.Exit(0)
}

// IsKnown reports whether class is a recorded finding of this property (lets oracles skip building
// large replay inputs for the 2nd..nth hit of a known class; Report must still be called).
func (c *Ctx) IsKnown(class string) bool {
	for _, k := range c.Known {
		if k.Property == c.Prop && k.Class == class && k.Status == "finding" {
			return true
		}
	}
	return false
}

// KnownSeen returns how many times a known class has been reported so far.
func (c *Ctx) KnownSeen(class string) int { return c.Res.knownSeen[class] }
