package vh

// Generators for C16/C17: schema ASTs over a bounded name universe (exhaustive small graphs), hand-written
// special cases (undefined references, shadowing, namespaces, resolution order) and random schemas.

import (
	"fmt"
	"math/rand"

	"github.com/cedar-policy/cedar-go/types"
	sast "github.com/cedar-policy/cedar-go/x/exp/schema/ast"
)

// SchemaCase is one generated schema with a label for distributions/classification.
type SchemaCase struct {
	Tag string
	S   *sast.Schema
}

func adjOf(n, g int) [][]bool {
	adj := make([][]bool, n)
	for i := range adj {
		adj[i] = make([]bool, n)
		for j := range adj[i] {
			adj[i][j] = g&(1<<(i*n+j)) != 0
		}
	}
	return adj
}

var entNames = []types.Ident{"A", "B", "C"}

func refsOf[T ~string](names []types.Ident, prefix string) []T {
	var out []T
	for _, n := range names {
		out = append(out, T(prefix+string(n)))
	}
	return out
}

// EntityGraphSchemas: ALL memberOf graphs on 1..maxN entity type names (self loops and cycles included),
// bare and inside a namespace (unqualified references), with one action applying to every type.
func EntityGraphSchemas(maxN int, namespaced bool) []SchemaCase {
	var out []SchemaCase
	for n := 1; n <= maxN; n++ {
		for g := 0; g < 1<<(n*n); g++ {
			adj := adjOf(n, g)
			ents := sast.Entities{}
			for i := 0; i < n; i++ {
				e := sast.Entity{}
				for j := 0; j < n; j++ {
					if adj[i][j] {
						e.ParentTypes = append(e.ParentTypes, sast.EntityTypeRef(entNames[j]))
					}
				}
				ents[entNames[i]] = e
			}
			all := refsOf[sast.EntityTypeRef](entNames[:n], "")
			acts := sast.Actions{"view": sast.Action{AppliesTo: &sast.AppliesTo{Principals: all, Resources: all}}}
			tag := fmt.Sprintf("entgraph-n%d-g%d", n, g)
			if namespaced {
				out = append(out, SchemaCase{tag + "-ns", &sast.Schema{Namespaces: sast.Namespaces{"NS": {Entities: ents, Actions: acts}}}})
			} else {
				out = append(out, SchemaCase{tag, &sast.Schema{Entities: ents, Actions: acts}})
			}
		}
	}
	return out
}

var ctNames = []types.Ident{"T0", "T1", "T2"}

// CommonTypeGraphSchemas: ALL reference graphs on 1..maxN common-type names. The body of Ti refers to Tj for
// every edge i->j: no edge = Long (T0: a record so that it can serve as a context), one edge = bare ref / Set / record
// by variant, several = record. An entity and an action context force resolution. style: 0 bare, 1 namespaced with
// unqualified refs, 2 namespaced with qualified refs.
func CommonTypeGraphSchemas(maxN int, style int) []SchemaCase {
	var out []SchemaCase
	for n := 1; n <= maxN; n++ {
		for g := 0; g < 1<<(n*n); g++ {
			adj := adjOf(n, g)
			cts := sast.CommonTypes{}
			ref := func(j int) sast.IsType {
				if style == 2 {
					return sast.TypeRef("NS::" + string(ctNames[j]))
				}
				return sast.TypeRef(ctNames[j])
			}
			for i := 0; i < n; i++ {
				var js []int
				for j := 0; j < n; j++ {
					if adj[i][j] {
						js = append(js, j)
					}
				}
				var body sast.IsType
				switch {
				case len(js) == 0 && i == 0:
					body = sast.RecordType{"k": sast.Attribute{Type: sast.LongType{}}}
				case len(js) == 0:
					body = sast.LongType{}
				case len(js) == 1 && (g+i)%3 == 0:
					body = ref(js[0])
				case len(js) == 1 && (g+i)%3 == 1:
					body = sast.SetType{Element: ref(js[0])}
				default:
					r := sast.RecordType{}
					for _, j := range js {
						r[types.String(fmt.Sprintf("f%d", j))] = sast.Attribute{Type: ref(j), Optional: j == 1}
					}
					if len(js) >= 2 && g%2 == 0 { // same type referenced twice (duplicate edge)
						r["dup"] = sast.Attribute{Type: sast.SetType{Element: ref(js[0])}}
					}
					body = r
				}
				cts[ctNames[i]] = sast.CommonType{Type: body}
			}
			shape := sast.RecordType{"x": sast.Attribute{Type: ref(0)}}
			if n > 1 {
				shape["y"] = sast.Attribute{Type: ref(1), Optional: true}
			}
			ent := sast.Entity{Shape: shape}
			if n > 2 {
				ent.Tags = ref(2)
			}
			ents := sast.Entities{"E": ent}
			acts := sast.Actions{"view": sast.Action{AppliesTo: &sast.AppliesTo{Principals: []sast.EntityTypeRef{"E"}, Resources: []sast.EntityTypeRef{"E"}, Context: ref(0)}}}
			tag := fmt.Sprintf("ctgraph-n%d-g%d-s%d", n, g, style)
			if style == 0 {
				out = append(out, SchemaCase{tag, &sast.Schema{Entities: ents, Actions: acts, CommonTypes: cts}})
			} else {
				out = append(out, SchemaCase{tag, &sast.Schema{Namespaces: sast.Namespaces{"NS": {Entities: ents, Actions: acts, CommonTypes: cts}}}})
			}
		}
	}
	return out
}

var actNames = []types.String{"a0", "a1", "a2"}

// ActionGraphSchemas: ALL parent graphs on 1..maxN actions. style: 0 bare + unqualified parents, 1 bare + `Action::"x"`,
// 2 namespaced + unqualified, 3 namespaced + `NS::Action::"x"`, 4 namespaced + `Action::"x"` (refers to the EMPTY namespace).
func ActionGraphSchemas(maxN int, style int) []SchemaCase {
	var out []SchemaCase
	for n := 1; n <= maxN; n++ {
		for g := 0; g < 1<<(n*n); g++ {
			adj := adjOf(n, g)
			acts := sast.Actions{}
			for i := 0; i < n; i++ {
				a := sast.Action{}
				for j := 0; j < n; j++ {
					if !adj[i][j] {
						continue
					}
					switch style {
					case 0, 2:
						a.Parents = append(a.Parents, sast.ParentRefFromID(actNames[j]))
					case 1, 4:
						a.Parents = append(a.Parents, sast.NewParentRef("Action", actNames[j]))
					case 3:
						a.Parents = append(a.Parents, sast.NewParentRef("NS::Action", actNames[j]))
					}
				}
				if i == 0 || (g+i)%2 == 0 {
					a.AppliesTo = &sast.AppliesTo{Principals: []sast.EntityTypeRef{"U"}, Resources: []sast.EntityTypeRef{"U", "D"}}
				}
				acts[actNames[i]] = a
			}
			ents := sast.Entities{"U": {}, "D": {ParentTypes: []sast.EntityTypeRef{"U"}}}
			tag := fmt.Sprintf("actgraph-n%d-g%d-s%d", n, g, style)
			if style <= 1 {
				out = append(out, SchemaCase{tag, &sast.Schema{Entities: ents, Actions: acts}})
			} else {
				out = append(out, SchemaCase{tag, &sast.Schema{Namespaces: sast.Namespaces{"NS": {Entities: ents, Actions: acts}}}})
			}
		}
	}
	return out
}

func rec(kv ...any) sast.RecordType {
	r := sast.RecordType{}
	for i := 0; i+1 < len(kv); i += 2 {
		switch t := kv[i+1].(type) {
		case sast.Attribute:
			r[types.String(kv[i].(string))] = t
		case sast.IsType:
			r[types.String(kv[i].(string))] = sast.Attribute{Type: t}
		}
	}
	return r
}

func applies(p, r string, ctx sast.IsType) *sast.AppliesTo {
	return &sast.AppliesTo{Principals: []sast.EntityTypeRef{sast.EntityTypeRef(p)}, Resources: []sast.EntityTypeRef{sast.EntityTypeRef(r)}, Context: ctx}
}

// SpecialSchemas: undefined references, shadowing (RFC 70), resolution order, duplicate declarations,
// names like primitives, `__cedar::` prefixes, non-record contexts, nested namespaces, deep nesting.
func SpecialSchemas() []SchemaCase {
	T := func(s string) sast.IsType { return sast.TypeRef(s) }
	E := func(s string) sast.IsType { return sast.EntityTypeRef(s) }
	var out []SchemaCase
	add := func(tag string, s *sast.Schema) { out = append(out, SchemaCase{"special-" + tag, s}) }
	add("empty", &sast.Schema{})
	add("undef-parent", &sast.Schema{Entities: sast.Entities{"A": {ParentTypes: []sast.EntityTypeRef{"Nope"}}}})
	add("undef-attr-type", &sast.Schema{Entities: sast.Entities{"A": {Shape: rec("x", T("Nope"))}}})
	add("undef-entity-ref", &sast.Schema{Entities: sast.Entities{"A": {Shape: rec("x", E("Nope"))}}})
	add("undef-tags", &sast.Schema{Entities: sast.Entities{"A": {Tags: T("Nope")}}})
	add("undef-set-elem", &sast.Schema{Entities: sast.Entities{"A": {Shape: rec("x", sast.SetType{Element: T("Nope")})}}})
	add("undef-qualified", &sast.Schema{Entities: sast.Entities{"A": {Shape: rec("x", T("NS::Nope"))}}})
	add("undef-qualified-entity-parent", &sast.Schema{Entities: sast.Entities{"A": {ParentTypes: []sast.EntityTypeRef{"NS::Nope"}}}})
	add("undef-action-parent", &sast.Schema{Actions: sast.Actions{"a": {Parents: []sast.ParentRef{sast.ParentRefFromID("nope")}}}})
	add("action-parent-nonaction-type", &sast.Schema{Entities: sast.Entities{"A": {}}, Actions: sast.Actions{"a": {Parents: []sast.ParentRef{sast.NewParentRef("A", "x")}}}})
	add("undef-principal", &sast.Schema{Entities: sast.Entities{"A": {}}, Actions: sast.Actions{"a": {AppliesTo: applies("Nope", "A", nil)}}})
	add("undef-resource", &sast.Schema{Entities: sast.Entities{"A": {}}, Actions: sast.Actions{"a": {AppliesTo: applies("A", "Nope", nil)}}})
	add("context-long", &sast.Schema{Entities: sast.Entities{"A": {}}, Actions: sast.Actions{"a": {AppliesTo: applies("A", "A", sast.LongType{})}}})
	add("context-set", &sast.Schema{Entities: sast.Entities{"A": {}}, Actions: sast.Actions{"a": {AppliesTo: applies("A", "A", sast.SetType{Element: sast.LongType{}})}}})
	add("context-entity", &sast.Schema{Entities: sast.Entities{"A": {}}, Actions: sast.Actions{"a": {AppliesTo: applies("A", "A", T("A"))}}})
	add("context-common-record", &sast.Schema{Entities: sast.Entities{"A": {}}, CommonTypes: sast.CommonTypes{"Ctx": {Type: rec("n", sast.LongType{})}}, Actions: sast.Actions{"a": {AppliesTo: applies("A", "A", T("Ctx"))}}})
	add("context-common-nonrecord", &sast.Schema{Entities: sast.Entities{"A": {}}, CommonTypes: sast.CommonTypes{"Ctx": {Type: sast.StringType{}}}, Actions: sast.Actions{"a": {AppliesTo: applies("A", "A", T("Ctx"))}}})
	add("applies-nil", &sast.Schema{Entities: sast.Entities{"A": {}}, Actions: sast.Actions{"a": {}}})
	// RFC 70 shadowing
	add("shadow-entity-entity", &sast.Schema{Entities: sast.Entities{"X": {}}, Namespaces: sast.Namespaces{"NS": {Entities: sast.Entities{"X": {}}}}})
	add("shadow-common-common", &sast.Schema{CommonTypes: sast.CommonTypes{"X": {Type: sast.LongType{}}}, Namespaces: sast.Namespaces{"NS": {CommonTypes: sast.CommonTypes{"X": {Type: sast.LongType{}}}}}})
	add("shadow-entity-common", &sast.Schema{Entities: sast.Entities{"X": {}}, Namespaces: sast.Namespaces{"NS": {CommonTypes: sast.CommonTypes{"X": {Type: sast.LongType{}}}}}})
	add("shadow-enum-entity", &sast.Schema{Enums: sast.Enums{"X": {Values: []types.String{"a"}}}, Namespaces: sast.Namespaces{"NS": {Entities: sast.Entities{"X": {}}}}})
	add("shadow-entity-enum", &sast.Schema{Entities: sast.Entities{"X": {}}, Namespaces: sast.Namespaces{"NS": {Enums: sast.Enums{"X": {Values: []types.String{"a"}}}}}})
	add("shadow-action", &sast.Schema{Actions: sast.Actions{"a": {}}, Namespaces: sast.Namespaces{"NS": {Actions: sast.Actions{"a": {}}}}})
	add("no-shadow-two-ns", &sast.Schema{Namespaces: sast.Namespaces{"N1": {Entities: sast.Entities{"X": {}}}, "N2": {Entities: sast.Entities{"X": {ParentTypes: []sast.EntityTypeRef{"N1::X"}}}}}})
	add("dup-entity-enum", &sast.Schema{Entities: sast.Entities{"X": {}}, Enums: sast.Enums{"X": {Values: []types.String{"a"}}}})
	add("entity-and-common-same-name", &sast.Schema{Entities: sast.Entities{"X": {}, "Y": {Shape: rec("a", T("X"), "b", E("X"))}}, CommonTypes: sast.CommonTypes{"X": {Type: sast.LongType{}}}})
	// resolution order
	add("order-ns-common-over-bare", &sast.Schema{CommonTypes: sast.CommonTypes{"T": {Type: sast.LongType{}}, "U": {Type: sast.StringType{}}},
		Namespaces: sast.Namespaces{"NS": {CommonTypes: sast.CommonTypes{"V": {Type: T("U")}}, Entities: sast.Entities{"E": {Shape: rec("a", T("T"), "b", T("V"), "c", T("NS::V"))}}}}})
	add("order-ns-entity-then-bare-common", &sast.Schema{CommonTypes: sast.CommonTypes{"U": {Type: sast.StringType{}}},
		Namespaces: sast.Namespaces{"NS": {Entities: sast.Entities{"E": {Shape: rec("a", T("U"), "b", T("E"), "c", E("E"))}, "F": {ParentTypes: []sast.EntityTypeRef{"E", "NS::E"}}}}}})
	add("bare-refs-ns-entity", &sast.Schema{Entities: sast.Entities{"A": {Shape: rec("x", T("NS::B"), "y", E("NS::B")), ParentTypes: []sast.EntityTypeRef{"NS::B"}}}, Namespaces: sast.Namespaces{"NS": {Entities: sast.Entities{"B": {}}}}})
	add("ns-refs-bare-entity", &sast.Schema{Entities: sast.Entities{"A": {}}, Namespaces: sast.Namespaces{"NS": {Entities: sast.Entities{"B": {ParentTypes: []sast.EntityTypeRef{"A"}, Shape: rec("x", T("A"), "y", E("A"))}}}}})
	add("nested-namespace", &sast.Schema{Namespaces: sast.Namespaces{"A::B": {Entities: sast.Entities{"C": {ParentTypes: []sast.EntityTypeRef{"C"}}}, CommonTypes: sast.CommonTypes{"T": {Type: T("C")}}}, "A": {Entities: sast.Entities{"D": {Shape: rec("x", T("A::B::T"), "y", T("A::B::C"))}}}}})
	add("cross-ns-cycle", &sast.Schema{CommonTypes: sast.CommonTypes{"T": {Type: T("NS::T")}}, Namespaces: sast.Namespaces{"NS": {CommonTypes: sast.CommonTypes{"U": {Type: T("T")}, "T": {Type: T("U")}}}}})
	add("cross-ns-no-cycle", &sast.Schema{CommonTypes: sast.CommonTypes{"T": {Type: T("NS::U")}}, Namespaces: sast.Namespaces{"NS": {CommonTypes: sast.CommonTypes{"U": {Type: sast.LongType{}}, "W": {Type: T("T")}}, Entities: sast.Entities{"E": {Shape: rec("a", T("W"))}}}}})
	// unvalidated names (the JSON parser accepts any string): a common type whose name starts with ':' makes
	// extractNamespace("A:::b") = "A:" differ from the namespace "A" the resolver actually uses, so the cycle
	// A::c -> A:::b -> A::c is invisible to the Kahn pass
	add("colon-name-cycle", &sast.Schema{Namespaces: sast.Namespaces{"A": {CommonTypes: sast.CommonTypes{":b": {Type: T("c")}, "c": {Type: T(":b")}}, Entities: sast.Entities{"E": {Shape: rec("x", T("c"))}}}}})
	add("colon-name-no-cycle", &sast.Schema{Namespaces: sast.Namespaces{"A": {CommonTypes: sast.CommonTypes{":b": {Type: sast.LongType{}}, "c": {Type: T(":b")}}, Entities: sast.Entities{"E": {Shape: rec("x", T("c"))}}}}})
	add("colon-namespace", &sast.Schema{Namespaces: sast.Namespaces{"A:": {CommonTypes: sast.CommonTypes{"b": {Type: T("c")}, "c": {Type: sast.LongType{}}}, Entities: sast.Entities{"E": {Shape: rec("x", T("b"))}}}}})
	add("ns-self-cycle-qualified", &sast.Schema{Namespaces: sast.Namespaces{"NS": {CommonTypes: sast.CommonTypes{"T": {Type: sast.SetType{Element: T("NS::T")}}}}}})
	// names like primitives / extensions
	add("entity-named-Long", &sast.Schema{Entities: sast.Entities{"Long": {}, "X": {Shape: rec("a", sast.LongType{}, "b", T("Long"))}}})
	add("entity-named-String-ns", &sast.Schema{Namespaces: sast.Namespaces{"NS": {Entities: sast.Entities{"String": {}, "X": {Shape: rec("a", sast.StringType{}, "b", T("String"))}}}}})
	add("entity-named-ipaddr", &sast.Schema{Entities: sast.Entities{"ipaddr": {}, "X": {Shape: rec("a", sast.ExtensionType("ipaddr"), "b", T("ipaddr"))}}})
	add("enum-named-Bool", &sast.Schema{Enums: sast.Enums{"Bool": {Values: []types.String{"t", "f"}}}, Entities: sast.Entities{"X": {Shape: rec("a", sast.BoolType{}, "b", T("Bool"), "c", T("Boolean"))}}})
	add("common-named-Long", &sast.Schema{CommonTypes: sast.CommonTypes{"Long": {Type: sast.StringType{}}}, Entities: sast.Entities{"X": {Shape: rec("a", sast.LongType{}, "b", T("Long"))}}})
	add("cedar-prefix", &sast.Schema{Entities: sast.Entities{"Long": {}, "X": {Shape: rec("a", T("__cedar::Long"), "b", T("__cedar::ipaddr"), "c", T("__cedar::Bool"))}}})
	add("cedar-prefix-undefined", &sast.Schema{Entities: sast.Entities{"X": {Shape: rec("a", T("__cedar::Nope"))}}})
	add("cedar-namespace-common", &sast.Schema{Namespaces: sast.Namespaces{"__cedar": {CommonTypes: sast.CommonTypes{"Long": {Type: T("__cedar::Long")}}}}, Entities: sast.Entities{"X": {Shape: rec("a", T("__cedar::Long"))}}})
	add("builtins-all", &sast.Schema{Entities: sast.Entities{"X": {Shape: rec("a", T("String"), "b", T("Long"), "c", T("Bool"), "d", T("Boolean"), "e", T("ipaddr"), "f", T("decimal"), "g", T("datetime"), "h", T("duration")), Tags: sast.SetType{Element: T("String")}}}})
	add("entity-named-Set", &sast.Schema{Entities: sast.Entities{"Set": {}, "X": {Shape: rec("a", E("Set"), "b", T("Set"), "c", sast.SetType{Element: T("Set")}, "d", T("Set::T"))}},
		Namespaces: sast.Namespaces{"Set": {Entities: sast.Entities{"T": {}}}}})
	add("unknown-extension", &sast.Schema{Entities: sast.Entities{"X": {Shape: rec("a", sast.ExtensionType("nope"))}}})
	// enums
	add("enum-basic", &sast.Schema{Enums: sast.Enums{"Color": {Values: []types.String{"red", "green", "red"}}}, Entities: sast.Entities{"X": {ParentTypes: []sast.EntityTypeRef{"Color"}, Shape: rec("c", T("Color"))}},
		Actions: sast.Actions{"a": {AppliesTo: applies("Color", "X", nil)}}})
	add("enum-empty", &sast.Schema{Enums: sast.Enums{"Color": {}}})
	// deep nesting
	var deep sast.IsType = sast.LongType{}
	for i := 0; i < 2000; i++ {
		deep = sast.SetType{Element: deep}
	}
	add("deep-set-2000", &sast.Schema{Entities: sast.Entities{"X": {Tags: deep}}})
	// long acyclic common-type chain
	chain := sast.CommonTypes{}
	for i := 0; i < 300; i++ {
		if i == 299 {
			chain[types.Ident(fmt.Sprintf("K%d", i))] = sast.CommonType{Type: sast.LongType{}}
		} else {
			chain[types.Ident(fmt.Sprintf("K%d", i))] = sast.CommonType{Type: sast.SetType{Element: T(fmt.Sprintf("K%d", i+1))}}
		}
	}
	add("chain-300", &sast.Schema{CommonTypes: chain, Entities: sast.Entities{"X": {Tags: T("K0")}}})
	return out
}

// DoublingSchema: k common types, each a record mentioning the next one twice: resolution inlines 2^k record nodes.
func DoublingSchema(k int) *sast.Schema {
	cts := sast.CommonTypes{}
	for i := 0; i < k; i++ {
		var next sast.IsType = sast.LongType{}
		if i+1 < k {
			next = sast.TypeRef(fmt.Sprintf("D%d", i+1))
		}
		cts[types.Ident(fmt.Sprintf("D%d", i))] = sast.CommonType{Type: sast.RecordType{"l": {Type: next}, "r": {Type: next}}}
	}
	return &sast.Schema{CommonTypes: cts, Entities: sast.Entities{"X": {Shape: sast.RecordType{"d": {Type: sast.TypeRef("D0")}}}}}
}

// ---- random schemas ----

// SchemaGen draws random schema ASTs. Profile selects the name pools and which AST node kinds appear.
type SchemaGen struct {
	R *rand.Rand
	// FromText: only node kinds the text parser produces (TypeRef for every named type, no EntityTypeRef/primitive nodes)
	FromText bool
	// Hostile: names that need quoting or are not identifiers at all (entity/common type/namespace names), entity types
	// named like primitives, empty enums, applies-to without principals
	Hostile bool
	// WellFormed (with Hostile): keep what a parser can produce — no names that are not identifiers, no reserved common-type
	// names, no empty enums — and every other hostile feature (types named like primitives, names that need quoting,
	// applies-to without principals). Since both parsers validate names, the plain hostile profile mostly yields ASTs that
	// are no schema in either format; this profile keeps the hostile-but-legal part of the space covered.
	WellFormed bool
	// feature flags recorded while generating (for classification)
	Feat map[string]bool
}

func (g *SchemaGen) pick(n int) int { return g.R.Intn(n) }
func (g *SchemaGen) chance(p float64) bool {
	return g.R.Float64() < p
}

var goodIdents = []string{"A", "B", "C", "User", "Doc", "T0", "T1", "_x", "a1", "Group", "entity", "type", "action", "namespace", "enum", "tags", "appliesTo", "principal", "context", "Set1", "Entity1", "is_", "then1"}
var reservedCommonNames = map[string]bool{"Bool": true, "Boolean": true, "Entity": true, "Extension": true, "Long": true, "Record": true, "Set": true, "String": true}
var primLikeIdents = []string{"Long", "String", "Bool", "Boolean", "ipaddr", "decimal", "datetime", "duration"}
var badIdents = []string{"", "a b", "in", "if", "true", "has", "é", "1a", "a-b", "\"q\"", "Set", "like", "__cedar", "Entity", "Record", "Extension"}
var attrNamesC1617 = []string{"a", "b", "name", "in", "if", "a b", "", "é", "日本", "\"", "\\", "x\ny", "\x00", "__cedar", "is", "entity", "_", "A::B", "\u007f", "\u2028", "tab\t", "1a", "a?"}
var actionNames = []string{"view", "edit", "a b", "", "in", "é", "\"q\"", "act::x", "__cedar", "if", "delete", "日本", "x\\y", "\r"}
var annKeys = []string{"doc", "a", "in", "if", "_k", "K9", "entity", "__cedar"}
var annVals = []string{"", "v", "a b", "é\n", "\"", "\\", "\x00", "日本"}
var nsNames = []string{"NS", "A::B", "N2", "_n"}

func (g *SchemaGen) feat(f string) {
	if g.Feat != nil {
		g.Feat[f] = true
	}
}

// nearReserved: with probability p an identifier that merely looks like a reserved word (gen_c17b.go) instead of
// one from the ordinary pool; such identifiers are legal in every position of every profile.
func (g *SchemaGen) nearReserved(p float64, ordinary string) string {
	if g.chance(p) {
		g.feat("near-reserved")
		return NearReservedIdents[g.pick(len(NearReservedIdents))]
	}
	return ordinary
}

func (g *SchemaGen) anns() sast.Annotations {
	if g.chance(0.7) {
		return nil
	}
	a := sast.Annotations{}
	for i := 0; i < 1+g.pick(2); i++ {
		a[types.Ident(g.nearReserved(0.1, annKeys[g.pick(len(annKeys))]))] = types.String(annVals[g.pick(len(annVals))])
	}
	return a
}

type genScope struct {
	ns      string
	ents    []string // fully qualified names of entity/enum types
	commons []string // fully qualified common type names
}

func (g *SchemaGen) refName(ns string, pool []string) string {
	// a reference to something in pool, written qualified or unqualified
	if len(pool) == 0 || g.chance(0.06) {
		return "Undefined"
	}
	q := pool[g.pick(len(pool))]
	if ns != "" && len(q) > len(ns)+2 && q[:len(ns)+2] == ns+"::" && g.chance(0.6) {
		return q[len(ns)+2:]
	}
	return q
}

func (g *SchemaGen) typ(sc *genScope, depth int) sast.IsType {
	k := g.pick(12)
	if depth <= 0 && (k == 4 || k == 5) {
		k = g.pick(4)
	}
	prim := func(name string, node sast.IsType) sast.IsType {
		if g.FromText {
			return sast.TypeRef(name)
		}
		if g.chance(0.5) {
			return sast.TypeRef(name)
		}
		return node
	}
	switch k {
	case 0:
		return prim("String", sast.StringType{})
	case 1:
		return prim("Long", sast.LongType{})
	case 2:
		if g.chance(0.3) {
			return prim("Boolean", sast.BoolType{})
		}
		return prim("Bool", sast.BoolType{})
	case 3:
		exts := []string{"ipaddr", "decimal", "datetime", "duration"}
		e := exts[g.pick(4)]
		if g.chance(0.2) {
			return sast.TypeRef("__cedar::" + e)
		}
		return prim(e, sast.ExtensionType(e))
	case 4:
		return sast.SetType{Element: g.typ(sc, depth-1)}
	case 5:
		return g.record(sc, depth-1)
	case 6, 7, 8:
		n := g.refName(sc.ns, sc.ents)
		if !g.FromText && g.chance(0.4) {
			g.feat("entity-ref-node")
			return sast.EntityTypeRef(n)
		}
		return sast.TypeRef(n)
	default:
		return sast.TypeRef(g.refName(sc.ns, sc.commons))
	}
}

func (g *SchemaGen) record(sc *genScope, depth int) sast.RecordType {
	r := sast.RecordType{}
	n := g.pick(4)
	for i := 0; i < n; i++ {
		r[types.String(g.nearReserved(0.1, attrNamesC1617[g.pick(len(attrNamesC1617))]))] = sast.Attribute{Type: g.typ(sc, depth), Optional: g.chance(0.3), Annotations: g.anns()}
	}
	return r
}

// Schema draws one random schema.
func (g *SchemaGen) Schema() *sast.Schema {
	s := &sast.Schema{}
	nNS := g.pick(3)
	spaces := []string{""}
	for i := 0; i < nNS; i++ {
		if g.chance(0.15) { // a namespace one of whose components looks like a reserved word
			g.feat("near-reserved")
			spaces = append(spaces, g.nearReservedPath())
			continue
		}
		spaces = append(spaces, nsNames[g.pick(len(nsNames))])
	}
	type decl struct {
		ents, enums, commons []string
		acts                 []string
	}
	decls := map[string]*decl{}
	var allEnts, allCommons []string
	q := func(ns, n string) string {
		if ns == "" {
			return n
		}
		return ns + "::" + n
	}
	ident := func() string {
		if g.Hostile && !g.WellFormed && g.chance(0.08) {
			g.feat("bad-ident")
			return badIdents[g.pick(len(badIdents))]
		}
		if g.Hostile && g.chance(0.12) {
			g.feat("prim-like-ident")
			return primLikeIdents[g.pick(len(primLikeIdents))]
		}
		return g.nearReserved(0.12, goodIdents[g.pick(len(goodIdents))])
	}
	for _, ns := range spaces {
		if decls[ns] != nil {
			continue
		}
		d := &decl{}
		decls[ns] = d
		used := map[string]bool{}
		for i := 0; i < g.pick(4); i++ {
			n := ident()
			if !used[n] {
				used[n] = true
				d.ents = append(d.ents, n)
				allEnts = append(allEnts, q(ns, n))
			}
		}
		for i := 0; i < g.pick(2); i++ {
			n := ident()
			if !used[n] {
				used[n] = true
				d.enums = append(d.enums, n)
				allEnts = append(allEnts, q(ns, n))
			}
		}
		usedC := map[string]bool{}
		for i := 0; i < g.pick(3); i++ {
			n := ident()
			if g.chance(0.9) && used[n] { // an entity type and a common type of the same name are legal but rare
				continue
			}
			if g.WellFormed && reservedCommonNames[n] {
				continue
			}
			if !usedC[n] {
				usedC[n] = true
				d.commons = append(d.commons, n)
				allCommons = append(allCommons, q(ns, n))
			}
		}
		usedA := map[string]bool{}
		for i := 0; i < g.pick(4); i++ {
			n := g.nearReserved(0.1, actionNames[g.pick(len(actionNames))])
			if !usedA[n] {
				usedA[n] = true
				d.acts = append(d.acts, n)
			}
		}
	}
	done := map[string]bool{}
	build := func(ns string, d *decl) (sast.Entities, sast.Enums, sast.Actions, sast.CommonTypes) {
		sc := &genScope{ns: ns, ents: allEnts, commons: allCommons}
		var ents sast.Entities
		var enums sast.Enums
		var acts sast.Actions
		var cts sast.CommonTypes
		for _, n := range d.ents {
			e := sast.Entity{Annotations: g.anns()}
			for i := 0; i < g.pick(3); i++ {
				e.ParentTypes = append(e.ParentTypes, sast.EntityTypeRef(g.refName(ns, allEnts)))
			}
			if g.chance(0.6) {
				e.Shape = g.record(sc, 2)
			}
			if g.chance(0.25) {
				e.Tags = g.typ(sc, 1)
			}
			if ents == nil {
				ents = sast.Entities{}
			}
			ents[types.Ident(n)] = e
		}
		for _, n := range d.enums {
			en := sast.Enum{Annotations: g.anns()}
			nv := 1 + g.pick(3)
			if g.Hostile && !g.WellFormed && g.chance(0.15) {
				nv = 0
				g.feat("empty-enum")
			}
			for i := 0; i < nv; i++ {
				en.Values = append(en.Values, types.String(attrNamesC1617[g.pick(len(attrNamesC1617))]))
			}
			if enums == nil {
				enums = sast.Enums{}
			}
			enums[types.Ident(n)] = en
		}
		for _, n := range d.commons {
			if cts == nil {
				cts = sast.CommonTypes{}
			}
			cts[types.Ident(n)] = sast.CommonType{Annotations: g.anns(), Type: g.typ(sc, 2)}
		}
		for _, n := range d.acts {
			a := sast.Action{Annotations: g.anns()}
			for i := 0; i < g.pick(3); i++ {
				if len(d.acts) == 0 {
					break
				}
				id := types.String(d.acts[g.pick(len(d.acts))])
				switch g.pick(4) {
				case 0, 1:
					a.Parents = append(a.Parents, sast.ParentRefFromID(id))
				case 2:
					a.Parents = append(a.Parents, sast.NewParentRef(sast.EntityTypeRef(q(ns, "Action")), id))
				default:
					a.Parents = append(a.Parents, sast.NewParentRef("Action", id))
				}
			}
			if g.chance(0.7) {
				at := &sast.AppliesTo{}
				np, nr := 1+g.pick(2), 1+g.pick(2)
				if g.Hostile && g.chance(0.1) {
					np = 0
					g.feat("applies-no-principal")
				}
				if g.Hostile && g.chance(0.1) {
					nr = 0
					g.feat("applies-no-resource")
				}
				for i := 0; i < np; i++ {
					at.Principals = append(at.Principals, sast.EntityTypeRef(g.refName(ns, allEnts)))
				}
				for i := 0; i < nr; i++ {
					at.Resources = append(at.Resources, sast.EntityTypeRef(g.refName(ns, allEnts)))
				}
				switch g.pick(4) {
				case 0:
				case 1:
					at.Context = g.record(sc, 2)
				case 2:
					at.Context = sast.TypeRef(g.refName(ns, allCommons))
				default:
					at.Context = g.record(sc, 1)
				}
				a.AppliesTo = at
			}
			if acts == nil {
				acts = sast.Actions{}
			}
			acts[types.String(n)] = a
		}
		return ents, enums, acts, cts
	}
	for _, ns := range spaces { // ordered (never range over the map: every draw must be reproducible from the seed)
		if ns == "" || done[ns] {
			continue
		}
		done[ns] = true
		d := decls[ns]
		e, en, a, c := build(ns, d)
		if s.Namespaces == nil {
			s.Namespaces = sast.Namespaces{}
		}
		s.Namespaces[types.Path(ns)] = sast.Namespace{Annotations: g.anns(), Entities: e, Enums: en, Actions: a, CommonTypes: c}
	}
	s.Entities, s.Enums, s.Actions, s.CommonTypes = build("", decls[""])
	return s
}

// WorldSchema: a schema matching the world of vh.Gen (entity types User/Group/Doc/NS::Folder, the attribute names and
// types of FieldTypes, tags, three actions with a context record), so that typed random policies reach deep into the
// type checker. The hierarchy is acyclic (the cyclic ones are covered by the exhaustive graphs).
func WorldSchema() *sast.Schema {
	sub := sast.RecordType{"n": {Type: sast.LongType{}}, "s": {Type: sast.StringType{}, Optional: true}, "b": {Type: sast.BoolType{}}, "e": {Type: sast.EntityTypeRef("User")}}
	shape := func(optEvery int) sast.RecordType {
		r := sast.RecordType{
			"n": {Type: sast.LongType{}}, "m": {Type: sast.LongType{}}, "s": {Type: sast.StringType{}}, "b": {Type: sast.BoolType{}},
			"e": {Type: sast.EntityTypeRef("User")}, "ls": {Type: sast.SetType{Element: sast.LongType{}}}, "ss": {Type: sast.SetType{Element: sast.StringType{}}},
			"es": {Type: sast.SetType{Element: sast.EntityTypeRef("User")}}, "r": {Type: sub}, "ip": {Type: sast.ExtensionType("ipaddr")},
			"dec": {Type: sast.ExtensionType("decimal")}, "dt": {Type: sast.ExtensionType("datetime")}, "dur": {Type: sast.ExtensionType("duration")},
			"if": {Type: sast.StringType{}}, "like": {Type: sast.BoolType{}},
		}
		i := 0
		for _, k := range sortedKeysOf(r) {
			i++
			if optEvery > 0 && i%optEvery == 0 {
				a := r[k]
				a.Optional = true
				r[k] = a
			}
		}
		return r
	}
	ctx := shape(2)
	return &sast.Schema{
		Entities: sast.Entities{
			"User":  {ParentTypes: []sast.EntityTypeRef{"Group"}, Shape: shape(3), Tags: sast.StringType{}},
			"Group": {Shape: shape(0), Tags: sast.LongType{}},
			"Doc":   {ParentTypes: []sast.EntityTypeRef{"NS::Folder", "Group"}, Shape: shape(2)},
		},
		Actions: sast.Actions{
			"a": {AppliesTo: &sast.AppliesTo{Principals: []sast.EntityTypeRef{"User", "Group"}, Resources: []sast.EntityTypeRef{"Doc", "NS::Folder"}, Context: ctx}},
			"b": {Parents: []sast.ParentRef{sast.ParentRefFromID("a")}, AppliesTo: &sast.AppliesTo{Principals: []sast.EntityTypeRef{"User"}, Resources: []sast.EntityTypeRef{"Doc"}, Context: sast.RecordType{}}},
			"c": {Parents: []sast.ParentRef{sast.ParentRefFromID("a"), sast.ParentRefFromID("b")}},
		},
		Namespaces: sast.Namespaces{"NS": {Entities: sast.Entities{"Folder": {ParentTypes: []sast.EntityTypeRef{"Folder2"}, Shape: shape(4), Tags: sast.SetType{Element: sast.StringType{}}}, "Folder2": {}}}},
	}
}
