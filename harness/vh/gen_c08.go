package vh

import "github.com/cedar-policy/cedar-go/types"

// ValueC08 generates the content of a NodeValue for the C08 value checks: scalars, extension values at their
// boundaries, and sets / records of them nested up to depth (keys and strings over every escape class).
func (g *SynGen) ValueC08(depth int) types.Value { return g.compositeValue(depth) }

// ExtValuesC08 lists every boundary extension value the generator knows, as values.
func ExtValuesC08() []types.Value {
	var out []types.Value
	for _, d := range BoundaryDecimals {
		out = append(out, types.VerifDecimalFromRaw(d))
	}
	for _, m := range BoundaryMillis {
		out = append(out, types.NewDatetimeFromMillis(m), types.NewDurationFromMillis(m))
	}
	for _, s := range IPStrings {
		if ip, err := types.ParseIPAddr(s); err == nil {
			out = append(out, ip)
		}
	}
	return out
}
