package vh

import (
	"encoding/json"
	"fmt"
	"hash/fnv"
	"math"
	"math/rand"
	"net/netip"

	"github.com/cedar-policy/cedar-go/types"
	"github.com/cedar-policy/cedar-go/x/exp/ast"
	"github.com/cedar-policy/cedar-go/x/exp/eval"
)

// Ty is the generator's notion of a Cedar type (used to produce mostly well-typed trees).
type Ty int

const (
	TBool Ty = iota
	TLong
	TString
	TEntity
	TSetLong
	TSetString
	TSetEntity
	TRecord
	TDecimal
	TDatetime
	TDuration
	TIP
	numTy
)

// Gen is a seeded generator over a fixed small world.
type Gen struct {
	R      *rand.Rand
	PWrong float64 // probability of deliberately picking a wrong type at a typed position
	World  *World
}

// World is the universe entities, attributes and context fields are drawn from.
type World struct {
	UIDs []types.EntityUID
}

var EntityTypes = []types.EntityType{"User", "Group", "Doc", "Action", "NS::Folder"}

func DefaultWorld() *World {
	w := &World{}
	for _, t := range EntityTypes {
		for _, id := range []types.String{"a", "b", "c"} {
			w.UIDs = append(w.UIDs, types.NewEntityUID(t, id))
		}
	}
	w.UIDs = append(w.UIDs, types.NewEntityUID("User", "é\"x"), types.EntityUID{})
	return w
}

func NewGen(r *rand.Rand) *Gen { return &Gen{R: r, PWrong: 0.08, World: DefaultWorld()} }

func (g *Gen) pick(n int) int { return g.R.Intn(n) }
func (g *Gen) chance(p float64) bool { return g.R.Float64() < p }

var BoundaryLongs = []int64{0, 1, -1, 2, -2, 7, 10, 100, 1 << 31, -(1 << 31), math.MaxInt64, math.MinInt64, math.MaxInt64 - 1, math.MinInt64 + 1,
	3037000499, 3037000500, -3037000499, -3037000500, 4294967296, 86400000, -86400000, 999, 1000, 60000, 3600000}

var BoundaryMillis = []int64{0, 1, -1, 999, 1000, -1000, 86399999, 86400000, 86400001, -86399999, -86400000, -86400001,
	1700000000000, -1700000000000, math.MaxInt64, math.MinInt64, math.MaxInt64 - 86400000, math.MinInt64 + 86400000, 253402300799999, 253402300800000, -62167219200000, -62167219200001}

var BoundaryDecimals = []int64{0, 1, -1, 10000, -10000, 12345, -12345, 5000, 100, 10, math.MaxInt64, math.MinInt64, 9999, -9999}

var Strings = []string{"", "a", "b", "abc", "aab", "aaab", "alice", "a*b", "*", "\\", "\"", "é", "日本", "a\nb", "\x00", "́", "hello world", "1.5", "10.0.0.1", "::1", "1h", "2024-01-01", "\U0001F600"}

var IPStrings = []string{"127.0.0.1", "10.0.0.1", "10.0.0.0/8", "192.168.1.0/24", "224.0.0.1", "224.0.0.0/4", "224.0.0.0/3", "0.0.0.0/0", "255.255.255.255", "::1", "::", "ff00::/8", "ff00::/7", "ff02::1", "fe80::1", "2001:db8::/32", "::ffff:7f00:1", "::ffff:e000:1", "127.0.0.0/8", "127.0.0.1/0", "::1/127", "1:2:3:4:5:6:7:8", "10.0.0.1/32", "::/0"}

var DecimalStrings = []string{"0.0", "1.0", "-1.0", "1.5", "1.2345", "-0.5", "922337203685477.5807", "-922337203685477.5808", "922337203685477.5808", "-922337203685477.5809", "1.23456", "1", ".5", "1.", "+1.5", "1.-5", "00.10", "1.0000", "abc", "1e3", "0.0001", "-0.0001", "9223372036854775808.0"}

var DurationStrings = []string{"0ms", "1ms", "1s", "1m", "1h", "1d", "1d2h3m4s5ms", "-1d", "1h1d", "1s1s", "1ms1s", "1", "ms", "", "-", "1x", "9223372036854775807ms", "9223372036854775808ms", "-9223372036854775808ms", "106751991167d", "106751991168d", "2562047788015h", "1d24h", "10m5ms", "1m s", "01h", "１s"}

var DatetimeStrings = []string{"2024-01-01", "2024-02-29", "2023-02-29", "1970-01-01T00:00:00Z", "1969-12-31T23:59:59.999Z", "2024-01-01T12:34:56Z", "2024-01-01T12:34:56.789Z",
	"2024-01-01T12:34:56+0130", "2024-01-01T12:34:56-2359", "2024-01-01T12:34:56.000+0000", "2024-13-01", "2024-00-10", "2024-01-00", "2024-01-32", "2024-04-31", "1900-02-29", "2000-02-29",
	"0000-01-01", "9999-12-31T23:59:59.999Z", "+000010000-01-01T00:00:00Z", "-000000001-01-01T00:00:00Z", "+292278994-08-17T07:12:55.807Z", "+292278994-08-17T07:12:55.808Z", "-292275055-05-16T16:47:04.192Z", "-292275055-05-16T16:47:04.191Z",
	"2024-01-01T24:00:00Z", "2024-01-01T12:60:00Z", "2024-01-01T12:00:60Z", "2024-01-01T12:00:00", "2024-01-01T12:00:00.1Z", "2024-01-01 12:00:00Z", "2024-1-1", "24-01-01", "2024-01-01T12:00:00+2400", "2024-01-01T12:00:00+0060", "2024-01-01T12:00:00ZZ", "", "x",
	"+999999999-12-31", "-999999999-01-01", "+000002024-01-01", "2024-01-01T00:00:00.000-0000"}

func (g *Gen) Long() int64 {
	switch g.pick(4) {
	case 0:
		return BoundaryLongs[g.pick(len(BoundaryLongs))]
	case 1:
		return int64(g.R.Intn(21) - 10)
	case 2:
		return g.R.Int63() - g.R.Int63()
	default:
		return BoundaryLongs[g.pick(len(BoundaryLongs))] + int64(g.R.Intn(5)-2)
	}
}

func (g *Gen) Millis() int64 {
	switch g.pick(3) {
	case 0:
		return BoundaryMillis[g.pick(len(BoundaryMillis))]
	case 1:
		return int64(g.R.Intn(400000000)) - 200000000
	default:
		return g.R.Int63() - g.R.Int63()
	}
}

func (g *Gen) Str() string { return Strings[g.pick(len(Strings))] }

func (g *Gen) UID() types.EntityUID { return g.World.UIDs[g.pick(len(g.World.UIDs))] }

func (g *Gen) IP() types.IPAddr {
	for {
		s := IPStrings[g.pick(len(IPStrings))]
		ip, err := types.ParseIPAddr(s)
		if err == nil {
			return ip
		}
	}
}

func mustPrefix(s string) types.IPAddr { return types.IPAddr(netip.MustParsePrefix(s)) }

// Value generates a concrete value of the given type.
func (g *Gen) Value(t Ty, depth int) types.Value {
	switch t {
	case TBool:
		return types.Boolean(g.pick(2) == 0)
	case TLong:
		return types.Long(g.Long())
	case TString:
		return types.String(g.Str())
	case TEntity:
		return g.UID()
	case TSetLong, TSetString, TSetEntity:
		et := map[Ty]Ty{TSetLong: TLong, TSetString: TString, TSetEntity: TEntity}[t]
		n := g.pick(4)
		var vs []types.Value
		for i := 0; i < n; i++ {
			if et == TLong {
				vs = append(vs, types.Long(g.R.Intn(4)))
			} else {
				vs = append(vs, g.Value(et, depth-1))
			}
		}
		if g.chance(0.05) { // heterogeneous / colliding members
			vs = append(vs, CollidingValues()[g.pick(len(CollidingValues()))])
		}
		return types.NewSet(vs...)
	case TRecord:
		return g.Record(depth)
	case TDecimal:
		return types.VerifDecimalFromRaw(BoundaryDecimals[g.pick(len(BoundaryDecimals))] + int64(g.R.Intn(3)-1)*int64(g.pick(2)))
	case TDatetime:
		return types.NewDatetimeFromMillis(g.Millis())
	case TDuration:
		return types.NewDurationFromMillis(g.Millis())
	case TIP:
		return g.IP()
	}
	panic("Value: bad type")
}

// CollidingValues all hash to small integers in types.*.hash (C11).
func CollidingValues() []types.Value {
	return []types.Value{types.True, types.False, types.Long(0), types.Long(1), types.Long(2),
		types.VerifDecimalFromRaw(1), types.VerifDecimalFromRaw(0), types.NewDurationFromMillis(1), types.NewDatetimeFromMillis(1),
		types.NewDurationFromMillis(0), types.NewDatetimeFromMillis(2), types.String(""), types.NewSet(), types.NewSet(types.Long(1)),
		types.NewSet(types.True), types.NewRecord(nil), types.NewRecord(types.RecordMap{"a": types.Long(1)})}
}

// Field typing shared by entity attributes and the context record.
var FieldTypes = map[types.String]Ty{
	"n": TLong, "m": TLong, "s": TString, "b": TBool, "e": TEntity, "ls": TSetLong, "ss": TSetString, "es": TSetEntity,
	"r": TRecord, "ip": TIP, "dec": TDecimal, "dt": TDatetime, "dur": TDuration, "if": TString, "like": TBool,
}

var FieldNames = []types.String{"n", "m", "s", "b", "e", "ls", "ss", "es", "r", "ip", "dec", "dt", "dur", "if", "like"}

// nested record field typing (one level)
var SubFieldTypes = map[types.String]Ty{"n": TLong, "s": TString, "b": TBool, "e": TEntity}
var SubFieldNames = []types.String{"n", "s", "b", "e"}

func (g *Gen) Record(depth int) types.Record {
	m := types.RecordMap{}
	if depth <= 0 {
		for _, k := range SubFieldNames {
			if g.chance(0.7) {
				m[k] = g.Value(SubFieldTypes[k], 0)
			}
		}
		return types.NewRecord(m)
	}
	for _, k := range FieldNames {
		if g.chance(0.75) {
			m[k] = g.Value(FieldTypes[k], depth-1)
		}
	}
	return types.NewRecord(m)
}

var TagNames = []types.String{"t1", "t2", "s"}

// Entities generates a random store over the world: every UID present with probability pPresent,
// random parents (cycles, self-parents, dangling parents allowed).
func (g *Gen) Entities() types.EntityMap {
	m := types.EntityMap{}
	for _, u := range g.World.UIDs {
		if !g.chance(0.7) {
			continue
		}
		var ps []types.EntityUID
		np := g.pick(4)
		for i := 0; i < np; i++ {
			ps = append(ps, g.UID())
		}
		tags := types.RecordMap{}
		for _, t := range TagNames {
			if g.chance(0.5) {
				if g.chance(0.5) {
					tags[t] = types.String(g.Str())
				} else {
					tags[t] = types.Long(g.R.Intn(5))
				}
			}
		}
		m[u] = types.Entity{UID: u, Parents: types.NewEntityUIDSet(ps...), Attributes: g.Record(1), Tags: types.NewRecord(tags)}
	}
	return m
}

// Env generates a request environment (entity principals etc., record context).
func (g *Gen) Env() eval.Env {
	return eval.Env{Entities: g.Entities(), Principal: g.UID(), Action: g.UID(), Resource: g.UID(), Context: g.Record(1)}
}

func lit(v types.Value) ast.IsNode { return ast.NodeValue{Value: v} }

func bin(l, r ast.IsNode) ast.BinaryNode { return ast.BinaryNode{Left: l, Right: r} }

func call(name string, args ...ast.IsNode) ast.IsNode {
	return ast.NodeTypeExtensionCall{Name: types.Path(name), Args: args}
}

func (g *Gen) Pattern() types.Pattern {
	n := 1 + g.pick(4)
	var comps []any
	for i := 0; i < n; i++ {
		if g.chance(0.45) {
			comps = append(comps, types.Wildcard{})
		} else {
			comps = append(comps, types.String([]string{"a", "b", "ab", "aa", "", "é", "*", "c"}[g.pick(8)]))
		}
	}
	return types.NewPattern(comps...)
}

func (g *Gen) entityVar() ast.IsNode {
	return ast.NodeTypeVariable{Name: []types.String{"principal", "action", "resource"}[g.pick(3)]}
}

// recordSource yields an expression of record-or-entity type whose fields follow FieldTypes.
func (g *Gen) recordSource(depth int) ast.IsNode {
	switch g.pick(4) {
	case 0:
		return ast.NodeTypeVariable{Name: "context"}
	case 1:
		return g.entityVar()
	case 2:
		return lit(g.UID())
	default:
		if depth > 0 {
			return g.Expr(TEntity, depth-1)
		}
		return ast.NodeTypeVariable{Name: "context"}
	}
}

func (g *Gen) fieldOf(t Ty) (types.String, bool) {
	var cands []types.String
	for _, k := range FieldNames {
		if FieldTypes[k] == t {
			cands = append(cands, k)
		}
	}
	if len(cands) == 0 {
		return "", false
	}
	return cands[g.pick(len(cands))], true
}

// Expr generates an expression that is, with probability ≈ 1-PWrong per typed position, of type t.
func (g *Gen) Expr(t Ty, depth int) ast.IsNode {
	if g.chance(g.PWrong) {
		t = Ty(g.pick(int(numTy)))
	}
	if depth <= 0 {
		return g.leaf(t)
	}
	d := depth - 1
	// productions available at every type
	switch g.pick(10) {
	case 0:
		return g.leaf(t)
	case 1:
		return ast.NodeTypeIfThenElse{If: g.Expr(TBool, d), Then: g.Expr(t, d), Else: g.Expr(t, d)}
	case 2, 3:
		if f, ok := g.fieldOf(t); ok {
			return ast.NodeTypeAccess{StrOpNode: ast.StrOpNode{Arg: g.recordSource(d), Value: f}}
		}
	case 4:
		if t == TString || t == TLong {
			return ast.NodeTypeGetTag{BinaryNode: bin(g.Expr(TEntity, d), g.tagName(d))}
		}
	}
	switch t {
	case TBool:
		switch g.pick(22) {
		case 0:
			return ast.NodeTypeAnd{BinaryNode: bin(g.Expr(TBool, d), g.Expr(TBool, d))}
		case 1:
			return ast.NodeTypeOr{BinaryNode: bin(g.Expr(TBool, d), g.Expr(TBool, d))}
		case 2:
			return ast.NodeTypeNot{UnaryNode: ast.UnaryNode{Arg: g.Expr(TBool, d)}}
		case 3:
			tt := Ty(g.pick(int(numTy)))
			return ast.NodeTypeEquals{BinaryNode: bin(g.Expr(tt, d), g.Expr(tt, d))}
		case 4:
			tt := Ty(g.pick(int(numTy)))
			return ast.NodeTypeNotEquals{BinaryNode: bin(g.Expr(tt, d), g.Expr(tt, d))}
		case 5, 6:
			tt := []Ty{TLong, TLong, TDatetime, TDuration}[g.pick(4)]
			l, r := g.Expr(tt, d), g.Expr(tt, d)
			switch g.pick(4) {
			case 0:
				return ast.NodeTypeLessThan{BinaryNode: bin(l, r)}
			case 1:
				return ast.NodeTypeLessThanOrEqual{BinaryNode: bin(l, r)}
			case 2:
				return ast.NodeTypeGreaterThan{BinaryNode: bin(l, r)}
			default:
				return ast.NodeTypeGreaterThanOrEqual{BinaryNode: bin(l, r)}
			}
		case 7:
			if g.chance(0.5) {
				return ast.NodeTypeIn{BinaryNode: bin(g.Expr(TEntity, d), g.Expr(TEntity, d))}
			}
			return ast.NodeTypeIn{BinaryNode: bin(g.Expr(TEntity, d), g.Expr(TSetEntity, d))}
		case 8:
			st := []Ty{TSetLong, TSetString, TSetEntity}[g.pick(3)]
			et := map[Ty]Ty{TSetLong: TLong, TSetString: TString, TSetEntity: TEntity}[st]
			return ast.NodeTypeContains{BinaryNode: bin(g.Expr(st, d), g.Expr(et, d))}
		case 9:
			st := []Ty{TSetLong, TSetString, TSetEntity}[g.pick(3)]
			if g.chance(0.5) {
				return ast.NodeTypeContainsAll{BinaryNode: bin(g.Expr(st, d), g.Expr(st, d))}
			}
			return ast.NodeTypeContainsAny{BinaryNode: bin(g.Expr(st, d), g.Expr(st, d))}
		case 10:
			return ast.NodeTypeIsEmpty{UnaryNode: ast.UnaryNode{Arg: g.Expr([]Ty{TSetLong, TSetString, TSetEntity}[g.pick(3)], d)}}
		case 11, 12:
			return ast.NodeTypeHas{StrOpNode: ast.StrOpNode{Arg: g.recordSource(d), Value: FieldNames[g.pick(len(FieldNames))]}}
		case 13:
			return ast.NodeTypeLike{Arg: g.Expr(TString, d), Value: g.Pattern()}
		case 14:
			return ast.NodeTypeIs{Left: g.Expr(TEntity, d), EntityType: EntityTypes[g.pick(len(EntityTypes))]}
		case 15:
			rhs := g.Expr(TEntity, d)
			if g.chance(0.3) {
				rhs = g.Expr(TSetEntity, d)
			}
			return ast.NodeTypeIsIn{NodeTypeIs: ast.NodeTypeIs{Left: g.Expr(TEntity, d), EntityType: EntityTypes[g.pick(len(EntityTypes))]}, Entity: rhs}
		case 16:
			return ast.NodeTypeHasTag{BinaryNode: bin(g.Expr(TEntity, d), g.tagName(d))}
		case 17:
			return call([]string{"lessThan", "lessThanOrEqual", "greaterThan", "greaterThanOrEqual"}[g.pick(4)], g.Expr(TDecimal, d), g.Expr(TDecimal, d))
		case 18:
			return call([]string{"isIpv4", "isIpv6", "isLoopback", "isMulticast"}[g.pick(4)], g.Expr(TIP, d))
		case 19:
			return call("isInRange", g.Expr(TIP, d), g.Expr(TIP, d))
		default:
			return g.leaf(TBool)
		}
	case TLong:
		switch g.pick(9) {
		case 0, 1:
			return ast.NodeTypeAdd{BinaryNode: bin(g.Expr(TLong, d), g.Expr(TLong, d))}
		case 2:
			return ast.NodeTypeSub{BinaryNode: bin(g.Expr(TLong, d), g.Expr(TLong, d))}
		case 3:
			return ast.NodeTypeMult{BinaryNode: bin(g.Expr(TLong, d), g.Expr(TLong, d))}
		case 4:
			return ast.NodeTypeNegate{UnaryNode: ast.UnaryNode{Arg: g.Expr(TLong, d)}}
		case 5:
			return call([]string{"toMilliseconds", "toSeconds", "toMinutes", "toHours", "toDays"}[g.pick(5)], g.Expr(TDuration, d))
		default:
			return g.leaf(TLong)
		}
	case TSetLong, TSetString, TSetEntity:
		et := map[Ty]Ty{TSetLong: TLong, TSetString: TString, TSetEntity: TEntity}[t]
		if g.chance(0.6) {
			n := g.pick(4)
			var es []ast.IsNode
			for i := 0; i < n; i++ {
				es = append(es, g.Expr(et, d))
			}
			return ast.NodeTypeSet{Elements: es}
		}
		return g.leaf(t)
	case TRecord:
		if g.chance(0.6) {
			n := g.pick(4)
			var es []ast.RecordElementNode
			seen := map[types.String]bool{}
			for i := 0; i < n; i++ {
				k := SubFieldNames[g.pick(len(SubFieldNames))]
				if seen[k] {
					continue
				}
				seen[k] = true
				es = append(es, ast.RecordElementNode{Key: k, Value: g.Expr(SubFieldTypes[k], d)})
			}
			return ast.NodeTypeRecord{Elements: es}
		}
		return g.leaf(t)
	case TDecimal:
		if g.chance(0.5) {
			return call("decimal", g.strArg(DecimalStrings, d))
		}
	case TDatetime:
		switch g.pick(5) {
		case 0, 1:
			return call("datetime", g.strArg(DatetimeStrings, d))
		case 2:
			return call("offset", g.Expr(TDatetime, d), g.Expr(TDuration, d))
		case 3:
			return call("toDate", g.Expr(TDatetime, d))
		}
	case TDuration:
		switch g.pick(5) {
		case 0, 1:
			return call("duration", g.strArg(DurationStrings, d))
		case 2:
			return call("durationSince", g.Expr(TDatetime, d), g.Expr(TDatetime, d))
		case 3:
			return call("toTime", g.Expr(TDatetime, d))
		}
	case TIP:
		if g.chance(0.5) {
			return call("ip", g.strArg(IPStrings, d))
		}
	}
	return g.leaf(t)
}

func (g *Gen) strArg(pool []string, d int) ast.IsNode {
	if g.chance(0.85) {
		return lit(types.String(pool[g.pick(len(pool))]))
	}
	return g.Expr(TString, d)
}

func (g *Gen) tagName(d int) ast.IsNode {
	if g.chance(0.8) {
		return lit(TagNames[g.pick(len(TagNames))])
	}
	return g.Expr(TString, d)
}

func (g *Gen) leaf(t Ty) ast.IsNode {
	switch t {
	case TEntity:
		if g.chance(0.5) {
			return g.entityVar()
		}
	case TRecord:
		if g.chance(0.5) {
			return ast.NodeTypeVariable{Name: "context"}
		}
	}
	if g.chance(0.02) { // rare: arity / unknown function errors
		switch g.pick(3) {
		case 0:
			return call("decimal")
		case 1:
			return call("nosuchfn", lit(types.Long(1)))
		default:
			return call("isIpv4", lit(g.IP()), lit(types.Long(1)))
		}
	}
	return lit(g.Value(t, 1))
}

// Scope generators.
func (g *Gen) PrincipalScope() ast.IsPrincipalScopeNode {
	switch g.pick(6) {
	case 0, 1:
		return ast.ScopeTypeAll{}
	case 2:
		return ast.ScopeTypeEq{Entity: g.UID()}
	case 3:
		return ast.ScopeTypeIn{Entity: g.UID()}
	case 4:
		return ast.ScopeTypeIs{Type: EntityTypes[g.pick(len(EntityTypes))]}
	default:
		return ast.ScopeTypeIsIn{Type: EntityTypes[g.pick(len(EntityTypes))], Entity: g.UID()}
	}
}

func (g *Gen) ActionScope() ast.IsActionScopeNode {
	switch g.pick(5) {
	case 0, 1:
		return ast.ScopeTypeAll{}
	case 2:
		return ast.ScopeTypeEq{Entity: g.UID()}
	case 3:
		return ast.ScopeTypeIn{Entity: g.UID()}
	default:
		n := g.pick(4)
		var es []types.EntityUID
		for i := 0; i < n; i++ {
			es = append(es, g.UID())
		}
		return ast.ScopeTypeInSet{Entities: es}
	}
}

func (g *Gen) ResourceScope() ast.IsResourceScopeNode {
	return g.PrincipalScope().(ast.IsResourceScopeNode)
}

// Policy generates a random policy: scopes, 0–3 conditions.
func (g *Gen) Policy(depth int) *ast.Policy {
	p := &ast.Policy{Effect: ast.Effect(g.chance(0.6)), Principal: g.PrincipalScope(), Action: g.ActionScope(), Resource: g.ResourceScope()}
	n := g.pick(4)
	for i := 0; i < n; i++ {
		p.Conditions = append(p.Conditions, ast.ConditionType{Condition: ast.Condition(g.chance(0.7)), Body: g.Expr(TBool, depth)})
	}
	if g.chance(0.3) {
		p.Annotations = append(p.Annotations, ast.AnnotationType{Key: "id", Value: types.String(g.Str())})
	}
	return p
}

// EnvEnc is an environment together with its cached protocol encoding.
type EnvEnc struct {
	Env  eval.Env
	Raw  json.RawMessage
	Name string // content hash: the driver-side reference name
}

func MkEnvEnc(env eval.Env) EnvEnc {
	raw, err := json.Marshal(EncEnv(env))
	if err != nil {
		panic(err)
	}
	h := fnv.New64a()
	h.Write(raw)
	return EnvEnc{Env: env, Raw: raw, Name: fmt.Sprintf("e%x", h.Sum64())}
}

// EnvPool generates n random environments with cached encodings.
func (g *Gen) EnvPool(n int) []EnvEnc {
	out := make([]EnvEnc, n)
	for i := range out {
		out[i] = MkEnvEnc(g.Env())
	}
	return out
}
