package vh

// C15 generators, second part: two near-miss families aimed at the validator's STATIC FOLDING, where a wrong
// singleton type (True/False) or a wrongly propagated capability set makes the validator skip an operand.
//
//   in-lub-guard    `e in R` / `e is T in R` where R's entity LUB has SEVERAL element types (set literal of entities of
//                   different types, if-then-else of entities / of sets, a set with an if-then-else element, an
//                   entity-typed path among literals): membership is possible through exactly one of them (any position
//                   in the sorted LUB, one or several memberOf levels away), through the left type itself, or through
//                   none (then the fold to False is right).  The test guards an ill-typed / unsafely accessing / well-typed
//                   operand through `&&`, `!.. ||`, `if`, nested conjunctions.
//   singleton-caps  tests typed False or True that still CARRY (or must not carry) capabilities: `e has a && false`,
//                   `false || (e has a && false)`, `e has a && e has undeclared`, `if true then (e has a && false) else b`,
//                   `e has a || true`, `!(e has a && false)`, tests typed True by a capability already held, … combined
//                   with then / else / right operands that read the optional attribute or tag; entity attributes,
//                   record (context) attributes at every depth, tags.
//
// Nothing here predicts the validator's answer: the Lean model decides accept/reject (correspondence) and the
// evaluation oracle decides whether an accepted policy fails.  The generators only record WHICH shape they built
// (C15Gen.Shapes) so that the harness can show the distribution and refuse a collapsed generator.

import (
	"sort"

	"github.com/cedar-policy/cedar-go/types"
	"github.com/cedar-policy/cedar-go/x/exp/ast"
	"github.com/cedar-policy/cedar-go/x/exp/schema/resolved"
)

// C15FocusMutations are the kinds the focused stream of the harness concentrates on (they are also ordinary members of
// C15Mutations, so the whole-validator stream and the fragment stream produce them too).
var C15FocusMutations = []string{"in-lub-guard", "singleton-caps", "lub-attr", "in-operand-type", "action-in-mixed", "clause-caps"}

func (c *C15Gen) note(s string) { c.Shapes = append(c.Shapes, s) }

func (c *C15Gen) mutP() float64 {
	if c.MutP > 0 {
		return c.MutP
	}
	return 0.5
}

// strictAncestors = declared entity types t can be a (transitive) member of, t itself excluded, with the number of
// memberOf levels of the shortest chain.
func (s *C15Schema) strictAncestors(t types.EntityType) map[types.EntityType]int {
	dist := map[types.EntityType]int{}
	frontier := []types.EntityType{t}
	seen := map[types.EntityType]bool{t: true}
	for lvl := 1; len(frontier) > 0; lvl++ {
		var next []types.EntityType
		for _, x := range frontier {
			for _, p := range s.RS.Entities[x].ParentTypes {
				if !seen[p] {
					seen[p] = true
					dist[p] = lvl
					next = append(next, p)
				}
			}
		}
		frontier = next
	}
	return dist
}

// declaredEntityPaths: guarded variable paths whose type is a declared (non-enum, non-action) entity type.
func (c *C15Gen) declaredEntityPaths() []c15Path {
	var out []c15Path
	for _, p := range c.paths {
		et, ok := p.ty.(resolved.EntityType)
		if !ok || !c.satisfied(p) {
			continue
		}
		if _, declared := c.S.RS.Entities[types.EntityType(et)]; declared {
			out = append(out, p)
		}
	}
	return out
}

// entityOfType: an expression of entity type t for the right-hand side of `in`: mostly the literal with the id the
// stores connect ("a"), sometimes another id, sometimes a variable path of that type.
func (c *C15Gen) entityOfType(t types.EntityType) ast.IsNode {
	if c.chance(0.15) {
		var cands []c15Path
		for _, p := range c.declaredEntityPaths() {
			if types.EntityType(p.ty.(resolved.EntityType)) == t {
				cands = append(cands, p)
			}
		}
		if len(cands) > 0 {
			return cands[c.pick(len(cands))].node
		}
	}
	if _, isEnum := c.S.RS.Enums[t]; isEnum || c.chance(0.2) {
		return lit(c.uidOf(t))
	}
	return lit(types.NewEntityUID(t, "a"))
}

// condBool: a test for an if-then-else that builds a LUB: mostly one the validator types Bool (a comparison on a
// Long / String / Bool variable path), so that BOTH branches contribute; sometimes any leaf (possibly singleton-typed).
func (c *C15Gen) condBool() ast.IsNode {
	if c.chance(0.75) {
		var cands []c15Path
		for _, p := range c.paths {
			switch p.ty.(type) {
			case resolved.LongType, resolved.StringType, resolved.BoolType:
				if c.satisfied(p) {
					cands = append(cands, p)
				}
			}
		}
		if len(cands) > 0 {
			p := cands[c.pick(len(cands))]
			switch p.ty.(type) {
			case resolved.LongType:
				return c.cmpNode(c.pick(4), p.node, lit(types.Long(c.G.Long())))
			case resolved.StringType:
				if c.chance(0.5) {
					return ast.NodeTypeLike{Arg: p.node, Value: c.G.Pattern()}
				}
				return eqN(p.node, lit(types.String(c.G.Str())))
			}
			return p.node
		}
	}
	return c.boolLeaf()
}

// multiTypeRHS builds a right operand of `in` whose entity LUB holds exactly the types ts (len >= 1).
func (c *C15Gen) multiTypeRHS(ts []types.EntityType) (ast.IsNode, string) {
	es := make([]ast.IsNode, len(ts))
	for i, j := range c.G.R.Perm(len(ts)) {
		es[i] = c.entityOfType(ts[j])
	}
	cond := func() ast.IsNode { return c.condBool() }
	k := c.pick(20)
	switch {
	case k < 10 || len(es) == 1:
		if len(es) == 1 && c.chance(0.5) {
			return es[0], "entity"
		}
		return ast.NodeTypeSet{Elements: es}, "set-literal"
	case k < 13: // an ENTITY-typed operand: nested if-then-else over the elements
		n := es[len(es)-1]
		for i := len(es) - 2; i >= 0; i-- {
			n = iteN(cond(), es[i], n)
		}
		return n, "entity-ite"
	case k < 16: // least upper bound of two set literals
		cut := 1 + c.pick(len(es)-1)
		return iteN(cond(), ast.NodeTypeSet{Elements: es[:cut]}, ast.NodeTypeSet{Elements: es[cut:]}), "set-ite"
	case k < 18: // a set literal with an if-then-else element
		rest := append([]ast.IsNode{iteN(cond(), es[0], es[1])}, es[2:]...)
		if c.chance(0.5) {
			rest = append(rest, es[c.pick(len(es))])
		}
		return ast.NodeTypeSet{Elements: rest}, "set-with-ite-element"
	default: // a set-typed variable path joined with a literal set
		for _, p := range c.paths {
			st, ok := p.ty.(resolved.SetType)
			if !ok || !c.satisfied(p) {
				continue
			}
			et, ok := st.Element.(resolved.EntityType)
			if !ok {
				continue
			}
			for i, t := range ts {
				if t == types.EntityType(et) {
					var others []ast.IsNode
					for j := range ts {
						if j != i {
							others = append(others, c.entityOfType(ts[j]))
						}
					}
					if len(others) == 0 {
						return p.node, "set-path"
					}
					return iteN(cond(), p.node, ast.NodeTypeSet{Elements: others}), "set-path-ite"
				}
			}
		}
		return ast.NodeTypeSet{Elements: es}, "set-literal"
	}
}

// unsafeUse: a Bool expression that reads an optional attribute WITHOUT the guard (fails at run time when absent).
func (c *C15Gen) unsafeUse(d int) (ast.IsNode, bool) {
	var cands []c15Path
	for _, p := range c.paths {
		if len(p.needs) > 0 && !c.satisfied(p) {
			cands = append(cands, p)
		}
	}
	if len(cands) == 0 {
		return nil, false
	}
	p := cands[c.pick(len(cands))]
	return c.useBool(p.node, p.ty, d), true
}

// singletonOf: an expression the validator types as the singleton `val` (without any capability of interest).
func (c *C15Gen) singletonOf(val bool, d int) ast.IsNode {
	for i := 0; i < 8; i++ {
		if s, v := c.singleton(d); v == val {
			return s
		}
	}
	return lit(types.Boolean(val))
}

// guardWrap puts `test` in front of `x` so that x is evaluated exactly when test is true.
func (c *C15Gen) guardWrap(test, x ast.IsNode, d int) (ast.IsNode, string) {
	ok := func() ast.IsNode {
		if d > 1 && c.chance(0.5) {
			return c.boolExpr(d - 2)
		}
		return lit(types.Boolean(c.chance(0.5)))
	}
	switch k := c.pick(20); {
	case k < 6:
		return andN(test, x), "and"
	case k < 9:
		return orN(notN(test), x), "not-or"
	case k < 13:
		return iteN(test, x, ok()), "if-then"
	case k < 15:
		return iteN(notN(test), ok(), x), "if-not-else"
	case k < 17: // the test inside a conjunction: False && b is False, (Bool && True) stays Bool
		return andN(andN(test, c.singletonOf(true, 1)), x), "and-and"
	case k < 19: // False || False is False
		return andN(orN(test, c.singletonOf(false, 1)), x), "or-false-and"
	}
	return notN(andN(test, x)), "not-and"
}

// inLubGuard: see the file comment.
func (c *C15Gen) inLubGuard(d int) (ast.IsNode, bool) {
	paths := c.declaredEntityPaths()
	if len(paths) == 0 {
		return nil, false
	}
	// ---- left operand and its static entity types
	var lhs ast.IsNode
	var ltys []types.EntityType
	pickPath := func() c15Path {
		if c.chance(0.6) {
			var roots []c15Path
			for _, p := range paths {
				if p.nsegs == 0 {
					roots = append(roots, p)
				}
			}
			if len(roots) > 0 {
				return roots[c.pick(len(roots))]
			}
		}
		return paths[c.pick(len(paths))]
	}
	lform := "path"
	switch k := c.pick(10); {
	case k < 7:
		p := pickPath()
		lhs, ltys = p.node, []types.EntityType{types.EntityType(p.ty.(resolved.EntityType))}
	case k < 9:
		p, q := pickPath(), pickPath()
		lhs = iteN(c.condBool(), p.node, q.node)
		ltys = []types.EntityType{types.EntityType(p.ty.(resolved.EntityType)), types.EntityType(q.ty.(resolved.EntityType))}
		lform = "ite"
	default:
		t := c.S.EntTypes[c.pick(len(c.S.EntTypes))]
		lhs, ltys = lit(types.NewEntityUID(t, "a")), []types.EntityType{t}
		lform = "literal"
	}
	// ---- ancestors (membership possible) and unrelated types (membership impossible)
	anc := map[types.EntityType]int{}
	for _, l := range ltys {
		for t, n := range c.S.strictAncestors(l) {
			if m, ok := anc[t]; !ok || n < m {
				anc[t] = n
			}
		}
	}
	for _, l := range ltys {
		delete(anc, l)
	}
	var ancs, unrel []types.EntityType
	for _, t := range c.S.AllEntityTypes() {
		isL := false
		for _, l := range ltys {
			isL = isL || l == t
		}
		if isL {
			continue
		}
		if _, ok := anc[t]; ok {
			ancs = append(ancs, t)
		} else {
			unrel = append(unrel, t)
		}
	}
	takeSome := func(from []types.EntityType, n int) []types.EntityType {
		var out []types.EntityType
		for _, i := range c.G.R.Perm(len(from)) {
			if len(out) < n {
				out = append(out, from[i])
			}
		}
		return out
	}
	// ---- which types the right-hand LUB holds
	var rtys []types.EntityType
	mode := ""
	k := c.pick(20)
	switch {
	case len(ancs) > 0 && len(unrel) > 0 && k < 13:
		a := ancs[c.pick(len(ancs))]
		if c.chance(0.5) { // prefer a type several memberOf levels away
			for _, t := range ancs {
				if anc[t] > anc[a] {
					a = t
				}
			}
		}
		rtys = append([]types.EntityType{a}, takeSome(unrel, 1+c.pick(2))...)
		mode = "reach-one"
		if anc[a] > 1 {
			mode = "reach-one-multilevel"
		}
		if len(ancs) > 1 && c.chance(0.2) {
			rtys = append(rtys, takeSome(ancs, 1)...)
			mode = "reach-some"
		}
	case len(unrel) > 0 && k < 16:
		rtys = append([]types.EntityType{ltys[c.pick(len(ltys))]}, takeSome(unrel, 1+c.pick(2))...)
		mode = "reach-self"
	case len(unrel) >= 2:
		rtys = takeSome(unrel, 2+c.pick(2))
		mode = "unreachable"
	case len(ancs) >= 2:
		rtys = takeSome(ancs, 2+c.pick(2))
		mode = "reach-all"
	default:
		return nil, false
	}
	// dedupe
	seen := map[types.EntityType]bool{}
	var uniq []types.EntityType
	for _, t := range rtys {
		if !seen[t] {
			seen[t] = true
			uniq = append(uniq, t)
		}
	}
	rtys = uniq
	rhs, rform := c.multiTypeRHS(rtys)
	// where the reachable type sits in the SORTED right-hand LUB
	pos := ""
	if mode == "reach-one" || mode == "reach-one-multilevel" || mode == "reach-self" {
		sorted := append([]types.EntityType{}, rtys...)
		sort.Slice(sorted, func(i, j int) bool { return sorted[i] < sorted[j] })
		switch rtys[0] {
		case sorted[0]:
			pos = ":reachable-sorts-first"
		case sorted[len(sorted)-1]:
			pos = ":reachable-sorts-last"
		default:
			pos = ":reachable-sorts-middle"
		}
	}
	var test ast.IsNode = ast.NodeTypeIn{BinaryNode: bin(lhs, rhs)}
	op := "in"
	if c.chance(0.2) {
		test = ast.NodeTypeIsIn{NodeTypeIs: ast.NodeTypeIs{Left: lhs, EntityType: ltys[c.pick(len(ltys))]}, Entity: rhs}
		op = "is-in"
	}
	c.Probe = test
	// ---- the guarded operand
	var x ast.IsNode
	xk := "junk"
	switch k := c.pick(20); {
	case k < 12:
		x = c.junkExpr(d - 1)
	case k < 16:
		if u, ok := c.unsafeUse(d - 1); ok {
			x, xk = u, "unsafe-access"
		} else {
			x = c.junkExpr(d - 1)
		}
	default:
		x, xk = c.boolExpr(d-1), "well-typed"
	}
	n, wrap := c.guardWrap(test, x, d)
	c.note("in-lub:" + mode + pos)
	c.note("in-lub:lhs=" + lform)
	c.note("in-lub:rhs=" + rform)
	c.note("in-lub:op=" + op)
	c.note("in-lub:wrap=" + wrap)
	c.note("in-lub:operand=" + xk)
	return n, true
}
