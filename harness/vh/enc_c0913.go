package vh

// Canonical renderings shared with the Lean driver for C09 / C13 (Driver/Ops/C09.lean, C13.lean,
// Model/Json/Tree.lean `J.canon`).  JSON documents are handled as generic trees decoded by
// encoding/json with UseNumber: bytes <-> tree is trusted, the codecs under test never see these helpers.

import (
	"bytes"
	"encoding/json"
	"fmt"
	"math/big"
	"regexp"
	"sort"
	"strings"

	"github.com/cedar-policy/cedar-go/types"
	"github.com/cedar-policy/cedar-go/x/exp/ast"
	"github.com/cedar-policy/cedar-go/x/exp/schema/resolved"
)

// GenericDecode decodes one JSON document into map[string]any / []any / string / bool / json.Number / nil.
func GenericDecode(b []byte) (any, error) {
	dec := json.NewDecoder(bytes.NewReader(b))
	dec.UseNumber()
	var v any
	if err := dec.Decode(&v); err != nil {
		return nil, err
	}
	if dec.More() {
		return nil, fmt.Errorf("trailing data")
	}
	return v, nil
}

// SortedJSON re-encodes a generic tree: object keys sorted, no HTML escaping, number literals kept.
func SortedJSON(v any) []byte {
	var buf bytes.Buffer
	enc := json.NewEncoder(&buf)
	enc.SetEscapeHTML(false)
	if err := enc.Encode(v); err != nil {
		panic(err)
	}
	return bytes.TrimRight(buf.Bytes(), "\n")
}

var intLit = regexp.MustCompile(`^-?[0-9]+$`)
var fracLit = regexp.MustCompile(`^(-?)([0-9]+)\.([0-9]+)$`)

// HasExponentLiteral reports whether the tree holds a number literal written with an exponent
// (`1e2` and `100` are the same tree for the Lean model, but not for Go's json.Number).
func HasExponentLiteral(v any) bool {
	switch t := v.(type) {
	case json.Number:
		return strings.ContainsAny(string(t), "eE")
	case []any:
		for _, x := range t {
			if HasExponentLiteral(x) {
				return true
			}
		}
	case map[string]any:
		for _, x := range t {
			if HasExponentLiteral(x) {
				return true
			}
		}
	}
	return false
}

func canonNum(n json.Number) string {
	s := string(n)
	if intLit.MatchString(s) {
		var z big.Int
		z.SetString(s, 10)
		return "N" + z.String()
	}
	if m := fracLit.FindStringSubmatch(s); m != nil {
		var z big.Int
		z.SetString(m[1]+m[2]+m[3], 10)
		return fmt.Sprintf("N%se-%d", z.String(), len(m[3]))
	}
	return "NEXP" + s
}

// CanonJSON renders a generic tree canonically; sortArrays renders every array sorted (value documents).
func CanonJSON(v any, sortArrays bool) string {
	switch t := v.(type) {
	case nil:
		return "Z"
	case bool:
		if t {
			return "T"
		}
		return "F"
	case json.Number:
		return canonNum(t)
	case string:
		return "S" + Hex(t)
	case []any:
		xs := make([]string, len(t))
		for i, x := range t {
			xs[i] = CanonJSON(x, sortArrays)
		}
		if sortArrays {
			sort.Strings(xs)
		}
		return "[" + strings.Join(xs, ",") + "]"
	case map[string]any:
		ks := make([]string, 0, len(t))
		for k := range t {
			ks = append(ks, k)
		}
		sort.Strings(ks)
		xs := make([]string, len(ks))
		for i, k := range ks {
			xs[i] = Hex(k) + ":" + CanonJSON(t[k], sortArrays)
		}
		return "{" + strings.Join(xs, ",") + "}"
	}
	panic(fmt.Sprintf("CanonJSON: %T", v))
}

// canonNodeJSON walks a JsonExpr object produced by nodeJSON.MarshalJSON: the payload of "Value" is a
// value document (arrays are sets: sorted), every other array is ordered.
func canonNodeJSON(v any) string {
	m, ok := v.(map[string]any)
	if !ok || len(m) != 1 {
		return CanonJSON(v, false)
	}
	for k, payload := range m {
		switch k {
		case "Value":
			return "{" + Hex(k) + ":" + CanonJSON(payload, true) + "}"
		case "Var":
			return CanonJSON(v, false)
		case "Set":
			return "{" + Hex(k) + ":" + canonNodeList(payload) + "}"
		case "Record":
			return "{" + Hex(k) + ":" + canonNodeMap(payload, nil) + "}"
		case "!", "neg", "isEmpty", "==", "!=", "in", "<", "<=", ">", ">=", "&&", "||", "+", "-", "*", "contains", "containsAll",
			"containsAny", "getTag", "hasTag", ".", "has", "is", "like", "if-then-else":
			return "{" + Hex(k) + ":" + canonNodeMap(payload, map[string]bool{"attr": true, "entity_type": true, "pattern": true}) + "}"
		default: // extension call
			return "{" + Hex(k) + ":" + canonNodeList(payload) + "}"
		}
	}
	return ""
}

func canonNodeList(v any) string {
	a, ok := v.([]any)
	if !ok {
		return CanonJSON(v, false)
	}
	xs := make([]string, len(a))
	for i, x := range a {
		xs[i] = canonNodeJSON(x)
	}
	return "[" + strings.Join(xs, ",") + "]"
}

func canonNodeMap(v any, plain map[string]bool) string {
	m, ok := v.(map[string]any)
	if !ok {
		return CanonJSON(v, false)
	}
	ks := make([]string, 0, len(m))
	for k := range m {
		ks = append(ks, k)
	}
	sort.Strings(ks)
	xs := make([]string, len(ks))
	for i, k := range ks {
		if plain[k] {
			xs[i] = Hex(k) + ":" + CanonJSON(m[k], false)
		} else {
			xs[i] = Hex(k) + ":" + canonNodeJSON(m[k])
		}
	}
	return "{" + strings.Join(xs, ",") + "}"
}

// CanonPolicyJSON renders a policy document produced by Policy.MarshalJSON.
func CanonPolicyJSON(v any) string {
	m, ok := v.(map[string]any)
	if !ok {
		return CanonJSON(v, false)
	}
	ks := make([]string, 0, len(m))
	for k := range m {
		ks = append(ks, k)
	}
	sort.Strings(ks)
	xs := make([]string, len(ks))
	for i, k := range ks {
		if k == "conditions" {
			conds, _ := m[k].([]any)
			cs := make([]string, len(conds))
			for j, c := range conds {
				cm, _ := c.(map[string]any)
				cs[j] = "{" + Hex("body") + ":" + canonNodeJSON(cm["body"]) + "," + Hex("kind") + ":" + CanonJSON(cm["kind"], false) + "}"
			}
			xs[i] = Hex(k) + ":[" + strings.Join(cs, ",") + "]"
		} else {
			xs[i] = Hex(k) + ":" + CanonJSON(m[k], false)
		}
	}
	return "{" + strings.Join(xs, ",") + "}"
}

// CanonPolicySetJSON renders the output of PolicySet.MarshalJSON.
func CanonPolicySetJSON(v any) string {
	m, ok := v.(map[string]any)
	if !ok {
		return CanonJSON(v, false)
	}
	sp, ok := m["staticPolicies"].(map[string]any)
	if !ok || len(m) != 1 {
		return CanonJSON(v, false)
	}
	ks := make([]string, 0, len(sp))
	for k := range sp {
		ks = append(ks, k)
	}
	sort.Strings(ks)
	xs := make([]string, len(ks))
	for i, k := range ks {
		xs[i] = Hex(k) + ":" + CanonPolicyJSON(sp[k])
	}
	return "{" + Hex("staticPolicies") + ":{" + strings.Join(xs, ",") + "}}"
}

// ---- canonical rendering of decoded policies (Lean: showPolicyC09) ----

var unKeysC09 = map[string]string{"not": "!", "neg": "neg", "isEmpty": "isEmpty"}

func ShowPatternC09(p types.Pattern) string {
	var xs []string
	for _, c := range types.VerifPatternComps(p) {
		t := "l"
		if c.Wildcard {
			t = "w"
		}
		xs = append(xs, t+Hex(c.Literal))
	}
	return "[" + strings.Join(xs, ",") + "]"
}

func ShowExprC09(n ast.IsNode) string {
	bin := func(op string, b ast.BinaryNode) string {
		return "(bin " + op + " " + ShowExprC09(b.Left) + " " + ShowExprC09(b.Right) + ")"
	}
	un := func(op string, u ast.UnaryNode) string { return "(un " + op + " " + ShowExprC09(u.Arg) + ")" }
	switch v := n.(type) {
	case ast.NodeValue:
		return "(lit " + ShowValue(v.Value) + ")"
	case ast.NodeTypeVariable:
		return "(var " + string(v.Name) + ")"
	case ast.NodeTypeAnd:
		return bin("&&", v.BinaryNode)
	case ast.NodeTypeOr:
		return bin("||", v.BinaryNode)
	case ast.NodeTypeEquals:
		return bin("==", v.BinaryNode)
	case ast.NodeTypeNotEquals:
		return bin("!=", v.BinaryNode)
	case ast.NodeTypeLessThan:
		return bin("<", v.BinaryNode)
	case ast.NodeTypeLessThanOrEqual:
		return bin("<=", v.BinaryNode)
	case ast.NodeTypeGreaterThan:
		return bin(">", v.BinaryNode)
	case ast.NodeTypeGreaterThanOrEqual:
		return bin(">=", v.BinaryNode)
	case ast.NodeTypeAdd:
		return bin("+", v.BinaryNode)
	case ast.NodeTypeSub:
		return bin("-", v.BinaryNode)
	case ast.NodeTypeMult:
		return bin("*", v.BinaryNode)
	case ast.NodeTypeIn:
		return bin("in", v.BinaryNode)
	case ast.NodeTypeContains:
		return bin("contains", v.BinaryNode)
	case ast.NodeTypeContainsAll:
		return bin("containsAll", v.BinaryNode)
	case ast.NodeTypeContainsAny:
		return bin("containsAny", v.BinaryNode)
	case ast.NodeTypeGetTag:
		return bin("getTag", v.BinaryNode)
	case ast.NodeTypeHasTag:
		return bin("hasTag", v.BinaryNode)
	case ast.NodeTypeNot:
		return un("!", v.UnaryNode)
	case ast.NodeTypeNegate:
		return un("neg", v.UnaryNode)
	case ast.NodeTypeIsEmpty:
		return un("isEmpty", v.UnaryNode)
	case ast.NodeTypeIfThenElse:
		return "(ite " + ShowExprC09(v.If) + " " + ShowExprC09(v.Then) + " " + ShowExprC09(v.Else) + ")"
	case ast.NodeTypeAccess:
		return "(. " + ShowExprC09(v.Arg) + " " + Hex(string(v.Value)) + ")"
	case ast.NodeTypeHas:
		return "(has " + ShowExprC09(v.Arg) + " " + Hex(string(v.Value)) + ")"
	case ast.NodeTypeLike:
		return "(like " + ShowExprC09(v.Arg) + " " + ShowPatternC09(v.Value) + ")"
	case ast.NodeTypeIs:
		return "(is " + ShowExprC09(v.Left) + " " + Hex(string(v.EntityType)) + ")"
	case ast.NodeTypeIsIn:
		return "(isin " + ShowExprC09(v.Left) + " " + Hex(string(v.EntityType)) + " " + ShowExprC09(v.Entity) + ")"
	case ast.NodeTypeSet:
		var sb strings.Builder
		sb.WriteString("(set")
		for _, e := range v.Elements {
			sb.WriteString(" " + ShowExprC09(e))
		}
		sb.WriteString(")")
		return sb.String()
	case ast.NodeTypeRecord:
		var xs []string
		for _, e := range v.Elements {
			xs = append(xs, Hex(string(e.Key))+"="+ShowExprC09(e.Value))
		}
		xs = sortDedup(xs)
		var sb strings.Builder
		sb.WriteString("(rec")
		for _, x := range xs {
			sb.WriteString(" " + x)
		}
		sb.WriteString(")")
		return sb.String()
	case ast.NodeTypeExtensionCall:
		var sb strings.Builder
		sb.WriteString("(call " + Hex(string(v.Name)))
		for _, e := range v.Args {
			sb.WriteString(" " + ShowExprC09(e))
		}
		sb.WriteString(")")
		return sb.String()
	}
	return fmt.Sprintf("<unknown node %T>", n)
}

func showUIDC09(u types.EntityUID) string { return Hex(string(u.Type)) + ":" + Hex(string(u.ID)) }

func ShowScopeC09(s ast.IsScopeNode) string {
	switch t := s.(type) {
	case ast.ScopeTypeAll:
		return "all"
	case ast.ScopeTypeEq:
		return "eq " + showUIDC09(t.Entity)
	case ast.ScopeTypeIn:
		return "in " + showUIDC09(t.Entity)
	case ast.ScopeTypeInSet:
		xs := make([]string, len(t.Entities))
		for i, e := range t.Entities {
			xs[i] = showUIDC09(e)
		}
		return "inset [" + strings.Join(xs, ",") + "]"
	case ast.ScopeTypeIs:
		return "is " + Hex(string(t.Type))
	case ast.ScopeTypeIsIn:
		return "isin " + Hex(string(t.Type)) + " " + showUIDC09(t.Entity)
	}
	return fmt.Sprintf("<unknown scope %T>", s)
}

// ShowPolicyC09 renders a policy canonically: annotations and record-literal entries sorted by key.
func ShowPolicyC09(p *ast.Policy) string {
	eff := "forbid"
	if p.Effect == ast.EffectPermit {
		eff = "permit"
	}
	var anns []string
	for _, a := range p.Annotations {
		anns = append(anns, Hex(string(a.Key))+"="+Hex(string(a.Value)))
	}
	anns = sortDedup(anns)
	var sb strings.Builder
	sb.WriteString(eff + " ann=[" + strings.Join(anns, ",") + "] P=" + ShowScopeC09(p.Principal) + " A=" + ShowScopeC09(p.Action) + " R=" + ShowScopeC09(p.Resource))
	for _, c := range p.Conditions {
		if c.Condition == ast.ConditionWhen {
			sb.WriteString(" when ")
		} else {
			sb.WriteString(" unless ")
		}
		sb.WriteString(ShowExprC09(c.Body))
	}
	return sb.String()
}

// ---- canonical rendering of decoded entities / requests (Lean: showEntitiesC13 …) ----

func ShowUIDC13(u types.EntityUID) string { return "E" + Hex(string(u.Type)) + ":" + Hex(string(u.ID)) }

func ShowEntityC13(e types.Entity) string {
	var ps []string
	for p := range e.Parents.All() {
		ps = append(ps, ShowUIDC13(p))
	}
	ps = sortDedup(ps)
	return ShowUIDC13(e.UID) + " parents=[" + strings.Join(ps, ",") + "] attrs=" + ShowValue(e.Attributes) + " tags=" + ShowValue(e.Tags)
}

func ShowEntitiesC13(m types.EntityMap) string {
	var xs []string
	for _, e := range m {
		xs = append(xs, ShowEntityC13(e))
	}
	return strings.Join(sortDedup(xs), ";")
}

func ShowRequestC13(r types.Request) string {
	return "P=" + ShowUIDC13(r.Principal) + " A=" + ShowUIDC13(r.Action) + " R=" + ShowUIDC13(r.Resource) + " C=" + ShowValue(r.Context)
}

// EncSchemaTypeC13 encodes a resolved schema type for the `coerce` op.
func EncSchemaTypeC13(t resolved.IsType) any {
	switch tt := t.(type) {
	case resolved.StringType:
		return []any{"str"}
	case resolved.LongType:
		return []any{"long"}
	case resolved.BoolType:
		return []any{"bool"}
	case resolved.EntityType:
		return []any{"entity", Hex(string(tt))}
	case resolved.ExtensionType:
		return []any{"ext", string(tt)}
	case resolved.SetType:
		return []any{"set", EncSchemaTypeC13(tt.Element)}
	case resolved.RecordType:
		ks := make([]string, 0, len(tt))
		for k := range tt {
			ks = append(ks, string(k))
		}
		sort.Strings(ks)
		as := []any{}
		for _, k := range ks {
			as = append(as, []any{Hex(k), EncSchemaTypeC13(tt[types.String(k)].Type)})
		}
		return []any{"record", as}
	}
	panic(fmt.Sprintf("EncSchemaTypeC13: %T", t))
}

// FirstWordC13 is the outcome class of a canonical output ("ok", "err", "panic").
func FirstWordC13(s string) string { return firstWord(s) }
