package vh

// C15 generators: random schemas (entity types with required/optional attributes of every type,
// tags, acyclic memberOf hierarchies, enum types, namespaces, common types, actions with appliesTo
// lists, context records and action groups), type-directed policy generation against a schema
// (well-typed by construction + near-miss mutations) and schema-conforming requests / entity stores.
//
// Never generated here (they belong to C16, which runs every validator call in a crash-isolating worker
// process; this stream runs the validator in-process): self-referential entity hierarchies
// (`entity G in [G]`, or any cycle — before the repair of `entity-descendant-unbounded-recursion` a fatal,
// unrecoverable stack overflow) and set/record/extension *literal values* (ast.NodeValue only ever holds
// Boolean, Long, String or EntityUID here; before the repair of `typeofvalue-non-entity-literal-panic` a panic).

import (
	"fmt"
	"sort"
	"strings"

	"github.com/cedar-policy/cedar-go/types"
	"github.com/cedar-policy/cedar-go/x/exp/ast"
	"github.com/cedar-policy/cedar-go/x/exp/schema"
	sast "github.com/cedar-policy/cedar-go/x/exp/schema/ast"
	"github.com/cedar-policy/cedar-go/x/exp/schema/resolved"
)

// ---------------------------------------------------------------------------------------------
// schema
// ---------------------------------------------------------------------------------------------

// C15Env is one request environment the schema allows.
type C15Env struct {
	Action types.EntityUID
	PType  types.EntityType
	RType  types.EntityType
	Ctx    resolved.RecordType
}

func (e C15Env) String() string { return fmt.Sprintf("(%s, %s, %s)", e.Action, e.PType, e.RType) }

// C15Schema is a generated schema together with what the generators need to know about it.
type C15Schema struct {
	AST        *sast.Schema
	RS         *resolved.Schema
	Text       string
	EntTypes   []types.EntityType // declared non-enum entity types, hierarchy order (parents later)
	EnumTypes  []types.EntityType
	ActionUIDs []types.EntityUID // sorted, groups included
	Envs       []C15Env
	Frag       bool // (historic) restricted schema for the Lean correspondence; always false since the model covers entities
}

var c15TypeNames = []string{"User", "Group", "Doc", "Folder", "Org", "Team", "Device"}
var c15AttrNames = []types.String{"name", "age", "n", "m", "s", "b", "flag", "owner", "mgr", "peer", "tags", "ip", "dec", "dt", "dur", "r", "q", "ss", "ls", "es", "if", "é x", "opt", "in"}
var c15IDs = []types.String{"a", "b", "c"}
var C15TagKeys = []types.String{"k", "k2", "a"}

type c15TypeGen struct {
	g        *Gen
	entRefs  []string // fully qualified names usable as entity references
	common   []string // common type names usable as references
	noEntity bool
}

func (tg *c15TypeGen) prim() sast.IsType {
	switch tg.g.pick(10) {
	case 0, 1, 2:
		return sast.Long()
	case 3, 4:
		return sast.String()
	case 5:
		return sast.Bool()
	case 6:
		return sast.Decimal()
	case 7:
		return sast.Datetime()
	case 8:
		return sast.Duration()
	}
	return sast.IPAddr()
}

func (tg *c15TypeGen) record(depth int, n int) sast.RecordType {
	rec := sast.RecordType{}
	perm := tg.g.R.Perm(len(c15AttrNames))
	for i := 0; i < n && i < len(perm); i++ {
		name := c15AttrNames[perm[i]]
		rec[name] = sast.Attribute{Type: tg.typ(depth), Optional: tg.g.chance(0.4)}
	}
	return rec
}

func (tg *c15TypeGen) typ(depth int) sast.IsType {
	k := tg.g.pick(12)
	switch {
	case k < 5:
		return tg.prim()
	case k < 7:
		if !tg.noEntity && len(tg.entRefs) > 0 {
			return sast.EntityType(types.EntityType(tg.entRefs[tg.g.pick(len(tg.entRefs))]))
		}
		return tg.prim()
	case k < 9:
		if depth > 0 {
			return sast.Set(tg.typ(depth - 1))
		}
		return sast.Set(tg.prim())
	case k < 11:
		if depth > 0 {
			return tg.record(depth-1, 1+tg.g.pick(3))
		}
		return tg.prim()
	default:
		if len(tg.common) > 0 {
			return sast.Type(types.Path(tg.common[tg.g.pick(len(tg.common))]))
		}
		return tg.prim()
	}
}

// C15GenSchema builds a random schema AST and resolves it through the real resolver.
func (g *Gen) C15GenSchema(frag bool) (*C15Schema, error) { return g.c15GenSchema(false) }

// C15GenSchemaHier: the same kind of schema with a richer memberOf hierarchy: 5-7 entity types, long chains
// (each type is mostly a member of the next one declared) next to unrelated types; the type NAMES are assigned at
// random, so the sorted order of the names is independent of the hierarchy order.
func (g *Gen) C15GenSchemaHier() (*C15Schema, error) { return g.c15GenSchema(true) }

func (g *Gen) c15GenSchema(hier bool) (*C15Schema, error) {
	frag := false
	// Since the entity extension of the Lean model (has / . on entity types, in, is, is..in, getTag, hasTag, every
	// scope form) the "fragment" is the whole expression language: the schemas of the fragment stream are full
	// schemas (attributes, tags, memberOf, enums, namespaces, action groups) and its policies use every operator.
	// The parameter only says which stream asks.
	frag = false
	s := &C15Schema{Frag: frag}
	ast0 := &sast.Schema{Entities: sast.Entities{}, Enums: sast.Enums{}, Actions: sast.Actions{}, CommonTypes: sast.CommonTypes{}, Namespaces: sast.Namespaces{}}
	nsMode := g.pick(6) // 0: everything in NS, 1: mixed, else bare
	if frag {
		nsMode = 5
	}
	ns := sast.Namespace{Entities: sast.Entities{}, Enums: sast.Enums{}, Actions: sast.Actions{}, CommonTypes: sast.CommonTypes{}}
	nT := 3 + g.pick(3)
	if frag {
		nT = 2 + g.pick(2)
	}
	if hier {
		nT = 5 + g.pick(3)
	}
	perm := g.R.Perm(len(c15TypeNames))[:nT]
	type decl struct {
		base string
		inNS bool
		full string
	}
	var decls []decl
	for _, i := range perm {
		d := decl{base: c15TypeNames[i]}
		d.inNS = nsMode == 0 || (nsMode == 1 && g.chance(0.5))
		d.full = d.base
		if d.inNS {
			d.full = "NS::" + d.base
		}
		decls = append(decls, d)
	}
	var enumFull string
	hasEnum := !frag && g.chance(0.5)
	enumInNS := nsMode == 0
	if hasEnum {
		enumFull = "Color"
		if enumInNS {
			enumFull = "NS::Color"
		}
	}
	tg := &c15TypeGen{g: g, noEntity: false}
	for _, d := range decls {
		tg.entRefs = append(tg.entRefs, d.full)
	}
	if hasEnum {
		tg.entRefs = append(tg.entRefs, enumFull)
	}
	// common types live in the empty namespace (qualified references are then unambiguous)
	if g.chance(0.4) {
		ast0.CommonTypes["CT"] = sast.CommonType{Type: tg.record(1, 2+g.pick(2))}
		if g.chance(0.4) {
			ast0.CommonTypes["CL"] = sast.CommonType{Type: sast.Set(tg.prim())}
			tg.common = append(tg.common, "CL")
		}
		tg.common = append(tg.common, "CT")
	}
	for i, d := range decls {
		e := sast.Entity{}
		if !frag {
			// acyclic memberOf: parents only among later declarations
			for j := i + 1; j < len(decls); j++ {
				pEdge := 0.45
				if hier {
					pEdge = 0.2
					if j == i+1 {
						pEdge = 0.65
					}
				}
				if g.chance(pEdge) {
					e.ParentTypes = append(e.ParentTypes, sast.EntityTypeRef(decls[j].full))
				}
			}
			e.Shape = tg.record(2, 3+g.pick(5))
			if g.chance(0.55) {
				switch g.pick(6) {
				case 0:
					e.Tags = sast.String()
				case 1:
					e.Tags = sast.Set(sast.String())
				case 2:
					e.Tags = tg.record(0, 2)
				case 3:
					e.Tags = sast.EntityType(types.EntityType(tg.entRefs[g.pick(len(tg.entRefs))]))
				default:
					e.Tags = sast.Long()
				}
				if g.chance(0.5) {
					e.Shape["__tag:k"] = sast.Attribute{Type: sast.Long(), Optional: true}
				}
			}
			if g.chance(0.15) {
				e.Shape = nil // entity type without attributes
			}
		}
		if d.inNS {
			ns.Entities[types.Ident(d.base)] = e
		} else {
			ast0.Entities[types.Ident(d.base)] = e
		}
	}
	if hasEnum {
		en := sast.Enum{Values: []types.String{"red", "green", "blue"}}
		if enumInNS {
			ns.Enums["Color"] = en
		} else {
			ast0.Enums["Color"] = en
		}
	}
	// actions
	actInNS := nsMode == 0 || (nsMode == 1 && g.chance(0.5))
	acts := ast0.Actions
	if actInNS {
		acts = ns.Actions
	}
	var groups []types.String
	nG := g.pick(3)
	for i := 0; i < nG; i++ {
		name := types.String([]string{"grpA", "grpB"}[i])
		a := sast.Action{}
		if i == 1 && g.chance(0.5) {
			a.Parents = []sast.ParentRef{sast.ParentRefFromID("grpA")}
		}
		acts[name] = a
		groups = append(groups, name)
	}
	nA := 2 + g.pick(3)
	actNames := []types.String{"view", "edit", "del", "list"}
	for i := 0; i < nA; i++ {
		a := sast.Action{}
		for _, gr := range groups {
			if g.chance(0.5) {
				a.Parents = append(a.Parents, sast.ParentRefFromID(gr))
			}
		}
		if i > 0 && g.chance(0.15) {
			a.Parents = append(a.Parents, sast.ParentRefFromID(actNames[i-1]))
		}
		at := &sast.AppliesTo{}
		np, nr := 1+g.pick(2), 1+g.pick(2)
		pp := g.R.Perm(len(tg.entRefs))
		for k := 0; k < np && k < len(pp); k++ {
			at.Principals = append(at.Principals, sast.EntityTypeRef(tg.entRefs[pp[k]]))
		}
		rp := g.R.Perm(len(tg.entRefs))
		for k := 0; k < nr && k < len(rp); k++ {
			at.Resources = append(at.Resources, sast.EntityTypeRef(tg.entRefs[rp[k]]))
		}
		ctg := tg
		if frag {
			ctg = &c15TypeGen{g: g, entRefs: tg.entRefs, common: tg.common}
		}
		switch {
		case g.chance(0.08):
			at.Context = nil
		default:
			ctx := ctg.record(2, 3+g.pick(4))
			if g.chance(0.3) {
				// a pair of attribute paths whose dotted renderings coincide: context["a.b"].x / context.a.b.x
				xt := ctg.prim()
				ctx["a.b"] = sast.Attribute{Type: sast.RecordType{"x": sast.Attribute{Type: xt, Optional: true}}}
				ctx["a"] = sast.Attribute{Type: sast.RecordType{"b": sast.Attribute{Type: sast.RecordType{"x": sast.Attribute{Type: xt, Optional: true}}}}}
			}
			at.Context = ctx
		}
		a.AppliesTo = at
		acts[actNames[i]] = a
	}
	if len(ns.Entities)+len(ns.Enums)+len(ns.Actions) > 0 {
		ast0.Namespaces["NS"] = ns
	}
	s.AST = ast0
	sc := schema.NewSchemaFromAST(ast0)
	rs, err := sc.Resolve()
	if err != nil {
		return nil, fmt.Errorf("generated schema does not resolve: %w", err)
	}
	s.RS = rs
	if pn := Protect(func() {
		b, err := sc.MarshalCedar()
		if err == nil {
			s.Text = string(b)
		}
	}); pn != nil {
		s.Text = fmt.Sprintf("<MarshalCedar panicked: %v>", pn)
	}
	for _, d := range decls {
		s.EntTypes = append(s.EntTypes, types.EntityType(d.full))
	}
	if hasEnum {
		s.EnumTypes = append(s.EnumTypes, types.EntityType(enumFull))
	}
	for uid := range rs.Actions {
		s.ActionUIDs = append(s.ActionUIDs, uid)
	}
	sortedUIDs(s.ActionUIDs)
	for _, uid := range s.ActionUIDs {
		a := rs.Actions[uid]
		if a.AppliesTo == nil {
			continue
		}
		for _, pt := range a.AppliesTo.Principals {
			for _, rt := range a.AppliesTo.Resources {
				s.Envs = append(s.Envs, C15Env{Action: uid, PType: pt, RType: rt, Ctx: a.AppliesTo.Context})
			}
		}
	}
	return s, nil
}

func (s *C15Schema) IsEnum(t types.EntityType) bool { _, ok := s.RS.Enums[t]; return ok }

func (s *C15Schema) ActionType() types.EntityType { return s.ActionUIDs[0].Type }

// AllEntityTypes = declared entity types followed by enum types.
func (s *C15Schema) AllEntityTypes() []types.EntityType {
	return append(append([]types.EntityType{}, s.EntTypes...), s.EnumTypes...)
}

// DescendantOrSelf reports whether entities of type child can be `in` an entity of type anc (reflexive-transitive memberOf).
func (s *C15Schema) DescendantOrSelf(child, anc types.EntityType) bool {
	if child == anc {
		return true
	}
	seen := map[types.EntityType]bool{}
	var walk func(t types.EntityType) bool
	walk = func(t types.EntityType) bool {
		if seen[t] {
			return false
		}
		seen[t] = true
		for _, p := range s.RS.Entities[t].ParentTypes {
			if p == anc || walk(p) {
				return true
			}
		}
		return false
	}
	return walk(child)
}

// ActionClosure = transitive parents of an action in the schema.
func (s *C15Schema) ActionClosure(uid types.EntityUID) []types.EntityUID {
	seen := map[types.EntityUID]bool{}
	var out []types.EntityUID
	var walk func(u types.EntityUID)
	walk = func(u types.EntityUID) {
		for p := range s.RS.Actions[u].Entity.Parents.All() {
			if !seen[p] {
				seen[p] = true
				out = append(out, p)
				walk(p)
			}
		}
	}
	walk(uid)
	return sortedUIDs(out)
}

func c15SortedAttrs(r resolved.RecordType) []types.String {
	ks := make([]types.String, 0, len(r))
	for k := range r {
		ks = append(ks, k)
	}
	sort.Slice(ks, func(i, j int) bool { return ks[i] < ks[j] })
	return ks
}

// C15TypeKey is a canonical rendering of a resolved type (structural equality).
func C15TypeKey(t resolved.IsType) string {
	switch v := t.(type) {
	case resolved.StringType:
		return "String"
	case resolved.LongType:
		return "Long"
	case resolved.BoolType:
		return "Bool"
	case resolved.ExtensionType:
		return "ext:" + string(v)
	case resolved.EntityType:
		return "entity:" + string(v)
	case resolved.SetType:
		return "Set<" + C15TypeKey(v.Element) + ">"
	case resolved.RecordType:
		var sb strings.Builder
		sb.WriteString("{")
		for _, k := range c15SortedAttrs(v) {
			a := v[k]
			fmt.Fprintf(&sb, "%q", string(k))
			if a.Optional {
				sb.WriteString("?")
			}
			sb.WriteString(":" + C15TypeKey(a.Type) + ",")
		}
		sb.WriteString("}")
		return sb.String()
	}
	return "?"
}

// ---------------------------------------------------------------------------------------------
// typed paths from the request variables
// ---------------------------------------------------------------------------------------------

type c15Guard struct {
	base    ast.IsNode
	baseKey string
	attr    types.String
}

func (gd c15Guard) key() string { return gd.baseKey + "\x01" + string(gd.attr) }

type c15Path struct {
	node      ast.IsNode
	key       string
	ty        resolved.IsType
	needs     []c15Guard // one per optional segment, outermost first
	viaEntity bool
	nsegs     int
}

func acc(n ast.IsNode, a types.String) ast.IsNode {
	return ast.NodeTypeAccess{StrOpNode: ast.StrOpNode{Arg: n, Value: a}}
}
func hasN(n ast.IsNode, a types.String) ast.IsNode {
	return ast.NodeTypeHas{StrOpNode: ast.StrOpNode{Arg: n, Value: a}}
}
func vr(name string) ast.IsNode       { return ast.NodeTypeVariable{Name: types.String(name)} }
func andN(l, r ast.IsNode) ast.IsNode { return ast.NodeTypeAnd{BinaryNode: bin(l, r)} }
func orN(l, r ast.IsNode) ast.IsNode  { return ast.NodeTypeOr{BinaryNode: bin(l, r)} }
func notN(x ast.IsNode) ast.IsNode    { return ast.NodeTypeNot{UnaryNode: ast.UnaryNode{Arg: x}} }
func iteN(c, t, e ast.IsNode) ast.IsNode {
	return ast.NodeTypeIfThenElse{If: c, Then: t, Else: e}
}
func eqN(l, r ast.IsNode) ast.IsNode { return ast.NodeTypeEquals{BinaryNode: bin(l, r)} }

func (c *C15Gen) enumerate() {
	c.paths = nil
	var expand func(p c15Path, depth int)
	expand = func(p c15Path, depth int) {
		c.paths = append(c.paths, p)
		if depth <= 0 {
			return
		}
		var shape resolved.RecordType
		via := p.viaEntity
		switch t := p.ty.(type) {
		case resolved.RecordType:
			shape = t
		case resolved.EntityType:
			ent, ok := c.S.RS.Entities[types.EntityType(t)]
			if !ok {
				return
			}
			shape = ent.Shape
			via = true
		default:
			return
		}
		for _, k := range c15SortedAttrs(shape) {
			a := shape[k]
			ch := c15Path{node: acc(p.node, k), key: p.key + "\x00" + string(k), ty: a.Type, viaEntity: via, nsegs: p.nsegs + 1}
			ch.needs = append(append([]c15Guard{}, p.needs...), nil...)
			if a.Optional {
				ch.needs = append(ch.needs, c15Guard{base: p.node, baseKey: p.key, attr: k})
			}
			expand(ch, depth-1)
		}
	}
	expand(c15Path{node: vr("principal"), key: "principal", ty: resolved.EntityType(c.Env.PType)}, 3)
	expand(c15Path{node: vr("resource"), key: "resource", ty: resolved.EntityType(c.Env.RType)}, 3)
	expand(c15Path{node: vr("context"), key: "context", ty: c.Env.Ctx}, 3)
	expand(c15Path{node: vr("action"), key: "action", ty: resolved.EntityType(c.Env.Action.Type)}, 0)
}

// ---------------------------------------------------------------------------------------------
// expression generator
// ---------------------------------------------------------------------------------------------

// C15Mutations are the near-miss kinds; "" = well-typed by construction.
var C15Mutations = []string{"wrong-type", "missing-guard", "guard-misplaced", "wrong-entity-type", "mixed-cmp", "bad-call",
	"dead-branch", "bad-literal", "path-collision", "tag-collision", "lub-drop", "untyped-call", "in-lub-guard", "singleton-caps", "lub-attr", "in-operand-type", "action-in-mixed", "clause-caps"}

type C15Gen struct {
	G       *Gen
	S       *C15Schema
	Env     C15Env
	Strict  bool // aim at strict mode (literal constructor arguments, no empty sets, homogeneous equality)
	Mut     string
	MutDone bool
	Frag    bool // only operators of the Lean fragment
	paths   []c15Path
	caps    map[string]bool
	junk    int
	MutP    float64    // probability that a template-style near-miss fires at a given node (0 = default 0.5)
	Shapes  []string   // which shapes the in-lub-guard / singleton-caps generators built (evidence only)
	Probe   ast.IsNode // the `in` test built by in-lub-guard (the harness measures how often it is true at run time)
}

func NewC15Gen(g *Gen, s *C15Schema, env C15Env) *C15Gen {
	c := &C15Gen{G: g, S: s, Env: env, caps: map[string]bool{}, Frag: s.Frag}
	c.enumerate()
	return c
}

func (c *C15Gen) pick(n int) int        { return c.G.R.Intn(n) }
func (c *C15Gen) chance(p float64) bool { return c.G.R.Float64() < p }

func (c *C15Gen) satisfied(p c15Path) bool {
	for _, n := range p.needs {
		if !c.caps[n.key()] {
			return false
		}
	}
	return true
}

// withCaps runs f with extra capabilities in scope.
func (c *C15Gen) withCaps(keys []string, f func() ast.IsNode) ast.IsNode {
	var added []string
	for _, k := range keys {
		if !c.caps[k] {
			c.caps[k] = true
			added = append(added, k)
		}
	}
	n := f()
	for _, k := range added {
		delete(c.caps, k)
	}
	return n
}

var c15Prims = []resolved.IsType{resolved.LongType{}, resolved.StringType{}, resolved.BoolType{},
	resolved.ExtensionType("decimal"), resolved.ExtensionType("datetime"), resolved.ExtensionType("duration"), resolved.ExtensionType("ipaddr")}

func (c *C15Gen) randType() resolved.IsType {
	switch c.pick(5) {
	case 0, 1:
		if len(c.paths) > 0 {
			return c.paths[c.pick(len(c.paths))].ty
		}
	case 2:
		return resolved.SetType{Element: c15Prims[c.pick(len(c15Prims))]}
	case 3:
		ts := c.S.AllEntityTypes()
		return resolved.EntityType(ts[c.pick(len(ts))])
	}
	return c15Prims[c.pick(len(c15Prims))]
}

func (c *C15Gen) otherType(t resolved.IsType) resolved.IsType {
	k := C15TypeKey(t)
	for i := 0; i < 8; i++ {
		u := c.randType()
		if C15TypeKey(u) != k {
			return u
		}
	}
	if _, ok := t.(resolved.LongType); ok {
		return resolved.StringType{}
	}
	return resolved.LongType{}
}

func (c *C15Gen) mutHere(kind string, p float64) bool {
	if c.Mut == kind && !c.MutDone && c.chance(p) {
		c.MutDone = true
		return true
	}
	return false
}

// pathOf picks a variable path of the given type whose optional segments are guarded.
func (c *C15Gen) pathOf(t resolved.IsType) (ast.IsNode, bool) {
	k := C15TypeKey(t)
	var ok, unguarded []c15Path
	for _, p := range c.paths {
		if C15TypeKey(p.ty) != k {
			continue
		}
		if c.satisfied(p) {
			ok = append(ok, p)
		} else {
			unguarded = append(unguarded, p)
		}
	}
	if len(unguarded) > 0 && c.mutHere("missing-guard", 0.5) {
		return unguarded[c.pick(len(unguarded))].node, true
	}
	if c.Mut == "wrong-entity-type" && !c.MutDone && c.chance(0.4) {
		// an attribute of the right type that belongs to a *different* entity type's shape
		for _, et := range c.S.EntTypes {
			if et == c.Env.PType {
				continue
			}
			for _, a := range c15SortedAttrs(c.S.RS.Entities[et].Shape) {
				at := c.S.RS.Entities[et].Shape[a]
				if _, has := c.S.RS.Entities[c.Env.PType].Shape[a]; !has && C15TypeKey(at.Type) == k && !at.Optional {
					c.MutDone = true
					return acc(vr("principal"), a), true
				}
			}
		}
	}
	if len(ok) == 0 {
		return nil, false
	}
	return ok[c.pick(len(ok))].node, true
}

func (c *C15Gen) uidOf(t types.EntityType) types.EntityUID {
	if en, ok := c.S.RS.Enums[t]; ok {
		return en.Values[c.pick(len(en.Values))]
	}
	if t == c.S.ActionType() {
		return c.S.ActionUIDs[c.pick(len(c.S.ActionUIDs))]
	}
	return types.NewEntityUID(t, c15IDs[c.pick(len(c15IDs))])
}

// Expr generates an expression of resolved type t (up to the active mutation / junk mode).
func (c *C15Gen) Expr(t resolved.IsType, d int) ast.IsNode {
	if c.junk > 0 && c.chance(0.3) {
		t = c.randType()
	}
	if c.mutHere("wrong-type", 0.15) {
		t = c.otherType(t)
	}
	switch tv := t.(type) {
	case resolved.BoolType:
		return c.boolExpr(d)
	case resolved.LongType:
		return c.longExpr(d)
	case resolved.StringType:
		return c.generic(t, d, func() ast.IsNode { return lit(types.String(c.G.Str())) })
	case resolved.EntityType:
		return c.entityExpr(types.EntityType(tv), d)
	case resolved.SetType:
		return c.generic(t, d, func() ast.IsNode { return c.setLit(tv.Element, d-1) })
	case resolved.RecordType:
		return c.generic(t, d, func() ast.IsNode { return c.recLit(tv, d-1) })
	case resolved.ExtensionType:
		return c.extExpr(string(tv), d)
	}
	return lit(types.Long(0))
}

// generic: path / if-then-else / the given literal-like constructor
func (c *C15Gen) generic(t resolved.IsType, d int, mk func() ast.IsNode) ast.IsNode {
	if c.chance(0.55) {
		if n, ok := c.pathOf(t); ok {
			return n
		}
	}
	if d > 1 && c.chance(0.12) {
		return iteN(c.boolExpr(d-1), c.Expr(t, d-1), c.Expr(t, d-1))
	}
	return mk()
}

func (c *C15Gen) setLit(elem resolved.IsType, d int) ast.IsNode {
	n := 1 + c.pick(3)
	if !c.Strict && c.chance(0.1) {
		n = 0
	}
	if c.mutHere("bad-literal", 0.3) {
		n = 0
	}
	es := []ast.IsNode{}
	for i := 0; i < n; i++ {
		es = append(es, c.Expr(elem, d))
	}
	if len(es) > 0 && c.mutHere("bad-literal", 0.3) {
		es = append(es, c.Expr(c.otherType(elem), d))
	}
	return ast.NodeTypeSet{Elements: es}
}

func (c *C15Gen) recLit(rt resolved.RecordType, d int) ast.IsNode {
	var es []ast.RecordElementNode
	for _, k := range c15SortedAttrs(rt) {
		a := rt[k]
		if a.Optional && c.chance(0.5) {
			continue
		}
		es = append(es, ast.RecordElementNode{Key: k, Value: c.Expr(a.Type, d)})
	}
	if c.mutHere("bad-literal", 0.3) {
		es = append(es, ast.RecordElementNode{Key: "zz", Value: lit(types.Long(1))})
	}
	if len(es) > 0 && c.chance(0.03) { // duplicate key (later entry wins in the validator and in the evaluator)
		es = append(es, ast.RecordElementNode{Key: es[0].Key, Value: c.Expr(rt[es[0].Key].Type, d)})
	}
	return ast.NodeTypeRecord{Elements: es}
}

func (c *C15Gen) entityExpr(t types.EntityType, d int) ast.IsNode {
	if c.chance(0.5) {
		if n, ok := c.pathOf(resolved.EntityType(t)); ok {
			return n
		}
	}
	if d > 1 && c.chance(0.1) {
		return iteN(c.boolExpr(d-1), c.entityExpr(t, d-1), c.entityExpr(t, d-1))
	}
	if c.mutHere("bad-literal", 0.2) {
		return lit(types.NewEntityUID("Nope", "x"))
	}
	return lit(c.uidOf(t))
}

var c15GoodExt = map[string][]string{
	"decimal":  {"0.0", "1.0", "-1.0", "1.5", "1.2345", "-0.5", "922337203685477.5807", "-922337203685477.5808", "0.0001"},
	"datetime": {"2024-01-01", "2024-02-29", "1970-01-01T00:00:00Z", "1969-12-31T23:59:59.999Z", "2024-01-01T12:34:56.789Z", "2024-01-01T12:34:56+0130", "9999-12-31T23:59:59.999Z", "0000-01-01"},
	"duration": {"0ms", "1ms", "1s", "1m", "1h", "1d", "1d2h3m4s5ms", "-1d", "9223372036854775807ms", "106751991167d"},
	"ipaddr":   {"127.0.0.1", "10.0.0.1", "10.0.0.0/8", "192.168.1.0/24", "224.0.0.1", "::1", "ff00::/8", "2001:db8::/32", "0.0.0.0/0"},
}
var c15BadExt = map[string][]string{
	"decimal":  {"abc", "1", "1.23456", "922337203685477.5808", ""},
	"datetime": {"2023-02-29", "2024-13-01", "x", "2024-01-01T24:00:00Z"},
	"duration": {"1x", "", "1h1d", "9223372036854775808ms"},
	"ipaddr":   {"256.0.0.1", "x", "10.0.0.0/33", "::1/129"},
}
var c15Ctor = map[string]string{"decimal": "decimal", "datetime": "datetime", "duration": "duration", "ipaddr": "ip"}

func (c *C15Gen) extExpr(name string, d int) ast.IsNode {
	t := resolved.ExtensionType(name)
	if c.chance(0.45) {
		if n, ok := c.pathOf(t); ok {
			return n
		}
	}
	if d > 1 {
		switch {
		case name == "datetime" && c.chance(0.2):
			if c.chance(0.5) {
				return call("toDate", c.extExpr("datetime", d-1))
			}
			return call("offset", c.extExpr("datetime", d-1), c.extExpr("duration", d-1))
		case name == "duration" && c.chance(0.2):
			if c.chance(0.5) {
				return call("toTime", c.extExpr("datetime", d-1))
			}
			return call("durationSince", c.extExpr("datetime", d-1), c.extExpr("datetime", d-1))
		case c.chance(0.08):
			return iteN(c.boolExpr(d-1), c.extExpr(name, d-1), c.extExpr(name, d-1))
		}
	}
	ctor := c15Ctor[name]
	if ctor == "" { // unknown extension type name: cannot happen with generated schemas
		return lit(types.Long(0))
	}
	good := c15GoodExt[name]
	if c.mutHere("bad-literal", 0.3) {
		bad := c15BadExt[name]
		return call(ctor, lit(types.String(bad[c.pick(len(bad))])))
	}
	if !c.Strict && d > 0 && c.chance(0.25) {
		// permissive mode admits non-literal constructor arguments (run-time extension errors are allowed failures)
		return call(ctor, c.Expr(resolved.StringType{}, d-1))
	}
	return call(ctor, lit(types.String(good[c.pick(len(good))])))
}

func (c *C15Gen) longExpr(d int) ast.IsNode {
	if d <= 0 || c.chance(0.35) {
		if c.chance(0.6) {
			if n, ok := c.pathOf(resolved.LongType{}); ok {
				return n
			}
		}
		return lit(types.Long(c.G.Long()))
	}
	switch c.pick(9) {
	case 0, 1:
		return ast.NodeTypeAdd{BinaryNode: bin(c.longExpr(d-1), c.longExpr(d-1))}
	case 2:
		return ast.NodeTypeSub{BinaryNode: bin(c.longExpr(d-1), c.longExpr(d-1))}
	case 3:
		return ast.NodeTypeMult{BinaryNode: bin(c.longExpr(d-1), c.longExpr(d-1))}
	case 4:
		return ast.NodeTypeNegate{UnaryNode: ast.UnaryNode{Arg: c.longExpr(d - 1)}}
	case 5:
		return iteN(c.boolExpr(d-1), c.longExpr(d-1), c.longExpr(d-1))
	case 6:
		fn := []string{"toDays", "toHours", "toMinutes", "toSeconds", "toMilliseconds"}[c.pick(5)]
		return call(fn, c.extExpr("duration", d-1))
	}
	if n, ok := c.pathOf(resolved.LongType{}); ok {
		return n
	}
	return lit(types.Long(c.G.Long()))
}

// useBool builds a Bool expression that consumes `node`, an expression of type t.
func (c *C15Gen) useBool(node ast.IsNode, t resolved.IsType, d int) ast.IsNode {
	if d < 1 {
		d = 1
	}
	switch tv := t.(type) {
	case resolved.BoolType:
		if c.chance(0.6) {
			return node
		}
		return eqN(node, lit(types.Boolean(c.chance(0.5))))
	case resolved.LongType:
		return c.cmpNode(c.pick(4), node, c.longExpr(d-1))
	case resolved.StringType:
		if c.chance(0.5) {
			return ast.NodeTypeLike{Arg: node, Value: c.G.Pattern()}
		}
		return eqN(node, c.Expr(t, d-1))
	case resolved.EntityType:
		et := types.EntityType(tv)
		switch c.pick(4) {
		case 0:
			return eqN(node, c.entityExpr(et, d-1))
		case 1:
			if !c.Frag {
				return ast.NodeTypeIs{Left: node, EntityType: et}
			}
		case 2:
			if !c.Frag {
				return ast.NodeTypeIn{BinaryNode: bin(node, c.inTarget(et, d-1))}
			}
		}
		return ast.NodeTypeNotEquals{BinaryNode: bin(node, c.entityExpr(et, d-1))}
	case resolved.SetType:
		switch c.pick(4) {
		case 0:
			return ast.NodeTypeIsEmpty{UnaryNode: ast.UnaryNode{Arg: node}}
		case 1:
			return ast.NodeTypeContainsAll{BinaryNode: bin(node, c.Expr(t, d-1))}
		case 2:
			return ast.NodeTypeContainsAny{BinaryNode: bin(node, c.Expr(t, d-1))}
		}
		return ast.NodeTypeContains{BinaryNode: bin(node, c.Expr(tv.Element, d-1))}
	case resolved.RecordType:
		ks := c15SortedAttrs(tv)
		if len(ks) > 0 && c.chance(0.5) {
			return hasN(node, ks[c.pick(len(ks))])
		}
		return eqN(node, c.Expr(t, d-1))
	case resolved.ExtensionType:
		switch string(tv) {
		case "decimal":
			fn := []string{"lessThan", "lessThanOrEqual", "greaterThan", "greaterThanOrEqual"}[c.pick(4)]
			return call(fn, node, c.extExpr("decimal", d-1))
		case "ipaddr":
			if c.chance(0.3) {
				return call("isInRange", node, c.extExpr("ipaddr", d-1))
			}
			return call([]string{"isIpv4", "isIpv6", "isLoopback", "isMulticast"}[c.pick(4)], node)
		case "datetime", "duration":
			return c.cmpNode(c.pick(4), node, c.extExpr(string(tv), d-1))
		}
	}
	return eqN(node, node)
}

func (c *C15Gen) cmpNode(op int, l, r ast.IsNode) ast.IsNode {
	switch op {
	case 0:
		return ast.NodeTypeLessThan{BinaryNode: bin(l, r)}
	case 1:
		return ast.NodeTypeLessThanOrEqual{BinaryNode: bin(l, r)}
	case 2:
		return ast.NodeTypeGreaterThan{BinaryNode: bin(l, r)}
	}
	return ast.NodeTypeGreaterThanOrEqual{BinaryNode: bin(l, r)}
}

// inTarget: right operand of `in` for an entity of type et: an ancestor-type entity, a set of them, or anything.
func (c *C15Gen) inTarget(et types.EntityType, d int) ast.IsNode {
	var cands []types.EntityType
	for _, t := range c.S.EntTypes {
		if c.S.DescendantOrSelf(et, t) {
			cands = append(cands, t)
		}
	}
	var tgt types.EntityType
	if len(cands) > 0 && c.chance(0.8) {
		tgt = cands[c.pick(len(cands))]
	} else {
		ts := c.S.AllEntityTypes()
		tgt = ts[c.pick(len(ts))]
	}
	if c.chance(0.35) {
		return c.Expr(resolved.SetType{Element: resolved.EntityType(tgt)}, d)
	}
	return c.entityExpr(tgt, d)
}

// guardChain wraps body() into `b1 has a1 && (b2 has a2 && body)` for the unsatisfied guards of p.
func (c *C15Gen) guardChain(p c15Path, asIf bool, d int, body func() ast.IsNode) ast.IsNode {
	var todo []c15Guard
	for _, n := range p.needs {
		if !c.caps[n.key()] {
			todo = append(todo, n)
		}
	}
	var build func(i int) ast.IsNode
	build = func(i int) ast.IsNode {
		if i == len(todo) {
			return body()
		}
		gd := todo[i]
		inner := c.withCaps([]string{gd.key()}, func() ast.IsNode { return build(i + 1) })
		if asIf {
			return iteN(hasN(gd.base, gd.attr), inner, c.boolExpr(d-1))
		}
		return andN(hasN(gd.base, gd.attr), inner)
	}
	return build(0)
}

func (c *C15Gen) guardedUse(d int) (ast.IsNode, bool) {
	var cands []c15Path
	for _, p := range c.paths {
		if len(p.needs) > 0 && !c.satisfied(p) {
			cands = append(cands, p)
		}
	}
	if len(cands) == 0 {
		return nil, false
	}
	p := cands[c.pick(len(cands))]
	return c.guardChain(p, c.chance(0.25), d, func() ast.IsNode {
		u := c.useBool(p.node, p.ty, d-1)
		if d > 2 && c.chance(0.4) {
			return andN(u, c.boolExpr(d-2))
		}
		return u
	}), true
}

func (c *C15Gen) entityPaths(withTags bool) []c15Path {
	var out []c15Path
	for _, p := range c.paths {
		et, ok := p.ty.(resolved.EntityType)
		if !ok {
			continue
		}
		ent, declared := c.S.RS.Entities[types.EntityType(et)]
		if withTags && (!declared || ent.Tags == nil) {
			continue
		}
		out = append(out, p)
	}
	return out
}

func (c *C15Gen) tagUse(d int) (ast.IsNode, bool) {
	cands := c.entityPaths(true)
	if len(cands) == 0 {
		return nil, false
	}
	p := cands[c.pick(len(cands))]
	tagTy := c.S.RS.Entities[types.EntityType(p.ty.(resolved.EntityType))].Tags
	key := C15TagKeys[c.pick(len(C15TagKeys))]
	return c.guardChain(p, false, d, func() ast.IsNode {
		ht := ast.NodeTypeHasTag{BinaryNode: bin(p.node, lit(key))}
		if c.chance(0.2) {
			return ht
		}
		gt := ast.NodeTypeGetTag{BinaryNode: bin(p.node, lit(key))}
		if c.mutHere("missing-guard", 0.5) {
			return c.useBool(gt, tagTy, d-1)
		}
		if c.mutHere("guard-misplaced", 0.5) {
			// dynamic key / different key: no capability
			if c.chance(0.5) {
				return andN(ast.NodeTypeHasTag{BinaryNode: bin(p.node, lit(types.String("other")))}, c.useBool(gt, tagTy, d-1))
			}
			return andN(ast.NodeTypeHasTag{BinaryNode: bin(p.node, c.Expr(resolved.StringType{}, 1))}, c.useBool(ast.NodeTypeGetTag{BinaryNode: bin(p.node, c.Expr(resolved.StringType{}, 1))}, tagTy, d-1))
		}
		return andN(ht, c.useBool(gt, tagTy, d-1))
	}), true
}

// singleton returns an expression the validator types as True (val) or False (!val) in the target environment.
func (c *C15Gen) singleton(d int) (ast.IsNode, bool) {
	pv := vr("principal")
	switch k := c.pick(14); {
	case k == 0:
		b := c.chance(0.5)
		return lit(types.Boolean(b)), b
	case k == 1 && !c.Frag:
		return ast.NodeTypeIs{Left: pv, EntityType: c.Env.PType}, true
	case k == 2 && !c.Frag:
		for _, t := range c.S.AllEntityTypes() {
			if t != c.Env.RType {
				return ast.NodeTypeIs{Left: vr("resource"), EntityType: t}, false
			}
		}
	case k == 3:
		for _, a := range c15SortedAttrs(c.Env.Ctx) {
			if !c.Env.Ctx[a].Optional {
				return hasN(vr("context"), a), true
			}
		}
	case k == 4:
		return hasN(vr("context"), "zzz"), false
	case k == 5 && !c.Frag:
		return hasN(pv, "zzz"), false
	case k == 6 && !c.Frag:
		if ent, ok := c.S.RS.Entities[c.Env.PType]; ok && ent.Tags == nil {
			return ast.NodeTypeHasTag{BinaryNode: bin(pv, lit(types.String("k")))}, false
		}
	case k == 7 && !c.Frag:
		for _, t := range c.S.EntTypes {
			if !c.S.DescendantOrSelf(c.Env.PType, t) {
				return ast.NodeTypeIn{BinaryNode: bin(pv, lit(types.NewEntityUID(t, "a")))}, false
			}
		}
	case k == 8 && !c.Frag:
		tgt := c.S.ActionUIDs[c.pick(len(c.S.ActionUIDs))]
		val := tgt == c.Env.Action
		for _, a := range c.S.ActionClosure(c.Env.Action) {
			if a == tgt {
				val = true
			}
		}
		return ast.NodeTypeIn{BinaryNode: bin(vr("action"), lit(tgt))}, val
	case k == 9:
		v := []string{"principal", "resource", "action", "context"}[c.pick(4)]
		if c.chance(0.5) {
			return ast.NodeTypeNotEquals{BinaryNode: bin(vr(v), vr(v))}, false
		}
		return eqN(vr(v), vr(v)), true
	case k == 10:
		a, b := c.pick(3), c.pick(3)
		return eqN(lit(types.Long(a)), lit(types.Long(b))), a == b
	case k == 11:
		for _, t := range c.S.AllEntityTypes() {
			if t != c.Env.PType {
				return eqN(pv, lit(c.uidOf(t))), false
			}
		}
	case k == 12 && d > 0:
		s, v := c.singleton(d - 1)
		return notN(s), !v
	case k == 13 && d > 0:
		s1, v1 := c.singleton(d - 1)
		s2, v2 := c.singleton(d - 1)
		if c.chance(0.5) {
			return andN(s1, s2), v1 && v2
		}
		return orN(s1, s2), v1 || v2
	}
	b := c.chance(0.5)
	return lit(types.Boolean(b)), b
}

// junkExpr: an expression that is ill-typed at its root (random, mostly ill-typed, below).
func (c *C15Gen) junkExpr(d int) ast.IsNode {
	c.junk++
	defer func() { c.junk-- }()
	sub := func(t resolved.IsType) ast.IsNode { return c.Expr(t, d-1) }
	switch c.pick(8) {
	case 0:
		return eqN(ast.NodeTypeAdd{BinaryNode: bin(sub(resolved.LongType{}), lit(types.String("a")))}, lit(types.Long(2)))
	case 1:
		return notN(lit(types.Long(5)))
	case 2:
		return ast.NodeTypeLike{Arg: lit(types.Long(1)), Value: c.G.Pattern()}
	case 3:
		return eqN(acc(vr("context"), "zzz"), lit(types.Long(1)))
	case 4:
		if !c.Frag {
			return eqN(ast.NodeTypeGetTag{BinaryNode: bin(vr("principal"), lit(types.String("nokey")))}, lit(types.Long(1)))
		}
	case 5:
		return eqN(call("nofn", lit(types.Long(1))), lit(types.Long(1)))
	case 6:
		return call("lessThan", call("decimal", lit(types.String("1.0")), lit(types.String("2"))), call("decimal", lit(types.String("1.0"))))
	}
	return c.cmpNode(c.pick(4), lit(types.String("x")), sub(resolved.LongType{}))
}

func (c *C15Gen) deadBranch(d int) ast.IsNode {
	s, v := c.singleton(2)
	junk := c.junkExpr(d)
	ok := c.boolExpr(d - 1)
	switch c.pick(3) {
	case 0:
		if v {
			return orN(s, junk)
		}
		return andN(s, junk)
	case 1:
		if v {
			return iteN(s, ok, junk)
		}
		return iteN(s, junk, ok)
	}
	// the same through negation
	if v {
		return andN(notN(s), junk)
	}
	return orN(notN(s), junk)
}

// misplaced guards: shapes in which the `has` test does NOT protect the access
func (c *C15Gen) guardMisplaced(d int) (ast.IsNode, bool) {
	var cands []c15Path
	for _, p := range c.paths {
		if len(p.needs) == 1 && !c.satisfied(p) {
			cands = append(cands, p)
		}
	}
	if len(cands) == 0 {
		return nil, false
	}
	p := cands[c.pick(len(cands))]
	gd := p.needs[0]
	h := hasN(gd.base, gd.attr)
	use := func() ast.IsNode { return c.useBool(p.node, p.ty, d-1) }
	b := func() ast.IsNode { return c.boolExpr(d - 2) }
	switch c.pick(11) {
	case 7: // the guard on the RIGHT of `||`: the join of "no capabilities" with {h} must be empty
		return andN(orN(b(), h), use()), true
	case 8: // …and in the else-branch only
		return andN(iteN(b(), lit(types.True), h), use()), true
	case 9:
		return andN(orN(lit(types.False), orN(b(), h)), use()), true
	case 10:
		return andN(iteN(b(), orN(b(), h), h), use()), true
	case 0:
		return andN(orN(h, b()), use()), true
	case 1:
		return andN(notN(h), use()), true
	case 2:
		return iteN(h, b(), use()), true
	case 3:
		return andN(iteN(b(), h, lit(types.True)), use()), true
	case 4:
		return andN(use(), h), true
	case 5:
		return orN(h, use()), true
	}
	// guard on a different base carrying the same attribute name
	for _, q := range c.paths {
		if len(q.needs) == 1 && q.needs[0].attr == gd.attr && q.needs[0].baseKey != gd.baseKey {
			return andN(hasN(q.needs[0].base, gd.attr), use()), true
		}
	}
	return andN(andN(b(), notN(notN(h))), use()), true
}

func (c *C15Gen) pathCollision(d int) (ast.IsNode, bool) {
	ab, ok := c.Env.Ctx["a.b"]
	if !ok {
		return nil, false
	}
	rt, ok := ab.Type.(resolved.RecordType)
	if !ok {
		return nil, false
	}
	x, ok := rt["x"]
	if !ok {
		return nil, false
	}
	ctx := vr("context")
	use := c.useBool(acc(acc(acc(ctx, "a"), "b"), "x"), x.Type, d-1)
	if c.chance(0.5) {
		return andN(hasN(acc(ctx, "a.b"), "x"), use), true
	}
	return andN(hasN(acc(acc(ctx, "a"), "b"), "x"), c.useBool(acc(acc(ctx, "a.b"), "x"), x.Type, d-1)), true
}

func (c *C15Gen) tagCollision(d int) (ast.IsNode, bool) {
	for _, p := range c.entityPaths(true) {
		ent := c.S.RS.Entities[types.EntityType(p.ty.(resolved.EntityType))]
		if _, ok := ent.Shape["__tag:k"]; !ok || !c.satisfied(p) {
			continue
		}
		return andN(hasN(p.node, "__tag:k"), c.useBool(ast.NodeTypeGetTag{BinaryNode: bin(p.node, lit(types.String("k")))}, ent.Tags, d-1)), true
	}
	return nil, false
}

// lubDrop: if-then-else over two record literals that disagree on the type of attribute `a`
func (c *C15Gen) lubDrop(d int) ast.IsNode {
	r1 := ast.NodeTypeRecord{Elements: []ast.RecordElementNode{{Key: "a", Value: lit(types.Long(1))}}}
	r2 := ast.NodeTypeRecord{Elements: []ast.RecordElementNode{{Key: "a", Value: lit(types.String("s"))}}}
	var arg ast.IsNode = iteN(c.boolExpr(d-1), r1, r2)
	attr := types.String("a")
	if c.chance(0.3) {
		arg = acc(iteN(c.boolExpr(d-1), ast.NodeTypeRecord{Elements: []ast.RecordElementNode{{Key: "r", Value: r1}}}, ast.NodeTypeRecord{Elements: []ast.RecordElementNode{{Key: "r", Value: r2}}}), "r")
	}
	h := hasN(arg, attr)
	if c.chance(0.5) {
		return andN(h, c.junkExpr(d-1))
	}
	return orN(notN(h), c.junkExpr(d-1))
}

func (c *C15Gen) untypedCall(d int) ast.IsNode {
	f := call([]string{"foo", "now", "isIpv4x"}[c.pick(3)])
	switch c.pick(8) {
	case 0:
		return f
	case 1:
		return eqN(f, c.Expr(c.randType(), d-1))
	case 2:
		return c.cmpNode(c.pick(4), f, c.longExpr(d-1))
	case 3:
		return iteN(f, c.boolExpr(d-1), c.boolExpr(d-1))
	case 4:
		return eqN(ast.NodeTypeNegate{UnaryNode: ast.UnaryNode{Arg: f}}, lit(types.Long(1)))
	case 5:
		return eqN(ast.NodeTypeRecord{Elements: []ast.RecordElementNode{{Key: "a", Value: f}}}, ast.NodeTypeRecord{Elements: []ast.RecordElementNode{}})
	case 6:
		return ast.NodeTypeContains{BinaryNode: bin(ast.NodeTypeSet{Elements: []ast.IsNode{lit(types.Long(1)), f}}, lit(types.Long(1)))}
	}
	return andN(c.boolExpr(d-1), eqN(f, f))
}

func (c *C15Gen) badCall(d int) ast.IsNode {
	switch c.pick(6) {
	case 0: // wrong arity
		return call("lessThan", c.extExpr("decimal", d-1))
	case 1:
		return call("isIpv4", c.extExpr("ipaddr", d-1), c.extExpr("ipaddr", d-1))
	case 2:
		return eqN(call("decimal"), c.extExpr("decimal", d-1))
	case 3: // unknown function with arguments
		return eqN(call("foo", c.longExpr(d-1)), lit(types.Long(1)))
	case 4: // method on the wrong receiver type
		return call("isIpv4", c.extExpr("decimal", d-1))
	}
	return eqN(call("toDays", c.extExpr("datetime", d-1)), lit(types.Long(1)))
}

func (c *C15Gen) boolLeaf() ast.IsNode {
	switch c.pick(4) {
	case 0:
		return lit(types.Boolean(c.chance(0.5)))
	case 1:
		if n, ok := c.pathOf(resolved.BoolType{}); ok {
			return n
		}
	case 2:
		// has on a variable root
		var roots []c15Path
		for _, p := range c.paths {
			if p.nsegs == 0 && p.key != "action" {
				roots = append(roots, p)
			}
		}
		p := roots[c.pick(len(roots))]
		if _, isEnt := p.ty.(resolved.EntityType); isEnt && c.Frag {
			break
		}
		return hasN(p.node, c15AttrNames[c.pick(len(c15AttrNames))])
	}
	if len(c.paths) > 0 {
		for i := 0; i < 4; i++ {
			p := c.paths[c.pick(len(c.paths))]
			if c.satisfied(p) && (!c.Frag || !p.viaEntity) {
				if _, isEnt := p.ty.(resolved.EntityType); isEnt && c.Frag && c.chance(0.7) {
					continue
				}
				return c.useBool(p.node, p.ty, 1)
			}
		}
	}
	return lit(types.True)
}

func (c *C15Gen) boolExpr(d int) ast.IsNode {
	if d <= 0 {
		return c.boolLeaf()
	}
	// near-miss templates
	if c.Mut != "" && !c.MutDone {
		switch c.Mut {
		case "dead-branch":
			if c.mutHere("dead-branch", 0.5) {
				return c.deadBranch(d)
			}
		case "guard-misplaced":
			if c.chance(0.5) {
				if n, ok := c.guardMisplaced(d); ok {
					c.MutDone = true
					return n
				}
			}
		case "mixed-cmp":
			if c.mutHere("mixed-cmp", 0.5) {
				ks := []resolved.IsType{resolved.LongType{}, resolved.ExtensionType("datetime"), resolved.ExtensionType("duration")}
				i := c.pick(3)
				j := (i + 1 + c.pick(2)) % 3
				return c.cmpNode(c.pick(4), c.Expr(ks[i], d-1), c.Expr(ks[j], d-1))
			}
		case "bad-call":
			if c.mutHere("bad-call", 0.5) {
				return c.badCall(d)
			}
		case "untyped-call":
			if c.mutHere("untyped-call", 0.5) {
				return c.untypedCall(d)
			}
		case "path-collision":
			if c.chance(0.6) {
				if n, ok := c.pathCollision(d); ok {
					c.MutDone = true
					return n
				}
			}
		case "tag-collision":
			if !c.Frag && c.chance(0.6) {
				if n, ok := c.tagCollision(d); ok {
					c.MutDone = true
					return n
				}
			}
		case "lub-drop":
			if c.mutHere("lub-drop", 0.5) {
				return c.lubDrop(d)
			}
		case "in-lub-guard":
			if !c.Frag && c.chance(c.mutP()) {
				c.MutDone = true // set first: the sub-expressions built below must not start another one
				if n, ok := c.inLubGuard(d); ok {
					return n
				}
				c.MutDone = false
			}
		case "singleton-caps":
			if c.chance(c.mutP()) {
				c.MutDone = true
				if n, ok := c.singletonCaps(d); ok {
					return n
				}
				c.MutDone = false
			}
		case "lub-attr":
			if c.chance(c.mutP()) {
				c.MutDone = true
				if n, ok := c.lubAttr(d); ok {
					return n
				}
				c.MutDone = false
			}
		case "in-operand-type":
			if !c.Frag && c.chance(c.mutP()) {
				c.MutDone = true
				if n, ok := c.inOperandType(d); ok {
					return n
				}
				c.MutDone = false
			}
		case "action-in-mixed":
			if !c.Frag && c.chance(c.mutP()) {
				c.MutDone = true
				if n, ok := c.actionInMixed(d); ok {
					return n
				}
				c.MutDone = false
			}
		}
	}
	switch k := c.pick(24); {
	case k < 2:
		return andN(c.boolExpr(d-1), c.boolExpr(d-1))
	case k < 4:
		return orN(c.boolExpr(d-1), c.boolExpr(d-1))
	case k < 5:
		return notN(c.boolExpr(d - 1))
	case k < 6:
		return iteN(c.boolExpr(d-1), c.boolExpr(d-1), c.boolExpr(d-1))
	case k < 9:
		if n, ok := c.guardedUse(d); ok {
			return n
		}
	case k < 10:
		if !c.Frag {
			if n, ok := c.tagUse(d); ok {
				return n
			}
		}
	case k < 12:
		// equality at a random type
		t := c.randType()
		if c.Strict || c.chance(0.7) {
			if c.chance(0.5) {
				return eqN(c.Expr(t, d-1), c.Expr(t, d-1))
			}
			return ast.NodeTypeNotEquals{BinaryNode: bin(c.Expr(t, d-1), c.Expr(t, d-1))}
		}
		return eqN(c.Expr(t, d-1), c.Expr(c.randType(), d-1)) // permissive mode admits heterogeneous equality
	case k < 14:
		t := []resolved.IsType{resolved.LongType{}, resolved.LongType{}, resolved.ExtensionType("datetime"), resolved.ExtensionType("duration")}[c.pick(4)]
		return c.cmpNode(c.pick(4), c.Expr(t, d-1), c.Expr(t, d-1))
	case k < 16 && !c.Frag:
		// in / is / is-in on an entity expression
		ts := c.S.EntTypes
		et := ts[c.pick(len(ts))]
		switch c.pick(5) {
		case 0:
			all := c.S.AllEntityTypes()
			return ast.NodeTypeIs{Left: c.entityExpr(et, d-1), EntityType: all[c.pick(len(all))]}
		case 1:
			return ast.NodeTypeIsIn{NodeTypeIs: ast.NodeTypeIs{Left: c.entityExpr(et, d-1), EntityType: et}, Entity: c.inTarget(et, d-1)}
		case 2:
			// action hierarchy
			tgt := c.S.ActionUIDs[c.pick(len(c.S.ActionUIDs))]
			if c.chance(0.4) {
				return ast.NodeTypeIn{BinaryNode: bin(vr("action"), ast.NodeTypeSet{Elements: []ast.IsNode{lit(tgt), lit(c.S.ActionUIDs[c.pick(len(c.S.ActionUIDs))])}})}
			}
			if c.chance(0.3) {
				return eqN(vr("action"), lit(tgt))
			}
			return ast.NodeTypeIn{BinaryNode: bin(vr("action"), lit(tgt))}
		}
		return ast.NodeTypeIn{BinaryNode: bin(c.entityExpr(et, d-1), c.inTarget(et, d-1))}
	case k < 18:
		// a set operation
		elem := c.randType()
		if _, isSet := elem.(resolved.SetType); isSet {
			elem = resolved.LongType{}
		}
		st := resolved.SetType{Element: elem}
		return c.useBool(c.Expr(st, d-1), st, d)
	case k < 19:
		return ast.NodeTypeLike{Arg: c.Expr(resolved.StringType{}, d-1), Value: c.G.Pattern()}
	case k < 21:
		name := []string{"decimal", "ipaddr", "datetime", "duration"}[c.pick(4)]
		return c.useBool(c.extExpr(name, d-1), resolved.ExtensionType(name), d)
	case k < 22:
		// record literal / record path
		for i := 0; i < 4; i++ {
			p := c.paths[c.pick(len(c.paths))]
			if rt, ok := p.ty.(resolved.RecordType); ok && c.satisfied(p) && (!c.Frag || !p.viaEntity) {
				return c.useBool(p.node, rt, d)
			}
		}
		rt := resolved.RecordType{"n": resolved.Attribute{Type: resolved.LongType{}}, "s": resolved.Attribute{Type: resolved.StringType{}}}
		e := c.recLit(rt, d-1)
		if c.chance(0.5) {
			return c.cmpNode(c.pick(4), acc(e, "n"), c.longExpr(d-1))
		}
		return hasN(e, []types.String{"n", "s", "zz"}[c.pick(3)])
	}
	// consume a random guarded path
	for i := 0; i < 6; i++ {
		p := c.paths[c.pick(len(c.paths))]
		if c.Frag && (p.viaEntity || p.key == "action") {
			continue
		}
		if c.Frag {
			if _, isEnt := p.ty.(resolved.EntityType); isEnt && p.nsegs == 0 && c.chance(0.5) {
				continue
			}
		}
		if c.satisfied(p) {
			return c.useBool(p.node, p.ty, d)
		}
	}
	return c.boolLeaf()
}

// ---------------------------------------------------------------------------------------------
// policies
// ---------------------------------------------------------------------------------------------

// C15Policy is a generated policy with its provenance.
type C15Policy struct {
	AST    *ast.Policy
	Target C15Env
	Mut    string     // requested near-miss kind ("" = none)
	Hit    bool       // the mutation site was reached
	Strict bool       // generated with strict mode in mind
	Shapes []string   // see C15Gen.Shapes
	Probe  ast.IsNode // see C15Gen.Probe
}

func (g *Gen) c15AncestorUID(s *C15Schema, t types.EntityType) (types.EntityUID, bool) {
	var cands []types.EntityType
	for _, u := range s.EntTypes {
		if u != t && s.DescendantOrSelf(t, u) {
			cands = append(cands, u)
		}
	}
	if len(cands) == 0 {
		return types.EntityUID{}, false
	}
	return types.NewEntityUID(cands[g.pick(len(cands))], "a"), true
}

// C15GenPolicy generates one policy aimed at a random environment of the schema.
func (g *Gen) C15GenPolicy(s *C15Schema, mut string) C15Policy { return g.c15GenPolicy(s, mut, false) }

// C15GenPolicyFocus: the same, for the focused stream: the near-miss template fires near the root of the condition and
// the scope pins the target environment more often (fewer rejections for reasons unrelated to the template).
func (g *Gen) C15GenPolicyFocus(s *C15Schema, mut string) C15Policy {
	return g.c15GenPolicy(s, mut, true)
}

func (g *Gen) c15GenPolicy(s *C15Schema, mut string, focus bool) C15Policy {
	env := s.Envs[g.pick(len(s.Envs))]
	c := NewC15Gen(g, s, env)
	c.Strict = g.chance(0.6)
	c.Mut = mut
	if focus {
		c.MutP = 0.85
	}
	p := &ast.Policy{Effect: ast.Effect(g.chance(0.7)), Principal: ast.ScopeTypeAll{}, Action: ast.ScopeTypeAll{}, Resource: ast.ScopeTypeAll{}}
	scopeFor := func(t types.EntityType) (ast.IsScopeNode, bool) { // returns scope, pinsType
		if s.Frag {
			if g.chance(0.6) {
				return ast.ScopeTypeIs{Type: t}, true
			}
			return ast.ScopeTypeAll{}, false
		}
		k7 := g.pick(7)
		if focus && g.chance(0.5) {
			k7 = 0
		}
		switch k7 {
		case 0, 1, 2:
			return ast.ScopeTypeIs{Type: t}, true
		case 3:
			if s.IsEnum(t) {
				return ast.ScopeTypeEq{Entity: c.uidOf(t)}, true
			}
			return ast.ScopeTypeEq{Entity: types.NewEntityUID(t, "a")}, true
		case 4:
			if u, ok := g.c15AncestorUID(s, t); ok {
				return ast.ScopeTypeIsIn{Type: t, Entity: u}, true
			}
			return ast.ScopeTypeIs{Type: t}, true
		case 5:
			if u, ok := g.c15AncestorUID(s, t); ok {
				return ast.ScopeTypeIn{Entity: u}, false
			}
		}
		return ast.ScopeTypeAll{}, false
	}
	ps, pPinned := scopeFor(env.PType)
	p.Principal = ps.(ast.IsPrincipalScopeNode)
	rs, rPinned := scopeFor(env.RType)
	p.Resource = rs.(ast.IsResourceScopeNode)
	aPinned := true
	k6 := g.pick(6)
	if s.Frag && k6 >= 3 {
		k6 = 5
	}
	if focus && g.chance(0.6) {
		k6 = 0
	}
	switch k6 {
	case 0, 1, 2:
		p.Action = ast.ScopeTypeEq{Entity: env.Action}
	case 3:
		set := []types.EntityUID{env.Action}
		if g.chance(0.5) { // a set mixing the target action (or one of its groups) with other actions / groups, any order
			if cl := s.ActionClosure(env.Action); len(cl) > 0 && g.chance(0.4) {
				set[0] = cl[g.pick(len(cl))]
				aPinned = false
			}
			for n := 1 + g.pick(2); n > 0; n-- {
				set = append(set, s.ActionUIDs[g.pick(len(s.ActionUIDs))])
			}
			g.R.Shuffle(len(set), func(i, j int) { set[i], set[j] = set[j], set[i] })
		}
		p.Action = ast.ScopeTypeInSet{Entities: set}
	case 4:
		cl := s.ActionClosure(env.Action)
		if len(cl) > 0 {
			p.Action = ast.ScopeTypeIn{Entity: cl[g.pick(len(cl))]}
		}
		aPinned = false
	default:
		aPinned = false
	}
	if g.chance(0.04) { // scope near-misses (wrong entity type / unknown action in the scope)
		switch g.pick(3) {
		case 0:
			p.Principal = ast.ScopeTypeIs{Type: "Nope"}
		case 1:
			p.Action = ast.ScopeTypeEq{Entity: types.NewEntityUID(env.Action.Type, "nope")}
		default:
			p.Resource = ast.ScopeTypeEq{Entity: types.NewEntityUID("Nope", "a")}
		}
	}
	var clauses []c15Clause
	if mut == "clause-caps" && !c.MutDone {
		c.MutDone = true
		if cl, ok := c.clauseCaps(); ok {
			clauses = cl
		} else {
			c.MutDone = false
		}
	}
	if clauses == nil {
		nc := 1
		if g.chance(0.2) {
			nc = 2
			if g.chance(0.2) {
				nc = 3
			}
		}
		for i := 0; i < nc; i++ {
			d := 2 + g.pick(3)
			if focus {
				d = 2 + g.pick(2)
			}
			clauses = append(clauses, c15Clause{when: g.chance(0.8), body: c.boolExpr(d)})
		}
	}
	for _, cl := range clauses {
		body := cl.body
		// pin what the scope leaves open so that the body is typed in the target environment only
		if !s.Frag {
			if !pPinned && g.chance(0.8) {
				body = andN(ast.NodeTypeIs{Left: vr("principal"), EntityType: env.PType}, body)
			}
			if !rPinned && g.chance(0.8) {
				body = andN(ast.NodeTypeIs{Left: vr("resource"), EntityType: env.RType}, body)
			}
		}
		_ = aPinned
		if !cl.when && !cl.raw { // a generated condition turned into the equivalent `unless`
			body = notN(body)
			if g.chance(0.5) {
				body = iteN(body, lit(types.True), lit(types.False))
			}
		}
		p.Conditions = append(p.Conditions, ast.ConditionType{Condition: ast.Condition(cl.when), Body: body})
	}
	return C15Policy{AST: p, Target: env, Mut: mut, Hit: c.MutDone || mut == "", Strict: c.Strict, Shapes: c.Shapes, Probe: c.Probe}
}

// ---------------------------------------------------------------------------------------------
// conforming values, requests and stores
// ---------------------------------------------------------------------------------------------

// C15Store is a store together with the knobs that produced it.
type C15Store struct {
	Entities types.EntityMap
	Universe []types.EntityUID
}

func (g *Gen) c15UID(s *C15Schema, t types.EntityType) types.EntityUID {
	if en, ok := s.RS.Enums[t]; ok {
		return en.Values[g.pick(len(en.Values))]
	}
	return types.NewEntityUID(t, c15IDs[g.pick(len(c15IDs))])
}

// C15Value generates a value conforming to a resolved type; optMode: 0 random, 1 all optional present, 2 all absent.
func (g *Gen) C15Value(s *C15Schema, t resolved.IsType, depth int, optMode int) types.Value {
	switch tv := t.(type) {
	case resolved.StringType:
		return types.String(g.Str())
	case resolved.LongType:
		return types.Long(g.Long())
	case resolved.BoolType:
		return types.Boolean(g.chance(0.5))
	case resolved.ExtensionType:
		switch string(tv) {
		case "decimal":
			return g.Value(TDecimal, 0)
		case "datetime":
			return g.Value(TDatetime, 0)
		case "duration":
			return g.Value(TDuration, 0)
		}
		return g.IP()
	case resolved.EntityType:
		return g.c15UID(s, types.EntityType(tv))
	case resolved.SetType:
		n := g.pick(4)
		var vs []types.Value
		for i := 0; i < n; i++ {
			vs = append(vs, g.C15Value(s, tv.Element, depth-1, optMode))
		}
		return types.NewSet(vs...)
	case resolved.RecordType:
		return g.C15Record(s, tv, depth-1, optMode)
	}
	panic("C15Value: unknown type")
}

func (g *Gen) C15Record(s *C15Schema, rt resolved.RecordType, depth int, optMode int) types.Record {
	m := types.RecordMap{}
	for _, k := range c15SortedAttrs(rt) {
		a := rt[k]
		if a.Optional {
			switch optMode {
			case 1:
			case 2:
				continue
			default:
				if g.chance(0.5) {
					continue
				}
			}
		}
		m[k] = g.C15Value(s, a.Type, depth, optMode)
	}
	return types.NewRecord(m)
}

// C15GenStore builds a conforming entity store. optMode as in C15Value; tagMode: 0 random, 1 all keys, 2 none.
func (g *Gen) C15GenStore(s *C15Schema, optMode, tagMode int, pPresent float64) C15Store {
	st := C15Store{Entities: types.EntityMap{}}
	for _, t := range s.EntTypes {
		for _, id := range c15IDs {
			st.Universe = append(st.Universe, types.NewEntityUID(t, id))
		}
	}
	order := map[types.EntityType]int{}
	for i, t := range s.EntTypes {
		order[t] = i
	}
	for _, u := range st.Universe {
		if !g.chance(pPresent) {
			continue
		}
		ent := s.RS.Entities[u.Type]
		e := types.Entity{UID: u}
		var ps []types.EntityUID
		for _, pt := range ent.ParentTypes {
			for _, id := range c15IDs {
				// entities named "a" are mostly members of the "a" entity of each parent type (the one scopes mention)
				if g.chance(0.3) || (id == "a" && u.ID == "a" && g.chance(0.7)) {
					ps = append(ps, types.NewEntityUID(pt, id)) // parent may itself be absent from the store
				}
			}
		}
		e.Parents = types.NewEntityUIDSet(ps...)
		e.Attributes = g.C15Record(s, ent.Shape, 2, optMode)
		tags := types.RecordMap{}
		if ent.Tags != nil {
			for _, k := range C15TagKeys {
				present := g.chance(0.5)
				if tagMode == 1 {
					present = true
				} else if tagMode == 2 {
					present = false
				}
				if present {
					tags[k] = g.C15Value(s, ent.Tags, 1, optMode)
				}
			}
		}
		e.Tags = types.NewRecord(tags)
		st.Entities[u] = e
	}
	for _, t := range s.EnumTypes {
		for _, u := range s.RS.Enums[t].Values {
			if g.chance(0.6) {
				st.Entities[u] = types.Entity{UID: u}
			}
		}
	}
	// action entities exactly as the schema prescribes (parents = transitive closure), as Rust Cedar adds them
	for _, a := range s.ActionUIDs {
		st.Entities[a] = types.Entity{UID: a, Parents: types.NewEntityUIDSet(s.ActionClosure(a)...)}
	}
	return st
}

// C15Request builds a conforming request for an environment.
func (g *Gen) C15Request(s *C15Schema, env C15Env, optMode int, forceA bool) types.Request {
	pid := func(t types.EntityType) types.EntityUID {
		if s.IsEnum(t) {
			return g.c15UID(s, t)
		}
		if forceA || g.chance(0.6) {
			return types.NewEntityUID(t, "a") // the id the scopes mention
		}
		return g.c15UID(s, t)
	}
	return types.Request{Principal: pid(env.PType), Action: env.Action, Resource: pid(env.RType), Context: g.C15Record(s, env.Ctx, 2, optMode)}
}

// RequiredPathOfEntity returns a variable path of entity type et that needs no `has` guard.
func (c *C15Gen) RequiredPathOfEntity(et types.EntityType) (ast.IsNode, bool) {
	for _, p := range c.paths {
		if e, ok := p.ty.(resolved.EntityType); ok && types.EntityType(e) == et && len(p.needs) == 0 {
			return p.node, true
		}
	}
	return nil, false
}
