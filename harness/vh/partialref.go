package vh

// Reference re-implementation of internal/eval/partial.go on top of the PUBLIC API only
// (x/exp/ast node structs + x/exp/eval.Eval for "evaluate this operator over literal children").
//
// With the zero RefCfg it reproduces partial.go AS IT WAS BEFORE the five defect families were repaired
// (stale-residual-*, isin-eager-rhs-error, tainted-*, nested-ignore-consumed-whole), with RepairedCfg() the code as repaired — bit for bit
// (residual AST and keep/drop); the C06/C05 oracles first find out which of BaseCfgs() reproduces the
// implementation under test (Go-vs-Go white-box comparison) before they trust it.
// Each switch of RefCfg applies ONE repair, so that a property failure observed on the real code can be
// classified causally: "the failure disappears exactly when repair X is applied" — that is how the narrow
// finding classes (stale-residual-and, tainted-container-contains, …) are computed.  The classes of the
// repaired families are listed as "fixed" in known_findings: if a defect returns, the oracle fails, the
// classification names it and the check reports a VIOLATION.
// The evaluator also records Events: which of the situations of those families were exercised, whether or
// not they led to an observable failure.

import (
	"encoding/json"
	"fmt"
	"sort"

	"github.com/cedar-policy/cedar-go/types"
	"github.com/cedar-policy/cedar-go/x/exp/ast"
	"github.com/cedar-policy/cedar-go/x/exp/eval"
	"github.com/cedar-policy/cedar-go/x/exp/verifhooks"
)

const (
	VariableEntityType = "__cedar::variable"
	IgnoreEntityType   = "__cedar::ignore"
	UnknownEntityType  = "__cedar::unknown"
	PartialErrorName   = "__cedar::partialError"
)

// IsVar reports whether v is the marker entity of an unknown and returns its name.
func IsVar(v types.Value) (types.String, bool) {
	if e, ok := v.(types.EntityUID); ok && e.Type == VariableEntityType {
		return e.ID, true
	}
	return "", false
}

func IsIgn(v types.Value) bool {
	e, ok := v.(types.EntityUID)
	return ok && e.Type == IgnoreEntityType
}

// ContainsVar: v is, or contains (inside records / sets, at any depth), an unknown.
func ContainsVar(v types.Value) bool {
	switch t := v.(type) {
	case types.EntityUID:
		return t.Type == VariableEntityType
	case types.Record:
		for x := range t.Values() {
			if ContainsVar(x) {
				return true
			}
		}
	case types.Set:
		for x := range t.All() {
			if ContainsVar(x) {
				return true
			}
		}
	}
	return false
}

// Tainted: contains an unknown without being one.
func Tainted(v types.Value) bool {
	if _, ok := IsVar(v); ok {
		return false
	}
	return ContainsVar(v)
}

// VarsOf adds the names of the unknowns occurring in v.
func VarsOf(v types.Value, into map[types.String]bool) {
	switch t := v.(type) {
	case types.EntityUID:
		if t.Type == VariableEntityType {
			into[t.ID] = true
		}
	case types.Record:
		for x := range t.Values() {
			VarsOf(x, into)
		}
	case types.Set:
		for x := range t.All() {
			VarsOf(x, into)
		}
	}
}

// SubstValue is FULL substitution: every occurrence of every unknown named in sub is replaced.
func SubstValue(v types.Value, sub map[types.String]types.Value) types.Value {
	switch t := v.(type) {
	case types.EntityUID:
		if t.Type == VariableEntityType {
			if x, ok := sub[t.ID]; ok {
				return x
			}
		}
		return t
	case types.Record:
		if !ContainsVar(t) {
			return t
		}
		m := types.RecordMap{}
		for k, x := range t.All() {
			m[k] = SubstValue(x, sub)
		}
		return types.NewRecord(m)
	case types.Set:
		if !ContainsVar(t) {
			return t
		}
		var xs []types.Value
		for x := range t.All() {
			xs = append(xs, SubstValue(x, sub))
		}
		return types.NewSet(xs...)
	}
	return v
}

// SubstEnv substitutes unknowns in the four request parts (the store is never touched).
func SubstEnv(env eval.Env, sub map[types.String]types.Value) eval.Env {
	return eval.Env{Entities: env.Entities, Principal: SubstValue(env.Principal, sub), Action: SubstValue(env.Action, sub),
		Resource: SubstValue(env.Resource, sub), Context: SubstValue(env.Context, sub)}
}

// ---- reference partial evaluator ----

// RefCfg selects candidate repairs (all false / empty = the code as written).
type RefCfg struct {
	StaleAnd, StaleOr, StaleIf bool            // use the ORIGINAL sub-expression when a child reports errVariable
	IsInLazy                   bool            // `e is T in r`: do not let an error in r escape unless the `is` test can succeed
	Taint                      map[string]bool // op name -> treat operands that merely CONTAIN an unknown as unknown
	TaintAll                   bool            // the same for every operator (the complete repair of the tainted-container defect)
	// IgnTaint is the repair of finding class nested-ignore-consumed-whole (part of RepairedCfg: the reference REQUIRES
	// it): a record / set that merely contains an ignore marker is "ignored" (errIgnore) for every consumer other than
	// attribute access / `has`, and wherever it would be embedded in a residual
	IgnTaint bool
}

// NestedIgnoreClass names the (repaired) finding: an operator other than `.` / `has` consumes (or a residual embeds) a
// record / set VALUE that merely contains an ignore marker as if it were fully known.
const NestedIgnoreClass = "nested-ignore-consumed-whole"

func (c RefCfg) String() string {
	var xs []string
	if c.StaleAnd {
		xs = append(xs, "stale-residual-and")
	}
	if c.StaleOr {
		xs = append(xs, "stale-residual-or")
	}
	if c.StaleIf {
		xs = append(xs, "stale-residual-if")
	}
	if c.IsInLazy {
		xs = append(xs, "isin-eager-rhs-error")
	}
	var ts []string
	for k, v := range c.Taint {
		if v {
			ts = append(ts, k)
		}
	}
	sort.Strings(ts)
	if c.TaintAll {
		ts = append(ts, "tainted-*")
	}
	if c.IgnTaint {
		ts = append(ts, NestedIgnoreClass)
	}
	return fmt.Sprint(append(xs, ts...))
}

type pkind int

const (
	pkOK  pkind = iota // (node, nil)
	pkVar              // (node, errVariable): node is what the code returns alongside errVariable
	pkIgn              // (nil, errIgnore)
	pkErr              // (nil, err)
)

type pres struct {
	n   ast.IsNode
	k   pkind
	err error
}

// Ref is one run of the reference evaluator.
type Ref struct {
	Cfg    RefCfg
	Env    eval.Env
	Events map[string]int // known-unsound situations exercised (class names)
}

func NewRef(cfg RefCfg, env eval.Env) *Ref { return &Ref{Cfg: cfg, Env: env, Events: map[string]int{}} }

func (r *Ref) event(s string) { r.Events[s]++ }

func extErr(err error) ast.IsNode {
	return ast.NodeTypeExtensionCall{Name: PartialErrorName, Args: []ast.IsNode{ast.NodeValue{Value: types.String(err.Error())}}}
}

func sameNode(a, b ast.IsNode) bool {
	x, _ := json.Marshal(EncExpr(a))
	y, _ := json.Marshal(EncExpr(b))
	return string(x) == string(y)
}

func containerKind(v types.Value) string {
	if _, ok := v.(types.Set); ok {
		return "container"
	}
	return "record"
}

// try mirrors tryPartial.  op names the operator for the taint instrumentation; evalFn evaluates the
// operator over the literal children (default: the real evaluator on the rebuilt node).
func (r *Ref) try(orig []ast.IsNode, op string, mk func([]ast.IsNode) ast.IsNode, evalFn func([]types.Value) (types.Value, error)) pres {
	nodes := make([]ast.IsNode, len(orig))
	copy(nodes, orig)
	var values []types.Value
	ok := true
	allowTainted := op == "access" || op == "has" || op == "var"
	for i, n := range nodes {
		p := r.partial(n)
		if p.k == pkVar {
			ok = false
			continue
		} else if p.k != pkOK {
			return p
		}
		if v, isVal := p.n.(ast.NodeValue); isVal && !allowTainted && !IsIgn(v.Value) && ContainsIgn(v.Value) {
			r.event(NestedIgnoreClass)
			if r.Cfg.IgnTaint {
				return pres{k: pkIgn}
			}
		}
		if v, isVal := p.n.(ast.NodeValue); isVal && !allowTainted && ContainsVar(v.Value) {
			cls := "tainted-" + containerKind(v.Value) + "-" + op
			if Tainted(v.Value) {
				r.event(cls)
			}
			if r.Cfg.Taint[cls] || r.Cfg.TaintAll {
				// repair: an operand that contains an unknown is unknown — keep the original sub-expression
				ok = false
				continue
			}
		}
		nodes[i] = p.n
		if !ok {
			continue
		}
		if v, isVal := p.n.(ast.NodeValue); isVal {
			values = append(values, v.Value)
			continue
		}
		ok = false
	}
	if ok {
		var v types.Value
		var err error
		if evalFn != nil {
			v, err = evalFn(values)
		} else {
			v, err = eval.Eval(mk(nodes), r.Env)
		}
		if err != nil {
			if err == errRefIgnore {
				return pres{k: pkIgn}
			}
			return pres{k: pkErr, err: err}
		}
		if _, isv := IsVar(v); isv {
			return pres{n: mk(nodes), k: pkVar}
		} else if IsIgn(v) {
			return pres{k: pkIgn}
		}
		return pres{n: ast.NodeValue{Value: v}, k: pkOK}
	}
	return pres{n: mk(nodes), k: pkOK}
}

var errRefIgnore = fmt.Errorf("ignore")

func (r *Ref) bin(b ast.BinaryNode, op string, wrap func(ast.BinaryNode) ast.IsNode) pres {
	return r.try([]ast.IsNode{b.Left, b.Right}, op, func(ns []ast.IsNode) ast.IsNode { return wrap(ast.BinaryNode{Left: ns[0], Right: ns[1]}) }, nil)
}

func (r *Ref) un(u ast.UnaryNode, op string, wrap func(ast.UnaryNode) ast.IsNode) pres {
	return r.try([]ast.IsNode{u.Arg}, op, func(ns []ast.IsNode) ast.IsNode { return wrap(ast.UnaryNode{Arg: ns[0]}) }, nil)
}

func (r *Ref) partial(n ast.IsNode) pres {
	switch v := n.(type) {
	case ast.NodeTypeAccess:
		return r.try([]ast.IsNode{v.Arg}, "access", func(ns []ast.IsNode) ast.IsNode {
			return ast.NodeTypeAccess{StrOpNode: ast.StrOpNode{Arg: ns[0], Value: v.Value}}
		}, nil)
	case ast.NodeTypeHas:
		return r.try([]ast.IsNode{v.Arg}, "has", func(ns []ast.IsNode) ast.IsNode {
			return ast.NodeTypeHas{StrOpNode: ast.StrOpNode{Arg: ns[0], Value: v.Value}}
		}, func(vals []types.Value) (types.Value, error) {
			// partialHasEval: like hasEval, but an attribute holding the ignore marker reports errIgnore
			res, err := eval.Eval(ast.NodeTypeHas{StrOpNode: ast.StrOpNode{Arg: ast.NodeValue{Value: vals[0]}, Value: v.Value}}, r.Env)
			if err != nil {
				return nil, err
			}
			var rec types.Record
			switch t := vals[0].(type) {
			case types.EntityUID:
				if e, ok := r.Env.Entities.Get(t); ok {
					rec = e.Attributes
				}
			case types.Record:
				rec = t
			}
			if x, ok := rec.Get(v.Value); ok && IsIgn(x) {
				return nil, errRefIgnore
			}
			return res, nil
		})
	case ast.NodeTypeGetTag:
		return r.bin(v.BinaryNode, "getTag", func(b ast.BinaryNode) ast.IsNode { return ast.NodeTypeGetTag{BinaryNode: b} })
	case ast.NodeTypeHasTag:
		return r.bin(v.BinaryNode, "hasTag", func(b ast.BinaryNode) ast.IsNode { return ast.NodeTypeHasTag{BinaryNode: b} })
	case ast.NodeTypeLike:
		return r.try([]ast.IsNode{v.Arg}, "like", func(ns []ast.IsNode) ast.IsNode { return ast.NodeTypeLike{Arg: ns[0], Value: v.Value} }, nil)
	case ast.NodeTypeIfThenElse:
		return r.ite(v)
	case ast.NodeTypeIs:
		return r.try([]ast.IsNode{v.Left}, "is", func(ns []ast.IsNode) ast.IsNode { return ast.NodeTypeIs{Left: ns[0], EntityType: v.EntityType} }, nil)
	case ast.NodeTypeIsIn:
		return r.isIn(v)
	case ast.NodeTypeExtensionCall:
		return r.try(v.Args, "call", func(ns []ast.IsNode) ast.IsNode { return ast.NodeTypeExtensionCall{Name: v.Name, Args: ns} }, nil)
	case ast.NodeValue:
		return pres{n: n, k: pkOK}
	case ast.NodeTypeRecord:
		els := make([]ast.IsNode, len(v.Elements))
		for i, p := range v.Elements {
			els[i] = p.Value
		}
		return r.try(els, "record", func(ns []ast.IsNode) ast.IsNode {
			el := make([]ast.RecordElementNode, len(ns))
			for i, x := range ns {
				el[i] = ast.RecordElementNode{Key: v.Elements[i].Key, Value: x}
			}
			return ast.NodeTypeRecord{Elements: el}
		}, nil)
	case ast.NodeTypeSet:
		return r.try(v.Elements, "set", func(ns []ast.IsNode) ast.IsNode { return ast.NodeTypeSet{Elements: ns} }, nil)
	case ast.NodeTypeNegate:
		return r.un(v.UnaryNode, "neg", func(u ast.UnaryNode) ast.IsNode { return ast.NodeTypeNegate{UnaryNode: u} })
	case ast.NodeTypeNot:
		return r.un(v.UnaryNode, "not", func(u ast.UnaryNode) ast.IsNode { return ast.NodeTypeNot{UnaryNode: u} })
	case ast.NodeTypeIsEmpty:
		return r.un(v.UnaryNode, "isEmpty", func(u ast.UnaryNode) ast.IsNode { return ast.NodeTypeIsEmpty{UnaryNode: u} })
	case ast.NodeTypeVariable:
		return r.try(nil, "var", func([]ast.IsNode) ast.IsNode { return ast.NodeTypeVariable{Name: v.Name} }, func([]types.Value) (types.Value, error) {
			switch v.Name {
			case "principal":
				return r.Env.Principal, nil
			case "action":
				return r.Env.Action, nil
			case "resource":
				return r.Env.Resource, nil
			default:
				return r.Env.Context, nil
			}
		})
	case ast.NodeTypeIn:
		return r.bin(v.BinaryNode, "in", func(b ast.BinaryNode) ast.IsNode { return ast.NodeTypeIn{BinaryNode: b} })
	case ast.NodeTypeAnd:
		return r.and(v)
	case ast.NodeTypeOr:
		return r.or(v)
	case ast.NodeTypeEquals:
		return r.bin(v.BinaryNode, "eq", func(b ast.BinaryNode) ast.IsNode { return ast.NodeTypeEquals{BinaryNode: b} })
	case ast.NodeTypeNotEquals:
		return r.bin(v.BinaryNode, "ne", func(b ast.BinaryNode) ast.IsNode { return ast.NodeTypeNotEquals{BinaryNode: b} })
	case ast.NodeTypeGreaterThan:
		return r.bin(v.BinaryNode, "gt", func(b ast.BinaryNode) ast.IsNode { return ast.NodeTypeGreaterThan{BinaryNode: b} })
	case ast.NodeTypeGreaterThanOrEqual:
		return r.bin(v.BinaryNode, "ge", func(b ast.BinaryNode) ast.IsNode { return ast.NodeTypeGreaterThanOrEqual{BinaryNode: b} })
	case ast.NodeTypeLessThan:
		return r.bin(v.BinaryNode, "lt", func(b ast.BinaryNode) ast.IsNode { return ast.NodeTypeLessThan{BinaryNode: b} })
	case ast.NodeTypeLessThanOrEqual:
		return r.bin(v.BinaryNode, "le", func(b ast.BinaryNode) ast.IsNode { return ast.NodeTypeLessThanOrEqual{BinaryNode: b} })
	case ast.NodeTypeSub:
		return r.bin(v.BinaryNode, "sub", func(b ast.BinaryNode) ast.IsNode { return ast.NodeTypeSub{BinaryNode: b} })
	case ast.NodeTypeAdd:
		return r.bin(v.BinaryNode, "add", func(b ast.BinaryNode) ast.IsNode { return ast.NodeTypeAdd{BinaryNode: b} })
	case ast.NodeTypeMult:
		return r.bin(v.BinaryNode, "mul", func(b ast.BinaryNode) ast.IsNode { return ast.NodeTypeMult{BinaryNode: b} })
	case ast.NodeTypeContains:
		return r.bin(v.BinaryNode, "contains", func(b ast.BinaryNode) ast.IsNode { return ast.NodeTypeContains{BinaryNode: b} })
	case ast.NodeTypeContainsAll:
		return r.bin(v.BinaryNode, "containsAll", func(b ast.BinaryNode) ast.IsNode { return ast.NodeTypeContainsAll{BinaryNode: b} })
	case ast.NodeTypeContainsAny:
		return r.bin(v.BinaryNode, "containsAny", func(b ast.BinaryNode) ast.IsNode { return ast.NodeTypeContainsAny{BinaryNode: b} })
	}
	panic(fmt.Sprintf("ref partial: unknown node %T", n))
}

func isNonBoolVal(n ast.IsNode) bool {
	v, ok := n.(ast.NodeValue)
	if !ok {
		return false
	}
	_, ok = v.Value.(types.Boolean)
	return !ok
}

func isBoolVal(n ast.IsNode, want bool) bool {
	v, ok := n.(ast.NodeValue)
	if !ok {
		return false
	}
	b, ok := v.Value.(types.Boolean)
	return ok && bool(b) == want
}

// embedded handles a node about to be embedded in a residual by partialAnd/Or/IfThenElse/IsIn: before the repair of
// the tainted-* family a literal that merely contains an unknown was embedded as it is; the repair keeps `orig`.
func (r *Ref) embedded(n ast.IsNode, orig ast.IsNode, where string) ast.IsNode {
	if v, isVal := n.(ast.NodeValue); isVal && ContainsVar(v.Value) {
		cls := "tainted-embedded-" + where
		r.event(cls)
		if r.Cfg.Taint[cls] || r.Cfg.TaintAll {
			return orig
		}
	}
	return n
}

// ignEmbedded: a literal that merely contains an ignore marker is about to be embedded in a residual (repair: the
// construct is "ignored").
func (r *Ref) ignEmbedded(p pres) bool {
	if p.k != pkOK {
		return false
	}
	if v, isVal := p.n.(ast.NodeValue); isVal && !IsIgn(v.Value) && ContainsIgn(v.Value) {
		r.event(NestedIgnoreClass)
		return r.Cfg.IgnTaint
	}
	return false
}

// stale handles "(node, errVariable)" reaching partialAnd/Or/IfThenElse: the code keeps `node`; the repair keeps `orig`.
func (r *Ref) stale(p pres, orig ast.IsNode, cls string, repaired bool) ast.IsNode {
	if !sameNode(p.n, orig) {
		r.event(cls)
		if repaired {
			return orig
		}
	}
	return p.n
}

func (r *Ref) ite(v ast.NodeTypeIfThenElse) pres {
	c := r.partial(v.If)
	ifNode := c.n
	switch {
	case c.k == pkVar:
		ifNode = r.stale(c, v.If, "stale-residual-if", r.Cfg.StaleIf)
	case c.k != pkOK:
		return c
	case isNonBoolVal(c.n):
		return pres{k: pkErr, err: fmt.Errorf("%w: ifThenElse expected bool", eval.ErrType)}
	case isBoolVal(c.n, true):
		return r.partial(v.Then)
	case isBoolVal(c.n, false):
		return r.partial(v.Else)
	}
	t := r.partial(v.Then)
	thenNode := t.n
	if r.ignEmbedded(t) {
		return pres{k: pkIgn}
	}
	if t.k == pkIgn {
		return t
	} else if t.k == pkErr {
		thenNode = extErr(t.err)
	} else if t.k == pkVar {
		thenNode = r.stale(t, v.Then, "stale-residual-if", r.Cfg.StaleIf)
	} else {
		thenNode = r.embedded(thenNode, v.Then, "if")
	}
	e := r.partial(v.Else)
	elseNode := e.n
	if r.ignEmbedded(e) {
		return pres{k: pkIgn}
	}
	if e.k == pkIgn {
		return e
	} else if e.k == pkErr {
		elseNode = extErr(e.err)
	} else if e.k == pkVar {
		elseNode = r.stale(e, v.Else, "stale-residual-if", r.Cfg.StaleIf)
	} else {
		elseNode = r.embedded(elseNode, v.Else, "if")
	}
	return pres{n: ast.NodeTypeIfThenElse{If: ifNode, Then: thenNode, Else: elseNode}, k: pkOK}
}

func (r *Ref) and(v ast.NodeTypeAnd) pres {
	l := r.partial(v.Left)
	left := l.n
	switch {
	case l.k == pkVar:
		left = r.stale(l, v.Left, "stale-residual-and", r.Cfg.StaleAnd)
	case l.k != pkOK:
		return l
	case isNonBoolVal(l.n):
		return pres{k: pkErr, err: fmt.Errorf("%w: and expected bool", eval.ErrType)}
	case isBoolVal(l.n, false):
		return pres{n: ast.NodeValue{Value: types.False}, k: pkOK}
	case isBoolVal(l.n, true):
		return r.bin(ast.BinaryNode{Left: ast.NodeValue{Value: types.True}, Right: v.Right}, "and", func(b ast.BinaryNode) ast.IsNode { return ast.NodeTypeAnd{BinaryNode: b} })
	}
	rr := r.partial(v.Right)
	right := rr.n
	if r.ignEmbedded(rr) {
		return pres{k: pkIgn}
	}
	if rr.k == pkIgn {
		return rr
	} else if rr.k == pkErr {
		right = extErr(rr.err)
	} else if rr.k == pkVar {
		right = r.stale(rr, v.Right, "stale-residual-and", r.Cfg.StaleAnd)
	} else {
		right = r.embedded(right, v.Right, "and")
	}
	return pres{n: ast.NodeTypeAnd{BinaryNode: ast.BinaryNode{Left: left, Right: right}}, k: pkOK}
}

func (r *Ref) or(v ast.NodeTypeOr) pres {
	l := r.partial(v.Left)
	left := l.n
	switch {
	case l.k == pkVar:
		left = r.stale(l, v.Left, "stale-residual-or", r.Cfg.StaleOr)
	case l.k != pkOK:
		return l
	case isNonBoolVal(l.n):
		return pres{k: pkErr, err: fmt.Errorf("%w: or expected bool", eval.ErrType)}
	case isBoolVal(l.n, true):
		return pres{n: ast.NodeValue{Value: types.True}, k: pkOK}
	case isBoolVal(l.n, false):
		return r.bin(ast.BinaryNode{Left: ast.NodeValue{Value: types.False}, Right: v.Right}, "or", func(b ast.BinaryNode) ast.IsNode { return ast.NodeTypeOr{BinaryNode: b} })
	}
	rr := r.partial(v.Right)
	right := rr.n
	if r.ignEmbedded(rr) {
		return pres{k: pkIgn}
	}
	if rr.k == pkIgn {
		return rr
	} else if rr.k == pkErr {
		right = extErr(rr.err)
	} else if rr.k == pkVar {
		right = r.stale(rr, v.Right, "stale-residual-or", r.Cfg.StaleOr)
	} else {
		right = r.embedded(right, v.Right, "or")
	}
	return pres{n: ast.NodeTypeOr{BinaryNode: ast.BinaryNode{Left: left, Right: right}}, k: pkOK}
}

// isIn: before its repair the code treated `e is T in r` as a strict binary operator (tryPartial over [e, r]),
// although the evaluator short-circuits when the type test fails (event isin-eager-rhs-error).  With IsInLazy it
// mirrors partialIsIn: a literal left operand decides the type test; only when the test passes is the operator strict
// in r; while the test is undecided an error of r stays in the residual.
func (r *Ref) isIn(v ast.NodeTypeIsIn) pres {
	mk := func(ns []ast.IsNode) ast.IsNode {
		return ast.NodeTypeIsIn{NodeTypeIs: ast.NodeTypeIs{Left: ns[0], EntityType: v.EntityType}, Entity: ns[1]}
	}
	// would the right operand's error escape (strict treatment) although the type test may fail?
	lp := r.probe(v.Left)
	if lp.k == pkOK || lp.k == pkVar {
		typeKnownToMatch := false
		if lv, isVal := lp.n.(ast.NodeValue); isVal && lp.k == pkOK {
			if e, isEnt := lv.Value.(types.EntityUID); isEnt {
				typeKnownToMatch = e.Type == v.EntityType
			}
		}
		if !typeKnownToMatch {
			if rr := r.probe(v.Entity); rr.k == pkErr {
				r.event("isin-eager-rhs-error")
			}
		}
	}
	if !r.Cfg.IsInLazy {
		return r.try([]ast.IsNode{v.Left, v.Entity}, "isIn", mk, nil)
	}
	l := r.partial(v.Left)
	left := l.n
	switch {
	case l.k == pkVar:
		left = v.Left
	case l.k != pkOK:
		return l
	}
	if lv, isVal := left.(ast.NodeValue); isVal {
		ent, isEnt := lv.Value.(types.EntityUID)
		if !isEnt {
			return pres{k: pkErr, err: fmt.Errorf("%w: expected (entity of type `any_entity_type`)", eval.ErrType)}
		}
		if ent.Type != v.EntityType {
			return pres{n: ast.NodeValue{Value: types.False}, k: pkOK}
		}
		return r.try([]ast.IsNode{left, v.Entity}, "isIn", mk, nil)
	}
	rr := r.partial(v.Entity)
	right := rr.n
	if r.ignEmbedded(rr) {
		return pres{k: pkIgn}
	}
	if rr.k == pkIgn {
		return rr
	} else if rr.k == pkErr {
		right = extErr(rr.err)
	} else if rr.k == pkVar {
		right = v.Entity
	} else {
		right = r.embedded(right, v.Entity, "isIn")
	}
	return pres{n: mk([]ast.IsNode{left, right}), k: pkOK}
}

// probe evaluates without recording events (used for look-ahead only).
func (r *Ref) probe(n ast.IsNode) pres {
	saved := r.Events
	r.Events = map[string]int{}
	p := r.partial(n)
	r.Events = saved
	return p
}

func (r *Ref) scope(ent types.Value, in ast.IsScopeNode) (bool, bool) {
	if _, ok := IsVar(ent); ok {
		return false, false
	} else if IsIgn(ent) {
		return true, true
	}
	e, ok := ent.(types.EntityUID)
	if !ok {
		return false, false
	}
	var result bool
	switch t := in.(type) {
	case ast.ScopeTypeAll:
		result = true
	case ast.ScopeTypeEq:
		result = e == t.Entity
	case ast.ScopeTypeIn:
		result = verifhooks.EntityInOne(r.Env, e, t.Entity)
	case ast.ScopeTypeInSet:
		result = verifhooks.EntityInSet(r.Env, e, t.Entities)
	case ast.ScopeTypeIs:
		result = e.Type == t.Type
	case ast.ScopeTypeIsIn:
		result = e.Type == t.Type && verifhooks.EntityInOne(r.Env, e, t.Entity)
	}
	return true, result
}

// PartialPolicy mirrors eval.PartialPolicy.
func (r *Ref) PartialPolicy(p *ast.Policy) (*ast.Policy, bool) {
	p2 := *p
	if ev, res := r.scope(r.Env.Principal, p.Principal); ev && !res {
		return nil, false
	} else if ev {
		p2.Principal = ast.ScopeTypeAll{}
	}
	if ev, res := r.scope(r.Env.Action, p.Action); ev && !res {
		return nil, false
	} else if ev {
		p2.Action = ast.ScopeTypeAll{}
	}
	if ev, res := r.scope(r.Env.Resource, p.Resource); ev && !res {
		return nil, false
	} else if ev {
		p2.Resource = ast.ScopeTypeAll{}
	}
	p2.Annotations = append([]ast.AnnotationType(nil), p.Annotations...)
	p2.Conditions = nil
	for _, c := range p.Conditions {
		b := r.partial(c.Body)
		switch {
		case b.k == pkVar:
			p2.Conditions = append(p2.Conditions, c)
			continue
		case b.k == pkIgn:
			if p.Effect == ast.EffectPermit {
				continue
			}
			return nil, false
		case b.k == pkErr:
			p2.Conditions = append(p2.Conditions, ast.ConditionType{Condition: c.Condition, Body: extErr(b.err)})
			return &p2, true
		}
		if v, ok := b.n.(ast.NodeValue); ok {
			if bv, bok := v.Value.(types.Boolean); bok {
				if bool(bv) != bool(c.Condition) {
					return nil, false
				}
				continue
			}
			p2.Conditions = append(p2.Conditions, ast.ConditionType{Condition: c.Condition, Body: extErr(fmt.Errorf("%w: condition expected bool", eval.ErrType))})
			return &p2, true
		}
		p2.Conditions = append(p2.Conditions, ast.ConditionType{Condition: c.Condition, Body: b.n})
	}
	return &p2, true
}

// MaskedPolicyJSON renders a residual for Go-vs-Go comparison: EncPolicy with partialError messages masked.
func MaskedPolicyJSON(p *ast.Policy, keep bool) string {
	if !keep || p == nil {
		return "dropped"
	}
	q := *p
	q.Conditions = nil
	for _, c := range p.Conditions {
		q.Conditions = append(q.Conditions, ast.ConditionType{Condition: c.Condition, Body: maskErrors(c.Body)})
	}
	b, _ := json.Marshal(EncPolicy(&q))
	return string(b)
}

func maskErrors(n ast.IsNode) ast.IsNode {
	m := maskErrors
	bin := func(b ast.BinaryNode) ast.BinaryNode { return ast.BinaryNode{Left: m(b.Left), Right: m(b.Right)} }
	un := func(u ast.UnaryNode) ast.UnaryNode { return ast.UnaryNode{Arg: m(u.Arg)} }
	switch v := n.(type) {
	case ast.NodeTypeExtensionCall:
		if v.Name == PartialErrorName {
			return ast.NodeTypeExtensionCall{Name: v.Name, Args: []ast.IsNode{ast.NodeValue{Value: types.String("")}}}
		}
		args := make([]ast.IsNode, len(v.Args))
		for i, a := range v.Args {
			args[i] = m(a)
		}
		return ast.NodeTypeExtensionCall{Name: v.Name, Args: args}
	case ast.NodeTypeAccess:
		return ast.NodeTypeAccess{StrOpNode: ast.StrOpNode{Arg: m(v.Arg), Value: v.Value}}
	case ast.NodeTypeHas:
		return ast.NodeTypeHas{StrOpNode: ast.StrOpNode{Arg: m(v.Arg), Value: v.Value}}
	case ast.NodeTypeLike:
		return ast.NodeTypeLike{Arg: m(v.Arg), Value: v.Value}
	case ast.NodeTypeIfThenElse:
		return ast.NodeTypeIfThenElse{If: m(v.If), Then: m(v.Then), Else: m(v.Else)}
	case ast.NodeTypeIs:
		return ast.NodeTypeIs{Left: m(v.Left), EntityType: v.EntityType}
	case ast.NodeTypeIsIn:
		return ast.NodeTypeIsIn{NodeTypeIs: ast.NodeTypeIs{Left: m(v.Left), EntityType: v.EntityType}, Entity: m(v.Entity)}
	case ast.NodeTypeRecord:
		el := make([]ast.RecordElementNode, len(v.Elements))
		for i, e := range v.Elements {
			el[i] = ast.RecordElementNode{Key: e.Key, Value: m(e.Value)}
		}
		return ast.NodeTypeRecord{Elements: el}
	case ast.NodeTypeSet:
		el := make([]ast.IsNode, len(v.Elements))
		for i, e := range v.Elements {
			el[i] = m(e)
		}
		return ast.NodeTypeSet{Elements: el}
	case ast.NodeTypeNegate:
		return ast.NodeTypeNegate{UnaryNode: un(v.UnaryNode)}
	case ast.NodeTypeNot:
		return ast.NodeTypeNot{UnaryNode: un(v.UnaryNode)}
	case ast.NodeTypeIsEmpty:
		return ast.NodeTypeIsEmpty{UnaryNode: un(v.UnaryNode)}
	case ast.NodeTypeGetTag:
		return ast.NodeTypeGetTag{BinaryNode: bin(v.BinaryNode)}
	case ast.NodeTypeHasTag:
		return ast.NodeTypeHasTag{BinaryNode: bin(v.BinaryNode)}
	case ast.NodeTypeIn:
		return ast.NodeTypeIn{BinaryNode: bin(v.BinaryNode)}
	case ast.NodeTypeAnd:
		return ast.NodeTypeAnd{BinaryNode: bin(v.BinaryNode)}
	case ast.NodeTypeOr:
		return ast.NodeTypeOr{BinaryNode: bin(v.BinaryNode)}
	case ast.NodeTypeEquals:
		return ast.NodeTypeEquals{BinaryNode: bin(v.BinaryNode)}
	case ast.NodeTypeNotEquals:
		return ast.NodeTypeNotEquals{BinaryNode: bin(v.BinaryNode)}
	case ast.NodeTypeGreaterThan:
		return ast.NodeTypeGreaterThan{BinaryNode: bin(v.BinaryNode)}
	case ast.NodeTypeGreaterThanOrEqual:
		return ast.NodeTypeGreaterThanOrEqual{BinaryNode: bin(v.BinaryNode)}
	case ast.NodeTypeLessThan:
		return ast.NodeTypeLessThan{BinaryNode: bin(v.BinaryNode)}
	case ast.NodeTypeLessThanOrEqual:
		return ast.NodeTypeLessThanOrEqual{BinaryNode: bin(v.BinaryNode)}
	case ast.NodeTypeSub:
		return ast.NodeTypeSub{BinaryNode: bin(v.BinaryNode)}
	case ast.NodeTypeAdd:
		return ast.NodeTypeAdd{BinaryNode: bin(v.BinaryNode)}
	case ast.NodeTypeMult:
		return ast.NodeTypeMult{BinaryNode: bin(v.BinaryNode)}
	case ast.NodeTypeContains:
		return ast.NodeTypeContains{BinaryNode: bin(v.BinaryNode)}
	case ast.NodeTypeContainsAll:
		return ast.NodeTypeContainsAll{BinaryNode: bin(v.BinaryNode)}
	case ast.NodeTypeContainsAny:
		return ast.NodeTypeContainsAny{BinaryNode: bin(v.BinaryNode)}
	}
	return n
}

// CandidateRepairs lists single repairs worth trying for a run that recorded these events.
func CandidateRepairs(events map[string]int) []string {
	var out []string
	for k := range events {
		out = append(out, k)
	}
	sort.Strings(out)
	return out
}

// With returns the configuration c plus the named repairs.
func (c RefCfg) With(names []string) RefCfg {
	out := c
	out.Taint = map[string]bool{}
	for k, v := range c.Taint {
		out.Taint[k] = v
	}
	for _, n := range names {
		switch n {
		case "stale-residual-and":
			out.StaleAnd = true
		case "stale-residual-or":
			out.StaleOr = true
		case "stale-residual-if":
			out.StaleIf = true
		case "isin-eager-rhs-error":
			out.IsInLazy = true
		case NestedIgnoreClass:
			out.IgnTaint = true
		default:
			out.Taint[n] = true
		}
	}
	return out
}

// CfgWith builds the configuration applying the named repairs to the code as it was before any repair.
func CfgWith(names []string) RefCfg { return RefCfg{}.With(names) }

// RepairedCfg is partial.go as repaired: every switch on.
func RepairedCfg() RefCfg {
	return RefCfg{StaleAnd: true, StaleOr: true, StaleIf: true, IsInLazy: true, TaintAll: true, IgnTaint: true}
}

// BaseCfgs lists the configurations an implementation under test is compared with, most likely first: the
// repaired code, the repaired code with ONE family reverted (a returning defect is then named precisely),
// and the code before any repair.
func BaseCfgs() []RefCfg {
	noStale := RepairedCfg()
	noStale.StaleAnd, noStale.StaleOr, noStale.StaleIf = false, false, false
	noIsIn := RepairedCfg()
	noIsIn.IsInLazy = false
	noTaint := RepairedCfg()
	noTaint.TaintAll = false
	noIgn := RepairedCfg()
	noIgn.IgnTaint = false
	// noIgn directly after the repaired code: the C05 replay compares DECISIONS only, and on a template with nested ignore
	// markers a deny is reproduced by more than one reverted family; the family that is about ignore markers is tried first
	return []RefCfg{RepairedCfg(), noIgn, noStale, noIsIn, noTaint, {}}
}

// Subsets enumerates the non-empty subsets of names by increasing size (at most 2^len, len is tiny).
func Subsets(names []string) [][]string {
	var out [][]string
	n := len(names)
	if n > 10 {
		n = 10
	}
	for size := 1; size <= n; size++ {
		for mask := 1; mask < 1<<n; mask++ {
			cnt := 0
			for b := 0; b < n; b++ {
				if mask>>b&1 == 1 {
					cnt++
				}
			}
			if cnt != size {
				continue
			}
			var s []string
			for b := 0; b < n; b++ {
				if mask>>b&1 == 1 {
					s = append(s, names[b])
				}
			}
			out = append(out, s)
		}
	}
	return out
}
