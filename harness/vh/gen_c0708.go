package vh

// Generators for C07/C08: purely syntactic trees over ALL node kinds (no typing discipline — the
// properties are about syntax), every (parent, child, operand position) pairing, negative literals in
// every position, keyword / empty / non-identifier attribute names, strings over control, quote,
// backslash, non-ASCII, grapheme-extend, unassigned and non-character code points.

import (
	"math"
	"math/rand"
	"strings"
	"unicode/utf8"

	"github.com/cedar-policy/cedar-go/types"
	"github.com/cedar-policy/cedar-go/x/exp/ast"
	"github.com/cedar-policy/cedar-go/x/exp/verifhooks"
)

// SynKind enumerates the node kinds of x/exp/ast (literal kinds split by value type).
type SynKind int

const (
	KBool SynKind = iota
	KLong
	KNegLong
	KStr
	KEntity
	KVar
	KNot
	KNeg
	KIsEmpty
	KAnd
	KOr
	KEq
	KNe
	KLt
	KLe
	KGt
	KGe
	KAdd
	KSub
	KMul
	KIn
	KContains
	KContainsAll
	KContainsAny
	KGetTag
	KHasTag
	KIte
	KAccess
	KHas
	KLike
	KIs
	KIsIn
	KSet
	KRecord
	KCallFn
	KCallMethod
	NumGrammarKinds // kinds below are values that have no literal syntax (C08 only)
	KValSet     = NumGrammarKinds
	KValRecord  = NumGrammarKinds + 1
	KValDecimal = NumGrammarKinds + 2
	KValIP      = NumGrammarKinds + 3
	KValDatetime = NumGrammarKinds + 4
	KValDuration = NumGrammarKinds + 5
	NumAllKinds  = NumGrammarKinds + 6
)

var synKindNames = []string{"bool", "long", "neglong", "str", "entity", "var", "not", "neg", "isEmpty", "and", "or", "eq", "ne", "lt", "le", "gt", "ge",
	"add", "sub", "mul", "in", "contains", "containsAll", "containsAny", "getTag", "hasTag", "ite", "access", "has", "like", "is", "isIn", "set", "record",
	"callFn", "callMethod", "valSet", "valRecord", "valDecimal", "valIP", "valDatetime", "valDuration"}

func (k SynKind) String() string { return synKindNames[k] }

// SynSlots is the number of operand positions of a kind (sets/records/calls: up to 3 explicit positions).
func SynSlots(k SynKind) int {
	switch k {
	case KNot, KNeg, KIsEmpty, KAccess, KHas, KLike, KIs:
		return 1
	case KAnd, KOr, KEq, KNe, KLt, KLe, KGt, KGe, KAdd, KSub, KMul, KIn, KContains, KContainsAll, KContainsAny, KGetTag, KHasTag, KIsIn:
		return 2
	case KIte:
		return 3
	case KSet, KRecord, KCallFn:
		return 2
	case KCallMethod:
		return 3
	}
	return 0
}

// SpecialRunes: code points around every class boundary of the escape functions.
var SpecialRunes = []rune{0, 1, 7, 8, '\t', '\n', 0x0b, 0x0c, '\r', 0x1b, 0x1f, ' ', '!', '"', '\'', '*', '\\', '/', 'a', 'Z', '0', '_', '{', '}', 0x7e, 0x7f,
	0x80, 0x9f, 0xa0, 0xa1, 0xad, 0xe9, 0x300, 0x301, 0x36f, 0x378, 0x483, 0x488, 0x600, 0x61c, 0x6dd, 0x70f, 0x200b, 0x200c, 0x200d, 0x200e, 0x2028, 0x2029, 0x202e, 0x2060,
	0x20dd, 0x3000, 0x65e5, 0xd7ff, 0xe000, 0xf8ff, 0xfe00, 0xfe0f, 0xfeff, 0xfff9, 0xfffc, 0xfffd, 0xfffe, 0xffff, 0x10000, 0x1f600, 0x1f3fb, 0x1d165, 0xe0001, 0xe0020, 0xe007f,
	0xe0100, 0xe01ef, 0xe01f0, 0xf0000, 0x10fffd, 0x10fffe, 0x10ffff, 0x2fa1d, 0x2fa1e, 0x3134a, 0x3134b}

var FixedStrings = []string{"", "a", "abc", "a b", "if", "true", "in", "__cedar", "principal", "contains", "a\"b", "a\\b", "a\\\"", "\\", "\"", "'", "*", "a*b", "\\*", "**",
	"\n", "\x00", "\x7f", "é", "日本", "́", "á", "́a", "͸", "�", "a�b", "\U0001F600", "\u0080", "\a", " ", "", "\U000E0100x", "x\U000E0100",
	"hello world", "10.0.0.1", "1.5", "${x}", "\\u{41}", "\\x41", "u{1F600}", "//", "/*", "*/", "a//b\nc"}

type SynGen struct {
	R *rand.Rand
	// Values: also produce NodeValue nodes holding sets, records and extension values (C08).
	Values bool
	// NoFFFD etc. are not options: the generator always covers the known-defect inputs; the oracles classify.
}

func (g *SynGen) pick(n int) int { return g.R.Intn(n) }

func (g *SynGen) Rune() rune {
	switch g.pick(6) {
	case 0, 1, 2:
		return SpecialRunes[g.pick(len(SpecialRunes))]
	case 3:
		return rune(0x20 + g.pick(0x5f))
	default:
		for {
			r := rune(g.pick(0x110000))
			if utf8.ValidRune(r) {
				return r
			}
		}
	}
}

func (g *SynGen) Str() string {
	if g.pick(3) == 0 {
		return FixedStrings[g.pick(len(FixedStrings))]
	}
	n := g.pick(5)
	var b strings.Builder
	for i := 0; i < n; i++ {
		b.WriteRune(g.Rune())
	}
	return b.String()
}

var attrNames = []string{"a", "foo", "n", "s", "_x1", "A9", "if", "then", "else", "true", "false", "in", "like", "has", "is", "__cedar", "principal", "context", "contains", "isEmpty",
	"getTag", "ip", "permit", "when", "", "a b", "1a", "a-b", "é", "a.b", "a::b", "\"", "\\", "*", "\n", "\x00", "́", "͸", "�", "\U0001F600", "日本"}

func (g *SynGen) Attr() types.String {
	if g.pick(5) == 0 {
		return types.String(g.Str())
	}
	return types.String(attrNames[g.pick(len(attrNames))])
}

var synEntityTypes = []types.EntityType{"User", "Group", "Doc", "Action", "NS::Folder", "A::B::C", "principal", "_t", "T1::t2", "action"}

func (g *SynGen) EntityType() types.EntityType { return synEntityTypes[g.pick(len(synEntityTypes))] }

func (g *SynGen) UID() types.EntityUID {
	if g.pick(2) == 0 {
		return types.NewEntityUID(g.EntityType(), []types.String{"a", "b", "c"}[g.pick(3)])
	}
	return types.NewEntityUID(g.EntityType(), types.String(g.Str()))
}

var synLongs = []int64{0, 1, 2, 5, 7, 10, 42, 1 << 31, math.MaxInt64, math.MaxInt64 - 1}

func (g *SynGen) PosLong() int64 {
	if g.pick(3) == 0 {
		return g.R.Int63()
	}
	return synLongs[g.pick(len(synLongs))]
}

func (g *SynGen) NegLong() int64 {
	switch g.pick(4) {
	case 0:
		return math.MinInt64
	case 1:
		return -g.R.Int63() - 1
	default:
		return -synLongs[1+g.pick(len(synLongs)-1)]
	}
}

func (g *SynGen) Pattern() types.Pattern {
	n := g.pick(5)
	var comps []any
	for i := 0; i < n; i++ {
		if g.pick(5) < 2 {
			comps = append(comps, types.Wildcard{})
		} else {
			comps = append(comps, types.String(g.Str()))
		}
	}
	return types.NewPattern(comps...)
}

var synFunctions = []string{"ip", "decimal", "datetime", "duration"}
var synMethods = []string{"lessThan", "lessThanOrEqual", "greaterThan", "greaterThanOrEqual", "isIpv4", "isIpv6", "isLoopback", "isMulticast", "isInRange",
	"toDate", "toTime", "offset", "durationSince", "toDays", "toHours", "toMinutes", "toSeconds", "toMilliseconds"}

// value (not node) generators for NodeValue holding composite / extension values
func (g *SynGen) scalarValue() types.Value {
	switch g.pick(5) {
	case 0:
		return types.Boolean(g.pick(2) == 0)
	case 1:
		return types.Long(g.PosLong())
	case 2:
		return types.Long(g.NegLong())
	case 3:
		return types.String(g.Str())
	default:
		return g.UID()
	}
}

func (g *SynGen) extValue(k SynKind) types.Value {
	switch k {
	case KValDecimal:
		return types.VerifDecimalFromRaw(BoundaryDecimals[g.pick(len(BoundaryDecimals))])
	case KValIP:
		for {
			ip, err := types.ParseIPAddr(IPStrings[g.pick(len(IPStrings))])
			if err == nil {
				return ip
			}
		}
	case KValDatetime:
		return types.NewDatetimeFromMillis(BoundaryMillis[g.pick(len(BoundaryMillis))])
	default:
		return types.NewDurationFromMillis(BoundaryMillis[g.pick(len(BoundaryMillis))])
	}
}

func (g *SynGen) compositeValue(depth int) types.Value {
	if depth <= 0 {
		if g.pick(4) == 0 {
			return g.extValue(KValDecimal + SynKind(g.pick(4)))
		}
		return g.scalarValue()
	}
	switch g.pick(3) {
	case 0:
		n := g.pick(4)
		var vs []types.Value
		for i := 0; i < n; i++ {
			vs = append(vs, g.compositeValue(depth-1))
		}
		return types.NewSet(vs...)
	case 1:
		n := g.pick(4)
		m := types.RecordMap{}
		for i := 0; i < n; i++ {
			m[g.Attr()] = g.compositeValue(depth - 1)
		}
		return types.NewRecord(m)
	default:
		return g.compositeValue(0)
	}
}

func synLit(v types.Value) ast.IsNode { return ast.NodeValue{Value: v} }

var synVars = []types.String{"principal", "action", "resource", "context"}

// Leaf builds a node of a 0-slot kind.
func (g *SynGen) Leaf(k SynKind) ast.IsNode {
	switch k {
	case KBool:
		return synLit(types.Boolean(g.pick(2) == 0))
	case KLong:
		return synLit(types.Long(g.PosLong()))
	case KNegLong:
		return synLit(types.Long(g.NegLong()))
	case KStr:
		return synLit(types.String(g.Str()))
	case KEntity:
		return synLit(g.UID())
	case KVar:
		return ast.NodeTypeVariable{Name: synVars[g.pick(4)]}
	case KValSet:
		n := g.pick(4)
		var vs []types.Value
		for i := 0; i < n; i++ {
			vs = append(vs, g.compositeValue(1))
		}
		return synLit(types.NewSet(vs...))
	case KValRecord:
		n := g.pick(4)
		m := types.RecordMap{}
		for i := 0; i < n; i++ {
			m[g.Attr()] = g.compositeValue(1)
		}
		return synLit(types.NewRecord(m))
	case KValDecimal, KValIP, KValDatetime, KValDuration:
		return synLit(g.extValue(k))
	}
	panic("Leaf: not a leaf kind")
}

func (g *SynGen) leafKind() SynKind {
	ks := []SynKind{KBool, KLong, KNegLong, KStr, KEntity, KVar, KVar, KLong}
	if g.Values && g.pick(4) == 0 {
		return KValSet + SynKind(g.pick(6))
	}
	return ks[g.pick(len(ks))]
}

func (g *SynGen) RandLeaf() ast.IsNode { return g.Leaf(g.leafKind()) }

// Build constructs a node of kind k; child(i) supplies operand i (0 ≤ i < SynSlots(k)).
func (g *SynGen) Build(k SynKind, child func(i int) ast.IsNode) ast.IsNode {
	b := func() ast.BinaryNode { return ast.BinaryNode{Left: child(0), Right: child(1)} }
	switch k {
	case KNot:
		return ast.NodeTypeNot{UnaryNode: ast.UnaryNode{Arg: child(0)}}
	case KNeg:
		return ast.NodeTypeNegate{UnaryNode: ast.UnaryNode{Arg: child(0)}}
	case KIsEmpty:
		return ast.NodeTypeIsEmpty{UnaryNode: ast.UnaryNode{Arg: child(0)}}
	case KAnd:
		return ast.NodeTypeAnd{BinaryNode: b()}
	case KOr:
		return ast.NodeTypeOr{BinaryNode: b()}
	case KEq:
		return ast.NodeTypeEquals{BinaryNode: b()}
	case KNe:
		return ast.NodeTypeNotEquals{BinaryNode: b()}
	case KLt:
		return ast.NodeTypeLessThan{BinaryNode: b()}
	case KLe:
		return ast.NodeTypeLessThanOrEqual{BinaryNode: b()}
	case KGt:
		return ast.NodeTypeGreaterThan{BinaryNode: b()}
	case KGe:
		return ast.NodeTypeGreaterThanOrEqual{BinaryNode: b()}
	case KAdd:
		return ast.NodeTypeAdd{BinaryNode: b()}
	case KSub:
		return ast.NodeTypeSub{BinaryNode: b()}
	case KMul:
		return ast.NodeTypeMult{BinaryNode: b()}
	case KIn:
		return ast.NodeTypeIn{BinaryNode: b()}
	case KContains:
		return ast.NodeTypeContains{BinaryNode: b()}
	case KContainsAll:
		return ast.NodeTypeContainsAll{BinaryNode: b()}
	case KContainsAny:
		return ast.NodeTypeContainsAny{BinaryNode: b()}
	case KGetTag:
		return ast.NodeTypeGetTag{BinaryNode: b()}
	case KHasTag:
		return ast.NodeTypeHasTag{BinaryNode: b()}
	case KIte:
		return ast.NodeTypeIfThenElse{If: child(0), Then: child(1), Else: child(2)}
	case KAccess:
		return ast.NodeTypeAccess{StrOpNode: ast.StrOpNode{Arg: child(0), Value: g.Attr()}}
	case KHas:
		return ast.NodeTypeHas{StrOpNode: ast.StrOpNode{Arg: child(0), Value: g.Attr()}}
	case KLike:
		return ast.NodeTypeLike{Arg: child(0), Value: g.Pattern()}
	case KIs:
		return ast.NodeTypeIs{Left: child(0), EntityType: g.EntityType()}
	case KIsIn:
		return ast.NodeTypeIsIn{NodeTypeIs: ast.NodeTypeIs{Left: child(0), EntityType: g.EntityType()}, Entity: child(1)}
	case KSet:
		n := g.pick(4) // 0..3 elements; positions 0 and 1 are the explicit ones
		var es []ast.IsNode
		for i := 0; i < n; i++ {
			if i < 2 {
				es = append(es, child(i))
			} else {
				es = append(es, g.RandLeaf())
			}
		}
		return ast.NodeTypeSet{Elements: es}
	case KRecord:
		n := g.pick(4)
		var es []ast.RecordElementNode
		seen := map[types.String]bool{}
		for i := 0; i < n; i++ {
			k := g.Attr()
			if seen[k] {
				continue
			}
			seen[k] = true
			var v ast.IsNode
			if len(es) < 2 {
				v = child(len(es))
			} else {
				v = g.RandLeaf()
			}
			es = append(es, ast.RecordElementNode{Key: k, Value: v})
		}
		return ast.NodeTypeRecord{Elements: es}
	case KCallFn:
		n := g.pick(3)
		var as []ast.IsNode
		for i := 0; i < n; i++ {
			as = append(as, child(i))
		}
		return ast.NodeTypeExtensionCall{Name: types.Path(synFunctions[g.pick(len(synFunctions))]), Args: as}
	case KCallMethod:
		n := 1 + g.pick(3)
		var as []ast.IsNode
		for i := 0; i < n; i++ {
			as = append(as, child(i))
		}
		return ast.NodeTypeExtensionCall{Name: types.Path(synMethods[g.pick(len(synMethods))]), Args: as}
	}
	return g.Leaf(k)
}

func (g *SynGen) numKinds() int {
	if g.Values {
		return int(NumAllKinds)
	}
	return int(NumGrammarKinds)
}

// Node generates a random tree of the given maximal depth over all node kinds.
func (g *SynGen) Node(depth int) ast.IsNode {
	if depth <= 0 || g.pick(6) == 0 {
		return g.RandLeaf()
	}
	k := SynKind(g.pick(g.numKinds()))
	return g.Build(k, func(int) ast.IsNode { return g.Node(depth - 1) })
}

// Pairings enumerates every (parent kind, operand position, child kind): the child's own operands and the
// parent's other operands are random leaves.  reps copies of each triple with fresh random leaves.
func (g *SynGen) Pairings(reps int, f func(parent SynKind, slot int, child SynKind, n ast.IsNode)) {
	for p := SynKind(0); p < SynKind(g.numKinds()); p++ {
		for s := 0; s < SynSlots(p); s++ {
			for c := SynKind(0); c < SynKind(g.numKinds()); c++ {
				for r := 0; r < reps; r++ {
					var n ast.IsNode
					for try := 0; try < 20; try++ { // sets/records/calls have a random arity: retry until the slot exists
						used := false
						n = g.Build(p, func(i int) ast.IsNode {
							if i == s {
								used = true
								return g.Build(c, func(int) ast.IsNode { return g.RandLeaf() })
							}
							return g.RandLeaf()
						})
						if used {
							break
						}
					}
					f(p, s, c, n)
				}
			}
		}
	}
}

var synAnnKeys = []types.Ident{"id", "a", "_k", "if", "in", "true", "__cedar", "principal", "permit", "when", "K9"}

func (g *SynGen) Annotations() []ast.AnnotationType {
	n := 0
	if g.pick(3) == 0 {
		n = 1 + g.pick(3)
	}
	var out []ast.AnnotationType
	seen := map[types.Ident]bool{}
	for i := 0; i < n; i++ {
		k := synAnnKeys[g.pick(len(synAnnKeys))]
		if seen[k] {
			continue
		}
		seen[k] = true
		out = append(out, ast.AnnotationType{Key: k, Value: types.String(g.Str())})
	}
	return out
}

func (g *SynGen) PrincipalScope() ast.IsPrincipalScopeNode {
	switch g.pick(6) {
	case 0, 1:
		return ast.ScopeTypeAll{}
	case 2:
		return ast.ScopeTypeEq{Entity: g.UID()}
	case 3:
		return ast.ScopeTypeIn{Entity: g.UID()}
	case 4:
		return ast.ScopeTypeIs{Type: g.EntityType()}
	default:
		return ast.ScopeTypeIsIn{Type: g.EntityType(), Entity: g.UID()}
	}
}

func (g *SynGen) ActionScope() ast.IsActionScopeNode {
	switch g.pick(5) {
	case 0, 1:
		return ast.ScopeTypeAll{}
	case 2:
		return ast.ScopeTypeEq{Entity: g.UID()}
	case 3:
		return ast.ScopeTypeIn{Entity: g.UID()}
	default:
		n := g.pick(4)
		es := []types.EntityUID{}
		for i := 0; i < n; i++ {
			es = append(es, g.UID())
		}
		return ast.ScopeTypeInSet{Entities: es}
	}
}

// PolicyWith wraps condition bodies into a policy with random effect, annotations and scopes.
func (g *SynGen) PolicyWith(bodies ...ast.IsNode) *ast.Policy {
	p := &ast.Policy{Effect: ast.Effect(g.pick(2) == 0), Annotations: g.Annotations(),
		Principal: g.PrincipalScope(), Action: g.ActionScope(), Resource: g.PrincipalScope().(ast.IsResourceScopeNode)}
	if g.pick(3) == 0 {
		p.Principal, p.Action, p.Resource = ast.ScopeTypeAll{}, ast.ScopeTypeAll{}, ast.ScopeTypeAll{}
	}
	for _, b := range bodies {
		p.Conditions = append(p.Conditions, ast.ConditionType{Condition: ast.Condition(g.pick(3) != 0), Body: b})
	}
	return p
}

// Policy: 0–3 random conditions.
func (g *SynGen) Policy(depth int) *ast.Policy {
	n := g.pick(4)
	var bs []ast.IsNode
	for i := 0; i < n; i++ {
		bs = append(bs, g.Node(depth))
	}
	return g.PolicyWith(bs...)
}

// ---- traversal helpers -------------------------------------------------------------------------

// MapNode rebuilds a tree bottom-up: f is applied to every node after its operands were mapped.
func MapNode(n ast.IsNode, f func(ast.IsNode) ast.IsNode) ast.IsNode {
	m := func(x ast.IsNode) ast.IsNode { return MapNode(x, f) }
	mb := func(b ast.BinaryNode) ast.BinaryNode { return ast.BinaryNode{Left: m(b.Left), Right: m(b.Right)} }
	switch v := n.(type) {
	case ast.NodeTypeAnd:
		n = ast.NodeTypeAnd{BinaryNode: mb(v.BinaryNode)}
	case ast.NodeTypeOr:
		n = ast.NodeTypeOr{BinaryNode: mb(v.BinaryNode)}
	case ast.NodeTypeEquals:
		n = ast.NodeTypeEquals{BinaryNode: mb(v.BinaryNode)}
	case ast.NodeTypeNotEquals:
		n = ast.NodeTypeNotEquals{BinaryNode: mb(v.BinaryNode)}
	case ast.NodeTypeLessThan:
		n = ast.NodeTypeLessThan{BinaryNode: mb(v.BinaryNode)}
	case ast.NodeTypeLessThanOrEqual:
		n = ast.NodeTypeLessThanOrEqual{BinaryNode: mb(v.BinaryNode)}
	case ast.NodeTypeGreaterThan:
		n = ast.NodeTypeGreaterThan{BinaryNode: mb(v.BinaryNode)}
	case ast.NodeTypeGreaterThanOrEqual:
		n = ast.NodeTypeGreaterThanOrEqual{BinaryNode: mb(v.BinaryNode)}
	case ast.NodeTypeAdd:
		n = ast.NodeTypeAdd{BinaryNode: mb(v.BinaryNode)}
	case ast.NodeTypeSub:
		n = ast.NodeTypeSub{BinaryNode: mb(v.BinaryNode)}
	case ast.NodeTypeMult:
		n = ast.NodeTypeMult{BinaryNode: mb(v.BinaryNode)}
	case ast.NodeTypeIn:
		n = ast.NodeTypeIn{BinaryNode: mb(v.BinaryNode)}
	case ast.NodeTypeContains:
		n = ast.NodeTypeContains{BinaryNode: mb(v.BinaryNode)}
	case ast.NodeTypeContainsAll:
		n = ast.NodeTypeContainsAll{BinaryNode: mb(v.BinaryNode)}
	case ast.NodeTypeContainsAny:
		n = ast.NodeTypeContainsAny{BinaryNode: mb(v.BinaryNode)}
	case ast.NodeTypeGetTag:
		n = ast.NodeTypeGetTag{BinaryNode: mb(v.BinaryNode)}
	case ast.NodeTypeHasTag:
		n = ast.NodeTypeHasTag{BinaryNode: mb(v.BinaryNode)}
	case ast.NodeTypeNot:
		n = ast.NodeTypeNot{UnaryNode: ast.UnaryNode{Arg: m(v.Arg)}}
	case ast.NodeTypeNegate:
		n = ast.NodeTypeNegate{UnaryNode: ast.UnaryNode{Arg: m(v.Arg)}}
	case ast.NodeTypeIsEmpty:
		n = ast.NodeTypeIsEmpty{UnaryNode: ast.UnaryNode{Arg: m(v.Arg)}}
	case ast.NodeTypeIfThenElse:
		n = ast.NodeTypeIfThenElse{If: m(v.If), Then: m(v.Then), Else: m(v.Else)}
	case ast.NodeTypeAccess:
		n = ast.NodeTypeAccess{StrOpNode: ast.StrOpNode{Arg: m(v.Arg), Value: v.Value}}
	case ast.NodeTypeHas:
		n = ast.NodeTypeHas{StrOpNode: ast.StrOpNode{Arg: m(v.Arg), Value: v.Value}}
	case ast.NodeTypeLike:
		n = ast.NodeTypeLike{Arg: m(v.Arg), Value: v.Value}
	case ast.NodeTypeIs:
		n = ast.NodeTypeIs{Left: m(v.Left), EntityType: v.EntityType}
	case ast.NodeTypeIsIn:
		n = ast.NodeTypeIsIn{NodeTypeIs: ast.NodeTypeIs{Left: m(v.Left), EntityType: v.EntityType}, Entity: m(v.Entity)}
	case ast.NodeTypeSet:
		es := make([]ast.IsNode, len(v.Elements))
		for i, e := range v.Elements {
			es[i] = m(e)
		}
		if v.Elements == nil {
			es = nil
		}
		n = ast.NodeTypeSet{Elements: es}
	case ast.NodeTypeRecord:
		es := make([]ast.RecordElementNode, len(v.Elements))
		for i, e := range v.Elements {
			es[i] = ast.RecordElementNode{Key: e.Key, Value: m(e.Value)}
		}
		if v.Elements == nil {
			es = nil
		}
		n = ast.NodeTypeRecord{Elements: es}
	case ast.NodeTypeExtensionCall:
		es := make([]ast.IsNode, len(v.Args))
		for i, e := range v.Args {
			es[i] = m(e)
		}
		if v.Args == nil {
			es = nil
		}
		n = ast.NodeTypeExtensionCall{Name: v.Name, Args: es}
	}
	return f(n)
}

// MapPolicy applies MapNode to every condition body (shallow copy of everything else).
func MapPolicy(p *ast.Policy, f func(ast.IsNode) ast.IsNode) *ast.Policy {
	q := *p
	q.Conditions = make([]ast.ConditionType, len(p.Conditions))
	for i, c := range p.Conditions {
		q.Conditions[i] = ast.ConditionType{Condition: c.Condition, Body: MapNode(c.Body, f)}
	}
	if p.Conditions == nil {
		q.Conditions = nil
	}
	return &q
}

// Receiver returns the operand that a postfix (member-level) node is applied to, if n is such a node.
func Receiver(n ast.IsNode) (ast.IsNode, bool) {
	switch v := n.(type) {
	case ast.NodeTypeAccess:
		return v.Arg, true
	case ast.NodeTypeIsEmpty:
		return v.Arg, true
	case ast.NodeTypeContains:
		return v.Left, true
	case ast.NodeTypeContainsAll:
		return v.Left, true
	case ast.NodeTypeContainsAny:
		return v.Left, true
	case ast.NodeTypeGetTag:
		return v.Left, true
	case ast.NodeTypeHasTag:
		return v.Left, true
	case ast.NodeTypeExtensionCall:
		if IsMethodC0708(string(v.Name)) && len(v.Args) > 0 {
			return v.Args[0], true
		}
	}
	return nil, false
}

// WithReceiver returns n with its receiver replaced.
func WithReceiver(n ast.IsNode, r ast.IsNode) ast.IsNode {
	switch v := n.(type) {
	case ast.NodeTypeAccess:
		return ast.NodeTypeAccess{StrOpNode: ast.StrOpNode{Arg: r, Value: v.Value}}
	case ast.NodeTypeIsEmpty:
		return ast.NodeTypeIsEmpty{UnaryNode: ast.UnaryNode{Arg: r}}
	case ast.NodeTypeContains:
		return ast.NodeTypeContains{BinaryNode: ast.BinaryNode{Left: r, Right: v.Right}}
	case ast.NodeTypeContainsAll:
		return ast.NodeTypeContainsAll{BinaryNode: ast.BinaryNode{Left: r, Right: v.Right}}
	case ast.NodeTypeContainsAny:
		return ast.NodeTypeContainsAny{BinaryNode: ast.BinaryNode{Left: r, Right: v.Right}}
	case ast.NodeTypeGetTag:
		return ast.NodeTypeGetTag{BinaryNode: ast.BinaryNode{Left: r, Right: v.Right}}
	case ast.NodeTypeHasTag:
		return ast.NodeTypeHasTag{BinaryNode: ast.BinaryNode{Left: r, Right: v.Right}}
	case ast.NodeTypeExtensionCall:
		as := append([]ast.IsNode{r}, v.Args[1:]...)
		return ast.NodeTypeExtensionCall{Name: v.Name, Args: as}
	}
	return n
}

var methodSetC0708 = func() map[string]bool {
	m := map[string]bool{}
	for _, s := range synMethods {
		m[s] = true
	}
	return m
}()
var functionSetC0708 = map[string]bool{"ip": true, "decimal": true, "datetime": true, "duration": true}

func IsMethodC0708(name string) bool   { return methodSetC0708[name] }
func IsFunctionC0708(name string) bool { return functionSetC0708[name] }

// IsIdentC0708: IDENT of the grammar (identifier characters, not reserved).
func IsIdentC0708(s string) bool {
	if s == "" || verifhooks.C0708IsReservedKeyword(s) {
		return false
	}
	for i, r := range s {
		if !(r == '_' || r >= 'a' && r <= 'z' || r >= 'A' && r <= 'Z' || (r >= '0' && r <= '9' && i > 0)) {
			return false
		}
	}
	return true
}

func IsPathC0708(s string) bool {
	for _, part := range strings.Split(s, "::") {
		if !IsIdentC0708(part) {
			return false
		}
	}
	return true
}
