package vh

// Ambiguous entity-UID groups (C13 / C14): pairwise DISTINCT (type, id) pairs whose textual concatenations
// coincide under some non-injective key — Type+ID, Type+"::"+ID, the unquoted String() form … Any encoder that
// orders entities / parents by such a key ties on these pairs and falls back to Go's map order, so its
// output varies from call to call. The families are generated, not listed: every split point of a random
// string (key Type+ID) and every `::` split of a random path (key Type+"::"+ID), with ids that themselves
// contain `::`, quotes and backslashes, and with empty types / ids.

import (
	"strings"

	"github.com/cedar-policy/cedar-go/types"
)

var ambigWords = []string{"A", "B", "C", "User", "Users", "s", "1", "Team", "Lead", "7", "N", "S", "x", "é", "a_b", "T0"}
var ambigTailWords = []string{"\"b", "a\"", "\\", "c\"::\"d", "", " ", " ", "::", "'"}

// AmbiguousUIDGroups draws one base string and returns the groups (each of >= 2 distinct UIDs) of its splits:
// group 0: all (prefix, suffix) splits of a string S at every byte position of its ASCII part (same Type+ID);
// group 1: all `::` splits of a path w1::…::wk (same Type+"::"+ID; the id keeps the remaining `::`);
// group 2: the union (an encoder may mix both mistakes: one key for the type, one for the id).
func (g *Gen) AmbiguousUIDGroups() [][]types.EntityUID {
	word := func() string { return ambigWords[g.pick(len(ambigWords))] }
	// key Type+ID
	s := word() + word()
	if g.chance(0.3) {
		s += word()
	}
	var g0 []types.EntityUID
	for i := 0; i <= len(s); i++ {
		if i < len(s) && s[i] >= 0x80 && s[i] < 0xC0 { // not inside a UTF-8 sequence
			continue
		}
		g0 = append(g0, types.NewEntityUID(types.EntityType(s[:i]), types.String(s[i:])))
	}
	// key Type+"::"+ID
	k := 2 + g.pick(3)
	ws := make([]string, k)
	for i := range ws {
		ws[i] = word()
	}
	if g.chance(0.4) {
		ws[k-1] = ambigTailWords[g.pick(len(ambigTailWords))]
	}
	var g1 []types.EntityUID
	for i := 1; i < k; i++ {
		g1 = append(g1, types.NewEntityUID(types.EntityType(strings.Join(ws[:i], "::")), types.String(strings.Join(ws[i:], "::"))))
	}
	if g.chance(0.5) { // the unqualified look-alike: empty type, the whole path as id; and the whole path as type, empty id
		g1 = append(g1, types.NewEntityUID("", types.String(strings.Join(ws, "::"))), types.NewEntityUID(types.EntityType(strings.Join(ws[:k-1], "::")+"::"), types.String(ws[k-1])))
	}
	dedup := func(xs []types.EntityUID) []types.EntityUID {
		seen := map[types.EntityUID]bool{}
		var out []types.EntityUID
		for _, x := range xs {
			if !seen[x] {
				seen[x] = true
				out = append(out, x)
			}
		}
		return out
	}
	g0, g1 = dedup(g0), dedup(g1)
	out := [][]types.EntityUID{}
	if len(g0) >= 2 {
		out = append(out, g0)
	}
	if len(g1) >= 2 {
		out = append(out, g1)
	}
	out = append(out, dedup(append(append([]types.EntityUID{}, g0...), g1...)))
	return out
}
