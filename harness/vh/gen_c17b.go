package vh

// C17 (second generator file): identifiers NEAR reserved words.
//
// The Cedar schema grammar reserves whole words only: IDENT = [_a-zA-Z][_a-zA-Z0-9]* minus {true false if then else in
// like has is __cedar}; a namespace / entity / common-type name is reserved only if one of its `::`-separated components
// EQUALS `__cedar`; a common type may in addition not be CALLED Bool Boolean Entity Extension Long Record Set String.
// An identifier that merely contains, starts with, ends in or differs in case from a reserved word is an ordinary
// identifier and must survive every codec. This file provides
//   - NearReservedIdents: such identifiers (mixed into the random name pools of SchemaGen, see gen_c1617.go),
//   - ExactReservedIdents: the reserved words themselves (for the positions where they are allowed, and to pin down the
//     recorded inconsistencies between the JSON and the text codec where they are not),
//   - C17NearReservedSchemas: one minimal schema per (position, identifier),
//   - C17NearReservedTexts: one hand-written Cedar text per (position, identifier), bypassing the printer.

import (
	"fmt"

	"github.com/cedar-policy/cedar-go/types"
	sast "github.com/cedar-policy/cedar-go/x/exp/schema/ast"
)

// NearReservedIdents are all ordinary identifiers by the grammar above.
var NearReservedIdents = []string{
	// __cedar as proper prefix / suffix / infix of an identifier, other case, one character off
	"__cedar_compat", "my__cedar", "x__cedary", "__cedar__", "___cedar", "__cedar1", "__cedar_", "a__cedar__b", "__Cedar", "__CEDAR", "_cedar", "cedar", "__ceda", "__cedarr",
	// policy keywords with prefixes / suffixes / other case
	"truex", "true_", "_true", "True", "falsey", "False", "iff", "if_", "_if", "If", "IF", "then1", "Then", "else_", "elsewhere",
	"inn", "in_", "_in", "In", "IN", "in1", "likes", "like_", "Like", "has_", "hash", "Has", "is_", "isa", "Is", "_is",
	// words of the schema language (contextual keywords: identifiers themselves) with suffixes
	"entityx", "entity_", "namespace1", "namespaces", "types", "type_", "actions", "action_", "enum_", "enums", "tags2", "appliesTo_", "applies",
	"principal_", "resource1", "context_", "attributes_",
	// built-in and reserved type names with suffixes / other case
	"Set_", "Set1", "Sets", "set", "String2", "String_", "string", "Bool_", "Boolean_", "Booleans", "bool", "Long_", "Long1", "long",
	"Record_", "Records", "Entity1", "Entity_", "Extension_", "Extension1", "ipaddr_", "decimal2", "datetime_", "duration1",
	// underscores only
	"_", "__", "___", "_0", "__1",
}

// SchemaKeywordIdents: the contextual keywords of the schema language; every one is an ordinary identifier.
var SchemaKeywordIdents = []string{"entity", "namespace", "type", "action", "enum", "tags", "appliesTo", "principal", "resource", "context", "attributes"}

// ExactReservedIdents: the reserved words and the reserved type names themselves.
var ExactReservedIdents = []string{"__cedar", "true", "false", "if", "then", "else", "in", "like", "has", "is",
	"Bool", "Boolean", "Entity", "Extension", "Long", "Record", "Set", "String"}

// C17Position is a place of a schema where a name is written.
type C17Position struct {
	Name string
	// Build returns the minimal schema with id at the position (declaration plus the references that name it)
	Build func(id string) *sast.Schema
	// Text is the same schema as hand-written Cedar text
	Text func(id string) string
	// Kind selects the grammar rule that decides whether id is legal there:
	// "path" (namespace component), "ident" (entity / enum name), "common" (common-type name), "name" (attribute / action
	// name written without quotes), "annotation" (annotation key)
	Kind string
}

func c17T(s string) sast.IsType { return sast.TypeRef(s) }

// C17Positions lists the positions of the deterministic near-reserved pass.
var C17Positions = []C17Position{
	{Name: "namespace", Kind: "path",
		Build: func(id string) *sast.Schema {
			return &sast.Schema{Namespaces: sast.Namespaces{types.Path(id): {Entities: sast.Entities{"A": {}}}}}
		},
		Text: func(id string) string { return "namespace " + id + " { entity A; }" }},
	{Name: "namespace-first", Kind: "path",
		Build: func(id string) *sast.Schema {
			return &sast.Schema{Namespaces: sast.Namespaces{types.Path(id + "::B"): {Entities: sast.Entities{"A": {}}}}}
		},
		Text: func(id string) string { return "namespace " + id + "::B { entity A; }" }},
	{Name: "namespace-last", Kind: "path",
		Build: func(id string) *sast.Schema {
			return &sast.Schema{Namespaces: sast.Namespaces{types.Path("Acme::" + id): {Entities: sast.Entities{"A": {}}}}}
		},
		Text: func(id string) string { return "namespace Acme::" + id + " { entity A; }" }},
	{Name: "namespace-middle", Kind: "path",
		Build: func(id string) *sast.Schema {
			return &sast.Schema{Namespaces: sast.Namespaces{types.Path("Acme::" + id + "::B"): {Entities: sast.Entities{"A": {}}}}}
		},
		Text: func(id string) string { return "namespace Acme::" + id + "::B { entity A; }" }},
	{Name: "namespace-referenced", Kind: "path", // the namespace name inside qualified references written elsewhere
		Build: func(id string) *sast.Schema {
			return &sast.Schema{
				Namespaces: sast.Namespaces{types.Path(id): {Entities: sast.Entities{"A": {}}, CommonTypes: sast.CommonTypes{"T": {Type: c17T("Long")}},
					Actions: sast.Actions{"w": {}}}},
				Entities: sast.Entities{"B": {ParentTypes: []sast.EntityTypeRef{sast.EntityTypeRef(id + "::A")}, Shape: sast.RecordType{"a": {Type: c17T(id + "::A")}, "t": {Type: sast.SetType{Element: c17T(id + "::T")}}}}},
				Actions: sast.Actions{"v": {Parents: []sast.ParentRef{sast.NewParentRef(sast.EntityTypeRef(id+"::Action"), "w")},
					AppliesTo: &sast.AppliesTo{Principals: []sast.EntityTypeRef{sast.EntityTypeRef(id + "::A")}, Resources: []sast.EntityTypeRef{"B"}}}},
			}
		},
		Text: func(id string) string {
			return "namespace " + id + " { type T = Long; entity A; action w; }\nentity B in [" + id + "::A] { a: " + id + "::A, t: Set<" + id + "::T> };\n" +
				"action v in [" + id + "::Action::\"w\"] appliesTo { principal: [" + id + "::A], resource: [B] };"
		}},
	{Name: "entity", Kind: "ident",
		Build: func(id string) *sast.Schema {
			return &sast.Schema{
				Entities: sast.Entities{types.Ident(id): {}, "B": {ParentTypes: []sast.EntityTypeRef{sast.EntityTypeRef(id)}, Shape: sast.RecordType{"a": {Type: c17T(id)}}, Tags: sast.SetType{Element: c17T(id)}}},
				Actions:  sast.Actions{"v": {AppliesTo: &sast.AppliesTo{Principals: []sast.EntityTypeRef{sast.EntityTypeRef(id)}, Resources: []sast.EntityTypeRef{"B"}}}},
			}
		},
		Text: func(id string) string {
			return "entity " + id + "; entity B in [" + id + "] { a: " + id + " } tags Set<" + id + ">; action v appliesTo { principal: [" + id + "], resource: B };"
		}},
	{Name: "entity-in-namespace", Kind: "ident",
		Build: func(id string) *sast.Schema {
			return &sast.Schema{Namespaces: sast.Namespaces{"NS": {
				Entities: sast.Entities{types.Ident(id): {}, "B": {ParentTypes: []sast.EntityTypeRef{sast.EntityTypeRef("NS::" + id)}, Shape: sast.RecordType{"a": {Type: c17T(id)}, "b": {Type: c17T("NS::" + id)}}}},
			}}}
		},
		Text: func(id string) string {
			return "namespace NS { entity " + id + "; entity B in [NS::" + id + "] { a: " + id + ", b: NS::" + id + " }; }"
		}},
	{Name: "enum", Kind: "ident",
		Build: func(id string) *sast.Schema {
			return &sast.Schema{Enums: sast.Enums{types.Ident(id): {Values: []types.String{"a", types.String(id)}}},
				Entities: sast.Entities{"B": {ParentTypes: []sast.EntityTypeRef{sast.EntityTypeRef(id)}, Shape: sast.RecordType{"a": {Type: c17T(id)}}}}}
		},
		Text: func(id string) string {
			return "entity " + id + " enum [\"a\", \"" + id + "\"]; entity B in " + id + " { a: " + id + " };"
		}},
	{Name: "common-type", Kind: "common",
		Build: func(id string) *sast.Schema {
			return &sast.Schema{CommonTypes: sast.CommonTypes{types.Ident(id): {Type: sast.RecordType{"k": {Type: c17T("Long")}}}},
				Entities: sast.Entities{"B": {Shape: sast.RecordType{"a": {Type: c17T(id)}, "s": {Type: sast.SetType{Element: c17T(id)}, Optional: true}}}},
				Actions:  sast.Actions{"v": {AppliesTo: &sast.AppliesTo{Principals: []sast.EntityTypeRef{"B"}, Resources: []sast.EntityTypeRef{"B"}, Context: c17T(id)}}}}
		},
		Text: func(id string) string {
			return "type " + id + " = { k: Long }; entity B { a: " + id + ", s?: Set<" + id + "> }; action v appliesTo { principal: B, resource: B, context: " + id + " };"
		}},
	{Name: "common-type-in-namespace", Kind: "common",
		Build: func(id string) *sast.Schema {
			return &sast.Schema{Namespaces: sast.Namespaces{"NS": {CommonTypes: sast.CommonTypes{types.Ident(id): {Type: c17T("String")}},
				Entities: sast.Entities{"B": {Shape: sast.RecordType{"a": {Type: c17T(id)}, "b": {Type: c17T("NS::" + id)}}}}}}}
		},
		Text: func(id string) string {
			return "namespace NS { type " + id + " = String; entity B { a: " + id + ", b: NS::" + id + " }; }"
		}},
	{Name: "attribute", Kind: "name",
		Build: func(id string) *sast.Schema {
			return &sast.Schema{Entities: sast.Entities{"B": {Shape: sast.RecordType{types.String(id): {Type: c17T("Long")}, "r": {Type: sast.RecordType{types.String(id): {Type: c17T("String"), Optional: true}}}}}},
				Actions: sast.Actions{"v": {AppliesTo: &sast.AppliesTo{Principals: []sast.EntityTypeRef{"B"}, Resources: []sast.EntityTypeRef{"B"}, Context: sast.RecordType{types.String(id): {Type: c17T("Bool")}}}}}}
		},
		Text: func(id string) string {
			return "entity B { " + id + ": Long, r: { " + id + "?: String } }; action v appliesTo { principal: B, resource: B, context: { " + id + ": Bool } };"
		}},
	{Name: "action", Kind: "name",
		Build: func(id string) *sast.Schema {
			return &sast.Schema{Entities: sast.Entities{"B": {}},
				Actions: sast.Actions{types.String(id): {AppliesTo: &sast.AppliesTo{Principals: []sast.EntityTypeRef{"B"}, Resources: []sast.EntityTypeRef{"B"}}},
					"w": {Parents: []sast.ParentRef{sast.ParentRefFromID(types.String(id))}}, "x": {Parents: []sast.ParentRef{sast.NewParentRef("Action", types.String(id))}}}}
		},
		Text: func(id string) string {
			return "entity B; action " + id + " appliesTo { principal: B, resource: B }; action w in [" + id + "]; action x in [Action::\"" + id + "\"];"
		}},
	{Name: "annotation", Kind: "annotation",
		Build: func(id string) *sast.Schema {
			return &sast.Schema{Entities: sast.Entities{"B": {Annotations: sast.Annotations{types.Ident(id): "v"}, Shape: sast.RecordType{"a": {Type: c17T("Long"), Annotations: sast.Annotations{types.Ident(id): ""}}}}},
				Namespaces: sast.Namespaces{"NS": {Annotations: sast.Annotations{types.Ident(id): "n"}}}}
		},
		Text: func(id string) string {
			return "@" + id + "(\"v\") entity B { @" + id + " a: Long }; @" + id + "(\"n\") namespace NS { }"
		}},
}

// C17NearReservedCase is one (position, identifier) pair of the deterministic pass.
type C17NearReservedCase struct {
	Position C17Position
	Ident    string
	Group    string // near | keyword | exact
}

// C17NearReservedCases: every position x (near-reserved identifiers, schema keywords, exact reserved words).
func C17NearReservedCases() []C17NearReservedCase {
	var out []C17NearReservedCase
	for _, p := range C17Positions {
		for _, id := range NearReservedIdents {
			out = append(out, C17NearReservedCase{p, id, "near"})
		}
		for _, id := range SchemaKeywordIdents {
			out = append(out, C17NearReservedCase{p, id, "keyword"})
		}
		for _, id := range ExactReservedIdents {
			out = append(out, C17NearReservedCase{p, id, "exact"})
		}
	}
	return out
}

func (c C17NearReservedCase) Tag() string {
	return fmt.Sprintf("nearres-%s-%s-%s", c.Group, c.Position.Name, c.Ident)
}

// nearReservedPath builds a namespace name with a near-reserved component (for the random generator).
func (g *SchemaGen) nearReservedPath() string {
	id := NearReservedIdents[g.pick(len(NearReservedIdents))]
	switch g.pick(4) {
	case 0:
		return id + "::B"
	case 1:
		return "Acme::" + id
	}
	return id
}
