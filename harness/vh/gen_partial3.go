package vh

// The "lazy matrix" policy generator for C05 / C06 (strengthening round 3).
//
// internal/eval/partial.go treats the lazily evaluated constructs by hand (partialAnd, partialOr, partialIfThenElse,
// partialIsIn, partialHasEval and the look-inside rule of `.` / `has`); every one of them decides per OPERAND what goes
// into the residual: the partially evaluated node, the original sub-expression, an embedded error, or nothing because
// the whole construct is "ignored".  A slip in one arm (a guard testing the wrong operand, a dropped case) only shows
// for one construct x one operand position x one operand status, and only if the result is then USED so that the
// operand's value matters.  This generator enumerates exactly that matrix:
//
//	construct   &&, ||, if (boolean), if (value-typed, result used whole or through access), is..in, has / . chains,
//	            whole use through a set / record literal, nested one in another up to depth 2
//	position    every operand (left / right; condition / then / else; tested entity / right-hand side; receiver)
//	status      known value, unknown variable, ignored part (request part or nested marker), erroring,
//	            container VALUE with a nested variable, container VALUE with a nested ignore marker (depth 1-3)
//	use         ==, !=, contains, containsAll, containsAny, in, isEmpty, access, has — whatever Atom does at the kind
//
// over the rich templates of gen_partial2.go, which offer operands of every status at once.

import (
	"fmt"

	"github.com/cedar-policy/cedar-go/types"
	"github.com/cedar-policy/cedar-go/x/exp/ast"
	"github.com/cedar-policy/cedar-go/x/exp/eval"
)

// OpStatus is the status of an operand under a partial environment.
type OpStatus int

const (
	StKnown    OpStatus = iota // evaluates to a value without markers
	StUnknown                  // is a variable
	StIgnored                  // an ignored request part (or a reference into it) or a nested ignore marker
	StError                    // fails whatever the completion
	StTaintVar                 // a set / record VALUE that merely contains a variable
	StTaintIgn                 // a set / record VALUE that merely contains an ignore marker
	NumStatus
)

var StatusNames = []string{"known", "unknown", "ignored", "error", "tainted-var", "tainted-ign"}

// LazyConstructs names the constructs of the matrix.
var LazyConstructs = []string{"and", "or", "if-bool", "if-val", "isin", "has-chain", "wrap-whole"}

// LazyCell is one cell of the matrix: a construct and the status wanted at each of its operand positions.
type LazyCell struct {
	Construct string
	Status    [3]OpStatus
}

func (c LazyCell) String() string {
	n := lazyArity(c.Construct)
	s := c.Construct + ":"
	for i := 0; i < n; i++ {
		if i > 0 {
			s += "/"
		}
		s += StatusNames[c.Status[i]]
	}
	return s
}

func lazyArity(construct string) int {
	switch construct {
	case "if-bool", "if-val":
		return 3
	case "wrap-whole":
		return 1
	}
	return 2
}

// AllLazyCells enumerates the matrix: every construct x every status at every operand position, except the cells in
// which no operand is unknown / ignored / tainted (nothing for partial evaluation to get wrong).
func AllLazyCells() []LazyCell {
	var out []LazyCell
	for _, c := range LazyConstructs {
		n := lazyArity(c)
		total := 1
		for i := 0; i < n; i++ {
			total *= int(NumStatus)
		}
		for idx := 0; idx < total; idx++ {
			cell := LazyCell{Construct: c}
			x := idx
			interesting := false
			for i := 0; i < n; i++ {
				cell.Status[i] = OpStatus(x % int(NumStatus))
				x /= int(NumStatus)
				if cell.Status[i] != StKnown && cell.Status[i] != StError {
					interesting = true
				}
			}
			if interesting {
				out = append(out, cell)
			}
		}
	}
	return out
}

// Needs says which template features the cell asks for.
func (c LazyCell) Needs() (unknown, ignored, taintVar, taintIgn bool) {
	for i := 0; i < lazyArity(c.Construct); i++ {
		switch c.Status[i] {
		case StUnknown:
			unknown = true
		case StIgnored:
			ignored = true
		case StTaintVar:
			taintVar = true
		case StTaintIgn:
			taintIgn = true
		}
	}
	return
}

// Offers: the template has positions of every status the cell asks for, at a kind the construct can use there
// (is..in: entities / sets of entities; has chains: records / entities; a value-typed `if`: one kind for both branches).
func (t *Template) Offers(c LazyCell) bool {
	has := func(st OpStatus, kinds ...Ty) bool {
		if st == StKnown || st == StError {
			return true
		}
		for _, k := range kinds {
			if len(t.PathsWith(st, k)) > 0 {
				return true
			}
		}
		return false
	}
	switch c.Construct {
	case "isin":
		return has(c.Status[0], TEntity) && has(c.Status[1], TEntity, TSetEntity)
	case "has-chain":
		return has(c.Status[0], TRecord, TEntity) && has(c.Status[1], -1)
	case "if-val":
		if !has(c.Status[0], -1) {
			return false
		}
		for _, k := range valKinds {
			if has(c.Status[1], k) && has(c.Status[2], k) {
				return true
			}
		}
		return false
	}
	for i := 0; i < lazyArity(c.Construct); i++ {
		if !has(c.Status[i], -1) {
			return false
		}
	}
	return true
}

// statusesOf lists the statuses a template can offer.
func (t *Template) statusesOf() []OpStatus {
	out := []OpStatus{StKnown, StError}
	for _, st := range []OpStatus{StUnknown, StIgnored, StTaintVar, StTaintIgn} {
		if len(t.PathsWith(st, -1)) > 0 {
			out = append(out, st)
		}
	}
	return out
}

// LazyCellFor draws a cell whose statuses the template can offer; at least one position is not `known`.
func (g *Gen) LazyCellFor(t *Template) LazyCell {
	avail := t.statusesOf()
	weight := func(st OpStatus) int {
		switch st {
		case StKnown:
			return 3
		case StUnknown:
			return 6
		case StIgnored:
			return 4
		case StError:
			return 2
		case StTaintVar:
			return 5
		default:
			return 3
		}
	}
	total := 0
	for _, st := range avail {
		total += weight(st)
	}
	draw := func() OpStatus {
		x := g.pick(total)
		for _, st := range avail {
			if x < weight(st) {
				return st
			}
			x -= weight(st)
		}
		return StKnown
	}
	c := LazyCell{Construct: LazyConstructs[g.pick(len(LazyConstructs))]}
	for try := 0; try < 8; try++ {
		interesting := false
		for i := range c.Status {
			c.Status[i] = draw()
			if i < lazyArity(c.Construct) && c.Status[i] != StKnown && c.Status[i] != StError {
				interesting = true
			}
		}
		if interesting {
			break
		}
	}
	return c
}

func (g *Gen) litOf(kind Ty) ast.IsNode {
	switch kind {
	case TSetLong:
		return g.longSetLit()
	case TRecord:
		if g.chance(0.5) {
			return ast.NodeTypeRecord{Elements: []ast.RecordElementNode{{Key: "n", Value: lit(g.smallLong())}, {Key: "s", Value: lit(types.String("a"))}}}
		}
		return lit(types.NewRecord(types.RecordMap{"n": g.smallLong(), "s": types.String("a"), "b": types.True, "e": g.World.UIDs[0]}))
	}
	return lit(g.smallOf(kind))
}

// errOf yields an expression of (nominal) kind `kind` that fails under every completion.
func (g *Gen) errOf(t *Template, kind Ty) ast.IsNode {
	switch g.pick(3) {
	case 0:
		if !IsIgn(t.Env.Context) {
			if _, isv := IsVar(t.Env.Context); !isv {
				return access(ctxNode, "nosuch")
			}
		}
		fallthrough
	case 1:
		return access(lit(types.NewRecord(types.RecordMap{"a": types.Long(1)})), "nosuch")
	default:
		if kind == TLong {
			return ast.NodeTypeAdd{BinaryNode: bin(lit(types.Long(1)), lit(types.String("a")))}
		}
		return access(lit(types.Long(1)), "a")
	}
}

// ValOperand yields an expression of the given kind with the given status; ok=false if the template cannot offer one.
func (g *Gen) ValOperand(t *Template, kind Ty, st OpStatus) (ast.IsNode, Path, bool) {
	ps := t.PathsWith(st, kind)
	switch st {
	case StKnown:
		if len(ps) > 0 && g.chance(0.5) {
			p := ps[g.pick(len(ps))]
			return p.Expr, p, true
		}
		e := g.litOf(kind)
		return e, Path{Expr: e, Kind: kind}, true
	case StError:
		e := g.errOf(t, kind)
		return e, Path{Expr: e, Kind: kind}, true
	case StTaintVar, StTaintIgn:
		if len(ps) > 0 && g.chance(0.8) {
			p := ps[g.pick(len(ps))]
			return p.Expr, p, true
		}
		// a container LITERAL EXPRESSION around an unknown / ignored element (a residual node, not a value)
		inner := StUnknown
		if st == StTaintIgn {
			inner = StIgnored
		}
		switch kind {
		case TSetLong, TSetString, TSetEntity:
			if es := t.PathsWith(inner, elemKind(kind)); len(es) > 0 {
				e := ast.NodeTypeSet{Elements: []ast.IsNode{es[g.pick(len(es))].Expr, g.litOf(elemKind(kind))}}
				return e, Path{Expr: e, Kind: kind}, true
			}
		case TRecord:
			if es := t.PathsWith(inner, TLong); len(es) > 0 {
				e := ast.NodeTypeRecord{Elements: []ast.RecordElementNode{{Key: "n", Value: es[g.pick(len(es))].Expr}, {Key: "s", Value: lit(types.String("a"))}}}
				return e, Path{Expr: e, Kind: kind}, true
			}
		}
		if len(ps) > 0 {
			p := ps[g.pick(len(ps))]
			return p.Expr, p, true
		}
		return nil, Path{}, false
	}
	if len(ps) == 0 {
		return nil, Path{}, false
	}
	p := ps[g.pick(len(ps))]
	return p.Expr, p, true
}

// Atom2 is Atom plus the productions for sets of records and for whole use through literals.
func (g *Gen) Atom2(p Path, d int) ast.IsNode {
	e := p.Expr
	if p.RecSet {
		member := lit(types.NewRecord(types.RecordMap{"n": g.smallLong(), "s": types.String("a")}))
		if g.chance(0.3) {
			member = lit(types.NewRecord(types.RecordMap{"n": g.smallLong()}))
		}
		switch g.pick(5) {
		case 0, 1:
			return ast.NodeTypeContains{BinaryNode: bin(e, member)}
		case 2:
			return ast.NodeTypeContainsAny{BinaryNode: bin(e, ast.NodeTypeSet{Elements: []ast.IsNode{member, lit(types.NewRecord(types.RecordMap{"n": types.Long(2)}))}})}
		case 3:
			return ast.NodeTypeContainsAll{BinaryNode: bin(e, lit(types.NewSet(types.NewRecord(types.RecordMap{"n": types.Long(2)}))))}
		default:
			return not(ast.NodeTypeIsEmpty{UnaryNode: ast.UnaryNode{Arg: e}})
		}
	}
	if p.Kind == TRecord && p.Val != nil && g.chance(0.5) {
		// use the fields the record really has (the generic Atom guesses n / s / b / e)
		if r, ok := p.Val.(types.Record); ok && r.Len() > 0 {
			ks := SortedKeys(r)
			k := ks[g.pick(len(ks))]
			v, _ := r.Get(k)
			kind := kindOfValue(v)
			if n, isv := IsVar(v); isv {
				_ = n
				kind = TLong
				if ft, ok := SubFieldTypes[k]; ok {
					kind = ft
				}
			} else if IsIgn(v) {
				kind = TLong
				if ft, ok := SubFieldTypes[k]; ok {
					kind = ft
				}
			}
			sub := Path{Expr: access(e, k), Kind: kind, Val: v}
			if s, ok := v.(types.Set); ok {
				for x := range s.All() {
					if _, isRec := x.(types.Record); isRec {
						sub.RecSet = true
					}
				}
			}
			switch g.pick(4) {
			case 0:
				return ast.NodeTypeHas{StrOpNode: ast.StrOpNode{Arg: e, Value: k}}
			case 1:
				return and(ast.NodeTypeHas{StrOpNode: ast.StrOpNode{Arg: e, Value: k}}, g.Atom2(sub, d))
			default:
				return g.Atom2(sub, d)
			}
		}
	}
	if g.chance(0.12) {
		// whole use through a literal: [e].contains(x), {a: e}.a …, {a: e} == {a: x}
		other := g.litOf(p.Kind)
		switch g.pick(3) {
		case 0:
			return ast.NodeTypeContains{BinaryNode: bin(ast.NodeTypeSet{Elements: []ast.IsNode{e}}, other)}
		case 1:
			return g.Atom(Path{Expr: access(ast.NodeTypeRecord{Elements: []ast.RecordElementNode{{Key: "a", Value: e}}}, "a"), Kind: p.Kind}, d)
		default:
			return eq(ast.NodeTypeRecord{Elements: []ast.RecordElementNode{{Key: "a", Value: e}}}, ast.NodeTypeRecord{Elements: []ast.RecordElementNode{{Key: "a", Value: other}}})
		}
	}
	return g.Atom(p, d)
}

// BoolOperand yields a boolean expression whose partial evaluation has the given status.
func (g *Gen) BoolOperand(t *Template, st OpStatus, d int) (ast.IsNode, bool) {
	switch st {
	case StKnown:
		if g.chance(0.4) {
			return lit(types.Boolean(g.chance(0.5))), true
		}
		if ps := t.PathsWith(StKnown, -1); len(ps) > 0 {
			return g.Atom2(ps[g.pick(len(ps))], 0), true
		}
		return lit(types.Boolean(g.chance(0.5))), true
	case StError:
		kind := []Ty{TLong, TString, TBool, TSetLong, TEntity}[g.pick(5)]
		e := g.errOf(t, kind)
		if g.chance(0.3) {
			return e, true
		}
		return g.Atom(Path{Expr: e, Kind: kind}, 0), true
	}
	ps := t.PathsWith(st, -1)
	if len(ps) == 0 {
		return nil, false
	}
	p := ps[g.pick(len(ps))]
	if st == StUnknown && p.Kind == TBool && g.chance(0.5) {
		return p.Expr, true
	}
	return g.Atom2(p, 0), true
}

// baseAt returns the concrete value (Template.Base) at the position with this path text, nil if there is none.
func (t *Template) baseAt(text string) types.Value {
	switch text {
	case "principal":
		return t.Base.Principal
	case "action":
		return t.Base.Action
	case "resource":
		return t.Base.Resource
	case "context":
		return t.Base.Context
	}
	if len(text) < 9 || text[:8] != "context." {
		return nil
	}
	var cur types.Value = t.Base.Context
	for _, k := range splitDots(text[8:]) {
		r, ok := cur.(types.Record)
		if !ok {
			return nil
		}
		if cur, ok = r.Get(types.String(k)); !ok {
			return nil
		}
	}
	return cur
}

func splitDots(s string) []string {
	var out []string
	cur := ""
	for _, c := range s {
		if c == '.' {
			out = append(out, cur)
			cur = ""
		} else {
			cur += string(c)
		}
	}
	return append(out, cur)
}

var valKinds = []Ty{TLong, TString, TBool, TEntity, TSetLong, TSetString, TSetEntity, TRecord}

// LazyCond builds a condition for the cell; the returned label says what was really built (a status the template cannot
// offer at some position is replaced by `known`).
func (g *Gen) LazyCond(t *Template, c LazyCell, d int) (ast.IsNode, string) {
	got := c
	boolAt := func(i int) ast.IsNode {
		if d > 0 && g.chance(0.25) {
			// nest another construct at this position
			e, _ := g.LazyCond(t, g.LazyCellFor(t), d-1)
			return e
		}
		e, ok := g.BoolOperand(t, c.Status[i], d)
		if !ok {
			got.Status[i] = StKnown
			e, _ = g.BoolOperand(t, StKnown, d)
		}
		return e
	}
	var out ast.IsNode
	switch c.Construct {
	case "and":
		out = and(boolAt(0), boolAt(1))
	case "or":
		out = or(boolAt(0), boolAt(1))
	case "if-bool":
		out = ast.NodeTypeIfThenElse{If: boolAt(0), Then: boolAt(1), Else: boolAt(2)}
	case "if-val":
		// a value-typed `if`; the kind is one at which the wanted statuses of both branches exist, if any
		var kinds []Ty
		for _, k := range valKinds {
			_, _, ok1 := g.ValOperand(t, k, c.Status[1])
			_, _, ok2 := g.ValOperand(t, k, c.Status[2])
			if ok1 && ok2 {
				kinds = append(kinds, k)
			}
		}
		if len(kinds) == 0 {
			for _, k := range valKinds {
				_, _, ok1 := g.ValOperand(t, k, c.Status[1])
				_, _, ok2 := g.ValOperand(t, k, c.Status[2])
				if ok1 || ok2 {
					kinds = append(kinds, k)
				}
			}
		}
		k := TLong
		if len(kinds) > 0 {
			k = kinds[g.pick(len(kinds))]
		}
		branch := func(i int) (ast.IsNode, Path) {
			e, p, ok := g.ValOperand(t, k, c.Status[i])
			if !ok {
				got.Status[i] = StKnown
				e, p, _ = g.ValOperand(t, k, StKnown)
			}
			return e, p
		}
		th, p1 := branch(1)
		el, p2 := branch(2)
		whole := Path{Expr: ast.NodeTypeIfThenElse{If: boolAt(0), Then: th, Else: el}, Kind: k, RecSet: p1.RecSet || p2.RecSet}
		if k == TRecord {
			// records: field names of whichever branch is a position of the template
			if p1.Val != nil {
				whole.Val = p1.Val
			} else {
				whole.Val = p2.Val
			}
		}
		out = g.Atom2(whole, 0)
	case "isin":
		l, lp, ok := g.ValOperand(t, TEntity, c.Status[0])
		if !ok {
			got.Status[0] = StKnown
			l, lp, _ = g.ValOperand(t, TEntity, StKnown)
		}
		rk := TEntity
		if c.Status[1] == StTaintVar || c.Status[1] == StTaintIgn || g.chance(0.25) {
			rk = TSetEntity
		}
		r, _, ok := g.ValOperand(t, rk, c.Status[1])
		if !ok {
			r, _, ok = g.ValOperand(t, TEntity, c.Status[1])
		}
		if !ok {
			got.Status[1] = StKnown
			r, _, _ = g.ValOperand(t, TEntity, StKnown)
		}
		ty := EntityTypes[g.pick(len(EntityTypes))]
		if u, isEnt := lp.Val.(types.EntityUID); isEnt && u.Type != VariableEntityType && u.Type != IgnoreEntityType && g.chance(0.7) {
			ty = u.Type
		} else if bu, isEnt := t.baseAt(lp.Text).(types.EntityUID); isEnt && g.chance(0.45) {
			ty = bu.Type // the type of the value the unknown / ignored position was punched out of (always among its completions)
		} else if g.chance(0.6) {
			ty = "User" // the value universes always hold User::"a"
		}
		out = ast.NodeTypeIsIn{NodeTypeIs: ast.NodeTypeIs{Left: l, EntityType: ty}, Entity: r}
		if g.chance(0.4) {
			out = not(out)
		}
	case "has-chain":
		k := TRecord
		if g.chance(0.3) {
			k = TEntity
		}
		x, xp, ok := g.ValOperand(t, k, c.Status[0])
		if !ok {
			x, xp, ok = g.ValOperand(t, TRecord, c.Status[0])
		}
		if !ok {
			got.Status[0] = StKnown
			x, xp, _ = g.ValOperand(t, TRecord, StKnown)
		}
		f := SubFieldNames[g.pick(len(SubFieldNames))]
		fk := SubFieldTypes[f]
		var fv types.Value
		if r, isRec := xp.Val.(types.Record); isRec && r.Len() > 0 && g.chance(0.8) {
			ks := SortedKeys(r)
			f = ks[g.pick(len(ks))]
			fv, _ = r.Get(f)
			fk = kindOfValue(fv)
			if ft, ok := SubFieldTypes[f]; ok {
				if _, isRec := fv.(types.Record); !isRec {
					if _, isSet := fv.(types.Set); !isSet {
						fk = ft
					}
				}
			}
		} else if k == TEntity {
			f = FieldNames[g.pick(8)]
			fk = FieldTypes[f]
		}
		has := ast.NodeTypeHas{StrOpNode: ast.StrOpNode{Arg: x, Value: f}}
		use, _ := g.BoolOperand(t, c.Status[1], 0)
		if use == nil || g.chance(0.6) {
			use = g.Atom2(Path{Expr: access(x, f), Kind: fk, Val: fv}, 0)
			got.Status[1] = StKnown
		}
		switch g.pick(4) {
		case 0:
			out = and(has, use)
		case 1:
			out = or(not(has), use)
		case 2:
			out = ast.NodeTypeIfThenElse{If: has, Then: use, Else: lit(types.Boolean(g.chance(0.5)))}
		default:
			if sub, isRec := fv.(types.Record); isRec && sub.Len() > 0 {
				ks := SortedKeys(sub)
				out = and(has, ast.NodeTypeHas{StrOpNode: ast.StrOpNode{Arg: access(x, f), Value: ks[g.pick(len(ks))]}})
			} else {
				out = and(has, use)
			}
		}
	default: // wrap-whole
		k := valKinds[g.pick(len(valKinds))]
		var kinds []Ty
		for _, kk := range valKinds {
			if _, _, ok := g.ValOperand(t, kk, c.Status[0]); ok {
				kinds = append(kinds, kk)
			}
		}
		if len(kinds) > 0 {
			k = kinds[g.pick(len(kinds))]
		}
		x, xp, ok := g.ValOperand(t, k, c.Status[0])
		if !ok {
			got.Status[0] = StKnown
			x, xp, _ = g.ValOperand(t, k, StKnown)
		}
		xp.Expr = x
		xp.Kind = k
		out = g.Atom2(xp, 0)
	}
	return out, got.String()
}

// LazyPolicy generates a policy whose first condition is a cell of the lazy matrix; further conditions come from the
// matrix or from CondOver.  Returns the policy and the labels of the cells built.
func (g *Gen) LazyPolicy(t *Template) (*ast.Policy, []string) { return g.LazyPolicyFor(t, nil) }

// LazyPolicyFor: the first condition is built for the given cell (nil: a random one).
func (g *Gen) LazyPolicyFor(t *Template, first *LazyCell) (*ast.Policy, []string) {
	p := &ast.Policy{Effect: ast.Effect(g.chance(0.65)), Principal: ast.ScopeTypeAll{}, Action: ast.ScopeTypeAll{}, Resource: ast.ScopeTypeAll{}}
	if g.chance(0.25) {
		p.Principal = g.PrincipalScope()
	}
	if g.chance(0.15) {
		p.Resource = g.ResourceScope()
	}
	var labels []string
	n := 1
	if g.chance(0.3) {
		n = 2
	}
	for i := 0; i < n; i++ {
		var body ast.IsNode
		if i == 0 || g.chance(0.5) {
			var l string
			cell := g.LazyCellFor(t)
			depth := 1 + g.pick(2)
			if i == 0 && first != nil {
				cell = *first
				depth = g.pick(2) // mostly the bare cell
			}
			body, l = g.LazyCond(t, cell, depth)
			labels = append(labels, l)
		} else {
			body = g.CondOver(t, 1)
		}
		p.Conditions = append(p.Conditions, ast.ConditionType{Condition: ast.Condition(g.chance(0.8)), Body: body})
	}
	return p, labels
}

var _ = fmt.Sprint

// RichTemplateFor builds a rich template that offers every status the cell asks for (the regime — ignored request
// parts, nested ignore markers — follows from the cell; a few attempts, the last one is returned whatever it offers).
func (g *Gen) RichTemplateFor(base func() eval.Env, c LazyCell, o RichOpts) *Template {
	_, ign, _, tign := c.Needs()
	var t *Template
	for try := 0; try < 12; try++ {
		oo := o
		if ign {
			// an ignored request part, or (every other attempt) a marker that is itself a context field
			oo.PIgnPart = 0.45
			if try%2 == 1 {
				oo.PNestIgn = 0.35
			}
		}
		if tign {
			oo.PNestIgn = 0.45
		}
		switch {
		case c.Construct == "isin":
			oo.Force, oo.PFeature = []Ty{TEntity}, 0.8
			if try%3 == 2 {
				oo.PVarPart = 0.6
			}
		case try >= 4:
			// the kinds drawn so far did not offer the cell: vary them systematically
			oo.Force, oo.PFeature = []Ty{[]Ty{TLong, TEntity, TBool, TString, TRecord, TSetLong}[try%6]}, 0.8
		}
		t = g.RichTemplate(base(), oo)
		if t.Offers(c) {
			return t
		}
	}
	return t
}
