package vh

// Generators for C05/C06: request templates / partial environments whose parts contain unknowns
// (eval.Variable) and ignore markers, policies that USE the unknown positions, and value universes
// for completing the unknowns that hit both branches of the comparisons occurring in a policy.

import (
	"fmt"
	"sort"
	"strings"

	"github.com/cedar-policy/cedar-go/types"
	"github.com/cedar-policy/cedar-go/x/exp/ast"
	"github.com/cedar-policy/cedar-go/x/exp/eval"
)

func MkVar(name string) types.Value {
	return types.NewEntityUID(VariableEntityType, types.String(name))
}
func MkIgnore() types.Value { return types.NewEntityUID(IgnoreEntityType, "") }

// Path is a navigable expression into the request (by attribute access only) with its static kind.
type Path struct {
	Expr    ast.IsNode
	Kind    Ty
	IsVar   bool // the position holds an unknown itself
	Tainted bool // the position holds a container with an unknown somewhere inside
	Text    string
	// set by the rich templates (gen_partial2.go) only
	Ign      bool        // the position holds an ignore marker itself (or lies inside an ignored request part)
	TaintIgn bool        // the position holds a container with an ignore marker somewhere inside
	RecSet   bool        // a set whose members are records {n, s}
	Val      types.Value // the value at this position in the template (nil: not known statically)
}

// Template is a request whose parts may hold unknowns / ignore markers.
type Template struct {
	Env     eval.Env            // with markers
	Base    eval.Env            // a fully concrete environment the template was punched out of
	VarKind map[types.String]Ty // expected kind of each unknown (first position seen)
	Ignored []string            // ignored parts ("principal", …)
	Paths   []Path
	// set by the rich templates (gen_partial2.go) only
	NestedIgn []NestedIgn   // ignore markers nested inside the context record
	KindAt    map[string]Ty // static kind of the position with this path text
}

func (t *Template) VarNames() []types.String {
	var ns []types.String
	for n := range t.VarKind {
		ns = append(ns, n)
	}
	sort.Slice(ns, func(i, j int) bool { return ns[i] < ns[j] })
	return ns
}

func access(arg ast.IsNode, k types.String) ast.IsNode {
	return ast.NodeTypeAccess{StrOpNode: ast.StrOpNode{Arg: arg, Value: k}}
}

var ctxNode = ast.NodeTypeVariable{Name: "context"}

func elemKind(t Ty) Ty {
	switch t {
	case TSetLong:
		return TLong
	case TSetString:
		return TString
	case TSetEntity:
		return TEntity
	}
	return t
}

// Extra context fields used only by templates (deeper nesting than Gen.Record produces).
//
//	d  : {r: {n, s, b, e}, ls: set<long>}          depth 3 through records
//	rs : set of records {n, s}                      record inside a set
//	dd : {d: {rs: set of records, n}}               set of records inside records
var DeepFieldNames = []types.String{"d", "rs", "dd"}

// TemplateOpts steers template generation.
type TemplateOpts struct {
	PVarPart   float64 // probability that principal / action / resource is an unknown
	PIgnore    float64 // probability that a part is ignored
	PCtxVar    float64 // probability that the whole context is an unknown
	MaxHoles   int     // unknown positions punched into the context record
	PReuse     float64 // probability that a hole reuses an existing name
	EntityOnly bool    // only kinds whose completions keep the request well-formed are required anyway
}

func (g *Gen) varName(t *Template, kind Ty, pReuse float64) types.String {
	if len(t.VarKind) > 0 && g.chance(pReuse) {
		// reuse a name of the same kind if there is one
		var same []types.String
		for _, n := range t.VarNames() {
			if t.VarKind[n] == kind {
				same = append(same, n)
			}
		}
		if len(same) > 0 {
			return same[g.pick(len(same))]
		}
	}
	for _, n := range []types.String{"x", "y", "z", "w", "v", "u"} {
		if _, used := t.VarKind[n]; !used {
			t.VarKind[n] = kind
			return n
		}
	}
	return "x"
}

// Template generates a request template over a fresh random environment.
func (g *Gen) Template(o TemplateOpts) *Template { return g.TemplateFrom(g.Env(), o) }

// TemplateFrom punches a request template out of the given concrete environment (the store is shared, never modified).
func (g *Gen) TemplateFrom(base eval.Env, o TemplateOpts) *Template {
	t := &Template{Base: base, VarKind: map[types.String]Ty{}}
	env := base
	part := func(name string, concrete types.Value) types.Value {
		switch {
		case g.chance(o.PVarPart):
			n := types.String(name[:1]) // "p", "a", "r"
			if g.chance(0.3) {
				n = types.String(name)
			}
			if _, used := t.VarKind[n]; !used {
				t.VarKind[n] = TEntity
			}
			return MkVar(string(n))
		case g.chance(o.PIgnore):
			t.Ignored = append(t.Ignored, name)
			return MkIgnore()
		}
		return concrete
	}
	env.Principal = part("principal", base.Principal)
	env.Action = part("action", base.Action)
	env.Resource = part("resource", base.Resource)
	switch {
	case g.chance(o.PCtxVar):
		t.VarKind["c"] = TRecord
		env.Context = MkVar("c")
	case g.chance(o.PIgnore):
		t.Ignored = append(t.Ignored, "context")
		env.Context = MkIgnore()
	default:
		env.Context = g.punch(t, base.Context.(types.Record), o)
	}
	t.Env = env
	t.collectPaths()
	return t
}

// punch replaces up to MaxHoles positions of the context record by unknowns.
func (g *Gen) punch(t *Template, ctx types.Record, o TemplateOpts) types.Record {
	m := ctx.Map()
	// deep fields
	if g.chance(0.5) {
		m["d"] = types.NewRecord(types.RecordMap{"r": g.Record(0), "ls": types.NewSet(types.Long(1), types.Long(2))})
	}
	if g.chance(0.4) {
		m["rs"] = types.NewSet(types.NewRecord(types.RecordMap{"n": types.Long(1), "s": types.String("a")}), types.NewRecord(types.RecordMap{"n": types.Long(2)}))
	}
	if g.chance(0.3) {
		m["dd"] = types.NewRecord(types.RecordMap{"d": types.NewRecord(types.RecordMap{"rs": types.NewSet(types.NewRecord(types.RecordMap{"n": types.Long(3)})), "n": types.Long(0)})})
	}
	holes := 1 + g.pick(o.MaxHoles)
	for h := 0; h < holes; h++ {
		switch g.pick(10) {
		case 0, 1, 2: // top-level field becomes an unknown (added if missing)
			k := FieldNames[g.pick(len(FieldNames))]
			m[k] = MkVar(string(g.varName(t, FieldTypes[k], o.PReuse)))
		case 3, 4: // member of a set field
			k := []types.String{"ls", "ss", "es"}[g.pick(3)]
			var xs []types.Value
			if s, ok := m[k].(types.Set); ok {
				xs = s.Slice()
			}
			xs = append(xs, MkVar(string(g.varName(t, elemKind(FieldTypes[k]), o.PReuse))))
			m[k] = types.NewSet(xs...)
		case 5, 6: // sub-field of r
			sub := types.RecordMap{}
			if r, ok := m["r"].(types.Record); ok {
				sub = r.Map()
			}
			k := SubFieldNames[g.pick(len(SubFieldNames))]
			sub[k] = MkVar(string(g.varName(t, SubFieldTypes[k], o.PReuse)))
			m["r"] = types.NewRecord(sub)
		case 7: // depth 3: d.r.<k> or d.ls member
			d := types.RecordMap{"r": g.Record(0), "ls": types.NewSet(types.Long(1))}
			if r, ok := m["d"].(types.Record); ok {
				d = r.Map()
			}
			if g.chance(0.5) {
				sub := types.RecordMap{}
				if r, ok := d["r"].(types.Record); ok {
					sub = r.Map()
				}
				k := SubFieldNames[g.pick(len(SubFieldNames))]
				sub[k] = MkVar(string(g.varName(t, SubFieldTypes[k], o.PReuse)))
				d["r"] = types.NewRecord(sub)
			} else {
				var xs []types.Value
				if s, ok := d["ls"].(types.Set); ok {
					xs = s.Slice()
				}
				xs = append(xs, MkVar(string(g.varName(t, TLong, o.PReuse))))
				d["ls"] = types.NewSet(xs...)
			}
			m["d"] = types.NewRecord(d)
		case 8: // record inside a set: rs ∋ {n: ?x, s: "a"}
			var xs []types.Value
			if s, ok := m["rs"].(types.Set); ok {
				xs = s.Slice()
			}
			xs = append(xs, types.NewRecord(types.RecordMap{"n": MkVar(string(g.varName(t, TLong, o.PReuse))), "s": types.String("a")}))
			m["rs"] = types.NewSet(xs...)
		default: // depth 3 through a set: dd.d.rs ∋ {n: ?x}
			inner := types.NewSet(types.NewRecord(types.RecordMap{"n": MkVar(string(g.varName(t, TLong, o.PReuse)))}), types.NewRecord(types.RecordMap{"n": types.Long(3)}))
			m["dd"] = types.NewRecord(types.RecordMap{"d": types.NewRecord(types.RecordMap{"rs": inner, "n": types.Long(0)})})
		}
	}
	return types.NewRecord(m)
}

func kindOfValue(v types.Value) Ty {
	switch t := v.(type) {
	case types.Boolean:
		return TBool
	case types.Long:
		return TLong
	case types.String:
		return TString
	case types.EntityUID:
		return TEntity
	case types.Record:
		return TRecord
	case types.Decimal:
		return TDecimal
	case types.Datetime:
		return TDatetime
	case types.Duration:
		return TDuration
	case types.IPAddr:
		return TIP
	case types.Set:
		for _, x := range SortedSetMembers(t) {
			switch kindOfValue(x) {
			case TString:
				return TSetString
			case TEntity:
				return TSetEntity
			case TLong:
				return TSetLong
			}
		}
		return TSetLong
	}
	return TBool
}

func (t *Template) collectPaths() {
	t.Paths = nil
	add := func(e ast.IsNode, text string, v types.Value, kind Ty) {
		p := Path{Expr: e, Text: text, Kind: kind}
		if n, ok := IsVar(v); ok {
			p.IsVar = true
			if k, known := t.VarKind[n]; known {
				p.Kind = k
			}
		} else {
			p.Tainted = Tainted(v)
		}
		t.Paths = append(t.Paths, p)
	}
	for _, pr := range []struct {
		name string
		v    types.Value
	}{{"principal", t.Env.Principal}, {"action", t.Env.Action}, {"resource", t.Env.Resource}} {
		if !IsIgn(pr.v) {
			add(ast.NodeTypeVariable{Name: types.String(pr.name)}, pr.name, pr.v, TEntity)
		}
	}
	if IsIgn(t.Env.Context) {
		return
	}
	add(ctxNode, "context", t.Env.Context, TRecord)
	var walk func(e ast.IsNode, text string, r types.Record, depth int)
	walk = func(e ast.IsNode, text string, r types.Record, depth int) {
		for _, k := range SortedKeys(r) {
			v, _ := r.Get(k)
			kind := kindOfValue(v)
			if ft, ok := FieldTypes[k]; ok && depth == 0 {
				kind = ft
			} else if ft, ok := SubFieldTypes[k]; ok && depth > 0 {
				if _, isv := IsVar(v); isv {
					kind = ft
				}
			}
			ne := access(e, k)
			nt := text + "." + string(k)
			add(ne, nt, v, kind)
			if sub, ok := v.(types.Record); ok && depth < 3 {
				walk(ne, nt, sub, depth+1)
			}
		}
	}
	if r, ok := t.Env.Context.(types.Record); ok {
		walk(ctxNode, "context", r, 0)
	}
}

// InterestingPaths: positions that are unknown or contain one (what the policies must use).
func (t *Template) InterestingPaths() []Path {
	var out []Path
	for _, p := range t.Paths {
		if p.IsVar || p.Tainted {
			out = append(out, p)
		}
	}
	return out
}

// ---- policies over the unknown positions ----

func and(l, r ast.IsNode) ast.IsNode { return ast.NodeTypeAnd{BinaryNode: bin(l, r)} }
func or(l, r ast.IsNode) ast.IsNode  { return ast.NodeTypeOr{BinaryNode: bin(l, r)} }
func not(a ast.IsNode) ast.IsNode    { return ast.NodeTypeNot{UnaryNode: ast.UnaryNode{Arg: a}} }
func eq(l, r ast.IsNode) ast.IsNode  { return ast.NodeTypeEquals{BinaryNode: bin(l, r)} }
func ne(l, r ast.IsNode) ast.IsNode  { return ast.NodeTypeNotEquals{BinaryNode: bin(l, r)} }

func (g *Gen) smallLong() types.Long { return types.Long(g.R.Intn(5)) }

func (g *Gen) cmp(l, r ast.IsNode) ast.IsNode {
	switch g.pick(6) {
	case 0:
		return ast.NodeTypeLessThan{BinaryNode: bin(l, r)}
	case 1:
		return ast.NodeTypeLessThanOrEqual{BinaryNode: bin(l, r)}
	case 2:
		return ast.NodeTypeGreaterThan{BinaryNode: bin(l, r)}
	case 3:
		return ast.NodeTypeGreaterThanOrEqual{BinaryNode: bin(l, r)}
	case 4:
		return eq(l, r)
	default:
		return ne(l, r)
	}
}

func (g *Gen) longSetLit() ast.IsNode {
	n := 1 + g.pick(3)
	if g.chance(0.5) {
		var vs []types.Value
		for i := 0; i < n; i++ {
			vs = append(vs, g.smallLong())
		}
		return lit(types.NewSet(vs...))
	}
	var es []ast.IsNode
	for i := 0; i < n; i++ {
		es = append(es, lit(g.smallLong()))
	}
	return ast.NodeTypeSet{Elements: es}
}

// Atom builds a boolean expression that uses the position p.
func (g *Gen) Atom(p Path, d int) ast.IsNode {
	e := p.Expr
	switch p.Kind {
	case TBool:
		switch g.pick(6) {
		case 0:
			return e
		case 1:
			return not(e)
		case 2:
			return eq(e, lit(types.Boolean(g.chance(0.5))))
		case 3:
			return and(e, g.Expr(TBool, d))
		case 4:
			return or(e, g.Expr(TBool, d))
		default:
			return ast.NodeTypeIfThenElse{If: e, Then: g.Expr(TBool, d), Else: g.Expr(TBool, d)}
		}
	case TLong:
		c := lit(g.smallLong())
		switch g.pick(8) {
		case 0, 1, 2:
			return g.cmp(e, c)
		case 3:
			return g.cmp(ast.NodeTypeAdd{BinaryNode: bin(e, lit(g.smallLong()))}, c)
		case 4:
			return g.cmp(ast.NodeTypeMult{BinaryNode: bin(e, lit(types.Long(2)))}, c)
		case 5:
			return g.cmp(ast.NodeTypeNegate{UnaryNode: ast.UnaryNode{Arg: e}}, lit(-g.smallLong()))
		case 6:
			return ast.NodeTypeContains{BinaryNode: bin(ast.NodeTypeSet{Elements: []ast.IsNode{e, lit(g.smallLong())}}, c)}
		default:
			return eq(ast.NodeTypeRecord{Elements: []ast.RecordElementNode{{Key: "n", Value: e}}}, lit(types.NewRecord(types.RecordMap{"n": g.smallLong()})))
		}
	case TString:
		switch g.pick(4) {
		case 0, 1:
			return eq(e, lit(types.String(Strings[g.pick(6)])))
		case 2:
			return ast.NodeTypeLike{Arg: e, Value: g.Pattern()}
		default:
			return ne(e, lit(types.String(Strings[g.pick(6)])))
		}
	case TEntity:
		u := lit(g.UID())
		switch g.pick(11) {
		case 0, 1:
			return eq(e, u)
		case 2:
			return ast.NodeTypeIn{BinaryNode: bin(e, u)}
		case 3:
			return ast.NodeTypeIn{BinaryNode: bin(e, lit(types.NewSet(g.UID(), g.UID())))}
		case 4:
			return ast.NodeTypeIs{Left: e, EntityType: EntityTypes[g.pick(len(EntityTypes))]}
		case 5:
			return ast.NodeTypeIsIn{NodeTypeIs: ast.NodeTypeIs{Left: e, EntityType: EntityTypes[g.pick(len(EntityTypes))]}, Entity: g.Expr(TEntity, d)}
		case 6:
			return g.cmp(access(e, "n"), lit(g.smallLong()))
		case 7:
			return ast.NodeTypeHas{StrOpNode: ast.StrOpNode{Arg: e, Value: FieldNames[g.pick(len(FieldNames))]}}
		case 8:
			return ast.NodeTypeHasTag{BinaryNode: bin(e, lit(TagNames[g.pick(len(TagNames))]))}
		case 9:
			return ast.NodeTypeIn{BinaryNode: bin(g.entityVar(), e)}
		default:
			return eq(g.entityVar(), e)
		}
	case TSetLong, TSetString, TSetEntity:
		var member, other ast.IsNode
		switch p.Kind {
		case TSetLong:
			member, other = lit(g.smallLong()), g.longSetLit()
		case TSetString:
			member, other = lit(types.String(Strings[g.pick(6)])), lit(types.NewSet(types.String(Strings[g.pick(6)]), types.String(Strings[g.pick(6)])))
		default:
			member, other = lit(g.UID()), lit(types.NewSet(g.UID(), g.UID()))
		}
		switch g.pick(10) {
		case 0, 1, 2:
			return ast.NodeTypeContains{BinaryNode: bin(e, member)}
		case 3:
			return ast.NodeTypeContainsAll{BinaryNode: bin(e, other)}
		case 4:
			return ast.NodeTypeContainsAny{BinaryNode: bin(e, other)}
		case 5:
			return ast.NodeTypeContainsAll{BinaryNode: bin(other, e)}
		case 6:
			return ast.NodeTypeIsEmpty{UnaryNode: ast.UnaryNode{Arg: e}}
		case 7:
			return eq(e, other)
		case 8:
			return ne(e, other)
		default:
			if p.Kind == TSetEntity {
				if g.chance(0.5) {
					return ast.NodeTypeIn{BinaryNode: bin(g.entityVar(), e)}
				}
				return ast.NodeTypeIsIn{NodeTypeIs: ast.NodeTypeIs{Left: g.entityVar(), EntityType: EntityTypes[g.pick(len(EntityTypes))]}, Entity: e}
			}
			return ast.NodeTypeContains{BinaryNode: bin(ast.NodeTypeSet{Elements: []ast.IsNode{e}}, other)}
		}
	case TRecord:
		k := SubFieldNames[g.pick(len(SubFieldNames))]
		switch g.pick(6) {
		case 0, 1:
			return g.Atom(Path{Expr: access(e, k), Kind: SubFieldTypes[k]}, d)
		case 2:
			return ast.NodeTypeHas{StrOpNode: ast.StrOpNode{Arg: e, Value: k}}
		case 3:
			return eq(e, lit(types.NewRecord(types.RecordMap{"n": g.smallLong()})))
		case 4:
			return ne(e, lit(g.Record(0)))
		default:
			return eq(e, ast.NodeTypeRecord{Elements: []ast.RecordElementNode{{Key: "n", Value: lit(g.smallLong())}, {Key: "s", Value: lit(types.String("a"))}}})
		}
	case TDecimal:
		return call([]string{"lessThan", "lessThanOrEqual", "greaterThan", "greaterThanOrEqual"}[g.pick(4)], e, call("decimal", lit(types.String([]string{"0.0", "1.5", "-1.0"}[g.pick(3)]))))
	case TDatetime:
		if g.chance(0.5) {
			return g.cmp(e, call("datetime", lit(types.String([]string{"2024-01-01", "1970-01-01T00:00:00Z"}[g.pick(2)]))))
		}
		return g.cmp(call("toDate", e), lit(types.NewDatetimeFromMillis(0)))
	case TDuration:
		if g.chance(0.5) {
			return g.cmp(e, call("duration", lit(types.String([]string{"1h", "0ms", "-1d"}[g.pick(3)]))))
		}
		return g.cmp(call("toSeconds", e), lit(g.smallLong()))
	case TIP:
		if g.chance(0.5) {
			return call([]string{"isIpv4", "isIpv6", "isLoopback", "isMulticast"}[g.pick(4)], e)
		}
		return call("isInRange", e, call("ip", lit(types.String([]string{"10.0.0.0/8", "127.0.0.0/8", "::/0"}[g.pick(3)]))))
	}
	return eq(e, e)
}

// CondOver generates a boolean condition that uses the template's unknown positions with high probability.
func (g *Gen) CondOver(t *Template, depth int) ast.IsNode {
	ips := t.InterestingPaths()
	if depth <= 0 || len(t.Paths) == 0 {
		if len(ips) > 0 && g.chance(0.8) {
			return g.Atom(ips[g.pick(len(ips))], 0)
		}
		if len(t.Paths) > 0 && g.chance(0.5) {
			return g.Atom(t.Paths[g.pick(len(t.Paths))], 0)
		}
		return g.Expr(TBool, 1)
	}
	d := depth - 1
	switch g.pick(12) {
	case 0, 1:
		return and(g.CondOver(t, d), g.CondOver(t, d))
	case 2, 3:
		return or(g.CondOver(t, d), g.CondOver(t, d))
	case 4:
		return not(g.CondOver(t, d))
	case 5:
		return ast.NodeTypeIfThenElse{If: g.CondOver(t, d), Then: g.CondOver(t, d), Else: g.CondOver(t, d)}
	case 6:
		return g.Expr(TBool, depth)
	case 7:
		if len(t.Paths) > 0 {
			return g.Atom(t.Paths[g.pick(len(t.Paths))], d)
		}
	}
	if len(ips) > 0 {
		return g.Atom(ips[g.pick(len(ips))], d)
	}
	return g.Expr(TBool, depth)
}

// PolicyOver generates a policy over the template's unknown positions.
func (g *Gen) PolicyOver(t *Template, depth int) *ast.Policy {
	p := &ast.Policy{Effect: ast.Effect(g.chance(0.65)), Principal: ast.ScopeTypeAll{}, Action: ast.ScopeTypeAll{}, Resource: ast.ScopeTypeAll{}}
	if g.chance(0.4) {
		p.Principal = g.PrincipalScope()
	}
	if g.chance(0.3) {
		p.Action = g.ActionScope()
	}
	if g.chance(0.3) {
		p.Resource = g.ResourceScope()
	}
	n := 1 + g.pick(3)
	if g.chance(0.05) {
		n = 0
	}
	for i := 0; i < n; i++ {
		p.Conditions = append(p.Conditions, ast.ConditionType{Condition: ast.Condition(g.chance(0.75)), Body: g.CondOver(t, g.pick(depth+1))})
	}
	return p
}

// ---- value universes ----

// Literals collects the literal values occurring in a policy (recursively inside sets and records,
// and the values of extension constructor calls over literal strings), bucketed by kind.
func Literals(p *ast.Policy) map[Ty][]types.Value {
	out := map[Ty][]types.Value{}
	seen := map[string]bool{}
	var addV func(v types.Value)
	addV = func(v types.Value) {
		if ContainsVar(v) || IsIgn(v) {
			return
		}
		k := kindOfValue(v)
		key := fmt.Sprint(k) + ShowValue(v)
		if !seen[key] {
			seen[key] = true
			out[k] = append(out[k], v)
		}
		switch t := v.(type) {
		case types.Set:
			for _, x := range SortedSetMembers(t) {
				addV(x)
			}
		case types.Record:
			for _, k := range SortedKeys(t) {
				x, _ := t.Get(k)
				addV(x)
			}
		}
	}
	var walk func(n ast.IsNode)
	walk = func(n ast.IsNode) {
		switch v := n.(type) {
		case ast.NodeValue:
			addV(v.Value)
		case ast.NodeTypeExtensionCall:
			if len(v.Args) == 1 {
				if _, isLit := v.Args[0].(ast.NodeValue); isLit {
					if x, err := eval.Eval(v, eval.Env{Entities: types.EntityMap{}}); err == nil {
						addV(x)
					}
				}
			}
			for _, a := range v.Args {
				walk(a)
			}
		case ast.NodeTypeSet:
			allLit := true
			var vs []types.Value
			for _, e := range v.Elements {
				walk(e)
				if l, ok := e.(ast.NodeValue); ok {
					vs = append(vs, l.Value)
				} else {
					allLit = false
				}
			}
			if allLit {
				addV(types.NewSet(vs...))
			}
		case ast.NodeTypeRecord:
			allLit := true
			m := types.RecordMap{}
			for _, e := range v.Elements {
				walk(e.Value)
				if l, ok := e.Value.(ast.NodeValue); ok {
					m[e.Key] = l.Value
				} else {
					allLit = false
				}
			}
			if allLit {
				addV(types.NewRecord(m))
			}
		default:
			for _, c := range Children(n) {
				walk(c)
			}
		}
	}
	for _, c := range p.Conditions {
		walk(c.Body)
	}
	for _, s := range []ast.IsScopeNode{p.Principal, p.Action, p.Resource} {
		switch t := s.(type) {
		case ast.ScopeTypeEq:
			addV(t.Entity)
		case ast.ScopeTypeIn:
			addV(t.Entity)
		case ast.ScopeTypeIsIn:
			addV(t.Entity)
		case ast.ScopeTypeInSet:
			for _, e := range t.Entities {
				addV(e)
			}
		}
	}
	return out
}

// Children returns the direct sub-expressions of a node.
func Children(n ast.IsNode) []ast.IsNode {
	switch v := n.(type) {
	case ast.NodeTypeAccess:
		return []ast.IsNode{v.Arg}
	case ast.NodeTypeHas:
		return []ast.IsNode{v.Arg}
	case ast.NodeTypeLike:
		return []ast.IsNode{v.Arg}
	case ast.NodeTypeIfThenElse:
		return []ast.IsNode{v.If, v.Then, v.Else}
	case ast.NodeTypeIs:
		return []ast.IsNode{v.Left}
	case ast.NodeTypeIsIn:
		return []ast.IsNode{v.Left, v.Entity}
	case ast.NodeTypeExtensionCall:
		return v.Args
	case ast.NodeTypeRecord:
		var out []ast.IsNode
		for _, e := range v.Elements {
			out = append(out, e.Value)
		}
		return out
	case ast.NodeTypeSet:
		return v.Elements
	case ast.NodeTypeNegate:
		return []ast.IsNode{v.Arg}
	case ast.NodeTypeNot:
		return []ast.IsNode{v.Arg}
	case ast.NodeTypeIsEmpty:
		return []ast.IsNode{v.Arg}
	case ast.NodeTypeGetTag:
		return []ast.IsNode{v.Left, v.Right}
	case ast.NodeTypeHasTag:
		return []ast.IsNode{v.Left, v.Right}
	case ast.NodeTypeIn:
		return []ast.IsNode{v.Left, v.Right}
	case ast.NodeTypeAnd:
		return []ast.IsNode{v.Left, v.Right}
	case ast.NodeTypeOr:
		return []ast.IsNode{v.Left, v.Right}
	case ast.NodeTypeEquals:
		return []ast.IsNode{v.Left, v.Right}
	case ast.NodeTypeNotEquals:
		return []ast.IsNode{v.Left, v.Right}
	case ast.NodeTypeGreaterThan:
		return []ast.IsNode{v.Left, v.Right}
	case ast.NodeTypeGreaterThanOrEqual:
		return []ast.IsNode{v.Left, v.Right}
	case ast.NodeTypeLessThan:
		return []ast.IsNode{v.Left, v.Right}
	case ast.NodeTypeLessThanOrEqual:
		return []ast.IsNode{v.Left, v.Right}
	case ast.NodeTypeSub:
		return []ast.IsNode{v.Left, v.Right}
	case ast.NodeTypeAdd:
		return []ast.IsNode{v.Left, v.Right}
	case ast.NodeTypeMult:
		return []ast.IsNode{v.Left, v.Right}
	case ast.NodeTypeContains:
		return []ast.IsNode{v.Left, v.Right}
	case ast.NodeTypeContainsAll:
		return []ast.IsNode{v.Left, v.Right}
	case ast.NodeTypeContainsAny:
		return []ast.IsNode{v.Left, v.Right}
	}
	return nil
}

// NodeOps lists the operator names used in an expression (for input distributions).
func NodeOps(n ast.IsNode, into map[string]int) {
	name := fmt.Sprintf("%T", n)
	if strings.HasPrefix(name, "ast.NodeType") {
		name = name[len("ast.NodeType"):]
	} else {
		name = "Literal"
	}
	into[name]++
	for _, c := range Children(n) {
		NodeOps(c, into)
	}
}

func dedupValues(vs []types.Value) []types.Value {
	seen := map[string]bool{}
	var out []types.Value
	for _, v := range vs {
		k := ShowValue(v)
		if !seen[k] {
			seen[k] = true
			out = append(out, v)
		}
	}
	return out
}

// Universe returns completion candidates for an unknown of the given kind: the literals of that kind
// occurring in the policies, their neighbours, defaults of that kind, and (offKind) one value of another type.
func (g *Gen) Universe(kind Ty, lits map[Ty][]types.Value, base types.Value, max int, offKind bool) []types.Value {
	var vs []types.Value
	own := lits[kind]
	switch kind {
	case TBool:
		vs = append(vs, types.True, types.False)
	case TLong:
		for _, l := range own {
			n := int64(l.(types.Long))
			vs = append(vs, types.Long(n))
		}
		for _, l := range own {
			n := int64(l.(types.Long))
			if n > -1<<62 && n < 1<<62 {
				vs = append(vs, types.Long(n+1), types.Long(n-1))
			}
		}
		vs = append(vs, types.Long(0), types.Long(1))
	case TString:
		vs = append(vs, own...)
		vs = append(vs, types.String(""), types.String("a"), types.String("aab"))
	case TEntity:
		vs = append(vs, own...)
		vs = append(vs, g.World.UIDs[0], g.World.UIDs[3], g.World.UIDs[6])
	case TRecord:
		vs = append(vs, own...)
		vs = append(vs, types.NewRecord(nil), g.Record(0))
	case TSetLong:
		vs = append(vs, own...)
		vs = append(vs, lits[TSetString]...)
		vs = append(vs, types.NewSet(), types.NewSet(types.Long(1), types.Long(2)))
	case TSetString:
		vs = append(vs, own...)
		vs = append(vs, types.NewSet(), types.NewSet(types.String("a")))
	case TSetEntity:
		vs = append(vs, own...)
		vs = append(vs, types.NewSet(), types.NewSet(g.World.UIDs[0], g.World.UIDs[3]))
	default:
		vs = append(vs, own...)
		vs = append(vs, g.Value(kind, 0), g.Value(kind, 0))
	}
	if base != nil && !ContainsVar(base) && !IsIgn(base) {
		vs = append([]types.Value{base}, vs...)
	}
	vs = dedupValues(vs)
	if len(vs) > max {
		// keep the head (base + policy literals) and a random sample of the tail
		head := vs[:max/2]
		tail := vs[max/2:]
		g.R.Shuffle(len(tail), func(i, j int) { tail[i], tail[j] = tail[j], tail[i] })
		vs = append(head, tail[:max-max/2]...)
	}
	if offKind {
		switch kind {
		case TLong:
			vs = append(vs, types.String("a"))
		default: // callers pass offKind=false for whole request parts (keeps requests well-formed)
			vs = append(vs, types.Long(1))
		}
	}
	return vs
}
