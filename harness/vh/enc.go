// Package vh is the verification harness library: protocol encoding, canonical rendering,
// generators, driver plumbing and evidence.  Built with -tags verif against /repo's working tree.
package vh

import (
	"encoding/hex"
	"fmt"
	"math/big"
	"net/netip"
	"sort"
	"strconv"
	"strings"

	"github.com/cedar-policy/cedar-go/types"
	"github.com/cedar-policy/cedar-go/x/exp/ast"
	"github.com/cedar-policy/cedar-go/x/exp/eval"
	"github.com/cedar-policy/cedar-go/x/exp/verifhooks"
)

func Hex(s string) string { return hex.EncodeToString([]byte(s)) }

func i64(n int64) string { return strconv.FormatInt(n, 10) }

// IPParts splits an IPAddr into (is6, address as decimal string, bits, zone).
func IPParts(ip types.IPAddr) (bool, string, int, string) {
	p := netip.Prefix(ip)
	a := p.Addr()
	var n big.Int
	if a.Is4() {
		b := a.As4()
		n.SetBytes(b[:])
	} else {
		b := a.As16()
		n.SetBytes(b[:])
	}
	return !a.Is4(), n.String(), p.Bits(), a.Zone()
}

// SortedSetMembers returns the members of a set sorted by canonical rendering.
func SortedSetMembers(s types.Set) []types.Value {
	vs := s.Slice()
	sort.Slice(vs, func(i, j int) bool { return ShowValue(vs[i]) < ShowValue(vs[j]) })
	return vs
}

func SortedKeys(r types.Record) []types.String {
	var ks []types.String
	for k := range r.Keys() {
		ks = append(ks, k)
	}
	sort.Slice(ks, func(i, j int) bool { return ks[i] < ks[j] })
	return ks
}

// EncValue encodes a value for the line protocol (never through a codec under test).
func EncValue(v types.Value) any {
	switch t := v.(type) {
	case types.Boolean:
		return []any{"b", bool(t)}
	case types.Long:
		return []any{"l", i64(int64(t))}
	case types.String:
		return []any{"s", Hex(string(t))}
	case types.EntityUID:
		return []any{"e", Hex(string(t.Type)), Hex(string(t.ID))}
	case types.Set:
		xs := []any{}
		for _, m := range SortedSetMembers(t) {
			xs = append(xs, EncValue(m))
		}
		return []any{"set", xs}
	case types.Record:
		kvs := []any{}
		for _, k := range SortedKeys(t) {
			x, _ := t.Get(k)
			kvs = append(kvs, []any{Hex(string(k)), EncValue(x)})
		}
		return []any{"rec", kvs}
	case types.Decimal:
		return []any{"dec", i64(types.VerifDecimalRaw(t))}
	case types.Datetime:
		return []any{"dt", i64(t.Milliseconds())}
	case types.Duration:
		return []any{"dur", i64(t.ToMilliseconds())}
	case types.IPAddr:
		is6, addr, bits, _ := IPParts(t)
		return []any{"ip", is6, addr, i64(int64(bits))}
	}
	panic(fmt.Sprintf("EncValue: unknown value %T", v))
}

// ShowValue is the canonical rendering shared with the Lean driver (Driver/Codec.lean showValue).
func ShowValue(v types.Value) string {
	switch t := v.(type) {
	case types.Boolean:
		if t {
			return "true"
		}
		return "false"
	case types.Long:
		return "L" + i64(int64(t))
	case types.String:
		return "S" + Hex(string(t))
	case types.EntityUID:
		return "E" + Hex(string(t.Type)) + ":" + Hex(string(t.ID))
	case types.Set:
		var xs []string
		for m := range t.All() {
			xs = append(xs, ShowValue(m))
		}
		sort.Strings(xs)
		// dedup (a correct set has no duplicates; keep the rendering canonical anyway)
		out := xs[:0]
		for i, x := range xs {
			if i == 0 || x != xs[i-1] {
				out = append(out, x)
			}
		}
		return "[" + strings.Join(out, ",") + "]"
	case types.Record:
		var xs []string
		for _, k := range SortedKeys(t) {
			x, _ := t.Get(k)
			xs = append(xs, Hex(string(k))+"="+ShowValue(x))
		}
		return "{" + strings.Join(xs, ",") + "}"
	case types.Decimal:
		return "D" + i64(types.VerifDecimalRaw(t))
	case types.Datetime:
		return "T" + i64(t.Milliseconds())
	case types.Duration:
		return "U" + i64(t.ToMilliseconds())
	case types.IPAddr:
		is6, addr, bits, zone := IPParts(t)
		f := "4"
		if is6 {
			f = "6"
		}
		s := "I" + f + ":" + addr + "/" + strconv.Itoa(bits)
		if zone != "" {
			s += "%" + Hex(zone)
		}
		return s
	case nil:
		return "<nil>"
	}
	return fmt.Sprintf("<unknown %T>", v)
}

func ShowRes(v types.Value, err error) string {
	if err != nil {
		return "err " + verifhooks.ErrKind(err)
	}
	return "ok " + ShowValue(v)
}

func EncPattern(p types.Pattern) any {
	cs := []any{}
	for _, c := range types.VerifPatternComps(p) {
		cs = append(cs, []any{c.Wildcard, Hex(c.Literal)})
	}
	return cs
}

// EncExpr encodes an AST node by walking the public node structs.
func EncExpr(n ast.IsNode) any {
	bin := func(op string, b ast.BinaryNode) any { return []any{op, EncExpr(b.Left), EncExpr(b.Right)} }
	switch v := n.(type) {
	case ast.NodeValue:
		return []any{"lit", EncValue(v.Value)}
	case ast.NodeTypeVariable:
		return []any{"var", string(v.Name)}
	case ast.NodeTypeAnd:
		return bin("and", v.BinaryNode)
	case ast.NodeTypeOr:
		return bin("or", v.BinaryNode)
	case ast.NodeTypeEquals:
		return bin("eq", v.BinaryNode)
	case ast.NodeTypeNotEquals:
		return bin("ne", v.BinaryNode)
	case ast.NodeTypeLessThan:
		return bin("lt", v.BinaryNode)
	case ast.NodeTypeLessThanOrEqual:
		return bin("le", v.BinaryNode)
	case ast.NodeTypeGreaterThan:
		return bin("gt", v.BinaryNode)
	case ast.NodeTypeGreaterThanOrEqual:
		return bin("ge", v.BinaryNode)
	case ast.NodeTypeAdd:
		return bin("add", v.BinaryNode)
	case ast.NodeTypeSub:
		return bin("sub", v.BinaryNode)
	case ast.NodeTypeMult:
		return bin("mul", v.BinaryNode)
	case ast.NodeTypeIn:
		return bin("in", v.BinaryNode)
	case ast.NodeTypeContains:
		return bin("contains", v.BinaryNode)
	case ast.NodeTypeContainsAll:
		return bin("containsAll", v.BinaryNode)
	case ast.NodeTypeContainsAny:
		return bin("containsAny", v.BinaryNode)
	case ast.NodeTypeGetTag:
		return bin("getTag", v.BinaryNode)
	case ast.NodeTypeHasTag:
		return bin("hasTag", v.BinaryNode)
	case ast.NodeTypeNot:
		return []any{"not", EncExpr(v.Arg)}
	case ast.NodeTypeNegate:
		return []any{"neg", EncExpr(v.Arg)}
	case ast.NodeTypeIsEmpty:
		return []any{"isEmpty", EncExpr(v.Arg)}
	case ast.NodeTypeIfThenElse:
		return []any{"ite", EncExpr(v.If), EncExpr(v.Then), EncExpr(v.Else)}
	case ast.NodeTypeAccess:
		return []any{"access", EncExpr(v.Arg), Hex(string(v.Value))}
	case ast.NodeTypeHas:
		return []any{"has", EncExpr(v.Arg), Hex(string(v.Value))}
	case ast.NodeTypeLike:
		return []any{"like", EncExpr(v.Arg), EncPattern(v.Value)}
	case ast.NodeTypeIs:
		return []any{"is", EncExpr(v.Left), Hex(string(v.EntityType))}
	case ast.NodeTypeIsIn:
		return []any{"isIn", EncExpr(v.Left), Hex(string(v.EntityType)), EncExpr(v.Entity)}
	case ast.NodeTypeSet:
		xs := []any{}
		for _, e := range v.Elements {
			xs = append(xs, EncExpr(e))
		}
		return []any{"set", xs}
	case ast.NodeTypeRecord:
		xs := []any{}
		for _, e := range v.Elements {
			xs = append(xs, []any{Hex(string(e.Key)), EncExpr(e.Value)})
		}
		return []any{"rec", xs}
	case ast.NodeTypeExtensionCall:
		xs := []any{}
		for _, e := range v.Args {
			xs = append(xs, EncExpr(e))
		}
		return []any{"call", Hex(string(v.Name)), xs}
	}
	panic(fmt.Sprintf("EncExpr: unknown node %T", n))
}

func EncUID(u types.EntityUID) any { return []any{Hex(string(u.Type)), Hex(string(u.ID))} }

func sortedUIDs(us []types.EntityUID) []types.EntityUID {
	sort.Slice(us, func(i, j int) bool {
		if us[i].Type != us[j].Type {
			return us[i].Type < us[j].Type
		}
		return us[i].ID < us[j].ID
	})
	return us
}

func encRecordKVs(r types.Record) any {
	kvs := []any{}
	for _, k := range SortedKeys(r) {
		x, _ := r.Get(k)
		kvs = append(kvs, []any{Hex(string(k)), EncValue(x)})
	}
	return kvs
}

// EncEntities encodes an entity map; parent order is the given order function (default sorted).
func EncEntities(m types.EntityMap) any {
	var uids []types.EntityUID
	for u := range m {
		uids = append(uids, u)
	}
	sortedUIDs(uids)
	out := []any{}
	for _, u := range uids {
		e := m[u]
		var ps []types.EntityUID
		for p := range e.Parents.All() {
			ps = append(ps, p)
		}
		sortedUIDs(ps)
		pj := []any{}
		for _, p := range ps {
			pj = append(pj, EncUID(p))
		}
		out = append(out, map[string]any{
			"uid": EncUID(u), "parents": pj,
			"attrs": encRecordKVs(e.Attributes), "tags": encRecordKVs(e.Tags),
		})
	}
	return out
}

func EncEnv(env eval.Env) any {
	em, _ := env.Entities.(types.EntityMap)
	return map[string]any{
		"entities":  EncEntities(em),
		"principal": EncValue(env.Principal), "action": EncValue(env.Action),
		"resource": EncValue(env.Resource), "context": EncValue(env.Context),
	}
}

func EncScope(s ast.IsScopeNode) any {
	switch t := s.(type) {
	case ast.ScopeTypeAll:
		return []any{"all"}
	case ast.ScopeTypeEq:
		return []any{"eq", EncUID(t.Entity)}
	case ast.ScopeTypeIn:
		return []any{"in", EncUID(t.Entity)}
	case ast.ScopeTypeInSet:
		xs := []any{}
		for _, e := range t.Entities {
			xs = append(xs, EncUID(e))
		}
		return []any{"inSet", xs}
	case ast.ScopeTypeIs:
		return []any{"is", Hex(string(t.Type))}
	case ast.ScopeTypeIsIn:
		return []any{"isIn", Hex(string(t.Type)), EncUID(t.Entity)}
	}
	panic(fmt.Sprintf("EncScope: unknown scope %T", s))
}

func EncPosition(p ast.Position) any {
	return []any{Hex(p.Filename), i64(int64(p.Offset)), i64(int64(p.Line)), i64(int64(p.Column))}
}

func EncPolicy(p *ast.Policy) any {
	eff := "forbid"
	if p.Effect == ast.EffectPermit {
		eff = "permit"
	}
	anns := []any{}
	for _, a := range p.Annotations {
		anns = append(anns, []any{Hex(string(a.Key)), Hex(string(a.Value))})
	}
	conds := []any{}
	for _, c := range p.Conditions {
		conds = append(conds, []any{bool(c.Condition), EncExpr(c.Body)})
	}
	return map[string]any{
		"effect": eff, "annotations": anns,
		"principal": EncScope(p.Principal), "action": EncScope(p.Action), "resource": EncScope(p.Resource),
		"conditions": conds, "position": EncPosition(p.Position),
	}
}

func ShowPos(filename string, offset, line, column int) string {
	return fmt.Sprintf("%s:%d:%d:%d", Hex(filename), offset, line, column)
}
