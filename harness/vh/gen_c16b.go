package vh

// C16 (second generator file): cross-namespace common-type reference graphs.
//
// Universe: up to three type names P0, P1, P2 placed over {empty namespace, namespace NS}. Every name is
//   - declared nowhere (a reference to it is undefined),
//   - a common type of the empty namespace, of NS, or of both (the last is illegal shadowing, RFC 70), or
//   - an entity type of the empty namespace or of NS;
// the body of every common type is Long or a reference to one of the names, written unqualified (`P1`) or qualified
// (`NS::P1`), bare, as `Set<..>` or as a record `{f: ..}`; one use site (an attribute of an entity declared in NS or in
// the empty namespace, referring to P0 unqualified or as `NS::P0`) forces the resolver to inline.
// The enumeration is exhaustive for 1 and 2 names (all wrappers, all placements; the "both" placement, which is rejected
// whatever the bodies, with Long and bare unqualified bodies only) and for 3 names with bare bodies (without the "both"
// placement); the quick tier samples the 3-name family with a stride.

import (
	"fmt"

	"github.com/cedar-policy/cedar-go/types"
	sast "github.com/cedar-policy/cedar-go/x/exp/schema/ast"
)

// C16XnsBody is the body of one common type: Target < 0 = Long, otherwise a reference to name Target.
type C16XnsBody struct {
	Target int
	Qual   bool // written NS::Pj
	Wrap   int  // 0 bare, 1 Set<..>, 2 {f: ..}
}

// C16XnsPlace: where one name is declared.
type C16XnsPlace int

const (
	C16XnsNone C16XnsPlace = iota
	C16XnsCommonGlobal
	C16XnsCommonNS
	C16XnsCommonBoth
	C16XnsEntityGlobal
	C16XnsEntityNS
)

type C16XnsDecl struct {
	Place C16XnsPlace
	Body  C16XnsBody
}

// C16XnsSpec describes one schema of the family.
type C16XnsSpec struct {
	Decls   []C16XnsDecl
	UseInNS bool // the use site is an attribute of NS::E (else of the bare entity G)
	UseQual bool // the use site refers to NS::P0 (else P0)
}

var c16XnsNames = []types.Ident{"P0", "P1", "P2"}

// C16XnsNS is the namespace of the family.
const C16XnsNS = "NS"

func (b C16XnsBody) typ() sast.IsType {
	if b.Target < 0 {
		return sast.LongType{}
	}
	n := string(c16XnsNames[b.Target])
	if b.Qual {
		n = C16XnsNS + "::" + n
	}
	var t sast.IsType = sast.TypeRef(n)
	switch b.Wrap {
	case 1:
		t = sast.SetType{Element: t}
	case 2:
		t = sast.RecordType{"f": sast.Attribute{Type: t}}
	}
	return t
}

func (b C16XnsBody) String() string {
	if b.Target < 0 {
		return "L"
	}
	s := fmt.Sprintf("%d", b.Target)
	if b.Qual {
		s = "q" + s
	}
	return []string{"", "S", "R"}[b.Wrap] + s
}

// Tag: xns-<per name: placement letter + body>-u<use site>, e.g. xns-g1.n0.-un is
// `type P0 = P1; namespace NS { type P1 = P0; entity E { a: P0 }; }`.
func (sp C16XnsSpec) Tag() string {
	s := "xns-"
	for _, d := range sp.Decls {
		switch d.Place {
		case C16XnsNone:
			s += "_"
		case C16XnsCommonGlobal:
			s += "g" + d.Body.String()
		case C16XnsCommonNS:
			s += "n" + d.Body.String()
		case C16XnsCommonBoth:
			s += "b" + d.Body.String()
		case C16XnsEntityGlobal:
			s += "e"
		case C16XnsEntityNS:
			s += "E"
		}
		s += "."
	}
	u := "g"
	if sp.UseInNS {
		u = "n"
	}
	if sp.UseQual {
		u += "q"
	}
	return s + "-u" + u
}

// Schema builds the AST.
func (sp C16XnsSpec) Schema() *sast.Schema {
	s := &sast.Schema{}
	ns := sast.Namespace{}
	for i, d := range sp.Decls {
		n := c16XnsNames[i]
		switch d.Place {
		case C16XnsCommonGlobal, C16XnsCommonBoth:
			if s.CommonTypes == nil {
				s.CommonTypes = sast.CommonTypes{}
			}
			s.CommonTypes[n] = sast.CommonType{Type: d.Body.typ()}
		}
		switch d.Place {
		case C16XnsCommonNS, C16XnsCommonBoth:
			if ns.CommonTypes == nil {
				ns.CommonTypes = sast.CommonTypes{}
			}
			ns.CommonTypes[n] = sast.CommonType{Type: d.Body.typ()}
		case C16XnsEntityGlobal:
			if s.Entities == nil {
				s.Entities = sast.Entities{}
			}
			s.Entities[n] = sast.Entity{}
		case C16XnsEntityNS:
			if ns.Entities == nil {
				ns.Entities = sast.Entities{}
			}
			ns.Entities[n] = sast.Entity{}
		}
	}
	use := C16XnsBody{Target: 0, Qual: sp.UseQual}
	ent := sast.Entity{Shape: sast.RecordType{"a": sast.Attribute{Type: use.typ()}}}
	if sp.UseInNS {
		if ns.Entities == nil {
			ns.Entities = sast.Entities{}
		}
		ns.Entities["E"] = ent
	} else {
		if s.Entities == nil {
			s.Entities = sast.Entities{}
		}
		s.Entities["G"] = ent
	}
	// the namespace is always present (possibly empty): an unqualified reference from NS must fall back to the
	// empty namespace also when NS declares no type at all
	s.Namespaces = sast.Namespaces{C16XnsNS: ns}
	return s
}

func c16XnsBodies(k int, wrappers bool) []C16XnsBody {
	out := []C16XnsBody{{Target: -1}}
	nw := 1
	if wrappers {
		nw = 3
	}
	for j := 0; j < k; j++ {
		for _, q := range []bool{false, true} {
			for w := 0; w < nw; w++ {
				out = append(out, C16XnsBody{Target: j, Qual: q, Wrap: w})
			}
		}
	}
	return out
}

func c16XnsDeclOptions(k int, wrappers, both bool) []C16XnsDecl {
	out := []C16XnsDecl{{Place: C16XnsNone}, {Place: C16XnsEntityGlobal}, {Place: C16XnsEntityNS}}
	for _, p := range []C16XnsPlace{C16XnsCommonGlobal, C16XnsCommonNS} {
		for _, b := range c16XnsBodies(k, wrappers) {
			out = append(out, C16XnsDecl{Place: p, Body: b})
		}
	}
	if both {
		// declared in both namespaces (always rejected as shadowing, whatever the bodies): Long and the bare unqualified references
		for _, b := range c16XnsBodies(k, false) {
			if !b.Qual {
				out = append(out, C16XnsDecl{Place: C16XnsCommonBoth, Body: b})
			}
		}
	}
	return out
}

// C16XnsSpecs enumerates the family on exactly k names.
func C16XnsSpecs(k int, wrappers, both bool) []C16XnsSpec {
	opts := c16XnsDeclOptions(k, wrappers, both)
	var out []C16XnsSpec
	idx := make([]int, k)
	for {
		decls := make([]C16XnsDecl, k)
		for i := range decls {
			decls[i] = opts[idx[i]]
		}
		for u := 0; u < 4; u++ {
			out = append(out, C16XnsSpec{Decls: decls, UseInNS: u&1 != 0, UseQual: u&2 != 0})
		}
		i := 0
		for ; i < k; i++ {
			idx[i]++
			if idx[i] < len(opts) {
				break
			}
			idx[i] = 0
		}
		if i == k {
			return out
		}
	}
}

// C16XnsSchemas: all schemas on 1 and 2 names (with wrappers and the shadowing placement); on 3 names (bare bodies) all
// when stride <= 1, otherwise every stride-th starting at offset.
func C16XnsSchemas(stride, offset int) []SchemaCase {
	var out []SchemaCase
	add := func(sp C16XnsSpec) { out = append(out, SchemaCase{Tag: sp.Tag(), S: sp.Schema()}) }
	for k := 1; k <= 2; k++ {
		for _, sp := range C16XnsSpecs(k, true, true) {
			add(sp)
		}
	}
	if stride < 1 {
		stride = 1
	}
	for i, sp := range C16XnsSpecs(3, false, false) {
		if i%stride == offset%stride {
			add(sp)
		}
	}
	return out
}
