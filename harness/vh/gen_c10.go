package vh

// C10 generators: structure-aware malformed streams (JSON tree substitution at every position,
// token-level and byte-level mutations of valid text), deep-nesting builders, and the raw
// nodeJSON tree generator used for the correspondence with the Lean well-formedness model.

import (
	"bytes"
	"encoding/hex"
	"encoding/json"
	"fmt"
	"math/rand"
	"sort"
	"strings"
)

// ---------- generic JSON tree walking ----------

// C10ParseJSON parses into a generic tree (objects as C10Obj to keep member order and duplicates).
type C10Member struct {
	Key string
	Val any
}
type C10Obj []C10Member

func C10ParseJSON(b []byte) (any, error) {
	dec := json.NewDecoder(bytes.NewReader(b))
	dec.UseNumber()
	v, err := c10parseValue(dec)
	if err != nil {
		return nil, err
	}
	return v, nil
}

func c10parseValue(dec *json.Decoder) (any, error) {
	tok, err := dec.Token()
	if err != nil {
		return nil, err
	}
	switch t := tok.(type) {
	case json.Delim:
		switch t {
		case '{':
			var o C10Obj
			for dec.More() {
				kt, err := dec.Token()
				if err != nil {
					return nil, err
				}
				v, err := c10parseValue(dec)
				if err != nil {
					return nil, err
				}
				o = append(o, C10Member{Key: kt.(string), Val: v})
			}
			if _, err := dec.Token(); err != nil {
				return nil, err
			}
			if o == nil {
				o = C10Obj{}
			}
			return o, nil
		case '[':
			a := []any{}
			for dec.More() {
				v, err := c10parseValue(dec)
				if err != nil {
					return nil, err
				}
				a = append(a, v)
			}
			if _, err := dec.Token(); err != nil {
				return nil, err
			}
			return a, nil
		}
		return nil, fmt.Errorf("unexpected delim %v", t)
	default:
		return tok, nil
	}
}

// C10Raw is a fragment spliced verbatim into the rendered JSON (lets a mutation produce non-JSON too).
type C10Raw string

func C10Render(v any) []byte {
	var b bytes.Buffer
	c10render(&b, v)
	return b.Bytes()
}

func c10render(b *bytes.Buffer, v any) {
	switch t := v.(type) {
	case C10Raw:
		b.WriteString(string(t))
	case C10Obj:
		b.WriteByte('{')
		for i, m := range t {
			if i > 0 {
				b.WriteByte(',')
			}
			kb, _ := json.Marshal(m.Key)
			b.Write(kb)
			b.WriteByte(':')
			c10render(b, m.Val)
		}
		b.WriteByte('}')
	case []any:
		b.WriteByte('[')
		for i, e := range t {
			if i > 0 {
				b.WriteByte(',')
			}
			c10render(b, e)
		}
		b.WriteByte(']')
	case nil:
		b.WriteString("null")
	default:
		x, _ := json.Marshal(t)
		b.Write(x)
	}
}

// C10CountPositions returns the number of value positions in the tree (every value, incl. the root).
func C10CountPositions(v any) int {
	n := 1
	switch t := v.(type) {
	case C10Obj:
		for _, m := range t {
			n += C10CountPositions(m.Val)
		}
	case []any:
		for _, e := range t {
			n += C10CountPositions(e)
		}
	}
	return n
}

// c10Subst returns a copy of v with position pos (pre-order index) rewritten by f; f gets the old value,
// the parent kind ("obj","arr","root") and returns (new value, keep). keep=false drops the member/element.
func c10Subst(v any, pos *int, target int, parent string, f func(old any, parent string) (any, bool)) (any, bool) {
	if *pos == target {
		*pos++
		// skip the subtree's positions
		*pos += C10CountPositions(v) - 1
		return f(v, parent)
	}
	*pos++
	switch t := v.(type) {
	case C10Obj:
		out := make(C10Obj, 0, len(t))
		for _, m := range t {
			nv, keep := c10Subst(m.Val, pos, target, "obj", f)
			if keep {
				out = append(out, C10Member{Key: m.Key, Val: nv})
			}
		}
		return out, true
	case []any:
		out := make([]any, 0, len(t))
		for _, e := range t {
			nv, keep := c10Subst(e, pos, target, "arr", f)
			if keep {
				out = append(out, nv)
			}
		}
		return out, true
	}
	return v, true
}

// C10JSONSubstitutes: what gets written at a position. "drop" removes the member/element.
var C10JSONSubstitutes = []struct {
	Kind string
	Val  any
}{
	{"null", nil}, {"empty-array", []any{}}, {"empty-object", C10Obj{}}, {"empty-string", ""}, {"string", "x"},
	{"zero", json.Number("0")}, {"number", json.Number("-9223372036854775809")}, {"float", json.Number("1.5e300")}, {"true", true},
	{"array-null", []any{nil}}, {"object-null", C10Obj{{Key: "a", Val: nil}}}, {"nested-empty", []any{[]any{}, C10Obj{}}},
	{"drop", C10Raw("\x00drop")},
}

// C10JSONMutantsAt yields every substitute at one position; also key-level mutations when the position is an object.
func C10JSONMutantsAt(tree any, target int, each func(kind string, doc []byte)) {
	for _, s := range C10JSONSubstitutes {
		p := 0
		nv, keep := c10Subst(tree, &p, target, "root", func(old any, parent string) (any, bool) {
			if s.Kind == "drop" {
				return nil, false
			}
			return s.Val, true
		})
		if !keep {
			continue // dropping the root
		}
		each(s.Kind, C10Render(nv))
	}
	// object-specific: extra unknown field, duplicate first key, upper-cased keys, wrap in array, unwrap
	p := 0
	nv, _ := c10Subst(tree, &p, target, "root", func(old any, parent string) (any, bool) {
		if o, ok := old.(C10Obj); ok {
			out := append(C10Obj{}, o...)
			out = append(out, C10Member{Key: "zzUnknown", Val: nil})
			return out, true
		}
		return []any{old}, true // wrap scalars/arrays in an array
	})
	each("extra-field-or-wrap", C10Render(nv))
	p = 0
	nv, _ = c10Subst(tree, &p, target, "root", func(old any, parent string) (any, bool) {
		if o, ok := old.(C10Obj); ok && len(o) > 0 {
			out := append(C10Obj{}, o...)
			out = append(out, C10Member{Key: o[0].Key, Val: nil}) // duplicate key, second one null
			return out, true
		}
		if a, ok := old.([]any); ok && len(a) > 0 {
			return append(append([]any{}, a...), a[0], nil), true // duplicate element + null
		}
		return C10Obj{{Key: "__entity", Val: old}}, true
	})
	each("dup-key-or-elem", C10Render(nv))
	p = 0
	nv, _ = c10Subst(tree, &p, target, "root", func(old any, parent string) (any, bool) {
		if o, ok := old.(C10Obj); ok && len(o) > 0 {
			out := make(C10Obj, len(o))
			for i, m := range o {
				out[i] = C10Member{Key: strings.ToUpper(m.Key), Val: m.Val} // encoding/json matches keys case-insensitively
			}
			return out, true
		}
		return C10Obj{{Key: "__extn", Val: C10Obj{{Key: "fn", Val: "decimal"}, {Key: "arg", Val: old}}}}, true
	})
	each("upper-keys-or-extn-wrap", C10Render(nv))
}

// ---------- token level ----------

// C10Tokens splits Cedar / schema text into tokens (strings, identifiers, numbers, 2-char operators, single chars),
// keeping whitespace runs as their own tokens so that the text can be reassembled.
func C10Tokens(src string) []string {
	var out []string
	i := 0
	isId := func(c byte) bool {
		return c == '_' || c >= 'a' && c <= 'z' || c >= 'A' && c <= 'Z' || c >= '0' && c <= '9' || c >= 0x80
	}
	for i < len(src) {
		c := src[i]
		switch {
		case c == ' ' || c == '\n' || c == '\t' || c == '\r':
			j := i
			for j < len(src) && (src[j] == ' ' || src[j] == '\n' || src[j] == '\t' || src[j] == '\r') {
				j++
			}
			out = append(out, src[i:j])
			i = j
		case c == '"':
			j := i + 1
			for j < len(src) && src[j] != '"' {
				if src[j] == '\\' && j+1 < len(src) {
					j++
				}
				j++
			}
			if j < len(src) {
				j++
			}
			out = append(out, src[i:j])
			i = j
		case isId(c):
			j := i
			for j < len(src) && isId(src[j]) {
				j++
			}
			out = append(out, src[i:j])
			i = j
		default:
			if i+1 < len(src) {
				two := src[i : i+2]
				switch two {
				case "::", "==", "!=", "<=", ">=", "&&", "||", "//":
					out = append(out, two)
					i += 2
					continue
				}
			}
			out = append(out, src[i:i+1])
			i++
		}
	}
	return out
}

var c10InsertTokens = []string{"(", ")", "[", "]", "{", "}", ",", ";", ".", "::", "!", "-", "&&", "||", "==", "in", "is", "has", "like", "if", "then", "else",
	"true", "principal", "context", "foo", "9223372036854775808", "\"\\u{110000}\"", "\"\\", "\"", "@", "when", "unless", "permit", "forbid", "__cedar", "*", "+",
	"ip", "decimal", "lessThan", "isEmpty", "contains", "Set", "<", ">", "entity", "action", "type", "namespace", "appliesTo", "?", ":", "=", "enum", "tags", "\x00", "\xff", "\u2028",
	"/*", "*/", "//", "/**", "/", "/* *", "/**/"}

// C10TokenMutant applies one random token-level mutation; returns the new text and the mutation kind.
func C10TokenMutant(r *rand.Rand, toks []string) (string, string) {
	sig := []int{} // indices of non-whitespace tokens
	for i, t := range toks {
		if strings.TrimSpace(t) != "" {
			sig = append(sig, i)
		}
	}
	if len(sig) == 0 {
		return strings.Join(toks, ""), "tok-none"
	}
	out := append([]string{}, toks...)
	pick := func() int { return sig[r.Intn(len(sig))] }
	switch r.Intn(7) {
	case 0:
		i := pick()
		out[i] = ""
		return strings.Join(out, ""), "tok-delete"
	case 1:
		i := pick()
		out[i] = out[i] + " " + c10InsertTokens[r.Intn(len(c10InsertTokens))] + " "
		return strings.Join(out, ""), "tok-insert"
	case 2:
		i, j := pick(), pick()
		out[i], out[j] = out[j], out[i]
		return strings.Join(out, ""), "tok-swap"
	case 3:
		i := pick()
		out[i] = out[i] + " " + out[i]
		return strings.Join(out, ""), "tok-duplicate"
	case 4:
		i := pick()
		out[i] = c10InsertTokens[r.Intn(len(c10InsertTokens))]
		return strings.Join(out, ""), "tok-replace"
	case 5:
		i := pick()
		return strings.Join(out[:i], ""), "tok-truncate"
	default:
		// delete a whole range
		i, j := pick(), pick()
		if i > j {
			i, j = j, i
		}
		return strings.Join(out[:i], "") + strings.Join(out[j:], ""), "tok-delete-range"
	}
}

// C10TruncationsAtTokens yields the text truncated at every token boundary.
func C10TruncationsAtTokens(toks []string, each func(string)) {
	var b strings.Builder
	for _, t := range toks {
		if strings.TrimSpace(t) != "" {
			each(b.String())
		}
		b.WriteString(t)
	}
}

// ---------- byte level ----------

var c10Bytes = []byte{0x00, 0xff, 0xfe, 0xc0, 0x80, 0xed, 0xa0, 0xf4, 0x90, '"', '\\', '{', '}', '[', ']', '(', ')', ',', ':', '\n', 'e', 'E', '-', '+', '.', '0', '9', 'u', '*', '/', '<', '>'}

func C10ByteMutant(r *rand.Rand, b []byte) ([]byte, string) {
	out := append([]byte{}, b...)
	if len(out) == 0 {
		return []byte{c10Bytes[r.Intn(len(c10Bytes))]}, "byte-insert"
	}
	switch r.Intn(6) {
	case 0:
		i := r.Intn(len(out))
		out[i] = c10Bytes[r.Intn(len(c10Bytes))]
		return out, "byte-replace"
	case 1:
		i := r.Intn(len(out))
		out[i] ^= 1 << uint(r.Intn(8))
		return out, "byte-bitflip"
	case 2:
		i := r.Intn(len(out) + 1)
		out = append(out[:i], append([]byte{c10Bytes[r.Intn(len(c10Bytes))]}, out[i:]...)...)
		return out, "byte-insert"
	case 3:
		i := r.Intn(len(out))
		return append(out[:i], out[i+1:]...), "byte-delete"
	case 4:
		return out[:r.Intn(len(out))], "byte-truncate"
	default:
		// splice a random slice of itself somewhere else
		i, j := r.Intn(len(out)), r.Intn(len(out))
		if i > j {
			i, j = j, i
		}
		k := r.Intn(len(out) + 1)
		ins := append([]byte{}, out[i:j]...)
		return append(out[:k], append(ins, out[k:]...)...), "byte-splice"
	}
}

func C10RandomBytes(r *rand.Rand, alphabet string) []byte {
	n := r.Intn(40)
	out := make([]byte, n)
	for i := range out {
		if alphabet != "" && r.Intn(4) != 0 {
			out[i] = alphabet[r.Intn(len(alphabet))]
		} else {
			out[i] = byte(r.Intn(256))
		}
	}
	return out
}

// ---------- deep nesting ----------

// C10DeepForm builds the input with nesting depth n for one bracket/operator/record/set form.
type C10DeepForm struct {
	Name   string
	Family string // which decoders it is for: policy-text | policy-json | value-json | schema-text | schema-json | entity-json
	Build  func(n int) []byte
}

func rep(s string, n int) string { return strings.Repeat(s, n) }

func c10PolicyText(cond string) []byte {
	return []byte("permit(principal, action, resource) when { " + cond + " };")
}

func c10PolicyJSON(body string) []byte {
	return []byte(`{"effect":"permit","principal":{"op":"All"},"action":{"op":"All"},"resource":{"op":"All"},"conditions":[{"kind":"when","body":` + body + `}]}`)
}

var C10DeepForms = []C10DeepForm{
	// Cedar policy text
	{"paren", "policy-text", func(n int) []byte { return c10PolicyText(rep("(", n) + "true" + rep(")", n)) }},
	{"set", "policy-text", func(n int) []byte { return c10PolicyText(rep("[", n) + "1" + rep("]", n) + " == 1") }},
	{"record", "policy-text", func(n int) []byte { return c10PolicyText(rep("{a:", n) + "1" + rep("}", n) + " == 1") }},
	{"if-cond", "policy-text", func(n int) []byte { return c10PolicyText(rep("if ", n) + "true" + rep(" then true else false", n)) }},
	{"if-else", "policy-text", func(n int) []byte { return c10PolicyText(rep("if true then true else ", n) + "false") }},
	{"not", "policy-text", func(n int) []byte { return c10PolicyText(rep("!", n) + "true") }},
	{"neg", "policy-text", func(n int) []byte { return c10PolicyText(rep("-", n) + "1 == 1") }},
	{"access", "policy-text", func(n int) []byte { return c10PolicyText("context" + rep(".a", n) + " == 1") }},
	{"index", "policy-text", func(n int) []byte { return c10PolicyText("context" + rep(`["a"]`, n) + " == 1") }},
	{"add", "policy-text", func(n int) []byte { return c10PolicyText("1" + rep(" + 1", n) + " == 1") }},
	{"mul", "policy-text", func(n int) []byte { return c10PolicyText("1" + rep(" * 1", n) + " == 1") }},
	{"and", "policy-text", func(n int) []byte { return c10PolicyText("true" + rep(" && true", n)) }},
	{"or", "policy-text", func(n int) []byte { return c10PolicyText("false" + rep(" || false", n)) }},
	{"method-arg", "policy-text", func(n int) []byte { return c10PolicyText(rep("[].contains(", n) + "1" + rep(")", n)) }},
	{"method-chain", "policy-text", func(n int) []byte {
		return c10PolicyText(`datetime("2024-01-01")` + rep(".toDate()", n) + ` == datetime("2024-01-01")`)
	}},
	{"extfun", "policy-text", func(n int) []byte { return c10PolicyText(rep("decimal(", n) + `"1.0"` + rep(")", n) + ` == decimal("1.0")`) }},
	{"has-chain", "policy-text", func(n int) []byte { return c10PolicyText("context has a" + rep(".a", n)) }},
	{"is-in", "policy-text", func(n int) []byte { return c10PolicyText(rep("principal is A in (", n) + "principal" + rep(")", n)) }},
	{"like-stars", "policy-text", func(n int) []byte {
		return c10PolicyText(`"` + rep("a", n) + `" like "` + rep("*a", n) + `b"`)
	}},
	{"many-policies", "policy-text", func(n int) []byte { return []byte(rep("permit(principal, action, resource);\n", n)) }},
	{"long-string", "policy-text", func(n int) []byte { return c10PolicyText(`"` + rep(`\u{1F600}`, n) + `" == ""`) }},
	{"action-list", "policy-text", func(n int) []byte {
		return []byte("permit(principal, action in [" + rep(`Action::"a", `, n) + `Action::"a"], resource);`)
	}},
	// policy JSON
	{"j-not", "policy-json", func(n int) []byte { return c10PolicyJSON(rep(`{"!":{"arg":`, n) + `{"Value":true}` + rep("}}", n)) }},
	{"j-and-left", "policy-json", func(n int) []byte {
		return c10PolicyJSON(rep(`{"&&":{"left":`, n) + `{"Value":true}` + rep(`,"right":{"Value":true}}}`, n))
	}},
	{"j-and-right", "policy-json", func(n int) []byte {
		return c10PolicyJSON(rep(`{"&&":{"left":{"Value":true},"right":`, n) + `{"Value":true}` + rep("}}", n))
	}},
	{"j-set", "policy-json", func(n int) []byte { return c10PolicyJSON(rep(`{"Set":[`, n) + `{"Value":1}` + rep("]}", n)) }},
	{"j-record", "policy-json", func(n int) []byte { return c10PolicyJSON(rep(`{"Record":{"a":`, n) + `{"Value":1}` + rep("}}", n)) }},
	{"j-ite", "policy-json", func(n int) []byte {
		return c10PolicyJSON(rep(`{"if-then-else":{"if":{"Value":true},"then":{"Value":true},"else":`, n) + `{"Value":true}` + rep("}}", n))
	}},
	{"j-ext", "policy-json", func(n int) []byte { return c10PolicyJSON(rep(`{"decimal":[`, n) + `{"Value":"1.0"}` + rep("]}", n)) }},
	{"j-access", "policy-json", func(n int) []byte {
		return c10PolicyJSON(rep(`{".":{"left":`, n) + `{"Var":"context"}` + rep(`,"attr":"a"}}`, n))
	}},
	{"j-value-set", "policy-json", func(n int) []byte { return c10PolicyJSON(`{"Value":` + rep("[", n) + rep("]", n) + `}`) }},
	{"j-value-record", "policy-json", func(n int) []byte { return c10PolicyJSON(`{"Value":` + rep(`{"a":`, n) + "1" + rep("}", n) + `}`) }},
	// value JSON
	{"v-array", "value-json", func(n int) []byte { return []byte(rep("[", n) + rep("]", n)) }},
	{"v-object", "value-json", func(n int) []byte { return []byte(rep(`{"a":`, n) + "1" + rep("}", n)) }},
	{"v-mixed", "value-json", func(n int) []byte { return []byte(rep(`[{"a":`, n) + "1" + rep("}]", n)) }},
	{"v-wide", "value-json", func(n int) []byte { return []byte("[" + rep("1,", n) + "1]") }},
	{"v-extn-long-arg", "value-json", func(n int) []byte { return []byte(`{"__extn":{"fn":"decimal","arg":"` + rep("9", n) + `.0"}}`) }},
	// schema text
	{"s-set", "schema-text", func(n int) []byte { return []byte("type T = " + rep("Set<", n) + "Long" + rep(">", n) + ";") }},
	{"s-record", "schema-text", func(n int) []byte { return []byte("type T = " + rep("{a: ", n) + "Long" + rep("}", n) + ";") }},
	{"s-entity-record", "schema-text", func(n int) []byte { return []byte("entity E " + rep("{a: ", n) + "Long" + rep("}", n) + ";") }},
	{"s-many-entities", "schema-text", func(n int) []byte {
		var b strings.Builder
		for i := 0; i < n; i++ {
			fmt.Fprintf(&b, "entity E%d in [E%d];\n", i, (i+1)%n)
		}
		return []byte(b.String())
	}},
	{"s-typeref-chain", "schema-text", func(n int) []byte {
		var b strings.Builder
		for i := 0; i < n; i++ {
			fmt.Fprintf(&b, "type T%d = T%d;\n", i, i+1)
		}
		fmt.Fprintf(&b, "type T%d = Long;\nentity E { a: T0 };\n", n)
		return []byte(b.String())
	}},
	// schema JSON
	{"sj-set", "schema-json", func(n int) []byte {
		return []byte(`{"":{"entityTypes":{},"actions":{},"commonTypes":{"T":` + rep(`{"type":"Set","element":`, n) + `{"type":"Long"}` + rep("}", n) + `}}}`)
	}},
	{"sj-record", "schema-json", func(n int) []byte {
		return []byte(`{"":{"entityTypes":{},"actions":{},"commonTypes":{"T":` + rep(`{"type":"Record","attributes":{"a":`, n) + `{"type":"Long"}` + rep("}}", n) + `}}}`)
	}},
}

func C10FindForm(name string) *C10DeepForm {
	for i := range C10DeepForms {
		if C10DeepForms[i].Name == name {
			return &C10DeepForms[i]
		}
	}
	if f := C10FindGrowthForm(name); f != nil { // the growth forms of gen_c10c.go (names are disjoint)
		return f
	}
	return C10FindRunForm(name) // the long-run forms of gen_c10b.go (names are disjoint)
}

// ---------- raw nodeJSON trees for the WF correspondence ----------

// C10RawNode is a nodeJSON tree: Enc is the protocol encoding sent to the Lean driver, JSON the policy-JSON text.
type C10RawNode struct {
	Enc  any
	JSON string
}

var c10BinJSON = map[string]string{"and": "&&", "or": "||", "eq": "==", "ne": "!=", "lt": "<", "le": "<=", "gt": ">", "ge": ">=", "add": "+", "sub": "-", "mul": "*",
	"in": "in", "contains": "contains", "containsAll": "containsAll", "containsAny": "containsAny", "getTag": "getTag", "hasTag": "hasTag"}
var c10BinOps []string

func init() {
	for k := range c10BinJSON {
		c10BinOps = append(c10BinOps, k)
	}
	sort.Strings(c10BinOps)
}

var c10ExtNames = []string{"ip", "decimal", "datetime", "duration", "lessThan", "lessThanOrEqual", "greaterThan", "greaterThanOrEqual", "isIpv4", "isIpv6", "isLoopback",
	"isMulticast", "isInRange", "toDate", "toTime", "offset", "durationSince", "toDays", "toHours", "toMinutes", "toSeconds", "toMilliseconds"}
// (names that are also nodeJSON keys — "contains", "isEmpty" … — would be rejected by encoding/json before ToNode runs)
var c10BadNames = []string{"foo", "", "Decimal", "__cedar::partialError", "ip ", "principal", "lessthan"}
var c10VarNames = []string{"principal", "action", "resource", "context"}
var c10BadVars = []string{"foo", "", "Principal", "context ", "principal.x", "__cedar"}

func HexS(s string) string { return hex.EncodeToString([]byte(s)) }

func jstr(s string) string { b, _ := json.Marshal(s); return string(b) }

// C10GenRaw generates a nodeJSON tree. defects is the budget of deliberately ill-formed spots
// (null record entry, null / {} in a by-value position, unknown variable, unknown function, method call without
// arguments, wrong argument counts); at most one record entry per record receives budget, because Go iterates
// the record map in random order and two defective entries would make the outcome order-dependent.
func C10GenRaw(r *rand.Rand, depth int, defects *int) C10RawNode {
	useDefect := func() bool {
		if *defects > 0 && r.Intn(3) == 0 {
			*defects--
			return true
		}
		return false
	}
	if depth <= 0 || r.Intn(6) == 0 {
		switch r.Intn(3) {
		case 0:
			if useDefect() {
				v := c10BadVars[r.Intn(len(c10BadVars))]
				return C10RawNode{[]any{"var", HexS(v)}, `{"Var":` + jstr(v) + `}`}
			}
			v := c10VarNames[r.Intn(len(c10VarNames))]
			return C10RawNode{[]any{"var", HexS(v)}, `{"Var":` + jstr(v) + `}`}
		case 1:
			if useDefect() {
				if r.Intn(2) == 0 {
					return C10RawNode{[]any{"zero"}, `null`}
				}
				return C10RawNode{[]any{"zero"}, `{}`}
			}
			fallthrough
		default:
			lits := []string{`true`, `1`, `"s"`, `{"__entity":{"type":"User","id":"a"}}`, `[1,2]`, `{"a":1}`, `{"__extn":{"fn":"decimal","arg":"1.5"}}`}
			return C10RawNode{[]any{"lit"}, `{"Value":` + lits[r.Intn(len(lits))] + `}`}
		}
	}
	sub := func() C10RawNode { return C10GenRaw(r, depth-1, defects) }
	switch r.Intn(12) {
	case 0:
		op := []string{"not", "neg", "isEmpty"}[r.Intn(3)]
		k := map[string]string{"not": "!", "neg": "neg", "isEmpty": "isEmpty"}[op]
		a := sub()
		return C10RawNode{[]any{op, a.Enc}, `{` + jstr(k) + `:{"arg":` + a.JSON + `}}`}
	case 1, 2:
		op := c10BinOps[r.Intn(len(c10BinOps))]
		a, b := sub(), sub()
		return C10RawNode{[]any{op, a.Enc, b.Enc}, `{` + jstr(c10BinJSON[op]) + `:{"left":` + a.JSON + `,"right":` + b.JSON + `}}`}
	case 3:
		a, b, c := sub(), sub(), sub()
		return C10RawNode{[]any{"ite", a.Enc, b.Enc, c.Enc}, `{"if-then-else":{"if":` + a.JSON + `,"then":` + b.JSON + `,"else":` + c.JSON + `}}`}
	case 4:
		a := sub()
		if r.Intn(2) == 0 {
			return C10RawNode{[]any{"access", a.Enc, HexS("x")}, `{".":{"left":` + a.JSON + `,"attr":"x"}}`}
		}
		return C10RawNode{[]any{"has", a.Enc, HexS("x")}, `{"has":{"left":` + a.JSON + `,"attr":"x"}}`}
	case 5:
		a := sub()
		return C10RawNode{[]any{"like", a.Enc}, `{"like":{"left":` + a.JSON + `,"pattern":["Wildcard",{"Literal":"a"}]}}`}
	case 6:
		a := sub()
		switch r.Intn(3) {
		case 0:
			return C10RawNode{[]any{"is", a.Enc, HexS("User")}, `{"is":{"left":` + a.JSON + `,"entity_type":"User"}}`}
		case 1:
			// "in": null is a nil *nodeJSON that isJSON.ToNode checks: plain `is`
			return C10RawNode{[]any{"is", a.Enc, HexS("User")}, `{"is":{"left":` + a.JSON + `,"entity_type":"User","in":null}}`}
		default:
			b := sub()
			if b.JSON == "null" { // "in": null is a nil *nodeJSON, which isJSON.ToNode treats as absent
				return C10RawNode{[]any{"is", a.Enc, HexS("User")}, `{"is":{"left":` + a.JSON + `,"entity_type":"User","in":null}}`}
			}
			return C10RawNode{[]any{"isIn", a.Enc, HexS("User"), b.Enc}, `{"is":{"left":` + a.JSON + `,"entity_type":"User","in":` + b.JSON + `}}`}
		}
	case 7:
		n := r.Intn(4)
		encs := []any{}
		var js []string
		for i := 0; i < n; i++ {
			a := sub()
			encs = append(encs, a.Enc)
			js = append(js, a.JSON)
		}
		return C10RawNode{[]any{"set", encs}, `{"Set":[` + strings.Join(js, ",") + `]}`}
	case 8, 9:
		// record: one entry may carry defects, the others are generated with a zero budget
		n := r.Intn(4)
		special := -1
		if n > 0 {
			special = r.Intn(n)
		}
		encs := []any{}
		var js []string
		for i := 0; i < n; i++ {
			k := fmt.Sprintf("k%d", i)
			var a C10RawNode
			if i == special {
				if *defects > 0 && r.Intn(2) == 0 {
					*defects--
					a = C10RawNode{[]any{"nil"}, `null`} // nil *nodeJSON
				} else {
					a = sub()
					if a.JSON == "null" {
						a.Enc = []any{"nil"} // a null record entry is a nil *nodeJSON, not a zero struct
					}
				}
			} else {
				zero := 0
				a = C10GenRaw(r, depth-1, &zero)
			}
			encs = append(encs, []any{HexS(k), a.Enc})
			js = append(js, jstr(k)+":"+a.JSON)
		}
		return C10RawNode{[]any{"rec", encs}, `{"Record":{` + strings.Join(js, ",") + `}}`}
	default:
		name := c10ExtNames[r.Intn(len(c10ExtNames))]
		if useDefect() {
			name = c10BadNames[r.Intn(len(c10BadNames))]
		}
		n := r.Intn(3)
		if useDefect() {
			n = 0 // method without receiver / function without argument
		} else if r.Intn(5) == 0 {
			n = 3
		}
		encs := []any{}
		var js []string
		for i := 0; i < n; i++ {
			a := sub()
			encs = append(encs, a.Enc)
			js = append(js, a.JSON)
		}
		if name == "" {
			// the empty key is still an "unknown field" for encoding/json → extension path → unknown function
			return C10RawNode{[]any{"call", HexS(name), encs}, `{"":[` + strings.Join(js, ",") + `]}`}
		}
		return C10RawNode{[]any{"call", HexS(name), encs}, `{` + jstr(name) + `:[` + strings.Join(js, ",") + `]}`}
	}
}
