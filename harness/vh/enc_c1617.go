package vh

// Encoders for C16/C17: a tagged JSON encoding of the schema AST that does not go through either schema
// codec (strings are hex of their UTF-8 bytes, map entries are key-sorted lists), its decoder (used by the
// C16 subprocess worker) and the canonical dump of a resolved schema (walks the public resolved types, sorted).

import (
	"encoding/hex"
	"fmt"
	"sort"
	"strings"

	"github.com/cedar-policy/cedar-go/types"
	sast "github.com/cedar-policy/cedar-go/x/exp/schema/ast"
	"github.com/cedar-policy/cedar-go/x/exp/schema/resolved"
)

func sortedKeysOf[K ~string, V any](m map[K]V) []K {
	ks := make([]K, 0, len(m))
	for k := range m {
		ks = append(ks, k)
	}
	sort.Slice(ks, func(i, j int) bool { return ks[i] < ks[j] })
	return ks
}

func encAnns(a sast.Annotations) any {
	out := []any{}
	for _, k := range sortedKeysOf(a) {
		out = append(out, []any{Hex(string(k)), Hex(string(a[k]))})
	}
	return out
}

// EncSchemaType encodes an ast.IsType.
func EncSchemaType(t sast.IsType) any {
	switch t := t.(type) {
	case sast.StringType:
		return []any{"string"}
	case sast.LongType:
		return []any{"long"}
	case sast.BoolType:
		return []any{"bool"}
	case sast.ExtensionType:
		return []any{"ext", Hex(string(t))}
	case sast.SetType:
		return []any{"set", EncSchemaType(t.Element)}
	case sast.RecordType:
		return []any{"record", encAttrs(t)}
	case sast.EntityTypeRef:
		return []any{"entity", Hex(string(t))}
	case sast.TypeRef:
		return []any{"ref", Hex(string(t))}
	}
	return nil
}

func encAttrs(r sast.RecordType) any {
	out := []any{}
	for _, k := range sortedKeysOf(r) {
		a := r[k]
		out = append(out, []any{Hex(string(k)), a.Optional, encAnns(a.Annotations), EncSchemaType(a.Type)})
	}
	return out
}

func encHexList[T ~string](xs []T) any {
	out := []any{}
	for _, x := range xs {
		out = append(out, Hex(string(x)))
	}
	return out
}

func encNamespaceBody(ents sast.Entities, enums sast.Enums, acts sast.Actions, cts sast.CommonTypes) map[string]any {
	m := map[string]any{}
	es := []any{}
	for _, k := range sortedKeysOf(ents) {
		e := ents[k]
		em := map[string]any{"anns": encAnns(e.Annotations), "parents": encHexList(e.ParentTypes), "shape": nil, "tags": nil}
		if e.Shape != nil {
			em["shape"] = encAttrs(e.Shape)
		}
		if e.Tags != nil {
			em["tags"] = EncSchemaType(e.Tags)
		}
		es = append(es, []any{Hex(string(k)), em})
	}
	m["ents"] = es
	ens := []any{}
	for _, k := range sortedKeysOf(enums) {
		e := enums[k]
		ens = append(ens, []any{Hex(string(k)), map[string]any{"anns": encAnns(e.Annotations), "values": encHexList(e.Values)}})
	}
	m["enums"] = ens
	as := []any{}
	for _, k := range sortedKeysOf(acts) {
		a := acts[k]
		ps := []any{}
		for _, p := range a.Parents {
			ps = append(ps, []any{Hex(string(p.Type)), Hex(string(p.ID))})
		}
		am := map[string]any{"anns": encAnns(a.Annotations), "parents": ps, "applies": nil}
		if a.AppliesTo != nil {
			at := map[string]any{"principals": encHexList(a.AppliesTo.Principals), "resources": encHexList(a.AppliesTo.Resources), "context": nil}
			if a.AppliesTo.Context != nil {
				at["context"] = EncSchemaType(a.AppliesTo.Context)
			}
			am["applies"] = at
		}
		as = append(as, []any{Hex(string(k)), am})
	}
	m["acts"] = as
	cs := []any{}
	for _, k := range sortedKeysOf(cts) {
		c := cts[k]
		cs = append(cs, []any{Hex(string(k)), map[string]any{"anns": encAnns(c.Annotations), "ty": EncSchemaType(c.Type)}})
	}
	m["cts"] = cs
	return m
}

// EncSchema encodes a schema AST (tagged, key-sorted, hex strings).
func EncSchema(s *sast.Schema) any {
	m := encNamespaceBody(s.Entities, s.Enums, s.Actions, s.CommonTypes)
	nss := []any{}
	for _, k := range sortedKeysOf(s.Namespaces) {
		ns := s.Namespaces[k]
		b := encNamespaceBody(ns.Entities, ns.Enums, ns.Actions, ns.CommonTypes)
		b["anns"] = encAnns(ns.Annotations)
		nss = append(nss, []any{Hex(string(k)), b})
	}
	m["nss"] = nss
	return m
}

// ---- decoder (inverse of EncSchema on the JSON-decoded form) ----

func unhexS(x any) string {
	s, _ := x.(string)
	b, err := hex.DecodeString(s)
	if err != nil {
		panic("bad hex in schema encoding")
	}
	return string(b)
}

func decAnns(x any) sast.Annotations {
	l, _ := x.([]any)
	if len(l) == 0 {
		return nil
	}
	a := sast.Annotations{}
	for _, kv := range l {
		p := kv.([]any)
		a[types.Ident(unhexS(p[0]))] = types.String(unhexS(p[1]))
	}
	return a
}

func DecSchemaType(x any) sast.IsType {
	l := x.([]any)
	switch l[0].(string) {
	case "string":
		return sast.StringType{}
	case "long":
		return sast.LongType{}
	case "bool":
		return sast.BoolType{}
	case "ext":
		return sast.ExtensionType(unhexS(l[1]))
	case "set":
		return sast.SetType{Element: DecSchemaType(l[1])}
	case "record":
		return decAttrs(l[1])
	case "entity":
		return sast.EntityTypeRef(unhexS(l[1]))
	case "ref":
		return sast.TypeRef(unhexS(l[1]))
	}
	panic("bad type tag")
}

func decAttrs(x any) sast.RecordType {
	r := sast.RecordType{}
	l, _ := x.([]any)
	for _, e := range l {
		p := e.([]any)
		r[types.String(unhexS(p[0]))] = sast.Attribute{Type: DecSchemaType(p[3]), Optional: p[1].(bool), Annotations: decAnns(p[2])}
	}
	return r
}

func decBody(m map[string]any) (sast.Entities, sast.Enums, sast.Actions, sast.CommonTypes) {
	var ents sast.Entities
	var enums sast.Enums
	var acts sast.Actions
	var cts sast.CommonTypes
	for _, e := range m["ents"].([]any) {
		p := e.([]any)
		em := p[1].(map[string]any)
		ent := sast.Entity{Annotations: decAnns(em["anns"])}
		for _, x := range em["parents"].([]any) {
			ent.ParentTypes = append(ent.ParentTypes, sast.EntityTypeRef(unhexS(x)))
		}
		if em["shape"] != nil {
			ent.Shape = decAttrs(em["shape"])
		}
		if em["tags"] != nil {
			ent.Tags = DecSchemaType(em["tags"])
		}
		if ents == nil {
			ents = sast.Entities{}
		}
		ents[types.Ident(unhexS(p[0]))] = ent
	}
	for _, e := range m["enums"].([]any) {
		p := e.([]any)
		em := p[1].(map[string]any)
		en := sast.Enum{Annotations: decAnns(em["anns"])}
		for _, x := range em["values"].([]any) {
			en.Values = append(en.Values, types.String(unhexS(x)))
		}
		if enums == nil {
			enums = sast.Enums{}
		}
		enums[types.Ident(unhexS(p[0]))] = en
	}
	for _, e := range m["acts"].([]any) {
		p := e.([]any)
		am := p[1].(map[string]any)
		a := sast.Action{Annotations: decAnns(am["anns"])}
		for _, x := range am["parents"].([]any) {
			q := x.([]any)
			a.Parents = append(a.Parents, sast.ParentRef{Type: sast.EntityTypeRef(unhexS(q[0])), ID: types.String(unhexS(q[1]))})
		}
		if am["applies"] != nil {
			atm := am["applies"].(map[string]any)
			at := &sast.AppliesTo{}
			for _, x := range atm["principals"].([]any) {
				at.Principals = append(at.Principals, sast.EntityTypeRef(unhexS(x)))
			}
			for _, x := range atm["resources"].([]any) {
				at.Resources = append(at.Resources, sast.EntityTypeRef(unhexS(x)))
			}
			if atm["context"] != nil {
				at.Context = DecSchemaType(atm["context"])
			}
			a.AppliesTo = at
		}
		if acts == nil {
			acts = sast.Actions{}
		}
		acts[types.String(unhexS(p[0]))] = a
	}
	for _, e := range m["cts"].([]any) {
		p := e.([]any)
		cm := p[1].(map[string]any)
		if cts == nil {
			cts = sast.CommonTypes{}
		}
		cts[types.Ident(unhexS(p[0]))] = sast.CommonType{Annotations: decAnns(cm["anns"]), Type: DecSchemaType(cm["ty"])}
	}
	return ents, enums, acts, cts
}

// DecSchema rebuilds the AST from the JSON-decoded EncSchema form.
func DecSchema(x any) *sast.Schema {
	m := x.(map[string]any)
	s := &sast.Schema{}
	s.Entities, s.Enums, s.Actions, s.CommonTypes = decBody(m)
	for _, e := range m["nss"].([]any) {
		p := e.([]any)
		b := p[1].(map[string]any)
		ns := sast.Namespace{Annotations: decAnns(b["anns"])}
		ns.Entities, ns.Enums, ns.Actions, ns.CommonTypes = decBody(b)
		if s.Namespaces == nil {
			s.Namespaces = sast.Namespaces{}
		}
		s.Namespaces[types.Path(unhexS(p[0]))] = ns
	}
	return s
}

// ---- canonical dump of a resolved schema ----

func dumpAnns(a resolved.Annotations) string {
	var sb strings.Builder
	sb.WriteByte('@')
	for i, k := range sortedKeysOf(a) {
		if i > 0 {
			sb.WriteByte(',')
		}
		sb.WriteString(Hex(string(k)) + "=" + Hex(string(a[k])))
	}
	return sb.String()
}

func dumpRType(t resolved.IsType) string {
	switch t := t.(type) {
	case resolved.StringType:
		return "S"
	case resolved.LongType:
		return "L"
	case resolved.BoolType:
		return "B"
	case resolved.ExtensionType:
		return "X(" + Hex(string(t)) + ")"
	case resolved.SetType:
		return "Set(" + dumpRType(t.Element) + ")"
	case resolved.RecordType:
		return dumpRRecord(t)
	case resolved.EntityType:
		return "E(" + Hex(string(t)) + ")"
	case nil:
		return "nil"
	}
	return fmt.Sprintf("?%T", t)
}

func dumpRRecord(r resolved.RecordType) string {
	var sb strings.Builder
	sb.WriteByte('{')
	for i, k := range sortedKeysOf(r) {
		if i > 0 {
			sb.WriteByte(',')
		}
		a := r[k]
		sb.WriteString(Hex(string(k)))
		if a.Optional {
			sb.WriteByte('?')
		}
		sb.WriteString(dumpAnns(a.Annotations) + ":" + dumpRType(a.Type))
	}
	sb.WriteByte('}')
	return sb.String()
}

func sortedHexList[T ~string](xs []T) string {
	ss := make([]string, len(xs))
	for i, x := range xs {
		ss[i] = Hex(string(x))
	}
	sort.Strings(ss)
	return "[" + strings.Join(ss, ",") + "]"
}

// DumpResolved renders a resolved schema canonically: declarations key-sorted; entity parent types and
// applies-to lists as sorted lists (they are sets semantically; the JSON encoder sorts memberOfTypes);
// nil and empty shapes/annotations identified; enum values in declaration order.
func DumpResolved(s *resolved.Schema) string {
	var sb strings.Builder
	sb.WriteString("ns[")
	for i, k := range sortedKeysOf(s.Namespaces) {
		if i > 0 {
			sb.WriteByte(';')
		}
		ns := s.Namespaces[k]
		sb.WriteString(Hex(string(k)) + "/" + Hex(string(ns.Name)) + dumpAnns(ns.Annotations))
	}
	sb.WriteString("] ents[")
	for i, k := range sortedKeysOf(s.Entities) {
		if i > 0 {
			sb.WriteByte(';')
		}
		e := s.Entities[k]
		sb.WriteString(Hex(string(k)) + "/" + Hex(string(e.Name)) + dumpAnns(e.Annotations) + " in" + sortedHexList(e.ParentTypes) + " shape" + dumpRRecord(e.Shape) + " tags")
		if e.Tags == nil {
			sb.WriteByte('-')
		} else {
			sb.WriteString(dumpRType(e.Tags))
		}
	}
	sb.WriteString("] enums[")
	for i, k := range sortedKeysOf(s.Enums) {
		if i > 0 {
			sb.WriteByte(';')
		}
		e := s.Enums[k]
		vs := make([]string, len(e.Values))
		for j, v := range e.Values {
			vs[j] = Hex(string(v.Type)) + ":" + Hex(string(v.ID))
		}
		sb.WriteString(Hex(string(k)) + "/" + Hex(string(e.Name)) + dumpAnns(e.Annotations) + " [" + strings.Join(vs, ",") + "]")
	}
	sb.WriteString("] acts[")
	uids := make([]types.EntityUID, 0, len(s.Actions))
	for u := range s.Actions {
		uids = append(uids, u)
	}
	sort.Slice(uids, func(i, j int) bool {
		if uids[i].Type != uids[j].Type {
			return uids[i].Type < uids[j].Type
		}
		return uids[i].ID < uids[j].ID
	})
	for i, u := range uids {
		if i > 0 {
			sb.WriteByte(';')
		}
		a := s.Actions[u]
		var ps []string
		for p := range a.Entity.Parents.All() {
			ps = append(ps, Hex(string(p.Type))+":"+Hex(string(p.ID)))
		}
		sort.Strings(ps)
		sb.WriteString(Hex(string(u.Type)) + ":" + Hex(string(u.ID)) + "/" + Hex(string(a.Entity.UID.Type)) + ":" + Hex(string(a.Entity.UID.ID)) + dumpAnns(a.Annotations) + " in[" + strings.Join(ps, ",") + "] applies")
		if a.AppliesTo == nil {
			sb.WriteByte('-')
		} else {
			sb.WriteString("{p" + sortedHexList(a.AppliesTo.Principals) + " r" + sortedHexList(a.AppliesTo.Resources) + " c" + dumpRRecord(a.AppliesTo.Context) + "}")
		}
	}
	sb.WriteString("]")
	return sb.String()
}

// SortDedupStrings returns the sorted, duplicate-free list.
func SortDedupStrings(xs []string) []string { return sortDedup(xs) }

// ---- canonical dump of a schema AST (same format as the Lean driver's showSchemaAst) ----

func dumpAstAnns(a sast.Annotations) string { return dumpAnns(resolved.Annotations(a)) }

func showTyAst(t sast.IsType) string {
	switch t := t.(type) {
	case sast.StringType:
		return "S"
	case sast.LongType:
		return "L"
	case sast.BoolType:
		return "B"
	case sast.ExtensionType:
		return "X(" + Hex(string(t)) + ")"
	case sast.SetType:
		return "Set(" + showTyAst(t.Element) + ")"
	case sast.RecordType:
		return showAttrsAst(t)
	case sast.EntityTypeRef:
		return "E(" + Hex(string(t)) + ")"
	case sast.TypeRef:
		return "T(" + Hex(string(t)) + ")"
	}
	return "?"
}

func showAttrsAst(r sast.RecordType) string {
	var parts []string
	for _, k := range sortedKeysOf(r) {
		a := r[k]
		s := Hex(string(k))
		if a.Optional {
			s += "?"
		}
		parts = append(parts, s+dumpAstAnns(a.Annotations)+":"+showTyAst(a.Type))
	}
	return "{" + strings.Join(parts, ",") + "}"
}

func hexJoin[T ~string](xs []T) string {
	ss := make([]string, len(xs))
	for i, x := range xs {
		ss[i] = Hex(string(x))
	}
	return strings.Join(ss, ",")
}

func showNamespaceAst(ents sast.Entities, enums sast.Enums, acts sast.Actions, cts sast.CommonTypes) string {
	var es, ns, as, cs []string
	for _, k := range sortedKeysOf(ents) {
		e := ents[k]
		shape, tags := "-", "-"
		if e.Shape != nil {
			shape = showAttrsAst(e.Shape)
		}
		if e.Tags != nil {
			tags = showTyAst(e.Tags)
		}
		es = append(es, Hex(string(k))+dumpAstAnns(e.Annotations)+" in["+hexJoin(e.ParentTypes)+"] shape"+shape+" tags"+tags)
	}
	for _, k := range sortedKeysOf(enums) {
		e := enums[k]
		ns = append(ns, Hex(string(k))+dumpAstAnns(e.Annotations)+" ["+hexJoin(e.Values)+"]")
	}
	for _, k := range sortedKeysOf(acts) {
		a := acts[k]
		var ps []string
		for _, p := range a.Parents {
			ps = append(ps, Hex(string(p.Type))+":"+Hex(string(p.ID)))
		}
		ap := "-"
		if a.AppliesTo != nil {
			ctx := "-"
			if a.AppliesTo.Context != nil {
				ctx = showTyAst(a.AppliesTo.Context)
			}
			ap = "{p[" + hexJoin(a.AppliesTo.Principals) + "] r[" + hexJoin(a.AppliesTo.Resources) + "] c" + ctx + "}"
		}
		as = append(as, Hex(string(k))+dumpAstAnns(a.Annotations)+" in["+strings.Join(ps, ",")+"] applies"+ap)
	}
	for _, k := range sortedKeysOf(cts) {
		c := cts[k]
		cs = append(cs, Hex(string(k))+dumpAstAnns(c.Annotations)+"="+showTyAst(c.Type))
	}
	return "E[" + strings.Join(es, ";") + "] N[" + strings.Join(ns, ";") + "] A[" + strings.Join(as, ";") + "] C[" + strings.Join(cs, ";") + "]"
}

// ShowSchemaAST renders a schema AST canonically (maps key-sorted, nil and empty annotation maps identified).
func ShowSchemaAST(s *sast.Schema) string {
	var nss []string
	for _, k := range sortedKeysOf(s.Namespaces) {
		d := s.Namespaces[k]
		nss = append(nss, Hex(string(k))+dumpAstAnns(d.Annotations)+" "+showNamespaceAst(d.Entities, d.Enums, d.Actions, d.CommonTypes))
	}
	return showNamespaceAst(s.Entities, s.Enums, s.Actions, s.CommonTypes) + " NS[" + strings.Join(nss, ";") + "]"
}
