package vh

import (
	"fmt"
	"iter"
	"sort"
	"strings"

	cedar "github.com/cedar-policy/cedar-go"
	publicast "github.com/cedar-policy/cedar-go/ast"
	"github.com/cedar-policy/cedar-go/types"
	"github.com/cedar-policy/cedar-go/x/exp/ast"
	"github.com/cedar-policy/cedar-go/x/exp/eval"
)

// IDPolicy is one (id, policy) pair of a policy sequence.
type IDPolicy struct {
	ID  cedar.PolicyID
	AST *ast.Policy
	P   *cedar.Policy
}

func MkPolicy(id string, p *ast.Policy) IDPolicy {
	return IDPolicy{ID: cedar.PolicyID(id), AST: p, P: cedar.NewPolicyFromAST((*publicast.Policy)(p))}
}

// SliceIter is a PolicyIterator that is not a PolicySet: yields a fixed sequence (duplicate ids allowed).
type SliceIter []IDPolicy

func (s SliceIter) All() iter.Seq2[cedar.PolicyID, *cedar.Policy] {
	return func(yield func(cedar.PolicyID, *cedar.Policy) bool) {
		for _, ip := range s {
			if !yield(ip.ID, ip.P) {
				return
			}
		}
	}
}

func EncPolicies(ps []IDPolicy) any {
	out := []any{}
	for _, ip := range ps {
		out = append(out, []any{Hex(string(ip.ID)), EncPolicy(ip.AST)})
	}
	return out
}

// ShowAuthz renders decision + sorted reason ids + sorted error ids (with positions), as the driver does.
func ShowAuthz(d cedar.Decision, diag cedar.Diagnostic) string {
	var rs, es []string
	for _, r := range diag.Reasons {
		rs = append(rs, Hex(string(r.PolicyID))+"@"+ShowPos(r.Position.Filename, r.Position.Offset, r.Position.Line, r.Position.Column))
	}
	for _, e := range diag.Errors {
		es = append(es, Hex(string(e.PolicyID))+"@"+ShowPos(e.Position.Filename, e.Position.Offset, e.Position.Line, e.Position.Column))
	}
	rs, es = sortDedup(rs), sortDedup(es)
	s := "deny"
	if d == cedar.Allow {
		s = "allow"
	}
	return s + " reasons=[" + strings.Join(rs, ",") + "] errors=[" + strings.Join(es, ",") + "]"
}

func sortDedup(xs []string) []string {
	sort.Strings(xs)
	out := xs[:0]
	for i, x := range xs {
		if i == 0 || x != xs[i-1] {
			out = append(out, x)
		}
	}
	return out
}

// Request builds a cedar.Request from an env whose parts are entity UIDs / a record; ok=false otherwise.
func RequestOf(env eval.Env) (cedar.Request, bool) {
	p, ok1 := env.Principal.(types.EntityUID)
	a, ok2 := env.Action.(types.EntityUID)
	r, ok3 := env.Resource.(types.EntityUID)
	c, ok4 := env.Context.(types.Record)
	return cedar.Request{Principal: p, Action: a, Resource: r, Context: c}, ok1 && ok2 && ok3 && ok4
}

// PolicyClass evaluates one policy alone, unfolded: "sat", "unsat" or "err".
func PolicyClass(p *ast.Policy, env eval.Env) (cls string) {
	defer func() {
		if r := recover(); r != nil {
			cls = fmt.Sprintf("panic:%v", r)
		}
	}()
	v, err := eval.Eval(eval.PolicyToNode(p).AsIsNode(), env)
	if err != nil {
		return "err"
	}
	b, ok := v.(types.Boolean)
	if !ok {
		return "err"
	}
	if b {
		return "sat"
	}
	return "unsat"
}

// SpecAuthz computes the four sentences of C02 from per-policy classes (the direct oracle).
func SpecAuthz(ps []IDPolicy, env eval.Env) string {
	var forbids, permits, errs []string
	for _, ip := range ps {
		pos := ShowPos(ip.AST.Position.Filename, ip.AST.Position.Offset, ip.AST.Position.Line, ip.AST.Position.Column)
		tag := Hex(string(ip.ID)) + "@" + pos
		switch PolicyClass(ip.AST, env) {
		case "sat":
			if ip.AST.Effect == ast.EffectForbid {
				forbids = append(forbids, tag)
			} else {
				permits = append(permits, tag)
			}
		case "unsat":
		default:
			errs = append(errs, tag)
		}
	}
	forbids, permits, errs = sortDedup(forbids), sortDedup(permits), sortDedup(errs)
	d, rs := "deny", []string{}
	if len(forbids) > 0 {
		rs = forbids
	} else if len(permits) > 0 {
		d, rs = "allow", permits
	}
	return d + " reasons=[" + strings.Join(rs, ",") + "] errors=[" + strings.Join(errs, ",") + "]"
}
