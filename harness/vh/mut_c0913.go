package vh

// Near-miss documents for C09 / C13: one or two local mutations of a valid generic JSON tree
// (wrong kinds, missing / extra / re-spelled keys, nulls), always serialised with sorted unique keys.

import (
	"encoding/json"
	"sort"
	"strings"
)

type TreeMutator struct {
	G      *Gen
	Keys   []string // keys to add
	Values []any    // values for added keys / replacements
	done   bool
}

func cloneTree(v any) any {
	switch t := v.(type) {
	case map[string]any:
		m := make(map[string]any, len(t))
		for k, x := range t {
			m[k] = cloneTree(x)
		}
		return m
	case []any:
		a := make([]any, len(t))
		for i, x := range t {
			a[i] = cloneTree(x)
		}
		return a
	}
	return v
}

func sortedKeysOfC0913(m map[string]any) []string {
	ks := make([]string, 0, len(m))
	for k := range m {
		ks = append(ks, k)
	}
	sort.Strings(ks)
	return ks
}

var scalarReplacements = []any{nil, true, false, json.Number("5"), json.Number("-1"), json.Number("1.5"), "x", "", "Wildcard", "principal", []any{}, map[string]any{}}

func (m *TreeMutator) randomValue() any {
	if len(m.Values) > 0 && m.G.chance(0.6) {
		return cloneTree(m.Values[m.G.pick(len(m.Values))])
	}
	return cloneTree(scalarReplacements[m.G.pick(len(scalarReplacements))])
}

func caseVariant(g *Gen, k string) string {
	switch g.pick(4) {
	case 0:
		return strings.ToUpper(k)
	case 1:
		return strings.ToLower(k)
	case 2:
		if len(k) > 0 {
			return strings.ToUpper(k[:1]) + k[1:]
		}
		return k
	default: // the two non-ASCII runes that fold onto ASCII letters
		r := strings.NewReplacer("s", "ſ", "S", "ſ", "k", "K", "K", "K")
		return r.Replace(k)
	}
}

func (m *TreeMutator) here(v any) any {
	g := m.G
	switch t := v.(type) {
	case map[string]any:
		ks := sortedKeysOfC0913(t)
		switch g.pick(7) {
		case 0:
			if len(ks) > 0 { // delete a key
				delete(t, ks[g.pick(len(ks))])
				return t
			}
		case 1, 2: // add a key
			t[m.Keys[g.pick(len(m.Keys))]] = m.randomValue()
			return t
		case 3:
			if len(ks) > 0 { // re-spell a key
				k := ks[g.pick(len(ks))]
				nk := caseVariant(g, k)
				x := t[k]
				delete(t, k)
				t[nk] = x
				return t
			}
		case 4:
			if len(ks) > 0 { // null / wrong kind for a member
				t[ks[g.pick(len(ks))]] = m.randomValue()
				return t
			}
		case 5:
			if len(ks) > 0 { // move a member under another name
				k := ks[g.pick(len(ks))]
				x := t[k]
				delete(t, k)
				t[m.Keys[g.pick(len(m.Keys))]] = x
				return t
			}
		}
		return m.randomValue()
	case []any:
		switch g.pick(5) {
		case 0:
			if len(t) > 0 {
				i := g.pick(len(t))
				return append(append([]any{}, t[:i]...), t[i+1:]...)
			}
		case 1:
			return append(t, m.randomValue())
		case 2:
			if len(t) > 0 {
				t[g.pick(len(t))] = m.randomValue()
				return t
			}
		case 3:
			return []any{}
		}
		return m.randomValue()
	default:
		if g.chance(0.3) {
			return []any{v}
		}
		return m.randomValue()
	}
}

func (m *TreeMutator) walk(v any) any {
	if m.done {
		return v
	}
	g := m.G
	switch t := v.(type) {
	case map[string]any:
		if len(t) == 0 || g.chance(0.3) {
			m.done = true
			return m.here(v)
		}
		ks := sortedKeysOfC0913(t)
		k := ks[g.pick(len(ks))]
		t[k] = m.walk(t[k])
		return t
	case []any:
		if len(t) == 0 || g.chance(0.3) {
			m.done = true
			return m.here(v)
		}
		i := g.pick(len(t))
		t[i] = m.walk(t[i])
		return t
	}
	m.done = true
	return m.here(v)
}

// Mutate returns a mutated deep copy of tree (1 or 2 mutations).
func (m *TreeMutator) Mutate(tree any) any {
	out := cloneTree(tree)
	n := 1 + m.G.pick(2)
	for i := 0; i < n; i++ {
		m.done = false
		out = m.walk(out)
	}
	return out
}
