package vh

// Shared by the C07 and C08 oracles: the "expressible in Cedar syntax" filter and the narrow
// classification of failures by REPAIR: a failure is attributed to a known defect only if the policy
// contains that defect's trigger AND the failure disappears once exactly that trigger is rewritten away.
// Anything that still fails after all known triggers are removed is an unexplained VIOLATION.

import (
	"strconv"
	"strings"
	"unicode/utf8"

	"github.com/cedar-policy/cedar-go/types"
	"github.com/cedar-policy/cedar-go/x/exp/ast"
	"github.com/cedar-policy/cedar-go/x/exp/verifhooks"
)

// WalkNode calls f on every node of the tree (pre-order).
func WalkNode(n ast.IsNode, f func(ast.IsNode)) {
	MapNode(n, func(x ast.IsNode) ast.IsNode { f(x); return x })
}

func walkValue(v types.Value, f func(types.Value)) {
	f(v)
	switch t := v.(type) {
	case types.Set:
		for m := range t.All() {
			walkValue(m, f)
		}
	case types.Record:
		for _, m := range t.All() {
			walkValue(m, f)
		}
	}
}

func validEntityType(t types.EntityType) bool { return IsPathC0708(string(t)) }

const ReasonMethodWithoutReceiver = "method-call-without-receiver"

// ExpressibleC0708 reports whether the policy can be spelled in Cedar syntax at all ("" = yes): the
// remaining trees are programmatic garbage the grammar has no notation for (outside both properties).
func ExpressibleC0708(p *ast.Policy) string {
	reason := ""
	bad := func(s string) {
		if reason == "" {
			reason = s
		}
	}
	str := func(s string) {
		if !utf8.ValidString(s) {
			bad("invalid-utf8")
		}
	}
	uid := func(u types.EntityUID) {
		if !validEntityType(u.Type) {
			bad("entity-type-not-a-path")
		}
		str(string(u.ID))
	}
	seen := map[types.Ident]bool{}
	for _, a := range p.Annotations {
		if !(IsIdentC0708(string(a.Key)) || verifhooks.C0708IsReservedKeyword(string(a.Key))) {
			bad("annotation-key-not-ident")
		}
		if seen[a.Key] {
			bad("duplicate-annotation")
		}
		seen[a.Key] = true
		str(string(a.Value))
	}
	for _, s := range []ast.IsScopeNode{p.Principal, p.Action, p.Resource} {
		switch t := s.(type) {
		case ast.ScopeTypeEq:
			uid(t.Entity)
		case ast.ScopeTypeIn:
			uid(t.Entity)
		case ast.ScopeTypeInSet:
			for _, e := range t.Entities {
				uid(e)
			}
		case ast.ScopeTypeIs:
			if !validEntityType(t.Type) {
				bad("entity-type-not-a-path")
			}
		case ast.ScopeTypeIsIn:
			if !validEntityType(t.Type) {
				bad("entity-type-not-a-path")
			}
			uid(t.Entity)
		case nil:
			bad("nil-scope")
		}
	}
	for _, c := range p.Conditions {
		WalkNode(c.Body, func(n ast.IsNode) {
			switch v := n.(type) {
			case ast.NodeValue:
				if v.Value == nil {
					bad("nil-value")
					return
				}
				walkValue(v.Value, func(x types.Value) {
					switch t := x.(type) {
					case types.EntityUID:
						uid(t)
					case types.String:
						str(string(t))
					case types.Record:
						for k := range t.Keys() {
							str(string(k))
						}
					}
				})
			case ast.NodeTypeVariable:
				if v.Name != "principal" && v.Name != "action" && v.Name != "resource" && v.Name != "context" {
					bad("unknown-variable")
				}
			case ast.NodeTypeAccess:
				str(string(v.Value))
			case ast.NodeTypeHas:
				str(string(v.Value))
			case ast.NodeTypeLike:
				if len(types.VerifPatternComps(v.Value)) == 0 {
					bad("pattern-without-components") // types.NewPattern(): the parser always yields >= 1 component
				}
				for _, pc := range types.VerifPatternComps(v.Value) {
					str(pc.Literal)
				}
			case ast.NodeTypeIs:
				if !validEntityType(v.EntityType) {
					bad("entity-type-not-a-path")
				}
			case ast.NodeTypeIsIn:
				if !validEntityType(v.EntityType) {
					bad("entity-type-not-a-path")
				}
			case ast.NodeTypeRecord:
				ks := map[types.String]bool{}
				for _, e := range v.Elements {
					str(string(e.Key))
					if ks[e.Key] {
						bad("duplicate-record-key")
					}
					ks[e.Key] = true
				}
			case ast.NodeTypeExtensionCall:
				if !IsMethodC0708(string(v.Name)) && !IsFunctionC0708(string(v.Name)) {
					bad("unknown-extension-function")
				}
				if IsMethodC0708(string(v.Name)) && len(v.Args) == 0 {
					// ast.ExtensionCall("isIpv4"): the grammar has no notation for a method call without receiver
					// (MarshalCedar writes `isIpv4()`, which is not Cedar); the JSON decoder refuses it too
					bad(ReasonMethodWithoutReceiver)
				}
			case nil:
				bad("nil-node")
			}
		})
	}
	return reason
}

// Cause is one known defect: its trigger can be rewritten away by Repair (changed = trigger was present).
type Cause struct {
	Name   string
	Repair func(*ast.Policy) (q *ast.Policy, changed bool)
}

func ctxVar() ast.IsNode { return ast.NodeTypeVariable{Name: "context"} }

// chainRoot: the innermost receiver of a chain of postfix (member-level) nodes.
func chainRoot(n ast.IsNode) (root ast.IsNode, depth int) {
	for {
		r, ok := Receiver(n)
		if !ok {
			return n, depth
		}
		n = r
		depth++
	}
}

func replaceChainRoot(n ast.IsNode, root ast.IsNode) ast.IsNode {
	r, ok := Receiver(n)
	if !ok {
		return root
	}
	return WithReceiver(n, replaceChainRoot(r, root))
}

func isLongLit(n ast.IsNode, neg bool) bool {
	v, ok := n.(ast.NodeValue)
	if !ok {
		return false
	}
	l, ok := v.Value.(types.Long)
	return ok && (l < 0) == neg
}

// CauseNegativeReceiver: a NEGATIVE long literal is the receiver of a postfix form (`.attr`, `["attr"]`,
// method call, contains…, isEmpty, getTag/hasTag): MarshalCedar writes `-5.foo`.
var CauseNegativeReceiver = Cause{Name: "negative-literal-receiver", Repair: func(p *ast.Policy) (*ast.Policy, bool) {
	changed := false
	q := MapPolicy(p, func(n ast.IsNode) ast.IsNode {
		if r, ok := Receiver(n); ok {
			// a negative literal, or `-`(POSITIVE literal), which is read back as a negative literal
			// (`-`(0) is read back as the literal 0: that is CauseNegatedLiteralRerendered, not this defect)
			ng, isNeg := r.(ast.NodeTypeNegate)
			if isLongLit(r, true) || (isNeg && isLongLit(ng.Arg, false) && ng.Arg.(ast.NodeValue).Value.(types.Long) != 0) {
				changed = true
				return WithReceiver(n, ctxVar())
			}
		}
		return n
	})
	return q, changed
}}

// CauseNegatedIntReceiver: `-` applied to a postfix chain whose innermost receiver is a non-negative
// integer literal (text `-5.foo`, grammatical: Unary ::= '-' Member): the parser's negative-literal
// special case swallows `-5` and then cannot continue with `.foo`.
var CauseNegatedIntReceiver = Cause{Name: "negated-int-receiver", Repair: func(p *ast.Policy) (*ast.Policy, bool) {
	changed := false
	q := MapPolicy(p, func(n ast.IsNode) ast.IsNode {
		if ng, ok := n.(ast.NodeTypeNegate); ok {
			root, depth := chainRoot(ng.Arg)
			if depth > 0 && isLongLit(root, false) {
				changed = true
				return ast.NodeTypeNegate{UnaryNode: ast.UnaryNode{Arg: replaceChainRoot(ng.Arg, ctxVar())}}
			}
		}
		return n
	})
	return q, changed
}}

// GoQuoteDiffers: strconv.Quote(k) is not the Cedar string literal the Cedar printer writes for k
// (types.String.MarshalCedar = rust.EscapeString): either the Go spelling is rejected by the Cedar
// scanner / rust.Unquote (`\a`, `\u0080`, `\U0010ffff`), or it parses but is re-rendered differently
// (`\x00` vs `\0`, raw U+0301 vs `\u{301}`).
func GoQuoteDiffers(k string) bool {
	return strconv.Quote(k) != string(types.String(k).MarshalCedar())
}

func mapValue(v types.Value, f func(types.Value) types.Value) types.Value {
	switch t := v.(type) {
	case types.Set:
		var ms []types.Value
		for m := range t.All() {
			ms = append(ms, mapValue(m, f))
		}
		if ms == nil {
			return f(types.NewSet())
		}
		return f(types.NewSet(ms...))
	case types.Record:
		m := types.RecordMap{}
		for k, x := range t.All() {
			m[k] = mapValue(x, f)
		}
		return f(types.NewRecord(m))
	}
	return f(v)
}

// CauseRecordKeyQuoting: a record VALUE (NodeValue holding types.Record, possibly nested) has a key that
// Go's strconv.Quote spells differently from a Cedar string literal.
var CauseRecordKeyQuoting = Cause{Name: "record-key-quoting", Repair: func(p *ast.Policy) (*ast.Policy, bool) {
	changed := false
	q := MapPolicy(p, func(n ast.IsNode) ast.IsNode {
		nv, ok := n.(ast.NodeValue)
		if !ok || nv.Value == nil {
			return n
		}
		v := mapValue(nv.Value, func(x types.Value) types.Value {
			r, ok := x.(types.Record)
			if !ok {
				return x
			}
			m := types.RecordMap{}
			i := 0
			ch := false
			for _, k := range SortedKeys(r) {
				val, _ := r.Get(k)
				if GoQuoteDiffers(string(k)) {
					ch = true
					keep := "" // a U+FFFD in the key is a different cause (replacement-char-rejected): keep it
					if strings.Contains(string(k), fffd) {
						keep = fffd
					}
					for {
						nk := types.String("k" + strconv.Itoa(i) + keep)
						i++
						if _, exists := r.Get(nk); !exists {
							k = nk
							break
						}
					}
				}
				m[k] = val
			}
			if !ch {
				return x
			}
			changed = true
			return types.NewRecord(m)
		})
		return ast.NodeValue{Value: v}
	})
	return q, changed
}}

const fffd = "�"

func noFFFD(s string, changed *bool) string {
	if strings.Contains(s, fffd) {
		*changed = true
		return strings.ReplaceAll(s, fffd, "X")
	}
	return s
}

// CauseReplacementChar: some string (literal, attribute name in string form, record key, entity id,
// pattern literal, annotation value) contains a validly encoded U+FFFD: rust.Unquote's nextRune rejects it.
var CauseReplacementChar = Cause{Name: "replacement-char-rejected", Repair: func(p *ast.Policy) (*ast.Policy, bool) {
	changed := false
	fixUID := func(u types.EntityUID) types.EntityUID {
		return types.NewEntityUID(u.Type, types.String(noFFFD(string(u.ID), &changed)))
	}
	q := MapPolicy(p, func(n ast.IsNode) ast.IsNode {
		switch v := n.(type) {
		case ast.NodeValue:
			if v.Value == nil {
				return n
			}
			return ast.NodeValue{Value: mapValue(v.Value, func(x types.Value) types.Value {
				switch t := x.(type) {
				case types.String:
					return types.String(noFFFD(string(t), &changed))
				case types.EntityUID:
					return fixUID(t)
				case types.Record:
					m := types.RecordMap{}
					for k, val := range t.All() {
						m[types.String(noFFFD(string(k), &changed))] = val
					}
					return types.NewRecord(m)
				}
				return x
			})}
		case ast.NodeTypeAccess:
			return ast.NodeTypeAccess{StrOpNode: ast.StrOpNode{Arg: v.Arg, Value: types.String(noFFFD(string(v.Value), &changed))}}
		case ast.NodeTypeHas:
			return ast.NodeTypeHas{StrOpNode: ast.StrOpNode{Arg: v.Arg, Value: types.String(noFFFD(string(v.Value), &changed))}}
		case ast.NodeTypeLike:
			var comps []any
			for _, pc := range types.VerifPatternComps(v.Value) {
				if pc.Wildcard {
					comps = append(comps, types.Wildcard{})
				}
				comps = append(comps, types.String(noFFFD(pc.Literal, &changed)))
			}
			if !changed {
				return n
			}
			return ast.NodeTypeLike{Arg: v.Arg, Value: types.NewPattern(comps...)}
		case ast.NodeTypeRecord:
			es := make([]ast.RecordElementNode, 0, len(v.Elements))
			ks := map[types.String]bool{}
			for _, e := range v.Elements {
				k := types.String(noFFFD(string(e.Key), &changed))
				for ks[k] {
					k += "_"
				}
				ks[k] = true
				es = append(es, ast.RecordElementNode{Key: k, Value: e.Value})
			}
			if v.Elements == nil {
				es = nil
			}
			return ast.NodeTypeRecord{Elements: es}
		}
		return n
	})
	q.Annotations = nil
	for _, a := range p.Annotations {
		q.Annotations = append(q.Annotations, ast.AnnotationType{Key: a.Key, Value: types.String(noFFFD(string(a.Value), &changed))})
	}
	fixScope := func(s ast.IsScopeNode) ast.IsScopeNode {
		switch t := s.(type) {
		case ast.ScopeTypeEq:
			return ast.ScopeTypeEq{Entity: fixUID(t.Entity)}
		case ast.ScopeTypeIn:
			return ast.ScopeTypeIn{Entity: fixUID(t.Entity)}
		case ast.ScopeTypeInSet:
			es := make([]types.EntityUID, len(t.Entities))
			for i, e := range t.Entities {
				es[i] = fixUID(e)
			}
			return ast.ScopeTypeInSet{Entities: es}
		case ast.ScopeTypeIsIn:
			return ast.ScopeTypeIsIn{Type: t.Type, Entity: fixUID(t.Entity)}
		}
		return s
	}
	q.Principal = fixScope(p.Principal).(ast.IsPrincipalScopeNode)
	q.Action = fixScope(p.Action).(ast.IsActionScopeNode)
	q.Resource = fixScope(p.Resource).(ast.IsResourceScopeNode)
	return q, changed
}}

// CauseMethodWithoutReceiver: a method-style extension call with an empty argument list (constructible with
// ast.ExtensionCall only; the JSON decoder refuses it): MarshalCedar used to index Args[0] and panic.  Such a tree
// is outside the grammar (ExpressibleC0708); c08.go still replays MarshalCedar on it and reports this class on a panic.
var CauseMethodWithoutReceiver = Cause{Name: "method-call-without-receiver-panics", Repair: func(p *ast.Policy) (*ast.Policy, bool) {
	changed := false
	q := MapPolicy(p, func(n ast.IsNode) ast.IsNode {
		if c, ok := n.(ast.NodeTypeExtensionCall); ok && IsMethodC0708(string(c.Name)) && len(c.Args) == 0 {
			changed = true
			return ast.NodeTypeExtensionCall{Name: c.Name, Args: []ast.IsNode{ctxVar()}}
		}
		return n
	})
	return q, changed
}}

// ClassifyByRepair: p fails `passes`.  Known triggers are removed one cause at a time (cumulatively, in
// order); the class is the cause whose removal makes the policy pass.  ("", false) = still failing
// with every known trigger removed, or no trigger present: unexplained.
func ClassifyByRepair(p *ast.Policy, causes []Cause, passes func(*ast.Policy) bool) (class string, explained bool) {
	cur := p
	for _, c := range causes {
		q, changed := c.Repair(cur)
		if ClassifyTrace != nil {
			ClassifyTrace(c.Name, changed, q)
		}
		if !changed {
			continue
		}
		cur = q
		if passes(cur) {
			return c.Name, true
		}
	}
	return "", false
}

// ClassifyTrace, when set, observes every repair step (debugging aid).
var ClassifyTrace func(cause string, changed bool, q *ast.Policy)

func isExtValue(v types.Value) bool {
	switch v.(type) {
	case types.Decimal, types.IPAddr, types.Datetime, types.Duration:
		return true
	}
	return false
}

// ExtValueReparses: the constructor string that MarshalCedar writes for an extension value parses back to
// an equal value.
func ExtValueReparses(v types.Value) bool {
	switch t := v.(type) {
	case types.Decimal:
		w, err := types.ParseDecimal(t.String())
		return err == nil && w.Equal(t)
	case types.IPAddr:
		w, err := types.ParseIPAddr(t.String())
		return err == nil && w.Equal(t)
	case types.Datetime:
		w, err := types.ParseDatetime(t.String())
		return err == nil && w.Equal(t)
	case types.Duration:
		w, err := types.ParseDuration(t.String())
		return err == nil && w.Equal(t)
	}
	return true
}

// CauseExtValueNoTextForm: a NodeValue holds (possibly nested) an extension value whose printed constructor
// argument is rejected by (or changes under) the constructor, e.g. a datetime outside years 0000–9999 or
// the minimal duration: the reparsed policy fails with an extension error instead of yielding the value.
var CauseExtValueNoTextForm = Cause{Name: "extension-value-without-text-form", Repair: func(p *ast.Policy) (*ast.Policy, bool) {
	changed := false
	q := MapPolicy(p, func(n ast.IsNode) ast.IsNode {
		nv, ok := n.(ast.NodeValue)
		if !ok || nv.Value == nil {
			return n
		}
		return ast.NodeValue{Value: mapValue(nv.Value, func(x types.Value) types.Value {
			if isExtValue(x) && !ExtValueReparses(x) {
				changed = true
				switch x.(type) {
				case types.Datetime:
					return types.NewDatetimeFromMillis(0)
				case types.Duration:
					return types.NewDurationFromMillis(0)
				case types.Decimal:
					return types.VerifDecimalFromRaw(0)
				default:
					ip, _ := types.ParseIPAddr("127.0.0.1")
					return ip
				}
			}
			return x
		})}
	})
	return q, changed
}}

// CauseValueExtensionMemberParens: an extension VALUE (decimal/ip/datetime/duration held in a NodeValue)
// is a member of a set or record — of a set/record VALUE, or directly an element of a Set/Record NODE.
// It is written `[ip("…")]` (a NodeValue has primary precedence); the reparsed tree holds an
// extension CALL node (access precedence), which the Set/Record node printer parenthesises:
// `[(ip("…"))]`.  The second rendering is not byte-identical (the third equals the second).
var CauseValueExtensionMemberParens = Cause{Name: "extension-value-in-set-or-record-rerendered-with-parens", Repair: func(p *ast.Policy) (*ast.Policy, bool) {
	changed := false
	strOf := func(n ast.IsNode) ast.IsNode {
		if nv, ok := n.(ast.NodeValue); ok && nv.Value != nil && isExtValue(nv.Value) {
			changed = true
			return ast.NodeValue{Value: types.String(string(nv.Value.MarshalCedar()))}
		}
		return n
	}
	q := MapPolicy(p, func(n ast.IsNode) ast.IsNode {
		switch v := n.(type) {
		case ast.NodeTypeSet:
			es := make([]ast.IsNode, len(v.Elements))
			for i, e := range v.Elements {
				es[i] = strOf(e)
			}
			if v.Elements == nil {
				es = nil
			}
			return ast.NodeTypeSet{Elements: es}
		case ast.NodeTypeRecord:
			es := make([]ast.RecordElementNode, len(v.Elements))
			for i, e := range v.Elements {
				es[i] = ast.RecordElementNode{Key: e.Key, Value: strOf(e.Value)}
			}
			if v.Elements == nil {
				es = nil
			}
			return ast.NodeTypeRecord{Elements: es}
		}
		nv, ok := n.(ast.NodeValue)
		if !ok || nv.Value == nil {
			return n
		}
		switch nv.Value.(type) {
		case types.Set, types.Record:
		default:
			return n
		}
		return ast.NodeValue{Value: mapValue(nv.Value, func(x types.Value) types.Value {
			if isExtValue(x) {
				changed = true
				return types.String(string(x.MarshalCedar()))
			}
			return x
		})}
	})
	return q, changed
}}

func negOfNonNegLit(n ast.IsNode) (int64, bool) {
	ng, ok := n.(ast.NodeTypeNegate)
	if !ok || !isLongLit(ng.Arg, false) {
		return 0, false
	}
	return int64(ng.Arg.(ast.NodeValue).Value.(types.Long)), true
}

// CauseNegatedLiteralRerendered: `-`(non-negative literal) is written `-5` and read back as the literal -5
// (same meaning).  Where the printer parenthesises a Negate node but not a literal — set elements, record
// values, call arguments — the first rendering is `[(-5)]` and the second `[-5]`; and `-`(0) is written
// `-0`, read back as 0 and written `0`.  Byte-instability only.
var CauseNegatedLiteralRerendered = Cause{Name: "negated-literal-rerendered-differently", Repair: func(p *ast.Policy) (*ast.Policy, bool) {
	changed := false
	norm := func(n ast.IsNode) ast.IsNode {
		if v, ok := negOfNonNegLit(n); ok {
			changed = true
			return ast.NodeValue{Value: types.Long(-v)}
		}
		return n
	}
	q := MapPolicy(p, func(n ast.IsNode) ast.IsNode {
		if v, ok := negOfNonNegLit(n); ok && v == 0 {
			changed = true
			return ast.NodeValue{Value: types.Long(0)}
		}
		bin := func(b ast.BinaryNode) ast.BinaryNode { return ast.BinaryNode{Left: b.Left, Right: norm(b.Right)} }
		switch v := n.(type) {
		case ast.NodeTypeSet:
			es := make([]ast.IsNode, len(v.Elements))
			for i, e := range v.Elements {
				es[i] = norm(e)
			}
			if v.Elements == nil {
				es = nil
			}
			return ast.NodeTypeSet{Elements: es}
		case ast.NodeTypeRecord:
			es := make([]ast.RecordElementNode, len(v.Elements))
			for i, e := range v.Elements {
				es[i] = ast.RecordElementNode{Key: e.Key, Value: norm(e.Value)}
			}
			if v.Elements == nil {
				es = nil
			}
			return ast.NodeTypeRecord{Elements: es}
		case ast.NodeTypeExtensionCall:
			es := make([]ast.IsNode, len(v.Args))
			for i, e := range v.Args {
				if i == 0 && IsMethodC0708(string(v.Name)) {
					es[i] = e // the receiver: CauseNegativeReceiver
				} else {
					es[i] = norm(e)
				}
			}
			if v.Args == nil {
				es = nil
			}
			return ast.NodeTypeExtensionCall{Name: v.Name, Args: es}
		case ast.NodeTypeContains:
			return ast.NodeTypeContains{BinaryNode: bin(v.BinaryNode)}
		case ast.NodeTypeContainsAll:
			return ast.NodeTypeContainsAll{BinaryNode: bin(v.BinaryNode)}
		case ast.NodeTypeContainsAny:
			return ast.NodeTypeContainsAny{BinaryNode: bin(v.BinaryNode)}
		case ast.NodeTypeGetTag:
			return ast.NodeTypeGetTag{BinaryNode: bin(v.BinaryNode)}
		case ast.NodeTypeHasTag:
			return ast.NodeTypeHasTag{BinaryNode: bin(v.BinaryNode)}
		}
		return n
	})
	return q, changed
}}
