package vh

// Canonical renderings for C07/C08 shared with lean/CedarGo/Driver/Ops/C07.lean (showExprC07 / showPolicyC07).

import (
	"fmt"
	"strings"

	"github.com/cedar-policy/cedar-go/types"
	"github.com/cedar-policy/cedar-go/x/exp/ast"
	"github.com/cedar-policy/cedar-go/x/exp/verifhooks"
)

func ShowPatternC07(p types.Pattern) string {
	var cs []string
	for _, c := range types.VerifPatternComps(p) {
		s := ""
		if c.Wildcard {
			s = "*"
		}
		cs = append(cs, s+Hex(c.Literal))
	}
	return "[" + strings.Join(cs, ",") + "]"
}

// ShowExprC07 prints an AST node exactly as the driver's showExprC07 prints the model's Expr.
func ShowExprC07(n ast.IsNode) string {
	bin := func(op string, b ast.BinaryNode) string {
		return "(" + op + " " + ShowExprC07(b.Left) + " " + ShowExprC07(b.Right) + ")"
	}
	un := func(op string, a ast.IsNode) string { return "(" + op + " " + ShowExprC07(a) + ")" }
	switch v := n.(type) {
	case ast.NodeValue:
		return ShowValue(v.Value)
	case ast.NodeTypeVariable:
		return "$" + string(v.Name)
	case ast.NodeTypeAnd:
		return bin("and", v.BinaryNode)
	case ast.NodeTypeOr:
		return bin("or", v.BinaryNode)
	case ast.NodeTypeEquals:
		return bin("eq", v.BinaryNode)
	case ast.NodeTypeNotEquals:
		return bin("ne", v.BinaryNode)
	case ast.NodeTypeLessThan:
		return bin("lt", v.BinaryNode)
	case ast.NodeTypeLessThanOrEqual:
		return bin("le", v.BinaryNode)
	case ast.NodeTypeGreaterThan:
		return bin("gt", v.BinaryNode)
	case ast.NodeTypeGreaterThanOrEqual:
		return bin("ge", v.BinaryNode)
	case ast.NodeTypeAdd:
		return bin("add", v.BinaryNode)
	case ast.NodeTypeSub:
		return bin("sub", v.BinaryNode)
	case ast.NodeTypeMult:
		return bin("mul", v.BinaryNode)
	case ast.NodeTypeIn:
		return bin("in", v.BinaryNode)
	case ast.NodeTypeContains:
		return bin("contains", v.BinaryNode)
	case ast.NodeTypeContainsAll:
		return bin("containsAll", v.BinaryNode)
	case ast.NodeTypeContainsAny:
		return bin("containsAny", v.BinaryNode)
	case ast.NodeTypeGetTag:
		return bin("getTag", v.BinaryNode)
	case ast.NodeTypeHasTag:
		return bin("hasTag", v.BinaryNode)
	case ast.NodeTypeNot:
		return un("not", v.Arg)
	case ast.NodeTypeNegate:
		return un("neg", v.Arg)
	case ast.NodeTypeIsEmpty:
		return un("isEmpty", v.Arg)
	case ast.NodeTypeIfThenElse:
		return "(ite " + ShowExprC07(v.If) + " " + ShowExprC07(v.Then) + " " + ShowExprC07(v.Else) + ")"
	case ast.NodeTypeAccess:
		return "(access " + ShowExprC07(v.Arg) + " " + Hex(string(v.Value)) + ")"
	case ast.NodeTypeHas:
		return "(has " + ShowExprC07(v.Arg) + " " + Hex(string(v.Value)) + ")"
	case ast.NodeTypeLike:
		return "(like " + ShowExprC07(v.Arg) + " " + ShowPatternC07(v.Value) + ")"
	case ast.NodeTypeIs:
		return "(is " + ShowExprC07(v.Left) + " " + Hex(string(v.EntityType)) + ")"
	case ast.NodeTypeIsIn:
		return "(isIn " + ShowExprC07(v.Left) + " " + Hex(string(v.EntityType)) + " " + ShowExprC07(v.Entity) + ")"
	case ast.NodeTypeSet:
		s := "(set"
		for _, e := range v.Elements {
			s += " " + ShowExprC07(e)
		}
		return s + ")"
	case ast.NodeTypeRecord:
		s := "(rec"
		for _, e := range v.Elements {
			s += " " + Hex(string(e.Key)) + "=" + ShowExprC07(e.Value)
		}
		return s + ")"
	case ast.NodeTypeExtensionCall:
		s := "(call " + Hex(string(v.Name))
		for _, e := range v.Args {
			s += " " + ShowExprC07(e)
		}
		return s + ")"
	}
	return fmt.Sprintf("<unknown node %T>", n)
}

func showUIDC07(u types.EntityUID) string { return Hex(string(u.Type)) + ":" + Hex(string(u.ID)) }

func ShowScopeC07(s ast.IsScopeNode) string {
	switch t := s.(type) {
	case ast.ScopeTypeAll:
		return "all"
	case ast.ScopeTypeEq:
		return "eq(" + showUIDC07(t.Entity) + ")"
	case ast.ScopeTypeIn:
		return "in(" + showUIDC07(t.Entity) + ")"
	case ast.ScopeTypeInSet:
		var xs []string
		for _, e := range t.Entities {
			xs = append(xs, showUIDC07(e))
		}
		return "inSet(" + strings.Join(xs, ",") + ")"
	case ast.ScopeTypeIs:
		return "is(" + Hex(string(t.Type)) + ")"
	case ast.ScopeTypeIsIn:
		return "isIn(" + Hex(string(t.Type)) + "," + showUIDC07(t.Entity) + ")"
	}
	return fmt.Sprintf("<unknown scope %T>", s)
}

// ShowPolicyC07 = driver showPolicyC07.
func ShowPolicyC07(p *ast.Policy, pos bool) string {
	var b strings.Builder
	if p.Effect == ast.EffectPermit {
		b.WriteString("permit")
	} else {
		b.WriteString("forbid")
	}
	var anns []string
	for _, a := range p.Annotations {
		anns = append(anns, Hex(string(a.Key))+"="+Hex(string(a.Value)))
	}
	b.WriteString(" @[" + strings.Join(anns, ",") + "]")
	b.WriteString(" P:" + ShowScopeC07(p.Principal) + " A:" + ShowScopeC07(p.Action) + " R:" + ShowScopeC07(p.Resource))
	var cs []string
	for _, c := range p.Conditions {
		k := "unless "
		if c.Condition == ast.ConditionWhen {
			k = "when "
		}
		cs = append(cs, k+ShowExprC07(c.Body))
	}
	b.WriteString(" C[" + strings.Join(cs, ";") + "]")
	if pos {
		fmt.Fprintf(&b, " @%d:%d:%d", p.Position.Offset, p.Position.Line, p.Position.Column)
	}
	return b.String()
}

// EncTokensC07 encodes the token slice of the Tokenize hook for the op parse-tokens.
func EncTokensC07(ts []verifhooks.C0708Token) any {
	out := make([]any, len(ts))
	for i, t := range ts {
		out[i] = []any{t.Type, t.Offset, t.Line, t.Column, Hex(t.Text)}
	}
	return out
}
