package vh

// C10 generators, part b: comment-rich text seeds, the exhaustive comment-boundary family, whole-text edit passes
// (truncate / cut / delete at EVERY byte offset) and the "long run" forms (linear, not nested, attacker-sized input).

import (
	"fmt"
	"strings"
)

// ---------- comment-rich seeds ----------

// C10CommentPolicyTexts: policy text with line and block comments in every position class (start of input, between
// any two tokens, inside scope / condition / set / annotation lists, at the very end with and without a newline),
// comments containing '*', '/', "*/"-lookalikes ("* /", "*\n/"), nested-looking "/* /* */", doc-style "/** **/", the
// degenerate "/**/" and "/***/".  The first two are valid (so that their truncations walk through every tokenizer
// state of a valid document); the rest end in an open or lookalike comment.
var C10CommentPolicyTexts = []string{
	"// leading line comment\n/* block */ /** doc **/ @id(\"a\") /* ann */ permit /* * */ ( /**/ principal /* / */ == User::\"a\" // eol\n" +
		" , action /* /* nested-looking */ in [Action::\"a\" /***/ , Action::\"b\"], resource ) /* * / */ when /* a*b/c */ { context.a /* x */ . b // y */ z\n" +
		" < 1 /**/ && /**/ principal has /* */ \"a b\" } /* c */ unless { /* d *\n/ e */ false /* f **/ } /* g */ ; /* trailing * star */\n// last line, no newline",
	"/**/permit(principal,action,resource)/**/when{/**/[1/**/,2//\n,/***/3].contains(/* // */1)//*\n&&\"/* not a comment */\"!=\"// nor this\"}/**/;/**//**/\n/* */\n//",
	"permit(principal, action, resource); /* trailing star *",
	"permit(principal, action, resource); /**",
	"/*/ permit(principal, action, resource); /*/ permit(principal, action, resource); /* */",
	"permit(principal, action, resource) when { 1 /* a */ * /* b */ 2 == 2 /* c * / d */ }; // * / */ /*\n/* * * ** / */ permit(principal, action, resource);//\n//\n/",
}

// C10CommentSchemaTexts: the same for Cedar schema text.
var C10CommentSchemaTexts = []string{
	"// leading line comment\n/* block */ /** doc **/ @doc(\"d\") /* ann */ entity User /* * */ in /**/ [Group /* / */ ] // eol\n" +
		" { n /* /* nested-looking */ ?: Long, /***/ s: String, // attr */ x\n r: { /* * / */ e?: User } /* a*b/c */ } tags /* */ String; /* c *\n/ d */\n" +
		"entity Group; /* f **/ action /* g */ a, \"b c\" appliesTo { principal: [User], /**/ resource: Group, context: {} }; /* trailing * star */\n// last line, no newline",
	"/**/namespace/**/NS/**/{/***/type T=/* // */Set</* */Long/* / */>;//*\naction a in[b]/**/;action b;entity E enum[\"/* not a comment */\",\"// nor this\"];}/**//**/\n/* */\n//",
	"entity E; /* trailing star *",
	"entity E; /**",
	"/*/ entity E; /*/ entity F; /* */",
	"entity E { a: Long /* a */ , /* b * / c */ }; // * / */ /*\n/* * * ** / */ type T = Long;//\n//\n/",
}

// C10EditsAtEveryByte yields, for every byte offset i of src: the prefix src[:i] ("cut-tail"), the suffix src[i:]
// ("cut-head"), src without byte i ("del1") and src without bytes i,i+1 ("del2").  Together they put every fragment
// "/", "/*", "/**", "/* … *", "*/", "*" at the end of the input, at its start, and in the middle.
func C10EditsAtEveryByte(src string, each func(kind, text string)) {
	for i := 0; i <= len(src); i++ {
		each("cut-tail", src[:i])
		if i > 0 {
			each("cut-head", src[i:])
		}
		if i < len(src) {
			each("del1", src[:i]+src[i+1:])
		}
		if i+1 < len(src) {
			each("del2", src[:i]+src[i+2:])
		}
	}
}

// C10CommentAlphabet: the bytes that drive the comment-boundary states of both lexers (plus one identifier byte and
// one terminator).
const C10CommentAlphabet = "/* \na;"

// C10AllStrings yields every string of length 0..maxLen over alphabet (|alphabet|^0 + … + |alphabet|^maxLen strings).
func C10AllStrings(alphabet string, maxLen int, each func(s string)) {
	buf := make([]byte, 0, maxLen)
	var rec func()
	rec = func() {
		each(string(buf))
		if len(buf) == maxLen {
			return
		}
		for i := 0; i < len(alphabet); i++ {
			buf = append(buf, alphabet[i])
			rec()
			buf = buf[:len(buf)-1]
		}
	}
	rec()
}

// ---------- long runs ----------

// C10RunForms: LINEAR inputs — N consecutive items of one kind, or one token of N bytes.  No nesting anywhere: a
// decoder that needs more than constant stack (or more than ~linear time) for these is not total in bounded stack.
// Every policy form ends in (or consists of) real tokens, so the decoder has to come back from the run.
var C10RunForms = []C10DeepForm{
	// Cedar policy text: runs of trivia
	{"run-line-comments", "policy-text", func(n int) []byte { return c10Rep("", "//\n", n, c10RunPolicy) }},
	{"run-line-comments-text", "policy-text", func(n int) []byte { return c10Rep("", "// c */ /*\n", n, c10RunPolicy) }},
	{"run-block-comments", "policy-text", func(n int) []byte { return c10Rep("", "/**/", n, c10RunPolicy) }},
	{"run-block-comments-nl", "policy-text", func(n int) []byte { return c10Rep("", "/* c * / */\n", n, c10RunPolicy) }},
	{"run-mixed-comments", "policy-text", func(n int) []byte { return c10Rep("", "/* a */ // b\n\t/** c **/\r\n", (n+2)/3, c10RunPolicy) }},
	{"run-comments-inside", "policy-text", func(n int) []byte {
		return c10Rep("permit(principal, action, resource) when { ", "/* c */ ", n, "true };")
	}},
	{"run-comments-trailing", "policy-text", func(n int) []byte { return c10Rep(c10RunPolicy, "// c\n", n, "") }},
	{"run-comments-unterminated", "policy-text", func(n int) []byte { return c10Rep(c10RunPolicy, "/**/", n, "/*") }},
	{"run-blank-lines", "policy-text", func(n int) []byte { return c10Rep("", "\n", n, c10RunPolicy) }},
	{"run-whitespace", "policy-text", func(n int) []byte { return []byte(rep(" \t\r\n", n) + c10RunPolicy + rep(" ", n)) }},
	// runs of syntax items (wide, depth 1)
	{"run-annotations", "policy-text", func(n int) []byte {
		var b strings.Builder
		for i := 0; i < n; i++ {
			fmt.Fprintf(&b, "@a%d(\"v\")\n", i)
		}
		b.WriteString(c10RunPolicy)
		return []byte(b.String())
	}},
	{"run-policies", "policy-text", func(n int) []byte { return []byte(rep("permit(principal, action, resource);\n", n)) }},
	{"run-policies-commented", "policy-text", func(n int) []byte {
		return []byte(rep("// p\npermit(principal, action, resource) /* c */ when { true };\n", n))
	}},
	{"run-conditions", "policy-text", func(n int) []byte {
		return []byte("permit(principal, action, resource)" + rep("\nwhen { true }", n) + ";")
	}},
	{"run-set-elems", "policy-text", func(n int) []byte { return c10PolicyText("[" + rep("1, ", n) + "1].contains(1)") }},
	{"run-record-attrs", "policy-text", func(n int) []byte {
		var b strings.Builder
		b.WriteString("{")
		for i := 0; i < n; i++ {
			fmt.Fprintf(&b, "a%d: 1, ", i)
		}
		b.WriteString("z: 1}.z == 1")
		return c10PolicyText(b.String())
	}},
	{"run-call-args", "policy-text", func(n int) []byte { return c10PolicyText("ip(" + rep(`"::1", `, n) + `"::1").isLoopback()`) }},
	// one token of N bytes
	{"long-ident", "policy-text", func(n int) []byte { return c10PolicyText("context." + rep("a", n) + " == 1") }},
	{"long-path", "policy-text", func(n int) []byte { return c10PolicyText("principal is " + rep("A::", n) + "A") }},
	{"long-string-plain", "policy-text", func(n int) []byte { return c10PolicyText(`"` + rep("a", n) + `" == ""`) }},
	{"long-string-escapes", "policy-text", func(n int) []byte { return c10PolicyText(`"` + rep(`\n\\\"`, n) + `" like "` + rep(`\*`, n) + `"`) }},
	{"long-int-zeros", "policy-text", func(n int) []byte { return c10PolicyText(rep("0", n) + "1 == 1") }},
	{"long-int-nines", "policy-text", func(n int) []byte { return c10PolicyText(rep("9", n) + " == 1") }},
	{"long-line-comment", "policy-text", func(n int) []byte { return c10Rep("// ", "c", n, "\n"+c10RunPolicy) }},
	{"long-block-comment", "policy-text", func(n int) []byte { return c10Rep("/* ", "* / ", (n+3)/4, "*/"+c10RunPolicy) }},
	{"long-unknown-bytes", "policy-text", func(n int) []byte { return c10Rep(c10RunPolicy, "\x00", n, "") }},

	// Cedar schema text: runs of trivia
	{"s-run-line-comments", "schema-text", func(n int) []byte { return c10Rep("", "//\n", n, c10RunSchema) }},
	{"s-run-block-comments", "schema-text", func(n int) []byte { return c10Rep("", "/**/", n, c10RunSchema) }},
	{"s-run-mixed-comments", "schema-text", func(n int) []byte { return c10Rep("", "/* a */ // b\n\t/** c **/\r\n", (n+2)/3, c10RunSchema) }},
	{"s-run-comments-inside", "schema-text", func(n int) []byte {
		return c10Rep("entity E { ", "/* c */ ", n, "a: Long };")
	}},
	{"s-run-comments-trailing", "schema-text", func(n int) []byte { return c10Rep(c10RunSchema, "// c\n", n, "") }},
	{"s-run-comments-unterminated", "schema-text", func(n int) []byte { return c10Rep(c10RunSchema, "/**/", n, "/* *") }},
	{"s-run-whitespace", "schema-text", func(n int) []byte { return []byte(rep(" \t\r\n", n) + c10RunSchema + rep("\n", n)) }},
	// runs of declarations
	{"s-run-entities", "schema-text", func(n int) []byte {
		var b strings.Builder
		for i := 0; i < n; i++ {
			fmt.Fprintf(&b, "entity E%d;\n", i)
		}
		return []byte(b.String())
	}},
	{"s-run-entity-names", "schema-text", func(n int) []byte {
		var b strings.Builder
		b.WriteString("entity ")
		for i := 0; i < n; i++ {
			fmt.Fprintf(&b, "E%d, ", i)
		}
		b.WriteString("Z;")
		return []byte(b.String())
	}},
	{"s-run-namespaces", "schema-text", func(n int) []byte {
		var b strings.Builder
		for i := 0; i < n; i++ {
			fmt.Fprintf(&b, "namespace N%d { entity E; }\n", i)
		}
		return []byte(b.String())
	}},
	{"s-run-actions", "schema-text", func(n int) []byte {
		var b strings.Builder
		b.WriteString("entity E;\n")
		for i := 0; i < n; i++ {
			fmt.Fprintf(&b, "action a%d appliesTo { principal: E, resource: E };\n", i)
		}
		return []byte(b.String())
	}},
	{"s-run-types", "schema-text", func(n int) []byte {
		var b strings.Builder
		for i := 0; i < n; i++ {
			fmt.Fprintf(&b, "type T%d = Long;\n", i)
		}
		return []byte(b.String())
	}},
	{"s-run-annotations", "schema-text", func(n int) []byte {
		var b strings.Builder
		for i := 0; i < n; i++ {
			fmt.Fprintf(&b, "@a%d(\"v\")\n", i)
		}
		b.WriteString(c10RunSchema)
		return []byte(b.String())
	}},
	{"s-run-attrs", "schema-text", func(n int) []byte {
		var b strings.Builder
		b.WriteString("entity E { ")
		for i := 0; i < n; i++ {
			fmt.Fprintf(&b, "a%d: Long, ", i)
		}
		b.WriteString("z: Long };")
		return []byte(b.String())
	}},
	{"s-run-parents", "schema-text", func(n int) []byte { return []byte("entity P; entity E in [" + rep("P, ", n) + "P];") }},
	{"s-run-enum", "schema-text", func(n int) []byte {
		var b strings.Builder
		b.WriteString("entity E enum [")
		for i := 0; i < n; i++ {
			fmt.Fprintf(&b, "\"e%d\", ", i)
		}
		b.WriteString("\"z\"];")
		return []byte(b.String())
	}},
	// one token of N bytes
	{"s-long-ident", "schema-text", func(n int) []byte { return c10Rep("entity ", "E", n, ";") }},
	{"s-long-path", "schema-text", func(n int) []byte { return []byte("entity E; type T = " + rep("A::", n) + "E;") }},
	{"s-long-string", "schema-text", func(n int) []byte { return []byte("entity E { \"" + rep(`a\n`, n) + "\": Long };") }},
	{"s-long-line-comment", "schema-text", func(n int) []byte { return c10Rep("// ", "c", n, "\n"+c10RunSchema) }},
	{"s-long-block-comment", "schema-text", func(n int) []byte { return c10Rep("/* ", "* / ", (n+3)/4, "*/"+c10RunSchema) }},
}

const c10RunPolicy = "permit(principal, action, resource) when { context.a == 1 };\n"
const c10RunSchema = "entity E in [E] { a: Long };\naction a appliesTo { principal: E, resource: E };\n"

// c10Rep builds prefix + item*n + suffix with one allocation (the quick tier builds inputs of several megabytes).
func c10Rep(prefix, item string, n int, suffix string) []byte {
	b := make([]byte, 0, len(prefix)+len(item)*n+len(suffix))
	b = append(b, prefix...)
	for i := 0; i < n; i++ {
		b = append(b, item...)
	}
	return append(b, suffix...)
}

// C10FindRunForm looks a run form up by name.
func C10FindRunForm(name string) *C10DeepForm {
	for i := range C10RunForms {
		if C10RunForms[i].Name == name {
			return &C10RunForms[i]
		}
	}
	return nil
}
