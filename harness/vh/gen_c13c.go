package vh

// C13, second round: generators and canonical renderings for
//   - entity maps with the ORDER of the emitted array (sort key UID.String(), not (type, id)),
//   - cedar.Diagnostic / cedar.Decision,
//   - nested schema-guided coercion with an independent choice of spelling at every typed leaf.

import (
	"encoding/json"
	"fmt"
	"math"
	"strings"

	cedar "github.com/cedar-policy/cedar-go"
	"github.com/cedar-policy/cedar-go/types"
	"github.com/cedar-policy/cedar-go/x/exp/schema/resolved"
)

// ---- entity maps: UIDs whose String() order differs from their (type, id) order ----

// type names around the separator "::" (0x3a): a type that is a proper prefix of another sorts first as a pair,
// but `T::"…` vs `T!::"…` is decided by ':' against '!' .
var orderTypesC13 = []string{"A", "A ", "A!", "A:", "A::", "A::B", "A;", "A9", "AB", "a", "", "\u00c9", "A\"", "A::\"x\"::B"}

// ids whose escaped form (rust.EscapeString) orders differently from the raw string: `"` (0x22) escapes to `\"` (0x5c),
// control characters to `\n`, `\u{…}`; U+0301 (grapheme extend) is escaped only as the first character.
var orderIDsC13 = []string{"", "x", "\"", "#", "!", "\n", "\t", "\\", "a\"b", "a#b", "\x00", "\x7f", "\u0301", "a\u0301", "\u200b", "\u00e9", "'", "x\"::\"y", "~"}

// OrderUIDC13 draws from the two tables above (small product: collisions between entities of one map are frequent
// enough to exercise every pairwise order).
func (g *Gen) OrderUIDC13() types.EntityUID {
	return types.NewEntityUID(types.EntityType(orderTypesC13[g.pick(len(orderTypesC13))]), types.String(orderIDsC13[g.pick(len(orderIDsC13))]))
}

// EntityMapOrderC13: 0..6 entities over order-sensitive UIDs (half of the time) or arbitrary ones.
func (g *Gen) EntityMapOrderC13() types.EntityMap {
	m := types.EntityMap{}
	special := g.chance(0.5)
	for i, n := 0, g.pick(7); i < n; i++ {
		var u types.EntityUID
		if special {
			u = g.OrderUIDC13()
		} else {
			u = g.UIDC13()
		}
		e := g.EntityC13(u, 1)
		if special && g.chance(0.5) { // parents over the same look-alike UIDs: their order is by (type, id)
			var ps []types.EntityUID
			for j, k := 0, g.pick(4); j < k; j++ {
				ps = append(ps, g.OrderUIDC13())
			}
			e.Parents = types.NewEntityUIDSet(ps...)
		}
		m[u] = e
	}
	return m
}

// EncEntitiesShuffledC13 is EncEntities with the entries (and each parents list) in a random order: the model must
// not depend on the order in which it is handed the map.
func (g *Gen) EncEntitiesShuffledC13(m types.EntityMap) any {
	out := EncEntities(m).([]any)
	g.R.Shuffle(len(out), func(i, j int) { out[i], out[j] = out[j], out[i] })
	for _, e := range out {
		ps := e.(map[string]any)["parents"].([]any)
		g.R.Shuffle(len(ps), func(i, j int) { ps[i], ps[j] = ps[j], ps[i] })
	}
	return out
}

// CanonEntityMapC13 renders an entity-map document: outer array and every "parents" array in document order,
// "attrs" / "tags" as value documents (arrays sorted). Lean: canonEntityMapC13.
func CanonEntityMapC13(tree any) string {
	arr, ok := tree.([]any)
	if !ok {
		return CanonJSON(tree, false)
	}
	xs := make([]string, len(arr))
	for i, e := range arr {
		obj, ok := e.(map[string]any)
		if !ok {
			xs[i] = CanonJSON(e, false)
			continue
		}
		ks := sortedKeysOfC0913(obj)
		parts := make([]string, len(ks))
		for j, k := range ks {
			parts[j] = Hex(k) + ":" + CanonJSON(obj[k], k == "attrs" || k == "tags")
		}
		xs[i] = "{" + strings.Join(parts, ",") + "}"
	}
	return "[" + strings.Join(xs, ",") + "]"
}

// ---- diagnostics ----

var diagIntsC13 = []int{0, 1, -1, 2, 7, 100, 1 << 31, math.MaxInt64, math.MinInt64, math.MaxInt64 - 1, 1 << 53, 1<<53 + 1}

func (g *Gen) diagInt() int {
	if g.chance(0.3) {
		return diagIntsC13[g.pick(len(diagIntsC13))]
	}
	return g.R.Intn(5000)
}

func (g *Gen) PositionC13() cedar.Position {
	if g.chance(0.15) {
		return cedar.Position{}
	}
	return cedar.Position{Filename: g.UnicodeString(), Offset: g.diagInt(), Line: g.diagInt(), Column: g.diagInt()}
}

// DiagnosticC13: each slice nil, empty non-nil, or 1..3 elements.
func (g *Gen) DiagnosticC13() cedar.Diagnostic {
	var d cedar.Diagnostic
	switch g.pick(4) {
	case 0:
	case 1:
		d.Reasons = []cedar.DiagnosticReason{}
	default:
		for i, n := 0, 1+g.pick(3); i < n; i++ {
			d.Reasons = append(d.Reasons, cedar.DiagnosticReason{PolicyID: cedar.PolicyID(g.UnicodeString()), Position: g.PositionC13()})
		}
	}
	switch g.pick(4) {
	case 0:
	case 1:
		d.Errors = []cedar.DiagnosticError{}
	default:
		for i, n := 0, 1+g.pick(3); i < n; i++ {
			d.Errors = append(d.Errors, cedar.DiagnosticError{PolicyID: cedar.PolicyID(g.UnicodeString()), Position: g.PositionC13(), Message: g.UnicodeString()})
		}
	}
	return d
}

func encPositionC13(p cedar.Position) any {
	return []any{Hex(p.Filename), json.Number(i64(int64(p.Offset))), json.Number(i64(int64(p.Line))), json.Number(i64(int64(p.Column)))}
}

// EncDiagC13 encodes a Diagnostic for the diagjson-encode op (nil slice = null).
func EncDiagC13(d cedar.Diagnostic) any {
	var rs, es any
	if d.Reasons != nil {
		xs := []any{}
		for _, r := range d.Reasons {
			xs = append(xs, []any{Hex(string(r.PolicyID)), encPositionC13(r.Position)})
		}
		rs = xs
	}
	if d.Errors != nil {
		xs := []any{}
		for _, e := range d.Errors {
			xs = append(xs, []any{Hex(string(e.PolicyID)), encPositionC13(e.Position), Hex(e.Message)})
		}
		es = xs
	}
	return map[string]any{"reasons": rs, "errors": es}
}

func showPositionC13(p cedar.Position) string {
	return fmt.Sprintf("%s:%d:%d:%d", Hex(p.Filename), p.Offset, p.Line, p.Column)
}

// ShowDiagC13 renders a decoded Diagnostic (nil and empty slices told apart). Lean: showDiagC13.
func ShowDiagC13(d cedar.Diagnostic) string {
	rs, es := "nil", "nil"
	if d.Reasons != nil {
		xs := make([]string, len(d.Reasons))
		for i, r := range d.Reasons {
			xs[i] = Hex(string(r.PolicyID)) + "@" + showPositionC13(r.Position)
		}
		rs = "[" + strings.Join(xs, ",") + "]"
	}
	if d.Errors != nil {
		xs := make([]string, len(d.Errors))
		for i, e := range d.Errors {
			xs[i] = Hex(string(e.PolicyID)) + "@" + showPositionC13(e.Position) + "#" + Hex(e.Message)
		}
		es = "[" + strings.Join(xs, ",") + "]"
	}
	return "R=" + rs + " E=" + es
}

var DiagKeysC13 = []string{"reasons", "errors", "policy", "position", "message", "filename", "offset", "line", "column", "Reasons", "ERRORS", "Policy", "POSITION", "Message", "Line", "x", ""}
var DiagValuesC13 = []any{nil, json.Number("1"), json.Number("-1"), json.Number("1.0"), json.Number("1.5"), json.Number("9223372036854775807"), json.Number("9223372036854775808"),
	json.Number("-9223372036854775808"), json.Number("-9223372036854775809"), "1", "x", true, []any{}, map[string]any{}, []any{nil}, []any{map[string]any{}},
	map[string]any{"line": json.Number("3")}, map[string]any{"policy": "p", "position": map[string]any{"filename": "f"}}}

// ---- JSON string tokens (for the Decision decoder, which looks at the raw token) ----

// JSONStringTokenC13 spells s as a JSON string token choosing, per character, the plain form, the two-character
// escape where one exists, or \uXXXX (BMP scalar values only; others stay plain).
func (g *Gen) JSONStringTokenC13(s string) string {
	var b strings.Builder
	b.WriteByte('"')
	for _, r := range s {
		two := map[rune]string{'"': `\"`, '\\': `\\`, '/': `\/`, '\b': `\b`, '\f': `\f`, '\n': `\n`, '\r': `\r`, '\t': `\t`}[r]
		switch {
		case r < 0x20 || r == '"' || r == '\\':
			if two != "" && g.chance(0.5) {
				b.WriteString(two)
			} else {
				fmt.Fprintf(&b, `\u%04x`, r)
			}
		case r < 0x10000 && !(r >= 0xD800 && r <= 0xDFFF) && g.chance(0.3):
			if g.chance(0.5) {
				fmt.Fprintf(&b, `\u%04x`, r)
			} else {
				fmt.Fprintf(&b, `\u%04X`, r)
			}
		case two != "" && g.chance(0.3):
			b.WriteString(two)
		default:
			b.WriteRune(r)
		}
	}
	b.WriteByte('"')
	return b.String()
}

// ---- nested coercion: a spelling chosen independently at every typed leaf ----

// MixedJSON spells v (a value of schema type t) choosing at random, at every entity- or extension-typed leaf, the
// explicit escape or an implicit form. accepted=false when a form was used that the schema-guided decoder does not
// take for the datum by design (bare {"fn","arg"} object in a value position: it is a record there).
func (g *Gen) MixedJSON(v types.Value, t resolved.IsType) (tree any, accepted bool) {
	accepted = true
	var walk func(v types.Value, t resolved.IsType) any
	walk = func(v types.Value, t resolved.IsType) any {
		switch tt := t.(type) {
		case resolved.EntityType:
			u := v.(types.EntityUID)
			switch g.pick(5) {
			case 0, 1:
				return map[string]any{"__entity": map[string]any{"type": string(u.Type), "id": string(u.ID)}}
			case 2: // explicit escape wins over implicit members
				return map[string]any{"__entity": map[string]any{"type": string(u.Type), "id": string(u.ID)}, "type": "Other", "id": "other"}
			default:
				return map[string]any{"type": string(u.Type), "id": string(u.ID)}
			}
		case resolved.ExtensionType:
			arg := v.(interface{ String() string }).String()
			fn := map[types.Ident]string{"ipaddr": "ip", "decimal": "decimal", "datetime": "datetime", "duration": "duration"}[types.Ident(tt)]
			switch g.pick(6) {
			case 0, 1:
				return map[string]any{"__extn": map[string]any{"fn": fn, "arg": arg}}
			case 2:
				accepted = false
				return map[string]any{"fn": fn, "arg": arg}
			case 3: // another text of the same value, where the parser has one
				if d, ok := v.(types.Decimal); ok {
					if alt := arg + "0"; len(alt)-strings.IndexByte(alt, '.') <= 5 {
						if p, err := types.ParseDecimal(alt); err == nil && p == d {
							return alt
						}
					}
				}
				return arg
			default:
				return arg
			}
		case resolved.SetType:
			out := []any{}
			for x := range v.(types.Set).All() {
				out = append(out, walk(x, tt.Element))
				if g.chance(0.15) { // the same member spelled a second time: sets absorb it
					out = append(out, walk(x, tt.Element))
				}
			}
			return out
		case resolved.RecordType:
			out := map[string]any{}
			for k, x := range v.(types.Record).All() {
				out[string(k)] = walk(x, tt[k].Type)
			}
			return out
		case resolved.LongType:
			return json.Number(i64(int64(v.(types.Long))))
		case resolved.BoolType:
			return bool(v.(types.Boolean))
		default:
			return string(v.(types.String))
		}
	}
	return walk(v, t), accepted
}

// MixedEntityJSON spells one entity of a schema world with mixed spellings everywhere.
func (g *Gen) MixedEntityJSON(e types.Entity, se resolved.Entity) (tree any, accepted bool) {
	uidj := func(u types.EntityUID) any {
		if g.chance(0.5) {
			return map[string]any{"type": string(u.Type), "id": string(u.ID)}
		}
		return map[string]any{"__entity": map[string]any{"type": string(u.Type), "id": string(u.ID)}}
	}
	ps := []any{}
	for p := range e.Parents.All() {
		ps = append(ps, uidj(p))
	}
	attrs, ok1 := g.MixedJSON(e.Attributes, se.Shape)
	tags := map[string]any{}
	ok2 := true
	for k, v := range e.Tags.All() {
		var ok bool
		tags[string(k)], ok = g.MixedJSON(v, se.Tags)
		ok2 = ok2 && ok
	}
	return map[string]any{"uid": uidj(e.UID), "parents": ps, "attrs": attrs, "tags": tags}, ok1 && ok2
}

// DeepTypeC13 is TypeC13 biased towards containers: at every level a set or a record with probability 0.7, so that
// typed leaves are reached at depth 2..depth+1 most of the time.
func (g *Gen) DeepTypeC13(depth int) resolved.IsType {
	if depth <= 0 || !g.chance(0.7) {
		return g.TypeC13(0)
	}
	if g.chance(0.5) {
		return resolved.SetType{Element: g.DeepTypeC13(depth - 1)}
	}
	rt := resolved.RecordType{}
	for i, n := 0, 1+g.pick(3); i < n; i++ {
		rt[schemaAttrNames[g.pick(len(schemaAttrNames))]] = resolved.Attribute{Type: g.DeepTypeC13(depth - 1), Optional: g.chance(0.3)}
	}
	return rt
}
