package vh

// C15 generators, fifth part.
//
//   action-in-mixed  `action in [ … ]` / `Action::"x" in [ … ]` (the validator folds these to True / False from the
//                    schema's action hierarchy when every element is a literal) against a set literal that MIXES entity
//                    literals (actions that are / are not the request action or one of its groups, entities of other
//                    types) with NON-LITERAL elements of action type (if-then-else over action literals and the `action`
//                    variable, nested), in any order; all-literal and all-non-literal sets too.  The test guards an
//                    ill-typed / unsafely accessing / well-typed operand as in in-lub-guard.
//   clause-caps      policies with SEVERAL when/unless clauses in every combination, one of them a has / hasTag guard
//                    (plain, conjoined, negated, disjoined, …), another one reading the optional attribute / tag with or
//                    without a guard of its own, the guard before or after the reader, optionally an unrelated clause
//                    in between or a second guard clause: capabilities must not flow from clause to clause.

import (
	"github.com/cedar-policy/cedar-go/types"
	"github.com/cedar-policy/cedar-go/x/exp/ast"
)

// guardedOperand: what a statically folded test guards: mostly ill-typed, sometimes an unguarded optional access,
// sometimes well-typed.
func (c *C15Gen) guardedOperand(d int) (ast.IsNode, string) {
	switch k := c.pick(20); {
	case k < 12:
		return c.junkExpr(d - 1), "junk"
	case k < 16:
		if u, ok := c.unsafeUse(d - 1); ok {
			return u, "unsafe-access"
		}
		return c.junkExpr(d - 1), "junk"
	}
	return c.boolExpr(d - 1), "well-typed"
}

// actionInMixed: see the file comment.
func (c *C15Gen) actionInMixed(d int) (ast.IsNode, bool) {
	req := c.Env.Action
	related := map[types.EntityUID]bool{req: true}
	for _, a := range c.S.ActionClosure(req) {
		related[a] = true
	}
	var rel, unrel []types.EntityUID
	for _, a := range c.S.ActionUIDs {
		if related[a] {
			rel = append(rel, a)
		} else {
			unrel = append(unrel, a)
		}
	}
	av := vr("action")
	// ---- left operand
	var lhs ast.IsNode = av
	lform := "action-var"
	switch k := c.pick(20); {
	case k < 3:
		lhs, lform = lit(req), "request-action-literal"
	case k < 5:
		lhs, lform = lit(c.S.ActionUIDs[c.pick(len(c.S.ActionUIDs))]), "action-literal"
	}
	// ---- literal elements
	var elems []ast.IsNode
	lmode := ""
	switch k := c.pick(20); {
	case k < 13:
		lmode = "literals-unrelated"
		n := 1 + c.pick(2)
		for i := 0; i < n; i++ {
			if len(unrel) > 0 && c.chance(0.8) {
				elems = append(elems, lit(unrel[c.pick(len(unrel))]))
			} else { // an entity literal of another type (permissive only)
				ts := c.S.AllEntityTypes()
				elems = append(elems, lit(c.uidOf(ts[c.pick(len(ts))])))
				lmode = "literals-unrelated(+non-action)"
			}
		}
	case k < 17:
		lmode = "literals-some-related"
		elems = append(elems, lit(rel[c.pick(len(rel))]))
		if len(unrel) > 0 && c.chance(0.6) {
			elems = append(elems, lit(unrel[c.pick(len(unrel))]))
		}
	default:
		lmode = "no-literal"
	}
	// ---- non-literal elements of action type
	pickAct := func(hit bool) ast.IsNode {
		if hit {
			if c.chance(0.3) {
				return av
			}
			return lit(rel[c.pick(len(rel))])
		}
		if len(unrel) > 0 {
			return lit(unrel[c.pick(len(unrel))])
		}
		return lit(rel[c.pick(len(rel))])
	}
	nmode := ""
	nNon := 1
	if c.chance(0.25) {
		nNon = 2
	}
	if lmode != "no-literal" && c.chance(0.12) {
		nNon, nmode = 0, "no-non-literal"
	}
	for i := 0; i < nNon; i++ {
		var e ast.IsNode
		switch k := c.pick(10); {
		case k < 6:
			e, nmode = iteN(c.condBool(), pickAct(true), pickAct(true)), "non-literal-always-related"
		case k < 8:
			e, nmode = iteN(c.condBool(), pickAct(true), pickAct(false)), "non-literal-sometimes-related"
		case k < 9:
			e, nmode = iteN(c.condBool(), iteN(c.condBool(), pickAct(true), pickAct(true)), pickAct(true)), "non-literal-always-related"
		default:
			e, nmode = iteN(c.condBool(), pickAct(false), pickAct(false)), "non-literal-never-related"
		}
		elems = append(elems, e)
	}
	if len(elems) == 0 {
		return nil, false
	}
	sh := make([]ast.IsNode, len(elems))
	for i, j := range c.G.R.Perm(len(elems)) {
		sh[i] = elems[j]
	}
	var test ast.IsNode = ast.NodeTypeIn{BinaryNode: bin(lhs, ast.NodeTypeSet{Elements: sh})}
	c.Probe = test
	x, xk := c.guardedOperand(d)
	n, wrap := c.guardWrap(test, x, d)
	c.note("action-in:" + lmode + "," + nmode)
	c.note("action-in:lhs=" + lform)
	c.note("action-in:wrap=" + wrap)
	c.note("action-in:operand=" + xk)
	return n, true
}

// C15Clause is one when/unless clause of a generated policy; Raw clauses are used as they are (no semantic-preserving
// rewriting into `unless`).
type c15Clause struct {
	when bool
	body ast.IsNode
	raw  bool
}

// clauseCaps: see the file comment.
func (c *C15Gen) clauseCaps() ([]c15Clause, bool) {
	sites := c.capSites(1)
	if len(sites) == 0 {
		return nil, false
	}
	s := sites[c.pick(len(sites))]
	h, use := s.guard, s.use
	b := func() ast.IsNode { return c.boolExpr(1) }
	kind := func(w bool) string {
		if w {
			return "when"
		}
		return "unless"
	}
	// ---- the guard clause
	var g ast.IsNode
	gform := ""
	switch k := c.pick(14); {
	case k < 5:
		g, gform = h(), "h"
	case k < 7:
		g, gform = andN(h(), b()), "h&&b"
	case k < 8:
		g, gform = andN(b(), h()), "b&&h"
	case k < 10:
		g, gform = notN(h()), "!h"
	case k < 11:
		g, gform = orN(h(), b()), "h||b"
	case k < 12:
		g, gform = iteN(h(), lit(types.True), lit(types.False)), "if-h-then-true-else-false"
	case k < 13:
		g, gform = andN(h(), c.singletonOf(false, 1)), "h&&F"
	default:
		g, gform = orN(h(), c.singletonOf(true, 1)), "h||T"
	}
	gWhen := c.chance(0.5)
	// ---- the reading clause
	var r ast.IsNode
	rform := ""
	switch k := c.pick(12); {
	case k < 6:
		r, rform = use(), "reads"
	case k < 8:
		r, rform = andN(b(), use()), "b&&reads"
	case k < 9:
		r, rform = andN(h(), use()), "own-guard&&reads"
	case k < 10:
		r, rform = iteN(h(), use(), b()), "if-own-guard-then-reads"
	case k < 11:
		r, rform = orN(notN(h()), use()), "!own-guard||reads"
	default:
		r, rform = orN(h(), use()), "own-guard||reads"
	}
	rWhen := c.chance(0.6)
	gc, rc := c15Clause{when: gWhen, body: g, raw: true}, c15Clause{when: rWhen, body: r, raw: true}
	var out []c15Clause
	order := "guard-first"
	if c.chance(0.15) {
		out, order = []c15Clause{rc, gc}, "reader-first"
	} else {
		out = []c15Clause{gc}
		if c.chance(0.25) { // an unrelated clause in between
			out = append(out, c15Clause{when: c.chance(0.5), body: b(), raw: true})
			order += "+middle"
		}
		if len(sites) > 1 && c.chance(0.2) { // a second guard clause (another optional thing)
			s2 := sites[c.pick(len(sites))]
			out = append(out, c15Clause{when: c.chance(0.5), body: s2.guard(), raw: true})
			if c.chance(0.5) {
				rc.body = andN(rc.body, s2.use())
			}
			order += "+second-guard"
		}
		out = append(out, rc)
	}
	c.note("clauses:" + kind(gWhen) + "-guard," + kind(rWhen) + "-reader")
	c.note("clauses:guard=" + gform)
	c.note("clauses:reader=" + rform)
	c.note("clauses:order=" + order)
	c.note("clauses:site=" + s.kind)
	return out, true
}
